from common import KERNEL, CORR

PROP = dict(
    level="proof",
    generators=["C14"],
    harness_timeout=1500,
    trusted_base=[
        KERNEL, CORR,
        "MD5 (nazamd5.Md5), url.ParseQuery and base64 are parameters of the model; the theorems assume only ExtLaws (an MD5 digest prints as 32 hexadecimal digits; base64 decode inverts encode), and ExtLaws is PROVED for the instance the driver uses (laws_hold). "
        "The driver instantiates them with Lean implementations (Model/Md5.lean, Model/Url.lean) that the correspondence run compares with Go's on every op",
        "strings.ToLower is modelled for ASCII letters only; no non-ASCII rune lower-cases into [0-9a-f], so the comparison with an MD5 has the same outcome (values with U+212A and invalid UTF-8 are in the corpus)",
        "Spec/AccessSpec.lean: 'carries the secret' = the first lal_secret pair of the query read as application/x-www-form-urlencoded; valid RTSP credentials per RFC 7617 / RFC 2617 3.2.2 without qop, "
        "Digest validity is bound to the nonce the server issued last on the connection, the realm and uri are the ones the header declares (lal does not compare them with the challenge / the request line); "
        "path confinement = Path.under on cleaned paths; path meaning = walk without symbolic links",
        "the RTSP nonce (crypto/rand through MD5) and the clock (time.Now().Unix()) are inputs of the model; a replayed header is one whose nonce differs from the issued one (fresh nonces do not repeat: probabilistic)",
        "what http.ServeMux delivers to the HLS handler is OBSERVED per request (httptest, real mux, real hls.ServerHandler) and fed to the model as an input bit, not modelled; request targets not in origin-form get the oracle only",
        "net/url.Parse is modelled for 'http://<fixed host>' ++ origin-form request target only (control bytes, '#', '?', percent-decoding)",
        "verif hook pkg/hls/verif_export.go (VerifSetFsl): the HLS muxer and handler run on an instrumented in-memory file-system layer; flv/mpegts recorders write real files into a sandbox directory",
        "server level: the RTMP client is lal's own rtmp.PushSession / PullSession (the server side is what is observed); HTTP and RTSP requests are written by the harness; "
        "'rejected' = the server closes the connection (HLS: answers without a body), 'listed' = StatAllGroup, 'notified' = INotifyHandler.OnPubStart/OnSubStart",
        "Generated/C14.lean: lal_secret, playlist.m3u8, record.m3u8 read from the source text; protocol names, Basic/Digest, the realm printed from the packages the harness was built against",
    ],
    modelled=["logic.SimpleAuthCtx.OnPubStart/OnSubStart/OnHls/check, SimpleAuthCalcSecret", "rtsp.Auth.ParseAuthorization/CheckAuthorization/MakeAuthenticate/FeedWwwAuthenticate/MakeAuthorization/getV",
              "rtsp.ServerCommandSession.handleAuthorized and the authentication stage of handleDescribe (driven over net.Pipe)", "logic.IpBlacklist.Add/Has/eraseStale", "ServerManager.serveHls (order of checks; real server over HTTP)",
              "ServerManager.OnNewRtmpPubSession/OnNewRtmpSubSession/OnNewHttpflvSubSession/OnNewHttptsSubSession/OnNewRtspPubSession/OnNewRtspSubSessionDescribe: callback before attach, what a rejected request leaves behind "
              "(Model/Admission.lean; a real logic.ServerManager on ephemeral ports with a recording INotifyHandler, real TCP clients)", "ServerManager.CtrlKickSession / Group.KickSession for RTMP pub/sub, HTTP-FLV and HTTP-TS subscribers, CtrlAddIpBlacklist",
              "base.parseUrlPath, UrlContext.GetFileType/GetFilenameWithoutType, url.ParseQuery, Values.Get",
              "hls.DefaultPathStrategy.GetRequestInfo/getStreamNameFromTsFileName/GetMuxerOutPath/GetLiveM3u8FileName/GetRecordM3u8FileName/GetTsFileName/GetTsFileNameWithPath, hls.StreamNameIsSafePathElement",
              "hls.ServerHandler.ServeHTTPWithUrlCtx with the sub-session mode off (which file is read)", "the paths hls.Muxer hands to the file-system layer (NewMuxer, ensureDir, openFragment, writePlaylist, writeRecordPlaylist, cleanup removal)",
              "logic.Group.startHlsIfNeeded/startRecordFlvIfNeeded/startRecordMpegtsIfNeeded (guards and file names) and the path given to CleanupHlsIfNeeded", "path/filepath.Clean and Join on '/'-separated strings"],
    not_modelled=["kick of RTSP / PS / pull / HLS sub-sessions (same dispatch, not driven)", "what a second publisher on the same stream gets (C03)", "hls sub-session mode (session_id redirect, keepSessionAlive)",
                  "http.ServeMux path cleaning/redirects (observed)", "RTSP ANNOUNCE/SETUP/PLAY/RECORD; RTSP authentication applies to DESCRIBE only in lal (ANNOUNCE is not authenticated by rtsp auth, only by simple auth)",
                  "error texts, log lines, HTTP status codes beyond invalid/served", "Windows path separators in filepath (the guard rejects '\\\\' in names all the same)", "symbolic links below the output directories"],
    assumptions=["RTSP: the 'valid credentials are always accepted' oracle applies to the DESCRIBE requests of a connection up to the first one that is answered with a description; since the C03 fix "
                 "(one ANNOUNCE / DESCRIBE per connection) a repeated DESCRIBE on a connection that already holds its session ends the connection after the authentication stage, whatever it carries - modelled in the session driver, outside the authentication theorems",
                 "the configured RTSP user name contains no ':' (RFC 7617) for rtsp_auth_iff_basic", "stream names / request paths are arbitrary byte strings; roots are arbitrary (absolute, relative, empty)",
                 "blacklist: calls are made at non-decreasing seconds and the address is not added again (blacklist_until_expiry)", "Go int is 64 bit"],
)

META = dict(
    text="Theorems (for every configuration, protocol, direction, stream name, query, header, prior connection state, root directory, request path): simple auth enabled => admitted IFF the query parses and its first "
         "lal_secret is md5(key++stream) in either case or exactly the override (simple_auth_iff), disabled => admitted; RTSP DESCRIBE passes authentication IFF valid Basic (rtsp_auth_iff_basic) / Digest credentials for the "
         "nonce issued on this connection (rtsp_auth_iff_digest), valid Basic and every RFC-2617-form Digest header always accepted, lal's own client (FeedWwwAuthenticate + MakeAuthorization) is accepted by lal's server for both methods "
         "(rtsp_client_server_basic/digest), other scheme / unknown method / no header never; blacklist answers true exactly until expiry and such a client is never served; "
         "the HLS handler reads at most one file and it is under the root for EVERY request path (read_confined); every path the group, the muxer and the recorders create is under the configured directory and unsafe names "
         "start nothing (write_confined); a request that does not pass its gate leaves the server unchanged and gets no answer, each entry point uses its own flag (rejected_has_no_effect, gate_is_own_flag), a kicked session is "
         "closed and removed, nothing else (kick_disconnects); the Clean/Join model is proved against its specification (normal form, idempotent, same meaning). Proof is the right level: the defects sat at single strings ('AbC', '..', '...m3u8', a Basic header). "
         "Seven defects of the pinned tree found through this check were fixed in lal.",
    design_ref="§7 C14",
    note="Trusted: Lean kernel + 3 axioms; the hand-written models validated on every run against the real logic.SimpleAuthCtx (all 128 flag combinations x direction x protocol, 37 secret forms), rtsp.Auth and a real "
         "rtsp.ServerCommandSession over net.Pipe (both methods x right/wrong/missing/replayed/stale credentials, prior-state scenarios), logic.IpBlacklist (wall clock, one expiry scenario), hls.PathStrategy, the real "
         "http.ServeMux + hls.ServerHandler through httptest on an instrumented file-system layer, a real hls.Muxer and a real logic.Group with hostile stream names, and a real logic.ServerManager over TCP (8 entry points x all-on / all-off / each single flag x "
         "right / absent / wrong / override secrets; RTSP Basic and Digest x none / right / wrong; kick; blacklist). The model of the admission glue itself is thin (gate, then attach + notify): its value is the correspondence.",
    technique="Lean 4 decision-logic iff theorems + confinement theorems over a verified Clean/Join model + differential correspondence (function level and handler level)",
)
