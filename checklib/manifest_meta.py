"""Text for MANIFEST.json (kept next to props.py so that MANIFEST states what exists)."""

HOOK_COMMITS = ["d18659f", "3e13ff0", "29045de", "c69ab95", "e8b7467", "0cebe19", "02a8a12"]

NOTES = ("Technique family: machine-checked proof in Lean 4. Every claimed property = theorems in lean/LalModel/Props/<id>.lean "
         "about executable models + a correspondence check that runs the real lal code (built from /repo's working tree) and the "
         "model on the same generated operations. See DESIGN.md.")

NOT_BUILT = "check not built yet at this commit (planned in DESIGN.md §7; not a statement that the technique cannot apply)"

NOT_APPLICABLE = {f"C{i:02d}": NOT_BUILT for i in range(1, 21)}


# properties whose check exists but is being brought back in line with /repo after other properties' fixes changed the
# code it models; not claimed until `./check <id>` exits 0 again
HOLD = {}
