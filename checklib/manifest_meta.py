"""Text for MANIFEST.json (kept next to props.py so that MANIFEST states what exists)."""

HOOK_COMMITS = []

NOTES = ("Technique family: machine-checked proof in Lean 4. Every claimed property = theorems in lean/LalModel/Props/<id>.lean "
         "about executable models + a correspondence check that runs the real lal code (built from /repo's working tree) and the "
         "model on the same generated operations. See DESIGN.md.")

NOT_BUILT = "check not built yet at this commit (planned in DESIGN.md §7; not a statement that the technique cannot apply)"

NOT_APPLICABLE = {f"C{i:02d}": NOT_BUILT for i in range(1, 21)}

META = {
    "C11": dict(
        text="Theorems for all tag types, payload lengths < 2^24, timestamps < 2^32 and all tag sequences: lal's tag / file header / WebSocket "
             "framing is read back by an FLV-spec reader, by the model of lal's reader and by an RFC 6455 reader as exactly what was written. "
             "Proof is the right level because the property is a pure encode/decode law over unbounded sizes; the boundary points (125/126, 65535/65536, "
             "2^24) are exactly where sampling misses.",
        design_ref="§7 C11",
        note="Trusted: Lean kernel + 3 standard axioms; the FLV/RFC 6455 spec readers as written in Spec/; the hand-written model, validated on every run against "
             "httpflv.PackHttpflvTag/ReadTag, FlvFileWriter/Reader, base.MakeWsFrameHeader and a real httpflv.SubSession over a recording net.Conn.",
        technique="Lean 4 round-trip theorems + differential correspondence",
    ),
}
