from common import KERNEL, CORR

PROP = dict(
    level="proof",
    generators=["C04", "C18"],   # the AMF0 / metadata ops too: a peer's metadata message goes through that reader
    trusted_base=[
        KERNEL, CORR,
        "Model/RtmpServer.lean is hand-written from pkg/rtmp/server_session.go, handshake.go, stream.go, message_packer.go (server side) on top of Model/Chunk.lean "
        "(C08) and Model/Amf0.lean (C18); it is compared on every run with a real rtmp.NewServerSession(observer, conn).RunLoop() fed the same bytes "
        "(outcome closed|alive|panic, handshake mode, observer callback sequence with message type and payload length, every reply's type id and length)",
        "Go semantics assumed, not modelled: io.ReadAtLeast / io.ReadFull / bufio.Reader deliver the same bytes whatever the fragmentation (so the model reads one byte "
        "string; each stream is run under several fragmentations); net.Conn.Write returns n <= len(p); encoding/binary and bele fixed-width reads panic exactly when the "
        "slice is shorter than the width; strings.Split returns >= 1 element; a nil-interface method call panics",
        "naza connection (v0.30.49) as read: Write is synchronous until ModWriteChanSize, queued afterwards; Mod* panic when the option is already set; "
        "Stat.ReadBytesSum counts the bytes handed to the session; nazabytes.Buffer.Skip past the end resets (model: List.drop)",
        "HMAC-SHA256 is a parameter of the model and of every theorem; the driver instantiates it with its own SHA-256 (Driver/Sha256.lean) only to compare the "
        "simple/complex handshake choice with the implementation",
        "Generated/C04Consts.lean (constants parsed from pkg/rtmp/var.go, rtmp.go, handshake.go, message_packer.go and printed from package base) and "
        "Generated/C04Sites.lean (go/ast inventory of index, slice, bele fixed-width, type-assertion, explicit panic / Log.Panic*, division, interface-field call, "
        "connection Mod* and ReserveBytes sites of the modelled functions, with multiplicities); harness/c04extract.go lists the modelled functions by name and fails "
        "when one disappears",
        "harness/c04srv.go (level L2): a real rtmp.Server on a loopback TCP port in a child process with a stub IServerObserver; a healthy client (handshake, connect) must "
        "get its createStream result after the hostile connection has been handled (verdict bad: on a dead process or an unserved client); the hostile connection's callbacks "
        "including OnDelRtmpPubSession/OnDelRtmpSubSession are compared with the model (Server.handleTcpConnect)",
        "harness/c04.go: the in-memory net.Conn (chosen fragmentation, recorded writes, injected write failure), the stub observer, an independent minimal RTMP/AMF0 writer, "
        "crypto/hmac for valid complex-handshake digests",
    ],
    modelled=[
        "ServerSession.RunLoop / handshake / runReadLoop / doMsg / doWinAckSize / doAck / doUserControl / doDataMessageAmf0 / doCommandMessage / doCommandAmf3Message / "
        "doConnect / doCreateStream / doPublish / doPlay / writeAcknowledgementIfNeeded / modConnProps (role state unknown|pub|sub, avObserver nil or set, "
        "connection options set once, acknowledgement window arithmetic in uint32/uint64)",
        "HandshakeServer.ReadC0C1 / WriteS0S1S2 / ReadC2, parseChallenge, findDigest, makeDigestWithoutCenterPart (every offset computed from peer bytes)",
        "ChunkComposer.RunLoop with the callback interleaved: callbacks of one chunk (aggregate sub-messages) in order, first error stops the loop (Chunk.readChunk of C08)",
        "StreamMsg.readStringWithType / readNumberWithType / readObjectWithType / readNull / peekStringWithType / Skip; Stream.toAvMsg (type id, payload length)",
        "MessagePacker server replies (window ack size, peer bandwidth, set chunk size, connect _result, createStream _result, onStatus publish/play, stream is recorded, "
        "stream begin, acknowledgement, ping response) as write scripts into the packer Buffer, ChunkAndWrite, writeSingleChunkHeader; the Buffer itself (Write, WriteByte, ModWritePos, Reset, Bytes, grow) also driven directly through its exported API (rtmp.pbuf ops)",
        "Server.handleTcpConnect: which OnDel callback follows RunLoop (role, DisposeByObserverFlag)",
        "ObjectPairArray.FindString (first pair with that key holding a string); strings.Split(name, \"?\") element count",
    ],
    not_modelled=[
        "memory: StreamMsg.Grow / ReserveBytes allocate what the peer announces (message length < 2^24 per chunk stream id, up to 65 536 chunk stream ids; Set Chunk Size up to "
        "2^32-1 makes ReserveBytes ask for up to 4 GiB when a type 1 header shrinks the message length below what is buffered) — exhaustion of memory is runtime behaviour the "
        "model cannot exhibit and is NOT claimed; no limit exists in lal (TODO in chunk_composer.go)",
        "time: read/write deadlines, a peer that never finishes the handshake or never publishes (lal has a TODO for that), slow-loris",
        "what happens to A/V payloads after OnReadRtmpAvMsg (C05), the group and hooks behind OnNewRtmpPubSession/SubSession (C01-C03, C16), rtmp.Server accept loop (exercised at L2, not modelled) / TLS",
        "contents of replies beyond type id and length (AMF numbers echo tid via float64->int->float64; floats are never compared); queued replies (after publish/play) are "
        "compared by length only: the pinned tree queued a reference to the packer's reusable buffer, so back-to-back queued replies went out with the later reply's bytes "
        "(fixed in lal commit 'rtmp message packer hands the writer a copy…'; a framing/race defect, not a C04 violation)",
        "nil dereference of fields NewServerSession always initialises (conn, chunkComposer, packer) and of `observer` (constructor argument: rtmp.Server passes itself)",
        "the multi-chunk branch of ChunkAndWrite (unreachable on the server side: replies_single_chunk); which strings the client-side commands write through the packer (C17)",
        "logging (nazalog at the harness's level), fmt/hex formatting of debug strings",
    ],
    assumptions=[
        "Go int is 64 bit (length arithmetic in amf0.go and the packer)",
        "the S1 buffer the server digest is computed over has 1536 bytes (it is a slice of a 3073-byte array)",
        "observer callbacks return; OnNewRtmpPubSession either returns an error, or nil with or without SetPubSessionObserver (all three covered)",
    ],
)

META = dict(
    text="Theorem rtmp_session_total: for ALL peer byte strings (any handshake bytes, any chunk framing, message type ids 0-255, lengths, AMF0 values, aggregates, truncation "
         "anywhere), every HMAC function, every observer answer and every failing write, the model of ServerSession.RunLoop ends 'this connection closed' or 'still serving' — never "
         "with a Go run-time failure (index/slice out of range, nil observer, naza connection-option panic, packer buffer overrun, AMF stack exhaustion) and never by running out of "
         "loop fuel. Proved compositionally: a Hoare logic over the session monad, an invariant (packer capacity, connection options untouched while the role is unknown), per-handler "
         "lemmas (domsg_total, handlers_total, publish_play_total), handshake_offsets_in_range (every digest offset <= 1536-32), packer_total (every server reply is a fixed write script "
         "that fits although Buffer.grow doubles only once), stack_bounded (C18), read-loop progress (every chunk consumes a byte). sites_covered: the go/ast inventory of 118 distinct "
         "failure sites (with multiplicities) of the modelled functions, regenerated on every run, is contained in a hand-maintained table — a new unguarded b[7] is a missing obligation. "
         "Proof is the right level: lal has no recover(), one reachable index in a connection goroutine kills every stream; three such inputs existed in the pinned tree and were fixed "
         "(1-byte user-control message, audio before publish, second publish; plus the packer buffer overrun S20) — found by the model as unprovable obligations, replayed on the real code.",
    design_ref="§7 C04",
    note="Trusted: Lean kernel + 3 standard axioms; the hand-written model, validated each run (L0) against a real ServerSession over an in-memory connection on ~3300 (quick) / "
         "~35000 (thorough) streams: boundary corpus (all handshake modes and truncations, every truncation of every short control message in every session state, every message type "
         "id, all chunk header formats x csid forms x extended timestamps, extreme length fields, aggregates with A/V / commands / nested aggregates, second publish/play, AMF "
         "truncations / wrong types / nesting to 200000, 2.6 MB messages crossing the acknowledgement window) plus seeded valid sessions, mutations, splices and junk under varying "
         "fragmentation, observer answers and write failures; plus (L2) ~25/170 streams against a real rtmp.Server over loopback TCP in a child process with a second, healthy connection that must still be served (on the unfixed tree 9 of these end with the process dead). Memory exhaustion by announced sizes and timing are NOT claimed (see not_modelled).",
    technique="Lean 4 totality proof (Hoare logic over a state/error/panic monad, invariant, fuel-free termination) + go/ast site inventory with decide coverage + differential correspondence",
)
