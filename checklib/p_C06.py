from common import KERNEL, CORR

PROP = dict(
    level="proof",
    generators=["C06", "C12", "C09"],   # RTP packer and TS packer ops too: the RTSP and TS outputs are built by them
    trusted_base=[
        KERNEL, CORR,
        "Spec/Demux.lean is the reading of 'standards-conforming demuxer' used end to end: per-PID PES reassembly over Spec/TsSpec (ISO/IEC 13818-1; "
        "continuity_counter checked over all packets of the PID, packets before the first payload_unit_start discarded), H.264/H.265 Annex B byte stream "
        "(Spec/AnnexB), ADTS frame split with the ISO/IEC 14496-3 header reader (Spec/AudioSpec), RTP access units = packets up to the marker bit, "
        "depacketised per RFC 6184 / 7798 / 3640 (Spec/RtpSpec); Publish.videoTag / audioTag / Spec/Publisher.render: Adobe FLV v10.1 E.4.2/E.4.3, "
        "ISO/IEC 14496-15 records and length-prefixed samples, HEVC-in-FLV as CodecID 12 (lal's convention) and enhanced-RTMP 'hvc1'",
        "the normalisation (Publish.normTs / normRtp / forwards): TS may differ from the publish in access unit delimiters, parameter sets and H.265 SEI; "
        "RTP in access unit delimiters; an access unit with nothing else than AUD / H.265 SEI produces no PES packet",
        "Generated/C06Consts.lean: probe-queue size, audio cache thresholds and size bound, analysis window, default sample rates, hls.negMaxfraglen read from the AST "
        "of pkg/remux and pkg/hls; AUD units and NAL type constants printed from pkg/avc and pkg/hevc; hevc.IsIrapNalu checked to be the closed range 16..23; "
        "the default RtpPacker payload limit measured on the compiled package; RtspRemuxerAddSpsPps2KeyFrameFlag must be false",
        "the observer of Rtmp2MpegtsRemuxer is a state machine that may call FlushAudio() at two points inside OnTsPackets (TsRemux.Observer); lal's HLS muxer "
        "is modelled as such an observer (Model/HlsConcat.lean: FeedPatPmt, FeedMpegts, updateFragment incl. forced split, openFragment -> OnFragmentOpen -> "
        "FlushAudio, closeFragment), float durations as exact tick comparisons; logic.Group's wiring (hls first, then http-ts subscribers) is not modelled",
        "the random SSRC and first sequence number of rtprtcp.RtpPacker are normalised by the harness (SSRC 0, sequence numbers relative to the first one per SSRC)",
        "C09 (Frame.Pack / PAT / PMT), C12 (RTP payload packers, RFC depacketisers) and C19 (sequence headers, AVCC/Annex B, ADTS, SDP) models and lemmas are reused as proved there",
    ],
    modelled=["remux.Rtmp2MpegtsRemuxer (FeedRtmpMessage, onPop, feedVideo incl. the NAL loop / AUD / parameter-set cache, feedAudio incl. the audio cache and its four flush "
              "conditions, FlushAudio, onFrame / boundary / opened, continuity counters)", "remux.rtmp2MpegtsFilter (Push, drain, PAT/PMT from the codec ids)",
              "remux.Rtmp2MpegtsTimestampFilter.Do", "base.RtmpMsg helpers used by the remuxers (classic and enhanced-RTMP HEVC)",
              "remux.Rtmp2RtspRemuxer (FeedRtmpMsg analysis phase, doAnalyze, isAnalyzeEnough, remux, getAudioPacker, getVideoPacker)",
              "rtprtcp.RtpPackerPayloadAvcHevc.Pack in AVCC mode (AUD filtering)", "hls.Muxer segment contents (FeedPatPmt, FeedMpegts, updateFragment, openFragment, closeFragment)"],
    not_modelled=["RTMP metadata messages in Rtmp2RtspRemuxer (audiocodecid / audiosamplerate hints): scenarios consist of audio and video messages",
                  "hls.Muxer playlists, file names, fragment ring and clean-up (C10); logic.Group fan-out to http-ts / rtsp sessions, GOP caches (C01/C02)",
                  "the unguarded header reads of the probe filter and of hevc.parseVpsSpsPpsFromRecord on truncated payloads (C05's fault-aware models)",
                  "RtspRemuxerAddSpsPps2KeyFrameFlag = true"],
    assumptions=["theorems ts_frames / ts_audio / ts_time: well-formed publish = decoder configuration before the first access unit of the track, NAL units as emulation prevention "
                 "leaves them (non-empty, no 00 00 00 / 00 00 01 inside, last byte non-zero), AAC frame + 7 < 8192 (13-bit ADTS length), Opus packet <= 65526 bytes, "
                 "audio of one codec per publish; video codec classic AVC or classic HEVC (enhanced-RTMP hvc1 messages: differential only)",
                 "ts_demux / ts_join / hls_concat / hls_demux hold for ANY messages with bounded audio frames, any observer / any segment duration",
                 "ts_time: no timestamp below the first forwarded one of the track (S22, open finding; also the 32-bit millisecond clock wrapping)",
                 "PCR_PID is the video PID even for an audio-only program and the PAT/PMT packets always carry continuity_counter 0 (repeated per HLS segment): "
                 "noted, not counted as violations (the property speaks about the elementary frames)",
                 "rtp_frames / rtp_audio speak about the whole Rtmp2RtspRemuxer model (analysis phase, SDP, cache replay, live) on a publish of configuration records, "
                 "access units and AAC frames; hypotheses on the final state: the analysis ended and the track's configuration arrived inside its window (the other case is "
                 "the open finding C06-late-track-never-reaches-rtsp); rtp_silent_until_analyzed: nothing is sent before",
                 "RTP: NAL units a payload format can carry (C12 NalWF: F = 0; a unit sent whole has a single-NAL type; H.265 units have both header bytes)",
                 "G.711 / Opus over RTSP and Opus in TS beyond ts_audio_opus: differential + oracle only"],
    search_seeds=1,
)

META = dict(
    text="Refinement theorems in Lean 4 from the published elements to what a conforming demuxer recovers, composed from C09 (Frame.Pack), C12 (RTP), C19 (AVCC/Annex B, ADTS, "
         "sequence headers): for EVERY event list and EVERY observer the packets handed out demultiplex per PID into exactly the packed frames with continuous counters, "
         "also from every join point (ts_demux, ts_join); for every well-formed publish the recovered video access units are the published ones up to the stated normalisation "
         "(AUD, parameter sets, H.265 SEI) with DTS/PTS = 90*ts(+90*cts) minus one constant mod 2^33 under the S22 hypothesis (ts_frames, ts_access_unit, ts_time); the AAC frames "
         "come back once, in order, byte for byte, in groups of whole ADTS frames whose headers decode to the published AudioSpecificConfig, each PES stamped with its first "
         "frame's time, whatever the batching (ts_audio), Opus one packet per PES (ts_audio_opus); lal's HLS muxer driven by the remuxer writes segments that are PAT/PMT + a "
         "partition of the packet stream from the first opened segment on (hls_concat, hls_demux). RTP: for the whole remuxer (header collection, 16-message cache, doAnalyze, SDP first, cache replay in order, then live) the packets of each payload type depacketise "
         "(RFC 6184/7798/3640) to the published access units / frames, cached ones included, with timestamp floor(ts*rate/1000), sequence numbers continuous "
         "(rtp_frames, rtp_audio, rtp_silent_until_analyzed, rtp_time; stages rtp_frames_ready / rtp_audio_ready from any ready state); G.711 / Opus over RTSP differential only. Three defects fixed in lal (in-band parameter sets removed; one-byte Opus/G.711 "
         "frames dropped; audio cache unbounded after a backward jump), five open findings (S22, late track not in PMT / never on RTSP, stale cache after an incomplete in-band "
         "group, Opus in TS without control header).",
    design_ref="§7 C06",
    note="Trusted: Lean kernel + 3 standard axioms; the spec-side readers and writer (Spec/Demux, Spec/Publisher) as the meaning of 'conforming demuxer' and 'published frames'; "
         "the hand-written models validated on every run, observer call by observer call and packet by packet, against real remux.Rtmp2MpegtsRemuxer (with and without the "
         "FlushAudio-on-boundary observer), real remux.Rtmp2RtspRemuxer and a real hls.Muxer over a recording file-system layer; the oracle runs the spec demuxers on the "
         "IMPLEMENTATION's output (TS, concatenated HLS segments, RTP) and compares with the publish as the container specs read it. L1 (real logic.Group with network "
         "sessions) is not run for C06.",
    technique="Lean 4 refinement / invariant proofs + differential correspondence + spec-side oracle",
)
