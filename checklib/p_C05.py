from common import KERNEL, CORR

PROP = dict(
    level="proof",
    generators=["C05", "C18", "C08"],   # AMF0 ops (published metadata goes through that reader) and chunk ops (every published message is re-chunked for RTMP consumers)
    search_seeds=2,
    search_thorough=False,
    harness_timeout=1500,
    trusted_base=[
        KERNEL, CORR,
        "the hand-written models (Model/MsgClass, GopRing, DummyAudio, TsRemux, RtspRemux, Fanout, AvPacketRemux + the C19/C12/C09/C18 models they reuse) mirror, guard by guard, the Go of the "
        "tree with the six `fix:` commits of branch w-C05; they are tied to the code on every run at L0 (every RtmpMsg helper, remux.GopCache, Rtmp2MpegtsRemuxer and Rtmp2RtspRemuxer with "
        "recording observers, DummyAudioFilter, hevc.ParseSps, Rtmp2AvPacketRemuxer, each call under recover) and at L1 (a REAL logic.Group built with logic.NewGroup, every output enabled, "
        "a publisher added with AddRtmpPubSession, messages pushed through Group.OnReadRtmpAvMsg, real rtmp/httpflv/httpts sessions over recording connections and a real "
        "rtsp.ServerCommandSession driven by the harness's own RTSP client joining between messages)",
        "what the L1 comparison observes: outcome ok|panic@i, the group's codec statistics, per-subscriber write counts (RTMP/FLV/TS) and RTP byte counts (RTSP), HLS fragments opened and bytes "
        "written (through pkg/hls/verif_export.go VerifSetFsl with a counting in-memory file-system layer), sizes of the FLV and TS recordings; byte contents are compared at L0 (FNV-1a of every TS frame, "
        "TS packet run, RTP payload; the SDP text in full)",
        "mpegts.Frame.Pack, mpegts.PackPat/PackPmt (Model/Ts, Model/Psi: pure functions validated by C09), sdp.Pack / ParseSdp2LogicContext (Model/Sdp, validated by C19) and rtprtcp "
        "MakeRtpPacket/PackTo (Model/Rtp, C12) are total functions in the model: their freedom from run-time failures is NOT proved here, it is differentially tested (every L0/L1 op would show `panic`)",
        "float64 -> integer conversions of the metadata hints (uint8(audiocodecid), int(audiosamplerate)) and uint32(float64(ts)*rate/1000) are modelled with the amd64 semantics of the Go compiler "
        "(truncation, 0x80..0 out of range); exact for ts*|rate| < 2^53",
        "nazabits (third party) is taken as it is; its ReadBits32(0) panic is recovered on the lal side (fix 916505c), which is what Sps.parseSps / HevcPs.parseSps model",
        "Go map iteration order over the subscriber sets is not modelled: each subscriber's counters depend only on its own flags and on shared state that is independent of the order (the model iterates a list)",
        "nazalog Assert behaviour is the default AssertError (assert_behavior = 1 in every shipped conf): with 2/3 the `Log.Assert(nil, err)` calls of Rtmp2RtspRemuxer on parser errors would end the process by configuration",
    ],
    modelled=[
        "base.RtmpMsg: IsAvcKeySeqHeader, IsHevcKeySeqHeader, IsEnhanced, IsVideoKeySeqHeader, IsAvcKeyNalu, IsHevcKeyNalu, IsVideoKeyNalu, IsEnchanedHevcNalu, GetEnchanedHevcNaluIndex, IsAacSeqHeader, VideoCodecId, AudioCodecId, Cts, Pts (fixed and pinned variants)",
        "remux.GopCache (Feed, feedNewGop, feedLastGop, GetGopCount, GetGopDataAt, Clear, SetMetadata) and remux.GopCacheMpegts, with the ring indexed in GoM",
        "remux.DummyAudioFilter (analysis / normal / dummy stages, catch-up loop; pinned uint32 loop)",
        "remux.Rtmp2MpegtsRemuxer (FeedRtmpMessage, feedVideo incl. NAL loop and in-band SPS/PPS/VPS, feedAudio AAC/Opus, ADTS, audio cache, FlushAudio incl. the re-entrant call from OnFragmentOpen, onFrame, Dispose), rtmp2MpegtsFilter (16-message probe), Rtmp2MpegtsTimestampFilter",
        "remux.Rtmp2RtspRemuxer (metadata hints, length gates, analysis cache of 16, doAnalyze, sdp.Pack, getAudioPacker/getVideoPacker, remux, RtpPackerPayloadAvcHevc in Avcc mode)",
        "remux.Rtmp2AvPacketRemuxer.FeedRtmpMsg (L0 only; not used by the group)",
        "logic.Group: OnReadRtmpAvMsg, broadcastByRtmpMsg (validity gate, TS and RTSP remuxers, RTMP / HTTP-FLV fresh-subscriber prologue and wait-for-key-frame gates, write2RtmpSubSessions, FLV recording, both GOP caches, statistics incl. avc.ParseSps / hevc.ParseSps), feedTsPackets, OnPatPmt, OnFragmentOpen, feedRtpPacket with rtprtcp.IsAvcBoundary/IsHevcBoundary, onSdpFromRemux, feedWaitRtspSubSessions, Add*SubSession, HandleNewRtspSubSessionDescribe/Play, addIn/delIn as far as they create and flush the remuxers",
        "hls.Muxer.FeedMpegts / updateFragment / openFragment / closeFragment: fragment decisions and byte counts only (playlists, file names, cleanup belong to C10)",
        "hevc.parseVpsSpsPpsFromRecord / parseVpsSpsPpsAnnexbFromRecord / ParseVpsSpsPpsFromEnhancedSeqHeader, avc.ParseSps, hevc.ParseVps/ParseSps as changed by the w-C05 fixes (Model/SeqHeader, Sps, HevcPs updated; C19 stays green)",
    ],
    not_modelled=[
        "the bytes written to RTMP / HTTP-FLV subscribers (LazyRtmpChunkDivider, LazyRtmpMsg2FlvTag: C08 / C11 models exist; the fan-out model counts writes), base.MergeWriter (merge_write_size = 0 in the harness), relay push sessions, the customize hook (GroupOption.onHookSession is unexported; its OnMsg is user code)",
        "HLS playlists / record playlist / cleanup, file-system errors (the in-memory layer never fails); FLV/TS record files are real files in a private temp dir",
        "session objects below Write (naza connection, write channels, timeouts): C15",
        "RtspRemuxerAddSpsPps2KeyFrameFlag = true (default false; its `Payload[9:]` is guarded by fix 59b87f1)",
        "a cost semantics (see broadcast_steps_bounded_partial)",
    ],
    assumptions=[
        "well-framed message: Header.MsgLen = len(Payload), MsgTypeId in {8, 9, 18} (what rtmp.ServerSession hands to the group), TimestampAbs < 2^32",
        "configuration: gop_num >= 0, add_dummy_audio_wait_audio_ms in uint32 range, hls fragment_duration_ms = 3000 in the L1 harness (the theorems do not depend on it)",
        "broadcast_total is about the model's run-time failures (index, slice, nil dereference); memory exhaustion and scheduler starvation are outside it; the dummy-audio bound is the part of 'time bounded by size' that is proved",
    ],
)

META = dict(
    text="Theorems (all payloads, lengths, timestamps; all configurations of outputs; subscribers of every kind joining at any point): classify_total (the 14 RtmpMsg helpers return their closed forms, "
         "no run-time failure), seqheader_total, gopcache_total (+mpegts) with the ring-index invariant, ts_remux_total (for EVERY observer, incl. re-entrant FlushAudio), rtsp_remux_total, "
         "dummy_steps_bounded (<= 478 messages handed on per published message, amortised, for every timestamp) with dummy_loop_budget, and broadcast_total: runAll of the composed fan-out model "
         "(dummy filter -> broadcast -> TS remuxer -> HLS/TS subscribers/recording, RTSP remuxer -> wait-key gate, RTMP/FLV subscribers, caches, statistics) is `.ok` for every event list, by an invariant "
         "(G.Inv) proved preserved by every stage. Pinned-tree witnesses by `decide` / theorems: one-byte video message panics IsVideoKeySeqHeader, hevc record parser at payload[27], SPS 6742001eff, "
         "the catch-up loop never ends for ts = 2^32-1 (dummy_pinned_never_ends) and is linear in the jump (dummy_pinned_linear). Six genuine defects found and fixed in lal (known_findings.json), one of them "
         "(rtsp wait-key gate parsing audio RTP as NAL units) found by the L1 real-Group harness, not by reading. "
         "Partial: broadcast_steps_bounded_partial (no cost semantics; only the timestamp-dependent loop is bounded by theorem) and opaque_forward_partial (counts, not bytes; and 'dropped by RTSP' is false of lal once a video sequence header was seen).",
    design_ref="§7 C05",
    note="Proved: totality of every modelled stage and of their composition, the dummy-audio bound. Differentially tested only (not proved): that the models are the code (L0 + L1 on every run: ~15k ops quick, ~230k thorough, "
         "0 disagreements), Frame.Pack / sdp.Pack / RtpHeader.PackTo panic-freedom, everything listed under not_modelled.",
    technique="Lean 4 totality theorems by invariant + Hoare-style composition lemmas, differential correspondence at L0 and L1 (real logic.Group)",
)
