from common import KERNEL, CORR

PROP = dict(
    level="proof",
    generators=["C12"],
    trusted_base=[
        KERNEL, CORR,
        "Spec/RtpSpec.lean is the reading of RFC 3550 §5.1, RFC 6184 §5.6-5.8, RFC 7798 §4.4.1-4.4.3 and RFC 3640 §3.2.1/§3.3.6 used as reference depacketisers",
        "h.Timestamp = uint32(float64(ms)*float64(rate)/1000) is modelled as ms*rate/1000 mod 2^32 for ms*rate < 2^53 (exact product, correctly rounded quotient below 2^44 has the same integer part; out-of-range float->uint32 conversion as on amd64); the harness runs the products up to 2^53-1",
        "Generated/RtpConsts.lean (NAL type / position constants, keys of hevc.NaluTypeMapping) is printed by the harness from the packages it was built against",
    ],
    modelled=["rtprtcp.RtpHeader.PackTo", "MakeDefaultRtpHeader", "MakeRtpPacket", "ParseRtpHeader", "ParseRtpPacket", "RtpPacket.Body",
              "RtpPackerPayloadAvcHevc.Pack (Nalu mode) / PackNal", "RtpPackerPayloadAac.Pack", "RtpPackerPayloadPcm.Pack", "RtpPackerPayloadOpus.Pack",
              "RtpPacker.Pack / genSeq", "CompareSeq", "SubSeq", "RtpPacketList (IsStale, Insert, PopFirst, Full, IsFirstSequential, SetDoneSeq)",
              "calcPositionIfNeededAvc/Hevc", "RtpUnpackerAvcHevc.TryUnpackOne", "parseAu", "RtpUnpackerAac.TryUnpackOne", "RtpUnpackerRaw.TryUnpackOne",
              "RtpUnpackContainer.Feed"],
    not_modelled=["RtpPackerPayloadAvcHevc Avcc / Annexb input modes (splitting belongs to avc.SplitNalu*, C19)", "IsAvcBoundary / IsHevcBoundary", "RTCP"],
    assumptions=["payload limit greater than the FU header size (2 for H.264, 3 for H.265) whenever a unit has to be fragmented: with limit = header size PackNal's loop makes no progress (never run by the harness), below it an item index panics",
                 "H.264 NAL header with F = 0 (forbidden_zero_bit; PackNal does not copy F into the FU indicator); a NAL sent unfragmented has a single-NAL type (1..23, resp. 0..47), otherwise no RFC 6184/7798 receiver can tell it from a payload structure",
                 "payload type < 128 (7-bit field; the code ORs the marker into the same byte); AAC frame shorter than 8192 bytes (13-bit AU-size)",
                 "receiving side: 1000 <= clock rate < 1000*2^32 in the theorems (the millisecond value is rtpTimestamp2Ms = ts*1000/clockRate since the S11 fix of C07 - lal commit cf76295; clock rate <= 0 yields the timestamp itself)",
                 "reorder_invariant: first packet to arrive is the first packet sent (S23, open finding), every packet arrives at least once, fewer than listMax packets waiting after every arrival (RtpSpec.inWindow), at most 32768 packets in the stream considered (half the sequence space)",
                 "ms*rate < 2^53 for the float64 timestamp computation; float64 -> uint32 conversion of values >= 2^32 wraps as on amd64 (Go leaves it implementation-defined; arm64 saturates)"],
)

META = dict(
        text="Theorems for every NAL size and header value (type, NRI, F/layer id/tid), every payload limit above the FU header size, every initial sequence number and clock rate: "
             "RFC 6184/7798/3640 reference depacketisers and the model of lal's unpackers return exactly the packed units, in order; payload limit, marker, "
             "sequence (mod 2^16) and timestamp laws as an RFC 3550 reader sees them; CompareSeq = sign of the wrapped difference (and what it does exactly half the ring apart); "
             "reorder_invariant: lal's packets fed to lal's container in any in-window arrival order with duplicates and wrap-around give the in-order output "
             "(invariant: list = arrived minus delivered, sorted by CompareSeq, against an ideal jitter buffer). Two defects fixed in lal (S12 FU header of H.265, "
             "S25 unnamed H.265 NAL types stall the container), one open finding (S23).",
        design_ref="§7 C12",
        note="Trusted: Lean kernel + 3 standard axioms; the RFC readers as written in Spec/RtpSpec.lean; the hand-written model, validated on every run against "
             "rtprtcp packers, ParseRtpPacket/Body, CompareSeq/SubSeq and a real RtpUnpackContainer built by DefaultRtpUnpackerFactory.",
        technique="Lean 4 round-trip theorems + invariant proof + differential correspondence",
    )
