from common import KERNEL, CORR

PROP = dict(
    level="proof",
    generators=["C17"],
    harness_timeout=900,
    trusted_base=[
        KERNEL, CORR,
        "L1 harness: a real logic.Group (static / API relay pull, relay push) against stub origin / push targets owned by the harness: TCP listeners whose accepted "
        "connections are parked until the scenario completes them (lal's own rtmp.ServerSession answers the play / publish), closes them, or ends them later; the harness "
        "calls Group.Tick itself and after every event waits until the consequences that event must have are visible in the group's bookkeeping "
        "(hook logic.VerifRelayState), so the event order given to the model is the order executed",
        "time: shouldAutoStopPull reads the wall clock; windows of 40 ms with real sleeps, the harness reports its clock before/after each event and reads lastHasOutTs back; "
        "the driver runs the model at those candidate instants (they differ only when a threshold lies between two readings; a guard band keeps events away from it)",
        "the executable monitor of Spec/RelaySpec.lean (the property's rules over an observed history) and the spec-side readers of C08/C18 in Spec/PackerSpec.lean, applied to the implementation's output",
        "hooks pkg/logic/verif_c17.go (read-only snapshot of pullProxy / url2PushProxy, static relay pull defaults) and pkg/rtmp/verif_packer.go (unexported command writers, buffer geometry)",
        "Generated/C17.lean (packer initial capacity, push flashVer string, static relay pull retry / auto-stop defaults, base.PullRetryNum*/AutoStop* constants)",
        "ghost fields of the model (pullLive, Push.live, nextId, notification counters) never influence a non-ghost field",
        "lal fixes by other builders cherry-picked into the worktree and mirrored: delPullSession identity check (C03), Buffer.grow / packer copy (C04)",
    ],
    modelled=["pullProxy, Group.StartPull / StopPull / kickPull / tickPullModule / pullIfNeeded / stopPull / shouldStartPull / shouldAutoStopPull / isPullSessionWanted (group__relay_pull.go)",
              "AddRtmpPullSession / DelRtmpPullSession / delPullSession, Add*PubSession / Del*PubSession, addIn / delIn as far as relay is concerned (group__in.go), addSub, Tick, KickSession (pull ids)",
              "pushProxy, startPushIfNeeded / stopPushIfNeeded / AddRtmpPushSession / DelRtmpPushSession (group__relay_push.go)",
              "answers of CtrlStartRelayPull / CtrlStopRelayPull / CtrlKickSession as functions of the group's return values (server_manager__api.go)",
              "rtmp.Buffer (grow / Write / WriteByte / Bytes / Reset / ModWritePos), MessagePacker.writeConnect / writePlay / writePublish / ChunkAndWrite with the Write calls of Amf0.Write*"],
    not_modelled=["RTSP relay pull transport (the proxy logic is the same code path; only the session type differs)", "disposeInactivePullSession / write-timeout disposal of push sessions (sessions are assumed alive until an event ends them)",
                  "HTTP layer of the API (JSON decoding, defaults for absent fields), ServerManager group creation / removal (IsInactive)",
                  "media forwarding to push sessions (C01), OnRelayPullStart/Stop notification payloads (only their counts)", "hls / customize-hook consumers (hasSubSession counts them like any consumer)"],
    assumptions=["a disposed session's goroutine eventually calls Del… (the harness waits for it; the model has the event)", "lastHasOutTs is never the sentinel -1 (a wall-clock millisecond count)",
                 "consumer presence is sampled when the group looks (join, tick, API start), not when a consumer leaves: the auto-stop window has tick granularity; the creation of the group counts as the first sample"],
)

META = dict(
    text="Theorems over the model of one logic.Group's relay bookkeeping, for EVERY state / every history of consumer arrivals and departures, ticks, API start/stop/kick, "
         "connection outcomes and clock values, every retry budget and auto-stop setting: (1) pull_attempt_iff - an attempt is started at an event IFF the event is a join / tick / API start "
         "and enabled, no input, none in flight, budget left, and (auto-stop off or a consumer present or seen within the window); (2) retry_budget - at most n+1 attempts between two stops "
         "for budget n (so exactly one for 0), retry_forever - for -1 a history with k attempts exists for every k; (3) auto_stop / auto_stop_only_then - a tick stops the pull exactly when no "
         "consumer is present and the window is 0 or has elapsed since a consumer was last seen (a join restarts the window at once); (4) api_start/stop/kick_reports_truth - each answer names "
         "what was started / disposed / cancelled, 'not found' only when there is neither an attached session nor a wanted connecting attempt; stopped_attempt_never_attaches - after a stop no "
         "history without a new attempt attaches a session (S24 closed); (5) push_one_per_target (invariant over all histories from a new group), push_opens_all_targets, push_retries_on_tick, "
         "push_ends_with_publisher (incl. a push still connecting when the publisher left is refused); (6) packer_buf_fits / url_params_any_length / url_params_peer_reads - rtmp.Buffer.grow always "
         "makes room, publish/play/connect with strings of any length are packed without panic into exactly the framed AMF0 command, which the strict RTMP reader of C08 reads back (< 2^24 bytes). "
         "The model is compared, state by state after every event, with a real logic.Group driven against harness-owned stub origin / push targets (real RTMP exchanges by lal's own sessions), and the "
         "rules are additionally run as an independent monitor on the implementation's observed histories.",
    design_ref="§7 C17",
    note="Proved: safety / decision rules of the state machine and the packer buffer. Only differentially tested: that the model IS the code (L0 packer, L1 group; 640 quick / 11000 thorough ops, "
         "every retry budget {0,1,3,-1} x auto-stop {-1,0,40 ms}); the wall-clock window with real sleeps. Assumed, not proved: every critical section is atomic (C20), a disposed session's goroutine "
         "eventually reports back (liveness), RTSP relay pull behaves like RTMP pull in the proxy logic. Consumer presence is sampled at joins, ticks and API starts, so the auto-stop window has tick "
         "granularity and the creation of the group counts as the first sample - stated in Spec/RelaySpec.lean. Four lal defects found and fixed on branch w-C17 (S24 stop ignores a connecting pull, "
         "S28 stale auto-stop window, S29 push attaches after the publisher left; S20 packer buffer fixed on main by C04), C03's delPullSession fix mirrored.",
    technique="Lean 4 state-machine theorems (decision-rule equivalence, invariants by induction over event lists) + L0/L1 differential correspondence + executable monitor",
)
