from common import KERNEL, CORR

PROP = dict(
    level="proof",
    generators=["C15"],
    trusted_base=[
        KERNEL, CORR,
        "Model/Queue.lean is the reading of naza connection.go (v0.30.49, the version lal's go.mod pins) used as 'asynchronous connection': Write/Writev = one non-blocking "
        "channel send per call (select with default), runWriteLoop = take / done / fail events; WHEN those events happen is chosen by the environment (consumer, Go scheduler, "
        "kernel) — the theorems quantify over every order, the harness realises the orders in which the writer takes the next item as soon as it is free",
        "Spec/WsSpec.lean (RFC 6455 §5.2), Spec/InterleavedSpec.lean (RFC 2326 §10.12), Spec/FlvSpec.lean, Spec/ChunkSpec.lean, Spec/TsSpec.lean as the meaning of 'well framed'",
        "harness observation of the real writer: len(wChan) by reflection on naza's connection, 'writer goroutine parked' from the goroutine dump (c15Settle), a net.Conn whose "
        "Write blocks while the consumer is stalled (c15Conn); a call into lal that does not return within 5 s is reported as BLOCKED",
        "verif hooks pkg/rtmp/verif_c15.go (VerifSetWChanSize, two getters) and pkg/rtsp/verif_c15.go (VerifSetServerCommandSessionWriteChanSize, getter, VerifPackInterleaved)",
        "Generated/C15.lean: capacities / timeouts / sweep interval / response headers printed from the linked packages; option assignments of the four subscriber-side "
        "constructors, rtmp modConnProps and its position in doPlay, naza's default WriteChanFullBehavior and its select-with-default, the connection methods on the write path, "
        "and the absence of session.Flush in the fan-out read from the source with go/ast",
    ],
    modelled=["naza connection.Write/Writev/runWriteLoop/Close/Flush with WriteChanSize > 0 (bounded FIFO, refuse when full)", "rtmp.ServerSession.Write/Writev after doPlay (modConnProps)",
              "base.BasicHttpSubSession.Write / WriteHttpResponseHeader (http-flv, http-ts; plain and WebSocket)", "rtsp.ServerCommandSession.WriteInterleavedPacket (plain and WebSocket), rtsp.packInterleaved, "
              "BaseOutSession.WriteRtpPacket's byte counter", "base.BasicSessionStat.isAlive / IsAliveWitchConn (write side)", "Group.disposeInactiveSessions for subscribers (tick % interval, IsAlive, Dispose)",
              "the fan-out loops of group__core_streaming.go as 'one session write per subscriber, result ignored' (composed with the C01 group model in the q.grp driver)"],
    not_modelled=["TIME: the latency bound ('by more than a small bound') and the firing of the write deadline (ModWriteTimeoutMs / SubSessionWriteTimeoutMs: 10 s, extracted) are behaviour of the Go runtime, "
                  "scheduler and kernel socket buffers; a failing socket write is the environment event `fail k`. Supporting evidence only: every call into lal made by the harness runs under a 5 s watchdog "
                  "and none blocked with consumers stalled",
                  "the kernel's socket send buffer (the model's consumer stalls at item granularity; a real TCP consumer stalls at byte granularity — covered by `fail k` for the final item only)",
                  "RTSP over UDP (datagrams: no queue, no framing to lose)", "HLS subscribers (pull; no server-side queue)", "relay push sessions (rtmp.PushSession uses WriteChanFullBehaviorBlock on purpose: C17's surface)",
                  "RTSP-over-WebSocket command RESPONSES (handleOptions/Describe/Setup/Play still write header and body as two queue items; not on the media fan-out path; pkg/rtsp/server_command_session.go outside WriteInterleavedPacket)",
                  "merge-writer batches at group level (the C01 group model logs buffers, not Writev batches; batches as ONE item are covered at session level by the V events)"],
    assumptions=["byte counters < 2^64 (uint64 subtraction in isAlive modelled as inequality of naturals)", "RTP packets < 65536 bytes and channel < 256 for the interleaved framing theorem (uint16/uint8 conversions truncate; lal's packers stay below)",
                 "WebSocket unit bodies < 2^63 bytes (RFC 6455 length field)", "RTMP units are whole messages chunked with prev = nil (type-0 first chunk), as remux.LazyRtmpChunkDivider and the GOP cache produce them",
                 "drop_whole_units_* decode statements assume no socket write died midway (`tail = []`); otherwise `drop_whole_units` gives whole units followed by a prefix of one more, on a closed connection"],
    harness_timeout=600,
    search_seeds=2,
)

META = dict(
    text="PROVED (bookkeeping, for every protocol, queue capacity and every order of writes / writer-goroutine steps / write failures / disposals / sweeps): (1) enqueue_nonblocking — for any set of subscribers "
         "in any reachable states, one pass of the fan-out makes exactly one connection call per subscriber and none waits for a consumer; tied to /repo by configured_nonblocking over facts extracted with go/ast "
         "(every subscriber connection has WriteChanSize > 0, nobody selects the Block behaviour, naza's default is a select with default, the write path calls only Write/Writev, the fan-out never calls Flush); "
         "others_unaffected — a subscriber's state after the fan-out is a function of its own state alone; (2) drop_whole_units — what a consumer received is the frames of a subsequence of the written units, "
         "each whole and in order (plus, only on a connection closed under a write, a prefix of one more), and by framed_rtmp / framed_flv / framed_ws / framed_ts / framed_rtsp + C08/C09/C11 theorems a "
         "specification reader decodes it into exactly the surviving units (drop_whole_units_rtmp / _flv — a valid FLV file: the header, as first unit on a fresh queue, is never the one dropped — / _ts / _ws / _rtsp); prologue_accepted — a fresh session's first `cap` units are never dropped; (3) sweep_disconnects / "
         "stalled_consumer_swept / sweep_spares_progress — a subscriber whose byte counter did not move between two sweeps is disposed at the second, one that progressed is not. The property was FALSE of the pinned "
         "tree over WebSocket (S18: header and payload were two queue items; Lean counterexample by `decide`, replayed on the real code, fixed in lal commit db73f42). PARTIAL for timing: the latency bound and the "
         "write-deadline firing are runtime behaviour and are not modelled. Proof is the right level for the bookkeeping because the failure needs a queue-full instant between two specific writes — a fault "
         "schedule no test produces.",
    design_ref="§7 C15",
    note="Level 'proof' covers the bookkeeping only; timing is PARTIAL (named in not_modelled). Trusted: Lean kernel + 3 standard axioms; Model/Queue.lean as the reading of naza's connection; the spec readers; "
         "the hand-written model, validated on every run at L1 against REAL session objects (rtmp.ServerSession brought to play by a minimal client, httpflv/httpts SubSession plain + WebSocket, rtsp SubSession over "
         "interleaved TCP plain + WebSocket) over a socket that stops and resumes reading on command with queue capacities 2..8 (queue occupancy and writer state observed, not shadowed), and against a real "
         "logic.Group with stalled and healthy subscribers whose liveness sweep the harness ticks; the spec readers parse what the stalled consumer finally received. One defect fixed (S18).",
    technique="Lean 4 invariant over event lists + framing round-trip theorems + extracted configuration facts + L1 differential correspondence under a fault schedule",
)
