from common import KERNEL, CORR

_PROVED = [
    "rtprtcp.ParseRtpHeader / ParseRtpPacket (CSRC count, extension length incl. the uint16 wrap of 4*len, padding count) - rtp_header_total",
    "rtprtcp.RtpPacket.Body on every accepted packet: in range, not empty - rtp_body_total",
    "rtprtcp.IsAvcBoundary / IsHevcBoundary / IsAvcHevcBoundary - rtp_boundary_total",
    "rtprtcp.ParseRtcpHeader / ParseSr under len >= RtcpSrMinLength (their documented precondition; established by handleRtcpPacket) - rtcp_parse_total",
    "rtprtcp.RtpUnpackContainer.Feed with RtpUnpackerAvcHevc (calcPositionIfNeededAvc/Hevc, single / STAP-A / AP / FU-A / FU), RtpUnpackerAac (parseAu, single, "
    "fragmented, multi AU), RtpUnpackerRaw; RtpPacketList; rtpTimestamp2Ms for every Go int clock rate - unpack_total",
    "rtsp.BaseInSession.InitWithSdp / SetupWithChannel / HandleInterleavedPacket / handleRtpPacket / handleRtcpPacket (= the UDP callbacks onReadRtpPacket / "
    "onReadRtcpPacket), RrProducer, Rr.Pack, with the timestamp filter (AvPacketQueue) off - insession_total",
    "rtsp.ServerCommandSession.runCmdLoop + handleOptions/Announce/Describe/Setup/Record/Play/Teardown, parseTransport (parseRtpRtcpChannel, parseClientPort), "
    "readInterleaved, plain and WebSocket, authentication off or challenge path, over requests as the header reader delivers them; a second ANNOUNCE / DESCRIBE "
    "on one connection ends the session - rtsp_session_total",
    "rtsp.readHttpMessage / readHttpRequestMessage / readHttpResponseMessage (lal's own reader of RTSP requests and responses, pkg/rtsp/http_message.go): every "
    "Content-Length (absent, not a number, any Go int) against every continuation of the stream: no makeslice panic, body <= maxHttpMsgBodyLength and part of what "
    "was received - rtsp_msg_total",
    "base.ReadWsPayload (7 / 16 / 64 bit length, mask) - ws_total, ws_bounded (bytes held <= bytes received)",
    "gb28181.PsUnpacker.FeedRtpBody from any state: parsePackHeader, parsePackStreamBody, parsePsm, parseAvStream, readPts, iterateNaluByStartCode, onAvPacketWrap, "
    "avc.IterateNaluStartCode, nazabytes.Buffer (Write/Bytes/Skip as used) - ps_body_total",
    "gb28181.PsUnpacker.FeedRtpPacket (reordering list, drop loop, Reset) for maxUnpackRtpListSize - ps_feed_total",
    "base.ParseUrl / ParseRtmpUrl / ParseRtspUrl / ParseHttpflvUrl / parseUrlPath / GetFilenameWithoutType / GetFileType over every result of net/url.Parse and "
    "net.SplitHostPort - url_total",
    "sdp.ParseSdp2RawContext / ParseSdp2LogicContext / ParseAsc / ParseSpsPps / ParseVpsSpsPps: the model (C19's Model/Sdp.lean) is total by construction "
    "(pattern matching, no index primitive); used inside insession/rtsp_session; the sites are listed as structural in the inventory",
]
_FUZZED = [
    "fz.sess: BaseInSession WITH the AvPacketQueue timestamp filter (rtsp/avpacket_queue.go is not modelled)",
    "fz.rtsp: ServerCommandSession.RunLoop on raw bytes (nazahttp.ReadHttpHeader, auth.go ParseAuthorization / CheckAuthorization with Authorization headers, WebSocket framing of requests)",
    "fz.rtsp.cl: Content-Length values in a request on the RTSP port, whole session (finding C13-naza-content-length, fixed in lal; the reader alone is modelled: rtsp.msg)",
    "fz.hls: hls.ServerHandler.ServeHTTP on arbitrary paths and queries, sub-session mode on and off",
    "fz.rtmpc: rtmp.PullSession against a stub server (handshake, then arbitrary chunk streams into ClientSession.doMsg...), child process",
    "fz.flvc: httpflv.PullSession (HTTP response, FLV header, ReadTag loop), child process",
    "fz.rtspc: rtsp.PullSession / ClientCommandSession response handling, UDP and interleaved, child process",
    "fz.l2: a real logic.ServerManager (RTMP, RTSP, RTSP over WebSocket, HTTP-FLV/TS/HLS, HTTP API with every ctrl/stat handler on arbitrary JSON, GB28181 UDP port opened through "
    "start_rtp_pub) in a child process: hostile input on separate connections while one healthy RTSP connection must keep being answered (`alive`)",
]

PROP = dict(
    level="proof",   # per modelled entry point (list `modelled`); the entry points under `not_modelled` are differentially fuzzed only: no proof claim
    generators=["C13"],
    harness_timeout=2400,
    search_seeds=1,
    trusted_base=[
        KERNEL, CORR,
        "the models are written entry point by entry point in Except Fault with exactly the guards of the fixed lal tree; that a guard of the model is a guard of the code "
        "is validated on every run on the boundary corpus (every truncation, every extreme length field) and the seeded generators, nothing else",
        "Generated/C13.lean: go/ast inventory of index / slice / divide / make / type-assert expressions of the covered functions (sites_covered) and the constants "
        "(consts_agree); Proof/C13Sites.lean attributes each site to a theorem (`proved`) or to the correspondence (`structural`: pattern-matching / pure model)",
        "nazahttp.ReadHttpHeader / ParseHttpRequestLine (header section of an RTSP message), strconv.Atoi, net/http, encoding/json, net/url, net.SplitHostPort, encoding/base64, encoding/hex, bufio, naza connection are not modelled: "
        "their results are inputs of the models (parsed request, Content-Length as Atoi returns it, URL parts, codec parameter) or only fuzzed",
        "the harness' rtsp.session op runs a real ServerCommandSession over a connection that hands out one token per Read and drains the session's write queue with a sentinel "
        "before each token (the session closes without flushing); TEARDOWN replies are not compared (they race with the close)",
        "base.cipher (word-wise unmasking) is modelled by its specification payload[i] ^= mask[i%4]; the masking loop's index arithmetic is only tested (masked frames of 0..200 bytes)",
    ],
    modelled=_PROVED,
    not_modelled=_FUZZED + [
        "logic.HttpApiServer handlers (unmarshalRequestJsonBody, ctrl/stat handlers) and HttpServerHandler have no model: they are exercised by fz.l2 only; they run under "
        "net/http's per-connection recover (a handler panic closes that connection), goroutines they start (relay pull, rtp pub) do not",
        "UDP socket plumbing (nazanet.UdpConnection, AvailUdpConnPool), TLS, memory exhaustion by volume of real data, goroutine / fd leaks (e.g. SETUP with client_port before "
        "ANNOUNCE acquires a UDP port pair and never releases it)",
        "what happens downstream of OnAvPacket / OnRtpPacket (remux, group broadcast: C05/C07)",
    ],
    assumptions=[
        "Go int is 64 bit; RTP timestamps, SSRCs, sequence numbers are the fixed-width fields of the wire format",
        "rtsp_session_total: requests are what lal's readHttpRequestMessage (nazahttp.ReadHttpHeader + rtsp_msg_total's body step) delivers for a well-formed message; the UDP SETUP path assumes a free port pair",
        "rtcp_parse_total needs len(b) >= 28: ParseSr / ParseRtcpHeader themselves still index unchecked (documented precondition); handleRtcpPacket is their only caller in lal",
        "ws_bounded bounds memory by the bytes received, not by a constant: a peer that really sends 1 GiB makes lal hold 1 GiB",
    ],
)

META = dict(
    text="PER MODELLED ENTRY POINT (14 entry-point groups, see evidence.coverage.modelled; everything listed under not_modelled is fuzzed only and carries no proof claim). For ALL byte strings / datagram sequences / SDP contexts / clock rates / channel assignments the models of lal's RTP header and Body(), key-frame boundary test, RTCP handling, "
         "the three RTP unpackers inside RtpUnpackContainer, BaseInSession, the RTSP command loop (plain and WebSocket, interleaved frames), lal's RTSP message reader (Content-Length), ReadWsPayload, the GB28181 PS "
         "demultiplexer and reordering list, and the URL functions end with a value or an error, never with a Go panic (index, slice, divide, nil list head, makeslice); "
         "WebSocket memory is bounded by the bytes received. Proof is the right level: the failures were single extreme field values (padding count 255, AU-headers-length 65535, "
         "clock rate 500, PES length 2, 64-bit frame length 2^40, Content-Length -1, a stale list Size after ~1200 datagrams) that replayed captures never contain. Eleven findings "
         "of the pinned tree (each a remote process kill: lal has no recover) were found and fixed through this check; the last one (negative Content-Length reaching make() in the naza "
         "HTTP reader, RTSP port and RTSP client) is repaired inside lal, which now reads RTSP messages with a reader of its own that checks the length first. Raw-byte RTSP, auth headers, HLS handler and the RTMP / HTTP-FLV / RTSP clients are differentially fuzzed only (no claim beyond the runs); "
         "the HTTP API and HTTP-FLV/TS/HLS handlers are fuzzed through a real ServerManager only.",
    design_ref="§7 C13",
    note="Trusted: Lean kernel + 3 standard axioms; the hand-written models (validated on every run against the real functions / a real ServerCommandSession / real client sessions "
         "in child processes: exhaustive truncations of inputs up to 64 bytes, every first payload byte, every PS stream id, all extreme length fields, random mutation); the go/ast site "
         "inventory; Go standard library and naza readers as inputs of the models.",
    technique="Lean 4 totality theorems over Except-Fault models (invariants through the packet lists and the session state) + site-coverage obligation + differential correspondence + child-process fuzzing",
)
