from common import KERNEL, CORR

PROP = dict(
    level="proof",
    generators=["C08", "C17Pack"],   # the message packer's own chunking of lal's signalling messages too
    trusted_base=[
        KERNEL, CORR,
        "Spec/ChunkSpec.lean is the reading of RTMP 1.0 §5.3.1/§5.4.1/aggregate messages used as 'specification-conforming reader'; "
        "'conforming chunking' means accepted by that strict reader (types 0/1/2 only begin a message, deltas < 0xFFFFFF, extended field on type 3 iff on the last type 0/1/2 chunk)",
        "harness reference encoder (independent Go, random legal choices) — every byte string it emits is first checked by the strict spec reader in the driver; rejected ones are counted as generator bugs, never as passes",
        "verif hook pkg/rtmp/verif_export.go (VerifMessage2Chunks, Stream.VerifMsg, three constants)",
        "Generated/C08.lean (maxTimestampInMessageHeader, defaultChunkSize, LocalChunkSize, maxHeaderSize) printed from the rtmp package the harness was built against",
    ],
    modelled=["rtmp.calcHeader", "rtmp.message2Chunks", "rtmp.ChunkComposer.RunLoop (incl. Set Chunk Size, aggregate split, uint32 timestamp arithmetic)", "rtmp.Stream / StreamMsg as used by the composer"],
    not_modelled=["rtmp.Message2ChunksV (dead code: copyBufferFromBuffers is unimplemented; no caller)", "message_packer's hand-written control-message headers (C04/C17)",
                  "allocation size of StreamMsg.Grow (memory, not logic)"],
    assumptions=["chunk size ≥ 1", "messages given to the divider: 1 ≤ len = payload length < 2^24, ts < 2^32, 2 ≤ csid ≤ 65599, type ∉ {1, 22}",
                 "timestamp deltas in type 1/2 headers < 0xFFFFFF (as the property states)"],
)

META = dict(
    text="Theorems for every message sequence, chunk size ≥ 1, length, timestamp, csid: (1) the strict RTMP-spec reader decodes lal's chunks into the identical messages "
         "(enc_dec_spec); (2) lal's composer SIMULATES the spec reader on every byte string that reader accepts — interleaving, formats 0-3, extended timestamps, "
         "Set Chunk Size mid-message, aggregates (dec_legal, a per-chunk simulation relation lifted by induction over the stream); (3) hence lal reads its own chunks exactly "
         "(enc_dec_lal). Proof is the right level: three real defects sat at single points (ts = 0xFFFFFF, chunk-size change between two chunks, aggregate payload) that sampling missed for years.",
    design_ref="§7 C08",
    note="Trusted: Lean kernel + 3 standard axioms; the spec reader as written; the hand-written model, validated each run against VerifMessage2Chunks and a real ChunkComposer "
         "(divider boundary corpus, lal round trips, 1200+/60000 reference-encoder chunkings, truncated/mutated/random streams). Three defects fixed in /repo (see known_findings.json).",
    technique="Lean 4 simulation + round-trip theorems, differential correspondence",
)
