from common import KERNEL, CORR

PROP = dict(
    level="proof",
    generators=["C02", "C06"],   # the TS / RTSP remuxer ops too: what HTTP-TS, HLS and RTSP consumers start with (parameter sets before key frames)
    harness_timeout=900,
    trusted_base=[
        KERNEL, CORR,
        "L1 harness (harness/c01.go): a real logic.Group with real rtmp / http-flv / ws-flv sessions over recording conns, single threaded, one event = one Group.mutex critical section",
        "the executable oracle in Driver/C01.lean applied to the implementation's bytes: headers/GOP-replay/contiguous-run shape with per-GOP cap, "
        "'every frame preceded by the sequence header in force', 'never held back when the stream has no video'",
    ],
    modelled=["remux.GopCache (ring arithmetic, sequence-header change drops cached GOPs, per-GOP cap)", "Group fresh-subscriber prologue and key-frame wait for RTMP / HTTP-FLV / WS-FLV",
              "headers forwarded to waiting subscribers", "stat.VideoCodec driven wait decision at join, reset in delIn"],
    not_modelled=["HTTP-TS consumers (PAT/PMT first, boundary wait, GopCacheMpegts) and RTSP consumers (SDP first, RTP boundary gate): not in this model — covered only as far as C06/C09/C12 go",
                  "message-level theorem 'first video frame is a key frame' and 'sequence header in force' are checked by the oracle on the implementation, not yet proved on the model"],
    assumptions=["publisher payloads long enough for the classification helpers (C05 covers short ones)"],
)

META = dict(
    text="Theorems: remux.GopCache's index ring refines a queue of GOPs (push on key frame, drop-oldest when gop_num are cached, append unless the per-GOP cap is reached, forget on a "
         "sequence-header change) with ring well-formedness preserved for every Feed; in every reachable state of the group each cache holds <= gop_num GOPs none longer than the cap; a fresh "
         "consumer's prologue is cached metadata, video header, audio header, then the cached GOPs oldest first; a joiner waits for a key frame iff the current input has announced video; a waiting "
         "consumer holds exactly its prologue plus forwarded headers. Four defects found by the oracle and fixed in /repo (cap off by one, stale codec info, headers withheld from waiting "
         "subscribers, GOPs replayed under a new sequence header).",
    design_ref="§7 C02",
    note="New: cached_gops_start_with_key_frame (every cached GOP of both caches begins with a key frame, all reachable states) and ts_gop_cache_is_queue (the HTTP-TS GOP cache is the queue of the last GOPs after any history of frames and Clear). Scope: RTMP / HTTP-FLV / WS-FLV consumers. TS and RTSP start-up are not modelled here. The two message-level statements (key frame first, header in force) are enforced by the "
         "oracle + correspondence only.",
    technique="Lean 4 refinement (ring buffer to queue) + invariants over event lists + L1 differential correspondence",
)
