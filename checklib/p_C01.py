from common import KERNEL, CORR

PROP = dict(
    level="proof",
    generators=["C01", "C11", "C08"],   # the FLV / WebSocket framing and chunk ops too: every consumer's bytes go through those encoders
    harness_timeout=900,
    trusted_base=[
        KERNEL, CORR,
        "L1 harness: a real logic.Group with real rtmp.ServerSession / httpflv.SubSession objects over recording conns; the harness is single threaded and every event is one "
        "critical section of Group.mutex, so the event order given to the model is the order executed (the atomicity assumption itself is C20's subject)",
        "Go map iteration order over subscriber sets is not controlled; the model iterates in join order and the comparison is per consumer (the theorem is about per-consumer bytes)",
        "the executable oracle in Driver/C01.lean (spec readers of C08/C11 + headers/GOP-replay/contiguous-run check) applied to the implementation's bytes",
        "ghost fields of the model (pubLog, mergeFrom, Sub.pro, Sub.start, usedIds) never influence an output",
    ],
    modelled=["Group.broadcastByRtmpMsg (RTMP subscribers, merge writer, HTTP-FLV / WS-FLV subscribers, FLV recording, GOP caches, stat.VideoCodec)",
              "Group.AddRtmpSubSession/AddHttpflvSubSession/Del…, AddRtmpPubSession/DelRtmpPubSession (addIn/delIn effects on caches and recording)",
              "remux.GopCache (ring arithmetic), base.MergeWriter, remux.LazyRtmpChunkDivider / LazyRtmpMsg2FlvTag / MakeDefaultRtmpHeader, rtmp.MetadataEnsureWith(out)Sdf"],
    not_modelled=["relay push sessions (forwarding logic identical to a subscriber without key-frame wait; not yet in the model)", "TS / RTSP / HLS outputs (C02/C06)",
                  "back-pressure: every write is assumed accepted (C15)", "what a subscriber holds after it LEFT is not re-stated (its bytes no longer change)"],
    assumptions=["consumer transports accept every write (the property's own hypothesis)", "message payloads long enough for the classification helpers not to panic (video ≥ 5 bytes, audio ≥ 2; shorter ones are C05's subject)"],
)

META = dict(
    text="Invariant proved by induction over ALL event lists (any publish sequence, any join/leave instants of any number of RTMP / HTTP-FLV / WS-FLV subscribers, publisher changes, "
         "every GOP-cache size, frame cap and merge-write size): each RTMP subscriber has been written its start-up prologue followed by the serialisation of one contiguous slice "
         "of the publisher's non-empty messages; with merge writing off the slice reaches the end of the log. Composes with C08/C11 byte-level theorems. The model is byte-exact and "
         "compared per consumer with a real logic.Group; an executable rendering of the property runs on the implementation's bytes. Found and fixed: merge-write delivered each batch to one subscriber only.",
    design_ref="§7 C01",
    note="Proved on the model of the whole fan-out: rtmp_sub_contiguous and flv_sub_contiguous (HTTP-FLV and WebSocket-FLV) for every reachable state, pubLog_is_published "
         "(the log is exactly the accepted publisher's non-empty messages), live_part_decodes_rtmp / _flv (composition with C08 / C11: a specification reader decodes the live part "
         "into the published messages), zero_len_dropped. The FLV recording and relay push are under correspondence + oracle only (no theorem yet). Trusted: kernel, harness, "
         "model-code correspondence on generated scenarios + join-position corpus.",
    technique="Lean 4 invariant over event lists (history variables) + L1 differential correspondence",
)
