from common import KERNEL, CORR

PROP = dict(
    level="proof",
    generators=["C18", "C17Pack"],   # the message packer ops too (strings of any length encoded by lal's own command writers)
    trusted_base=[
        KERNEL, CORR,
        "Spec/Amf0Spec.lean is the reading of Adobe 'AMF 0' (2007) §2.2-2.14 used as the conforming decoder (markers 00 01 02 03 05 06 08 09 0A 0C; "
        "ECMA associative-count read as exact; other markers rejected); its IEEE-754 double-to-integer reading is used by the metadata oracle only",
        "Go stack use is modelled as one frame per nested container (explicit `stack` budget whose exhaustion is a panic value); that a container level costs a "
        "bounded number of bytes of goroutine stack is observed, not proved (amf.deep ops: real reader in a child process under debug.SetMaxStack)",
        "harness/c18.go: its own serialiser builds reader inputs for trees lal has no writer for; the child-process runner of amf.deep",
        "Generated/Amf0Consts.lean: Amf0MaxNestingDepth is read from the text of pkg/rtmp/amf0.go, the version strings are printed from package base",
    ],
    modelled=["Amf0.WriteNumber/WriteString/WriteNull/WriteBoolean/WriteObject", "Amf0.ReadStringWithoutType/ReadLongStringWithoutType/ReadString/ReadNumber/ReadBoolean/ReadNull/"
              "ReadUndefinedOrUnsupported/ReadObject/ReadArray/ReadStrictArray/ReadObjectOrArray", "amf0.read/readObject/readArray/readStrictArray (depth counter, Amf0MaxNestingDepth)",
              "ParseMetadata", "MetadataEnsureWithSdf", "MetadataEnsureWithoutSdf", "BuildMetadata (float64(int) conversion included)"],
    not_modelled=["ObjectPairArray.Find*/DebugString", "error texts and log lines (errors are the single value err)", "message_packer.go command messages (sequences of the modelled writers into "
                  "the rtmp Buffer; the Buffer growth defect S20 belongs to C17)", "what the readers return next to a non-nil error"],
    assumptions=["numbers are 8 bytes; strings < 2^32, keys < 2^16 bytes, array counts < 2^32 (AMF0 length fields; `wf`)", "nesting depth <= Amf0MaxNestingDepth (32) for the round trip; deeper input is "
                 "rejected with an error (examples, amf.dec nest-* and amf.deep ops)", "Go int is 64 bit (BuildMetadata arguments)"],
)

META = dict(
    text="Theorems for all AMF0 value trees over number, boolean, string (short and long form, any length < 2^32), object, ECMA array, strict array, null, undefined, nested up to "
         "Amf0MaxNestingDepth, followed by any bytes: lal's reader (the model of amf0.go) and an independent AMF0-spec decoder return the tree and consume exactly the encoded length; what lal's "
         "writers produce is that encoding and lal's representation is injective on it. For ALL byte strings every exported reader, ParseMetadata and the @setDataFrame functions end with a "
         "value or an error: no index/slice fault, termination (fuel), at most Amf0MaxNestingDepth nested frames (stack budget as a panic value), consumed <= input length. "
         "@setDataFrame add/strip laws byte-exact; BuildMetadata parses back to the fields it was built from. Proof is the right level: unbounded sizes, nesting and the 65535/65536 boundary. "
         "Two defects of the pinned tree were found through this check and fixed (long-string members rejected; unbounded recursion: 16 MiB of nested markers overflow the 1 GB Go stack).",
    design_ref="§7 C18",
    note="Trusted: Lean kernel + 3 standard axioms; Spec/Amf0Spec.lean as the reading of the AMF0 spec; the hand-written model, validated on every run against the real rtmp.Amf0.* / "
         "metadata functions on type-directed trees (depth <= 6, string lengths 0/1/65535/65536/70000), every truncation, mutations, splices, random and marker-rich bytes, marker runs to "
         "depth 2000 in process and 100000 (thorough: 16 MiB) in a child process with a stack limit; one frame per container level as the stack model.",
    technique="Lean 4 round-trip, totality and resource-bound theorems (mutual structural induction over a nested inductive) + differential correspondence",
)
