from common import KERNEL, CORR

PROP = dict(
    level="proof",
    generators=["C19", "C07"],   # the AvPacket -> RTMP remuxer ops too: parameter sets and ADTS headers become RTMP sequence headers there
    search_seeds=2,
    search_thorough=False,
    trusted_base=[
        KERNEL, CORR,
        "Spec/SpsEnc.lean is the reading of ITU-T H.264 §7.3.2.1.1 (SPS syntax incl. scaling lists, all POC types, cropping, VUI aspect ratio), §7.3.2.11, §7.4.1 (emulation prevention), §9.1 (ue/se) and §7.4.2.1.1 (CropUnitX/Y, cropping rectangle) used as 'specification-following encoder' and 'dimensions encoded in the SPS'",
        "Spec/AnnexB.lean (H.264 Annex B byte stream), Spec/ConfigRecord.lean (ISO/IEC 14496-15 avcC / hvcC, FLV VIDEODATA header), Spec/AudioSpec.lean (ISO/IEC 14496-3 AudioSpecificConfig, ADTS header), Spec/SdpSpec.lean (RFC 4566 / 6184 / 7798 / 3640) are the readings of those documents used by the oracles",
        "base64 and hex are parameters of Model/Sdp.lean carrying only the stated laws (decode∘encode = id, the alphabet contains no separator); the driver instantiates them with Driver/Codec.lean (RFC 4648), which is validated against Go's encoding/base64 and encoding/hex through sdp.Pack / ParseSdp2LogicContext on every run",
        "harness/c19.go bit writer (independent of nazabits and of lal) produces the SPS / exp-Golomb inputs on which the real avc.ParseSps and nazabits readers run; its output is compared byte for byte with Spec/SpsEnc.lean",
        "the nazabits.BitReader model (Model/Bits.lean) is over the list of unread bits; naza v0.30.49 is third-party code and is taken as it is (its ReadBits32(0)-at-end panic and int32 se(v) wrap are modelled, not repaired)",
        "Generated/C19Consts.lean is printed by the harness from the packages it was built against",
    ],
    modelled=["avc.IterateNaluStartCode / IterateNaluAnnexb / SplitNaluAnnexb / IterateNaluAvcc / SplitNaluAvcc / Avcc2Annexb / Annexb2Avcc", "h2645.JoinNaluAvcc / IterateNaluAvcc / IterateNaluStartCode / SeqHeader2Annexb",
              "avc.BuildSeqHeaderFromSpsPps / ParseSpsPpsFromSeqHeader(WithoutMalloc) / parseSpsPpsListFromSeqHeaderWithoutMalloc / SpsPpsSeqHeader2Annexb / BuildSpsPps2Annexb",
              "avc.ParseSps (parseSpsBasic, parseSpsGamma, nal2rbsp, width/height)",
              "hevc.BuildSeqHeaderFromVpsSpsPps / ParseVpsSpsPpsFromSeqHeader(WithoutMalloc) / parseVpsSpsPpsFromRecord / parseVpsSpsPpsAnnexbFromRecord / ParseVpsSpsPpsFromEnhancedSeqHeader / VpsSpsPps(Enhanced)SeqHeader2Annexb / BuildVpsSpsPps2Annexb / ParseVps / ParseSps / parsePtl / updatePtl / nal2rbsp",
              "aac.AscContext.Unpack / Pack / PackAdtsHeader / GetSamplingFrequency, AdtsHeaderContext.Unpack, MakeAscWithAdtsHeader, MakeAudioDataSeqHeaderWithAsc / WithAdtsHeader, SequenceHeaderContext.Unpack",
              "nazabits.BitReader ReadBit / ReadBits8/16/32/64 / ReadBytes / SkipBits / ReadUeGolomb / ReadSeGolomb",
              "sdp.Pack, ParseSdp2RawContext (incl. the fmtp line-gluing second attempt), ParseM / ParseARtpMap / ParseAFmtPBase / ParseAControl, ParseSdp2LogicContext, ParseAsc / ParseSpsPps / ParseVpsSpsPps, LogicContext accessors",
              "remux.Rtmp2RtspRemuxer sequence headers → SDP (classic AVC/HEVC + AAC), remux.AvPacket2RtmpRemuxer.InitWithAvConfig"],
    not_modelled=["enhanced-RTMP fourcc dispatch in Rtmp2RtspRemuxer (the enhanced record parser itself is modelled)", "SDP text outside ASCII (strings.TrimSpace / EqualFold Unicode cases)", "Go nil vs empty non-nil slice for IterateNalu* inputs (identified)",
                  "H.265 SPS dimensions (hevc.ParseSps is modelled only as far as the hvcC header bytes depend on it)", "avc.TryParseSeqHeader / ParseSliceType (experimental / not on the configuration path)"],
    assumptions=["parameter sets shorter than 65536 bytes (16-bit length fields); NAL units shorter than 2^32",
                 "NalWF (non-empty, no 00 00 00 / 00 00 01 inside, last byte non-zero) for the Annex-B round trips: what emulation prevention guarantees",
                 "BuildSeqHeaderFromSpsPps / FromVpsSpsPps only produce a header for an SPS (and VPS) their own ParseSps accepts; the round-trip theorems are stated for the headers they produce, and sps_dims shows every specification-produced H.264 SPS is accepted",
                 "ADTS: object type 1..4, channel configuration < 8, frame length + 7 < 8192 (the fields' widths)",
                 "se(v) round trip only for |v| < 2^30: nazabits.ReadSeGolomb wraps in int32 beyond (H.264 allows ±(2^31-1)); lal uses se(v) only for delta_scale (±128) and skipped offsets",
                 "sdp.Pack: sampling frequency ≥ 0 and an AudioSpecificConfig of at least 2 bytes"],
)

META = dict(
    text="Theorems over all byte strings / all parameter values: AVC and HEVC sequence headers built by lal are read back by lal and by an ISO/IEC 14496-15 reader as exactly the parameter sets "
         "(all lengths < 65536); Annex-B and length-prefixed NAL streams with any mix of 3/4-byte start codes and trailing zeros split into exactly the units and convert into each other; "
         "AudioSpecificConfig and ADTS header pack/unpack for every value the fields can carry; exp-Golomb write/read; and for EVERY H.264 SPS the specification-following writer of Spec/SpsEnc.lean can "
         "produce (all profile classes, chroma formats, scaling lists, POC types, interlaced, cropping, VUI, emulation prevention anywhere) avc.ParseSps reports the §7.4.2.1.1 dimensions (sps_dims). "
         "The last one is false of the pinned tree (S21): fixed in branch w-C19 by two `fix:` commits, the model follows the fixed code and the pinned behaviour is kept as Variant.pinned with decide-witnesses. "
         "Proof is the right level: the failing inputs (an emulation byte before the size fields, 4:2:2, 1080i) are exactly what sampling with typical streams never reaches.",
    design_ref="§7 C19",
    note="Trusted: Lean kernel + 3 standard axioms; the specification readings in Spec/; the hand-written models, validated on every run against the real pkg/avc, pkg/hevc, pkg/aac, pkg/h2645, pkg/sdp, "
         "nazabits and the two remuxers on ~34 000 generated ops (quick) with an independent Go bit-writer feeding avc.ParseSps; base64/hex as law-carrying parameters.",
    technique="Lean 4 round-trip theorems + differential correspondence + spec-side oracles",
)
