from common import KERNEL, CORR

PROP = dict(
    level="proof",
    generators=["C09"],
    trusted_base=[
        KERNEL, CORR,
        "Spec/TsSpec.lean is the reading of ISO/IEC 13818-1 used as 'conforming demuxer': transport packet (2.4.3.2), adaptation field (2.4.3.4), "
        "PES packet and PTS/DTS layout (2.4.3.6/7), pointer_field / PAT / PMT sections (2.4.4), Annex A CRC taken byte-wise (xor the byte into the top of the "
        "register, eight shifts with polynomial 0x04C11DB7, preset all ones, valid section = register zero); Opus = stream_type 6 + registration descriptor 'Opus'",
        "Generated/C09.lean (crc32table, delay, syncByte, opusIdentifier read from the AST of pkg/mpegts; PIDs, stream ids/types, RTMP codec ids printed from "
        "the packages the harness was built against); the extractor refuses a crc32table that differs from what the compiled CalcCrc32 uses",
        "lal adds its constant `delay` (63000 ticks) to PTS and DTS and sends PCR = DTS - delay: the theorems state the recovered timestamps with that offset, mod 2^33",
    ],
    modelled=["mpegts.Frame.Pack", "mpegts.packPts", "mpegts.packPcr", "mpegts.PackPat", "mpegts.PackPmt", "mpegts.PsiSection.Pack and its writers",
              "mpegts.CalcCrc32 (hash/crc32 simpleUpdate over crc32table)", "mpegts.crc32table", "mpegts.delay / PIDs / stream types"],
    not_modelled=["Frame.Pack's output-buffer sizing and its grow-and-log branch (never taken: 2*len(raw) >= bytes produced; output bytes are compared up to 200 KiB)",
                  "nazabits.BitWriter itself (the PSI writers are modelled by the bytes they produce; all field groups are byte aligned)",
                  "continuity_counter of the PAT/PMT packets (always 0 in PackPat/PackPmt; the property speaks about frames)",
                  "lal's own TS reader (ParsePes, ParsePat, ParsePmt, ParseTsPacketHeader)"],
    assumptions=["frame payload length >= 1 (Pack of an empty frame produces no packet), Cc a uint8, PID < 2^13, stream_id 0xC0..0xEF",
                 "PES_packet_length = 0 is accepted for video stream ids only (ISO 13818-1 2.4.3.7): for an audio stream id the theorem and the oracle require the PES packet to fit 65535 bytes; "
                 "the other case is known finding C09-pes-length-0-non-video"],
    search_seeds=2,
)

META = dict(
        text="Theorems for every frame (all payload lengths >= 1 — no upper bound —, key/non-key, PTS = DTS / PTS != DTS, any 13-bit PID, any audio/video stream id, any incoming counter): "
             "an ISO/IEC 13818-1 demultiplexer written from the standard reads the packets of Frame.Pack back as one PES packet with the same PID, stream id, 33-bit PTS/DTS, "
             "random_access_indicator = Key, PCR exactly on key frames and a byte-identical payload (pack_demux); all packets are 188 bytes with sync byte (pack_188); counters are "
             "Cc+1.. mod 16 and continue across frames (pack_cc, pack_cc_across_frames); PUSI on the first packet only (pack_pusi); the packet count is 1 + ceil((len - c)/184) with first-packet capacity c in {170,165,162,157} (pack_count); the CRC table regenerated from the Go source equals the bitwise "
             "CRC-32/MPEG-2 definition on all 256 entries (kernel evaluation) and hence on every byte string (crc_table_eq_bitwise); PAT and PMT for every codec id pair are valid sections "
             "(CRC register zero, 0xFF fill) declaring exactly the stream's codecs (pat_pmt_valid). Proof is the right level: the stuffing arithmetic has one case per residue of the length "
             "modulo 184 and per header size, which sampling hits only by luck; two defects of exactly that kind were found and fixed (S3 adaptation-field stuffing offsets; PTS bits 32..30).",
        design_ref="§7 C09",
        note="Trusted: Lean kernel + 3 standard axioms; Spec/TsSpec.lean as the meaning of 'conforming demuxer'; the hand-written model, validated on every run against mpegts.Frame.Pack "
             "(every length 1..600 x key x pts/dts x counters x both tracks, boundary lengths to 65528, random to 200 KiB), PackPat, PackPmt (49 codec id pairs) and CalcCrc32 (every table entry). "
             "Open finding: PES_packet_length = 0 is also written for non-video stream ids when the PES packet exceeds 65535 bytes.",
        technique="Lean 4 round-trip theorems + differential correspondence",
    )
