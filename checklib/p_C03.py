from common import KERNEL, CORR

PROP = dict(
    level="proof",
    generators=["C03"],
    harness_timeout=1500,
    trusted_base=[
        KERNEL, CORR,
        "event granularity: one event = one critical section of Group.mutex / ServerManager.mutex; a command that makes a connection's read loop return is merged with the "
        "tail of handleTcpConnect that follows in the same goroutine, and a refused relay-pull attach with the Del…PullSession that follows (the first of the two changes nothing visible); "
        "atomicity itself is C20's subject",
        "L1 harness: a real logic.Group called directly with real session objects (verif hooks pkg/logic/verif_c03.go: read-only view of the slots, GroupOption with the hook-session "
        "callback; pkg/logic/verif_c17.go: the connecting attempt's key pullingSessionUk), a TCP listener that parks the pulls the group starts itself and answers one only when the "
        "scenario says so (lal's rtmp.ServerSession, resp. OPTIONS/DESCRIBE answers for an rtsp pull); StopPull / kick of the attached pull session is one event with the "
        "Del…PullSession its goroutine then makes",
        "L2 harness: a real logic.ServerManager on 127.0.0.1, recording INotifyHandler, IAuthentication refusing `deny=1`, raw RTMP / RTSP clients written for the harness, "
        "lal's rtmp.ServerSession run by the harness on parked connections as the relay-pull origin; every event ends with a barrier; session ids renamed to order of first appearance",
        "notify worker: one goroutine fed in lock order (taskpool MaxWorkerNum = 1); the model's log is that FIFO",
        "the executable oracles in Driver/C03.lean applied to the implementation's own output",
        "the ghost field of the model (Pull.wasAttached) never influences an output",
    ],
    modelled=["Group.AddRtmpPubSession / AddRtspPubSession / AddCustomizePubSession / StartRtpPub / AddRtmpPullSession / AddRtspPullSession and the Del… counterparts (identity checks), "
              "hasInSession, inSessionUniqueKey, addIn/delIn as pipeline start/stop, KickSession, Dispose, IsInactive, Tick→pullIfNeeded, StartPull / StopPull / shouldStartPull / stopPull / kickPull, "
              "pullProxy.pullingSessionUk with isPullSessionConnecting / isPullSessionWanted (stop and kick cancel an attempt that is still connecting; an attach is refused with "
              "errRelayPullStopped unless it is the attempt the group is waiting for; nothing but stopPull resets the key)",
              "ServerManager.OnNew*/OnDel* for RTMP and RTSP, CtrlStartRtpPub / CtrlKickSession / CtrlStartRelayPull / CtrlStopRelayPull / StatGroup, Add/DelCustomizePubSession, the notification queue",
              "rtmp.Server.handleTcpConnect + ServerSession.doPublish/doPlay (incl. second command), rtsp.Server.handleTcpConnect + ServerCommandSession ANNOUNCE / DESCRIBE / SETUP / RECORD / PLAY / teardown",
              "CustomizePubSessionContext.FeedRtmpMsg / Dispose; the media callbacks' source wiring (avObserver, onReadRtmpAvMsg, OnAvPacketFromPsPubSession)"],
    not_modelled=["HTTP-FLV / HTTP-TS / HLS subscribers (same callback pattern as RTMP subscribers)", "static relay pull (config) and auto-stop-pull timers, idle-session timeouts (C17)",
                  "relay push", "ServerManager.Dispose (shutdown)", "the rtsp-over-websocket server (same code shape as rtsp.Server; repaired identically)",
                  "L2 does not exercise RTSP relay pull, RTSP/GB28181 media, or the 1 s tick (L1 covers Group.Tick and RTSP relay pull up to the attach; scenarios are built so that a tick is unobservable)",
                  "relay-pull auto stop (lastHasOutTs, shouldAutoStopPull) and relay push incl. AddRtmpPushSession's publisher check (C17)"],
    assumptions=["start_relay_pull is called with auto_stop_pull_after_no_out_ms = -1; static relay pull off", "StartRtpPub's listen succeeds",
                 "a pull session's unique key is never the empty string (pullingSessionUk == \"\" means no attempt is remembered)",
                 "a group named by a stale callback is the group currently registered under that name "
                 "(groups are erased only when they have no input, no output and no pull attempt)"],
)

META = dict(
    text="Invariants proved by induction over ALL event lists of the admission model (RTMP / RTSP connection automata incl. second commands and refused requests, customize and GB28181 "
         "publishers, relay-pull attempts that attach, fail, are overtaken or are stopped / kicked while still connecting, kick / start_rtp_pub / start_relay_pull / stop_relay_pull, tick and group erasure, any number of streams). "
         "The model is compared event by event with a real logic.Group (L1) and a real logic.ServerManager driven over TCP (L2); executable renderings of the property run on the "
         "implementation's own output. Seven defects of the pinned tree were found, replayed on the real code and repaired in lal (see known_findings.json): a failed / overtaken relay pull tore the publisher down; start_rtp_pub installed a second input; a second publish/play on one RTMP connection crashed the server; a refused RTSP ANNOUNCE/DESCRIBE was followed by a stop notification; a second ANNOUNCE/DESCRIBE left a ghost publisher for ever; a removed customize publisher and a not-yet-attached relay pull could feed another input's stream. The model was afterwards brought in line with C17's relay-pull repair (an attempt stopped or kicked while connecting is refused when the origin answers); `Code.pinned` keeps the old behaviour as a witness.",
    design_ref="§7 C03",
    note="All six planned theorems are proved at full strength over all event lists (at_most_one_input, refusal_is_silent, foreign_departure_harmless — in every state —, no_forward_from_non_input, notify_paired, stat_lists_attached_only) plus four corollaries; no `_partial`. Trusted: kernel, the hand-written model and its event granularity, the L1/L2 correspondence on generated scenarios + witness corpus, the oracles. L2 is timing-sensitive by nature: every event ends with a barrier and scenarios avoid what the 1 s server tick could make observable.",
    technique="Lean 4 invariants over event lists (ghost history per session) + L1/L2 differential correspondence + executable oracles",
)
