"""Per-property configuration of ./check: one file checklib/p_<id>.py per claimed property,
each defining PROP (check configuration) and META (MANIFEST text). What exists, not what is planned."""
import glob, importlib, os, sys

_here = os.path.dirname(os.path.abspath(__file__))
PROPS, META = {}, {}
for _f in sorted(glob.glob(os.path.join(_here, "p_C*.py"))):
    _name = os.path.basename(_f)[:-3]
    _m = importlib.import_module(_name)
    _pid = _name[2:]
    PROPS[_pid] = _m.PROP
    META[_pid] = _m.META
