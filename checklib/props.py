"""Per-property configuration of ./check. What exists, not what is planned."""

KERNEL = "Lean 4.33.0 kernel; axioms propext, Classical.choice, Quot.sound only (audited per theorem on every run)"
CORR = "hand-written Lean model tied to /repo by differential execution (harness built from the working tree, -tags verif) on seeded generators + boundary corpus"

PROPS = {
    "C11": dict(
        level="proof",
        generators=["C11"],
        trusted_base=[
            KERNEL, CORR,
            "Spec/FlvSpec.lean is the reading of Adobe FLV v10.1 Annex E used as 'conforming parser'; Spec/WsSpec.lean the reading of RFC 6455 §5.2",
            "harness recConn (records each net.Conn.Write as one queue item); naza connection's asynchronous writer delivers items in order",
            "Generated/Consts.lean (flvHeader) is printed by the harness from the httpflv package it was built against",
        ],
        modelled=["httpflv.PackHttpflvTag", "httpflv.ReadTag/parseTagHeader", "Tag.Payload", "FlvFileWriter.WriteFlvHeader/WriteTag", "FlvFileReader.ReadFlvHeader/ReadTag",
                  "base.MakeWsFrameHeader", "BasicHttpSubSession.Write (plain and WebSocket)", "httpflv.FlvHeader"],
        not_modelled=["HTTP response header text", "base.ReadWsPayload (client-to-server frames; belongs to C13)"],
        assumptions=["payload length < 2^24 and timestamp < 2^32 (Go types / RTMP message length limit)", "tag type < 32 for the specification reader (lal only packs 8, 9, 18)"],
    ),
}
