from common import KERNEL, CORR

PROP = dict(
    level="proof",
    generators=["C11", "C01Lazy"],   # the lazily built FLV tag of a published message too (what flv consumers and the recording get)
    trusted_base=[
        KERNEL, CORR,
        "Spec/FlvSpec.lean is the reading of Adobe FLV v10.1 Annex E used as 'conforming parser'; Spec/WsSpec.lean the reading of RFC 6455 §5.2",
        "harness recConn (records each net.Conn.Write as one queue item); naza connection's asynchronous writer delivers items in order",
        "Generated/Consts.lean (flvHeader) is printed by the harness from the httpflv package it was built against",
    ],
    modelled=["httpflv.PackHttpflvTag", "httpflv.ReadTag/parseTagHeader", "Tag.Payload", "FlvFileWriter.WriteFlvHeader/WriteTag", "FlvFileReader.ReadFlvHeader/ReadTag",
              "base.MakeWsFrameHeader", "BasicHttpSubSession.Write (plain and WebSocket)", "httpflv.FlvHeader"],
    not_modelled=["HTTP response header text", "base.ReadWsPayload (client-to-server frames; belongs to C13)"],
    assumptions=["payload length < 2^24 and timestamp < 2^32 (Go types / RTMP message length limit)", "tag type < 32 for the specification reader (lal only packs 8, 9, 18)"],
)

META = dict(
        text="Theorems for all tag types, payload lengths < 2^24, timestamps < 2^32 and all tag sequences: lal's tag / file header / WebSocket "
             "framing is read back by an FLV-spec reader, by the model of lal's reader and by an RFC 6455 reader as exactly what was written. "
             "Proof is the right level because the property is a pure encode/decode law over unbounded sizes; the boundary points (125/126, 65535/65536, "
             "2^24) are exactly where sampling misses.",
        design_ref="§7 C11",
        note="Trusted: Lean kernel + 3 standard axioms; the FLV/RFC 6455 spec readers as written in Spec/; the hand-written model, validated on every run against "
             "httpflv.PackHttpflvTag/ReadTag, FlvFileWriter/Reader, base.MakeWsFrameHeader and a real httpflv.SubSession over a recording net.Conn.",
        technique="Lean 4 round-trip theorems + differential correspondence",
    )
