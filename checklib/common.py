KERNEL = "Lean 4.33.0 kernel; axioms propext, Classical.choice, Quot.sound only (audited per theorem on every run)"
CORR = ("hand-written Lean model tied to /repo by differential execution (harness built from the working tree, -tags verif) "
        "on seeded generators + boundary corpus")
