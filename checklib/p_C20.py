from common import KERNEL

PROP = dict(
    level="other",
    generators=["C20"],
    harness_timeout=2400,
    search_seeds=1,
    search_thorough=False,
    trusted_base=[
        KERNEL,
        "THE EXTRACTOR (harness/c20load.go, c20analysis.go, c20emit.go) is in the trusted base and is the dominant assumption: the theorems are about "
        "Generated/C20.lean, which it regenerates from the lal tree on every run. It is sound only up to (a) its call graph: static calls, interface calls "
        "resolved to lal's implementers that are ever converted to an interface (RTA), function values by a field-based inclusion analysis with one level of "
        "receiver context; reflection and function values stored in interface{} are not followed; (b) lock classes are per struct field, not per object; "
        "(c) calls made by naza / the standard library are not analysed except the classified callback runners; (d) the program is lal/pkg entered through "
        "the ILalServer / ICustomizePubSessionContext surface (library API that lalserver never calls is left out, listed in the extractor report)",
        "that every goroutine of lal is an instance of a program that CONFORMS to the tables (Sync.conforms / Sync.conformsAccess) is exactly (a)-(d); it is not proved",
        "Go memory model, taken as axioms of Model/Sync.lean: mutual exclusion implies ordering (unlock happens-before next lock), sync/atomic and nazaatomic "
        "operations, sync.Once and channel operations are race-free, `go f()` happens-before f",
        "Spec/SyncSpec.lean `exempt`: 58 of the 237 tracked fields are written after construction without a common lock (handshake state published through a lock or a go "
        "statement, state owned by one goroutine, RTSP signalling state gated by the atomic Stage, per-object guards of BasicSessionStat, start-up state). "
        "Each entry is a hand-reviewed ASSUMPTION with a category, not a theorem; a new unguarded field is not covered by it and breaks lockset_nonempty",
        "supporting evidence only (NOT the proof): harness/c20scn — a real logic.ServerManager with all protocols under churn, kicks, relay pulls, RTP pubs, "
        "customize pubs, ticks and shutdown, once built with -race and once with every Lock/Unlock/Once.Do of lal/pkg redirected (go build -overlay, sources "
        "untouched) to a recorder of held->acquired lock pairs. Schedules are sampled, not enumerated; a clean run proves nothing by itself",
    ],
    modelled=["lock order of every sync.Mutex / sync.RWMutex / sync.Once of lal/pkg (18 classes, 31 acquired-while-holding pairs)", "lock sets of every access to the fields of logic.Group, pullProxy, pushProxy, ServerManager, "
              "SimpleGroupManager, ComplexGroupManager, IpBlacklist, HttpNotify, HttpApiServer, HttpServerHandler, CustomizePubSessionContext, hls.ServerHandler, hls.SubSession, "
              "rtsp.BaseInSession/BaseOutSession/PubSession/SubSession/ServerCommandSession/Server, rtmp.ServerSession/Server, base.BasicSessionStat/BasicHttpSubSession/"
              "HttpServerManager/PeriodRecord, httpflv.SubSession, httpts.SubSession, gb28181.PubSession",
              "make / send / recv / close sites of every channel held in a struct field or package variable"],
    not_modelled=["bounded-time completion of callbacks and API calls (callbacks_terminate): the machine has no time; the scenario's watchdog is the only evidence",
                  "number of dynamic sends per channel object (sends <= capacity needs 'Dispose is called at most twice per object')",
                  "naza connection write queues / goroutines (C15)", "unbuffered rendezvous channels (lal/pkg has none in struct fields)",
                  "data reached only through local variables (e.g. per-connection buffers), package-level variables other than locks and channels"],
    assumptions=["an embedding application uses only ILalServer and ICustomizePubSessionContext, and calls WithOnHookSession before RunLoop",
                 "an RTSP peer keeps the method order ANNOUNCE/DESCRIBE, SETUP, RECORD/PLAY (category `signalling` of the exemptions)",
                 "ServerManager.Dispose / Group.Dispose are called at most twice per object (a third send on the capacity-1 exit channel would block while holding ServerManager.mutex)"],
)

META = dict(
    text="What is a theorem is the LOGIC of lal's synchronisation, not the Go memory model. Generic, proved once in Lean for every set of thread programs and every interleaving of an abstract "
         "machine (acquire/release/read/write/send/recv/close): threads that acquire locks strictly upwards along a ranking never form a wait-for cycle (acyclic_no_deadlock) and, without channel "
         "operations, some thread can always move until all have finished (lock_progress); accesses that all hold the location's guard are never co-enabled with a conflicting access "
         "(lockset_no_race); without close no send/close aborts (no_close_no_abort). About lal, decided by the kernel on tables re-extracted from the source tree on every run: the "
         "acquired-while-holding relation over the 18 lock classes (mutexes and sync.Once) is acyclic (lock_order_acyclic: hls.ServerHandler.mutex < ServerManager.mutex < Group.mutex < "
         "PeriodRecord.mu / dispose onces; rtsp.BaseInSession.mu, gb28181 unpackerMu < Group.mutex); every one of the 235 fields of the 31 tracked structs is atomic/sync/channel-typed, or never "
         "written after construction, or has a lock common to all its accesses (77 fields), or is in an explicit reviewed exemption list of 58 (lockset_nonempty, summary_sound, "
         "guard_in_every_row, exemptions_current); no channel of lal is ever closed and every blocking send is on a buffered channel, exactly one of them under a mutex and not once-guarded "
         "(no_send_on_closed, blocking_sends_buffered, blocking_send_under_lock_partial); no function returns holding a lock. Instantiations for all threads that conform to the tables: "
         "lal_no_lock_deadlock, lal_lock_progress, lal_no_race_on_guarded_fields, lal_no_abort_on_closed_channel. Level is 'other', not 'proof': the link from lal's goroutines to 'conforming "
         "programs' is the extractor (call-graph approximation), the unguarded fields are reviewed assumptions, sends <= capacity and bounded-time completion are not theorems.",
    design_ref="§7 C20",
    note="Trusted: Lean kernel + 3 standard axioms; the extractor and its call graph; the Go memory model as axioms of Model/Sync; the exemption list. Supporting evidence on every run "
         "(explicitly not the proof): a churn scenario on a real ServerManager built with -race (data races, concurrent-map / closed-channel / nil-map aborts, watchdog on every API call and on "
         "shutdown) and with instrumented locks (all 26+ held->acquired pairs observed at run time are in the extracted table, and vice versa on the quick tier). Five defects of the pinned tree "
         "found through this check and fixed in /repo: two data races predicted by lockset_nonempty and confirmed by the race detector (Group.psPubDumpFile hook, gb28181 TCP Dispose), a PS "
         "unpacker shared by successive TCP readers, and two server crashes found by the scenario and reduced to deterministic ops (nil session maps after Dispose; nil SDP on a late RTP packet).",
    technique="Lean 4 generic concurrency theorems + kernel-decided facts over tables extracted with go/ast+go/types; -race / lock-order scenario as supporting evidence",
)
