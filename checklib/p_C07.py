from common import KERNEL, CORR

PROP = dict(
    level="proof",
    generators=["C07", "C12"],   # the RTP unpacker ops too (fragmented units, sequence-number wrap)
    harness_timeout=1500,
    trusted_base=[
        KERNEL, CORR,
        "Spec/Av2RtmpSpec.lean is the reading of the property's demand on the video messages (walk over the publisher's NAL units: AUD dropped, "
        "each completed group of in-band parameter sets -> one sequence header, all other units -> one frame message, key iff any IDR/IRAP) and of "
        "the consumer side (FLV VIDEODATA header + ISO/IEC 14496-15 records via Spec/ConfigRecord.lean, shared with C19)",
        "Spec/PsSpec.lean is the reading of ISO/IEC 13818-1 2.5.3.3 (pack header), 2.5.3.5 (system header), 2.5.4.1 (PSM), 2.4.3.6 (PES packet) used "
        "as reference program-stream reader by the oracle, and the writer side (pesPacket, tsField) the ps_frames_partial theorem quantifies over",
        "the oracles of Driver/C07Oracle.lean (driver only, not proved): sent stream recovered from the op with the RFC 6184/7798/3640 step functions "
        "(Spec/RtpSpec.lean, C12), SdpSpec (C19), AnnexB / length-prefixed readers (C19), PsSpec; received stream from the RTMP messages; compared as the "
        "property states, timestamps within 1 ms by exact integer arithmetic",
        "harness senders independent of lal: RTP packetiser (single NAL / STAP-A / AP / FU-A / FU, RFC 3640 with one or several AUs and fragments), "
        "ffmpeg-style SDP text, MPEG-2 PS packer (pack header stuffing, system header, PSM with descriptors, PES with PTS/DTS and stuffing, arbitrary PES "
        "split points, private/padding packets, pack end) and RTP cut of the PS bytes; lal's own rtprtcp.RtpPacker as a second sender",
        "Generated/C07.lean: RTMP type ids / csids / frame-type bytes, NAL type constants, stream-format enum, PS start codes and stream types, "
        "rtsp.maxQueueSize, unpackerItemMaxSize, gb28181.maxUnpackRtpListSize, the two rtsp timestamp-filter flags - printed from the packages / parsed from the "
        "source tree the harness was built against; compared with the models' literals by the theorem consts_agree",
        "C12 (RtpUnpackContainer, reorder_invariant), C18 (BuildMetadata read-back), C19 (sequence-header builders, SplitNalu*, ADTS/ASC, SDP) models and theorems",
    ],
    modelled=[
        "remux.AvPacket2RtmpRemuxer: InitWithAvConfig/OnSdp, FeedAvPacket/OnAvPacket (AVCC / Annex-B split, AUD drop, SPS/PPS/VPS cache -> sequence header, frame "
        "type, raw AAC / ADTS / G.711 / Opus), emitRtmpAvMsg incl. metadata (Model/Av2Rtmp.lean)",
        "logic.CustomizePubSessionContext.WithOption/FeedAudioSpecificConfig/FeedAvPacket (same remuxer; op mode 'cust')",
        "rtsp.AvPacketQueue: Feed, adjustTsHandleRotate, adjustTs, PopAllByForce, popAll*, circularqueue capacity (Model/AvQueue.lean)",
        "rtsp.BaseInSession media path: InitWithSdp (unpacker per track via DefaultRtpUnpackerFactory, queue iff both unpackable, OnSdp), HandleInterleavedPacket / "
        "onReadRtpPacket -> handleRtpPacket -> RtpUnpackContainer.Feed -> onAvPacketUnpacked -> queue -> observer (Model/RtspIn.lean), chained to the remuxer as "
        "logic.Group.AddRtspPubSession/OnSdp/OnAvPacket do",
        "gb28181.PsUnpacker: FeedRtpPacket (RtpPacketList stale/insert/sequential/full-drop), FeedRtpBody, parsePackHeader, parsePackStreamBody, parsePsm, "
        "parseAvStream (PES header, PTS/DTS, frame boundary), readPts, iterateNaluByStartCode, onAvPacketWrap (Model/Ps.lean), chained to the remuxer as "
        "logic.Group.StartRtpPub/OnAvPacketFromPsPubSession do",
        "rtprtcp unpackers' timestamp conversion rtpTimestamp2Ms (Model/RtpUnpack.lean tsMs, shared with C12)",
    ],
    not_modelled=[
        "RTCP (SR/RR), session statistics, sockets and goroutines of rtsp.PubSession / gb28181.PubSession (the media path is a function of the byte strings; "
        "BaseInSession.mu serialises onAvPacketUnpacked)",
        "gb28181.PubSession TCP framing (2-byte length prefix) and port allocation",
        "what logic.Group does with the RTMP messages afterwards (C01/C02/C06)",
        "TimestampFilterHandleRotateFlag=false / BaseInSessionTimestampFilterFlag=false are modelled and differentially checked but not covered by theorems",
    ],
    assumptions=[
        "av2rtmp_frames: every NAL unit is one an encoder emits (non-empty, emulation prevention applied, last byte non-zero, < 2^32 bytes); every group of "
        "parameter sets that gets completed is accepted by lal's sequence-header builder (avc.ParseSps can read the SPS; C19) and each set is < 65536 bytes; "
        "a lone in-band PPS (or SPS) update without its partner is cached, not announced, until the partner arrives (as the code does; not generated)",
        "ts_no_drift: clock rate > 0 (rate <= 0 yields the RTP timestamp itself); RTP timestamps do not wrap inside the stream considered (a wrap is handled "
        "by AvPacketQueue's rotate heuristic: differential only)",
        "avqueue_monotone: per track non-decreasing re-stamped timestamps and no queue reaching maxQueueSize=128 (NoFlush; a full queue is flushed regardless "
        "of the other track by design)",
        "rtsp_ingest_reorder_invariant: hypotheses of C12 reorder_invariant per track (first arrival of a track is its first packet - S23 open finding of C12 -, "
        "every packet arrives, displacement inside the window, at most 32768 packets); equality is per track (ties between the tracks at equal timestamps "
        "are resolved by arrival order) up to the packets the queue still holds",
        "ps_frames_partial: PSM before the first PES packet; video on stream id e0, audio on c0 (other ids are 'unknown ps code' for lal); every access unit "
        "starts with a PES packet carrying its PTS, consecutive access units have different PTS; DTS absent or equal to PTS (lal stamps video with the PTS and "
        "writes no composition time: B-frame streams are outside the guard); one audio frame per PTS; ADTS frames of at least 5 payload bytes; the last access "
        "unit of each track stays buffered (it is complete only when the next one starts)",
        "program-stream cuts by RTP: the 4-byte start code and the 2-byte length of a unit arrive in one piece (bele.BeUint32/BeUint16 index past shorter "
        "remainders: S14, owned by C13); never generated here",
    ],
)

META = dict(
    text="RTSP (UDP or interleaved), GB28181 PS/RTP and customize-pub ingest all end in AvPacket2RtmpRemuxer.FeedAvPacket. Theorems, for every stream: "
         "(av2rtmp_frames) the video messages, read back with FLV/ISO 14496-15 readers, are exactly the specification walk over the publisher's NAL units - "
         "AUD dropped, each completed group of in-band parameter sets one sequence header built from exactly them, every other unit byte for byte in one frame "
         "message per access unit, key iff any IDR/IRAP (S13 fixed; pinned witness proved); metadata exactly once in front (metadata_first); SDP sets -> sequence "
         "headers (init_seq_headers); audio frames byte for byte (av2rtmp_audio, _adts). (ts_no_drift) ms = floor(ts*1000/rate) for every rate, error < 1 ms at every "
         "index also after re-basing (S11 fixed; linear drift of the pinned code proved). AvPacketQueue for ALL inputs: per-track order, nothing dropped or "
         "duplicated, never a full PushBack (avqueue_order_preserving), re-base to zero (avqueue_rebase), merged output monotone without flush (avqueue_monotone). "
         "Pipeline = containers (independent per track) ; queue ; remuxer, hence arrival perturbations covered by C12 reorder_invariant do not change the per-track "
         "result (rtsp_ingest_reorder_invariant, _packed; for a single track the message lists themselves are equal: rtsp_ingest_single_track); audio packets in "
         "between do not disturb the video track (av2rtmp_frames_mixed). PS: any start-code lengths, PES split points, stuffing, PTS placement of the video ES, pack "
         "headers with any stuffing / system headers / skipped packets before each access unit (ps_frames_partial, ps_packet_remux; RTP cuts inside units, audio PES, "
         "repeated PSM and the RTP reorder layer of PsUnpacker are differential only). Six defects fixed in lal.",
    design_ref="§7 C07",
    note="Trusted: Lean kernel + 3 standard axioms; the spec files named in trusted_base; the hand-written models, validated each run on the REAL objects "
         "(remux.AvPacket2RtmpRemuxer, logic.CustomizePubSessionContext, rtsp.AvPacketQueue, rtsp.BaseInSession + observer, gb28181.PsUnpacker) with "
         "1000 (quick) / 10000 (thorough) AAC frames at 8-96 kHz so that drift is visible to the 1 ms oracle. ps_frames is PARTIAL (see Props/C07.lean).",
    technique="Lean 4 refinement to a specification walk + invariants over event lists + composition, differential correspondence with independent senders",
)
