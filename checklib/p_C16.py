from common import KERNEL, CORR

PROP = dict(
    level="proof",
    generators=["C16", "C03", "C10"],   # the admission ops (start / stop of the pipeline for every kind of input, Dispose) and the HLS muxer ops (the open segment and the playlists are finalised when the input ends)
    harness_timeout=900,
    trusted_base=[
        KERNEL, CORR,
        "L1 harness (harness/c01.go): a real logic.Group; publish / unpublish cycles with changing codecs while subscribers stay; FLV recordings read back from disk per incarnation",
        "the executable oracle in Driver/C01.lean (a consumer that stays across a restart keeps one contiguous run; nothing of the previous input is replayed to it; not held back on an audio-only successor)",
    ],
    modelled=["Group.delIn as far as RTMP / HTTP-FLV / recording go: caches cleared, codec info reset, merge writer flushed, wait flags of remaining subscribers cleared, FLV recording closed",
              "a later AddRtmpPubSession starting a new recording"],
    not_modelled=["HLS muxer finalisation (C10), TS recording, relay push sessions, stream hook OnStop, RTSP/PS inputs",
                  "idle-input detection, removal of an empty group by the tick, goroutine / descriptor baseline: runtime and manager-level behaviour outside this model"],
    assumptions=[],
)

META = dict(
    text="Theorem clean_restart: in ANY reachable state, when the accepted input ends no cached metadata / sequence header / GOP survives (prologues are empty), codec info is forgotten, the "
         "recording is closed, the merge writer holds nothing and no remaining subscriber keeps waiting for the finished input's key frame; restart_keeps_invariant: the C01 invariants hold "
         "again afterwards, so a subscriber that stays continues one contiguous run into the next input. Two defects found and fixed in /repo (stale codec info; merge-writer tail and wait "
         "flags surviving the input).",
    design_ref="§7 C16",
    note="New: ts_cache_clean_after_input_ends (the HTTP-TS GOP cache after Clear holds only what came since). Partial by scope: proves the clean-restart and finalisation logic of the RTMP/FLV side of Group.delIn. HLS/TS/push finalisation, the idle check, group removal and resource baselines "
         "are not modelled here (named in not_modelled).",
    technique="Lean 4 invariant over event lists + L1 differential correspondence",
)
