from common import KERNEL, CORR

PROP = dict(
    level="proof",
    generators=["C10", "C06"],   # the TS remuxer / HLS segment-content ops too: the segments are what that remuxer emits
    trusted_base=[
        KERNEL, CORR,
        "Spec/HlsConsistent.lean is the meaning of 'consistent at one instant' for the theorems (observer = directory + the live-playlist versions seen so far); "
        "Spec/HlsSpec.lean is the RFC 8216 playlist reader + ISO 13818-1 segment checks (via Spec/TsSpec.lean of C09) used as the ORACLE on the real muxer's files after every single file-system operation",
        "the file-system layer: naza's in-memory IFileSystemLayer wrapped by a logger (hook hls.VerifSetFsl); Model/Fs.lean gives each call its effect; "
        "rename is atomic (POSIX), WriteFile only ever targets the .bak path; disk durability / power loss are not modelled",
        "playlist TEXT (fmt.Sprintf of ints, %.3f of float64 durations) is modelled by integer arithmetic in Model/HlsText.lean and compared byte for byte with the files the real muxer writes; "
        "exact for timestamps that are whole milliseconds x 90 below 2^53 ticks — what Rtmp2MpegtsRemuxer and Rtmp2MpegtsTimestampFilter produce; the generator stays inside that domain "
        "(outside it a duration of k.5 ms is a decimal tie of %.3f: 121995 ticks print as 1.355)",
        "file names: the model uses structured paths (seg now id); their text <stream>-<now>-<id>.ts is compared with the real names; injectivity of that rendering is not proved",
        "hls.Clock replaced by a controlled clock (exported variable); the observer's OnFragmentOpen re-enters FeedMpegts with the cached audio frame exactly as "
        "Group.OnFragmentOpen -> Rtmp2MpegtsRemuxer.FlushAudio -> Group.OnTsPackets does",
        "Generated/C10.lean (negMaxfraglen read from the AST of pkg/hls/hls.go; CleanupMode constants printed from the package)",
    ],
    modelled=["hls.Muxer.Start (ensureDir, continueMediaSequence)", "hls.Muxer.FeedPatPmt", "hls.Muxer.FeedMpegts", "hls.Muxer.updateFragment (forced split forward/backward, stale fragment pointer, duration update)",
              "hls.Muxer.openFragment incl. observer.OnFragmentOpen re-entering FeedMpegts", "hls.Muxer.closeFragment", "hls.Muxer.writePlaylist", "hls.Muxer.writeRecordPlaylist / updateTargetDurationInM3u8 / nextMediaSequenceInM3u8 (on structured playlists)",
              "hls.writeM3u8File (write .bak, rename)", "hls.Fragment (Create/Write/Close)", "ring indexing getFrag / incrFrag / getCurrFrag / getClosedFrag / getDeleteFrag / iterateFragsInPlaylist",
              "hls.Muxer.Dispose", "DefaultPathStrategy file names", "the guard of ServerManager.CleanupHlsIfNeeded (muxer alive => nothing; else RemoveAll of the stream directory)"],
    not_modelled=["ServerManager.CleanupHlsIfNeeded itself is NOT executed by the harness: its guard is re-stated in harness/c10.go (event C) around the real hls.RemoveAll; the race between IsHlsMuxerAlive and RemoveAll, "
                  "and the order in which os.RemoveAll deletes playlist and segments on a real disk, are outside the model",
                  "file-system errors (Create/Write/Rename failing): the in-memory layer never fails; the muxer's error paths only log",
                  "observer.OnHlsMakeTs notifications", "HTTP serving of the files (server_handler.go), PathStrategy request mapping (C14)",
                  "pkg/remux/rtmp2mpegts.go: which frames carry boundary=true and that PAT/PMT precedes frames are HYPOTHESES of the theorems (WF), checked per scenario by the driver (keyGuarantee/patGuarantee), belonging to C06"],
    assumptions=["event sources respect HlsC.WF: PAT/PMT delivered before the first frame of a publish; every frame / flushed audio / PAT-PMT is a whole number of 188-byte packets; "
                 "a boundary is proposed only on a video key frame, or the stream has no video (then on any audio frame); flushed audio proposes a boundary only in an audio-only stream",
                 "timestamps are whole milliseconds x 90 (text of EXTINF); uint64 arithmetic does not wrap (ts < 2^53)",
                 "at most one muxer per stream directory at a time (Group creates the next one only after Dispose)",
                 "rename atomicity; nobody else writes into the stream directory"],
    search_seeds=2,
    harness_timeout=1500,
)

META = dict(
    text="Theorems (no bound on fragment_num, delete_threshold, fragment_duration, cleanup mode, number of events or publishes). hls_consistent_prefix: for every well-formed event sequence "
         "(publish, PAT/PMT, audio/video frames with arbitrary timestamps incl. jumps forward/backward and missing key frames, audio flushed by OnFragmentOpen re-entering FeedMpegts, unpublish, "
         "delayed cleanup, re-publish of the same name) and EVERY PREFIX of the file-system operation list, the directory satisfies Good: live playlist absent or a complete document that is the "
         "newest version; in the current and previous delete_threshold versions entry i is segment mediaSeq+i, round(duration) <= TARGETDURATION, the file exists, is closed, begins with the delivered "
         "PAT/PMT followed by whole frames of whole 188-byte packets, first video frame key unless marked discontinuous; media sequence and window end never decrease across versions, also across "
         "re-publish. The invariant proof walks through each single operation of closeFragment (close, write .bak, rename, record playlist or Remove); AllGood is proved equivalent to 'after every prefix'. "
         "Corollaries delete_threshold_retention, media_sequence_monotone, segment_whole_packets, target_ge_rounded. ring_index_inv: slot = number mod cap, ids/file names, empty slots, in every reachable state. "
         "For ALL event sequences (no well-formedness needed): segments_partition_ts (segment files in creation order contain exactly the accepted frames, once, in order — FeedMpegts is first flattened into "
         "primitive actions with the exact list of appended frames), ended_on_dispose (after every unpublish the live playlist is absent or ends with ENDLIST; invariant: whenever no fragment is open), "
         "record_lists_all (cleanup mode never / in-the-end: the record playlist is a complete document listing exactly the segments closed since the directory was wiped, across re-publishes, and each of those files is still present and closed), "
         "cleanup_spares_live. Proof is the right level: the two defects found sat in arithmetic (+0.5 only on a new maximum) and in a cross-session interaction (numbering restarts under a playlist "
         "that is still there) that end-state tests cannot see.",
    design_ref="§7 C10",
    note="Trusted: Lean kernel + 3 standard axioms; Spec/HlsConsistent.lean as the statement (observer = directory + playlist versions seen; SegLog; accepted; recordNames/closedLog); the hand-written "
         "model, validated on every run against a real hls.Muxer driven over an instrumented file-system layer: the two operation logs must be identical (paths, bytes written, playlist text, found/not-found "
         "of ReadFile/Remove), and an independent RFC 8216 / ISO 13818-1 oracle (Spec/HlsSpec.lean + C09's Spec/TsSpec.lean) checks the REAL directory after every single operation (playlist parses, "
         "target >= rounded EXTINF, listed segments present/closed/188-multiple/PAT+PMT valid incl. CRC/first video PES has random_access_indicator, media sequence monotone, retention over "
         "delete_threshold versions) and per event (packets partitioned over the segments in order, ENDLIST after unpublish, record playlist lists every closed segment and they exist). A second, "
         "independent reader in Go screens thousands more scenarios after every operation and hands anything it objects to to model + oracle. Proved on structured playlists/paths; that the printed TEXT "
         "parses back (RFC 8216) and that the segments listed in the RECORD playlist still exist are oracle-checked, not proved. Two defects fixed in lal (S19 target duration; media sequence restart on re-publish); "
         "on the pinned tree the same check flags 698 of 861 quick-tier scenarios.",
    technique="Lean 4 invariant proof over every operation prefix + differential correspondence with per-operation oracle",
)
