package main

import (
	"fmt"
	"strings"
	"sync"

	"github.com/q191201771/lal/pkg/base"
	"github.com/q191201771/lal/pkg/hls"
	"github.com/q191201771/lal/pkg/mpegts"
	"github.com/q191201771/lal/pkg/remux"
	"github.com/q191201771/naza/pkg/filesystemlayer"
)

//	c06.hls <class> <fragment_duration_ms> <events>  => the .ts files a real hls.Muxer wrote, in creation order, `;`-separated:
//	      G:<file content | ->
//	The muxer is wired to a real remux.Rtmp2MpegtsRemuxer the way logic.Group wires them (OnPatPmt -> FeedPatPmt,
//	OnTsPackets -> FeedMpegts, OnFragmentOpen -> FlushAudio), over a recording in-memory file-system layer installed
//	with the hook hls.VerifSetFsl. An `f` event is Rtmp2MpegtsRemuxer.Dispose(); the muxer is disposed at the end.

type c06File struct {
	fs   *c06Fsl
	name string
}

func (f *c06File) Write(b []byte) (int, error) {
	f.fs.mu.Lock()
	defer f.fs.mu.Unlock()
	f.fs.data[f.name] = append(f.fs.data[f.name], b...)
	return len(b), nil
}
func (f *c06File) Close() error { return nil }

// c06Fsl records every file created, in order, and everything written to it. Nothing touches the disk.
type c06Fsl struct {
	mu      sync.Mutex
	order   []string
	data    map[string][]byte
	removed []string
}

func newC06Fsl() *c06Fsl { return &c06Fsl{data: map[string][]byte{}} }

func (f *c06Fsl) Type() filesystemlayer.FslType { return filesystemlayer.FslTypeMemory }
func (f *c06Fsl) Create(name string) (filesystemlayer.IFile, error) {
	f.mu.Lock()
	defer f.mu.Unlock()
	if _, ok := f.data[name]; !ok {
		f.order = append(f.order, name)
	}
	f.data[name] = []byte{}
	return &c06File{fs: f, name: name}, nil
}
func (f *c06Fsl) Rename(oldpath string, newpath string) error {
	f.mu.Lock()
	defer f.mu.Unlock()
	if d, ok := f.data[oldpath]; ok {
		if _, ok := f.data[newpath]; !ok {
			f.order = append(f.order, newpath)
		}
		f.data[newpath] = d
		delete(f.data, oldpath)
	}
	return nil
}
func (f *c06Fsl) MkdirAll(path string, perm uint32) error { return nil }
func (f *c06Fsl) Remove(name string) error {
	f.mu.Lock()
	defer f.mu.Unlock()
	f.removed = append(f.removed, name)
	return nil
}
func (f *c06Fsl) RemoveAll(path string) error { return nil }
func (f *c06Fsl) ReadFile(filename string) ([]byte, error) {
	f.mu.Lock()
	defer f.mu.Unlock()
	d, ok := f.data[filename]
	if !ok {
		return nil, fmt.Errorf("not found")
	}
	return append([]byte(nil), d...), nil
}
func (f *c06Fsl) WriteFile(filename string, data []byte, perm uint32) error {
	f.mu.Lock()
	defer f.mu.Unlock()
	if _, ok := f.data[filename]; !ok {
		f.order = append(f.order, filename)
	}
	f.data[filename] = append([]byte(nil), data...)
	return nil
}

type c06HlsWire struct {
	r *remux.Rtmp2MpegtsRemuxer
	m *hls.Muxer
}

func (w *c06HlsWire) OnPatPmt(b []byte) { w.m.FeedPatPmt(b) }
func (w *c06HlsWire) OnTsPackets(tsPackets []byte, frame *mpegts.Frame, boundary bool) {
	w.m.FeedMpegts(tsPackets, frame, boundary)
}
func (w *c06HlsWire) OnHlsMakeTs(info base.HlsMakeTsInfo) {}
func (w *c06HlsWire) OnFragmentOpen()                    { w.r.FlushAudio() }

func c06RunHls(fragMs int, evs []c06Ev) string {
	fs := newC06Fsl()
	old := hls.VerifSetFsl(fs)
	defer hls.VerifSetFsl(old)
	w := &c06HlsWire{}
	cfg := &hls.MuxerConfig{OutPath: "/c06hls/", FragmentDurationMs: fragMs, FragmentNum: 6, DeleteThreshold: 6, CleanupMode: hls.CleanupModeNever}
	w.m = hls.NewMuxer("s", cfg, w)
	w.r = remux.NewRtmp2MpegtsRemuxer(w)
	w.m.Start()
	for _, e := range evs {
		if e.kind == 'f' {
			w.r.Dispose()
		} else {
			w.r.FeedRtmpMessage(c06Msg(e))
		}
	}
	w.m.Dispose()
	var out []string
	for _, n := range fs.order {
		if strings.HasSuffix(n, ".ts") {
			out = append(out, "G:"+hx(fs.data[n]))
		}
	}
	if len(out) == 0 {
		return "none"
	}
	return strings.Join(out, ";")
}

func init() {
	ops["c06.hls"] = func(a []string) string { return c06RunHls(atoi(a[1]), c06ParseEvents(a[2])) }
}
