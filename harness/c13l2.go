package main

import (
	"bytes"
	"encoding/json"
	"fmt"
	"io"
	"net"
	"net/http"
	"os"
	"strings"
	"time"

	"github.com/q191201771/lal/pkg/logic"
)

// fz.l2 <action> <action> ...   (child process; differential fuzzing only)
//
// A real logic.ServerManager (RTMP, RTSP, RTSP over WebSocket, HTTP-FLV/TS/HLS, HTTP API) on free ports. One healthy RTSP
// connection is opened first (OPTIONS -> 200); then every action opens its own connection and sends hostile input;
// at the end the healthy connection must still be answered: `alive`. A process that died is the outcome `panic`.
//
//	rtsp:<bytes>            raw bytes on a new connection to the RTSP port
//	ws:<bytes>              WebSocket upgrade on the RTSP-over-WebSocket port, then raw bytes
//	rtmp:<bytes>            raw bytes on a new connection to the RTMP port
//	api:<path>:<body>       POST <path> on the HTTP API port
//	http:<path>             GET <path> on the HTTP-FLV/TS/HLS port
//	ps:<datagram,...>       start_rtp_pub through the API, then the datagrams to the UDP port it returns

func c13FreePort() int {
	ln, err := net.Listen("tcp", "127.0.0.1:0")
	if err != nil {
		panic(err)
	}
	defer ln.Close()
	return ln.Addr().(*net.TCPAddr).Port
}

func c13L2Config(dir string, rtmp, rtsp, ws, api, httpPort int) []byte {
	return []byte(fmt.Sprintf(`{
  "conf_version": "v0.4.1",
  "rtmp": {"enable": true, "addr": "127.0.0.1:%d", "rtmps_enable": false, "rtmps_addr": ":0", "rtmps_cert_file": "", "rtmps_key_file": "", "gop_num": 0, "single_gop_max_frame_num": 0, "merge_write_size": 0},
  "in_session": {"add_dummy_audio_enable": false, "add_dummy_audio_wait_audio_ms": 150},
  "default_http": {"http_listen_addr": "127.0.0.1:%d", "https_listen_addr": ":0", "https_cert_file": "", "https_key_file": ""},
  "httpflv": {"enable": true, "enable_https": false, "url_pattern": "/", "gop_num": 0, "single_gop_max_frame_num": 0},
  "hls": {"enable": true, "enable_https": false, "url_pattern": "/hls/", "out_path": "%s/hls/", "fragment_duration_ms": 3000, "fragment_num": 6, "delete_threshold": 6, "cleanup_mode": 1, "use_memory_as_disk_flag": false, "sub_session_timeout_ms": 30000, "sub_session_hash_key": ""},
  "httpts": {"enable": true, "enable_https": false, "url_pattern": "/", "gop_num": 0, "single_gop_max_frame_num": 0},
  "rtsp": {"enable": true, "addr": "127.0.0.1:%d", "rtsps_enable": false, "rtsps_addr": ":0", "rtsps_cert_file": "", "rtsps_key_file": "", "out_wait_key_frame_flag": true, "auth_enable": false, "auth_method": 1, "username": "u", "password": "p", "ws_rtsp_enable": true, "ws_rtsp_addr": "127.0.0.1:%d"},
  "record": {"enable_flv": false, "flv_out_path": "%s/flv/", "enable_mpegts": false, "mpegts_out_path": "%s/ts/"},
  "relay_push": {"enable": false, "addr_list": []},
  "static_relay_pull": {"enable": false, "addr": ""},
  "http_api": {"enable": true, "addr": "127.0.0.1:%d"},
  "server_id": "1",
  "http_notify": {"enable": false, "update_interval_sec": 5, "on_update": "", "on_pub_start": "", "on_pub_stop": "", "on_sub_start": "", "on_sub_stop": "", "on_relay_pull_start": "", "on_relay_pull_stop": "", "on_rtmp_connect": "", "on_server_start": "", "on_hls_make_ts": ""},
  "simple_auth": {"key": "k", "dangerous_lal_secret": "s", "pub_rtmp_enable": false, "sub_rtmp_enable": false, "sub_httpflv_enable": false, "sub_httpts_enable": false, "pub_rtsp_enable": false, "sub_rtsp_enable": false, "hls_m3u8_enable": false},
  "pprof": {"enable": false, "addr": ":0"},
  "log": {"level": 5, "filename": "%s/lal.log", "is_to_stdout": false, "is_rotate_daily": false, "short_file_flag": true, "timestamp_flag": true, "timestamp_with_ms_flag": true, "level_flag": true, "assert_behavior": 1},
  "debug": {"log_group_interval_sec": 30, "log_group_max_group_num": 10, "log_group_max_sub_num_per_group": 10}
}`, rtmp, httpPort, dir, rtsp, ws, dir, dir, api, dir))
}

func c13WaitPort(port int) bool {
	for i := 0; i < 100; i++ {
		c, err := net.DialTimeout("tcp", fmt.Sprintf("127.0.0.1:%d", port), 100*time.Millisecond)
		if err == nil {
			c.Close()
			return true
		}
		time.Sleep(20 * time.Millisecond)
	}
	return false
}

func c13Raw(port int, pre, b []byte) {
	c, err := net.DialTimeout("tcp", fmt.Sprintf("127.0.0.1:%d", port), 300*time.Millisecond)
	if err != nil {
		return
	}
	defer c.Close()
	_ = c.SetDeadline(time.Now().Add(300 * time.Millisecond))
	if len(pre) > 0 {
		c.Write(pre)
		buf := make([]byte, 4096)
		c.Read(buf)
	}
	c.Write(b)
	_ = c.SetReadDeadline(time.Now().Add(80 * time.Millisecond))
	io.Copy(io.Discard, c)
}

func c13Options(c net.Conn, cseq int) bool {
	_ = c.SetDeadline(time.Now().Add(time.Second))
	fmt.Fprintf(c, "OPTIONS rtsp://127.0.0.1/live/h RTSP/1.0\r\nCSeq: %d\r\n\r\n", cseq)
	buf := make([]byte, 1024)
	n, _ := c.Read(buf)
	return bytes.HasPrefix(buf[:n], []byte("RTSP/1.0 200"))
}

func init() {
	c13ChildOps["fz.l2"] = func(a []string) string {
		dir, _ := os.MkdirTemp("", "c13l2")
		defer os.RemoveAll(dir)
		rtmpP, rtspP, wsP, apiP, httpP := c13FreePort(), c13FreePort(), c13FreePort(), c13FreePort(), c13FreePort()
		sm := logic.NewLalServer(func(o *logic.Option) { o.ConfRawContent = c13L2Config(dir, rtmpP, rtspP, wsP, apiP, httpP) })
		go sm.RunLoop()
		defer sm.Dispose()
		for _, p := range []int{rtmpP, rtspP, wsP, apiP, httpP} {
			if !c13WaitPort(p) {
				return "not-started"
			}
		}
		healthy, err := net.Dial("tcp", fmt.Sprintf("127.0.0.1:%d", rtspP))
		if err != nil {
			return "not-started"
		}
		defer healthy.Close()
		if !c13Options(healthy, 1) {
			return "healthy-refused"
		}
		client := &http.Client{Timeout: 400 * time.Millisecond}
		for _, act := range a {
			f := strings.Split(act, ":")
			switch f[0] {
			case "rtsp":
				c13Raw(rtspP, nil, c13OptHex(f[1]))
			case "rtmp":
				c13Raw(rtmpP, nil, c13OptHex(f[1]))
			case "ws":
				up := []byte("GET / HTTP/1.1\r\nHost: h\r\nConnection: Upgrade\r\nUpgrade: websocket\r\nSec-WebSocket-Key: dGhlIHNhbXBsZSBub25jZQ==\r\nSec-WebSocket-Protocol: rtsp\r\n\r\n")
				c13Raw(wsP, up, c13OptHex(f[1]))
			case "api":
				resp, err := client.Post(fmt.Sprintf("http://127.0.0.1:%d%s", apiP, c13OptHex(f[1])), "application/json", bytes.NewReader(c13OptHex(f[2])))
				if err == nil {
					io.Copy(io.Discard, resp.Body)
					resp.Body.Close()
				}
			case "http":
				req, err := http.NewRequest("GET", fmt.Sprintf("http://127.0.0.1:%d/", httpP), nil)
				if err != nil {
					continue
				}
				// the raw path goes on the wire as it is
				c13Raw(httpP, nil, []byte("GET "+string(c13OptHex(f[1]))+" HTTP/1.1\r\nHost: "+req.Host+"\r\n\r\n"))
			case "ps":
				resp, err := client.Post(fmt.Sprintf("http://127.0.0.1:%d/api/ctrl/start_rtp_pub", apiP), "application/json",
					strings.NewReader(`{"stream_name": "ps`+fmt.Sprint(len(act))+`", "port": 0, "timeout_ms": 2000}`))
				if err != nil {
					continue
				}
				var v struct {
					Data struct {
						Port int `json:"port"`
					} `json:"data"`
				}
				b, _ := io.ReadAll(resp.Body)
				resp.Body.Close()
				_ = json.Unmarshal(b, &v)
				if v.Data.Port == 0 {
					continue
				}
				u, err := net.Dial("udp", fmt.Sprintf("127.0.0.1:%d", v.Data.Port))
				if err != nil {
					continue
				}
				for _, d := range c13Split(f[1]) {
					u.Write(d)
				}
				time.Sleep(60 * time.Millisecond)
				u.Close()
			}
		}
		time.Sleep(50 * time.Millisecond)
		if !c13Options(healthy, 2) {
			return "healthy-lost"
		}
		return "alive"
	}
	ops["fz.l2"] = func(a []string) string {
		r := c13Child("fz.l2 "+strings.Join(a, " "), 30*time.Second)
		return r
	}
}
