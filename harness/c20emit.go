package main

// C20 — turns the analysis result into Lean data (Generated/C20.lean) and a plain-text report.

import (
	"crypto/sha256"
	"fmt"
	"go/types"
	"io/ioutil"
	"os"
	"path/filepath"
	"sort"
	"strings"
)

type c20Pair struct {
	a, b    int
	witness string
}

type c20AccRow struct {
	field   string
	write   bool
	locks   c20Set
	n       int
	site    string
	fn      string
	init    bool
	addr    bool
	rootsOf map[string]bool
}

type c20ChanFact struct {
	name   string
	obj    types.Object
	caps   []int64
	sends  []c20ChanSite
	recvs  []c20ChanSite
	closes []c20ChanSite
}

type c20ChanSite struct {
	site     string
	may      c20Set
	must     c20Set
	inSelect bool
}

type c20Tables struct {
	a          *c20Analysis
	pairs      []c20Pair
	fields     []string
	fieldKind  map[string]int
	rows       []*c20AccRow
	initRows   []*c20AccRow
	chans      []*c20ChanFact
	unbalanced []string
	unknown    []string
	nonRecv    []string
}

func (a *c20Analysis) fieldName(f *types.Var) string {
	nt := a.owner[f]
	return c20ShortPkg(nt.Obj().Pkg().Path()) + "." + nt.Obj().Name() + "." + f.Name()
}

func c20FieldKind(f *types.Var) int {
	t := f.Type()
	if p, ok := t.(*types.Pointer); ok {
		t = p.Elem()
	}
	if n, ok := t.(*types.Named); ok && n.Obj().Pkg() != nil {
		pp := n.Obj().Pkg().Path()
		if pp == "sync/atomic" || strings.HasSuffix(pp, "/nazaatomic") {
			return 1
		}
		if pp == "sync" {
			return 2
		}
	}
	if _, ok := t.Underlying().(*types.Chan); ok {
		return 3
	}
	return 0
}

func (a *c20Analysis) chanName(o types.Object) string {
	if v, ok := o.(*types.Var); ok {
		if v.IsField() {
			if nt := a.owner[v]; nt != nil {
				return a.fieldName(v)
			}
			return ""
		}
		if v.Pkg() != nil && v.Parent() == v.Pkg().Scope() {
			return c20ShortPkg(v.Pkg().Path()) + "." + v.Name()
		}
	}
	return ""
}

func (a *c20Analysis) tables() *c20Tables {
	t := &c20Tables{a: a, fieldKind: map[string]int{}}
	// ---- holds
	seen := map[[2]int]bool{}
	addPair := func(x, y int, w string) {
		k := [2]int{x, y}
		if seen[k] {
			return
		}
		seen[k] = true
		t.pairs = append(t.pairs, c20Pair{x, y, w})
	}
	for _, f := range a.funcs {
		if !f.live {
			continue
		}
		for _, e := range f.events {
			var l int
			switch {
			case e.kind == c20EvAcquire:
				l = e.lock
			case e.kind == c20EvCall && e.once >= 0:
				l = e.once
			default:
				continue
			}
			for _, h := range e.st.may.list() {
				addPair(h, l, fmt.Sprintf("%s holds %s and acquires %s at %s", f.label, a.classes[h].name, a.classes[l].name, a.p.posStr(e.pos)))
			}
			for _, h := range (f.entryMay &^ e.st.may).list() {
				addPair(h, l, fmt.Sprintf("%s ; acquires %s at %s", a.heldChain(f, h, 0), a.classes[l].name, a.p.posStr(e.pos)))
			}
		}
		for _, u := range f.unbalanced {
			t.unbalanced = append(t.unbalanced, f.label+": "+u)
		}
	}
	sort.Slice(t.pairs, func(i, j int) bool {
		if t.pairs[i].a != t.pairs[j].a {
			return t.pairs[i].a < t.pairs[j].a
		}
		return t.pairs[i].b < t.pairs[j].b
	})
	// ---- access
	agg := map[string]*c20AccRow{}
	fieldSet := map[string]bool{}
	// every field of every tracked struct appears, even when never accessed
	for f, nt := range a.owner {
		if a.tracked[nt] {
			n := a.fieldName(f)
			fieldSet[n] = true
			t.fieldKind[n] = c20FieldKind(f)
		}
	}
	for _, f := range a.funcs {
		if !f.live {
			continue
		}
		for _, e := range f.events {
			if e.kind != c20EvAccess {
				continue
			}
			name := a.fieldName(e.field)
			init := e.initAcc || f.ctorOnly
			locks := f.entryMust | e.st.must
			if e.write {
				// a read lock does not protect a write
				locks = f.entryMustW | e.st.mustW
			}
			key := fmt.Sprintf("%s|%v|%d|%v|%v", name, e.write, locks, init, e.addr)
			r := agg[key]
			if r == nil {
				r = &c20AccRow{field: name, write: e.write, locks: locks, site: a.p.posStr(e.pos), fn: f.label, init: init, addr: e.addr, rootsOf: map[string]bool{}}
				agg[key] = r
			}
			r.n++
			if s := a.p.posStr(e.pos); s < r.site {
				r.site = s
				r.fn = f.label
			}
		}
	}
	for n := range fieldSet {
		t.fields = append(t.fields, n)
	}
	sort.Strings(t.fields)
	for _, r := range agg {
		if r.init {
			t.initRows = append(t.initRows, r)
		} else {
			t.rows = append(t.rows, r)
		}
	}
	less := func(rs []*c20AccRow) func(i, j int) bool {
		return func(i, j int) bool {
			x, y := rs[i], rs[j]
			if x.field != y.field {
				return x.field < y.field
			}
			if x.write != y.write {
				return !x.write
			}
			if x.locks != y.locks {
				return x.locks < y.locks
			}
			return x.site < y.site
		}
	}
	sort.Slice(t.rows, less(t.rows))
	sort.Slice(t.initRows, less(t.initRows))
	// ---- channels
	cm := map[types.Object]*c20ChanFact{}
	get := func(o types.Object) *c20ChanFact {
		n := a.chanName(o)
		if n == "" {
			return nil
		}
		c := cm[o]
		if c == nil {
			c = &c20ChanFact{name: n, obj: o}
			cm[o] = c
			t.chans = append(t.chans, c)
		}
		return c
	}
	for _, f := range a.funcs {
		if !f.live {
			continue
		}
		for _, e := range f.events {
			if e.ch == nil {
				continue
			}
			c := get(e.ch)
			if c == nil {
				continue
			}
			site := c20ChanSite{site: f.label + "@" + a.p.posStr(e.pos), may: f.entryMay | e.st.may, must: f.entryMust | e.st.must, inSelect: e.inSelect}
			switch e.kind {
			case c20EvMake:
				c.caps = append(c.caps, e.chCap)
			case c20EvSend:
				c.sends = append(c.sends, site)
			case c20EvRecv:
				c.recvs = append(c.recvs, site)
			case c20EvClose:
				c.closes = append(c.closes, site)
			}
		}
	}
	sort.Slice(t.chans, func(i, j int) bool { return t.chans[i].name < t.chans[j].name })
	for _, c := range t.chans {
		sort.Slice(c.caps, func(i, j int) bool { return c.caps[i] < c.caps[j] })
		for _, l := range []*[]c20ChanSite{&c.sends, &c.recvs, &c.closes} {
			ll := *l
			sort.Slice(ll, func(i, j int) bool { return ll[i].site < ll[j].site })
			// the loop re-walk records a site twice: keep one per site
			var out []c20ChanSite
			for i, s := range ll {
				if i > 0 && s.site == ll[i-1].site {
					out[len(out)-1].may |= s.may
					out[len(out)-1].must &= s.must
					continue
				}
				out = append(out, s)
			}
			*l = out
		}
	}
	for n := range a.extUnk {
		t.unknown = append(t.unknown, n)
	}
	sort.Strings(t.unknown)
	sort.Strings(t.unbalanced)
	return t
}

func c20LeanStr(s string) string {
	s = strings.ReplaceAll(s, "\\", "\\\\")
	s = strings.ReplaceAll(s, "\"", "\\\"")
	return "\"" + s + "\""
}

func c20NatList(xs []int) string {
	parts := make([]string, len(xs))
	for i, x := range xs {
		parts[i] = fmt.Sprint(x)
	}
	return "[" + strings.Join(parts, ", ") + "]"
}

func c20StrList(sb *strings.Builder, name, doc string, xs []string) {
	fmt.Fprintf(sb, "/-- %s -/\ndef %s : List String := [", doc, name)
	for i, x := range xs {
		if i > 0 {
			sb.WriteString(",")
		}
		sb.WriteString("\n  " + c20LeanStr(x))
	}
	sb.WriteString("]\n\n")
}

func (t *c20Tables) lean() string {
	a := t.a
	var sb strings.Builder
	sb.WriteString("namespace C20\n\n")
	var names []string
	var kinds []int
	for _, c := range a.classes {
		names = append(names, c.name)
		k := 0
		switch c.kind {
		case "rwmutex":
			k = 1
		case "once":
			k = 2
		}
		kinds = append(kinds, k)
	}
	c20StrList(&sb, "lockNames", "lock classes: struct fields / package variables of type sync.Mutex, sync.RWMutex, sync.Once (index = lock id)", names)
	fmt.Fprintf(&sb, "/-- kind of each lock class: 0 = sync.Mutex, 1 = sync.RWMutex, 2 = sync.Once (Do blocks concurrent callers) -/\ndef lockKinds : List Nat := %s\n\n", c20NatList(kinds))
	sb.WriteString("/-- (a, b, witness): lock b is acquired, directly or through calls, on some path on which lock a may be held -/\ndef holds : List (Nat × Nat × String) := [")
	for i, p := range t.pairs {
		if i > 0 {
			sb.WriteString(",")
		}
		fmt.Fprintf(&sb, "\n  (%d, %d, %s)", p.a, p.b, c20LeanStr(p.witness))
	}
	sb.WriteString("]\n\n")
	c20StrList(&sb, "fieldNames", "fields of the tracked structs (index = field id)", t.fields)
	fk := make([]int, len(t.fields))
	fidx := map[string]int{}
	for i, n := range t.fields {
		fk[i] = t.fieldKind[n]
		fidx[n] = i
	}
	// per-field summaries (checked row by row in Lean, so a wrong summary breaks a proof obligation)
	{
		var structs []string
		sidx := map[string]int{}
		fs := make([]int, len(t.fields))
		short := make([]string, len(t.fields))
		for i, n := range t.fields {
			j := strings.LastIndexByte(n, '.')
			sn := n[:j]
			if _, ok := sidx[sn]; !ok {
				sidx[sn] = len(structs)
				structs = append(structs, sn)
			}
			fs[i] = sidx[sn]
			short[i] = n[j+1:]
		}
		_ = fs
		_ = short
		// one constant per field, so that hand-written tables (the exemption list) name fields symbolically:
		// a field that disappears from lal makes such a table fail to elaborate
		sb.WriteString("namespace F\n")
		for i, n := range t.fields {
			fmt.Fprintf(&sb, "def «%s» : Nat := %d\n", n, i)
		}
		sb.WriteString("end F\n\n")
		written := make([]bool, len(t.fields))
		inter := make([]c20Set, len(t.fields))
		seenF := make([]bool, len(t.fields))
		for _, r := range t.rows {
			i := fidx[r.field]
			if r.write {
				written[i] = true
			}
			if !seenF[i] {
				seenF[i] = true
				inter[i] = r.locks
			} else {
				inter[i] &= r.locks
			}
		}
		sb.WriteString("/-- the field is written somewhere outside construction (summary of `access`) -/\ndef fieldWritten : List Bool := [")
		for i := range t.fields {
			if i > 0 {
				sb.WriteString(", ")
			}
			fmt.Fprint(&sb, written[i])
		}
		sb.WriteString("]\n\n/-- locks held at every access of the field outside construction (summary of `access`) -/\ndef fieldCommon : List (List Nat) := [")
		for i := range t.fields {
			if i > 0 {
				sb.WriteString(", ")
			}
			sb.WriteString(c20NatList(inter[i].list()))
		}
		sb.WriteString("]\n\n")
	}
	fmt.Fprintf(&sb, "/-- kind of each field: 0 = plain memory, 1 = atomic type (sync/atomic, nazaatomic), 2 = sync primitive, 3 = channel -/\ndef fieldKinds : List Nat := %s\n\n", c20NatList(fk))
	writeRows := func(name, doc string, rows []*c20AccRow) {
		fmt.Fprintf(&sb, "/-- %s -/\ndef %s : List (Nat × Bool × List Nat × Nat × String) := [", doc, name)
		for i, r := range rows {
			if i > 0 {
				sb.WriteString(",")
			}
			w := "false"
			if r.write {
				w = "true"
			}
			site := r.site + " " + r.fn
			if r.addr {
				site += " (address taken)"
			}
			fmt.Fprintf(&sb, "\n  (%d, %s, %s, %d, %s)", fidx[r.field], w, c20NatList(r.locks.list()), r.n, c20LeanStr(site))
		}
		sb.WriteString("]\n\n")
	}
	writeRows("access", "(field, write?, locks that MUST be held, number of sites, first site): accesses outside construction", t.rows)
	writeRows("initAccess", "accesses through a freshly constructed object (before it is shared); not part of the lock-set obligation", t.initRows)
	// channels
	var cn []string
	for _, c := range t.chans {
		cn = append(cn, c.name)
	}
	c20StrList(&sb, "chanNames", "channels held in struct fields / package variables (index = channel id)", cn)
	sb.WriteString("/-- capacities given at the make sites of each channel (-1: not a constant) -/\ndef chanCaps : List (List Int) := [")
	for i, c := range t.chans {
		if i > 0 {
			sb.WriteString(", ")
		}
		parts := make([]string, len(c.caps))
		for j, v := range c.caps {
			parts[j] = fmt.Sprint(v)
		}
		sb.WriteString("[" + strings.Join(parts, ", ") + "]")
	}
	sb.WriteString("]\n\n")
	writeSites := func(name, doc string, pick func(c *c20ChanFact) []c20ChanSite) {
		fmt.Fprintf(&sb, "/-- %s -/\ndef %s : List (Nat × Bool × List Nat × List Nat × String) := [", doc, name)
		first := true
		for i, c := range t.chans {
			for _, s := range pick(c) {
				if !first {
					sb.WriteString(",")
				}
				first = false
				sel := "false"
				if s.inSelect {
					sel = "true"
				}
				fmt.Fprintf(&sb, "\n  (%d, %s, %s, %s, %s)", i, sel, c20NatList(s.may.list()), c20NatList(s.must.list()), c20LeanStr(s.site))
			}
		}
		sb.WriteString("]\n\n")
	}
	writeSites("sends", "(channel, inside a select with another alternative?, locks that may be held, locks that must be held, site)", func(c *c20ChanFact) []c20ChanSite { return c.sends })
	writeSites("recvs", "receive sites, same layout", func(c *c20ChanFact) []c20ChanSite { return c.recvs })
	writeSites("closes", "close sites, same layout", func(c *c20ChanFact) []c20ChanSite { return c.closes })
	c20StrList(&sb, "unbalanced", "functions that return with a lock still held (the walk assumes none)", t.unbalanced)
	c20StrList(&sb, "unclassifiedRunners", "functions outside lal/pkg that receive a function value and are not classified as synchronous or asynchronous (treated as both)", t.unknown)
	c20StrList(&sb, "notes", "extractor notes", a.notes)
	sb.WriteString("end C20\n\n")
	return sb.String()
}

// unguardedChain: a call chain from a thread root to f along which lock l is not (necessarily) held.
func (a *c20Analysis) unguardedChain(f *c20Func, l int, depth int) string {
	if f.root || depth > 16 {
		return "ROOT " + f.label + " (" + f.rootWhy + ")"
	}
	for _, s := range f.in {
		m := s.caller.entryMust | s.ev.st.must
		if s.ev.once >= 0 {
			m |= 1 << uint(s.ev.once)
		}
		if !m.has(l) && !s.ev.st.must.has(l) {
			return a.unguardedChain(s.caller, l, depth+1) + " -> " + f.label + "@" + a.p.posStr(s.ev.pos)
		}
	}
	return "? " + f.label
}

func (t *c20Tables) report() string {
	a := t.a
	var sb strings.Builder
	if q := os.Getenv("C20_WHY"); q != "" { // C20_WHY=<unit label substring>:<lock name>
		parts := strings.SplitN(q, ":", 2)
		for _, f := range a.funcs {
			if !strings.Contains(f.label, parts[0]) || !f.live {
				continue
			}
			for i, c := range a.classes {
				if len(parts) > 1 && c.name == parts[1] && !f.entryMust.has(i) {
					fmt.Fprintf(&sb, "WHY %s lacks %s: %s\n", f.label, c.name, a.unguardedChain(f, i, 0))
				}
			}
		}
	}
	sb.WriteString("== lock classes\n")
	for i, c := range a.classes {
		fmt.Fprintf(&sb, "%2d %-8s %s\n", i, c.kind, c.name)
	}
	sb.WriteString("\n== holds\n")
	for _, p := range t.pairs {
		fmt.Fprintf(&sb, "%s -> %s\n     %s\n", a.classes[p.a].name, a.classes[p.b].name, p.witness)
	}
	sb.WriteString("\n== access (non-init)\n")
	names := func(s c20Set) string {
		var out []string
		for _, l := range s.list() {
			out = append(out, a.classes[l].name)
		}
		return "{" + strings.Join(out, ",") + "}"
	}
	for _, r := range t.rows {
		k := "R"
		if r.write {
			k = "W"
		}
		if r.addr {
			k = "&"
		}
		fmt.Fprintf(&sb, "%-50s %s %-40s n=%-3d %s %s\n", r.field, k, names(r.locks), r.n, r.site, r.fn)
	}
	sb.WriteString("\n== fields written outside construction without a common lock\n")
	{
		type agg struct {
			w     bool
			inter c20Set
			n     int
		}
		m := map[string]*agg{}
		for _, r := range t.rows {
			g := m[r.field]
			if g == nil {
				g = &agg{inter: ^c20Set(0)}
				m[r.field] = g
			}
			g.w = g.w || r.write
			g.inter &= r.locks
			g.n += r.n
		}
		for _, f := range t.fields {
			g := m[f]
			if g == nil || !g.w || g.inter != 0 || t.fieldKind[f] != 0 {
				continue
			}
			fmt.Fprintf(&sb, "%s (%d sites)\n", f, g.n)
		}
	}
	sb.WriteString("\n== channels\n")
	for _, c := range t.chans {
		fmt.Fprintf(&sb, "%s caps=%v\n", c.name, c.caps)
		for _, s := range c.sends {
			fmt.Fprintf(&sb, "   send  %s may=%s must=%s select=%v\n", s.site, names(s.may), names(s.must), s.inSelect)
		}
		for _, s := range c.recvs {
			fmt.Fprintf(&sb, "   recv  %s may=%s select=%v\n", s.site, names(s.may), s.inSelect)
		}
		for _, s := range c.closes {
			fmt.Fprintf(&sb, "   close %s must=%s\n", s.site, names(s.must))
		}
	}
	sb.WriteString("\n== roots\n")
	for _, f := range a.funcs {
		if f.root {
			fmt.Fprintf(&sb, "%s  -- %s\n", f.label, f.rootWhy)
		}
	}
	sb.WriteString("\n== unreachable from the entry surface (not analysed as threads)\n")
	for _, f := range a.funcs {
		if !f.live && f.lit == nil {
			sb.WriteString(f.label + "\n")
		}
	}
	sb.WriteString("\n== unbalanced\n" + strings.Join(t.unbalanced, "\n") + "\n")
	sb.WriteString("\n== unclassified runners\n" + strings.Join(t.unknown, "\n") + "\n")
	sb.WriteString("\n== notes\n" + strings.Join(a.notes, "\n") + "\n")
	return sb.String()
}

// c20SourceDigest hashes every non-test Go file under <repo>/pkg so that an unchanged tree reuses the cached tables.
func c20SourceDigest(repo string) string {
	h := sha256.New()
	var files []string
	_ = filepath.Walk(filepath.Join(repo, "pkg"), func(p string, fi os.FileInfo, err error) error {
		if err == nil && !fi.IsDir() && strings.HasSuffix(p, ".go") && !strings.HasSuffix(p, "_test.go") {
			files = append(files, p)
		}
		return nil
	})
	sort.Strings(files)
	for _, f := range files {
		b, _ := ioutil.ReadFile(f)
		fmt.Fprintf(h, "%s %d\n", f, len(b))
		h.Write(b)
	}
	if exe, err := os.Executable(); err == nil { // a rebuilt extractor invalidates the cache
		if fi, err := os.Stat(exe); err == nil {
			fmt.Fprintf(h, "exe %d %d\n", fi.Size(), fi.ModTime().UnixNano())
		}
	}
	return fmt.Sprintf("%x", h.Sum(nil))
}

func c20Extract(repo string) (string, error) {
	digest := c20SourceDigest(repo)
	cache := ""
	if exe, err := os.Executable(); err == nil {
		cache = filepath.Join(filepath.Dir(exe), ".c20-tables.cache")
		if b, err := ioutil.ReadFile(cache); err == nil {
			if i := strings.IndexByte(string(b), '\n'); i > 0 && string(b[:i]) == digest {
				return string(b[i+1:]), nil
			}
		}
	}
	p, err := c20NewProg(repo)
	if err != nil {
		return "", err
	}
	if err := p.loadAllLal(); err != nil {
		return "", err
	}
	a := c20Analyse(p)
	t := a.tables()
	body := t.lean()
	if rp := os.Getenv("C20_REPORT"); rp != "" {
		_ = ioutil.WriteFile(rp, []byte(t.report()), 0o644)
	}
	if cache != "" && os.Getenv("C20_REPORT") == "" {
		_ = ioutil.WriteFile(cache, []byte(digest+"\n"+body), 0o644)
	}
	return body, nil
}

func init() {
	extractors["C20"] = c20Extract
}
