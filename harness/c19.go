package main

// C19 — codec configuration survives every re-encoding; SDP; SPS dimensions.
// Implementation side: one op per function (pair) of pkg/avc, pkg/hevc, pkg/aac, pkg/h2645, pkg/sdp,
// nazabits, plus the two remuxers that chain them; an independent H.264 SPS bit-writer so that the
// real avc.ParseSps runs on specification-shaped SPSs.

import (
	"bytes"
	"fmt"
	"regexp"
	"strconv"
	"strings"

	"github.com/q191201771/lal/pkg/aac"
	"github.com/q191201771/lal/pkg/avc"
	"github.com/q191201771/lal/pkg/base"
	"github.com/q191201771/lal/pkg/h2645"
	"github.com/q191201771/lal/pkg/hevc"
	"github.com/q191201771/lal/pkg/remux"
	"github.com/q191201771/lal/pkg/rtprtcp"
	"github.com/q191201771/lal/pkg/sdp"
	"github.com/q191201771/naza/pkg/nazabits"
)

func sint(s string) int {
	v, err := strconv.ParseInt(s, 10, 64)
	if err != nil {
		panic(err)
	}
	return int(v)
}

func errStr(err error) string {
	if err != nil {
		return "err"
	}
	return "ok"
}

func hxList19(l [][]byte) string {
	if len(l) == 0 {
		return "."
	}
	p := make([]string, len(l))
	for i, x := range l {
		p[i] = hx(x)
	}
	return strings.Join(p, ",")
}

func unhxList(s string) [][]byte {
	if s == "." {
		return nil
	}
	var l [][]byte
	for _, x := range strings.Split(s, ",") {
		b := unhx(x)
		if b == nil {
			b = []byte{}
		}
		l = append(l, b)
	}
	return l
}

// optional byte string: "nil" = Go nil, "-" = empty non-nil
func optb(s string) []byte {
	if s == "nil" {
		return nil
	}
	b := unhx(s)
	if b == nil {
		b = []byte{}
	}
	return b
}

func showOpt(b []byte) string {
	if b == nil {
		return "nil"
	}
	return hx(b)
}

var intRe = regexp.MustCompile(`[+-]?[0-9]+`)

// the unexported payload-type-origin fields are only observable through Is…PayloadTypeOrigin:
// probe with every integer that occurs in the text plus the fixed ones.
func probeOrigin(raw []byte, is func(int) bool) string {
	cands := []int{0, 8, 14}
	for _, m := range intRe.FindAllString(string(raw), -1) {
		if v, err := strconv.Atoi(m); err == nil {
			cands = append(cands, v)
		}
	}
	for _, c := range cands {
		if is(c) {
			return strconv.Itoa(c)
		}
	}
	return "?"
}

func logicStr(ctx sdp.LogicContext) string {
	actl := "-"
	if ctx.HasAudioAControl() {
		actl = hx([]byte(ctx.MakeAudioSetupUri("u")))
	}
	vctl := "-"
	if ctx.HasVideoAControl() {
		vctl = hx([]byte(ctx.MakeVideoSetupUri("u")))
	}
	return fmt.Sprintf("acr=%d vcr=%d asc=%s vps=%s sps=%s pps=%s apt=%d vpt=%d ao=%s vo=%s actl=%s vctl=%s au=%v vu=%v",
		ctx.AudioClockRate, ctx.VideoClockRate, showOpt(ctx.Asc), showOpt(ctx.Vps), showOpt(ctx.Sps), showOpt(ctx.Pps),
		int(ctx.GetAudioPayloadTypeBase()), int(ctx.GetVideoPayloadTypeBase()),
		probeOrigin(ctx.RawSdp, ctx.IsAudioPayloadTypeOrigin), probeOrigin(ctx.RawSdp, ctx.IsVideoPayloadTypeOrigin),
		actl, vctl, b2i(ctx.IsAudioUnpackable()), b2i(ctx.IsVideoUnpackable()))
}

func b2i(b bool) int {
	if b {
		return 1
	}
	return 0
}

// ---------------------------------------------------------------------------------------------
// independent MSB-first bit writer + exp-Golomb + H.264 SPS syntax (H.264 §7.3.2.1.1, §9.1, §7.4.1)
// ---------------------------------------------------------------------------------------------

type bitw struct{ bits []byte }

func (w *bitw) u(n int, v uint64) {
	for i := n - 1; i >= 0; i-- {
		w.bits = append(w.bits, byte(v>>uint(i)&1))
	}
}
func (w *bitw) ue(v uint64) {
	x := v + 1
	n := 0
	for (x >> uint(n+1)) != 0 {
		n++
	}
	w.u(n, 0)
	w.u(n+1, x)
}
func (w *bitw) se(v int64) {
	if v > 0 {
		w.ue(uint64(2*v - 1))
	} else {
		w.ue(uint64(-2 * v))
	}
}
func (w *bitw) bytes() []byte {
	out := make([]byte, (len(w.bits)+7)/8)
	for i, b := range w.bits {
		if b != 0 {
			out[i/8] |= 1 << uint(7-i%8)
		}
	}
	return out
}

// emulation prevention, §7.4.1 (applied to the bytes after the NAL header)
func escapeRbsp(rbsp []byte) []byte {
	var out []byte
	z := 0
	for _, b := range rbsp {
		if z >= 2 && b <= 3 {
			out = append(out, 3)
			z = 0
		}
		out = append(out, b)
		if b == 0 {
			z++
		} else {
			z = 0
		}
	}
	return out
}

var highProfilesSpec = map[int]bool{100: true, 110: true, 122: true, 244: true, 44: true, 83: true, 86: true, 118: true, 128: true, 138: true, 139: true, 134: true, 135: true}

// spsP is the parameter record shared (as text) with Spec/SpsEnc.lean
type spsP struct {
	ref, profile, cflags, level, id  int
	chroma, sep, bdl, bdc, bypass    int
	scaling                          string // "-" or lists joined by "/", each "n" or comma separated deltas
	log2fn                           int
	poc                              string // "0:lsb" | "1:always:nonref:t2b:offs" | "2"
	nref, gaps, w, h, fmo, mbaff, d8 int
	crop                             string // "-" | l:r:t:b
	vui                              string // "-" | n:tail | a:idc:w:h:tail
}

func (p spsP) String() string {
	return fmt.Sprintf("%d %d %d %d %d %d %d %d %d %d %s %d %s %d %d %d %d %d %d %d %s %s",
		p.ref, p.profile, p.cflags, p.level, p.id, p.chroma, p.sep, p.bdl, p.bdc, p.bypass, p.scaling, p.log2fn, p.poc,
		p.nref, p.gaps, p.w, p.h, p.fmo, p.mbaff, p.d8, p.crop, p.vui)
}

func parseSpsP(a []string) spsP {
	return spsP{sint(a[0]), sint(a[1]), sint(a[2]), sint(a[3]), sint(a[4]), sint(a[5]), sint(a[6]), sint(a[7]), sint(a[8]), sint(a[9]),
		a[10], sint(a[11]), a[12], sint(a[13]), sint(a[14]), sint(a[15]), sint(a[16]), sint(a[17]), sint(a[18]), sint(a[19]), a[20], a[21]}
}

func intsOf(s string) []int64 {
	if s == "_" || s == "" {
		return nil
	}
	var r []int64
	for _, x := range strings.Split(s, ",") {
		r = append(r, int64(sint(x)))
	}
	return r
}

func tailBits(w *bitw, s string) {
	if s == "_" {
		return
	}
	for _, c := range s {
		w.u(1, uint64(c-'0'))
	}
}

func encSps(p spsP) []byte {
	w := &bitw{}
	w.u(8, uint64(p.profile))
	w.u(8, uint64(p.cflags))
	w.u(8, uint64(p.level))
	w.ue(uint64(p.id))
	if highProfilesSpec[p.profile] {
		w.ue(uint64(p.chroma))
		if p.chroma == 3 {
			w.u(1, uint64(p.sep))
		}
		w.ue(uint64(p.bdl))
		w.ue(uint64(p.bdc))
		w.u(1, uint64(p.bypass))
		if p.scaling == "-" {
			w.u(1, 0)
		} else {
			w.u(1, 1)
			for i, l := range strings.Split(p.scaling, "/") {
				if l == "n" {
					w.u(1, 0)
					continue
				}
				w.u(1, 1)
				size := 16
				if i >= 6 {
					size = 64
				}
				deltas := intsOf(l)
				last, next := 8, 8
				for j := 0; j < size; j++ {
					if next != 0 {
						w.se(deltas[j])
						next = (last + int(deltas[j]) + 256) % 256
					}
					if next != 0 {
						last = next
					}
				}
			}
		}
	}
	w.ue(uint64(p.log2fn))
	pf := strings.Split(p.poc, ":")
	w.ue(uint64(sint(pf[0])))
	switch pf[0] {
	case "0":
		w.ue(uint64(sint(pf[1])))
	case "1":
		w.u(1, uint64(sint(pf[1])))
		w.se(int64(sint(pf[2])))
		w.se(int64(sint(pf[3])))
		offs := intsOf(pf[4])
		w.ue(uint64(len(offs)))
		for _, o := range offs {
			w.se(o)
		}
	}
	w.ue(uint64(p.nref))
	w.u(1, uint64(p.gaps))
	w.ue(uint64(p.w))
	w.ue(uint64(p.h))
	w.u(1, uint64(p.fmo))
	if p.fmo == 0 {
		w.u(1, uint64(p.mbaff))
	}
	w.u(1, uint64(p.d8))
	if p.crop == "-" {
		w.u(1, 0)
	} else {
		w.u(1, 1)
		for _, x := range strings.Split(p.crop, ":") {
			w.ue(uint64(sint(x)))
		}
	}
	if p.vui == "-" {
		w.u(1, 0)
	} else {
		w.u(1, 1)
		vf := strings.Split(p.vui, ":")
		if vf[0] == "n" {
			w.u(1, 0)
			tailBits(w, vf[1])
		} else {
			w.u(1, 1)
			w.u(8, uint64(sint(vf[1])))
			if sint(vf[1]) == 255 {
				w.u(16, uint64(sint(vf[2])))
				w.u(16, uint64(sint(vf[3])))
			}
			tailBits(w, vf[4])
		}
	}
	w.u(1, 1) // rbsp_stop_one_bit, then alignment zeros
	return append([]byte{byte(p.ref<<5 | 7)}, escapeRbsp(w.bytes())...)
}

// ---------------------------------------------------------------------------------------------

func ctxStr(c *avc.Context) string {
	s := c.Sps
	return fmt.Sprintf("ok %d %d %d %d | %d %d %d %d %d %d %d %d %d %d %d %d %d %d %d %d %d %d %d %d %d %d %d %d %d %d %d %d",
		c.Profile, c.Level, c.Width, c.Height,
		s.ProfileIdc, s.ConstraintSet0Flag, s.ConstraintSet1Flag, s.ConstraintSet2Flag, s.LevelIdc, s.SpsId,
		s.ChromaFormatIdc, s.ResidualColorTransformFlag, s.BitDepthLuma, s.BitDepthChroma, s.TransFormBypass,
		s.Log2MaxFrameNumMinus4, s.PicOrderCntType, s.Log2MaxPicOrderCntLsb, s.NumRefFrames, s.GapsInFrameNumValueAllowedFlag,
		s.PicWidthInMbsMinusOne, s.PicHeightInMapUnitsMinusOne, s.FrameMbsOnlyFlag, s.MbAdaptiveFrameFieldFlag, s.Direct8X8InferenceFlag,
		s.FrameCroppingFlag, s.FrameCropLeftOffset, s.FrameCropRightOffset, s.FrameCropTopOffset, s.FrameCropBottomOffset,
		s.SarNum, s.SarDen)
}

func parseSpsOp(b []byte) string {
	var ctx avc.Context
	if err := avc.ParseSps(b, &ctx); err != nil {
		return "err"
	}
	return ctxStr(&ctx)
}

func init() {
	// ---- NAL unit streams
	ops["nalu.sc"] = func(a []string) string {
		p, l := avc.IterateNaluStartCode(unhx(a[0]), atoi(a[1]))
		p2, l2 := h2645.IterateNaluStartCode(unhx(a[0]), atoi(a[1]))
		if p != p2 || l != l2 {
			return "h2645-differs"
		}
		return fmt.Sprintf("%d %d", p, l)
	}
	ops["nalu.annexb"] = func(a []string) string {
		l, err := avc.SplitNaluAnnexb(unhx(a[0]))
		return errStr(err) + " " + hxList19(l)
	}
	ops["nalu.avcc"] = func(a []string) string {
		l, err := avc.SplitNaluAvcc(unhx(a[0]))
		var l2 [][]byte
		err2 := h2645.IterateNaluAvcc(unhx(a[0]), func(n []byte) { l2 = append(l2, n) })
		if hxList19(l) != hxList19(l2) || errStr(err) != errStr(err2) {
			return "h2645-differs"
		}
		return errStr(err) + " " + hxList19(l)
	}
	ops["nalu.a2b"] = func(a []string) string {
		r, err := avc.Avcc2Annexb(unhx(a[0]))
		return errStr(err) + " " + hx(r)
	}
	ops["nalu.b2a"] = func(a []string) string {
		r, err := avc.Annexb2Avcc(unhx(a[0]))
		return errStr(err) + " " + hx(r)
	}
	ops["nalu.join"] = func(a []string) string { return hx(h2645.JoinNaluAvcc(unhxList(a[0])...)) }
	// nalu.rt <k:nal,k:nal,...>: units joined with k zero bytes + 01 each, and with 4-byte lengths; every conversion
	ops["nalu.rt"] = func(a []string) string {
		var annexb []byte
		var nals [][]byte
		for _, it := range strings.Split(a[0], ",") {
			f := strings.Split(it, ":")
			annexb = append(annexb, make([]byte, atoi(f[0]))...)
			annexb = append(annexb, 1)
			n := unhx(f[1])
			annexb = append(annexb, n...)
			nals = append(nals, n)
		}
		avcc := h2645.JoinNaluAvcc(nals...)
		s1, e1 := avc.SplitNaluAnnexb(annexb)
		s2, e2 := avc.SplitNaluAvcc(avcc)
		c1, e3 := avc.Annexb2Avcc(annexb)
		c2, e4 := avc.Avcc2Annexb(avcc)
		return fmt.Sprintf("%s %s ; %s %s ; %s %s ; %s %s", errStr(e1), hxList19(s1), errStr(e2), hxList19(s2), errStr(e3), hx(c1), errStr(e4), hx(c2))
	}

	// ---- sequence headers
	ops["avc.build"] = func(a []string) string {
		r, err := avc.BuildSeqHeaderFromSpsPps(unhx(a[0]), unhx(a[1]))
		if err != nil {
			return "err"
		}
		return hx(r)
	}
	ops["avc.parse"] = func(a []string) string {
		p := unhx(a[0])
		s, q, err := avc.ParseSpsPpsFromSeqHeaderWithoutMalloc(p)
		s2, q2, err2 := avc.ParseSpsPpsFromSeqHeader(p)
		if errStr(err) != errStr(err2) || !bytes.Equal(s, s2) || !bytes.Equal(q, q2) {
			return "malloc-variant-differs"
		}
		if err != nil {
			return "err"
		}
		return hx(s) + " " + hx(q)
	}
	ops["avc.sh2annexb"] = func(a []string) string {
		r, err := avc.SpsPpsSeqHeader2Annexb(unhx(a[0]))
		r2, err2 := h2645.SeqHeader2Annexb(true, unhx(a[0]))
		if errStr(err) != errStr(err2) || !bytes.Equal(r, r2) {
			return "h2645-differs"
		}
		if err != nil {
			return "err"
		}
		return hx(r)
	}
	ops["avc.annexb"] = func(a []string) string { return hx(avc.BuildSpsPps2Annexb(unhx(a[0]), unhx(a[1]))) }
	ops["hevc.build"] = func(a []string) string {
		r, err := hevc.BuildSeqHeaderFromVpsSpsPps(unhx(a[0]), unhx(a[1]), unhx(a[2]))
		if err != nil {
			return "err"
		}
		return hx(r)
	}
	ops["hevc.parse"] = func(a []string) string {
		p := unhx(a[0])
		v, s, q, err := hevc.ParseVpsSpsPpsFromSeqHeaderWithoutMalloc(p)
		v2, s2, q2, err2 := hevc.ParseVpsSpsPpsFromSeqHeader(p)
		if errStr(err) != errStr(err2) || !bytes.Equal(v, v2) || !bytes.Equal(s, s2) || !bytes.Equal(q, q2) {
			return "malloc-variant-differs"
		}
		if err != nil {
			return "err"
		}
		return hx(v) + " " + hx(s) + " " + hx(q)
	}
	ops["hevc.eparse"] = func(a []string) string {
		v, s, q, err := hevc.ParseVpsSpsPpsFromEnhancedSeqHeader(unhx(a[0]))
		if err != nil {
			return "err"
		}
		return hx(v) + " " + hx(s) + " " + hx(q)
	}
	ops["hevc.sh2annexb"] = func(a []string) string {
		r, err := hevc.VpsSpsPpsSeqHeader2Annexb(unhx(a[0]))
		r2, err2 := h2645.SeqHeader2Annexb(false, unhx(a[0]))
		if errStr(err) != errStr(err2) || !bytes.Equal(r, r2) {
			return "h2645-differs"
		}
		if err != nil {
			return "err"
		}
		return hx(r)
	}
	ops["hevc.esh2annexb"] = func(a []string) string {
		r, err := hevc.VpsSpsPpsEnhancedSeqHeader2Annexb(unhx(a[0]))
		if err != nil {
			return "err"
		}
		return hx(r)
	}
	ops["hevc.annexb"] = func(a []string) string {
		r, err := hevc.BuildVpsSpsPps2Annexb(unhx(a[0]), unhx(a[1]), unhx(a[2]))
		if err != nil {
			return "err"
		}
		return hx(r)
	}

	// ---- AAC
	ops["aac.asc"] = func(a []string) string {
		c, err := aac.NewAscContext(unhx(a[0]))
		if err != nil {
			return "err"
		}
		return fmt.Sprintf("%d %d %d", c.AudioObjectType, c.SamplingFrequencyIndex, c.ChannelConfiguration)
	}
	mk := func(a []string) aac.AscContext {
		return aac.AscContext{AudioObjectType: uint8(atoi(a[0])), SamplingFrequencyIndex: uint8(atoi(a[1])), ChannelConfiguration: uint8(atoi(a[2]))}
	}
	ops["aac.pack"] = func(a []string) string { c := mk(a); return hx(c.Pack()) }
	ops["aac.adts"] = func(a []string) string { c := mk(a); return hx(c.PackAdtsHeader(atoi(a[3]))) }
	ops["aac.freq"] = func(a []string) string {
		c := mk(a)
		f, err := c.GetSamplingFrequency()
		if err != nil {
			return "err"
		}
		return strconv.Itoa(f)
	}
	ops["aac.unadts"] = func(a []string) string {
		c, err := aac.NewAdtsHeaderContext(unhx(a[0]))
		if err != nil {
			return "err"
		}
		return fmt.Sprintf("%d %d %d %d", c.AscCtx.AudioObjectType, c.AscCtx.SamplingFrequencyIndex, c.AscCtx.ChannelConfiguration, c.AdtsLength)
	}
	ops["aac.adts2asc"] = func(a []string) string {
		r, err := aac.MakeAscWithAdtsHeader(unhx(a[0]))
		if err != nil {
			return "err"
		}
		return hx(r)
	}
	ops["aac.seqhdr"] = func(a []string) string {
		r, err := aac.MakeAudioDataSeqHeaderWithAsc(unhx(a[0]))
		if err != nil {
			return "err"
		}
		return hx(r)
	}
	ops["aac.adts2seqhdr"] = func(a []string) string {
		r, err := aac.MakeAudioDataSeqHeaderWithAdtsHeader(unhx(a[0]))
		if err != nil {
			return "err"
		}
		return hx(r)
	}
	ops["aac.shctx"] = func(a []string) string {
		var c aac.SequenceHeaderContext
		c.Unpack(unhx(a[0]))
		return fmt.Sprintf("%d %d %d %d %d", c.SoundFormat, c.SoundRate, c.SoundSize, c.SoundType, c.AacPacketType)
	}

	// ---- bit reader: bits.rd <bytes> <script>, script items: b<n> (ReadBits of width n via the narrowest ReadBitsN),
	// ue, se, B<n> ReadBytes, s<n> SkipBits. Output one value per item, "e" when the call returns an error.
	ops["bits.rd"] = func(a []string) string {
		br := nazabits.NewBitReader(unhx(a[0]))
		var out []string
		for _, it := range strings.Split(a[1], ",") {
			switch {
			case it == "ue":
				v, err := br.ReadUeGolomb()
				out = append(out, valOrE(uint64(v), err))
			case it == "se":
				v, err := br.ReadSeGolomb()
				if err != nil {
					out = append(out, "e")
				} else {
					out = append(out, strconv.Itoa(int(v)))
				}
			case it[0] == 'b':
				n := uint(atoi(it[1:]))
				switch {
				case n <= 8:
					v, err := br.ReadBits8(n)
					out = append(out, valOrE(uint64(v), err))
				case n <= 16:
					v, err := br.ReadBits16(n)
					out = append(out, valOrE(uint64(v), err))
				case n <= 32:
					v, err := br.ReadBits32(n)
					out = append(out, valOrE(uint64(v), err))
				default:
					v, err := br.ReadBits64(n)
					out = append(out, valOrE(v, err))
				}
			case it[0] == 'B':
				v, err := br.ReadBytes(uint(atoi(it[1:])))
				if err != nil {
					out = append(out, "e")
				} else {
					out = append(out, hx(v))
				}
			case it[0] == 's':
				if err := br.SkipBits(uint(atoi(it[1:]))); err != nil {
					out = append(out, "e")
				} else {
					out = append(out, "k")
				}
			}
		}
		return strings.Join(out, " ")
	}
	// bits.ue <v> / bits.se <v>: written by the harness writer, read back by nazabits
	ops["bits.ue"] = func(a []string) string {
		w := &bitw{}
		v, _ := strconv.ParseUint(a[0], 10, 64)
		w.ue(v)
		w.u(1, 1)
		b := w.bytes()
		br := nazabits.NewBitReader(b)
		r, err := br.ReadUeGolomb()
		return hx(b) + " " + valOrE(uint64(r), err)
	}
	ops["bits.se"] = func(a []string) string {
		w := &bitw{}
		w.se(int64(sint(a[0])))
		w.u(1, 1)
		b := w.bytes()
		br := nazabits.NewBitReader(b)
		r, err := br.ReadSeGolomb()
		if err != nil {
			return hx(b) + " e"
		}
		return hx(b) + " " + strconv.Itoa(int(r))
	}

	// ---- SPS
	ops["sps.parse"] = func(a []string) string { return parseSpsOp(unhx(a[0])) }
	// sps.enc <params>: the harness writer's SPS, then what avc.ParseSps reports for it
	ops["sps.enc"] = func(a []string) string {
		b := encSps(parseSpsP(a))
		r := protect(func() string { return parseSpsOp(b) })
		f := strings.Fields(r)
		if len(f) >= 5 && f[0] == "ok" {
			return hx(b) + " " + f[3] + " " + f[4]
		}
		return hx(b) + " " + r
	}

	// ---- SDP
	ops["sdp.pack"] = func(a []string) string {
		v := sdp.VideoInfo{VideoPt: base.AvPacketPt(sint(a[0])), Vps: optb(a[1]), Sps: optb(a[2]), Pps: optb(a[3])}
		au := sdp.AudioInfo{AudioPt: base.AvPacketPt(sint(a[4])), SamplingFrequency: sint(a[5]), Asc: optb(a[6])}
		ctx, err := sdp.Pack(v, au)
		if err != nil {
			return "err"
		}
		return hx(ctx.RawSdp) + " " + logicStr(ctx)
	}
	ops["sdp.parse"] = func(a []string) string {
		ctx, err := sdp.ParseSdp2LogicContext(unhx(a[0]))
		if err != nil {
			return "err"
		}
		return logicStr(ctx)
	}

	// ---- the remuxers that chain these functions
	// remux.sdp <video seq header|nil> <aac seq header|nil>: RTMP sequence headers → the SDP Rtmp2RtspRemuxer announces
	ops["remux.sdp"] = func(a []string) string {
		var got []string
		r := remux.NewRtmp2RtspRemuxer(func(c sdp.LogicContext) { got = append(got, hx(c.RawSdp)+" "+logicStr(c)) }, func(pkt rtprtcp.RtpPacket) {})
		// one receive buffer reused and overwritten between messages, as a pull session does: the remuxer's
		// documentation promises that it keeps no reference to msg memory
		arena := make([]byte, 0, 4096)
		feed := func(typ uint8, raw []byte) {
			p := append(arena[:0], raw...)
			var m base.RtmpMsg
			m.Header.MsgTypeId = typ
			m.Header.MsgLen = uint32(len(p))
			m.Payload = p
			r.FeedRtmpMsg(m)
			for i := range p {
				p[i] = 0x9a
			}
		}
		if a[0] != "nil" {
			feed(base.RtmpTypeIdVideo, unhx(a[0]))
		}
		if a[1] != "nil" {
			feed(base.RtmpTypeIdAudio, unhx(a[1]))
		}
		if len(got) == 0 {
			return "none"
		}
		return strings.Join(got, " ; ")
	}
	// remux.init <asc|nil> <vps|nil> <sps|nil> <pps|nil>: SDP parameter sets → the RTMP sequence headers AvPacket2RtmpRemuxer emits
	ops["remux.init"] = func(a []string) string {
		var got []string
		r := remux.NewAvPacket2RtmpRemuxer().WithOnRtmpMsg(func(m base.RtmpMsg) {
			if m.Header.MsgTypeId == base.RtmpTypeIdMetadata {
				return
			}
			got = append(got, fmt.Sprintf("%d:%s", m.Header.MsgTypeId, hx(m.Payload)))
		})
		r.InitWithAvConfig(optb(a[0]), optb(a[1]), optb(a[2]), optb(a[3]))
		if len(got) == 0 {
			return "none"
		}
		return strings.Join(got, " ")
	}

	gens["C19"] = genC19
	extractors["C19Consts"] = func(repo string) (string, error) {
		var sb strings.Builder
		leanBytes(&sb, "lalPackSdp", "base.LalPackSdp", []byte(base.LalPackSdp))
		leanBytes(&sb, "naluStartCode3", "avc.NaluStartCode3", avc.NaluStartCode3)
		leanBytes(&sb, "naluStartCode4", "avc.NaluStartCode4", avc.NaluStartCode4)
		leanBytes(&sb, "hevcNaluStartCode4", "hevc.NaluStartCode4", hevc.NaluStartCode4)
		leanNat(&sb, "adtsHeaderLength", "aac.AdtsHeaderLength", aac.AdtsHeaderLength)
		leanNat(&sb, "avPacketPtAvc", "base.AvPacketPtAvc", int64(base.AvPacketPtAvc))
		leanNat(&sb, "avPacketPtHevc", "base.AvPacketPtHevc", int64(base.AvPacketPtHevc))
		leanNat(&sb, "avPacketPtAac", "base.AvPacketPtAac", int64(base.AvPacketPtAac))
		leanNat(&sb, "avPacketPtG711A", "base.AvPacketPtG711A", int64(base.AvPacketPtG711A))
		leanNat(&sb, "avPacketPtG711U", "base.AvPacketPtG711U", int64(base.AvPacketPtG711U))
		leanNat(&sb, "avPacketPtOpus", "base.AvPacketPtOpus", int64(base.AvPacketPtOpus))
		leanNat(&sb, "avPacketPtMp2", "base.AvPacketPtMp2", int64(base.AvPacketPtMp2))
		leanNat(&sb, "hevcNaluTypeVps", "hevc.NaluTypeVps", int64(hevc.NaluTypeVps))
		leanNat(&sb, "hevcNaluTypeSps", "hevc.NaluTypeSps", int64(hevc.NaluTypeSps))
		leanNat(&sb, "hevcNaluTypePps", "hevc.NaluTypePps", int64(hevc.NaluTypePps))
		return sb.String(), nil
	}
}

func valOrE(v uint64, err error) string {
	if err != nil {
		return "e"
	}
	return strconv.FormatUint(v, 10)
}
