package main

import (
	"fmt"
	"os"
	"strings"

	"github.com/q191201771/naza/pkg/nazalog"
)

// Child mode of the C13 ops (see c13Child): this init runs after those of c13*.go, which register c13ChildOps.
func init() {
	if op := os.Getenv("C13_CHILD_OP"); op != "" {
		_ = nazalog.Init(func(option *nazalog.Option) {
			option.Level = nazalog.LevelPanic
			option.IsToStdout = false
			if os.Getenv("C13DBG") != "" {
				option.Level = nazalog.LevelDebug
				option.IsToStdout = true
			}
		})
		f := strings.Fields(op)
		fn, ok := c13ChildOps[f[0]]
		if !ok {
			fmt.Println("unknown-child-op")
			os.Exit(0)
		}
		fmt.Println(protect(func() string { return fn(f[1:]) }))
		os.Exit(0)
	}
}
