package main

// C05 — no published media payload terminates the server.
//
// L0 ops (every call under recover): the base.RtmpMsg classification helpers, remux.GopCache,
// remux.Rtmp2MpegtsRemuxer and remux.Rtmp2RtspRemuxer with recording observers, remux.DummyAudioFilter,
// hevc.ParseSps, remux.Rtmp2AvPacketRemuxer. The L1 op (a real logic.Group, every output enabled) is in c05group.go,
// the generators in c05gen.go.
//
// A message list is written  t:ts:hex,t:ts:hex,…  (t = RTMP message type id, ts = absolute timestamp,
// hex = payload, `-` = empty).

import (
	"fmt"
	"strconv"
	"strings"
	"sync/atomic"
	"time"

	"github.com/q191201771/lal/pkg/base"
	"github.com/q191201771/lal/pkg/hevc"
	"github.com/q191201771/lal/pkg/mpegts"
	"github.com/q191201771/lal/pkg/remux"
	"github.com/q191201771/lal/pkg/rtprtcp"
	"github.com/q191201771/lal/pkg/sdp"
)

// c05Fnv is FNV-1a (32 bit), used to compare long byte strings through the line protocol.
func c05Fnv(b []byte) uint32 {
	h := uint32(2166136261)
	for _, x := range b {
		h ^= uint32(x)
		h *= 16777619
	}
	return h
}

func c05Msg(t uint8, ts uint32, p []byte) base.RtmpMsg {
	var m base.RtmpMsg
	m.Header.MsgTypeId = t
	m.Header.MsgLen = uint32(len(p))
	m.Header.TimestampAbs = ts
	m.Header.MsgStreamId = 1
	switch t {
	case base.RtmpTypeIdAudio:
		m.Header.Csid = 6
	case base.RtmpTypeIdVideo:
		m.Header.Csid = 7
	default:
		m.Header.Csid = 5
	}
	m.Payload = p
	return m
}

func c05ParseMsg(s string) base.RtmpMsg {
	f := strings.Split(s, ":")
	t, _ := strconv.Atoi(f[0])
	ts, _ := strconv.ParseUint(f[1], 10, 32)
	p := unhx(f[2])
	if p == nil {
		p = []byte{}
	}
	return c05Msg(uint8(t), uint32(ts), p)
}

func c05ParseMsgs(s string) []base.RtmpMsg {
	if s == "-" || s == "" {
		return nil
	}
	var out []base.RtmpMsg
	for _, x := range strings.Split(s, ",") {
		out = append(out, c05ParseMsg(x))
	}
	return out
}

func c05MsgStr(m base.RtmpMsg) string {
	return fmt.Sprintf("%d:%d:%s", m.Header.MsgTypeId, m.Header.TimestampAbs, hx(m.Payload))
}

func c05MsgsStr(ms []base.RtmpMsg) string {
	if len(ms) == 0 {
		return "-"
	}
	s := make([]string, len(ms))
	for i := range ms {
		s[i] = c05MsgStr(ms[i])
	}
	return strings.Join(s, ",")
}

func c05B(f func() bool) string {
	return protect(func() string {
		if f() {
			return "1"
		}
		return "0"
	})
}

func c05N(f func() uint64) string {
	return protect(func() string { return strconv.FormatUint(f(), 10) })
}

// c05Cls evaluates every classification helper of base.RtmpMsg, each under its own recover ("panic").
func c05Cls(m base.RtmpMsg) string {
	return strings.Join([]string{
		c05B(m.IsAvcKeySeqHeader),
		c05B(m.IsHevcKeySeqHeader),
		c05B(m.IsEnhanced),
		c05B(m.IsVideoKeySeqHeader),
		c05B(m.IsAvcKeyNalu),
		c05B(m.IsHevcKeyNalu),
		c05B(m.IsEnchanedHevcNalu),
		c05N(func() uint64 { return uint64(m.GetEnchanedHevcNaluIndex()) }),
		c05B(m.IsVideoKeyNalu),
		c05B(m.IsAacSeqHeader),
		c05N(func() uint64 { return uint64(m.VideoCodecId()) }),
		c05N(func() uint64 { return uint64(m.AudioCodecId()) }),
		c05N(func() uint64 { return uint64(m.Cts()) }),
		c05N(func() uint64 { return uint64(m.Pts()) }),
	}, " ")
}

// ---- recording observer of Rtmp2MpegtsRemuxer

type c05TsObs struct {
	ev      []string
	r       *remux.Rtmp2MpegtsRemuxer
	reflush bool // call FlushAudio from inside OnTsPackets when boundary is set (what hls.Muxer's OnFragmentOpen does)
	depth   int
}

func (o *c05TsObs) OnPatPmt(b []byte) { o.ev = append(o.ev, fmt.Sprintf("P:%d:%d", len(b), c05Fnv(b))) }
func (o *c05TsObs) OnTsPackets(tsPackets []byte, frame *mpegts.Frame, boundary bool) {
	if o.reflush && boundary && o.depth == 0 {
		o.depth++
		o.r.FlushAudio()
		o.depth--
	}
	o.ev = append(o.ev, fmt.Sprintf("F:%d:%d:%d:%d:%d:%d:%d:%d:%d:%d:%d", frame.Sid, b2i(frame.Key), b2i(boundary), frame.Dts, frame.Pts,
		frame.Cts, frame.Cc, len(frame.Raw), c05Fnv(frame.Raw), len(tsPackets), c05Fnv(tsPackets)))
}

// c05Hung is set once an op did not come back within its deadline: its goroutine is still spinning (possibly
// holding the group lock), so every later deadline-guarded op is skipped (reported as a disagreement, not as a
// failing input: the replay of the check names the op that really did not return).
var c05Hung int32

// c05Deadline runs f and answers "timeout" when it has not returned after d (S7: a loop that does not end).
func c05Deadline(d time.Duration, f func() string) string {
	if atomic.LoadInt32(&c05Hung) != 0 {
		return "skipped-after-timeout"
	}
	ch := make(chan string, 1)
	go func() { ch <- protect(f) }()
	select {
	case r := <-ch:
		return r
	case <-time.After(d):
		atomic.StoreInt32(&c05Hung, 1)
		return "timeout"
	}
}

func c05Ev(ev []string) string {
	if len(ev) == 0 {
		return "-"
	}
	return strings.Join(ev, " ")
}

func init() {
	ops["c05.cls"] = func(a []string) string {
		t, _ := strconv.Atoi(a[0])
		p := unhx(a[1])
		if p == nil {
			p = []byte{}
		}
		return c05Cls(c05Msg(uint8(t), 1000, p))
	}

	// c05.gop <gopNum> <singleGopMaxFrameNum> <msgs>: remux.GopCache.Feed with b = the message's index (2 bytes)
	ops["c05.gop"] = func(a []string) string {
		gc := remux.NewGopCache("rtmp", "uk", sint(a[0]), sint(a[1]))
		var rets strings.Builder
		for i, m := range c05ParseMsgs(a[2]) {
			if gc.Feed(m, []byte{byte(i >> 8), byte(i)}) {
				rets.WriteByte('1')
			} else {
				rets.WriteByte('0')
			}
		}
		idx := func(b []byte) string {
			if b == nil {
				return "-"
			}
			return strconv.Itoa(int(b[0])<<8 | int(b[1]))
		}
		var gops []string
		for i := 0; i < gc.GetGopCount(); i++ {
			var it []string
			for _, b := range gc.GetGopDataAt(i) {
				it = append(it, idx(b))
			}
			gops = append(gops, strings.Join(it, "."))
		}
		r := rets.String()
		if r == "" {
			r = "-"
		}
		gs := strings.Join(gops, "/")
		if len(gops) == 0 {
			gs = "-"
		}
		return fmt.Sprintf("r=%s v=%s a=%s n=%d g=%s", r, idx(gc.VideoSeqHeader), idx(gc.AacSeqHeader), gc.GetGopCount(), gs)
	}

	// c05.ts <reflush 0|1> <msgs>: a fresh Rtmp2MpegtsRemuxer, every message, then Dispose
	ops["c05.ts"] = func(a []string) string {
		o := &c05TsObs{reflush: a[0] == "1"}
		r := remux.NewRtmp2MpegtsRemuxer(o)
		o.r = r
		for _, m := range c05ParseMsgs(a[1]) {
			r.FeedRtmpMessage(m)
		}
		o.ev = append(o.ev, "X")
		r.Dispose()
		return c05Ev(o.ev)
	}

	// c05.rtsp <msgs>: a fresh Rtmp2RtspRemuxer; sequence numbers relative to the first packet of each track
	ops["c05.rtsp"] = func(a []string) string {
		var ev []string
		first := map[uint8]int{}
		r := remux.NewRtmp2RtspRemuxer(func(c sdp.LogicContext) {
			ev = append(ev, "S:"+hx(c.RawSdp))
		}, func(pkt rtprtcp.RtpPacket) {
			pt := pkt.Header.PacketType
			if _, ok := first[pt]; !ok {
				first[pt] = int(pkt.Header.Seq)
			}
			body := pkt.Raw[12:]
			ev = append(ev, fmt.Sprintf("R:%d:%d:%d:%d:%d:%d", pt, pkt.Header.Mark, (int(pkt.Header.Seq)-first[pt]+65536)%65536, pkt.Header.Timestamp, len(body), c05Fnv(body)))
		})
		for _, m := range c05ParseMsgs(a[0]) {
			r.FeedRtmpMsg(m)
		}
		return c05Ev(ev)
	}

	// c05.dummy <waitAudioMs> <msgs>: DummyAudioFilter; what is handed on, in order
	ops["c05.dummy"] = func(a []string) string {
		return c05Deadline(20*time.Second, func() string { return c05Dummy(a) })
	}
}

func c05Dummy(a []string) string {
	{
		var ev []string
		n := 0
		h := uint32(2166136261)
		f := remux.NewDummyAudioFilter("uk", sint(a[0]), func(m base.RtmpMsg) {
			n++
			s := fmt.Sprintf("%d:%d:%d:%d", m.Header.MsgTypeId, m.Header.TimestampAbs, len(m.Payload), c05Fnv(m.Payload))
			if n <= 64 {
				ev = append(ev, s)
			}
			for i := 0; i < len(s); i++ {
				h ^= uint32(s[i])
				h *= 16777619
			}
		})
		for _, m := range c05ParseMsgs(a[1]) {
			f.Feed(m)
		}
		return fmt.Sprintf("n=%d h=%d %s", n, h, c05Ev(ev))
	}
}

func init() {
	// c05.hsps <sps>: hevc.ParseSps on a fresh context
	ops["c05.hsps"] = func(a []string) string {
		var ctx hevc.Context
		if err := hevc.ParseSps(unhx(a[0]), &ctx); err != nil {
			return "err"
		}
		return fmt.Sprintf("ok %d %d", ctx.PicWidthInLumaSamples, ctx.PicHeightInLumaSamples)
	}

	// c05.avpkt <msgs>: Rtmp2AvPacketRemuxer (library remuxer used by customize sessions)
	ops["c05.avpkt"] = func(a []string) string {
		var ev []string
		r := remux.NewRtmp2AvPacketRemuxer().WithOnAvPacket(func(pkt base.AvPacket, arg interface{}) {
			ev = append(ev, fmt.Sprintf("A:%d:%d:%d:%d:%d", pkt.PayloadType, pkt.Timestamp, pkt.Pts, len(pkt.Payload), c05Fnv(pkt.Payload)))
		})
		for _, m := range c05ParseMsgs(a[0]) {
			if err := r.FeedRtmpMsg(m, nil); err != nil {
				ev = append(ev, "e")
			}
		}
		return c05Ev(ev)
	}
}
