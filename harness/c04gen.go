package main

// C04 generator: boundary corpus (runs first), structured sessions with one hostile step, mutated / truncated /
// spliced valid sessions, random bytes.

import (
	"bytes"
	"fmt"
	"os"
)

const (
	c04Env = "a.a.-"
)

// session prefix builders -------------------------------------------------------------------------------------------

type c04B struct {
	r  *Rng
	w  bytes.Buffer
	cs int // chunk size the peer currently uses
}

func c04New(r *Rng, hsMode string) *c04B {
	b := &c04B{r: r, cs: 128}
	b.w.Write(c04Handshake(r, hsMode))
	return b
}

func (b *c04B) raw(p []byte) *c04B { b.w.Write(p); return b }
func (b *c04B) msg(csid, typ, msid int, ts uint32, payload []byte) *c04B {
	b.w.Write(c04Msg(csid, typ, msid, ts, payload, b.cs))
	return b
}
func (b *c04B) setChunkSize(v uint32) *c04B {
	b.msg(2, 1, 0, 0, c04Be(4, uint64(v)))
	if v >= 1 {
		b.cs = int(v)
		if b.cs > 1<<24 {
			b.cs = 1 << 24
		}
	}
	return b
}
func (b *c04B) connect() *c04B      { return b.msg(3, 20, 0, 0, c04Connect("live")) }
func (b *c04B) createStream() *c04B { return b.msg(3, 20, 0, 0, c04CreateStream()) }
func (b *c04B) publish(name string) *c04B {
	return b.msg(5, 20, 1, 0, c04Publish(name))
}
func (b *c04B) play(name string) *c04B { return b.msg(5, 20, 1, 0, c04Play(name)) }
func (b *c04B) pubPrefix() *c04B        { return b.connect().createStream().publish("s1") }
func (b *c04B) subPrefix() *c04B        { return b.connect().createStream().play("s1") }
func (b *c04B) bytes() []byte           { return append([]byte(nil), b.w.Bytes()...) }
func (b *c04B) audio(ts uint32, n int) *c04B {
	return b.msg(6, 8, 1, ts, append([]byte{0xaf, 1}, b.r.Bytes(n)...))
}
func (b *c04B) video(ts uint32, n int) *c04B {
	return b.msg(7, 9, 1, ts, append([]byte{0x27, 1, 0, 0, 0}, b.r.Bytes(n)...))
}
func (b *c04B) meta() *c04B {
	return b.msg(5, 18, 1, 0, c04Cat(c04AmfStr("@setDataFrame"), c04AmfStr("onMetaData"),
		c04AmfObj(c04Cat(c04AmfKey("width"), c04AmfNum(0x409e000000000000)))))
}

// state selects the session state a hostile message is sent in.
func c04State(r *Rng, st int) *c04B {
	b := c04New(r, "simple")
	switch st {
	case 0: // right after the handshake
	case 1:
		b.connect()
	case 2:
		b.connect().createStream()
	case 3:
		b.pubPrefix()
	case 4:
		b.subPrefix()
	}
	return b
}

var c04StateName = []string{"hs", "connected", "created", "pub", "sub"}

func c04SubMsg(typ int, ts uint32, msid int, payload []byte, mlen int) []byte {
	h := []byte{byte(typ)}
	h = append(h, c04Be(3, uint64(mlen))...)
	h = append(h, c04Be(3, uint64(ts&0xffffff))...)
	h = append(h, byte(ts>>24))
	h = append(h, c04Be(3, uint64(msid))...)
	return append(h, payload...)
}

func c04Aggregate(subs ...[]byte) []byte {
	var p []byte
	for _, s := range subs {
		p = append(p, s...)
		p = append(p, c04Be(4, uint64(len(s)))...)
	}
	return p
}

func (g *G) c04(label, env, frag string, stream []byte) {
	op := c04Op(env, frag, stream)
	if os.Getenv("C04_LABELS") != "" && len(op) < 2000 {
		fmt.Fprintf(os.Stderr, "LABEL %s %s\n", label, op)
	}
	g.L(label).run(op)
}

func genC04(g *G) {
	r := g.rng

	// ---------------- boundary corpus -------------------------------------------------------------------------
	// 1. handshake: every mode, truncations around every fixed-size read, wrong version byte, extreme offset bytes
	for _, mode := range []string{"simple", "simple-rand", "complex0", "complex1", "complex-bad"} {
		hs := c04Handshake(r, mode)
		g.c04("hs-"+mode, c04Env, "0", hs)
		g.c04("hs-"+mode, c04Env, "r7", c04New(r, mode).pubPrefix().audio(0, 10).bytes())
	}
	hs := c04Handshake(r, "simple")
	for _, n := range []int{0, 1, 2, 1536, 1537, 1538, 3072} {
		g.c04("hs-trunc", c04Env, "0", hs[:n])
		g.c04("hs-trunc", c04Env, "1", hs[:n])
	}
	for _, v := range []byte{0, 2, 6, 0xff} {
		h2 := append([]byte(nil), hs...)
		h2[0] = v
		g.c04("hs-version", c04Env, "0", c04Cat(h2, c04Msg(3, 20, 0, 0, c04Connect("live"), 128)))
	}
	for _, fill := range []byte{0xff, 0x01, 0xb6} { // offset sums at their extremes: 4*255 = 1020, 4, 728
		h2 := bytes.Repeat([]byte{fill}, 3073)
		h2[0] = 3
		g.c04("hs-extreme-offs", c04Env, "0", h2)
	}
	for i := 0; i < g.scale(6, 60); i++ {
		h2 := c04Cat([]byte{3}, r.Bytes(3072))
		g.c04("hs-random", c04Env, "0", h2)
	}

	// 2. the plain sessions
	g.c04("pub-session", c04Env, "0", c04New(r, "simple").pubPrefix().meta().audio(0, 4).video(0, 300).audio(23, 5).video(40, 1000).bytes())
	g.c04("sub-session", c04Env, "0", c04New(r, "simple").subPrefix().bytes())
	g.c04("pub-session", c04Env, "1", c04New(r, "simple").pubPrefix().meta().audio(0, 4).video(0, 300).bytes())
	g.c04("pub-session", c04Env, "r3", c04New(r, "simple").setChunkSize(4096).pubPrefix().video(0, 5000).bytes())
	for _, env := range []string{"d.a.-", "n.a.-", "a.d.-"} {
		g.c04("env-"+env, env, "0", c04New(r, "simple").pubPrefix().meta().audio(0, 4).video(0, 30).bytes())
		g.c04("env-"+env, env, "0", c04New(r, "simple").subPrefix().msg(2, 4, 0, 0, []byte{0, 6, 0, 0, 0, 1}).bytes())
	}
	for k := 0; k <= 9; k++ {
		env := fmt.Sprintf("a.a.%d", k)
		g.c04("env-wfail", env, "0", c04New(r, "simple").msg(2, 4, 0, 0, []byte{0, 6, 0, 0, 0, 1}).pubPrefix().audio(0, 4).bytes())
		g.c04("env-wfail", env, "0", c04New(r, "simple").subPrefix().bytes())
	}

	// 3. A/V and data messages in every state (before publish: S5)
	for st := 0; st < 5; st++ {
		for _, typ := range []int{8, 9, 18} {
			for _, n := range []int{0, 1, 5} {
				p := r.Bytes(n)
				if typ == 18 {
					p = c04Cat(c04AmfStr("onMetaData"), r.Bytes(n))
				}
				g.c04("av-in-"+c04StateName[st], c04Env, "0", c04State(r, st).msg(6, typ, 1, 0, p).bytes())
			}
		}
		g.c04("data-sample-access-"+c04StateName[st], c04Env, "0", c04State(r, st).msg(5, 18, 1, 0, c04Cat(c04AmfStr("|RtmpSampleAccess"), []byte{1, 0, 1, 0})).bytes())
		g.c04("data-not-a-string-"+c04StateName[st], c04Env, "0", c04State(r, st).msg(5, 18, 1, 0, []byte{0, 1, 2}).bytes())
		g.c04("data-empty-"+c04StateName[st], c04Env, "0", c04State(r, st).msg(5, 18, 1, 0, nil).bytes())
	}

	// 4. short control messages: ALL truncations, every state
	for st := 0; st < 5; st++ {
		sn := c04StateName[st]
		for _, ev := range []int{0, 3, 6, 7, 0xffff} {
			full := c04Cat(c04Be(2, uint64(ev)), []byte{1, 2, 3, 4, 5, 6})
			for n := 0; n <= len(full); n++ {
				g.c04("userctl-"+sn, c04Env, "0", c04State(r, st).msg(2, 4, 0, 0, full[:n]).msg(2, 4, 0, 0, []byte{0, 6, 9, 9, 9, 9}).bytes())
			}
		}
		for _, typ := range []int{1, 2, 3, 5, 6} {
			for _, v := range []uint64{0, 1, 127, 128, 0x7fffffff, 0x80000000, 0xffffffff} {
				full := c04Cat(c04Be(4, v), []byte{2})
				for n := 0; n <= len(full); n++ {
					if typ == 1 && n >= 4 && (v == 0 || v > 1<<20) {
						// a following message would be framed with that chunk size; send a tiny one
						g.c04(fmt.Sprintf("ctl%d-%s", typ, sn), c04Env, "0", c04State(r, st).msg(2, typ, 0, 0, full[:n]).raw(c04Msg(2, 3, 0, 0, []byte{0, 0, 0, 1}, 1<<24)).bytes())
						continue
					}
					g.c04(fmt.Sprintf("ctl%d-%s", typ, sn), c04Env, "0", c04State(r, st).msg(2, typ, 0, 0, full[:n]).msg(2, 3, 0, 0, []byte{0, 0, 0, 1}).bytes())
				}
			}
		}
		// AMF3 command: empty, one byte, a whole command behind the format byte
		for _, p := range [][]byte{nil, {0}, {5}, c04Cat([]byte{0}, c04CreateStream()), c04Cat([]byte{0}, c04Connect("live")), c04Cat([]byte{0}, c04Publish("x")), c04CreateStream()} {
			g.c04("amf3-"+sn, c04Env, "0", c04State(r, st).msg(3, 17, 0, 0, p).bytes())
		}
	}

	// 5. every message type id, in every state, empty / short / longer payload
	for st := 0; st < 5; st++ {
		for typ := 0; typ < 256; typ++ {
			if st != 0 && st != 3 && typ > 24 && typ%16 != 0 && !g.thorough() {
				continue
			}
			n := []int{0, 1, 7, 20}[typ%4]
			p := r.Bytes(n)
			b := c04State(r, st)
			if typ == 1 && n >= 4 {
				p[0] &= 0x00
				p[1] &= 0x00
			}
			b.msg(4, typ, 1, 0, p)
			if typ != 1 {
				b.msg(2, 4, 0, 0, []byte{0, 6, 0, 0, 0, 1})
			}
			g.c04("every-type-"+c04StateName[st], c04Env, "0", b.bytes())
		}
	}

	// 6. chunk header formats, chunk stream id forms, extended timestamps, extreme length fields
	for f := 0; f < 4; f++ {
		for _, csid := range []int{2, 63, 64, 319, 320, 65599} {
			for _, ts := range []uint32{0, 0xfffffe, 0xffffff, 0xffffffff} {
				var w bytes.Buffer
				w.Write(c04Basic(f, csid))
				t := ts
				if t > 0xffffff {
					t = 0xffffff
				}
				if f <= 2 {
					w.Write(c04Be(3, uint64(t)))
				}
				if f <= 1 {
					w.Write(c04Be(3, 6))
					w.WriteByte(4)
				}
				if f == 0 {
					w.Write([]byte{0, 0, 0, 0})
				}
				if ts >= 0xffffff && f <= 2 {
					w.Write(c04Be(4, uint64(ts)))
				}
				w.Write([]byte{0, 6, 0, 0, 0, 7})
				g.c04(fmt.Sprintf("fmt%d-fresh-csid", f), c04Env, "0", c04New(r, "simple").raw(w.Bytes()).msg(2, 4, 0, 0, []byte{0, 6, 0, 0, 0, 1}).bytes())
				g.c04(fmt.Sprintf("fmt%d-used-csid", f), c04Env, "0", c04New(r, "simple").msg(csid, 4, 0, ts, []byte{0, 6, 0, 0, 0, 2}).raw(w.Bytes()).raw(w.Bytes()).bytes())
			}
		}
	}
	for _, ml := range []int{0, 1, 127, 128, 129, 0xffff, 0xffffff} {
		for _, typ := range []int{4, 8, 20, 22} {
			for _, have := range []int{0, 1, 128, 300} {
				g.c04("extreme-len", c04Env, "0", c04New(r, "simple").raw(c04MsgL(3, typ, 0, 0, r.Bytes(have), 128, ml)).bytes())
			}
		}
	}
	// message length shrinking / growing in the middle of a message (type 1 header on an open chunk stream)
	for _, l2 := range []int{0, 1, 100, 128, 129, 200, 400} {
		first := c04MsgL(3, 4, 0, 0, r.Bytes(128), 128, 300)
		var w bytes.Buffer
		w.Write(c04Basic(1, 3))
		w.Write(c04Be(3, 0))
		w.Write(c04Be(3, uint64(l2)))
		w.WriteByte(4)
		w.Write(r.Bytes(300))
		g.c04("len-change-mid-message", c04Env, "0", c04New(r, "simple").raw(first).raw(w.Bytes()).bytes())
	}
	// Set Chunk Size 0 / 1 / huge, then traffic
	for _, v := range []uint32{0, 1, 2, 0x7fffffff, 0xffffffff} {
		b := c04New(r, "simple")
		b.msg(2, 1, 0, 0, c04Be(4, uint64(v)))
		cs := int(v)
		if v == 0 || v > 1<<24 {
			cs = 1 << 24
		}
		b.raw(c04Msg(3, 20, 0, 0, c04Connect("live"), cs))
		g.c04("set-chunk-size-extreme", c04Env, "0", b.bytes())
	}

	// 7. aggregates (after the S25 fix sub-messages carry their payloads)
	for st := 0; st < 5; st++ {
		sn := c04StateName[st]
		a1 := c04SubMsg(8, 10, 1, []byte{0xaf, 1, 2, 3}, 4)
		v1 := c04SubMsg(9, 20, 1, []byte{0x27, 1, 0, 0, 0, 9}, 6)
		ping := c04SubMsg(4, 0, 0, []byte{0, 6, 0, 0, 0, 5}, 6)
		short := c04SubMsg(4, 0, 0, []byte{0}, 1)
		pub := c04SubMsg(20, 0, 1, c04Publish("agg"), len(c04Publish("agg")))
		nested := c04SubMsg(22, 0, 1, c04Aggregate(a1), len(c04Aggregate(a1)))
		scs := c04SubMsg(1, 0, 0, []byte{0, 0, 0, 1}, 4)
		over := c04SubMsg(8, 0, 1, []byte{1, 2}, 200)
		for i, agg := range [][]byte{
			c04Aggregate(a1), c04Aggregate(a1, v1, a1), c04Aggregate(ping, a1), c04Aggregate(ping, short, ping), c04Aggregate(pub, a1, v1),
			c04Aggregate(nested), c04Aggregate(scs, ping), c04Aggregate(over), c04Aggregate(ping)[:17+3], c04Aggregate(ping)[:10], c04Aggregate(ping, ping)[:17+4+5],
			c04Cat(c04Aggregate(ping), []byte{1}),
		} {
			g.c04(fmt.Sprintf("aggregate-%s", sn), c04Env, "0", c04State(r, st).msg(4, 22, 1, 100, agg).msg(2, 4, 0, 0, []byte{0, 6, 0, 0, 0, byte(i)}).bytes())
		}
	}

	// 8. second publish / play / connect on one connection, commands out of order
	g.c04("second-publish", c04Env, "0", c04New(r, "simple").pubPrefix().publish("s2").audio(0, 3).bytes())
	g.c04("publish-then-play", c04Env, "0", c04New(r, "simple").pubPrefix().play("s2").bytes())
	g.c04("second-play", c04Env, "0", c04New(r, "simple").subPrefix().play("s2").bytes())
	g.c04("play-then-publish", c04Env, "0", c04New(r, "simple").subPrefix().publish("s2").audio(0, 3).bytes())
	g.c04("second-publish", "d.a.-", "0", c04New(r, "simple").pubPrefix().publish("s2").bytes())
	g.c04("second-connect", c04Env, "0", c04New(r, "simple").connect().connect().createStream().createStream().bytes())
	g.c04("connect-after-publish", c04Env, "0", c04New(r, "simple").pubPrefix().connect().createStream().audio(0, 2).bytes())
	g.c04("publish-without-connect", c04Env, "0", c04New(r, "simple").publish("s").audio(0, 2).bytes())
	g.c04("play-without-connect", c04Env, "0", c04New(r, "simple").play("s").bytes())
	for _, name := range []string{"", "a?b=c", "a?b?c", "?", "a/b/../../c", string(bytes.Repeat([]byte{'n'}, 300)), string(bytes.Repeat([]byte{'n'}, 5000))} {
		g.c04("stream-name", c04Env, "0", c04New(r, "simple").connect().createStream().publish(name).audio(0, 2).bytes())
		g.c04("stream-name", c04Env, "0", c04New(r, "simple").connect().createStream().play(name).bytes())
	}

	// 9. command payloads: every truncation, wrong value types, unknown commands, deep nesting, long strings
	for _, cmd := range [][]byte{c04Connect("live"), c04CreateStream(), c04Publish("s1"), c04Play("s1")} {
		for n := 0; n <= len(cmd); n++ {
			if n > 40 && n < len(cmd)-8 && !g.thorough() && n%5 != 0 {
				continue
			}
			g.c04("command-truncated", c04Env, "0", c04New(r, "simple").connect().msg(3, 20, 0, 0, cmd[:n]).msg(2, 4, 0, 0, []byte{0, 6, 0, 0, 0, 1}).bytes())
		}
	}
	for _, name := range []string{"releaseStream", "FCPublish", "FCUnpublish", "getStreamLength", "deleteStream", "closeStream", "pause", "seek", "_checkbw", "", "Connect"} {
		g.c04("command-other", c04Env, "0", c04New(r, "simple").connect().msg(3, 20, 0, 0, c04Cat(c04AmfStr(name), c04AmfNum(c04One), []byte{5}, c04AmfStr("x"))).msg(2, 4, 0, 0, []byte{0, 6, 0, 0, 0, 1}).bytes())
	}
	long := func(n int) []byte { return c04Cat([]byte{0x0c}, c04Be(4, uint64(n)), bytes.Repeat([]byte{'q'}, n)) }
	for _, obj := range [][]byte{
		c04AmfObj(), // no app
		c04AmfObj(c04Cat(c04AmfKey("app"), c04AmfNum(0))),
		c04AmfObj(c04Cat(c04AmfKey("app"), c04AmfNum(0)), c04Cat(c04AmfKey("app"), c04AmfStr("second"))),
		c04AmfObj(c04Cat(c04AmfKey("app"), c04AmfStr("live")), c04Cat(c04AmfKey("tcUrl"), []byte{1, 1}), c04Cat(c04AmfKey("objectEncoding"), c04AmfStr("3"))),
		c04AmfObj(c04Cat(c04AmfKey("app"), c04AmfStr("live")), c04Cat(c04AmfKey("objectEncoding"), c04AmfNum(0x4008000000000000))),
		c04AmfObj(c04Cat(c04AmfKey("app"), c04AmfStr("live")), c04Cat(c04AmfKey("objectEncoding"), c04AmfNum(0x7ff8000000000001))), // NaN
		c04AmfObj(c04Cat(c04AmfKey("app"), c04AmfStr("live")), c04Cat(c04AmfKey("objectEncoding"), c04AmfNum(0x7ff0000000000000))), // +Inf
		c04AmfObj(c04Cat(c04AmfKey("app"), long(70000))),
		c04AmfObj(c04Cat(c04AmfKey("app"), c04AmfStr(string(bytes.Repeat([]byte{'a'}, 65535))))),
		c04AmfObj(c04Cat(c04AmfKey("app"), c04AmfStr("live")), c04Cat(c04AmfKey("o"), c04AmfObj(c04Cat(c04AmfKey("a"), []byte{0x0a, 0, 0, 0, 2, 5, 6})))),
		{8, 0, 0, 0, 1, 0, 3, 'a', 'p', 'p', 2, 0, 1, 'x', 0, 0, 9}, // ECMA array instead of object
		{5},
	} {
		b := c04New(r, "simple").setChunkSize(1 << 20)
		g.c04("connect-object", c04Env, "0", b.msg(3, 20, 0, 0, c04Cat(c04AmfStr("connect"), c04AmfNum(c04One), obj)).createStream().bytes())
	}
	for _, tid := range []uint64{0, 0x7ff8000000000001, 0x7ff0000000000000, 0xfff0000000000000, 0x43e0000000000000, 0xc3e0000000000001, 0x7fefffffffffffff} {
		g.c04("tid-extreme", c04Env, "0", c04New(r, "simple").msg(3, 20, 0, 0, c04Cat(c04AmfStr("connect"), c04AmfNum(tid), c04AmfObj(c04Cat(c04AmfKey("app"), c04AmfStr("live"))))).
			msg(3, 20, 0, 0, c04Cat(c04AmfStr("createStream"), c04AmfNum(tid), []byte{5})).bytes())
	}
	for _, depth := range []int{31, 32, 33, 40, 2000, g.scale(20000, 200000)} {
		var o []byte
		for i := 0; i < depth; i++ {
			o = append(o, 3, 0, 1, 'k')
		}
		o = append(o, 5)
		for i := 0; i < depth; i++ {
			o = append(o, 0, 0, 9)
		}
		b := c04New(r, "simple").setChunkSize(1 << 24)
		g.c04("connect-nested", c04Env, "0", b.msg(3, 20, 0, 0, c04Cat(c04AmfStr("connect"), c04AmfNum(c04One), o)).bytes())
		var sa []byte
		for i := 0; i < depth; i++ {
			sa = append(sa, 0x0a, 0, 0, 0, 1)
		}
		sa = append(sa, 5)
		b = c04New(r, "simple").setChunkSize(1 << 24)
		g.c04("connect-nested", c04Env, "0", b.msg(3, 20, 0, 0, c04Cat(c04AmfStr("connect"), c04AmfNum(c04One), c04AmfObj(c04Cat(c04AmfKey("app"), c04AmfStr("live")), c04Cat(c04AmfKey("z"), sa)))).bytes())
	}
	// long strings (marker 0x0c) whose 32-bit length field promises far more than is there, up to the values
	// where 4 + length wraps around
	for _, ln := range []uint64{0xffffffff, 0xfffffffe, 0xfffffffd, 0xfffffffc, 0xfffffffb, 0x80000000, 0x7fffffff, 0x7ffffffc, 0x10000, 5, 4, 3} {
		lie := c04Cat([]byte{0x0c}, c04Be(4, ln), []byte("qq"))
		lie4 := c04Cat([]byte{0x0c}, c04Be(4, ln), []byte("qqqq"))
		for _, v := range [][]byte{lie, lie4} {
			g.c04("long-string-lies", c04Env, "0", c04New(r, "simple").msg(3, 20, 0, 0, c04Cat(c04AmfStr("connect"), c04AmfNum(c04One), c04AmfObj(c04Cat(c04AmfKey("app"), v)))).msg(2, 4, 0, 0, []byte{0, 6, 0, 0, 0, 1}).bytes())
			g.c04("long-string-lies", c04Env, "0", c04New(r, "simple").connect().msg(3, 20, 0, 0, c04Cat(v, c04AmfNum(c04One), []byte{5})).msg(2, 4, 0, 0, []byte{0, 6, 0, 0, 0, 1}).bytes())
			for _, cmd := range []string{"publish", "play"} {
				b := c04New(r, "simple").connect().createStream()
				g.c04("long-string-lies", c04Env, "0", b.msg(5, 20, 1, 0, c04Cat(c04AmfStr(cmd), c04AmfNum(0), []byte{5}, v)).msg(2, 4, 0, 0, []byte{0, 6, 0, 0, 0, 1}).bytes())
			}
		}
	}
	// publish / play argument shapes
	for _, tail := range [][]byte{nil, {5}, {6}, c04Cat([]byte{5}, c04AmfNum(0)), c04Cat([]byte{5}, c04AmfStr("s")), c04Cat([]byte{5}, long(70000), c04AmfStr("live")),
		c04Cat([]byte{5}, c04AmfStr("s"), c04AmfNum(0)), c04Cat([]byte{5}, c04AmfStr("s"), []byte{2, 0xff}), c04Cat([]byte{5}, []byte{2, 0, 5, 'a'})} {
		for _, cmd := range []string{"publish", "play"} {
			b := c04New(r, "simple").setChunkSize(1 << 20).connect().createStream()
			g.c04("pubplay-args", c04Env, "0", b.msg(5, 20, 1, 0, c04Cat(c04AmfStr(cmd), c04AmfNum(0), tail)).msg(2, 4, 0, 0, []byte{0, 6, 0, 0, 0, 1}).bytes())
		}
	}

	// 10. acknowledgement window: after a Window Acknowledgement Size the session acknowledges every 2.5 MB read
	{
		b := c04New(r, "simple").msg(2, 5, 0, 0, c04Be(4, 1000)).setChunkSize(1 << 24)
		big := make([]byte, 2600000)
		b.msg(4, 15, 0, 0, big).msg(2, 4, 0, 0, []byte{0, 6, 0, 0, 0, 1})
		b.msg(4, 15, 0, 0, big[:1000]).msg(4, 15, 0, 0, big).msg(4, 15, 0, 0, nil)
		g.c04("ack-window", c04Env, "0", b.bytes())
		b2 := c04New(r, "simple").msg(2, 5, 0, 0, c04Be(4, 0)).setChunkSize(1 << 24)
		b2.msg(4, 15, 0, 0, big).msg(2, 4, 0, 0, []byte{0, 6, 0, 0, 0, 1})
		g.c04("ack-window-zero", c04Env, "0", b2.bytes())
		b3 := c04New(r, "simple").msg(2, 5, 0, 0, c04Be(4, 1)).setChunkSize(1 << 24).pubPrefix()
		b3.msg(4, 15, 0, 0, big).audio(0, 3).msg(4, 15, 0, 0, big).audio(0, 3)
		g.c04("ack-window-pub", c04Env, "0", b3.bytes())
		g.c04("ack-window-wfail", "a.a.1", "0", b.bytes())
	}

	// ---------------- seeded part -----------------------------------------------------------------------------------
	frags := func() string {
		switch r.Intn(4) {
		case 0:
			return "0"
		case 1:
			return fmt.Sprint(1 + r.Intn(5))
		case 2:
			return fmt.Sprint(100 + r.Intn(5000))
		}
		return fmt.Sprintf("r%d", r.Intn(1000))
	}
	envs := func() string {
		if r.Intn(4) != 0 {
			return c04Env
		}
		w := "-"
		if r.Intn(3) == 0 {
			w = fmt.Sprint(r.Intn(10))
		}
		return fmt.Sprintf("%c.%c.%s", "adn"[r.Intn(3)], "ad"[r.Intn(2)], w)
	}
	// a valid session of random shape
	valid := func() []byte {
		b := c04New(r, []string{"simple", "simple", "simple-rand", "complex0", "complex1"}[r.Intn(5)])
		if r.Bool() {
			b.setChunkSize(uint32(r.Pick(1, 64, 128, 4096, 60000)))
		}
		if r.Intn(3) == 0 {
			b.msg(2, 5, 0, 0, c04Be(4, 2500000))
		}
		b.connect()
		if r.Bool() {
			b.msg(3, 20, 0, 0, c04Cat(c04AmfStr("releaseStream"), c04AmfNum(0x4000000000000000), []byte{5}, c04AmfStr("s1")))
			b.msg(3, 20, 0, 0, c04Cat(c04AmfStr("FCPublish"), c04AmfNum(0x4008000000000000), []byte{5}, c04AmfStr("s1")))
		}
		b.createStream()
		if r.Intn(3) == 0 {
			b.play("s1?token=1")
			for i := r.Intn(4); i > 0; i-- {
				b.msg(2, 4, 0, 0, c04Cat([]byte{0, byte(r.Pick(3, 6, 7))}, r.Bytes(4+r.Intn(5))))
			}
			return b.bytes()
		}
		b.publish("s1?k=v")
		if r.Bool() {
			b.meta()
		}
		ts := uint32(r.Pick(0, 0, 0xfffff0, 0xfffffff0))
		for i := r.Intn(8); i > 0; i-- {
			switch r.Intn(5) {
			case 0:
				b.audio(ts, r.Around(0, 10, 128, 300))
			case 1:
				b.video(ts, r.Around(0, 128, 1000, 5000))
			case 2:
				b.msg(2, 4, 0, 0, c04Cat([]byte{0, 6}, r.Bytes(4)))
			case 3:
				b.msg(4, 22, 1, ts, c04Aggregate(c04SubMsg(8, ts, 1, []byte{0xaf, 1, 3}, 3), c04SubMsg(9, ts+5, 1, []byte{0x27, 1, 0, 0, 0}, 5)))
			case 4:
				b.msg(2, 3, 0, 0, c04Be(4, uint64(r.U64()&0xffffffff)))
			}
			ts += uint32(r.Intn(50))
		}
		return b.bytes()
	}
	// 12. the message packer's Buffer (S20: grow doubled once whatever the need)
	for _, sc := range []string{"m12,w1,w2,w7", "m12,w244", "m12,w245", "m12,w500", "m12,w501", "m12,w737,w1", "m12,w100000,b", "w256,b", "w257", "m12,w244,b", "m12,w244,w0,b,b",
		"m12,w1000,r,m12,w3000", "w0", "b", "m256,b", "m256,w1", "m300,w1", "m300,b", "m12,w4,b,r,m12,w2,w4"} {
		for _, c := range []int{0, 1, 128, 256} {
			g.L("packer-buffer").run(fmt.Sprintf("rtmp.pbuf %d %s", c, sc))
		}
	}
	for i := 0; i < g.scale(60, 3000); i++ {
		var sc []string
		for k := 1 + r.Intn(8); k > 0; k-- {
			switch r.Intn(6) {
			case 0:
				sc = append(sc, "b")
			case 1:
				sc = append(sc, "m12")
			case 2:
				sc = append(sc, "r")
			default:
				sc = append(sc, fmt.Sprintf("w%d", r.Around(0, 1, 100, 256, 512, 3000)))
			}
		}
		g.L("packer-buffer").run(fmt.Sprintf("rtmp.pbuf %d %s", r.Pick(0, 1, 100, 128, 256), joinC04(sc)))
	}

	// 11. level L2: a real rtmp.Server on loopback TCP in a child process; a healthy connection must still be served
	srv := func(label, env string, stream []byte) {
		g.L("srv-" + label).run(fmt.Sprintf("rtmp.srv %s %s", env, c04ShowStream(stream)))
	}
	srv("pub-session", "a.a", c04New(r, "simple").pubPrefix().meta().audio(0, 4).video(0, 300).bytes())
	srv("sub-session", "a.a", c04New(r, "simple").subPrefix().bytes())
	srv("pub-denied", "d.a", c04New(r, "simple").pubPrefix().audio(0, 4).bytes())
	srv("sub-denied", "a.d", c04New(r, "simple").subPrefix().bytes())
	srv("pub-no-av-observer", "n.a", c04New(r, "simple").pubPrefix().audio(0, 4).bytes())
	srv("complex-handshake", "a.a", c04New(r, "complex1").pubPrefix().audio(0, 4).bytes())
	srv("handshake-only", "a.a", c04Handshake(r, "simple")[:1000])
	srv("userctl-1-byte", "a.a", c04New(r, "simple").msg(2, 4, 0, 0, []byte{0}).bytes())
	srv("ping-5-bytes", "a.a", c04New(r, "simple").pubPrefix().msg(2, 4, 0, 0, []byte{0, 6, 1, 2, 3}).bytes())
	srv("audio-before-publish", "a.a", c04New(r, "simple").connect().audio(0, 4).bytes())
	srv("aggregate-av-before-publish", "a.a", c04New(r, "simple").connect().msg(4, 22, 1, 0, c04Aggregate(c04SubMsg(9, 0, 1, []byte{0x17, 0}, 2))).bytes())
	srv("second-publish", "a.a", c04New(r, "simple").pubPrefix().publish("s2").bytes())
	srv("publish-then-play", "a.a", c04New(r, "simple").pubPrefix().play("s2").bytes())
	srv("second-play", "a.a", c04New(r, "simple").subPrefix().play("s2").bytes())
	srv("amf3-empty", "a.a", c04New(r, "simple").msg(3, 17, 0, 0, nil).bytes())
	srv("winack-3-bytes", "a.a", c04New(r, "simple").msg(2, 5, 0, 0, []byte{0, 0, 1}).bytes())
	srv("random", "a.a", c04New(r, "simple").connect().raw(r.Bytes(300)).bytes())
	{
		// deep AMF nesting in the child process: a stack fault (fatal, not recoverable) would show as `dead`
		depth := g.scale(100000, 4000000)
		var sa []byte
		for i := 0; i < depth; i++ {
			sa = append(sa, 0x0a, 0, 0, 0, 1)
		}
		sa = append(sa, 5)
		var o []byte
		for i := 0; i < depth; i++ {
			o = append(o, 3, 0, 1, 'k')
		}
		for _, v := range [][]byte{sa, o} {
			b := c04New(r, "simple").setChunkSize(1 << 24)
			for len(v) > 0 { // messages are at most 2^24-1 bytes: send the nest as the value of `z` in a connect object, in one message when it fits
				n := len(v)
				if n > 16000000 {
					n = 16000000
				}
				b.msg(3, 20, 0, 0, c04Cat(c04AmfStr("connect"), c04AmfNum(c04One), []byte{3}, c04AmfKey("app"), c04AmfStr("live"), c04AmfKey("z"), v[:n]))
				v = v[n:]
			}
			srv("connect-nested-deep", "a.a", b.bytes())
		}
	}
	for i := 0; i < g.scale(6, 150); i++ {
		s := valid()
		body := s[3073:]
		for k := 1 + r.Intn(3); k > 0 && len(body) > 0; k-- {
			body[r.Intn(len(body))] = byte(r.Intn(256))
		}
		srv("mutated", []string{"a.a", "a.a", "d.a", "n.a", "a.d"}[r.Intn(5)], s)
	}

	for i := 0; i < g.scale(60, 1500); i++ {
		g.c04("valid-session", envs(), frags(), valid())
	}
	// mutations of valid sessions
	for i := 0; i < g.scale(250, 12000); i++ {
		s := valid()
		body := s[3073:]
		if len(body) == 0 {
			continue
		}
		label := ""
		switch r.Intn(6) {
		case 0:
			label = "mut-flip"
			for k := 1 + r.Intn(3); k > 0; k-- {
				body[r.Intn(len(body))] ^= byte(1 << uint(r.Intn(8)))
			}
		case 1:
			label = "mut-byte"
			for k := 1 + r.Intn(3); k > 0; k-- {
				body[r.Intn(len(body))] = byte(r.Pick(0, 1, 2, 3, 0x7f, 0x80, 0xff, r.Intn(256)))
			}
		case 2:
			label = "mut-truncate"
			s = s[:3073+r.Intn(len(body))]
		case 3:
			label = "mut-delete"
			a := r.Intn(len(body))
			n := 1 + r.Intn(12)
			if a+n > len(body) {
				n = len(body) - a
			}
			s = append(s[:3073+a], s[3073+a+n:]...)
		case 4:
			label = "mut-insert"
			a := 3073 + r.Intn(len(body))
			s = c04Cat(s[:a], r.Bytes(1+r.Intn(8)), s[a:])
		case 5:
			label = "mut-splice"
			o := valid()[3073:]
			if len(o) > 0 {
				a := r.Intn(len(body))
				c := r.Intn(len(o))
				s = c04Cat(s[:3073+a], o[c:])
			}
		}
		g.c04(label, envs(), frags(), s)
	}
	// mutated handshake region
	for i := 0; i < g.scale(20, 400); i++ {
		s := valid()
		for k := 1 + r.Intn(8); k > 0; k-- {
			s[r.Intn(3073)] = byte(r.Intn(256))
		}
		g.c04("mut-handshake", c04Env, frags(), s)
	}
	// random and marker-rich bytes after a handshake, in every state
	for i := 0; i < g.scale(150, 8000); i++ {
		b := c04State(r, r.Intn(5))
		n := r.Around(1, 12, 20, 140, 600)
		junk := r.Bytes(n)
		if n > 0 && r.Bool() {
			// plausible chunk header: fmt 0, small csid, short length, a type id that has a handler
			junk[0] = byte(2 + r.Intn(6))
			if n >= 12 {
				junk[4], junk[5] = 0, 0
				junk[6] = byte(r.Intn(n))
				junk[7] = byte(r.Pick(1, 3, 4, 5, 8, 9, 17, 18, 20, 22))
			}
		}
		g.c04("random-after-"+c04StateName[r.Intn(5)], envs(), frags(), b.raw(junk).bytes())
	}
	// command messages whose AMF body is random / marker rich
	for i := 0; i < g.scale(150, 8000); i++ {
		st := r.Intn(5)
		n := r.Around(0, 3, 12, 40, 200)
		p := r.Bytes(n)
		for k := range p {
			if r.Intn(3) == 0 {
				p[k] = byte(r.Pick(0, 1, 2, 3, 5, 6, 8, 9, 0x0a, 0x0c, 0))
			}
		}
		head := [][]byte{nil, c04AmfStr("connect"), c04Cat(c04AmfStr("connect"), c04AmfNum(0)), c04Cat(c04AmfStr("publish"), c04AmfNum(0)),
			c04Cat(c04AmfStr("play"), c04AmfNum(0), []byte{5}), c04Cat(c04AmfStr("connect"), c04AmfNum(0), []byte{3})}[r.Intn(6)]
		typ := r.Pick(20, 20, 17, 18)
		if typ == 17 {
			head = c04Cat([]byte{0}, head)
		}
		g.c04("amf-junk-"+c04StateName[st], envs(), frags(), c04State(r, st).msg(3, typ, 1, 0, c04Cat(head, p)).msg(2, 4, 0, 0, []byte{0, 6, 0, 0, 0, 1}).bytes())
	}
}

func joinC04(a []string) string {
	out := ""
	for i, x := range a {
		if i > 0 {
			out += ","
		}
		out += x
	}
	return out
}
