package main

// C15 — "a stalled consumer cannot delay others or corrupt its own framing".
//
// L1 harness: REAL subscriber session objects (rtmp.ServerSession brought to the play state by a
// minimal client, httpflv.SubSession plain + WebSocket, httpts.SubSession plain + WebSocket,
// rtsp.SubSession over interleaved TCP plain + WebSocket) over a net.Conn whose reader stops and
// resumes reading on command (c15Conn: a gate in front of Write). The asynchronous write queue of
// naza's connection is observed, not shadowed:
//   * its occupancy is len(wChan), read by reflection;
//   * "the writer goroutine is parked" (in the gate, or idle in its select) is read from the
//     goroutine dump, so every event ends in a state from which the next event's outcome is
//     determined (no sleeps, no timing assumptions).

import (
	"errors"
	"fmt"
	"net"
	"reflect"
	"runtime"
	"strings"
	"sync"
	"time"

	"github.com/q191201771/lal/pkg/base"
	"github.com/q191201771/lal/pkg/httpflv"
	"github.com/q191201771/lal/pkg/httpts"
	"github.com/q191201771/lal/pkg/rtmp"
	"github.com/q191201771/lal/pkg/rtprtcp"
	"github.com/q191201771/lal/pkg/rtsp"
	"github.com/q191201771/lal/pkg/sdp"
)

// ---------------------------------------------------------------------------------------------------------------------
// the consumer's socket
// ---------------------------------------------------------------------------------------------------------------------

var errC15Timeout = errors.New("c15: write failed (timeout / reset injected by the harness)")

type c15Conn struct {
	mu       sync.Mutex
	cond     *sync.Cond
	open     bool // the consumer is reading: writes complete at once
	passes   int  // writes allowed to complete while the consumer is stalled
	failAt   int  // >= 0: the blocked write fails after that many bytes
	waiting  bool // a Write is parked in the gate
	got      []byte
	nWrites  int
	closed   bool
	in       []byte // bytes the peer sent (RTMP handshake and commands)
	inClosed bool
}

func newC15Conn() *c15Conn {
	c := &c15Conn{open: true, failAt: -1}
	c.cond = sync.NewCond(&c.mu)
	return c
}

func (c *c15Conn) Read(b []byte) (int, error) {
	c.mu.Lock()
	defer c.mu.Unlock()
	for len(c.in) == 0 && !c.closed && !c.inClosed {
		c.cond.Wait()
	}
	if len(c.in) == 0 {
		return 0, net.ErrClosed
	}
	n := copy(b, c.in)
	c.in = c.in[n:]
	return n, nil
}

func (c *c15Conn) feed(b []byte) {
	c.mu.Lock()
	c.in = append(c.in, b...)
	c.mu.Unlock()
	c.cond.Broadcast()
}

// Write is what naza's connection calls, from its writer goroutine when the connection is
// asynchronous. It parks while the consumer is stalled.
func (c *c15Conn) Write(b []byte) (int, error) {
	c.mu.Lock()
	defer c.mu.Unlock()
	for !c.open && c.passes == 0 && c.failAt < 0 && !c.closed {
		c.waiting = true
		c.cond.Wait()
	}
	c.waiting = false
	if c.closed {
		return 0, net.ErrClosed
	}
	if c.failAt >= 0 {
		k := c.failAt
		if k > len(b) {
			k = len(b)
		}
		c.failAt = -1
		c.got = append(c.got, b[:k]...)
		return k, errC15Timeout
	}
	if !c.open {
		c.passes--
	}
	c.got = append(c.got, b...)
	c.nWrites++
	return len(b), nil
}

func (c *c15Conn) Close() error {
	c.mu.Lock()
	c.closed = true
	c.mu.Unlock()
	c.cond.Broadcast()
	return nil
}
func (c *c15Conn) LocalAddr() net.Addr                { return fakeAddr{} }
func (c *c15Conn) RemoteAddr() net.Addr               { return fakeAddr{} }
func (c *c15Conn) SetDeadline(t time.Time) error      { return nil }
func (c *c15Conn) SetReadDeadline(t time.Time) error  { return nil }
func (c *c15Conn) SetWriteDeadline(t time.Time) error { return nil }

func (c *c15Conn) setOpen(open bool) {
	c.mu.Lock()
	c.open = open
	c.mu.Unlock()
	c.cond.Broadcast()
}
func (c *c15Conn) pass() {
	c.mu.Lock()
	c.passes++
	c.mu.Unlock()
	c.cond.Broadcast()
}
func (c *c15Conn) fail(k int) {
	c.mu.Lock()
	c.failAt = k
	c.mu.Unlock()
	c.cond.Broadcast()
}
func (c *c15Conn) isWaiting() bool {
	c.mu.Lock()
	defer c.mu.Unlock()
	return c.waiting
}
func (c *c15Conn) isClosed() bool {
	c.mu.Lock()
	defer c.mu.Unlock()
	return c.closed
}
func (c *c15Conn) received() []byte {
	c.mu.Lock()
	defer c.mu.Unlock()
	return append([]byte(nil), c.got...)
}
func (c *c15Conn) resetReceived() {
	c.mu.Lock()
	c.got = nil
	c.mu.Unlock()
}

// ---------------------------------------------------------------------------------------------------------------------
// observation of naza's asynchronous writer
// ---------------------------------------------------------------------------------------------------------------------

// c15Settle returns when every connection writer goroutine (naza connection.runWriteLoop) is
// parked: either inside a c15Conn gate (the consumer is stalled) or idle in its select with an
// empty queue. From such a state nothing moves until the harness acts.
func c15Settle() {
	deadline := time.Now().Add(10 * time.Second)
	buf := make([]byte, 1<<18)
	for {
		n := runtime.Stack(buf, true)
		for n == len(buf) {
			buf = make([]byte, 2*len(buf))
			n = runtime.Stack(buf, true)
		}
		settled := true
		for _, blk := range strings.Split(string(buf[:n]), "\n\n") {
			// the writer goroutines are the ones naza's connection package starts (connection.New /
			// ModWriteChanSize); one that has not run yet shows only its go-statement wrapper
			if !strings.Contains(blk, "created by github.com/q191201771/naza/pkg/connection.") {
				continue
			}
			state := ""
			if i := strings.IndexByte(blk, '['); i >= 0 {
				if j := strings.IndexByte(blk[i:], ']'); j >= 0 {
					state = blk[i+1 : i+j]
				}
			}
			inGate := strings.Contains(blk, "(*c15Conn).Write")
			switch {
			case inGate && strings.HasPrefix(state, "sync.Cond.Wait"):
			case !inGate && strings.HasPrefix(state, "select") && strings.Contains(blk, "connection.(*connection).runWriteLoop"):
			default:
				settled = false
			}
		}
		if settled {
			return
		}
		if time.Now().After(deadline) {
			panic("c15: connection writers did not settle")
		}
		runtime.Gosched()
		time.Sleep(20 * time.Microsecond)
	}
}

// c15ChanOf finds the write queue (chan wMsg) of the naza connection behind a session object.
// path = the unexported fields leading from the session to its connection.Connection.
func c15ChanOf(sess interface{}, path ...string) reflect.Value {
	v := reflect.ValueOf(sess)
	for _, f := range path {
		for v.Kind() == reflect.Ptr || v.Kind() == reflect.Interface {
			v = v.Elem()
		}
		v = v.FieldByName(f)
		if !v.IsValid() {
			panic("c15: field " + f + " not found (lal/naza layout changed)")
		}
	}
	for v.Kind() == reflect.Ptr || v.Kind() == reflect.Interface {
		v = v.Elem()
	}
	ch := v.FieldByName("wChan")
	if !ch.IsValid() || ch.Kind() != reflect.Chan {
		panic("c15: naza connection has no wChan")
	}
	return ch
}

// ---------------------------------------------------------------------------------------------------------------------
// one subscriber of any protocol
// ---------------------------------------------------------------------------------------------------------------------

const c15WsKey = "dGhlIHNhbXBsZSBub25jZQ=="

var c15Sdp = "v=0\r\no=- 0 0 IN IP6 ::1\r\ns=No Name\r\nc=IN IP6 ::1\r\nt=0 0\r\na=tool:libavformat 57.83.100\r\n" +
	"m=video 0 RTP/AVP 96\r\nb=AS:212\r\na=rtpmap:96 H264/90000\r\n" +
	"a=fmtp:96 packetization-mode=1; sprop-parameter-sets=Z2QAIKzZQMApsBEAAAMAAQAAAwAyDxgxlg==,aOvssiw=; profile-level-id=640020\r\n" +
	"a=control:streamid=0\r\nm=audio 0 RTP/AVP 97\r\nb=AS:30\r\na=rtpmap:97 MPEG4-GENERIC/44100/2\r\n" +
	"a=fmtp:97 profile-level-id=1;mode=AAC-hbr;sizelength=13;indexlength=3;indexdeltalength=3; config=1210\r\n" +
	"a=control:streamid=1\r\n"

// interleaved channels the harness sets up: video RTP 0 / RTCP 1, audio RTP 2 / RTCP 3
const (
	c15VideoCh = 0
	c15AudioCh = 2
)

type c15Sub struct {
	proto string
	conn  *c15Conn
	fs    *httpflv.SubSession
	ts    *httpts.SubSession
	rs    *rtmp.ServerSession
	rc    *rtsp.ServerCommandSession
	rsub  *rtsp.SubSession
	ch    reflect.Value // the write queue; invalid while the connection is synchronous
}

type c15RtmpObserver struct{ played chan *rtmp.ServerSession }

func (o *c15RtmpObserver) OnRtmpConnect(session *rtmp.ServerSession, opa rtmp.ObjectPairArray) {}
func (o *c15RtmpObserver) OnNewRtmpPubSession(session *rtmp.ServerSession) error          { return nil }
func (o *c15RtmpObserver) OnNewRtmpSubSession(session *rtmp.ServerSession) error {
	o.played <- session
	return nil
}

// c15Amf builds an AMF0 command: name, transaction id, then raw pre-encoded arguments.
func c15AmfStr(s string) []byte {
	return append([]byte{2, byte(len(s) >> 8), byte(len(s))}, s...)
}
func c15AmfNum(tid byte) []byte {
	// small integers 1..3 as IEEE-754 doubles
	switch tid {
	case 1:
		return []byte{0, 0x3f, 0xf0, 0, 0, 0, 0, 0, 0}
	case 2:
		return []byte{0, 0x40, 0x00, 0, 0, 0, 0, 0, 0}
	default:
		return []byte{0, 0x40, 0x08, 0, 0, 0, 0, 0, 0}
	}
}

// c15Chunk0 frames one message (shorter than the 128-byte default chunk size) as a single type-0 chunk.
func c15Chunk0(csid byte, typ byte, msid byte, payload []byte) []byte {
	if len(payload) > 128 {
		panic("c15: command longer than one chunk")
	}
	h := []byte{csid, 0, 0, 0, 0, byte(len(payload) >> 8), byte(len(payload)), typ, msid, 0, 0, 0}
	return append(h, payload...)
}

// c15RtmpPlay brings a real rtmp.ServerSession to the subscriber state over conn, the way a
// player does: simple handshake, connect, createStream, play. Returns after doPlay switched the
// connection to asynchronous writes (modConnProps) and called the observer.
func c15RtmpPlay(conn *c15Conn) *rtmp.ServerSession {
	obs := &c15RtmpObserver{played: make(chan *rtmp.ServerSession, 1)}
	s := rtmp.NewServerSession(obs, conn)
	go func() { _ = s.RunLoop() }()
	c0c1 := make([]byte, 1537)
	c0c1[0] = 3
	conn.feed(c0c1)
	conn.feed(make([]byte, 1536)) // C2
	var connect []byte
	connect = append(connect, c15AmfStr("connect")...)
	connect = append(connect, c15AmfNum(1)...)
	connect = append(connect, 3)
	connect = append(connect, 0, 3, 'a', 'p', 'p')
	connect = append(connect, c15AmfStr("live")...)
	connect = append(connect, 0, 5, 't', 'c', 'U', 'r', 'l')
	connect = append(connect, c15AmfStr("rtmp://h/live")...)
	connect = append(connect, 0, 0, 9)
	conn.feed(c15Chunk0(3, 20, 0, connect))
	var cs []byte
	cs = append(cs, c15AmfStr("createStream")...)
	cs = append(cs, c15AmfNum(2)...)
	cs = append(cs, 5)
	conn.feed(c15Chunk0(3, 20, 0, cs))
	var play []byte
	play = append(play, c15AmfStr("play")...)
	play = append(play, c15AmfNum(3)...)
	play = append(play, 5)
	play = append(play, c15AmfStr("s")...)
	conn.feed(c15Chunk0(8, 20, 1, play))
	select {
	case <-obs.played:
	case <-time.After(10 * time.Second):
		panic("c15: rtmp session did not reach play")
	}
	return s
}

func c15NewSub(proto string, cap int) *c15Sub {
	conn := newC15Conn()
	sub := &c15Sub{proto: proto, conn: conn}
	switch proto {
	case "flv", "wsflv":
		old := httpflv.SubSessionWriteChanSize
		httpflv.SubSessionWriteChanSize = cap
		sub.fs = httpflv.NewSubSession(conn, base.UrlContext{}, proto == "wsflv", c15WsKey)
		httpflv.SubSessionWriteChanSize = old
		sub.ch = c15ChanOf(sub.fs, "core", "conn")
	case "ts", "wsts":
		old := httpts.SubSessionWriteChanSize
		httpts.SubSessionWriteChanSize = cap
		sub.ts = httpts.NewSubSession(conn, base.UrlContext{}, proto == "wsts", c15WsKey)
		httpts.SubSessionWriteChanSize = old
		sub.ch = c15ChanOf(sub.ts, "core", "conn")
	case "rtmp":
		old := rtmp.VerifSetWChanSize(cap)
		sub.rs = c15RtmpPlay(conn)
		rtmp.VerifSetWChanSize(old)
		sub.ch = c15ChanOf(sub.rs, "conn")
	case "rtsp", "wsrtsp":
		old := rtsp.VerifSetServerCommandSessionWriteChanSize(cap)
		sub.rc = rtsp.NewServerCommandSession(nil, conn, rtsp.ServerAuthConfig{}, proto == "wsrtsp", c15WsKey)
		rtsp.VerifSetServerCommandSessionWriteChanSize(old)
		sub.rsub = rtsp.NewSubSession(base.UrlContext{}, sub.rc)
		ctx, err := sdp.ParseSdp2LogicContext([]byte(c15Sdp))
		if err != nil {
			panic(err)
		}
		sub.rsub.InitWithSdp(ctx)
		if err := sub.rsub.SetupWithChannel("rtsp://h/live/s/streamid=0", c15VideoCh, c15VideoCh+1); err != nil {
			panic(err)
		}
		if err := sub.rsub.SetupWithChannel("rtsp://h/live/s/streamid=1", c15AudioCh, c15AudioCh+1); err != nil {
			panic(err)
		}
		sub.rsub.Stage.Store(rtsp.SubSessionStageReadPlay)
		sub.ch = c15ChanOf(sub.rc, "conn")
	default:
		panic("c15: unknown protocol " + proto)
	}
	c15Settle()
	conn.resetReceived() // RTMP: handshake and command replies (random S1) are not part of the comparison
	return sub
}

func (s *c15Sub) qlen() int {
	if !s.ch.IsValid() || s.ch.IsNil() {
		return -1
	}
	return s.ch.Len()
}

// c15Guard runs one call into lal under a watchdog: a call that does not return is a BLOCKED
// fan-out (the property's first clause) and is reported as such instead of hanging the harness.
func c15Guard(f func() string) string {
	done := make(chan string, 1)
	go func() { done <- protect(f) }()
	select {
	case r := <-done:
		return r
	case <-time.After(5 * time.Second):
		return "BLOCKED"
	}
}

func c15Err(err error) string {
	if err == nil {
		return "0"
	}
	return "1"
}

// write hands one logical unit to the session exactly as the group's fan-out does.
func (s *c15Sub) write(kind string, args []string) string {
	return c15Guard(func() string {
		switch kind {
		case "H":
			if s.fs != nil {
				s.fs.WriteHttpResponseHeader()
			} else if s.ts != nil {
				s.ts.WriteHttpResponseHeader()
			} else {
				panic("H on " + s.proto)
			}
			return "-"
		case "F":
			s.fs.WriteFlvHeader()
			return "-"
		case "W":
			b := unhx(args[0])
			switch {
			case s.fs != nil:
				s.fs.Write(b)
			case s.ts != nil:
				s.ts.Write(b)
			case s.rs != nil:
				return c15Err(s.rs.Write(b))
			default:
				panic("W on " + s.proto)
			}
			return "-"
		case "V":
			var bs net.Buffers
			for _, h := range strings.Split(args[0], ",") {
				bs = append(bs, unhx(h))
			}
			return c15Err(s.rs.Writev(bs))
		case "P":
			var pkt rtprtcp.RtpPacket
			if args[0] == "a" {
				pkt.Header.PacketType = 97
			} else {
				pkt.Header.PacketType = 96
			}
			pkt.Raw = unhx(args[1])
			s.rsub.WriteRtpPacket(pkt)
			return "-"
		}
		panic("c15: unknown write " + kind)
	})
}

func (s *c15Sub) dispose() {
	switch {
	case s.fs != nil:
		_ = s.fs.Dispose()
	case s.ts != nil:
		_ = s.ts.Dispose()
	case s.rs != nil:
		_ = s.rs.Dispose()
	case s.rsub != nil:
		_ = s.rsub.Dispose()
	}
}

func (s *c15Sub) writeAlive() bool {
	var w bool
	switch {
	case s.fs != nil:
		_, w = s.fs.IsAlive()
	case s.ts != nil:
		_, w = s.ts.IsAlive()
	case s.rs != nil:
		_, w = s.rs.IsAlive()
	case s.rsub != nil:
		_, w = s.rsub.IsAlive()
	}
	return w
}

// releaseItem lets the consumer read exactly the queue item the writer is blocked on (one
// conn.Write for a Write item, one per buffer for a Writev item). Item boundaries are observed:
// after a completed conn.Write the writer parks again either on the SAME item (queue length
// unchanged) or on the NEXT one (queue one shorter) or goes idle.
func (s *c15Sub) releaseItem() {
	if !s.conn.isWaiting() {
		return
	}
	before := s.qlen()
	for i := 0; i < 64; i++ {
		s.conn.pass()
		c15Settle()
		if !s.conn.isWaiting() || s.qlen() != before {
			return
		}
	}
	panic("c15: an item of more than 64 buffers")
}

func (s *c15Sub) status() string {
	b := 0
	if s.conn.isWaiting() {
		b = 1
	}
	return fmt.Sprintf("q%db%d", s.qlen(), b)
}

// c15Event applies one consumer/writer-side event; returns the token for the output.
func (s *c15Sub) event(f []string) string {
	switch f[0] {
	case "S":
		s.conn.setOpen(false)
	case "R":
		s.conn.setOpen(true)
	case "r":
		s.releaseItem()
	case "X":
		if s.conn.isWaiting() {
			s.conn.fail(atoi(f[1]))
		}
	case "D":
		s.dispose()
	case "A":
		a := s.writeAlive()
		c15Settle()
		if a {
			return "a1"
		}
		return "a0"
	default:
		r := s.write(f[0], f[1:])
		c15Settle()
		return "w" + r + s.status()
	}
	c15Settle()
	return s.status()
}

func c15Closed(c *c15Conn) string {
	if c.isClosed() {
		return "1"
	}
	return "0"
}

// q.sess <proto> <cap> <ev;ev;...>  =>  <token per event>|<closed>|<bytes the consumer received>
func c15Sess(a []string) string {
	sub := c15NewSub(a[0], atoi(a[1]))
	var toks []string
	for _, e := range strings.Split(a[2], ";") {
		toks = append(toks, sub.event(strings.Split(e, ":")))
	}
	out := strings.Join(toks, ",") + "|" + c15Closed(sub.conn) + "|" + hx(sub.conn.received())
	sub.dispose()
	c15Settle()
	return out
}

func init() {
	ops["q.sess"] = c15Sess
	// q.sess0: the same run, answered by the driver with the PINNED tree's write path (WebSocket header and payload
	// as two queue items, Model/Queue.lean PreFix.subItems): agrees with a harness built from the pinned tree, not
	// with the fixed one. Replay only; no generator emits it.
	ops["q.sess0"] = c15Sess
	// q.il <channel> <rtp>  =>  rtsp.packInterleaved
	ops["q.il"] = func(a []string) string { return hx(rtsp.VerifPackInterleaved(atoi(a[0]), unhx(a[1]))) }
}
