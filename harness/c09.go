package main

import (
	"fmt"
	"go/ast"
	"go/parser"
	"go/token"
	"path/filepath"
	"strconv"
	"strings"

	"github.com/q191201771/lal/pkg/base"
	"github.com/q191201771/lal/pkg/mpegts"
)

// C09 — MPEG-TS packetisation (mpegts.Frame.Pack), PAT / PMT (mpegts.PackPat, PackPmt), CRC (mpegts.CalcCrc32).

func atou64(s string) uint64 {
	v, err := strconv.ParseUint(s, 10, 64)
	if err != nil {
		panic(err)
	}
	return v
}

func atoiSigned(s string) int {
	v, err := strconv.ParseInt(s, 10, 64)
	if err != nil {
		panic(err)
	}
	return int(v)
}

func init() {
	// ts.pack <pid> <sid> <key> <pts> <dts> <cc> <raw>  =>  <188-byte packets, concatenated> <Frame.Cc afterwards>
	ops["ts.pack"] = func(a []string) string {
		f := mpegts.Frame{
			Pid: uint16(atoi(a[0])), Sid: uint8(atoi(a[1])), Key: a[2] == "1",
			Pts: atou64(a[3]), Dts: atou64(a[4]), Cc: uint8(atoi(a[5])), Raw: unhx(a[6]),
		}
		out := f.Pack()
		return fmt.Sprintf("%s %d", hx(out), f.Cc)
	}
	// ts.pat  =>  the 188-byte PAT packet
	ops["ts.pat"] = func(a []string) string { return hx(mpegts.PackPat()) }
	// ts.pmt <videoCodecId> <audioCodecId>  =>  the 188-byte PMT packet (ids as rtmp2MpegtsFilter passes them, -1 = none seen)
	ops["ts.pmt"] = func(a []string) string { return hx(mpegts.PackPmt(atoiSigned(a[0]), atoiSigned(a[1]))) }
	// ts.patpmt <v1> <a1> <v2> <a2>  =>  the PAT+PMT blocks of two streams, each built as rtmp2MpegtsFilter does
	// (append(PackPat(), PackPmt(v, a)...)) and both held until the second exists: streams must not share them
	ops["ts.patpmt"] = func(a []string) string {
		b1 := append(mpegts.PackPat(), mpegts.PackPmt(atoiSigned(a[0]), atoiSigned(a[1]))...)
		b2 := append(mpegts.PackPat(), mpegts.PackPmt(atoiSigned(a[2]), atoiSigned(a[3]))...)
		return hx(b1) + " " + hx(b2)
	}
	// ts.crc <init> <bytes>  =>  CalcCrc32(init, bytes) in decimal
	ops["ts.crc"] = func(a []string) string {
		return strconv.FormatUint(uint64(mpegts.CalcCrc32(uint32(atou64(a[0])), unhx(a[1]))), 10)
	}

	gens["C09"] = genC09
	extractors["C09"] = extractC09
}

// ---- regenerated facts ---------------------------------------------------------------------------------------------

// parsed package-level `name = <integer literal>` / `name T = <literal>` declarations of one file
func astIntDecls(path string) (map[string]uint64, *ast.File, error) {
	fset := token.NewFileSet()
	f, err := parser.ParseFile(fset, path, nil, 0)
	if err != nil {
		return nil, nil, err
	}
	m := map[string]uint64{}
	for _, d := range f.Decls {
		gd, ok := d.(*ast.GenDecl)
		if !ok {
			continue
		}
		for _, s := range gd.Specs {
			vs, ok := s.(*ast.ValueSpec)
			if !ok {
				continue
			}
			for i, n := range vs.Names {
				if i >= len(vs.Values) {
					continue
				}
				if lit, ok := vs.Values[i].(*ast.BasicLit); ok && lit.Kind == token.INT {
					if v, err := strconv.ParseUint(lit.Value, 0, 64); err == nil {
						m[n.Name] = v
					}
				}
			}
		}
	}
	return m, f, nil
}

// the 256 literals of `var crc32table = &crc32.Table{...}`
func astCrcTable(f *ast.File) ([]uint64, error) {
	for _, d := range f.Decls {
		gd, ok := d.(*ast.GenDecl)
		if !ok || gd.Tok != token.VAR {
			continue
		}
		for _, s := range gd.Specs {
			vs := s.(*ast.ValueSpec)
			for i, n := range vs.Names {
				if n.Name != "crc32table" || i >= len(vs.Values) {
					continue
				}
				e := vs.Values[i]
				if u, ok := e.(*ast.UnaryExpr); ok {
					e = u.X
				}
				cl, ok := e.(*ast.CompositeLit)
				if !ok {
					return nil, fmt.Errorf("crc32table is not a composite literal")
				}
				var out []uint64
				for _, el := range cl.Elts {
					lit, ok := el.(*ast.BasicLit)
					if !ok {
						return nil, fmt.Errorf("crc32table: non-literal element")
					}
					v, err := strconv.ParseUint(lit.Value, 0, 32)
					if err != nil {
						return nil, err
					}
					out = append(out, v)
				}
				return out, nil
			}
		}
	}
	return nil, fmt.Errorf("crc32table not found")
}

func extractC09(repo string) (string, error) {
	dir := filepath.Join(repo, "pkg", "mpegts")
	_, crcFile, err := astIntDecls(filepath.Join(dir, "crc32.go"))
	if err != nil {
		return "", err
	}
	tab, err := astCrcTable(crcFile)
	if err != nil {
		return "", err
	}
	if len(tab) != 256 {
		return "", fmt.Errorf("crc32table has %d entries", len(tab))
	}
	// the table in the source must be the table the compiled package uses: one byte through CalcCrc32(0, [i]) reads entry i
	for i := 0; i < 256; i++ {
		if uint64(mpegts.CalcCrc32(0, []byte{byte(i)})) != tab[i] {
			return "", fmt.Errorf("crc32table[%d] in the source differs from the compiled package", i)
		}
	}
	consts, _, err := astIntDecls(filepath.Join(dir, "mpegts.go"))
	if err != nil {
		return "", err
	}
	psiConsts, _, err := astIntDecls(filepath.Join(dir, "psi.go"))
	if err != nil {
		return "", err
	}
	need := func(m map[string]uint64, k string) (uint64, error) {
		v, ok := m[k]
		if !ok {
			return 0, fmt.Errorf("constant %s not found", k)
		}
		return v, nil
	}
	var sb strings.Builder
	leanNatList(&sb, "crcTable", "mpegts.crc32table (pkg/mpegts/crc32.go, read from the AST, checked against the compiled package)", tab)
	for _, c := range []struct{ lean, src string }{{"tsDelay", "delay"}, {"tsSyncByte", "syncByte"}} {
		v, err := need(consts, c.src)
		if err != nil {
			return "", err
		}
		leanNat(&sb, c.lean, "mpegts."+c.src+" (unexported; pkg/mpegts/mpegts.go)", int64(v))
	}
	v, err := need(psiConsts, "opusIdentifier")
	if err != nil {
		return "", err
	}
	leanNat(&sb, "tsOpusIdentifier", "mpegts.opusIdentifier (unexported; pkg/mpegts/psi.go)", int64(v))
	leanNat(&sb, "tsPidPat", "mpegts.PidPat", int64(mpegts.PidPat))
	leanNat(&sb, "tsPidPmt", "mpegts.PidPmt", int64(mpegts.PidPmt))
	leanNat(&sb, "tsPidVideo", "mpegts.PidVideo", int64(mpegts.PidVideo))
	leanNat(&sb, "tsPidAudio", "mpegts.PidAudio", int64(mpegts.PidAudio))
	leanNat(&sb, "tsStreamIdAudio", "mpegts.StreamIdAudio", int64(mpegts.StreamIdAudio))
	leanNat(&sb, "tsStreamIdVideo", "mpegts.StreamIdVideo", int64(mpegts.StreamIdVideo))
	leanNat(&sb, "tsStreamTypePrivate", "mpegts.StreamTypePrivate", int64(mpegts.StreamTypePrivate))
	leanNat(&sb, "tsStreamTypeAac", "mpegts.StreamTypeAac", int64(mpegts.StreamTypeAac))
	leanNat(&sb, "tsStreamTypeAvc", "mpegts.StreamTypeAvc", int64(mpegts.StreamTypeAvc))
	leanNat(&sb, "tsStreamTypeHevc", "mpegts.StreamTypeHevc", int64(mpegts.StreamTypeHevc))
	leanNat(&sb, "tsPsiIdPas", "mpegts.TsPsiIdPas", int64(mpegts.TsPsiIdPas))
	leanNat(&sb, "tsPsiIdPms", "mpegts.TsPsiIdPms", int64(mpegts.TsPsiIdPms))
	leanNat(&sb, "tsDescriptorTagRegistration", "mpegts.DescriptorTagRegistration", int64(mpegts.DescriptorTagRegistration))
	leanNat(&sb, "tsDescriptorTagExtension", "mpegts.DescriptorTagExtension", int64(mpegts.DescriptorTagExtension))
	leanNat(&sb, "rtmpCodecIdAvc", "base.RtmpCodecIdAvc", int64(base.RtmpCodecIdAvc))
	leanNat(&sb, "rtmpCodecIdHevc", "base.RtmpCodecIdHevc", int64(base.RtmpCodecIdHevc))
	leanNat(&sb, "rtmpSoundFormatAac", "base.RtmpSoundFormatAac", int64(base.RtmpSoundFormatAac))
	leanNat(&sb, "rtmpSoundFormatOpus", "base.RtmpSoundFormatOpus", int64(base.RtmpSoundFormatOpus))
	return sb.String(), nil
}

// ---- generator -----------------------------------------------------------------------------------------------------

const c09Delay = 63000

// c09Label names the branch of Frame.Pack the LAST packet of the frame takes (and whether the frame is one packet).
func c09Label(n int, key, two bool) string {
	h := 14
	if two {
		h = 19
	}
	if key {
		h += 8
	}
	first := 184 - h
	switch {
	case n < first && key:
		return "one-stuff-af"
	case n < first:
		return "one-stuff-noaf"
	case n == first:
		return "one-exact"
	}
	r := (n - first) % 184
	switch {
	case r == 0:
		return "multi-exact"
	case r == 183:
		return "multi-stuff1"
	default:
		return "multi-stuff"
	}
}

func genC09(g *G) {
	r := g.rng
	type trk struct{ pid, sid int }
	video, audio := trk{int(mpegts.PidVideo), int(mpegts.StreamIdVideo)}, trk{int(mpegts.PidAudio), int(mpegts.StreamIdAudio)}
	pack := func(label string, t trk, key bool, pts, dts uint64, cc int, raw []byte) {
		k := 0
		if key {
			k = 1
		}
		if label == "" {
			label = c09Label(len(raw), key, pts != dts)
		}
		g.L(label).run(fmt.Sprintf("ts.pack %d %d %d %d %d %d %s", t.pid, t.sid, k, pts, dts, cc, hx(raw)))
	}
	// timestamps at the edges of the 33-bit fields, of the three sub-fields, of the PCR delay and of uint64
	tss := []uint64{0, 1, c09Delay - 1, c09Delay, c09Delay + 1, 90000, 1<<15 - 1, 1 << 15, 1<<30 - c09Delay - 1, 1<<30 - c09Delay, 1<<30 - 1,
		1 << 30, 1<<30 + 1, 1 << 31, 1<<32 - 1, 1 << 32, 3 << 31, 1<<33 - c09Delay - 1, 1<<33 - c09Delay, 1<<33 - 1, 1 << 33, 1<<33 + 5,
		1<<63 + 12345, 1<<64 - c09Delay - 1, 1<<64 - c09Delay, 1<<64 - 1}
	pickTs := func() uint64 {
		switch r.Intn(4) {
		case 0:
			return tss[r.Intn(len(tss))]
		case 1:
			return r.U64() >> uint(r.Intn(64))
		default:
			return r.U64() & (1<<33 - 1)
		}
	}

	// ---- boundary corpus (runs first) --------------------------------------------------------------------------
	// S3: key frame whose only packet needs stuffing next to an existing adaptation field
	pack("corpus-s3", video, true, 90000, 0, 0, r.Bytes(100))
	pack("corpus-s3", video, true, 90000, 0, 7, r.Bytes(156))
	pack("corpus-s3", video, true, 90000, 90000, 15, r.Bytes(161))
	pack("corpus-s3", video, true, 90000, 90000, 3, r.Bytes(1))
	// timestamp bits 30..32
	pack("corpus-pts30", video, false, 1<<30, 1<<30, 0, r.Bytes(10))
	pack("corpus-pts30", video, false, 1<<31, 1<<30, 0, r.Bytes(10))
	pack("corpus-pts30", audio, false, 1<<32+1<<30, 1<<32+1<<30, 0, r.Bytes(10))
	for _, n := range []int{1, 2, 156, 157, 158, 161, 162, 163, 164, 165, 166, 169, 170, 171, 183, 184, 185, 340, 341, 342, 346, 349, 350, 354, 355, 65521, 65522, 65523, 65526, 65527, 65528} {
		for fl := 0; fl < 4; fl++ {
			pts := uint64(900000)
			dts := pts - uint64(fl>>1)*3600
			pack("", video, fl&1 == 1, pts, dts, r.Intn(256), r.Bytes(n))
		}
	}
	pack("audio-over-64k", audio, false, 1234, 1234, 9, r.Bytes(65528))
	for _, p := range tss {
		for _, d := range []uint64{p, p - 1, p + 3003, tss[r.Intn(len(tss))]} {
			pack("corpus-ts", video, r.Bool(), p, d, r.Intn(16), r.Bytes(1+r.Intn(400)))
		}
	}
	pack("empty", video, true, 0, 0, 5, nil)
	g.L("corpus").run("ts.pat")
	for _, v := range []int{int(base.RtmpCodecIdAvc), int(base.RtmpCodecIdHevc), -1, 0, 2, 10, 13} {
		for _, a := range []int{int(base.RtmpSoundFormatAac), int(base.RtmpSoundFormatOpus), -1, 0, 2, 7, 12} {
			g.L("corpus").run(fmt.Sprintf("ts.pmt %d %d", v, a))
		}
	}
	ids := []int{int(base.RtmpCodecIdAvc), int(base.RtmpCodecIdHevc), int(base.RtmpSoundFormatAac), int(base.RtmpSoundFormatOpus), -1, 2}
	for i := 0; i < 12; i++ {
		g.L("two-streams").run(fmt.Sprintf("ts.patpmt %d %d %d %d", ids[r.Intn(2)], ids[2+r.Intn(4)], ids[r.Intn(2)], ids[2+r.Intn(4)]))
	}
	g.L("two-streams").run(fmt.Sprintf("ts.patpmt %d %d %d %d", int(base.RtmpCodecIdAvc), int(base.RtmpSoundFormatAac), int(base.RtmpCodecIdHevc), int(base.RtmpSoundFormatAac)))
	// every table entry once (init 0xffffffff: index = 0xff ^ byte; init 0: index = byte)
	for i := 0; i < 256; i++ {
		g.L("entry").run(fmt.Sprintf("ts.crc 4294967295 %02x", i))
		g.L("entry").run(fmt.Sprintf("ts.crc 0 %02x", i))
	}
	g.L("empty").run("ts.crc 4294967295 -")
	g.L("check").run("ts.crc 4294967295 313233343536373839") // CRC-32/MPEG-2 check value 0x0376E6E7 (byte-swapped in lal's register)
	for i := 0; i < g.scale(300, 5000); i++ {
		init := uint64(0xffffffff)
		if r.Intn(3) == 0 {
			init = r.U64() & 0xffffffff
		}
		g.L("random").run(fmt.Sprintf("ts.crc %d %s", init, hx(r.Bytes(r.Intn(200)))))
	}

	// ---- every length 1..600 × key × (pts = dts, pts ≠ dts) × both tracks × several incoming counters ------------
	ccs := []int{0, 15}
	if g.thorough() {
		ccs = []int{0, 1, 2, 3, 4, 5, 6, 7, 8, 9, 10, 11, 12, 13, 14, 15, 16, 254, 255}
	}
	for n := 1; n <= 600; n++ {
		for fl := 0; fl < 4; fl++ {
			for ti, t := range []trk{video, audio} {
				for _, cc := range append(ccs, r.Intn(256)) {
					pts := pickTs()
					dts := pts
					if fl>>1 == 1 {
						dts = pts - uint64(1+r.Intn(9000))
						if r.Intn(8) == 0 {
							dts = pickTs()
							if dts == pts {
								dts++
							}
						}
					}
					_ = ti
					pack("", t, fl&1 == 1, pts, dts, cc, r.Bytes(n))
				}
			}
		}
	}
	// ---- random: any pid / stream id, lengths up to 200 KiB, concentrated near the packet-capacity boundaries ------
	for i := 0; i < g.scale(1500, 40000); i++ {
		var n int
		switch r.Intn(10) {
		case 0:
			n = 1 + r.Intn(200*1024)
		case 1:
			n = r.Around(65522, 65527, 65535, 65536)
		case 2, 3:
			k := r.Intn(40)
			n = r.Pick(157, 162, 165, 170) + 184*k + r.Intn(5) - 2
		default:
			n = 1 + r.Intn(3000)
		}
		if i >= g.scale(25, 400) && n > 20000 { // the big ones are expensive on the Lean side: a bounded number per run
			n = 1 + n%20000
		}
		if n < 1 {
			n = 1
		}
		t := video
		if r.Bool() {
			t = audio
		}
		if r.Intn(6) == 0 {
			t = trk{r.Intn(65536), r.Intn(256)}
		} else if r.Intn(6) == 0 {
			t = trk{r.Intn(8192), 0xC0 + r.Intn(0x30)}
		}
		pts := pickTs()
		dts := pts
		if r.Bool() {
			dts = pts - uint64(r.Intn(9000))
		}
		pack("", t, r.Intn(3) == 0, pts, dts, r.Intn(256), r.Bytes(n))
	}
}
