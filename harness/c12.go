package main

import (
	"fmt"
	"strconv"
	"strings"

	"github.com/q191201771/lal/pkg/base"
	"github.com/q191201771/lal/pkg/rtprtcp"
)

// C12 — RTP packetise / depacketise (pkg/rtprtcp).
//
//	rtp.packnal <avc|hevc> <max> <nal>                          => payload,payload,... | none
//	rtp.pack <kind> <pt> <ssrc> <rate> <seq0> <max> <ms:hex;..> => per frame (;) the raw packets (,) | none
//	rtp.seqcmp <a> <b>                                          => CompareSeq SubSeq
//	rtp.parse <packet>                                          => ok <header fields> <body|panic> | err
//	rtp.feed <kind> <rate> <listmax> <order|-> <pkt,pkt,...>    => units delivered by a real RtpUnpackContainer
//	     order "-"      : packets fed as written
//	     order i.j.k... : "<units when fed in that order> ; <units when fed as written>"

func c12Kind(k string) (rtprtcp.IRtpPackerPayload, base.AvPacketPt) {
	switch k {
	case "avc":
		return rtprtcp.NewRtpPackerPayloadAvc(), base.AvPacketPtAvc
	case "hevc":
		return rtprtcp.NewRtpPackerPayloadHevc(), base.AvPacketPtHevc
	case "aac":
		return rtprtcp.NewRtpPackerPayloadAac(), base.AvPacketPtAac
	case "pcm":
		return rtprtcp.NewRtpPackerPayloadPcm(), base.AvPacketPtG711A
	case "opus":
		return rtprtcp.NewRtpPackerPayloadOpus(), base.AvPacketPtOpus
	}
	panic("kind " + k)
}

func hxList(l [][]byte) string {
	if len(l) == 0 {
		return "none"
	}
	parts := make([]string, len(l))
	for i, b := range l {
		parts[i] = hx(b)
	}
	return strings.Join(parts, ",")
}

func c12Pack(kind string, pt int, ssrc uint32, rate int, seq0 uint16, max int, frames [][2]string) [][][]byte {
	pp, _ := c12Kind(kind)
	packer := rtprtcp.NewRtpPacker(pp, rate, ssrc, func(o *rtprtcp.RtpPackerOption) {
		o.MaxPayloadSize = max
		o.FirstSeq = seq0
	})
	var out [][][]byte
	for _, f := range frames {
		ms, err := strconv.ParseInt(f[0], 10, 64)
		if err != nil {
			panic(err)
		}
		pkts := packer.Pack(base.AvPacket{PayloadType: base.AvPacketPt(pt), Timestamp: ms, Payload: unhx(f[1])})
		raws := make([][]byte, len(pkts))
		for i, p := range pkts {
			raws[i] = p.Raw
		}
		out = append(out, raws)
	}
	return out
}

func c12Feed(kind string, rate, listMax int, raws [][]byte) string {
	_, pt := c12Kind(kind)
	var units []string
	u := rtprtcp.DefaultRtpUnpackerFactory(pt, rate, listMax, func(pkt base.AvPacket) {
		units = append(units, fmt.Sprintf("%d:%s", pkt.Timestamp, hx(pkt.Payload)))
	})
	for _, raw := range raws {
		pkt, err := rtprtcp.ParseRtpPacket(raw)
		if err != nil {
			continue
		}
		u.Feed(pkt)
	}
	if len(units) == 0 {
		return "none"
	}
	return strings.Join(units, ",")
}

func init() {
	ops["rtp.packnal"] = func(a []string) string {
		pp, _ := c12Kind(a[0])
		return hxList(pp.Pack(unhx(a[2]), atoi(a[1])))
	}
	ops["rtp.pack"] = func(a []string) string {
		var frames [][2]string
		for _, f := range strings.Split(a[6], ";") {
			x := strings.Split(f, ":")
			frames = append(frames, [2]string{x[0], x[1]})
		}
		out := c12Pack(a[0], atoi(a[1]), uint32(atoi(a[2])), atoi(a[3]), uint16(atoi(a[4])), atoi(a[5]), frames)
		parts := make([]string, len(out))
		for i, f := range out {
			parts[i] = hxList(f)
		}
		return strings.Join(parts, ";")
	}
	ops["rtp.seqcmp"] = func(a []string) string {
		x, y := uint16(atoi(a[0])), uint16(atoi(a[1]))
		return fmt.Sprintf("%d %d", rtprtcp.CompareSeq(x, y), rtprtcp.SubSeq(x, y))
	}
	ops["rtp.parse"] = func(a []string) string {
		pkt, err := rtprtcp.ParseRtpPacket(unhx(a[0]))
		if err != nil {
			return "err"
		}
		h := pkt.Header
		cs := "-"
		if len(h.Csrc) > 0 {
			parts := make([]string, len(h.Csrc))
			for i, c := range h.Csrc {
				parts[i] = strconv.FormatUint(uint64(c), 10)
			}
			cs = strings.Join(parts, ",")
		}
		body := protect(func() string { return hx(pkt.Body()) })
		// payloadOffset and paddingLength are unexported: recovered from the exported view
		off := 12 + 4*int(h.CsrcCount)
		if h.Extension != 0 {
			off += 4 + len(h.Extensions)
		}
		padLen := 0
		if h.Padding == 1 {
			padLen = int(pkt.Raw[len(pkt.Raw)-1])
		}
		return fmt.Sprintf("ok %d %d %d %d %d %d %d %d %d %s %d %s %d %d %s", h.Version, h.Padding, h.Extension, h.CsrcCount,
			h.Mark, h.PacketType, h.Seq, h.Timestamp, h.Ssrc, cs, h.ExtensionProfile, hx(h.Extensions), off, padLen, body)
	}
	ops["rtp.feed"] = func(a []string) string {
		rate, listMax := atoi(a[1]), atoi(a[2])
		var raws [][]byte
		if a[4] != "none" {
			for _, p := range strings.Split(a[4], ",") {
				raws = append(raws, unhx(p))
			}
		}
		if a[3] == "-" {
			return c12Feed(a[0], rate, listMax, raws)
		}
		// the driver indexes the packets that ParseRtpPacket accepts; orders are only generated for valid streams
		var perm [][]byte
		for _, s := range strings.Split(a[3], ".") {
			i := atoi(s)
			if i < len(raws) {
				perm = append(perm, raws[i])
			}
		}
		return c12Feed(a[0], rate, listMax, perm) + " ; " + c12Feed(a[0], rate, listMax, raws)
	}

	gens["C12"] = genC12
	extractors["RtpConsts"] = func(repo string) (string, error) {
		var sb strings.Builder
		leanNat(&sb, "rtpFixedHeaderLength", "rtprtcp.RtpFixedHeaderLength", rtprtcp.RtpFixedHeaderLength)
		leanNat(&sb, "defaultRtpVersion", "rtprtcp.DefaultRtpVersion", rtprtcp.DefaultRtpVersion)
		leanNat(&sb, "naluTypeAvcSingleMax", "rtprtcp.NaluTypeAvcSingleMax", rtprtcp.NaluTypeAvcSingleMax)
		leanNat(&sb, "naluTypeAvcStapa", "rtprtcp.NaluTypeAvcStapa", rtprtcp.NaluTypeAvcStapa)
		leanNat(&sb, "naluTypeAvcFua", "rtprtcp.NaluTypeAvcFua", rtprtcp.NaluTypeAvcFua)
		leanNat(&sb, "naluTypeHevcAp", "rtprtcp.NaluTypeHevcAp", rtprtcp.NaluTypeHevcAp)
		leanNat(&sb, "naluTypeHevcFua", "rtprtcp.NaluTypeHevcFua", rtprtcp.NaluTypeHevcFua)
		leanNatList(&sb, "positionTypes", "rtprtcp.PositionTypeSingle, FuaStart, FuaMiddle, FuaEnd, Stapa, Ap",
			[]uint64{uint64(rtprtcp.PositionTypeSingle), uint64(rtprtcp.PositionTypeFuaStart), uint64(rtprtcp.PositionTypeFuaMiddle),
				uint64(rtprtcp.PositionTypeFuaEnd), uint64(rtprtcp.PositionTypeStapa), uint64(rtprtcp.PositionTypeAp)})
		return sb.String(), nil
	}
}

// ---------------------------------------------------------------------------------------------------------

func c12Nal(r *Rng, kind string, n int, hdr0, hdr1 int) []byte {
	b := r.Bytes(n)
	if n > 0 {
		if hdr0 >= 0 {
			b[0] = byte(hdr0)
		} else if kind == "avc" {
			b[0] = byte(r.Intn(4)<<5 | (1 + r.Intn(23)))
		} else if kind == "hevc" {
			ts := []int{0, 1, 19, 20, 21, 32, 33, 34, 39, 40}
			b[0] = byte(ts[r.Intn(len(ts))]<<1 | r.Intn(2))
		}
	}
	if n > 1 && kind == "hevc" {
		if hdr1 >= 0 {
			b[1] = byte(hdr1)
		} else {
			b[1] = byte(r.Intn(32)<<3 | (1 + r.Intn(7)))
		}
	}
	return b
}

// c12Order draws an arrival order of n packets whose reordering stays inside a look-ahead of w packets,
// with duplicates; first arrival is packet 0 unless firstFree.
func c12Order(r *Rng, n, w int, dupPct int, firstFree bool) []int {
	arrived := make([]bool, n)
	var order []int
	lo := 0
	for lo < n {
		var i int
		if len(order) == 0 && !firstFree {
			i = 0
		} else if len(order) > 0 && r.Intn(100) < dupPct {
			// duplicate of something recent (may already have been delivered, may still be waiting)
			i = order[len(order)-1-r.Intn(min(len(order), w+2))]
		} else {
			// one of the first w not yet arrived packets
			var cand []int
			for j := lo; j < n && j < lo+w; j++ {
				if !arrived[j] {
					cand = append(cand, j)
				}
			}
			i = cand[r.Intn(len(cand))]
		}
		order = append(order, i)
		arrived[i] = true
		for lo < n && arrived[lo] {
			lo++
		}
	}
	return order
}

func min(a, b int) int {
	if a < b {
		return a
	}
	return b
}

func orderStr(o []int) string {
	parts := make([]string, len(o))
	for i, v := range o {
		parts[i] = strconv.Itoa(v)
	}
	return strings.Join(parts, ".")
}

func genC12(g *G) {
	r := g.rng
	kinds := []string{"avc", "hevc", "aac", "pcm", "opus"}
	rates := []int{8000, 11025, 44100, 48000, 90000}
	seq0s := []int{0, 65534, 65535}

	// ---- boundary corpus: known witnesses first
	// S12: HEVC NAL with layer id 37 / tid 2 fragmented (header bytes 43 2a)
	g.L("corpus-s12").run("rtp.packnal hevc 5 432a0102030405060708")
	g.L("corpus-s12").run("rtp.packnal hevc 5 4201aabbccddeeff0011")
	g.L("corpus-s12").run("rtp.pack hevc 98 7 90000 65535 6 40:26f9a1a2a3a4a5a6a7a8a9")
	// S25: an H.265 NAL unit type that hevc.NaluTypeMapping does not name (36 = end of sequence) between two slices
	{
		raws := c12Pack("hevc", 98, 1, 90000, 10, 100, [][2]string{{"0", "2601aa"}, {"40", "4801"}, {"80", "0201bb"}})
		var flat [][]byte
		for _, f := range raws {
			flat = append(flat, f...)
		}
		g.L("corpus-s25").run("rtp.feed hevc 90000 8 0.1.2 " + hxList(flat))
	}
	// S23: the first packet to arrive is not the first packet sent
	{
		raws := c12Pack("avc", 96, 1, 90000, 65535, 100, [][2]string{{"0", "6501"}, {"40", "4102"}, {"80", "4103"}})
		var flat [][]byte
		for _, f := range raws {
			flat = append(flat, f...)
		}
		g.L("corpus-s23").run("rtp.feed avc 90000 8 1.0.2 " + hxList(flat))
		g.L("corpus-s23").run("rtp.feed avc 90000 8 0.2.1 " + hxList(flat))
	}

	// ---- rtp.packnal: sizes k*max + {-1,0,1}
	ks := []int{1, 2, 3, 4, 7, 16, 64}
	if g.thorough() {
		ks = nil
		for k := 1; k <= 256; k++ {
			ks = append(ks, k)
		}
	}
	for _, kind := range []string{"avc", "hevc"} {
		hs := 2
		if kind == "hevc" {
			hs = 3
		}
		for _, max := range []int{hs + 1, hs + 2, 10, 100, 1200, 1400} {
			for _, k := range ks {
				if max >= 1000 && k > 8 && k&(k-1) != 0 && k != 255 {
					continue // large limits: powers of two and 255 only (the lines are hundreds of kilobytes long)
				}
				for d := -1; d <= 1; d++ {
					n := k*max + d
					if n < 1 {
						continue
					}
					g.L("size-k*max").run(fmt.Sprintf("rtp.packnal %s %d %s", kind, max, hx(c12Nal(r, kind, n, -1, -1))))
					// also around multiples of the FU chunk (max - header)
					n2 := k*(max-hs) + d + hs - 1
					if n2 >= 1 {
						g.L("size-k*chunk").run(fmt.Sprintf("rtp.packnal %s %d %s", kind, max, hx(c12Nal(r, kind, n2, -1, -1))))
					}
				}
			}
		}
		// 300 KiB
		for _, n := range []int{256*1200 - 1, 256 * 1200, 256*1200 + 1} {
			g.L("size-300KiB").run(fmt.Sprintf("rtp.packnal %s 1200 %s", kind, hx(c12Nal(r, kind, n, -1, -1))))
		}
		// degenerate limits and inputs (outside the guard: correspondence only)
		g.L("degenerate").run(fmt.Sprintf("rtp.packnal %s 0 0102", kind))
		g.L("degenerate").run(fmt.Sprintf("rtp.packnal %s 5 -", kind))
		g.L("degenerate").run(fmt.Sprintf("rtp.packnal %s 1 41", kind))
		g.L("degenerate").run(fmt.Sprintf("rtp.packnal %s 1 4101aabbccdd", kind))
		if kind == "hevc" {
			g.L("degenerate").run("rtp.packnal hevc 2 4101aabbccdd")
		}
	}
	// every AVC header byte, single and fragmented
	for h := 0; h < 256; h++ {
		g.L("avc-hdr-all").run(fmt.Sprintf("rtp.packnal avc 8 %s", hx(c12Nal(r, "avc", 5, h, -1))))
		g.L("avc-hdr-all").run(fmt.Sprintf("rtp.packnal avc 8 %s", hx(c12Nal(r, "avc", 21, h, -1))))
	}
	// HEVC header byte pairs: all 65536 at three sizes (thorough) / every first byte with a few second bytes + a sample (quick)
	hevcSizes := []int{2, 9, 23}
	if g.thorough() {
		for h0 := 0; h0 < 256; h0++ {
			for h1 := 0; h1 < 256; h1++ {
				for _, n := range hevcSizes {
					g.L("hevc-hdr-all").run(fmt.Sprintf("rtp.packnal hevc 9 %s", hx(c12Nal(r, "hevc", n, h0, h1))))
				}
			}
		}
	} else {
		for h0 := 0; h0 < 256; h0++ {
			for _, h1 := range []int{0, 1, 0x2a, 0xff} {
				g.L("hevc-hdr-sample").run(fmt.Sprintf("rtp.packnal hevc 9 %s", hx(c12Nal(r, "hevc", hevcSizes[(h0+h1)%3], h0, h1))))
			}
		}
		for i := 0; i < 600; i++ {
			g.L("hevc-hdr-sample").run(fmt.Sprintf("rtp.packnal hevc 9 %s", hx(c12Nal(r, "hevc", hevcSizes[i%3], r.Intn(256), r.Intn(256)))))
		}
	}
	// audio payload packers
	for _, kind := range []string{"aac", "pcm", "opus"} {
		for _, n := range []int{0, 1, 2, 31, 32, 33, 255, 256, 1199, 1200, 1201, 8191, 8192, 8193} {
			g.L("audio").run(fmt.Sprintf("rtp.packnal %s 1200 %s", kind, hx(r.Bytes(n))))
		}
		g.L("degenerate").run(fmt.Sprintf("rtp.packnal %s 0 0102", kind))
	}

	// ---- rtp.pack: header fields, marker, sequence numbers across frames and across 65535 -> 0, timestamps
	mss := []int64{0, 1, 33, 40, 1000, 47721858, 47721859, 95443717, 1 << 32, 100000000000}
	for i := 0; i < g.scale(700, 20000); i++ {
		kind := kinds[i%len(kinds)]
		rate := rates[r.Intn(len(rates))]
		if r.Intn(12) == 0 {
			rate = []int{1, 999, 1000, 16000, 22050, 96000}[r.Intn(6)]
		}
		seq0 := seq0s[r.Intn(len(seq0s))]
		if r.Intn(3) == 0 {
			seq0 = r.Intn(65536)
		}
		max := r.Pick(4, 5, 10, 50, 1200)
		pt := r.Pick(96, 97, 98, 0, 8, 101, 127)
		if r.Intn(15) == 0 {
			pt = r.Pick(128, 200, 255)
		}
		nf := 1 + r.Intn(4)
		parts := make([]string, nf)
		ms := mss[r.Intn(len(mss))]
		for j := range parts {
			var n int
			if kind == "avc" || kind == "hevc" {
				n = r.Around(max, 2*max, 3*max-2, 7*max)
				if n < 2 {
					n = 2
				}
			} else {
				n = 1 + r.Intn(400)
			}
			if int64(rate) > 0 && ms > (1<<53-1)/int64(rate) {
				ms = (1<<53 - 1) / int64(rate)
			}
			parts[j] = fmt.Sprintf("%d:%s", ms, hx(c12Nal(r, kind, n, -1, -1)))
			ms += int64(r.Pick(1, 20, 23, 33, 40, 1000))
		}
		lbl := "frames"
		if seq0 >= 65530 {
			lbl = "frames-wrap"
		}
		g.L(lbl).run(fmt.Sprintf("rtp.pack %s %d %d %d %d %d %s", kind, pt, r.U64()&0xFFFFFFFF, rate, seq0, max, strings.Join(parts, ";")))
	}
	// largest exact product ms*rate < 2^53
	for _, rate := range rates {
		ms := (int64(1)<<53 - 1) / int64(rate)
		g.L("ts-2^53").run(fmt.Sprintf("rtp.pack pcm 8 1 %d 0 1200 %d:00;%d:01", rate, ms, ms-1))
	}

	// ---- rtp.seqcmp
	bs := []int{0, 1, 2, 16383, 16384, 16385, 32767, 32768, 32769, 49151, 49152, 49153, 65534, 65535}
	for _, a := range bs {
		for _, b := range bs {
			g.L("corpus").run(fmt.Sprintf("rtp.seqcmp %d %d", a, b))
		}
	}
	for i := 0; i < g.scale(1500, 60000); i++ {
		a := r.Intn(65536)
		b := (a + r.Around(0, 1, 16384, 32768, 49152, 65535)) % 65536
		if r.Intn(3) == 0 {
			b = r.Intn(65536)
		}
		g.L("random").run(fmt.Sprintf("rtp.seqcmp %d %d", a, b))
	}

	// ---- rtp.parse: CSRC / extension / padding, truncations, mutations
	for i := 0; i < g.scale(600, 20000); i++ {
		cc := r.Pick(0, 0, 0, 1, 2, 15)
		ext := r.Intn(3) == 0
		pad := r.Intn(3) == 0
		b := []byte{byte(2<<6 | cc), byte(r.Intn(256))}
		if r.Intn(20) == 0 {
			b[0] = byte(r.Intn(4)<<6 | cc)
		}
		b = append(b, r.Bytes(10+4*cc)...)
		if ext {
			b[0] |= 0x10
			words := r.Pick(0, 1, 2, 5)
			if r.Intn(25) == 0 {
				words = r.Pick(0x4000, 0x4001, 0x8000, 0xffff) // 4*length wraps in uint16
			}
			b = append(b, r.Bytes(2)...)
			b = append(b, byte(words>>8), byte(words))
			if words < 100 {
				b = append(b, r.Bytes(4*words)...)
			}
		}
		body := r.Bytes(r.Pick(0, 1, 2, 5, 20))
		if pad {
			b[0] |= 0x20
			if len(body) > 0 {
				body[len(body)-1] = byte(r.Pick(0, 1, 2, len(body), len(body)+1, 255))
			}
		}
		b = append(b, body...)
		g.L(fmt.Sprintf("cc=%d,x=%v,p=%v", min(cc, 3), ext, pad)).run("rtp.parse " + hx(b))
		if i < 60 {
			for k := 0; k <= len(b); k++ {
				g.L("truncated").run("rtp.parse " + hx(b[:k]))
			}
		}
		g.L("random").run("rtp.parse " + hx(r.Bytes(r.Intn(40))))
	}

	// ---- rtp.feed: lal-packed streams fed to a real RtpUnpackContainer in order, permuted inside the window, with duplicates
	for i := 0; i < g.scale(900, 25000); i++ {
		kind := kinds[i%len(kinds)]
		if i%2 == 0 {
			kind = []string{"avc", "hevc"}[(i/2)%2]
		}
		rate := rates[r.Intn(len(rates))]
		max := r.Pick(4, 5, 6, 9, 20)
		nu := 2 + r.Intn(8)
		maxPk := r.Pick(1, 3, 6, 12) // packets per unit at most
		frames := make([][2]string, nu)
		for j := range frames {
			var n int
			if kind == "avc" || kind == "hevc" {
				n = 2 + r.Intn(maxPk*(max-3))
				if r.Intn(3) == 0 {
					n = 2 + r.Intn(max-1)
				}
			} else {
				n = 1 + r.Intn(40)
			}
			h0 := -1
			if kind == "hevc" && r.Intn(4) == 0 {
				h0 = r.Intn(48)<<1 | r.Intn(2) // any non-aggregating type, not only those lal names
			}
			frames[j] = [2]string{strconv.Itoa(j * 40), hx(c12Nal(r, kind, n, h0, -1))}
		}
		var flat [][]byte
		longest := 0
		seq0 := seq0s[r.Intn(len(seq0s))]
		switch r.Intn(4) {
		case 0:
			seq0 = r.Intn(65536)
		case 1:
			seq0 = 65536 - 1 - r.Intn(20)
		}
		for _, f := range c12Pack(kind, 96, 9, rate, uint16(seq0), max, frames) {
			flat = append(flat, f...)
			if len(f) > longest {
				longest = len(f)
			}
		}
		n := len(flat)
		w := r.Pick(1, 2, 3, 5, 8)
		listMax := w + longest + 1 + r.Intn(3)
		mode := r.Intn(20)
		switch {
		case mode == 0: // first arrival free: S23 region
			g.L("order-first-free").run(fmt.Sprintf("rtp.feed %s %d %d %s %s", kind, rate, listMax, orderStr(c12Order(r, n, w, 10, true)), hxList(flat)))
		case mode == 1: // list too small for the disorder: outside the guard, correspondence only
			g.L("order-over-window").run(fmt.Sprintf("rtp.feed %s %d %d %s %s", kind, rate, r.Pick(1, 2, 3), orderStr(c12Order(r, n, w+3, 10, false)), hxList(flat)))
		case mode == 2: // losses
			var lossy [][]byte
			for _, p := range flat {
				if r.Intn(5) != 0 {
					lossy = append(lossy, p)
				}
			}
			g.L("lossy").run(fmt.Sprintf("rtp.feed %s %d %d - %s", kind, rate, r.Pick(2, 4, 8), hxList(lossy)))
		case mode == 3: // shuffled arbitrarily, small list
			perm := append([][]byte{}, flat...)
			for k := len(perm) - 1; k > 0; k-- {
				j := r.Intn(k + 1)
				perm[k], perm[j] = perm[j], perm[k]
			}
			g.L("shuffled").run(fmt.Sprintf("rtp.feed %s %d %d - %s", kind, rate, r.Pick(1, 2, 4, 8, 64), hxList(perm)))
		default:
			dup := r.Pick(0, 10, 30)
			lbl := fmt.Sprintf("order-w%d", w)
			if seq0+n > 65536 {
				lbl += "-wrap"
			}
			g.L(lbl).run(fmt.Sprintf("rtp.feed %s %d %d %s %s", kind, rate, listMax, orderStr(c12Order(r, n, w, dup, false)), hxList(flat)))
		}
	}
	// packet kinds lal's own packer never emits but its unpackers accept: STAP-A / AP, several AUs per packet, fragmented AUs
	mkPkt := func(seq int, ts uint32, marker bool, body []byte) []byte {
		m := byte(96)
		if marker {
			m |= 0x80
		}
		hdr := []byte{0x80, m, byte(seq >> 8), byte(seq), byte(ts >> 24), byte(ts >> 16), byte(ts >> 8), byte(ts), 0, 0, 0, 1}
		return append(hdr, body...)
	}
	for i := 0; i < g.scale(200, 6000); i++ {
		seq := r.Pick(0, 65533, 65535, 1000)
		var raws [][]byte
		var kind, lbl string
		switch i % 4 {
		case 0, 1: // aggregation packets between single NAL unit packets
			kind, lbl = "avc", "stap-a"
			body := []byte{0x18}
			if i%4 == 1 {
				kind, lbl = "hevc", "ap"
				body = []byte{0x60, 0x01}
			}
			for k := 0; k < 1+r.Intn(3); k++ {
				nal := c12Nal(r, kind, 2+r.Intn(6), -1, -1)
				sz := len(nal)
				if r.Intn(12) == 0 {
					sz += r.Pick(-1, 1, 200) // declared size disagrees with what is there
				}
				body = append(body, byte(sz>>8), byte(sz))
				body = append(body, nal...)
			}
			if r.Intn(15) == 0 {
				body = append(body, 0) // dangling byte
			}
			raws = append(raws, mkPkt(seq, 0, true, c12Nal(r, kind, 3, -1, -1)), mkPkt(seq+1, 3600, true, body), mkPkt(seq+2, 7200, true, c12Nal(r, kind, 4, -1, -1)))
		case 2: // several complete AUs in one packet
			kind, lbl = "aac", "aac-multi"
			k := 2 + r.Intn(3)
			hdrs := []byte{byte(k * 16 >> 8), byte(k * 16)}
			var data []byte
			for j := 0; j < k; j++ {
				n := 1 + r.Intn(20)
				hdrs = append(hdrs, byte(n>>5), byte(n<<3))
				data = append(data, r.Bytes(n)...)
			}
			if r.Intn(10) == 0 && len(data) > 1 {
				data = data[:len(data)-1] // short data section
			}
			raws = append(raws, mkPkt(seq, 1024, true, append(hdrs, data...)))
		case 3: // one AU over several packets, then a complete one
			kind, lbl = "aac", "aac-fragmented"
			total := 6 + r.Intn(40)
			au := r.Bytes(total)
			k := 2 + r.Intn(3)
			pos := 0
			for j := 0; j < k; j++ {
				n := total / k
				if j == k-1 {
					n = total - pos
					if r.Intn(10) == 0 {
						n += r.Pick(-1, 1)
					}
				}
				end := pos + n
				if end > total {
					end = total
					au = append(au, 0)
					end = pos + n
				}
				body := append([]byte{0, 16, byte(total >> 5), byte(total << 3)}, au[pos:end]...)
				ts := uint32(2048)
				if r.Intn(15) == 0 {
					ts = 2049
				}
				raws = append(raws, mkPkt(seq+j, ts, j == k-1, body))
				pos = end
			}
			tail := r.Bytes(5)
			raws = append(raws, mkPkt(seq+k, 3072, true, append([]byte{0, 16, 0, 5 << 3}, tail...)))
			raws = append(raws, mkPkt(seq+k+1, 4096, true, append([]byte{0, 16, 0, 5 << 3}, tail...)))
		}
		if r.Intn(4) == 0 && len(raws) > 1 { // swap two neighbours
			j := r.Intn(len(raws) - 1)
			raws[j], raws[j+1] = raws[j+1], raws[j]
		}
		g.L(lbl).run(fmt.Sprintf("rtp.feed %s %d %d - %s", kind, r.Pick(90000, 44100, 48000), r.Pick(2, 3, 8), hxList(raws)))
	}
	// malformed datagrams into the container (what panics belongs to C13; here model and code must agree)
	for i := 0; i < g.scale(300, 10000); i++ {
		kind := kinds[r.Intn(len(kinds))]
		k := 1 + r.Intn(5)
		var raws [][]byte
		for j := 0; j < k; j++ {
			hdr := []byte{0x80, 96, 0, byte(j + r.Intn(2)), 0, 0, 0, 0, 0, 0, 0, 1}
			body := r.Bytes(1 + r.Intn(8))
			if kind == "avc" {
				body[0] = byte(r.Pick(1, 5, 24, 28, 28, 28, 30))
			} else if kind == "hevc" {
				body[0] = byte(r.Pick(1, 19, 48, 49, 49, 49, 50) << 1)
			} else if kind == "aac" {
				body[0] = 0
				if len(body) > 1 {
					body[1] = byte(r.Pick(0, 16, 16, 16, 32, 48, 13))
				}
			}
			raws = append(raws, append(hdr, body...))
		}
		rate := r.Pick(90000, 8000, 1000, 999, 0)
		g.L("malformed").run(fmt.Sprintf("rtp.feed %s %d %d - %s", kind, rate, r.Pick(1, 2, 4), hxList(raws)))
	}
}
