package main

// C04, level L2: a real rtmp.Server on a loopback TCP port in a CHILD process (a panic in a connection goroutine
// cannot be recovered from outside it: it ends the process, which is exactly what the property forbids).
//
// op:  rtmp.srv <pub>.<sub> <stream>  =>  served|unserved e=<events of the hostile connection>   |  dead
//
// A healthy client completes handshake + connect, then the hostile client sends <stream> and half-closes; when the
// server has finished with the hostile connection the healthy client sends createStream and must get its _result:
// `served`. Events as in rtmp.sess plus DP / DS = OnDelRtmpPubSession / OnDelRtmpSubSession from Server.handleTcpConnect.

import (
	"bytes"
	"encoding/hex"
	"fmt"
	"io"
	"io/ioutil"
	"net"
	"os"
	"os/exec"
	"strings"
	"sync"
	"time"

	"github.com/q191201771/lal/pkg/base"
	"github.com/q191201771/lal/pkg/rtmp"
	"github.com/q191201771/naza/pkg/nazalog"
)

const c04SrvEnv = "LALVERIF_C04_SRV"

type c04SrvObs struct {
	mu      sync.Mutex
	pub     byte
	sub     byte
	order   []*rtmp.ServerSession
	events  map[*rtmp.ServerSession][]string
	pending map[*rtmp.ServerSession]bool // accepted as pub/sub: a Del callback is due
}

func (o *c04SrvObs) add(s *rtmp.ServerSession, e string) {
	o.mu.Lock()
	defer o.mu.Unlock()
	if _, ok := o.events[s]; !ok {
		o.order = append(o.order, s)
	}
	o.events[s] = append(o.events[s], e)
}
func (o *c04SrvObs) OnRtmpConnect(s *rtmp.ServerSession, opa rtmp.ObjectPairArray) { o.add(s, "C") }
func (o *c04SrvObs) OnNewRtmpPubSession(s *rtmp.ServerSession) error {
	o.add(s, "P")
	switch o.pub {
	case 'd':
		return errC04Deny
	case 'a':
		s.SetPubSessionObserver(&c04SrvAv{o, s})
	}
	o.mu.Lock()
	o.pending[s] = true
	o.mu.Unlock()
	return nil
}
func (o *c04SrvObs) OnNewRtmpSubSession(s *rtmp.ServerSession) error {
	o.add(s, "S")
	if o.sub == 'd' {
		return errC04Deny
	}
	o.mu.Lock()
	o.pending[s] = true
	o.mu.Unlock()
	return nil
}
func (o *c04SrvObs) del(s *rtmp.ServerSession, e string) {
	o.add(s, e)
	o.mu.Lock()
	delete(o.pending, s)
	o.mu.Unlock()
}
func (o *c04SrvObs) OnDelRtmpPubSession(s *rtmp.ServerSession) { o.del(s, "DP") }
func (o *c04SrvObs) OnDelRtmpSubSession(s *rtmp.ServerSession) { o.del(s, "DS") }

type c04SrvAv struct {
	o *c04SrvObs
	s *rtmp.ServerSession
}

func (a *c04SrvAv) OnReadRtmpAvMsg(msg base.RtmpMsg) {
	a.o.add(a.s, fmt.Sprintf("A%d:%d", msg.Header.MsgTypeId, len(msg.Payload)))
}

func c04ReadN(c net.Conn, n int, d time.Duration) error {
	_ = c.SetReadDeadline(time.Now().Add(d))
	_, err := io.ReadFull(c, make([]byte, n))
	return err
}

func c04SrvChild(arg string) {
	_ = nazalog.Init(func(option *nazalog.Option) {
		option.Level = nazalog.LevelPanic
		option.IsToStdout = false
	})
	f := strings.SplitN(arg, ":", 2)
	raw, err := ioutil.ReadFile(f[1])
	if err != nil {
		fmt.Println("child-error", err)
		os.Exit(3)
	}
	stream, _ := hex.DecodeString(strings.TrimSpace(string(raw)))
	obs := &c04SrvObs{pub: f[0][0], sub: f[0][2], events: map[*rtmp.ServerSession][]string{}, pending: map[*rtmp.ServerSession]bool{}}
	// a free port
	l, err := net.Listen("tcp", "127.0.0.1:0")
	if err != nil {
		fmt.Println("child-error", err)
		os.Exit(3)
	}
	addr := l.Addr().String()
	l.Close()
	srv := rtmp.NewServer(addr, obs)
	if err := srv.Listen(); err != nil {
		fmt.Println("child-error", err)
		os.Exit(3)
	}
	go func() { _ = srv.RunLoop() }()

	// healthy client: handshake + connect
	good, err := net.Dial("tcp", addr)
	if err != nil {
		fmt.Println("child-error", err)
		os.Exit(3)
	}
	hs := c04Handshake(NewRng(1), "simple")
	_, _ = good.Write(hs[:1537])
	if err := c04ReadN(good, 3073, 15*time.Second); err != nil {
		fmt.Println("child-error healthy handshake", err)
		os.Exit(3)
	}
	_, _ = good.Write(hs[1537:])
	_, _ = good.Write(c04Msg(3, 20, 0, 0, c04Connect("live"), 128))
	if err := c04ReadN(good, 16+17+16+214+len(base.LalRtmpConnectResultVersion), 15*time.Second); err != nil {
		fmt.Println("child-error healthy connect", err)
		os.Exit(3)
	}

	// hostile client
	bad, err := net.Dial("tcp", addr)
	if err != nil {
		fmt.Println("child-error", err)
		os.Exit(3)
	}
	go func() {
		_, _ = bad.Write(stream)
		if tc, ok := bad.(*net.TCPConn); ok {
			_ = tc.CloseWrite()
		}
	}()
	// the server closes the connection when it is done with it
	_ = bad.SetReadDeadline(time.Now().Add(20 * time.Second))
	_, _ = io.Copy(ioutil.Discard, bad)
	bad.Close()
	// a Del callback that is due follows RunLoop's return immediately
	for i := 0; i < 2000; i++ {
		obs.mu.Lock()
		n := 0
		for s := range obs.pending {
			if len(obs.order) > 0 && s != obs.order[0] {
				n++
			}
		}
		obs.mu.Unlock()
		if n == 0 {
			break
		}
		time.Sleep(5 * time.Millisecond)
	}
	time.Sleep(10 * time.Millisecond)

	// is the healthy connection still served?
	served := "unserved"
	_, _ = good.Write(c04Msg(3, 20, 0, 0, c04CreateStream(), 128))
	if err := c04ReadN(good, 41, 15*time.Second); err == nil {
		served = "served"
	}
	obs.mu.Lock()
	var ev []string
	for i, s := range obs.order {
		if i == 0 {
			continue // the healthy session
		}
		ev = append(ev, obs.events[s]...)
	}
	obs.mu.Unlock()
	fmt.Printf("%s e=%s\n", served, c04Compress(ev))
	os.Exit(0)
}

func init() {
	if arg := os.Getenv(c04SrvEnv); arg != "" {
		c04SrvChild(arg)
	}
	ops["rtmp.srv"] = func(a []string) string {
		tmp, err := ioutil.TempFile("", "c04srv")
		if err != nil {
			panic(err)
		}
		defer os.Remove(tmp.Name())
		_, _ = tmp.WriteString(hex.EncodeToString(c04ParseStream(a[1])))
		tmp.Close()
		cmd := exec.Command(os.Args[0])
		cmd.Env = append(os.Environ(), fmt.Sprintf("%s=%s:%s", c04SrvEnv, a[0], tmp.Name()))
		var stdout, stderr bytes.Buffer
		cmd.Stdout, cmd.Stderr = &stdout, &stderr
		if err := cmd.Run(); err != nil {
			if strings.Contains(stderr.String(), "panic:") || strings.Contains(stderr.String(), "fatal error:") {
				return "dead"
			}
			return "child-failed " + strings.ReplaceAll(strings.TrimSpace(stdout.String()), "\n", " ")
		}
		return strings.TrimSpace(stdout.String())
	}
}
