package main

import (
	"fmt"
	"sort"
	"strings"
)

// Generator of C06: RTMP publish scenarios (sequence headers + frames) built by hand from the FLV / ISO 14496-15 /
// enhanced-RTMP layouts — not with lal's builders — and fed to the real remuxers.

// ---- RTMP message builders ---------------------------------------------------------------------------------------

const (
	c06Avc = iota
	c06Hevc
	c06HevcEnh // enhanced RTMP ('hvc1' FourCC)
	c06NoVideo
)
const (
	c06Aac = iota
	c06Opus
	c06G711A
	c06G711U
	c06NoAudio
)

func c06be16(n int) []byte { return []byte{byte(n >> 8), byte(n)} }
func c06be24(n int) []byte { return []byte{byte(n >> 16), byte(n >> 8), byte(n)} }
func c06be32(n int) []byte { return []byte{byte(n >> 24), byte(n >> 16), byte(n >> 8), byte(n)} }

// AVCDecoderConfigurationRecord behind the 5-byte FLV video tag header
func c06AvcSeqHeader(sps, pps []byte) []byte {
	b := []byte{0x17, 0, 0, 0, 0, 1, 0x64, 0x00, 0x1f, 0xff, 0xe1}
	b = append(b, c06be16(len(sps))...)
	b = append(b, sps...)
	b = append(b, 1)
	b = append(b, c06be16(len(pps))...)
	return append(b, pps...)
}

// HEVCDecoderConfigurationRecord (23 bytes up to numOfArrays, three arrays of one unit each)
func c06HevcSeqHeader(vps, sps, pps []byte, enhanced bool) []byte {
	var b []byte
	if enhanced {
		b = []byte{0x80 | 1<<4 | 0, 'h', 'v', 'c', '1'}
	} else {
		b = []byte{0x1c, 0, 0, 0, 0}
	}
	b = append(b, 1, 0x01, 0x60, 0, 0, 0, 0x90, 0, 0, 0, 0, 0, 0x5d, 0xf0, 0x00, 0xfc, 0xfd, 0xf8, 0xf8, 0, 0, 0x0f, 3)
	for i, u := range [][]byte{vps, sps, pps} {
		b = append(b, byte(0x20+i), 0, 1)
		b = append(b, c06be16(len(u))...)
		b = append(b, u...)
	}
	return b
}

func c06Avcc(nals [][]byte) []byte {
	var b []byte
	for _, n := range nals {
		b = append(b, c06be32(len(n))...)
		b = append(b, n...)
	}
	return b
}

// a video frame message payload
func c06VideoPayload(vc int, key bool, cts int, nals [][]byte, x bool) []byte {
	var b []byte
	switch vc {
	case c06Avc:
		b = []byte{0x27, 1}
		if key {
			b[0] = 0x17
		}
		b = append(b, c06be24(cts)...)
	case c06Hevc:
		b = []byte{0x2c, 1}
		if key {
			b[0] = 0x1c
		}
		b = append(b, c06be24(cts)...)
	case c06HevcEnh:
		ft := byte(2)
		if key {
			ft = 1
		}
		if x { // CodedFramesX: no composition time
			b = []byte{0x80 | ft<<4 | 3, 'h', 'v', 'c', '1'}
		} else {
			b = []byte{0x80 | ft<<4 | 1, 'h', 'v', 'c', '1'}
			b = append(b, c06be24(cts)...)
		}
	}
	return append(b, c06Avcc(nals)...)
}

// a NAL unit of the given type and total length n (>= header size); emulation prevention applied
func c06Nal(r *Rng, hevc bool, typ int, n int) []byte {
	hs := 1
	if hevc {
		hs = 2
	}
	if n < hs {
		n = hs
	}
	var b []byte
	if n > hs {
		b = genNal(r, n-hs+1)[1:] // body only
		for len(b) < n-hs {
			b = append(b, 0x55)
		}
	}
	if hevc {
		return append([]byte{byte(typ << 1), 1}, b...)
	}
	nri := 3
	if typ == 6 || typ == 9 || typ == 12 {
		nri = 0
	}
	return append([]byte{byte(nri<<5 | typ)}, b...)
}

func c06AudioPayload(ac int, seqHeader bool, data []byte) []byte {
	switch ac {
	case c06Aac:
		if seqHeader {
			return append([]byte{0xaf, 0}, data...)
		}
		return append([]byte{0xaf, 1}, data...)
	case c06Opus:
		return append([]byte{0xdf}, data...)
	case c06G711A:
		return append([]byte{0x72}, data...)
	case c06G711U:
		return append([]byte{0x82}, data...)
	}
	panic("audio codec")
}

// AudioSpecificConfig: object type (5) | frequency index (4) | channels (4) | 3 zero bits
func c06Asc(objType, freqIdx, ch int) []byte {
	v := objType<<11 | freqIdx<<7 | ch<<3
	return []byte{byte(v >> 8), byte(v)}
}

// ---- scenarios --------------------------------------------------------------------------------------------------------

type c06Scn struct {
	r   *Rng
	vc  int
	ac  int
	evs []c06Ev
	vts int // next video timestamp (ms)
	ats int // next audio timestamp (ms)
	big int // upper bound of a "large" NAL unit
}

func (s *c06Scn) hevc() bool { return s.vc == c06Hevc || s.vc == c06HevcEnh }

func (s *c06Scn) v(ts int, p []byte) {
	s.evs = append(s.evs, c06Ev{kind: 'v', ts: uint32(ts), payload: p})
}
func (s *c06Scn) a(ts int, p []byte) {
	s.evs = append(s.evs, c06Ev{kind: 'a', ts: uint32(ts), payload: p})
}

func (s *c06Scn) paramSets() (vps, sps, pps []byte) {
	r := s.r
	if s.hevc() {
		return c06Nal(r, true, 32, 2+r.Intn(30)), c06Nal(r, true, 33, 2+r.Intn(60)), c06Nal(r, true, 34, 2+r.Intn(10))
	}
	return nil, c06Nal(r, false, 7, 4+r.Intn(40)), c06Nal(r, false, 8, 2+r.Intn(8))
}

func (s *c06Scn) videoSeqHeader(ts int) {
	vps, sps, pps := s.paramSets()
	switch s.vc {
	case c06Avc:
		s.v(ts, c06AvcSeqHeader(sps, pps))
	case c06Hevc:
		s.v(ts, c06HevcSeqHeader(vps, sps, pps, false))
	case c06HevcEnh:
		s.v(ts, c06HevcSeqHeader(vps, sps, pps, true))
	}
}

func (s *c06Scn) audioSeqHeader(ts int) {
	if s.ac == c06Aac {
		r := s.r
		s.a(ts, c06AudioPayload(c06Aac, true, c06Asc(r.Pick(1, 2, 2, 2, 3, 4), r.Pick(3, 4, 4, 5, 8, 11, 0, 12), r.Pick(1, 2, 2, 6, 7))))
	}
}

func (s *c06Scn) nalSize() int {
	r := s.r
	switch r.Intn(10) {
	case 0:
		return 1 + r.Intn(3)
	case 1:
		return r.Around(157, 162, 165, 170, 184, 1188, 1200, 1201)
	case 2:
		return 1 + r.Intn(s.big)
	default:
		return 3 + r.Intn(400)
	}
}

// one video frame; shape selects what surrounds the slice
func (s *c06Scn) frame(key bool, cts int, inband bool) {
	r := s.r
	hevc := s.hevc()
	var nals [][]byte
	if r.Intn(6) == 0 { // publisher's own AUD
		if hevc {
			nals = append(nals, []byte{0x46, 0x01, 0x50})
		} else {
			nals = append(nals, []byte{0x09, 0xf0})
		}
	}
	if inband {
		vps, sps, pps := s.paramSets()
		if hevc {
			nals = append(nals, vps)
		}
		nals = append(nals, sps, pps)
	}
	if r.Intn(3) == 0 { // SEI
		if hevc {
			nals = append(nals, c06Nal(r, true, 39, 3+r.Intn(40)))
		} else {
			nals = append(nals, c06Nal(r, false, 6, 2+r.Intn(40)))
		}
	}
	slices := 1 + r.Intn(3)
	if r.Intn(3) != 0 {
		slices = 1
	}
	for i := 0; i < slices; i++ {
		typ := 1
		if hevc {
			typ = r.Pick(0, 1, 1, 8, 9)
			if key {
				typ = r.Pick(19, 19, 20, 21, 16)
			}
		} else if key {
			typ = 5
		}
		nals = append(nals, c06Nal(r, hevc, typ, s.nalSize()))
	}
	if hevc && r.Intn(8) == 0 {
		nals = append(nals, c06Nal(r, true, 40, 3+r.Intn(10))) // suffix SEI
	}
	s.v(s.vts, c06VideoPayload(s.vc, key, cts, nals, r.Intn(4) == 0))
}

func (s *c06Scn) audioFrame() {
	r := s.r
	var n int
	switch s.ac {
	case c06Aac:
		n = r.Pick(1, 7, 100, 300, 371, 372, 1000) + r.Intn(20)
	case c06Opus:
		n = 1 + r.Intn(400)
	default:
		n = r.Pick(160, 320, 1, 1200, 1201)
	}
	s.a(s.ats, c06AudioPayload(s.ac, false, r.Bytes(n)))
}

// a whole publish: headers (in some order, possibly late), then interleaved frames
func c06GenScenario(r *Rng, vc, ac int, nFrames int, big int, label *string) []c06Ev {
	s := &c06Scn{r: r, vc: vc, ac: ac, big: big}
	t0 := r.Pick(0, 0, 1000, 47721858, 4294960000) // start time (ms); the last one wraps the uint32 soon
	s.vts, s.ats = t0, t0
	lbl := []string{}
	// headers
	headersLate := r.Intn(8) == 0
	emitHeaders := func() {
		if r.Bool() {
			if vc != c06NoVideo {
				s.videoSeqHeader(s.vts)
			}
			s.audioSeqHeader(s.ats)
		} else {
			s.audioSeqHeader(s.ats)
			if vc != c06NoVideo {
				s.videoSeqHeader(s.vts)
			}
		}
	}
	if !headersLate {
		emitHeaders()
	} else {
		lbl = append(lbl, "late-headers")
	}
	vdur := r.Pick(33, 40, 40, 16, 100)
	adur := 23
	if ac == c06Opus || ac == c06G711A || ac == c06G711U {
		adur = 20
	}
	bframes := r.Intn(3) == 0
	if bframes {
		lbl = append(lbl, "cts")
	}
	gop := r.Pick(1, 5, 12, 30)
	fi := 0
	forceKey := false
	for i := 0; i < nFrames; i++ {
		if headersLate && i == r.Pick(3, 17, 20) {
			emitHeaders()
			headersLate = false
		}
		// next in time order
		doVideo := vc != c06NoVideo && (ac == c06NoAudio || s.vts <= s.ats)
		if doVideo {
			key := fi%gop == 0 || forceKey
			forceKey = false
			cts := 0
			if bframes && !key {
				cts = r.Pick(0, vdur, 2*vdur, 3*vdur)
			}
			inband := r.Intn(10) == 0 && key
			s.frame(key, cts, inband)
			fi++
			s.vts += vdur
		} else {
			s.audioFrame()
			s.ats += adur
			if r.Intn(4) == 0 {
				s.ats-- // 21,21,22 jitter of integer milliseconds
			}
		}
		if r.Intn(40) == 0 { // timestamp jump, both tracks
			j := r.Pick(500, 5000, 100000, -200, -5000)
			if j > 0 {
				lbl = append(lbl, "jumpfwd")
			} else {
				lbl = append(lbl, "jumpback")
			}
			s.vts += j
			s.ats += j
			if s.vts < 0 {
				s.vts = 0
			}
			if s.ats < 0 {
				s.ats = 0
			}
		}
		if r.Intn(60) == 0 && vc != c06NoVideo { // a new sequence header in the middle
			s.videoSeqHeader(s.vts)
			forceKey = true // an encoder restarts with a key frame after new parameter sets
			lbl = append(lbl, "reheader")
		}
	}
	if r.Intn(4) != 0 {
		s.evs = append(s.evs, c06Ev{kind: 'f'}) // Dispose() at the end of the publish
	}
	if label != nil {
		seen := map[string]bool{}
		var u []string
		for _, l := range lbl {
			if !seen[l] {
				seen[l] = true
				u = append(u, l)
			}
		}
		sort.Strings(u)
		*label = strings.Join(u, "+")
	}
	return s.evs
}

func absInt(a int) int {
	if a < 0 {
		return -a
	}
	return a
}

var c06VcName = []string{"avc", "hevc", "hevcx", "nov"}
var c06AcName = []string{"aac", "opus", "pcma", "pcmu", "noa"}

// the NAL units of a video frame message (nil for a sequence header or something else)
func c06FrameNals(p []byte) (nals [][]byte, hevc bool, ok bool) {
	if len(p) < 5 {
		return nil, false, false
	}
	off := 5
	if p[0]&0x80 != 0 {
		hevc = true
		switch p[0] & 0x0f {
		case 1:
			off = 8
		case 3:
			off = 5
		default:
			return nil, hevc, false
		}
	} else {
		hevc = p[0]&0x0f == 12
		if p[1] != 1 {
			return nil, hevc, false
		}
	}
	b := p[off:]
	for len(b) >= 4 {
		n := int(b[0])<<24 | int(b[1])<<16 | int(b[2])<<8 | int(b[3])
		if n > len(b)-4 {
			break
		}
		nals = append(nals, b[4:4+n])
		b = b[4+n:]
	}
	return nals, hevc, true
}

// mirrors Drv.C06O.incompleteGroup
func c06IncompleteGroup(nals [][]byte, hevc bool) bool {
	v, s, pending := false, false, false
	for _, n := range nals {
		if len(n) == 0 {
			continue
		}
		t := int(n[0] & 0x1f)
		vps, sps, pps := false, t == 7, t == 8
		if hevc {
			t = int(n[0]>>1) & 0x3f
			vps, sps, pps = t == 32, t == 33, t == 34
		}
		switch {
		case vps:
			v, pending = true, true
		case sps:
			s, pending = true, true
		case pps:
			if (!hevc && s) || (hevc && v && s) {
				pending = false
			} else {
				return true
			}
		}
	}
	return pending
}

// the scenario class (see c06.go); mirrors Drv.C06O.classOf for the streams this generator builds
func c06Class(evs []c06Ev) string {
	haveV, haveA := false, false
	firstV, firstA := -1, -1
	var vts, ats []uint32
	irregular, psx := false, false
	idx := 0
	for _, e := range evs {
		if e.kind == 'f' {
			continue
		}
		p := e.payload
		if e.kind == 'v' {
			if firstV < 0 {
				firstV = idx
			}
			isSh := false
			if len(p) >= 5 {
				if p[0]&0x80 != 0 {
					isSh = p[0]&0x0f == 0
				} else {
					isSh = p[1] == 0
				}
			}
			if isSh {
				haveV = true
			} else if !haveV {
				irregular = true
			} else {
				vts = append(vts, e.ts)
				if nals, hevc, ok := c06FrameNals(p); ok && c06IncompleteGroup(nals, hevc) {
					psx = true
				}
			}
		} else {
			if firstA < 0 {
				firstA = idx
			}
			if len(p) >= 2 && p[0]>>4 == 10 {
				if p[1] == 0 {
					haveA = true
				} else if !haveA {
					irregular = true
				} else {
					ats = append(ats, e.ts)
				}
			} else {
				ats = append(ats, e.ts)
			}
		}
		idx++
	}
	if irregular {
		return "irr"
	}
	if firstV >= 16 || firstA >= 16 {
		return "late"
	}
	if psx {
		return "psx"
	}
	below := func(ts []uint32) bool {
		for _, t := range ts {
			if t < ts[0] {
				return true
			}
		}
		return false
	}
	if below(vts) || below(ats) {
		return "s22"
	}
	return "wf"
}

func (g *G) c06Emit(label string, evs []c06Ev, rtsp bool, ts bool) {
	s := c06EventsStr(evs)
	cls := c06Class(evs)
	label = cls + "/" + label
	if ts {
		g.L(label).run("c06.ts " + cls + " 0 " + s)
		g.L(label).run("c06.ts " + cls + " 1 " + s)
		if cls == "s22" {
			g.L(label).run("c06.ts s22x 0 " + s)
			g.L(label).run("c06.ts s22x 1 " + s)
		}
	}
	if ts && g.rng.Intn(2) == 0 {
		ms := g.rng.Pick(200, 500, 1000, 3000)
		g.L(label).run(fmt.Sprintf("c06.hls %s %d %s", cls, ms, s))
		if cls == "s22" {
			g.L(label).run(fmt.Sprintf("c06.hls s22x %d %s", ms, s))
		}
	}
	if rtsp {
		rc := cls
		if rc != "late" && rc != "irr" {
			rc = "wf"
		}
		g.L(label).run("c06.rtsp " + rc + " " + s)
	}
}

func genC06(g *G) {
	r := g.rng
	// ---- boundary corpus ----
	g.L("corpus").run("c06.ts wf 0 -")
	g.L("corpus").run("c06.rtsp wf -")
	// every codec pair, short
	for vc := c06Avc; vc <= c06NoVideo; vc++ {
		for ac := c06Aac; ac <= c06NoAudio; ac++ {
			if vc == c06NoVideo && ac == c06NoAudio {
				continue
			}
			evs := c06GenScenario(NewRng(uint64(100+vc*10+ac)), vc, ac, 24, 2000, nil)
			g.c06Emit("corpus-"+c06VcName[vc]+"+"+c06AcName[ac], evs, true, ac != c06G711A && ac != c06G711U || true)
		}
	}
	c06Probes(g)
	c06Corpus(g)
	// ---- seeded scenarios ----
	n := g.scale(260, 600)
	for i := 0; i < n; i++ {
		vc := r.Pick(c06Avc, c06Avc, c06Avc, c06Hevc, c06Hevc, c06HevcEnh, c06NoVideo)
		ac := r.Pick(c06Aac, c06Aac, c06Aac, c06Opus, c06G711A, c06G711U, c06NoAudio)
		if vc == c06NoVideo && ac == c06NoAudio {
			ac = c06Aac
		}
		big := 3000
		if i%10 == 0 {
			big = g.scale(40000, 300*1024)
		}
		var lbl string
		evs := c06GenScenario(r, vc, ac, r.Pick(6, 20, 40, 60), big, &lbl)
		if lbl != "" {
			lbl = "+" + lbl
		}
		g.c06Emit(c06VcName[vc]+"+"+c06AcName[ac]+lbl, evs, true, true)
	}
}

// hand-built scenarios around the parameter-set handling of feedVideo
func c06Probes(g *G) {
	r := NewRng(4242)
	// a track that starts after the 16-message probe window of both remuxers
	for _, lateVideo := range []bool{false, true} {
		s := &c06Scn{r: r, vc: c06Avc, ac: c06Aac, big: 100}
		first := func() {
			if lateVideo {
				s.audioSeqHeader(0)
			} else {
				s.videoSeqHeader(0)
			}
		}
		second := func() {
			if lateVideo {
				s.videoSeqHeader(s.vts)
			} else {
				s.audioSeqHeader(s.ats)
			}
		}
		one := func(video bool) {
			if video {
				s.frame(s.vts%400 == 0, 0, false)
				s.vts += 40
			} else {
				s.audioFrame()
				s.ats += 23
			}
		}
		first()
		for i := 0; i < 17; i++ {
			one(!lateVideo)
		}
		if lateVideo {
			s.vts = s.ats / 400 * 400
		} else {
			s.ats = s.vts
		}
		second()
		for i := 0; i < 12; i++ {
			one(i%2 == 0)
		}
		s.evs = append(s.evs, c06Ev{kind: 'f'})
		n := "probe-late-audio"
		if lateVideo {
			n = "probe-late-video"
		}
		g.c06Emit(n, s.evs, true, true)
	}
	mk := func(vc int) *c06Scn { return &c06Scn{r: r, vc: vc, ac: c06NoAudio, big: 100} }
	for _, vc := range []int{c06Avc, c06Hevc} {
		hevc := vc != c06Avc
		kt, pt := 5, 1 // key / non-key slice types
		if hevc {
			kt, pt = 19, 1
		}
		slice := func(s *c06Scn, typ int) []byte { return c06Nal(s.r, hevc, typ, 20) }
		frame := func(s *c06Scn, key bool, nals ...[]byte) {
			s.v(s.vts, c06VideoPayload(vc, key, 0, nals, false))
			s.vts += 40
		}
		pad := func(s *c06Scn, n int) { // plain P frames, so that the probe filter drains (16 messages)
			for i := 0; i < n; i++ {
				frame(s, false, slice(s, pt))
			}
		}
		name := c06VcName[vc]
		// 1. a PPS alone in-band (new picture parameters for the following pictures)
		{
			s := mk(vc)
			s.videoSeqHeader(0)
			frame(s, true, slice(s, kt))
			_, _, pps := s.paramSets()
			frame(s, false, pps, slice(s, pt))
			pad(s, 16)
			g.c06Emit("probe-lone-pps-"+name, s.evs, true, true)
		}
		// 1b. …and a key frame without in-band sets later on: the cache still holds the old PPS
		{
			s := mk(vc)
			s.videoSeqHeader(0)
			frame(s, true, slice(s, kt))
			_, _, pps := s.paramSets()
			frame(s, false, pps, slice(s, pt))
			pad(s, 3)
			frame(s, true, slice(s, kt))
			pad(s, 16)
			g.c06Emit("probe-lone-pps-then-idr-"+name, s.evs, true, true)
		}
		// 2. complete parameter sets in-band in front of a NON-IDR key frame (open GOP / recovery point)
		{
			s := mk(vc)
			s.videoSeqHeader(0)
			frame(s, true, slice(s, kt))
			vps, sps, pps := s.paramSets()
			if hevc {
				frame(s, true, vps, sps, pps, slice(s, pt))
			} else {
				frame(s, true, sps, pps, slice(s, pt))
			}
			pad(s, 16)
			g.c06Emit("probe-inband-nonidr-"+name, s.evs, true, true)
		}
		// 3. the same, the sets being the ones of the sequence header (what cameras repeat before every I frame)
		{
			s := mk(vc)
			vps, sps, pps := s.paramSets()
			if hevc {
				s.v(0, c06HevcSeqHeader(vps, sps, pps, false))
				frame(s, true, vps, sps, pps, slice(s, kt))
				frame(s, true, vps, sps, pps, slice(s, pt))
			} else {
				s.v(0, c06AvcSeqHeader(sps, pps))
				frame(s, true, sps, pps, slice(s, kt))
				frame(s, true, sps, pps, slice(s, pt))
			}
			pad(s, 16)
			g.c06Emit("probe-inband-same-"+name, s.evs, true, true)
		}
		// 4. an access unit that consists of filtered units only (AUD + parameter sets; for H.265 also SEI)
		{
			s := mk(vc)
			s.videoSeqHeader(0)
			frame(s, true, slice(s, kt))
			if hevc {
				frame(s, false, []byte{0x46, 0x01, 0x50}, c06Nal(s.r, true, 39, 12))
			} else {
				frame(s, false, []byte{0x09, 0xf0})
			}
			pad(s, 16)
			g.c06Emit("probe-aud-only-"+name, s.evs, true, true)
		}
		// 5. SEI + IDR + SEI + IDR + P slice + IDR in one message (spsppsSent bookkeeping)
		{
			s := mk(vc)
			s.videoSeqHeader(0)
			sei := 6
			if hevc {
				sei = 39
			}
			frame(s, true, c06Nal(s.r, hevc, sei, 9), slice(s, kt), c06Nal(s.r, hevc, sei, 9), slice(s, kt), slice(s, pt), slice(s, kt))
			pad(s, 16)
			g.c06Emit("probe-multi-idr-"+name, s.evs, true, true)
		}
	}
}

// boundary corpus: thresholds of the audio batching, S22 witnesses, Opus framing, large units, malformed streams
func c06Corpus(g *G) {
	r := NewRng(777)
	asc := c06Asc(2, 4, 2)
	avcHdr := func(s *c06Scn) { s.videoSeqHeader(0) }
	// --- audio batching: a PES is closed by an audio frame more than 150 ms after its first, by a video frame more than
	// 300 ms after it, by FlushAudio, by a backward timestamp, by its size
	for _, gap := range []int{149, 150, 151} {
		s := &c06Scn{r: r, vc: c06NoVideo, ac: c06Aac}
		s.a(1000, c06AudioPayload(c06Aac, true, asc))
		for i := 0; i < 20; i++ {
			s.a(1000+i*gap/3, c06AudioPayload(c06Aac, false, r.Bytes(50+i)))
		}
		s.evs = append(s.evs, c06Ev{kind: 'f'})
		g.c06Emit(fmt.Sprintf("corpus-batch-audio-%d", gap), s.evs, false, true)
	}
	for _, gap := range []int{299, 300, 301} {
		s := &c06Scn{r: r, vc: c06Avc, ac: c06Aac, big: 50}
		avcHdr(s)
		s.a(0, c06AudioPayload(c06Aac, true, asc))
		s.vts = 0
		s.frame(true, 0, false)
		s.a(10, c06AudioPayload(c06Aac, false, r.Bytes(80)))
		s.a(20, c06AudioPayload(c06Aac, false, r.Bytes(81)))
		s.vts = 10 + gap
		s.frame(false, 0, false)
		s.vts += 40
		s.frame(true, 0, false)
		s.evs = append(s.evs, c06Ev{kind: 'f'})
		g.c06Emit(fmt.Sprintf("corpus-batch-video-%d", gap), s.evs, false, true)
	}
	{ // timestamps that do not advance: the cache is closed before it outgrows PES_packet_length
		s := &c06Scn{r: r, vc: c06NoVideo, ac: c06Aac}
		s.a(5, c06AudioPayload(c06Aac, true, asc))
		for i := 0; i < 75; i++ {
			s.a(5, c06AudioPayload(c06Aac, false, r.Bytes(900+i)))
		}
		s.evs = append(s.evs, c06Ev{kind: 'f'})
		g.c06Emit("corpus-batch-size", s.evs, true, true)
	}
	{ // backward audio jump (not below the first frame)
		s := &c06Scn{r: r, vc: c06NoVideo, ac: c06Aac}
		s.a(0, c06AudioPayload(c06Aac, true, asc))
		for i := 0; i < 12; i++ {
			s.a(10000+i*23, c06AudioPayload(c06Aac, false, r.Bytes(100)))
		}
		for i := 0; i < 20; i++ {
			s.a(5000+i*23, c06AudioPayload(c06Aac, false, r.Bytes(100)))
		}
		s.evs = append([]c06Ev{{kind: 'a', ts: 0, payload: c06AudioPayload(c06Aac, true, asc)}, {kind: 'a', ts: 0, payload: c06AudioPayload(c06Aac, false, r.Bytes(9))}}, s.evs[1:]...)
		s.evs = append(s.evs, c06Ev{kind: 'f'})
		g.c06Emit("corpus-audio-jumpback", s.evs, true, true)
	}
	// --- S22 witnesses: a frame below the first one of its track; the 32-bit millisecond clock wrapping
	{
		s := &c06Scn{r: r, vc: c06Avc, ac: c06NoAudio, big: 50}
		avcHdr(s)
		s.vts = 1000
		s.frame(true, 0, false)
		s.vts = 900
		s.frame(false, 0, false)
		for i := 0; i < 16; i++ {
			s.vts += 40
			s.frame(false, 0, false)
		}
		g.c06Emit("corpus-s22-video", s.evs, false, true)
	}
	{
		s := &c06Scn{r: r, vc: c06NoVideo, ac: c06Aac}
		s.a(4294967000, c06AudioPayload(c06Aac, true, asc))
		t := 4294967000
		for i := 0; i < 30; i++ {
			s.a(t&0xffffffff, c06AudioPayload(c06Aac, false, r.Bytes(60)))
			t += 23
		}
		s.evs = append(s.evs, c06Ev{kind: 'f'})
		g.c06Emit("corpus-s22-clock-wrap", s.evs, false, true)
	}
	// --- Opus: one packet per PES; DTX (one byte); the control header of Opus-in-TS
	{
		s := &c06Scn{r: r, vc: c06NoVideo, ac: c06Opus}
		for i, n := range []int{1, 2, 3, 100, 254, 255, 256, 509, 510, 511, 1275, 1, 40, 40, 40, 40, 40, 40} {
			s.a(i*20, c06AudioPayload(c06Opus, false, r.Bytes(n)))
		}
		g.c06Emit("corpus-opus", s.evs, true, true)
		g.L("corpus-opus").run("c06.tsopus " + c06EventsStr(s.evs))
	}
	{ // G.711, one-byte frames included
		for _, ac := range []int{c06G711A, c06G711U} {
			s := &c06Scn{r: r, vc: c06NoVideo, ac: ac}
			for i, n := range []int{1, 2, 160, 320, 1199, 1200, 1201, 2401, 1, 160, 160, 160, 160, 160, 160, 160, 160, 160} {
				s.a(i*20, c06AudioPayload(ac, false, r.Bytes(n)))
			}
			g.c06Emit("corpus-g711", s.evs, true, false)
		}
	}
	// --- one large key frame: NAL units around the FU and TS packet boundaries and a big one
	for _, vc := range []int{c06Avc, c06Hevc, c06HevcEnh} {
		s := &c06Scn{r: r, vc: vc, ac: c06NoAudio}
		s.videoSeqHeader(0)
		hevc := vc != c06Avc
		kt := 5
		if hevc {
			kt = 19
		}
		for i, n := range []int{1, 2, 3, 153, 154, 157, 158, 162, 163, 184, 185, 1198, 1199, 1200, 1201, 1202, 2397, 2398, 2399, g.scale(70000, 300*1024)} {
			if hevc && n < 2 {
				n = 2
			}
			s.v(i*40, c06VideoPayload(vc, true, 0, [][]byte{c06Nal(r, hevc, kt, n)}, false))
		}
		g.c06Emit("corpus-sizes-"+c06VcName[vc], s.evs, true, true)
	}
	// --- lone in-band parameter sets (the incomplete-group class): a key frame that brings only a PPS, a P frame that brings
	// only an SPS (H.265: only a VPS), with frames and audio around them; then a complete group again
	for _, vc := range []int{c06Avc, c06Hevc} {
		for variant := 0; variant < 3; variant++ {
			s := &c06Scn{r: r, vc: vc, ac: c06Aac}
			hevc := vc != c06Avc
			s.videoSeqHeader(0)
			s.audioSeqHeader(0)
			kt, pt := 5, 1
			if hevc {
				kt, pt = 19, 1
			}
			vps, sps, pps := s.paramSets()
			ts := 0
			vf := func(key bool, nals ...[]byte) {
				s.v(ts, c06VideoPayload(vc, key, 0, nals, false))
				ts += 40
			}
			af := func() { s.a(ts-20, c06AudioPayload(c06Aac, false, r.Bytes(30))) }
			vf(true, c06Nal(r, hevc, kt, 40))
			af()
			vf(false, c06Nal(r, hevc, pt, 30))
			switch variant {
			case 0: // key frame with a PPS only
				vf(true, pps, c06Nal(r, hevc, kt, 40))
			case 1: // P frame that carries an SPS (H.265: a VPS) only
				if hevc {
					vf(false, vps, c06Nal(r, hevc, pt, 30))
				} else {
					vf(false, sps, c06Nal(r, hevc, pt, 30))
				}
			case 2: // SPS in one message, PPS in the next
				vf(false, sps, c06Nal(r, hevc, pt, 30))
				vf(true, pps, c06Nal(r, hevc, kt, 40))
			}
			for i := 0; i < 6; i++ {
				af()
				vf(i == 3, c06Nal(r, hevc, map[bool]int{true: kt, false: pt}[i == 3], 35))
			}
			if hevc {
				vf(true, vps, sps, pps, c06Nal(r, hevc, kt, 40))
			} else {
				vf(true, sps, pps, c06Nal(r, hevc, kt, 40))
			}
			vf(false, c06Nal(r, hevc, pt, 30))
			g.c06Emit(fmt.Sprintf("corpus-lone-parameter-set-%d-%s", variant, c06VcName[vc]), s.evs, true, true)
			for _, ms := range []int{200, 1000} {
				g.L("corpus-lone-parameter-set").run(fmt.Sprintf("c06.hls %s %d %s", c06Class(s.evs), ms, c06EventsStr(s.evs)))
			}
		}
	}
	// --- PES_packet_length boundary: the elementary stream of a frame (AUD + start code + NAL) walking across 65527..65536,
	// with and without a composition offset (PTS+DTS header is 5 bytes longer)
	for _, vc := range []int{c06Avc, c06Hevc} {
		s := &c06Scn{r: r, vc: vc, ac: c06NoAudio}
		s.videoSeqHeader(0)
		hevc := vc != c06Avc
		kt, pt, aud := 5, 1, 6
		if hevc {
			kt, pt, aud = 19, 1, 7
		}
		s.v(0, c06VideoPayload(vc, true, 0, [][]byte{c06Nal(r, hevc, kt, 50)}, false))
		i := 1
		for es := 65520; es <= 65537; es++ {
			n := es - aud - 3 // AUD, then a 3-byte start code in front of the only NAL unit
			cts := 0
			if es%2 == 1 {
				cts = 40
			}
			s.v(i*40, c06VideoPayload(vc, false, cts, [][]byte{c06Nal(r, hevc, pt, n)}, false))
			i++
		}
		g.c06Emit("corpus-pes-length-"+c06VcName[vc], s.evs, false, true)
	}
	// --- malformed streams (no claim: correspondence only). Truncated / mutated frames; the remuxers must agree with the
	// model on what they drop. Payloads stay long enough for the unguarded header reads (C05's subject).
	for i := 0; i < g.scale(40, 400); i++ {
		vc := r.Pick(c06Avc, c06Hevc, c06HevcEnh)
		evs := c06GenScenario(r, vc, r.Pick(c06Aac, c06Opus, c06NoAudio), 24, 600, nil)
		for k := 0; k < 1+r.Intn(3); k++ {
			j := r.Intn(len(evs))
			if evs[j].kind == 'f' {
				continue
			}
			p := append([]byte(nil), evs[j].payload...)
			isSh := evs[j].kind == 'v' && len(p) >= 5 && ((p[0]&0x80 != 0 && p[0]&0x0f == 0) || (p[0]&0x80 == 0 && p[1] == 0))
			m := r.Intn(4)
			if isSh && m == 0 {
				m = 1 // a truncated sequence header runs into the unguarded reads of hevc.parseVpsSpsPpsFromRecord (C05's subject)
			}
			switch m {
			case 0: // truncate, keeping the tag header
				keep := 6
				if evs[j].kind == 'a' {
					keep = 3
				}
				if len(p) > keep {
					p = p[:keep+r.Intn(len(p)-keep)]
				}
			case 1: // flip a byte behind the tag header
				if len(p) > 9 {
					p[9+r.Intn(len(p)-9)] ^= byte(1 + r.Intn(255))
				}
			case 2: // wrong NAL length field
				if len(p) > 9 && evs[j].kind == 'v' {
					p[8] ^= byte(1 + r.Intn(255))
				}
			case 3: // drop the message
				p = nil
			}
			if p == nil {
				evs = append(evs[:j], evs[j+1:]...)
			} else {
				evs[j].payload = p
			}
		}
		s := c06EventsStr(evs)
		g.L("x/malformed").run("c06.ts x " + fmt.Sprint(r.Intn(2)) + " " + s)
		g.L("x/malformed").run("c06.rtsp x " + s)
		if r.Intn(3) == 0 {
			g.L("x/malformed").run("c06.hls x 500 " + s)
		}
	}
}
