package main

import (
	"fmt"
	"go/ast"
	"go/parser"
	"go/token"
	"path/filepath"
	"strconv"
	"strings"
	"time"

	"github.com/q191201771/lal/pkg/base"
	"github.com/q191201771/lal/pkg/hls"
	"github.com/q191201771/lal/pkg/mpegts"
	"github.com/q191201771/naza/pkg/filesystemlayer"
	"github.com/q191201771/naza/pkg/mock"
)

// C10 — HLS playlists and segments are consistent at every instant.
//
// One op is one whole scenario: a real hls.Muxer (NewMuxer + Start + FeedPatPmt + FeedMpegts + Dispose, possibly
// re-published on the same directory) is driven over an instrumented in-memory file-system layer that LOGS every call.
//
//	hls.run <fragment_duration_ms> <fragment_num> <delete_threshold> <cleanup_mode> <ev;ev;...>
//	   => <ops of ev1>;<ops of ev2>;...      ("-" = the event touched nothing; ops of one event joined by ",")
//
// events:  S                                 publish: NewMuxer("s") + Start()
//          P:<hex>                           FeedPatPmt
//          A:<pts>:<boundary>:<hex>          the remuxer caches an audio frame; the observer's OnFragmentOpen feeds it
//                                            back into FeedMpegts (what Group.OnFragmentOpen → FlushAudio does)
//          F:<a|v>:<pts>:<dts>:<key>:<boundary>:<now_ms>:<hex>   FeedMpegts at wall-clock <now_ms>
//          D                                 unpublish: Dispose()
//          C                                 the delayed task of ServerManager.CleanupHlsIfNeeded fires
// ops:     mkdir:<p> create:<p> write:<p>:<hex> close:<p> wf:<p>:<hex> mv:<a>:<b> rm:<p>:<found> rd:<p>:<found> rmall:<p>

const (
	c10Root   = "h"
	c10Stream = "s"
)

// ---- instrumented file-system layer ---------------------------------------------------------------------------------

type c10Fsl struct {
	mem   *filesystemlayer.FslMemory
	log   []string
	quiet bool            // mass search: do not render bytes
	open  map[string]bool // files a writer still holds
	chk   *c10Checker     // consulted after every single operation
}

func (s *c10Fsl) rec(e string) {
	s.log = append(s.log, e)
	if s.chk != nil {
		s.chk.afterOp()
	}
}

func (s *c10Fsl) hx(b []byte) string {
	if s.quiet {
		return "."
	}
	return hx(b)
}

type c10File struct {
	fsl  *c10Fsl
	name string
	f    filesystemlayer.IFile
}

func (f *c10File) Write(b []byte) (int, error) {
	n, err := f.f.Write(b)
	f.fsl.rec("write:" + f.name + ":" + f.fsl.hx(b))
	return n, err
}

func (f *c10File) Close() error {
	err := f.f.Close()
	delete(f.fsl.open, f.name)
	f.fsl.rec("close:" + f.name)
	return err
}

func c10Found(err error) string {
	if err == nil {
		return "1"
	}
	return "0"
}

func (s *c10Fsl) Type() filesystemlayer.FslType { return filesystemlayer.FslTypeMemory }
func (s *c10Fsl) Create(name string) (filesystemlayer.IFile, error) {
	f, err := s.mem.Create(name)
	s.open[name] = true
	s.rec("create:" + name)
	if err != nil {
		return nil, err
	}
	return &c10File{fsl: s, name: name, f: f}, nil
}
func (s *c10Fsl) Rename(a, b string) error {
	err := s.mem.Rename(a, b)
	s.rec("mv:" + a + ":" + b)
	return err
}
func (s *c10Fsl) MkdirAll(p string, perm uint32) error {
	err := s.mem.MkdirAll(p, perm)
	s.rec("mkdir:" + p)
	return err
}
func (s *c10Fsl) Remove(p string) error {
	err := s.mem.Remove(p)
	s.rec("rm:" + p + ":" + c10Found(err))
	return err
}
func (s *c10Fsl) RemoveAll(p string) error {
	err := s.mem.RemoveAll(p)
	s.rec("rmall:" + p)
	return err
}
func (s *c10Fsl) ReadFile(p string) ([]byte, error) {
	b, err := s.mem.ReadFile(p)
	s.rec("rd:" + p + ":" + c10Found(err))
	return b, err
}
func (s *c10Fsl) WriteFile(p string, data []byte, perm uint32) error {
	err := s.mem.WriteFile(p, data, perm)
	s.rec("wf:" + p + ":" + s.hx(data))
	return err
}

// ---- controlled clock (hls.Clock is exported) -----------------------------------------------------------------------

type c10Clock struct{ ms int64 }

func (c *c10Clock) Now() time.Time                       { return time.Unix(c.ms/1000, (c.ms%1000)*1e6) }
func (c *c10Clock) NewTimer(d time.Duration) *mock.Timer { return nil }
func (c *c10Clock) Sleep(d time.Duration)                {}
func (c *c10Clock) Add(d time.Duration)                  {}
func (c *c10Clock) Set(t time.Time)                      {}

// ---- observer: what logic.Group does on OnFragmentOpen ---------------------------------------------------------------

type c10Pending struct {
	frame    mpegts.Frame
	boundary bool
	pkts     []byte
}

type c10Obs struct {
	mux     *hls.Muxer
	pending *c10Pending
}

func (o *c10Obs) OnHlsMakeTs(info base.HlsMakeTsInfo) {}
func (o *c10Obs) OnFragmentOpen() {
	if o.pending == nil {
		return
	}
	p := o.pending
	o.pending = nil // the remuxer resets its cache before the callback
	o.mux.FeedMpegts(p.pkts, &p.frame, p.boundary)
}

func c10Frame(audio bool, pts, dts uint64, key bool) mpegts.Frame {
	f := mpegts.Frame{Pts: pts, Dts: dts, Key: key, Pid: mpegts.PidVideo, Sid: mpegts.StreamIdVideo}
	if audio {
		f.Pid, f.Sid = mpegts.PidAudio, mpegts.StreamIdAudio
	}
	return f
}

func c10Run(a []string) string {
	out, _ := c10Exec(a, nil)
	return out
}

// c10Exec runs one scenario. With a checker the directory is inspected after every single file-system operation by
// the harness's own reader (the search's pre-filter; the verdict that counts is the Lean oracle's).
func c10Exec(a []string, chk *c10Checker) (string, string) {
	cfg := &hls.MuxerConfig{OutPath: c10Root, FragmentDurationMs: atoi(a[0]), FragmentNum: atoi(a[1]), DeleteThreshold: atoi(a[2]), CleanupMode: atoi(a[3])}
	fsl := &c10Fsl{mem: filesystemlayer.NewFslMemory(), open: map[string]bool{}}
	if chk != nil {
		chk.fsl, chk.dir, chk.delThr = fsl, filepath.Join(c10Root, c10Stream), cfg.DeleteThreshold
		fsl.chk, fsl.quiet = chk, true
	}
	old := hls.VerifSetFsl(fsl)
	defer hls.VerifSetFsl(old)
	clk := &c10Clock{}
	oldClk := hls.Clock
	hls.Clock = clk
	defer func() { hls.Clock = oldClk }()

	obs := &c10Obs{}
	var groups []string
	for _, ev := range strings.Split(a[4], ";") {
		f := strings.Split(ev, ":")
		fsl.log = fsl.log[:0]
		switch f[0] {
		case "S":
			if obs.mux == nil {
				obs.pending = nil
				obs.mux = hls.NewMuxer(c10Stream, cfg, obs)
				obs.mux.Start()
			}
		case "P":
			if obs.mux != nil {
				obs.mux.FeedPatPmt(unhx(f[1]))
			}
		case "A":
			pts := atou64(f[1])
			obs.pending = &c10Pending{frame: c10Frame(true, pts, pts, false), boundary: f[2] == "1", pkts: unhx(f[3])}
		case "F":
			if obs.mux != nil {
				fr := c10Frame(f[1] == "a", atou64(f[2]), atou64(f[3]), f[4] == "1")
				clk.ms = int64(atou64(f[6]))
				obs.mux.FeedMpegts(unhx(f[7]), &fr, f[5] == "1")
			}
		case "D":
			if obs.mux != nil {
				obs.mux.Dispose()
				obs.mux = nil
			}
		case "C":
			// ServerManager.CleanupHlsIfNeeded's deferred task (the guard is re-stated here; see p_C10.py)
			if cfg.CleanupMode == hls.CleanupModeInTheEnd || cfg.CleanupMode == hls.CleanupModeAsap {
				if obs.mux == nil {
					_ = hls.RemoveAll(filepath.Join(c10Root, c10Stream))
				}
			}
		default:
			panic("bad event " + ev)
		}
		if len(fsl.log) == 0 {
			groups = append(groups, "-")
		} else {
			groups = append(groups, strings.Join(fsl.log, ","))
		}
	}
	bad := ""
	if chk != nil {
		bad = chk.bad
	}
	return strings.Join(groups, ";"), bad
}

// ---- the harness's own reader of the directory (search pre-filter) ----------------------------------------------------

type c10Pl struct {
	target, seq int
	ended       bool
	discont     []bool
	ms          []int
	uri         []string
}

type c10Checker struct {
	fsl        *c10Fsl
	dir        string
	delThr     int
	keyG, patG bool
	versions   []c10Pl
	lastText   string
	bad        string
	instants   int
}

func c10ParseM3u8(text string) (pl c10Pl, ok bool) {
	lines := strings.Split(text, "\n")
	if len(lines) < 2 || lines[0] != "#EXTM3U" || lines[len(lines)-1] != "" {
		return pl, false
	}
	pl.target, pl.seq = -1, 0
	seenSeq, inf, disc := false, -1, false
	for _, l := range lines[1 : len(lines)-1] {
		switch {
		case l == "":
		case pl.ended:
			return pl, false
		case strings.HasPrefix(l, "#EXT-X-VERSION:"), strings.HasPrefix(l, "#EXT-X-ALLOW-CACHE:"):
		case strings.HasPrefix(l, "#EXT-X-TARGETDURATION:"):
			v, err := strconv.Atoi(l[len("#EXT-X-TARGETDURATION:"):])
			if err != nil || pl.target >= 0 {
				return pl, false
			}
			pl.target = v
		case strings.HasPrefix(l, "#EXT-X-MEDIA-SEQUENCE:"):
			v, err := strconv.Atoi(l[len("#EXT-X-MEDIA-SEQUENCE:"):])
			if err != nil || seenSeq || len(pl.uri) > 0 {
				return pl, false
			}
			pl.seq, seenSeq = v, true
		case strings.HasPrefix(l, "#EXTINF:"):
			v := strings.TrimSuffix(l[len("#EXTINF:"):], ",")
			parts := strings.Split(v, ".")
			if inf >= 0 || len(parts) != 2 || len(parts[1]) != 3 || !strings.HasSuffix(l, ",") {
				return pl, false
			}
			a, e1 := strconv.Atoi(parts[0])
			b, e2 := strconv.Atoi(parts[1])
			if e1 != nil || e2 != nil {
				return pl, false
			}
			inf = a*1000 + b
		case l == "#EXT-X-DISCONTINUITY":
			disc = true
		case l == "#EXT-X-ENDLIST":
			pl.ended = true
		case strings.HasPrefix(l, "#"):
			return pl, false
		default:
			if inf < 0 {
				return pl, false
			}
			pl.uri, pl.ms, pl.discont = append(pl.uri, l), append(pl.ms, inf), append(pl.discont, disc)
			inf, disc = -1, false
		}
	}
	return pl, pl.target >= 0 && inf < 0 && !disc
}

func c10Pid(p []byte) int { return int(p[1]&0x1f)<<8 | int(p[2]) }

func (k *c10Checker) segment(uri string, discont bool, key bool) string {
	p := k.dir + "/" + uri
	b, err := k.fsl.mem.ReadFile(p)
	if err != nil {
		return "listed-segment-missing"
	}
	if k.fsl.open[p] {
		return "listed-segment-still-open"
	}
	if len(b)%188 != 0 {
		return "segment-not-whole-packets"
	}
	if !k.patG {
		return ""
	}
	if len(b) < 376 || b[0] != 0x47 || b[188] != 0x47 || c10Pid(b) != int(mpegts.PidPat) || c10Pid(b[188:]) != int(mpegts.PidPmt) {
		return "segment-no-pat-pmt-first"
	}
	if !key || !k.keyG || discont {
		return ""
	}
	for o := 376; o < len(b); o += 188 {
		q := b[o : o+188]
		if q[0] != 0x47 {
			return "segment-sync-byte"
		}
		if c10Pid(q) == int(mpegts.PidVideo) && q[1]&0x40 != 0 {
			if q[3]&0x20 != 0 && q[4] > 0 && q[5]&0x40 != 0 {
				return ""
			}
			return "segment-first-video-not-key"
		}
	}
	return ""
}

func (k *c10Checker) playlist(pl c10Pl, key bool) string {
	for i := range pl.uri {
		if (pl.ms[i]+500)/1000 > pl.target {
			return "target-duration-below-rounded-extinf"
		}
		if w := k.segment(pl.uri[i], pl.discont[i], key); w != "" {
			return w
		}
	}
	return ""
}

func (k *c10Checker) afterOp() {
	k.instants++
	if k.bad != "" {
		return
	}
	k.bad = k.check()
}

func (k *c10Checker) check() string {
	b, err := k.fsl.mem.ReadFile(k.dir + "/playlist.m3u8")
	if err != nil {
		k.versions, k.lastText = nil, ""
	} else {
		pl, ok := c10ParseM3u8(string(b))
		if !ok {
			return "playlist-malformed"
		}
		if string(b) != k.lastText || len(k.versions) == 0 {
			if len(k.versions) > 0 && pl.seq < k.versions[0].seq {
				return "media-sequence-decreased"
			}
			k.versions = append([]c10Pl{pl}, k.versions...)
			k.lastText = string(b)
		}
		if w := k.playlist(pl, true); w != "" {
			return w
		}
		for i := 1; i < len(k.versions) && i <= k.delThr; i++ {
			for _, u := range k.versions[i].uri {
				if _, err := k.fsl.mem.ReadFile(k.dir + "/" + u); err != nil {
					return "segment-of-recent-version-deleted"
				}
			}
		}
	}
	if b, err := k.fsl.mem.ReadFile(k.dir + "/record.m3u8"); err == nil {
		pl, ok := c10ParseM3u8(string(b))
		if !ok || !pl.ended {
			return "record-malformed"
		}
		if w := k.playlist(pl, false); w != "" {
			return "record-" + w
		}
	}
	return ""
}

func init() {
	ops["hls.run"] = c10Run
	gens["C10"] = genC10
	extractors["C10"] = extractC10
}

// ---- regenerated facts ---------------------------------------------------------------------------------------------

// c10ConstInt evaluates a package-level constant whose value is a product/sum of integer literals.
func c10ConstInt(path, name string) (int64, error) {
	fset := token.NewFileSet()
	f, err := parser.ParseFile(fset, path, nil, 0)
	if err != nil {
		return 0, err
	}
	var eval func(e ast.Expr) (int64, error)
	eval = func(e ast.Expr) (int64, error) {
		switch x := e.(type) {
		case *ast.BasicLit:
			return strconv.ParseInt(x.Value, 0, 64)
		case *ast.ParenExpr:
			return eval(x.X)
		case *ast.BinaryExpr:
			l, err := eval(x.X)
			if err != nil {
				return 0, err
			}
			r, err := eval(x.Y)
			if err != nil {
				return 0, err
			}
			switch x.Op {
			case token.MUL:
				return l * r, nil
			case token.ADD:
				return l + r, nil
			case token.SUB:
				return l - r, nil
			}
		}
		return 0, fmt.Errorf("%s: unsupported constant expression", name)
	}
	for _, d := range f.Decls {
		gd, ok := d.(*ast.GenDecl)
		if !ok || gd.Tok != token.CONST {
			continue
		}
		for _, s := range gd.Specs {
			vs := s.(*ast.ValueSpec)
			for i, n := range vs.Names {
				if n.Name == name && i < len(vs.Values) {
					return eval(vs.Values[i])
				}
			}
		}
	}
	return 0, fmt.Errorf("constant %s not found in %s", name, path)
}

func extractC10(repo string) (string, error) {
	var sb strings.Builder
	v, err := c10ConstInt(filepath.Join(repo, "pkg", "hls", "hls.go"), "negMaxfraglen")
	if err != nil {
		return "", err
	}
	leanNat(&sb, "c10NegMaxfraglen", "hls.negMaxfraglen (unexported; pkg/hls/hls.go), 90 kHz ticks", v)
	leanNat(&sb, "c10CleanupNever", "hls.CleanupModeNever", int64(hls.CleanupModeNever))
	leanNat(&sb, "c10CleanupInTheEnd", "hls.CleanupModeInTheEnd", int64(hls.CleanupModeInTheEnd))
	leanNat(&sb, "c10CleanupAsap", "hls.CleanupModeAsap", int64(hls.CleanupModeAsap))
	return sb.String(), nil
}

// ---- generator --------------------------------------------------------------------------------------------------------

type c10Gen struct {
	g       *G
	vcc     uint8
	acc     uint8
	evs     []string
	now     uint64
	hasPend bool
}

func (s *c10Gen) pkts(audio bool, pts, dts uint64, key bool, n int) []byte {
	f := c10Frame(audio, pts, dts, key)
	if audio {
		f.Cc = s.acc
	} else {
		f.Cc = s.vcc
	}
	f.Raw = s.g.rng.Bytes(n)
	out := f.Pack()
	if audio {
		s.acc = f.Cc
	} else {
		s.vcc = f.Cc
	}
	return out
}

func c10Bit(b bool) string {
	if b {
		return "1"
	}
	return "0"
}

func (s *c10Gen) start() { s.evs = append(s.evs, "S") }
func (s *c10Gen) patpmt(video, audio bool) {
	v, a := -1, -1
	if video {
		v = int(base.RtmpCodecIdAvc)
	}
	if audio {
		a = int(base.RtmpSoundFormatAac)
	}
	b := append(mpegts.PackPat(), mpegts.PackPmt(v, a)...)
	s.evs = append(s.evs, "P:"+hx(b))
}
func (s *c10Gen) frame(audio bool, ms uint64, key, boundary bool) {
	n := 20 + s.g.rng.Intn(40)
	if s.g.rng.Intn(6) == 0 {
		n = 200 + s.g.rng.Intn(150) // two packets
	}
	ts := ms * 90
	p := s.pkts(audio, ts, ts, key, n)
	t := "v"
	if audio {
		t = "a"
	}
	s.evs = append(s.evs, fmt.Sprintf("F:%s:%d:%d:%s:%s:%d:%s", t, ts, ts, c10Bit(key), c10Bit(boundary), s.now, hx(p)))
}
func (s *c10Gen) pend(ms uint64, boundary bool) {
	ts := ms * 90
	p := s.pkts(true, ts, ts, false, 20+s.g.rng.Intn(30))
	s.evs = append(s.evs, fmt.Sprintf("A:%d:%s:%s", ts, c10Bit(boundary), hx(p)))
}
func (s *c10Gen) dispose() { s.evs = append(s.evs, "D") }
func (s *c10Gen) cleanup() { s.evs = append(s.evs, "C") }

func (s *c10Gen) op(fragDur, fragNum, delThr, cleanup int) string {
	return fmt.Sprintf("hls.run %d %d %d %d %s", fragDur, fragNum, delThr, cleanup, strings.Join(s.evs, ";"))
}

func (s *c10Gen) emit(label string, fragDur, fragNum, delThr, cleanup int) {
	s.g.L(label).run(s.op(fragDur, fragNum, delThr, cleanup))
}

// c10Session appends one publish…unpublish session: GOPs of gopMs(i) milliseconds, frame every stepMs.
func (s *c10Gen) session(t0 uint64, gops []int, stepMs int, video, audio bool, wall0 uint64) uint64 {
	s.start()
	s.patpmt(video, audio)
	t := t0
	s.now = wall0
	for _, gop := range gops {
		first := true
		for el := 0; el < gop; el += stepMs {
			if video {
				s.frame(false, t+uint64(el), first, first)
			}
			if audio {
				// with video the remuxer proposes a boundary only on key frames; audio-only: on every audio frame
				s.frame(true, t+uint64(el), false, !video)
			}
			first = false
			s.now += uint64(stepMs)
		}
		t += uint64(gop)
	}
	s.dispose()
	return t
}

func genC10(g *G) {
	// the delayed cleanup of an ended publish must spare a re-publish of the same name (server level, real timer)
	for _, mode := range []int{1, 2, 0} {
		g.L("republish-inside-cleanup-delay").run(fmt.Sprintf("hls.republish %d", mode))
	}
	// HLS served over http only, https only, both, neither: when the input ends the muxer is disposed and the playlist finalised
	for _, c := range []string{"1 0", "0 1", "1 1", "0 0"} {
		g.L("hls-ends-" + strings.ReplaceAll(c, " ", "")).run("hls.ends " + c)
	}
	// ---- boundary corpus (runs first) ----
	// S19 witness: durations 3.4 s then 3.8 s, target duration must be >= 4
	{
		s := &c10Gen{g: g}
		s.session(1000, []int{3400, 3800, 1000}, 200, true, false, 1700000000000)
		s.emit("corpus-s19-3.4-3.8", 3000, 6, 1, 0)
	}
	// fragment_duration_ms with a fraction >= .5 and no longer fragment
	{
		s := &c10Gen{g: g}
		s.session(0, []int{3500, 3600, 3500}, 500, true, false, 1700000000000)
		s.emit("corpus-s19-frac", 3500, 3, 0, 2)
	}
	// ring wrap in every cleanup mode, delete_threshold 0 and > 0
	for _, cm := range []int{0, 1, 2} {
		for _, dt := range []int{0, 1, 3} {
			s := &c10Gen{g: g}
			gops := make([]int, 9)
			for i := range gops {
				gops[i] = 1000
			}
			s.session(500, gops, 250, true, true, 1700000000000)
			if cm != 0 {
				s.cleanup()
			}
			s.emit("corpus-ring", 1000, 2, dt, cm)
		}
	}
	// audio only
	{
		s := &c10Gen{g: g}
		s.session(0, []int{2000, 2000, 2000, 500}, 100, false, true, 1700000000000)
		s.emit("corpus-audio-only", 2000, 3, 1, 2)
	}
	// forward jump (> 10 x target) and backward jump (> 1 s), no key frame for a long time
	{
		s := &c10Gen{g: g}
		s.start()
		s.patpmt(true, false)
		s.now = 1700000000000
		s.frame(false, 1000, true, true)
		s.frame(false, 1500, false, false)
		s.frame(false, 20000, false, false) // forced split forward
		s.frame(false, 20500, false, false)
		s.frame(false, 18000, false, false) // forced split backward
		s.frame(false, 19200, true, true)
		s.frame(false, 19300, false, false)
		s.now += 5
		s.frame(false, 31000, true, true) // forced split and boundary in one call: the stale `f` pointer
		s.dispose()
		s.emit("corpus-jumps", 1000, 3, 1, 2)
	}
	// audio flushed by OnFragmentOpen, including one that is more than 1 s older than the key frame
	{
		s := &c10Gen{g: g}
		s.start()
		s.patpmt(true, true)
		s.now = 1700000000000
		s.pend(900, false)
		s.frame(false, 1000, true, true)
		s.frame(false, 2100, false, false)
		s.pend(2000, false)
		s.frame(false, 2200, true, true)
		s.pend(500, false)
		s.frame(false, 3400, true, true)
		s.frame(false, 3500, false, false)
		s.dispose()
		s.emit("corpus-flush-audio", 1000, 3, 1, 0)
	}
	// re-publish on the same directory, with and without the cleanup task in between
	for _, cm := range []int{0, 1, 2} {
		s := &c10Gen{g: g}
		t := s.session(0, []int{1000, 1000, 1000, 1000, 1000}, 500, true, false, 1700000000000)
		if cm == 1 {
			s.cleanup()
		}
		s.evs = append(s.evs, "C")
		t = s.session(t+7000, []int{1000, 1200, 1000}, 500, true, false, 1700000100000)
		s.cleanup()
		s.session(t, []int{1000, 1000}, 500, true, false, 1700000200000)
		s.emit("corpus-republish", 1000, 2, 1, cm)
	}
	// no boundary at all, dispose without a fragment
	{
		s := &c10Gen{g: g}
		s.start()
		s.patpmt(true, false)
		s.now = 1700000000000
		s.frame(false, 0, false, false)
		s.frame(false, 40, false, false)
		s.dispose()
		s.emit("corpus-never-opened", 3000, 6, 1, 1)
	}

	// the stale `f` pointer of updateFragment: forced split, then the flushed audio (more than 1 s older) forces a second
	// split inside OnFragmentOpen; back in the outer call `ts > fragTs` holds again and the duration of the CLOSED fragment grows
	{
		s := &c10Gen{g: g}
		s.start()
		s.patpmt(true, true)
		s.now = 1700000000000
		s.frame(false, 1000, true, true)
		s.frame(false, 1900, false, false)
		s.pend(60000, false)
		s.frame(false, 62000, true, true)
		s.frame(false, 62500, false, false)
		s.frame(false, 63100, true, true)
		s.dispose()
		s.emit("corpus-stale-frag-pointer", 1000, 3, 1, 0)
	}
	// the cleanup task fires while the stream is live again: it must not touch the directory
	for _, cm := range []int{1, 2} {
		s := &c10Gen{g: g}
		t := s.session(0, []int{1000, 1000, 1000}, 500, true, false, 1700000000000)
		s.start()
		s.patpmt(true, false)
		s.now = 1700000050000
		s.frame(false, t, true, true)
		s.cleanup()
		s.frame(false, t+1100, true, true)
		s.cleanup()
		s.frame(false, t+2200, true, true)
		s.dispose()
		s.cleanup()
		s.emit("corpus-cleanup-spares-live", 1000, 2, 0, cm)
	}
	// events that must be no-ops: feed / dispose without a muxer, publish twice, PAT/PMT change in the middle
	{
		s := &c10Gen{g: g}
		s.now = 1700000000000
		s.frame(false, 0, true, true)
		s.dispose()
		s.start()
		s.start()
		s.patpmt(true, false)
		s.frame(false, 0, true, true)
		s.patpmt(true, true)
		s.frame(false, 1500, true, true)
		s.frame(true, 1600, false, false)
		s.dispose()
		s.dispose()
		s.emit("corpus-noop-events", 1000, 1, 0, 2)
	}
	// degenerate ring sizes
	for _, fn := range []int{0, 1} {
		s := &c10Gen{g: g}
		s.session(0, []int{1000, 1000, 1000, 1000}, 500, true, false, 1700000000000)
		s.emit("corpus-tiny-ring", 1000, fn, 0, 2)
	}

	// ---- seeded random scenarios ----
	n := g.scale(150, 4000)
	for i := 0; i < n; i++ {
		op, label := c10Random(g)
		g.L(label).run(op)
	}
	n = g.scale(40, 1500)
	for i := 0; i < n; i++ {
		g.L("adversarial").run(c10Adversarial(g))
	}

	// ---- mass search: many more scenarios, judged after every single operation by the harness's own reader; only
	// scenarios it objects to are handed to the model and the Lean oracle (which then decide)
	n = g.scale(2500, 120000)
	instants, flagged := 0, 0
	for i := 0; i < n; i++ {
		var op string
		k := &c10Checker{}
		if i%4 == 3 {
			op = c10Adversarial(g)
		} else {
			op, _ = c10Random(g)
			k.keyG, k.patG = true, true
		}
		_, bad := c10Exec(strings.Fields(op)[1:], k)
		instants += k.instants
		if bad != "" {
			flagged++
			g.L("search-flagged-" + bad).run(op)
		}
	}
	g.hist["hls.run/search-scenarios"] += n
	g.hist["hls.run/search-instants-checked"] += instants
	g.hist["hls.run/search-flagged"] += flagged
}

// c10Adversarial: frame sources that do NOT behave like lal's remuxer — boundaries on arbitrary frames, timestamps of
// any whole millisecond (see c10Res), pts != dts, wall clock going backwards, events in
// any order. The playlist / retention / partition parts of the property must hold all the same.
func c10Adversarial(g *G) string {
	r := g.rng
	s := &c10Gen{g: g}
	fragDur := []int{0, 1, 999, 1000, 1500, 2500, 3499, 3500, 5500}[r.Intn(9)]
	fragNum := r.Intn(5)
	delThr := r.Intn(4)
	cleanup := r.Intn(3)
	s.now = 1700000000000
	t := uint64(r.Intn(200000))
	alive := false
	n := 30 + r.Intn(50)
	for i := 0; i < n; i++ {
		switch k := r.Intn(40); {
		case k == 0:
			s.start()
			alive = true
		case k == 1:
			s.dispose()
			alive = false
		case k == 2:
			s.cleanup()
		case k == 3:
			s.patpmt(r.Bool(), r.Bool())
		case k < 7:
			d := uint64(r.Intn(3000))
			if t > d {
				s.pendTicks(t-d+uint64(r.Intn(5)), r.Intn(4) == 0)
			}
		default:
			if !alive && r.Intn(3) != 0 {
				s.start()
				s.patpmt(true, true)
				alive = true
			}
			switch r.Intn(12) {
			case 0:
				t += uint64(fragDur*900 + r.Intn(100000))
			case 1:
				d := uint64(r.Intn(400000))
				if t > d {
					t -= d
				}
			default:
				t += uint64([]int{0, 90, 180, 3600, 9000, 44910, 45000, 45090, 90000, 90090}[r.Intn(10)])
				t += uint64(r.Intn(fragDur*30 + 1))
			}
			t = c10Res(t)
			pts := t
			if r.Intn(3) == 0 {
				pts = t + 90*uint64(r.Intn(200))
			}
			audio := r.Intn(3) == 0
			s.now = uint64(int64(s.now) + int64(r.Intn(2000)) - 300)
			s.frameTicks(audio, pts, t, !audio && r.Intn(4) == 0, r.Intn(3) == 0)
		}
	}
	if r.Bool() {
		s.dispose()
	}
	return s.op(fragDur, fragNum, delThr, cleanup)
}

// c10Res makes a timestamp a whole number of milliseconds (x 90), which is what every source of hls.Muxer in lal
// produces (Rtmp2MpegtsRemuxer: TimestampAbs*90, Cts*90; Rtmp2MpegtsTimestampFilter subtracts such values).
// Outside that domain the TEXT of the playlist is not determined by integer arithmetic: a duration of k.5 ms is a
// decimal tie of `%.3f` whose printed digit depends on the rounding error of the double (observed: 121995 ticks =
// 1.3555 s prints 1.355), and 224999 ticks print as 2.500 while int(d+0.5) = 2.
func c10Res(t uint64) uint64 {
	return t - t%90
}

func (s *c10Gen) frameTicks(audio bool, pts, dts uint64, key, boundary bool) {
	pts, dts = c10Res(pts), c10Res(dts)
	p := s.pkts(audio, pts, dts, key, 10+s.g.rng.Intn(60))
	t := "v"
	if audio {
		t = "a"
	}
	s.evs = append(s.evs, fmt.Sprintf("F:%s:%d:%d:%s:%s:%d:%s", t, pts, dts, c10Bit(key), c10Bit(boundary), s.now, hx(p)))
}

func (s *c10Gen) pendTicks(pts uint64, boundary bool) {
	pts = c10Res(pts)
	p := s.pkts(true, pts, pts, false, 10+s.g.rng.Intn(30))
	s.evs = append(s.evs, fmt.Sprintf("A:%d:%s:%s", pts, c10Bit(boundary), hx(p)))
}

func c10Random(g *G) (string, string) {
	r := g.rng
	s := &c10Gen{g: g}
	fragDur := 1000 + 100*r.Intn(46) // 1000..5500
	fragNum := 1 + r.Intn(8)
	delThr := r.Intn(9)
	if r.Intn(3) == 0 {
		fragNum, delThr = 1+r.Intn(2), r.Intn(2)
	}
	cleanup := r.Intn(3)
	video := r.Intn(5) != 0
	audio := !video || r.Bool()
	label := "rand"
	if !video {
		label = "rand-audio-only"
	}
	sessions := 1
	if r.Intn(4) == 0 {
		sessions = 2 + r.Intn(2)
		label += "-republish"
	}
	wall := uint64(1700000000000)
	t := uint64(r.Intn(3)) * uint64(r.Intn(100000))
	budget := 36 + r.Intn(40) // frames per scenario
	for k := 0; k < sessions; k++ {
		s.start()
		s.patpmt(video, audio)
		s.now = wall
		ngop := 2 + r.Intn(2*fragNum+delThr+3)
		step := []int{40, 100, 200, 250, 500, 700}[r.Intn(6)]
		if step < fragDur/12 {
			step = fragDur / (4 + r.Intn(8))
		}
		for gi := 0; gi < ngop && budget > 0; gi++ {
			// GOP length around the target
			gop := fragDur + []int{-900, -500, -100, -1, 0, 1, 100, 400, 500, 600, 800, 1400}[r.Intn(12)]
			if gop < step {
				gop = step
			}
			switch r.Intn(14) {
			case 0: // no key frame for more than ten targets
				gop = fragDur*10 + r.Intn(3)*step
				if gop/step > 30 {
					step = gop / 30
				}
			case 1: // jump forward
				t += uint64(fragDur*10 + 1 + r.Intn(5000))
			case 2: // jump backward
				back := uint64(1000 + r.Intn(3000))
				if t > back {
					t -= back
				}
			case 3: // small backward step (<= 1 s)
				back := uint64(r.Intn(1001))
				if t > back {
					t -= back
				}
			}
			if r.Intn(25) == 0 {
				s.cleanup() // fires while the stream is live
			}
			first := true
			for el := 0; el < gop && budget > 0; el += step {
				ms := t + uint64(el)
				if video {
					key := first
					bnd := key
					if key && audio && r.Intn(6) == 0 {
						bnd = false // audio cache empty: the remuxer proposes no boundary on this key frame
					}
					if bnd && audio && r.Intn(3) == 0 {
						back := uint64(r.Intn(300))
						if r.Intn(8) == 0 {
							back = uint64(900 + r.Intn(400))
						}
						if ms >= back {
							s.pend(ms-back, false)
						}
					}
					s.frame(false, ms, key, bnd)
					budget--
				}
				if audio && (!video || r.Intn(2) == 0) {
					s.frame(true, ms+uint64(r.Intn(20)), false, !video)
					budget--
				}
				first = false
				s.now += uint64(step)
			}
			t += uint64(gop)
		}
		s.dispose()
		wall += 100000 + uint64(r.Intn(1000000))
		if r.Intn(2) == 0 {
			s.cleanup()
		}
		if r.Intn(3) == 0 {
			t += uint64(r.Intn(60000))
		} else if r.Intn(3) == 0 {
			t = uint64(r.Intn(5000))
		}
	}
	return s.op(fragDur, fragNum, delThr, cleanup), label
}
