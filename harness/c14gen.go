package main

// C14 generator: boundary corpus first (every witness of the defects found through this check stays here),
// then seeded random cases. Every random choice comes from g.rng.

import (
	"fmt"
	"strings"
)

var c14Protos = []string{"RTMP", "RTSP", "FLV", "TS", "HLS", "PS", "CUSTOMIZE", "", "rtmp"}
var c14Kinds = []string{"pub", "sub", "hls"}

type c14Secret struct{ label, param string }

func c14Upper(s string) string { return strings.ToUpper(s) }

// c14SecretForms: every form of the secret the property quantifies over, for (key, override, stream).
func c14SecretForms(key, override, stream string) []c14Secret {
	right := c14Md5(key + stream)
	other := c14Md5(key + "other" + stream)
	mixed := []byte(right)
	for i := range mixed {
		if i%2 == 0 && mixed[i] >= 'a' {
			mixed[i] -= 32
		}
	}
	esc := ""
	for i := 0; i < len(right); i++ {
		if i%3 == 0 {
			esc += fmt.Sprintf("%%%02x", right[i])
		} else {
			esc += string(right[i])
		}
	}
	fs := []c14Secret{
		{"absent", ""}, {"absent-other-key", "foo=bar&lal_secretx=" + right}, {"empty", "lal_secret="}, {"empty-noeq", "lal_secret"},
		{"wrong-short", "lal_secret=deadbeef"}, {"wrong-32", "lal_secret=" + c14Md5("nope")}, {"wrong-prefix", "lal_secret=" + right[:31]},
		{"wrong-suffix", "lal_secret=" + right + "0"},
		{"right", "lal_secret=" + right}, {"right-upper", "lal_secret=" + c14Upper(right)}, {"right-mixed", "lal_secret=" + string(mixed)},
		{"right-other-stream", "lal_secret=" + other},
		{"dup-wrong-right", "lal_secret=" + c14Md5("nope") + "&lal_secret=" + right}, {"dup-right-wrong", "lal_secret=" + right + "&lal_secret=" + c14Md5("nope")},
		{"dup-empty-right", "lal_secret=&lal_secret=" + right},
		{"right-among-others", "a=b&lal_secret=" + right + "&c"}, {"right-after-empties", "&&lal_secret=" + right + "&"},
		{"right-escaped-value", "lal_secret=" + esc}, {"right-escaped-key", "%6c%61l_secret=" + right}, {"right-plus-key", "lal+secret=" + right},
		{"right-trailing-plus", "lal_secret=" + right + "+"}, {"right-leading-space", " lal_secret=" + right},
		{"malformed-bad-escape-elsewhere", "lal_secret=" + right + "&x=%zz"}, {"malformed-semicolon", "lal_secret=" + right + ";x=1"},
		{"malformed-semicolon-elsewhere", "a;b&lal_secret=" + right}, {"malformed-value-escape", "lal_secret=%6"},
		{"malformed-trailing-percent", "lal_secret=" + right + "%"}, {"question-mark", "?lal_secret=" + right},
		{"non-ascii-kelvin", "lal_secret=\xe2\x84\xaa"}, {"invalid-utf8", "lal_secret=%ff%fe"}, {"right-then-nonascii", "lal_secret=" + right + "\xc3\xa9"},
		{"key-case", "LAL_SECRET=" + right},
	}
	if override != "" {
		fs = append(fs, c14Secret{"override-exact", "lal_secret=" + override}, c14Secret{"override-lower", "lal_secret=" + strings.ToLower(override)},
			c14Secret{"override-upper", "lal_secret=" + c14Upper(override)}, c14Secret{"override-prefix", "lal_secret=" + override[:len(override)-1]},
			c14Secret{"override-dup", "lal_secret=x&lal_secret=" + override})
	}
	return fs
}

func (g *G) c14Auth(flags, key, override, kind, proto, stream string, s c14Secret) {
	g.L(kind + "/" + s.label).run(fmt.Sprintf("auth.check %s %s %s %s %s %s %s", flags, c14H(key), c14H(override), kind, c14H(proto), c14H(stream), c14H(s.param)))
}

func c14Flags(n int) string { return fmt.Sprintf("%07b", n) }

func c14DigestStep(user, pass, sel, realm, uri, method string) string {
	return fmt.Sprintf("D:digest:%s:%s:%s:%s:%s:%s", c14H(user), c14H(pass), sel, c14H(realm), c14H(uri), c14H(method))
}
func c14BasicStep(user, pass string) string {
	return fmt.Sprintf("D:basic:%s:%s", c14H(user), c14H(pass))
}

const c14Uri = "rtsp://127.0.0.1:5544/live/test110"

// c14RtspScenarios: both methods x right / wrong / missing / replayed credentials for one configured account.
func c14RtspScenarios(user, pass string) [][3]string {
	dg := func(u, p, sel string) string { return c14DigestStep(u, p, sel, "lal", c14Uri, "DESCRIBE") }
	return [][3]string{
		// label, method, steps
		{"basic/missing", "0", "D:none"},
		{"basic/challenge-then-right", "0", "D:none," + c14BasicStep(user, pass)},
		{"basic/right-first", "0", c14BasicStep(user, pass)},
		{"basic/wrong-pass", "0", "D:none," + c14BasicStep(user, pass+"x")},
		{"basic/wrong-user", "0", "D:none," + c14BasicStep(user+"x", pass)},
		{"basic/empty-pass", "0", c14BasicStep(user, "")},
		{"basic/bad-base64", "0", "D:basicraw:" + c14H("!!!notbase64")},
		{"basic/no-colon", "0", "D:basicraw:" + c14H("dXNlcg==")},
		{"basic/digest-offered", "0", "D:none," + dg(user, pass, "cur")},
		{"basic/right-then-junk", "0", c14BasicStep(user, pass) + ",D:raw:" + c14H("junk") + ",D:basicraw:" + c14H("!!!")},
		{"basic/right-then-none", "0", c14BasicStep(user, pass) + ",D:none"},
		{"basic/other-scheme", "0", "D:raw:" + c14H("Bearer abcdef")},
		{"basic/lowercase-scheme", "0", "D:raw:" + c14H("basic dXNlcjpwYXNz")},
		{"digest/missing", "1", "D:none"},
		{"digest/challenge-then-right", "1", "D:none," + dg(user, pass, "cur")},
		{"digest/wrong-pass", "1", "D:none," + dg(user, pass+"x", "cur")},
		{"digest/wrong-user", "1", "D:none," + dg(user+"x", pass, "cur")},
		{"digest/replayed-foreign-nonce", "1", "D:none," + dg(user, pass, "other")},
		{"digest/replayed-no-challenge", "1", dg(user, pass, "other")},
		{"digest/empty-nonce-no-challenge", "1", dg(user, pass, "emp")},
		{"digest/stale-nonce", "1", "D:none,D:none," + dg(user, pass, "prev")},
		{"digest/second-challenge-right", "1", "D:none,D:none," + dg(user, pass, "cur")},
		{"digest/other-realm", "1", "D:none," + c14DigestStep(user, pass, "cur", "evil", c14Uri, "DESCRIBE")},
		{"digest/other-uri", "1", "D:none," + c14DigestStep(user, pass, "cur", "lal", "rtsp://x/y", "DESCRIBE")},
		{"digest/other-method", "1", "D:none," + c14DigestStep(user, pass, "cur", "lal", c14Uri, "OPTIONS")},
		{"digest/basic-offered", "1", "D:none," + c14BasicStep(user, pass)},
		{"digest/right-then-junk", "1", "D:none," + dg(user, pass, "cur") + ",D:raw:" + c14H("junk")},
		{"digest/right-then-replay", "1", "D:none," + dg(user, pass, "cur") + "," + dg(user, pass, "other")},
		{"digest/right-twice", "1", "D:none," + dg(user, pass, "cur") + "," + dg(user, pass, "cur")},
		{"digest/truncated-header", "1", "D:none,D:raw:" + c14H(`Digest username="`+user+`", realm="lal", nonce="`)},
		{"basic/lal-client", "0", "D:none,D:lalclient:" + c14H(user) + ":" + c14H(pass)},
		{"basic/lal-client-wrong", "0", "D:none,D:lalclient:" + c14H(user) + ":" + c14H(pass+"x")},
		{"digest/lal-client", "1", "D:none,D:lalclient:" + c14H(user) + ":" + c14H(pass)},
		{"digest/lal-client-wrong", "1", "D:none,D:lalclient:" + c14H(user) + ":" + c14H(pass+"x")},
		{"digest/lal-client-no-challenge", "1", "D:lalclient:" + c14H(user) + ":" + c14H(pass)},
		{"method2/missing", "2", "D:none"},
		{"method2/basic", "2", c14BasicStep(user, pass)},
		{"method-1/digest", "-1", dg(user, pass, "emp")},
	}
}

var c14Roots = []string{"/data/hls", "/data/hls/", "./lal_record/hls/", "hls", "", "/", "../up/hls", "/a/../b", ".", "/data//hls/."}

var c14ReqUris = []string{
	"/hls/test110.m3u8", "/hls/test110/playlist.m3u8", "/hls/test110/record.m3u8", "/hls/test110/test110-1620540712084-0.ts",
	"/hls/test110-1620540712084-0.ts", "/hls/test110.m3u8?lal_secret=abc", "/hls/test110.m3u8#frag", "/hls/test110.m3u8?a=1#f%zz",
	// the defect witnesses (S17)
	"/hls/...m3u8", "/hls/..-1-2.ts", "/hls/%2e%2e/playlist.m3u8", "/hls/%2e%2e/record.m3u8", "/hls/../playlist.m3u8", "/hls/..%2fplaylist.m3u8",
	"/hls/%2e%2e%2f%2e%2e%2fetc%2fpasswd.m3u8", "/hls/%2e%2e%2f%2e%2e%2fetc%2fplaylist.m3u8", "/hls/x/..%2f..%2f..%2fplaylist.m3u8",
	"/hls/.m3u8", "/hls/..m3u8", "/hls/....m3u8", "/hls/a/../../playlist.m3u8", "/hls//playlist.m3u8", "/hls/playlist.m3u8", "/playlist.m3u8",
	"/hls/./playlist.m3u8", "/hls/%2e/playlist.m3u8", "/hls/.-1-2.ts", "/hls/...-1-2.ts", "/hls/..-1-2-3.ts", "/hls/%2e%2e-1-2.ts",
	"/hls/a-b-c-1-2.ts", "/hls/-1-2.ts", "/hls/--.ts", "/hls/a.ts", "/hls/a-1.ts", "/hls/a.mp4", "/hls/", "/hls", "/hls/a", "/hls/a.m3u8/", "/hls/a.M3U8",
	"/hls/a.m3u8%", "/hls/%zz.m3u8", "/hls/a%2", "/hls/a\\..\\b.m3u8", "/hls/..\\playlist.m3u8", "/hls/%5c..%5cplaylist.m3u8", "/hls/.../playlist.m3u8",
	"/hls/a%00.m3u8", "/hls/a%0a.m3u8", "/hls/a b.m3u8", "/hls/a%20b.m3u8", "/hls/a+b.m3u8", "/hls/test110/../test110/playlist.m3u8",
	"/hls/test110/./playlist.m3u8", "/hls/a/b/c/playlist.m3u8", "/hls/a/b/c.m3u8", "/hls/a/b/c-1-2.ts", "/hls/%2fetc%2fpasswd.m3u8",
	"/hls/%2f%2fplaylist.m3u8", "/hls/a%2fplaylist.m3u8", "/hls/%e4%b8%ad.m3u8", "/hls/\xff.m3u8", "/hls/a?b/c.m3u8", "/hls/a.m3u8?x=1?y=2",
	"/hls/" + strings.Repeat("a", 3000) + ".m3u8", "/hls/" + strings.Repeat("../", 40) + "playlist.m3u8", "/hls/" + strings.Repeat("%2e%2e%2f", 40) + "playlist.m3u8",
	"*", "http://other.example/hls/a.m3u8", "hls/a.m3u8", "//hls/a.m3u8", "/hls/a.m3u8?", "/hls/?a.m3u8", "/hls/#a.m3u8",
}

var c14Names = []string{"test110", "..", ".", "", "../../etc/x", "/etc/x", "a/b", "a\\b", "..\\x", "a..b", "...", "%2e%2e", "../x", "x/..", "x/../..", "-", "a-1-2",
	"\xe4\xb8\xad", "a b", strings.Repeat("n", 200)}

func (g *G) c14Serve(label, root, uri string) {
	delivered, _ := c14Probe(root, uri)
	d := "0"
	if delivered {
		d = "1"
	}
	g.L(label + "/delivered" + d).run(fmt.Sprintf("hls.serve %s %s %s", c14H(root), c14H(uri), d))
}

func genC14(g *G) {
	r := g.rng
	// ---------------- simple auth: boundary ----------------
	key, stream := "q191201771", "test110"
	// every flag combination x kind x protocol, with the right and without a secret
	for n := 0; n < 128; n++ {
		for _, k := range c14Kinds {
			for _, p := range c14Protos[:7] {
				g.c14Auth(c14Flags(n), key, "", k, p, stream, c14Secret{"flags-right", "lal_secret=" + c14Md5(key+stream)})
				g.c14Auth(c14Flags(n), key, "", k, p, stream, c14Secret{"flags-absent", ""})
			}
		}
	}
	// every secret form, flag on, for each entry point
	type ep struct{ flags, kind, proto string }
	eps := []ep{{"1000000", "pub", "RTMP"}, {"0100000", "sub", "RTMP"}, {"0010000", "sub", "FLV"}, {"0001000", "sub", "TS"}, {"0000100", "pub", "RTSP"},
		{"0000010", "sub", "RTSP"}, {"0000001", "hls", "HLS"}, {"1111111", "sub", "HLS"}, {"1111111", "pub", "FLV"}, {"0000000", "pub", "RTMP"}}
	for _, e := range eps {
		for _, ov := range []string{"", "pengrl", "AbC", "abc", "Ab C"} {
			for _, s := range c14SecretForms(key, ov, stream) {
				g.c14Auth(e.flags, key, ov, e.kind, e.proto, stream, s)
			}
		}
	}
	for _, st := range []string{"", "other", "te st", "../x", "\xe4\xb8\xad\xe6\x96\x87"} {
		for _, k := range []string{"", "q191201771", "k\xe2\x82\xacy"} {
			for _, s := range c14SecretForms(k, "pengrl", st) {
				g.c14Auth("1111111", k, "pengrl", "pub", "RTMP", st, s)
			}
		}
	}
	// ---------------- rtsp ----------------
	for _, h := range []string{"Basic dXNlcjpwYXNz", "Basic dXNlcjpwYTpzcw==", "Basic dXNlcg==", "Basic !!!", "Basic", "Basic ", "Basic  dXNlcjpwYXNz", "basic dXNlcjpwYXNz",
		"Basic dXNlcjpwYXNz\r\n", "Basic dXNl\ncjpwYXNz", "Basic dXNlcjpwYXNz=", "Basic dXNlcjpwYXN", "Basic Og==", "Basic OnA=", "Basic dTo=",
		`Digest username="u", realm="lal", nonce="n", uri="rtsp://h/a", response="r", algorithm="MD5"`,
		`Digest username="u", realm="lal", nonce="n", uri="rtsp://h/a", response="r", algorithm="MD5", opaque="o", stale="s"`,
		`Digest username="u"`, `Digest username="u", nonce="abc`, `Digest nonce="a", nonce="b"`, `Digest xusername="evil", username="u"`,
		`Digest cnonce="c1", nonce="n1"`, `Digest username=""`, `Digest`, `Digest `, `Digest username=u, realm=lal`, "Bearer x", "", "\x00\xff", `Digest uri="a\"b"`} {
		g.L("parse").run("rtsp.parse " + c14H(h))
	}
	for _, ch := range []string{`Basic realm="lal"`, `Digest realm="lal", nonce="abc"`, `WWW-Authenticate Digest realm="lal", nonce="abc"`,
		`WWW-Authenticate:  Digest realm="lal", nonce="abc"`, `Digest realm="lal", nonce="abc", algorithm="SHA-256"`, `Digest realm="lal", nonce="abc", algorithm="MD5"`,
		`Digest nonce="abc"`, `Digest realm="lal"`, "Negotiate", "", `  Basic realm="x"  `, `digest realm="lal", nonce="abc"`} {
		for _, up := range [][2]string{{"admin", "123456"}, {"", "p"}, {"u", ""}, {"u", "p:q"}} {
			g.L("mkauth").run(fmt.Sprintf("rtsp.mkauth %s %s %s %s %s", c14H(ch), c14H(up[0]), c14H(up[1]), c14H("DESCRIBE"), c14H(c14Uri)))
		}
	}
	for _, up := range [][2]string{{"admin", "123456"}, {"u", "p:q:r"}, {"u", ""}, {"us er", `pa"ss`}} {
		for _, sc := range c14RtspScenarios(up[0], up[1]) {
			g.L("sess/" + sc[0]).run(fmt.Sprintf("rtsp.sess 1 %s %s %s %s", sc[1], c14H(up[0]), c14H(up[1]), sc[2]))
		}
	}
	g.L("sess/empty-account").run("rtsp.sess 1 0 - - D:basic:-:-,D:basicraw:" + c14H("!!!"))
	g.L("sess/empty-account").run("rtsp.sess 1 1 - - D:none," + c14DigestStep("", "", "cur", "lal", c14Uri, "DESCRIBE"))
	for _, steps := range []string{"D:none", c14BasicStep("admin", "wrong"), "D:raw:" + c14H("junk") + ",D:none"} {
		g.L("sess/auth-disabled").run("rtsp.sess 0 0 " + c14H("admin") + " " + c14H("123456") + " " + steps)
		g.L("sess/auth-disabled").run("rtsp.sess 0 1 " + c14H("admin") + " " + c14H("123456") + " " + steps)
	}
	// ---------------- blacklist ----------------
	ip1, ip2 := c14H("10.0.0.1"), c14H("10.0.0.2")
	for _, s := range []string{"h:" + ip1, "a:" + ip1 + ":100,h:" + ip1 + ",h:" + ip2, "a:" + ip1 + ":-5,h:" + ip1, "a:" + ip1 + ":100,a:" + ip1 + ":-5,h:" + ip1,
		"a:" + ip1 + ":-5,a:" + ip1 + ":100,h:" + ip1 + ",h:" + ip1, "a:" + ip1 + ":100,a:" + ip2 + ":-100,h:" + ip2 + ",h:" + ip1 + ",a:" + ip2 + ":50,h:" + ip2,
		"a:-:100,h:-,h:" + ip1, "a:" + ip1 + ":0,h:" + ip1} {
		g.L("bl").run("bl.seq " + s)
	}
	g.L("bl/expiry").run("bl.seq a:" + ip1 + ":1,a:" + ip2 + ":100,h:" + ip1 + ",w:1,h:" + ip1 + ",w:1,h:" + ip1 + ",h:" + ip2)
	if g.thorough() {
		g.L("bl/expiry").run("bl.seq a:" + ip1 + ":2,w:1,h:" + ip1 + ",a:" + ip1 + ":0,h:" + ip1 + ",w:1,h:" + ip1)
		g.L("bl/expiry").run("bl.seq a:" + ip1 + ":0,h:" + ip1 + ",w:1,h:" + ip1 + ",a:" + ip1 + ":3,w:2,h:" + ip1 + ",w:2,h:" + ip1)
	}
	// ---------------- request paths ----------------
	for _, root := range c14Roots {
		for _, u := range c14ReqUris {
			if strings.HasPrefix(u, "/") {
				g.L("req").run(fmt.Sprintf("path.req %s %s", c14H(root), c14H(u)))
			}
		}
	}
	for _, root := range []string{"/data/hls", "./lal_record/hls/", "hls"} {
		for _, u := range c14ReqUris {
			g.c14Serve("serve", root, u)
		}
	}
	// ---------------- stream names ----------------
	for _, root := range c14Roots {
		for _, n := range c14Names {
			g.L("write").run(fmt.Sprintf("path.write %s %s %d %d", c14H(root), c14H(n), r.Pick(0, 1, 7, 123456), r.Pick(0, 1620540712084, 1)))
		}
	}
	g.L("write/negative").run(fmt.Sprintf("path.write %s %s -1 -5", c14H("/data/hls"), c14H("a")))
	for _, root := range []string{"/data/hls", "hls/", ""} {
		for i, n := range c14Names {
			g.L("mux").run(fmt.Sprintf("hls.mux %s %s %d %d", c14H(root), c14H(n), i%4, i%3))
		}
	}
	for _, fl := range []string{"111", "100", "010", "001", "000"} {
		for _, n := range c14Names {
			g.L("grp/" + fl).run(fmt.Sprintf("grp.files %s %s", fl, c14H(n)))
		}
	}

	// ---------------- server level ----------------
	defer c14DisposeServers()
	nstream := 0
	srv := func(label, flags, ra, entry, query, cred string, right bool) {
		nstream++
		st := fmt.Sprintf("s%d", nstream)
		q := query
		if right {
			q = "lal_secret=" + c14Md5(c14SrvKey+st)
		}
		g.L("srv/" + label).run(fmt.Sprintf("srv.req %s %s %s %s %s %s", flags, ra, entry, c14H(st), c14H(q), cred))
	}
	entries := []string{"rtmp-pub", "rtmp-sub", "flv-sub", "ts-sub", "hls-m3u8", "hls-ts", "rtsp-pub", "rtsp-sub"}
	for _, e := range entries {
		srv("all-on/right", "1111111", "off", e, "", "none", true)
		srv("all-on/absent", "1111111", "off", e, "", "none", false)
		srv("all-on/wrong", "1111111", "off", e, "lal_secret="+c14Md5("nope"), "none", false)
		srv("all-on/override", "1111111", "off", e, "lal_secret="+c14SrvOverride, "none", false)
		srv("all-on/override-case", "1111111", "off", e, "lal_secret="+c14Upper(c14SrvOverride), "none", false)
		srv("all-off/absent", "0000000", "off", e, "", "none", false)
	}
	for _, e := range entries { // query forms that go through each protocol's own URL handling
		nstream++
		st := fmt.Sprintf("s%d", nstream)
		right := c14Md5(c14SrvKey + st)
		for _, qf := range [][2]string{{"upper", "lal_secret=" + c14Upper(right)}, {"dup-right-first", "lal_secret=" + right + "&lal_secret=x"},
			{"dup-wrong-first", "lal_secret=x&lal_secret=" + right}, {"among-others", "a=1&lal_secret=" + right + "&b=2"},
			{"escaped", "lal_secret=%" + fmt.Sprintf("%02x", right[0]) + right[1:]}, {"bad-escape-elsewhere", "lal_secret=" + right + "&x=%zz"},
			{"other-stream", "lal_secret=" + c14Md5(c14SrvKey+"other")}} {
			g.L("srv/query/" + qf[0]).run(fmt.Sprintf("srv.req 1111111 off %s %s %s none", e, c14H(st), c14H(qf[1])))
		}
	}
	for i := 0; i < 7; i++ { // each entry point consults its own flag
		fl := []byte("0000000")
		fl[i] = '1'
		for _, e := range entries {
			srv("one-flag/absent", string(fl), "off", e, "", "none", false)
			if g.thorough() {
				srv("one-flag/right", string(fl), "off", e, "", "none", true)
			}
		}
	}
	for _, ra := range []string{"basic", "digest"} {
		for _, cred := range []string{"none", "right", "wrong"} {
			srv("rtsp-auth/"+ra+"/"+cred, "0000000", ra, "rtsp-sub", "", cred, false)
			srv("rtsp-auth+simple/"+ra+"/"+cred, "0000010", ra, "rtsp-sub", "", cred, true)
			srv("rtsp-auth+simple-absent/"+ra+"/"+cred, "0000010", ra, "rtsp-sub", "", cred, false)
		}
		srv("rtsp-auth/"+ra+"/announce-not-authenticated", "0000000", ra, "rtsp-pub", "", "none", false)
	}
	for _, e := range []string{"rtmp-pub", "rtmp-sub", "flv-sub", "ts-sub"} {
		g.L("srv/kick").run("srv.kick " + e + " self")
		g.L("srv/kick-bogus").run("srv.kick " + e + " bogus")
	}
	g.L("srv/bl").run("srv.bl 100 0")
	g.L("srv/bl").run("srv.bl -5 0")
	if g.thorough() {
		g.L("srv/bl-expiry").run("srv.bl 1 1")
		g.L("srv/bl-expiry").run("srv.bl 1 2")
	}

	// ---------------- random ----------------
	alpha := []string{"a", "test110", ".", "..", "...", "/", "//", "-", "-1", "-2", "%2e", "%2f", "%2E%2E", "%", "%5c", "\\", "playlist", "record", ".m3u8", ".ts", "m3u8", "?", "#", "x", "1", " ", "+"}
	word := func(n int) string {
		var sb strings.Builder
		for i := 0; i < n; i++ {
			sb.WriteString(alpha[r.Intn(len(alpha))])
		}
		return sb.String()
	}
	nAuth := g.scale(1500, 40000)
	for i := 0; i < nAuth; i++ {
		k := []string{"q191201771", "", "key2"}[r.Intn(3)]
		ov := []string{"", "", "pengrl", "AbC", "a b"}[r.Intn(5)]
		st := []string{"test110", "s", "", "other"}[r.Intn(4)]
		fs := c14SecretForms(k, ov, st)
		g.c14Auth(c14Flags(r.Intn(128)), k, ov, c14Kinds[r.Intn(3)], c14Protos[r.Intn(len(c14Protos))], st, fs[r.Intn(len(fs))])
	}
	for i := 0; i < g.scale(300, 8000); i++ { // random queries
		var parts []string
		for j := r.Intn(4); j >= 0; j-- {
			parts = append(parts, []string{"lal_secret", "a", "lal%5fsecret", "", "lal_secret "}[r.Intn(5)]+[]string{"=", "", "==", "=%", ";"}[r.Intn(5)]+
				[]string{c14Md5("q191201771test110"), "x", "", "%41", c14Upper(c14Md5("q191201771test110"))}[r.Intn(5)])
		}
		g.c14Auth("1111111", "q191201771", "", "pub", "RTMP", "test110", c14Secret{"random-query", strings.Join(parts, []string{"&", "&", ";", "&&"}[r.Intn(4)])})
	}
	for i := 0; i < g.scale(300, 6000); i++ {
		root := c14Roots[r.Intn(len(c14Roots))]
		u := "/" + []string{"hls/", "hls/", "", "hls/test110/"}[r.Intn(4)] + word(1+r.Intn(5)) + []string{".m3u8", ".ts", "/playlist.m3u8", "/record.m3u8", "-1-2.ts", ""}[r.Intn(6)]
		g.L("req/random").run(fmt.Sprintf("path.req %s %s", c14H(root), c14H(u)))
		if i%3 == 0 {
			g.c14Serve("serve/random", []string{"/data/hls", "hls", "./lal_record/hls/"}[r.Intn(3)], u)
		}
	}
	for i := 0; i < g.scale(200, 4000); i++ {
		n := word(1 + r.Intn(4))
		root := c14Roots[r.Intn(len(c14Roots))]
		g.L("write/random").run(fmt.Sprintf("path.write %s %s %d %d", c14H(root), c14H(n), r.Intn(1000), r.Intn(1<<40)))
		if i%8 == 0 && !strings.ContainsAny(n, "%#? +") {
			g.L("mux/random").run(fmt.Sprintf("hls.mux %s %s %d %d", c14H([]string{"/data/hls", "hls"}[r.Intn(2)]), c14H(n), r.Intn(4), r.Intn(3)))
			g.L("grp/random").run(fmt.Sprintf("grp.files %s %s", []string{"111", "110", "011"}[r.Intn(3)], c14H(n)))
		}
	}
	for i := 0; i < g.scale(40, 1500); i++ { // random rtsp sessions
		user, pass := []string{"admin", "u"}[r.Intn(2)], []string{"123456", "p:q", ""}[r.Intn(3)]
		var steps []string
		for j := 1 + r.Intn(4); j > 0; j-- {
			switch r.Intn(7) {
			case 0:
				steps = append(steps, "D:none")
			case 1:
				steps = append(steps, c14BasicStep(user, pass))
			case 2:
				steps = append(steps, c14BasicStep(user, pass+"x"))
			case 3:
				steps = append(steps, c14DigestStep(user, pass, []string{"cur", "prev", "other", "emp"}[r.Intn(4)], "lal", c14Uri, "DESCRIBE"))
			case 4:
				steps = append(steps, c14DigestStep(user, pass+"y", "cur", "lal", c14Uri, "DESCRIBE"))
			case 5:
				steps = append(steps, "D:raw:"+c14H([]string{"junk", "Basic", "Digest ", "Basic !!"}[r.Intn(4)]))
			case 6:
				steps = append(steps, c14DigestStep(user, pass, "cur", []string{"lal", "x"}[r.Intn(2)], []string{c14Uri, "u"}[r.Intn(2)], []string{"DESCRIBE", "PLAY"}[r.Intn(2)]))
			}
		}
		g.L("sess/random").run(fmt.Sprintf("rtsp.sess %d %d %s %s %s", r.Pick(1, 1, 1, 0), r.Pick(0, 1, 0, 1, 2), c14H(user), c14H(pass), strings.Join(steps, ",")))
	}
	for i := 0; i < g.scale(100, 3000); i++ {
		h := []string{"Basic ", "Digest ", "", "Basic", "digest "}[r.Intn(5)] + word(r.Intn(4))
		if r.Intn(2) == 0 {
			h = "Digest " + []string{`username="`, `nonce="`, `realm="`, `uri="`, `response="`, `xnonce="`}[r.Intn(6)] + word(r.Intn(3)) + []string{`"`, ``, `", nonce="q"`}[r.Intn(3)]
		}
		g.L("parse/random").run("rtsp.parse " + c14H(h))
	}
}
