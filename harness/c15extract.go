package main

// C15 facts regenerated into lean/LalModel/Generated/C15.lean on every run:
//   * values printed from the packages this binary was built against (queue capacities, write
//     timeouts, the sweep interval, HTTP response headers);
//   * STRUCTURAL facts read from the source with go/ast: which connection.Option fields every
//     subscriber-side constructor assigns, naza's default WriteChanFullBehavior, which methods of
//     the connection the subscriber write path calls, and that the fan-out never calls a session's
//     (blocking) Flush.

import (
	"fmt"
	"go/ast"
	"go/build"
	"go/parser"
	"go/token"
	"os"
	"path/filepath"
	"sort"
	"strings"

	"github.com/q191201771/lal/pkg/base"
	"github.com/q191201771/lal/pkg/httpflv"
	"github.com/q191201771/lal/pkg/httpts"
	"github.com/q191201771/lal/pkg/rtmp"
	"github.com/q191201771/lal/pkg/rtsp"
)

func c15ParseFile(path string) (*token.FileSet, *ast.File, error) {
	fset := token.NewFileSet()
	f, err := parser.ParseFile(fset, path, nil, 0)
	return fset, f, err
}

func c15FindFunc(f *ast.File, recv, name string) *ast.FuncDecl {
	for _, d := range f.Decls {
		fd, ok := d.(*ast.FuncDecl)
		if !ok || fd.Name.Name != name {
			continue
		}
		if recv == "" && fd.Recv == nil {
			return fd
		}
		if recv != "" && fd.Recv != nil && len(fd.Recv.List) == 1 {
			t := fd.Recv.List[0].Type
			if st, ok := t.(*ast.StarExpr); ok {
				t = st.X
			}
			if id, ok := t.(*ast.Ident); ok && id.Name == recv {
				return fd
			}
		}
	}
	return nil
}

// c15OptionAssigns lists "Field=rhs" for every assignment `option.Field = rhs` inside fn.
func c15OptionAssigns(fn *ast.FuncDecl) []string {
	var out []string
	ast.Inspect(fn, func(n ast.Node) bool {
		as, ok := n.(*ast.AssignStmt)
		if !ok || len(as.Lhs) != 1 {
			return true
		}
		sel, ok := as.Lhs[0].(*ast.SelectorExpr)
		if !ok {
			return true
		}
		if id, ok := sel.X.(*ast.Ident); ok && id.Name == "option" {
			out = append(out, sel.Sel.Name+"="+c15ExprString(as.Rhs[0]))
		}
		return true
	})
	sort.Strings(out)
	return out
}

func c15ExprString(e ast.Expr) string {
	switch x := e.(type) {
	case *ast.Ident:
		return x.Name
	case *ast.SelectorExpr:
		return c15ExprString(x.X) + "." + x.Sel.Name
	case *ast.BasicLit:
		return x.Value
	case *ast.CallExpr:
		return c15ExprString(x.Fun) + "(…)"
	}
	return "?"
}

// c15ConnCalls lists the methods called on a `….conn` selector inside fn, and separately every
// `conn.Mod…` call with its argument.
func c15ConnCalls(fn *ast.FuncDecl) []string {
	var out []string
	ast.Inspect(fn, func(n ast.Node) bool {
		call, ok := n.(*ast.CallExpr)
		if !ok {
			return true
		}
		sel, ok := call.Fun.(*ast.SelectorExpr)
		if !ok {
			return true
		}
		if inner, ok := sel.X.(*ast.SelectorExpr); ok && inner.Sel.Name == "conn" {
			s := sel.Sel.Name
			if strings.HasPrefix(s, "Mod") && len(call.Args) == 1 {
				s += "(" + c15ExprString(call.Args[0]) + ")"
			}
			out = append(out, s)
		}
		return true
	})
	return out
}

// c15CallsTo reports whether fn contains a call `<anything>.<name>(…)`.
func c15CallsTo(fn *ast.FuncDecl, name string) bool {
	found := false
	ast.Inspect(fn, func(n ast.Node) bool {
		if call, ok := n.(*ast.CallExpr); ok {
			if sel, ok := call.Fun.(*ast.SelectorExpr); ok && sel.Sel.Name == name {
				found = true
			}
		}
		return true
	})
	return found
}

func c15LeanStrList(sb *strings.Builder, name, src string, vs []string) {
	fmt.Fprintf(sb, "/-- %s -/\ndef %s : List String := [", src, name)
	for i, v := range vs {
		if i > 0 {
			sb.WriteString(", ")
		}
		fmt.Fprintf(sb, "%q", v)
	}
	sb.WriteString("]\n\n")
}

func c15NazaDir(repo string) (string, error) {
	p, err := build.Default.Import("github.com/q191201771/naza/pkg/connection", repo, build.FindOnly)
	if err == nil && p.Dir != "" {
		if _, e := os.Stat(filepath.Join(p.Dir, "connection.go")); e == nil {
			return p.Dir, nil
		}
	}
	// module cache, version as pinned by lal's go.mod
	gomod, e := os.ReadFile(filepath.Join(repo, "go.mod"))
	if e != nil {
		return "", e
	}
	ver := ""
	for _, l := range strings.Split(string(gomod), "\n") {
		f := strings.Fields(l)
		for i, w := range f {
			if w == "github.com/q191201771/naza" && i+1 < len(f) {
				ver = f[i+1]
			}
		}
	}
	gp := os.Getenv("GOMODCACHE")
	if gp == "" {
		gopath := os.Getenv("GOPATH")
		if gopath == "" {
			home, _ := os.UserHomeDir()
			gopath = filepath.Join(home, "go")
		}
		gp = filepath.Join(gopath, "pkg", "mod")
	}
	d := filepath.Join(gp, "github.com", "q191201771", "naza@"+ver, "pkg", "connection")
	if _, e := os.Stat(filepath.Join(d, "connection.go")); e != nil {
		return "", fmt.Errorf("naza connection source not found (%s): %v", d, e)
	}
	return d, nil
}

func c15Extract(repo string) (string, error) {
	var sb strings.Builder
	// ---- values
	leanNat(&sb, "c15RtmpWChanSize", "rtmp.wChanSize (ServerSession.modConnProps → ModWriteChanSize)", int64(rtmp.VerifWChanSize()))
	leanNat(&sb, "c15FlvWChanSize", "httpflv.SubSessionWriteChanSize", int64(httpflv.SubSessionWriteChanSize))
	leanNat(&sb, "c15TsWChanSize", "httpts.SubSessionWriteChanSize", int64(httpts.SubSessionWriteChanSize))
	leanNat(&sb, "c15RtspWChanSize", "rtsp.serverCommandSessionWriteChanSize", int64(rtsp.VerifServerCommandSessionWriteChanSize()))
	leanNat(&sb, "c15RtmpWriteTimeoutMs", "rtmp.serverSessionWriteAvTimeoutMs (not modelled: the deadline firing is the event `fail`)", int64(rtmp.VerifServerSessionWriteAvTimeoutMs()))
	leanNat(&sb, "c15FlvWriteTimeoutMs", "httpflv.SubSessionWriteTimeoutMs", int64(httpflv.SubSessionWriteTimeoutMs))
	leanNat(&sb, "c15TsWriteTimeoutMs", "httpts.SubSessionWriteTimeoutMs", int64(httpts.SubSessionWriteTimeoutMs))
	leanNat(&sb, "c15CheckSessionAliveIntervalSec", "base.LogicCheckSessionAliveIntervalSec", int64(base.LogicCheckSessionAliveIntervalSec))
	leanBytes(&sb, "c15FlvRespHeader", "base.LalFlvHttpResponseHeader", base.LalFlvHttpResponseHeader)
	leanBytes(&sb, "c15TsRespHeader", "base.LalTsHttpResponseHeader", base.LalTsHttpResponseHeader)
	leanBytes(&sb, "c15WsRespHeader", "base.UpdateWebSocketHeader(\""+c15WsKey+"\", \"\") — the key the harness uses", base.UpdateWebSocketHeader(c15WsKey, ""))

	// ---- naza: the default full-queue behaviour and the numbering of the two behaviours
	nd, err := c15NazaDir(repo)
	if err != nil {
		return "", err
	}
	_, nf, err := c15ParseFile(filepath.Join(nd, "connection.go"))
	if err != nil {
		return "", err
	}
	def := ""
	var behaviours []string
	for _, d := range nf.Decls {
		gd, ok := d.(*ast.GenDecl)
		if !ok {
			continue
		}
		for _, sp := range gd.Specs {
			vs, ok := sp.(*ast.ValueSpec)
			if !ok {
				continue
			}
			for i, n := range vs.Names {
				if gd.Tok == token.CONST && strings.HasPrefix(n.Name, "WriteChanFullBehavior") {
					behaviours = append(behaviours, n.Name)
				}
				if n.Name == "defaultOption" && i < len(vs.Values) {
					if cl, ok := vs.Values[i].(*ast.CompositeLit); ok {
						for _, el := range cl.Elts {
							if kv, ok := el.(*ast.KeyValueExpr); ok && c15ExprString(kv.Key) == "WriteChanFullBehavior" {
								def = c15ExprString(kv.Value)
							}
						}
					}
				}
			}
		}
	}
	if def == "" || len(behaviours) == 0 {
		return "", fmt.Errorf("naza defaultOption.WriteChanFullBehavior not found")
	}
	fmt.Fprintf(&sb, "/-- naza connection.defaultOption.WriteChanFullBehavior (go/ast) -/\ndef c15DefaultFullBehavior : String := %q\n\n", def)
	c15LeanStrList(&sb, "c15FullBehaviors", "naza: the WriteChanFullBehavior constants, in declaration order", behaviours)
	// in naza's Write/Writev the non-blocking branch must be the select-with-default one
	for _, m := range []string{"Write", "Writev"} {
		fn := c15FindFunc(nf, "connection", m)
		if fn == nil {
			return "", fmt.Errorf("naza connection.%s not found", m)
		}
		n := 0
		ast.Inspect(fn, func(x ast.Node) bool {
			if cc, ok := x.(*ast.CaseClause); ok && len(cc.List) == 1 && c15ExprString(cc.List[0]) == "WriteChanFullBehaviorReturnError" {
				for _, st := range cc.Body {
					if sel, ok := st.(*ast.SelectStmt); ok {
						for _, c := range sel.Body.List {
							if c.(*ast.CommClause).Comm == nil {
								n++
							}
						}
					}
				}
			}
			return true
		})
		fmt.Fprintf(&sb, "/-- naza connection.%s: `case WriteChanFullBehaviorReturnError:` is a select with a default branch (1 = yes) -/\ndef c15Naza%sSelectDefault : Nat := %d\n\n", m, m, n)
	}

	// ---- lal: connection options of every subscriber-side constructor
	type ctor struct{ key, file, recv, fn string }
	ctors := []ctor{
		{"rtmp.NewServerSession", "pkg/rtmp/server_session.go", "", "NewServerSession"},
		{"httpflv.NewSubSession", "pkg/httpflv/server_sub_session.go", "", "NewSubSession"},
		{"httpts.NewSubSession", "pkg/httpts/server_sub_session.go", "", "NewSubSession"},
		{"rtsp.NewServerCommandSession", "pkg/rtsp/server_command_session.go", "", "NewServerCommandSession"},
	}
	sb.WriteString("/-- `option.X = rhs` assignments inside each subscriber-side constructor's connection.New(…) (go/ast) -/\n")
	sb.WriteString("def c15OptionAssigns : List (String × List (String × String)) := [\n")
	for i, c := range ctors {
		_, f, err := c15ParseFile(filepath.Join(repo, c.file))
		if err != nil {
			return "", err
		}
		fn := c15FindFunc(f, c.recv, c.fn)
		if fn == nil {
			return "", fmt.Errorf("%s not found", c.key)
		}
		as := c15OptionAssigns(fn)
		q := make([]string, len(as))
		for j, a := range as {
			kv := strings.SplitN(a, "=", 2)
			q[j] = fmt.Sprintf("(%q, %q)", kv[0], kv[1])
		}
		sep := ","
		if i == len(ctors)-1 {
			sep = ""
		}
		fmt.Fprintf(&sb, "  (%q, [%s])%s\n", c.key, strings.Join(q, ", "), sep)
	}
	sb.WriteString("]\n\n")

	// rtmp: doPlay → modConnProps → ModWriteChanSize(wChanSize) before the observer learns of the subscriber
	_, rf, err := c15ParseFile(filepath.Join(repo, "pkg/rtmp/server_session.go"))
	if err != nil {
		return "", err
	}
	mcp := c15FindFunc(rf, "ServerSession", "modConnProps")
	dp := c15FindFunc(rf, "ServerSession", "doPlay")
	if mcp == nil || dp == nil {
		return "", fmt.Errorf("rtmp modConnProps/doPlay not found")
	}
	c15LeanStrList(&sb, "c15RtmpModConnProps", "rtmp.ServerSession.modConnProps: calls on s.conn (go/ast)", c15ConnCalls(mcp))
	playOrder := 0
	{
		// position of the modConnProps call relative to OnNewRtmpSubSession in doPlay
		var pm, po token.Pos
		ast.Inspect(dp, func(n ast.Node) bool {
			if call, ok := n.(*ast.CallExpr); ok {
				if sel, ok := call.Fun.(*ast.SelectorExpr); ok {
					if sel.Sel.Name == "modConnProps" {
						pm = call.Pos()
					}
					if sel.Sel.Name == "OnNewRtmpSubSession" {
						po = call.Pos()
					}
				}
			}
			return true
		})
		if pm != 0 && po != 0 && pm < po {
			playOrder = 1
		}
	}
	leanNat(&sb, "c15RtmpPlayModsConnFirst", "rtmp.ServerSession.doPlay calls modConnProps before observer.OnNewRtmpSubSession (1 = yes)", int64(playOrder))

	// ---- the subscriber write path: which connection methods it calls
	type wp struct{ file, recv, fn string }
	wps := []wp{
		{"pkg/rtmp/server_session.go", "ServerSession", "Write"},
		{"pkg/rtmp/server_session.go", "ServerSession", "Writev"},
		{"pkg/base/basic_http_sub_session.go", "BasicHttpSubSession", "Write"},
		{"pkg/base/basic_http_sub_session.go", "BasicHttpSubSession", "WriteHttpResponseHeader"},
		{"pkg/base/basic_http_sub_session.go", "BasicHttpSubSession", "write"},
		{"pkg/base/basic_http_sub_session.go", "BasicHttpSubSession", "writev"},
		{"pkg/rtsp/server_command_session.go", "ServerCommandSession", "WriteInterleavedPacket"},
		{"pkg/rtsp/server_command_session.go", "ServerCommandSession", "writeWsFrameHeader"},
	}
	set := map[string]bool{}
	for _, w := range wps {
		_, f, err := c15ParseFile(filepath.Join(repo, w.file))
		if err != nil {
			return "", err
		}
		fn := c15FindFunc(f, w.recv, w.fn)
		if fn == nil {
			if w.fn == "writev" {
				continue // helper introduced by the fix; absent in the pinned tree
			}
			return "", fmt.Errorf("%s.%s not found", w.recv, w.fn)
		}
		for _, c := range c15ConnCalls(fn) {
			set[c] = true
		}
	}
	var calls []string
	for c := range set {
		calls = append(calls, c)
	}
	sort.Strings(calls)
	c15LeanStrList(&sb, "c15WritePathConnCalls", "methods of connection.Connection called by the subscriber write path (rtmp ServerSession.Write/Writev, BasicHttpSubSession.Write…, rtsp WriteInterleavedPacket) (go/ast)", calls)

	// ---- the fan-out never calls session.Flush (connection.Flush blocks until the consumer has read everything)
	_, gf, err := c15ParseFile(filepath.Join(repo, "pkg/logic/group__core_streaming.go"))
	if err != nil {
		return "", err
	}
	flushes := 0
	ast.Inspect(gf, func(n ast.Node) bool {
		if call, ok := n.(*ast.CallExpr); ok {
			if sel, ok := call.Fun.(*ast.SelectorExpr); ok && sel.Sel.Name == "Flush" {
				if c15ExprString(sel.X) != "group.rtmpMergeWriter" {
					flushes++
				}
			}
		}
		return true
	})
	leanNat(&sb, "c15FanoutSessionFlushCalls", "pkg/logic/group__core_streaming.go: calls of X.Flush() with X ≠ group.rtmpMergeWriter (go/ast)", int64(flushes))
	_ = c15CallsTo
	return sb.String(), nil
}

func init() {
	extractors["C15"] = c15Extract
}
