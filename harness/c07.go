package main

import (
	"fmt"
	"path/filepath"
	"strconv"
	"strings"

	"github.com/q191201771/lal/pkg/avc"
	"github.com/q191201771/lal/pkg/base"
	"github.com/q191201771/lal/pkg/gb28181"
	"github.com/q191201771/lal/pkg/hevc"
	"github.com/q191201771/lal/pkg/logic"
	"github.com/q191201771/lal/pkg/remux"
	"github.com/q191201771/lal/pkg/rtmp"
	"github.com/q191201771/lal/pkg/rtsp"
	"github.com/q191201771/lal/pkg/sdp"
)

// C07 — RTSP, GB28181 and customize ingest reach RTMP/FLV consumers with the same frames.
//
//	av2rtmp.feed <remux|cust> <vfmt> <afmt> <asc> <vps> <sps> <pps> <pt:ts:hex,...|none>
//	      a real remux.AvPacket2RtmpRemuxer (cust: logic.CustomizePubSessionContext) with the option set,
//	      InitWithAvConfig (cust: FeedAudioSpecificConfig) unless all four are "nil", then FeedAvPacket per packet
//	      => RTMP messages  typ.csid.msid.ts.payload,... | none
//	avq.feed <rotate 0|1> <pt:ts,...>
//	      a real rtsp.AvPacketQueue; packet i carries the payload be16(i)
//	      => pt:ts:i,... | none        (what onAvPacket received, in order)
//	rtsp.ingest <sdp> <order|-> <raw rtp,...>
//	      a real rtsp.BaseInSession (NewBaseInSessionWithObserver, InitWithSdp, SetupWithChannel, HandleInterleavedPacket)
//	      whose observer is a real AvPacket2RtmpRemuxer, chained as logic.Group.AddRtspPubSession / OnSdp / OnAvPacket do
//	      => RTMP messages ; with an order i.j.k: "<fed in that order> ; <fed as written>"
//	ps.ingest <rtp|body> <raw rtp,... | rtpts:body,...>
//	      a real gb28181.PsUnpacker (FeedRtpPacket | FeedRtpBody) whose callback feeds a real AvPacket2RtmpRemuxer
//	      configured as logic.Group.StartRtpPub configures it (Annex-B, ADTS)
//	      => pt:ts:pts:payload,... ; RTMP messages

func c07Msgs(ms []base.RtmpMsg) string {
	if len(ms) == 0 {
		return "none"
	}
	parts := make([]string, len(ms))
	for i, m := range ms {
		if int(m.Header.MsgLen) != len(m.Payload) {
			return "bad-msglen"
		}
		parts[i] = fmt.Sprintf("%d.%d.%d.%d.%s", m.Header.MsgTypeId, m.Header.Csid, m.Header.MsgStreamId, m.Header.TimestampAbs, hx(m.Payload))
	}
	return strings.Join(parts, ",")
}

type c07Rec struct{ ms []base.RtmpMsg }

func (r *c07Rec) on(msg base.RtmpMsg) {
	// the remuxer reuses no buffer, but copy anyway: the record must not alias caller memory
	p := append([]byte(nil), msg.Payload...)
	msg.Payload = p
	r.ms = append(r.ms, msg)
}

func c07ParsePkts(s string) []base.AvPacket {
	if s == "none" {
		return nil
	}
	var out []base.AvPacket
	for _, x := range strings.Split(s, ",") {
		f := strings.Split(x, ":")
		ts, err := strconv.ParseInt(f[1], 10, 64)
		if err != nil {
			panic(err)
		}
		var payload []byte
		if len(f) > 2 {
			payload = unhx(f[2])
		}
		out = append(out, base.AvPacket{PayloadType: base.AvPacketPt(sint(f[0])), Timestamp: ts, Payload: payload})
	}
	return out
}

func c07Av2Rtmp(a []string) string {
	rec := &c07Rec{}
	vf, af := base.AvPacketStreamVideoFormat(atoi(a[1])), base.AvPacketStreamAudioFormat(atoi(a[2]))
	mod := func(o *base.AvPacketStreamOption) { o.VideoFormat = vf; o.AudioFormat = af }
	asc, vps, sps, pps := optb(a[3]), optb(a[4]), optb(a[5]), optb(a[6])
	pkts := c07ParsePkts(a[7])
	switch a[0] {
	case "remux":
		r := remux.NewAvPacket2RtmpRemuxer().WithOnRtmpMsg(rec.on)
		r.WithOption(mod)
		if asc != nil || vps != nil || sps != nil || pps != nil {
			r.InitWithAvConfig(asc, vps, sps, pps)
		}
		for _, p := range pkts {
			r.FeedAvPacket(p)
		}
	case "cust":
		c := logic.NewCustomizePubSessionContext("c07").WithOnRtmpMsg(rec.on)
		c.WithOption(mod)
		if asc != nil {
			if err := c.FeedAudioSpecificConfig(asc); err != nil {
				return "err"
			}
		}
		for _, p := range pkts {
			if err := c.FeedAvPacket(p); err != nil {
				return "err"
			}
		}
	default:
		panic("mode " + a[0])
	}
	return c07Msgs(rec.ms)
}

func c07Avq(a []string) string {
	old := rtsp.TimestampFilterHandleRotateFlag
	defer func() { rtsp.TimestampFilterHandleRotateFlag = old }()
	rtsp.TimestampFilterHandleRotateFlag = a[0] == "1"
	var out []string
	q := rtsp.NewAvPacketQueue(func(pkt base.AvPacket) {
		out = append(out, fmt.Sprintf("%d:%d:%d", int(pkt.PayloadType), pkt.Timestamp, int(pkt.Payload[0])<<8|int(pkt.Payload[1])))
	})
	for i, p := range c07ParsePkts(a[1]) {
		p.Payload = []byte{byte(i >> 8), byte(i)}
		q.Feed(p)
	}
	if len(out) == 0 {
		return "none"
	}
	return strings.Join(out, ",")
}

// c07Rtsp chains the real objects as the server does: rtsp.PubSession embeds a BaseInSession whose observer is the
// Group; Group.OnSdp / OnAvPacket forward to the AvPacket2RtmpRemuxer created in AddRtspPubSession.
func c07Rtsp(rawSdp []byte, raws [][]byte) string {
	ctx, err := sdp.ParseSdp2LogicContext(rawSdp)
	if err != nil {
		return "err"
	}
	rec := &c07Rec{}
	r := remux.NewAvPacket2RtmpRemuxer().WithOnRtmpMsg(rec.on)
	s := rtsp.NewBaseInSessionWithObserver(base.SessionTypeRtspPub, nil, r)
	s.InitWithSdp(ctx)
	// interleaved channels as an RTSP client would SETUP them (audio 0/1, video 2/3 in SDP order is not required)
	if ctx.HasAudioAControl() {
		_ = s.SetupWithChannel(ctx.MakeAudioSetupUri("rtsp://h/s"), 0, 1)
	}
	if ctx.HasVideoAControl() {
		_ = s.SetupWithChannel(ctx.MakeVideoSetupUri("rtsp://h/s"), 2, 3)
	}
	for _, b := range raws {
		ch := 2
		if len(b) > 1 && ctx.IsAudioPayloadTypeOrigin(int(b[1]&0x7f)) {
			ch = 0
		}
		s.HandleInterleavedPacket(b, ch)
	}
	return c07Msgs(rec.ms)
}

func c07Ps(mode string, items string) string {
	rec := &c07Rec{}
	r := remux.NewAvPacket2RtmpRemuxer()
	r.WithOption(func(o *base.AvPacketStreamOption) {
		o.VideoFormat = base.AvPacketStreamVideoFormatAnnexb
		o.AudioFormat = base.AvPacketStreamAudioFormatAdtsAac
	})
	r.WithOnRtmpMsg(rec.on)
	var avs []string
	u := gb28181.NewPsUnpacker().WithOnAvPacket(func(pkt *base.AvPacket) {
		avs = append(avs, fmt.Sprintf("%d:%d:%d:%s", int(pkt.PayloadType), pkt.Timestamp, pkt.Pts, hx(pkt.Payload)))
		r.OnAvPacket(*pkt) // logic.Group.OnAvPacketFromPsPubSession
	})
	if items != "none" {
		for _, x := range strings.Split(items, ",") {
			if mode == "rtp" {
				_ = u.FeedRtpPacket(unhx(x))
			} else {
				f := strings.Split(x, ":")
				_ = u.FeedRtpBody(unhx(f[1]), uint32(atoi(f[0])))
			}
		}
	}
	av := "none"
	if len(avs) > 0 {
		av = strings.Join(avs, ",")
	}
	return av + " ; " + c07Msgs(rec.ms)
}

func c07List(s string) [][]byte {
	if s == "none" {
		return nil
	}
	var l [][]byte
	for _, x := range strings.Split(s, ",") {
		l = append(l, unhx(x))
	}
	return l
}

func init() {
	ops["av2rtmp.feed"] = c07Av2Rtmp
	ops["avq.feed"] = c07Avq
	ops["rtsp.ingest"] = func(a []string) string {
		raws := c07List(a[2])
		rawSdp := unhx(a[0])
		if a[1] == "-" {
			return c07Rtsp(rawSdp, raws)
		}
		var perm [][]byte
		for _, s := range strings.Split(a[1], ".") {
			i := atoi(s)
			if i < len(raws) {
				perm = append(perm, raws[i])
			}
		}
		return c07Rtsp(rawSdp, perm) + " ; " + c07Rtsp(rawSdp, raws)
	}
	ops["ps.ingest"] = func(a []string) string { return c07Ps(a[0], a[1]) }

	gens["C07"] = genC07
	extractors["C07"] = func(repo string) (string, error) {
		var sb strings.Builder
		leanNatList(&sb, "c07RtmpIds", "base.RtmpTypeIdAudio, RtmpTypeIdVideo, RtmpTypeIdMetadata, rtmp.CsidAmf, CsidAudio, CsidVideo, Msid1",
			[]uint64{uint64(base.RtmpTypeIdAudio), uint64(base.RtmpTypeIdVideo), uint64(base.RtmpTypeIdMetadata), rtmp.CsidAmf, rtmp.CsidAudio, rtmp.CsidVideo, rtmp.Msid1})
		leanNatList(&sb, "c07FrameBytes", "base.RtmpAvcKeyFrame, RtmpAvcInterFrame, RtmpHevcKeyFrame, RtmpHevcInterFrame, RtmpAvcPacketTypeNalu, RtmpHevcPacketTypeNalu, RtmpAacPacketTypeRaw, RtmpSoundFormatAac, RtmpCodecIdAvc, RtmpCodecIdHevc",
			[]uint64{uint64(base.RtmpAvcKeyFrame), uint64(base.RtmpAvcInterFrame), uint64(base.RtmpHevcKeyFrame), uint64(base.RtmpHevcInterFrame),
				uint64(base.RtmpAvcPacketTypeNalu), uint64(base.RtmpHevcPacketTypeNalu), uint64(base.RtmpAacPacketTypeRaw), uint64(base.RtmpSoundFormatAac),
				uint64(base.RtmpCodecIdAvc), uint64(base.RtmpCodecIdHevc)})
		leanNatList(&sb, "c07NaluTypes", "avc.NaluTypeIdrSlice, NaluTypeSps, NaluTypePps, NaluTypeAud, hevc.NaluTypeVps, NaluTypeSps, NaluTypePps, NaluTypeAud, NaluTypeSliceBlaWlp, NaluTypeSliceRsvIrapVcl23",
			[]uint64{uint64(avc.NaluTypeIdrSlice), uint64(avc.NaluTypeSps), uint64(avc.NaluTypePps), uint64(avc.NaluTypeAud),
				uint64(hevc.NaluTypeVps), uint64(hevc.NaluTypeSps), uint64(hevc.NaluTypePps), uint64(hevc.NaluTypeAud),
				uint64(hevc.NaluTypeSliceBlaWlp), uint64(hevc.NaluTypeSliceRsvIrapVcl23)})
		leanNatList(&sb, "c07StreamFormats", "base.AvPacketStreamAudioFormatRawAac, AvPacketStreamAudioFormatAdtsAac, AvPacketStreamVideoFormatAvcc, AvPacketStreamVideoFormatAnnexb, DefaultApsOption.AudioFormat, DefaultApsOption.VideoFormat",
			[]uint64{uint64(base.AvPacketStreamAudioFormatRawAac), uint64(base.AvPacketStreamAudioFormatAdtsAac), uint64(base.AvPacketStreamVideoFormatAvcc),
				uint64(base.AvPacketStreamVideoFormatAnnexb), uint64(base.DefaultApsOption.AudioFormat), uint64(base.DefaultApsOption.VideoFormat)})
		leanNatList(&sb, "c07PsStreamTypes", "gb28181.StreamTypeH264, StreamTypeH265, StreamTypeAAC, StreamTypeG711A, StreamTypeG711U",
			[]uint64{uint64(gb28181.StreamTypeH264), uint64(gb28181.StreamTypeH265), uint64(gb28181.StreamTypeAAC), uint64(gb28181.StreamTypeG711A), uint64(gb28181.StreamTypeG711U)})
		// unexported constants: read from the source tree
		q, _, err := astIntDecls(filepath.Join(repo, "pkg", "rtsp", "avpacket_queue.go"))
		if err != nil {
			return "", err
		}
		leanNat(&sb, "c07MaxQueueSize", "rtsp.maxQueueSize", int64(q["maxQueueSize"]))
		u, _, err := astIntDecls(filepath.Join(repo, "pkg", "rtsp", "rtsp.go"))
		if err != nil {
			return "", err
		}
		leanNat(&sb, "c07UnpackerItemMaxSize", "rtsp.unpackerItemMaxSize", int64(u["unpackerItemMaxSize"]))
		ps, _, err := astIntDecls(filepath.Join(repo, "pkg", "gb28181", "ps.go"))
		if err != nil {
			return "", err
		}
		var codes []uint64
		for _, n := range []string{"psPackStartCodePackHeader", "psPackStartCodeSystemHeader", "psPackStartCodeProgramStreamMap", "psPackStartCodeAudioStream",
			"psPackStartCodeVideoStream", "psPackStartCodePackEnd", "psPackStartCodeHikStream", "psPackStartCodePesPrivate2", "psPackStartCodePesEcm",
			"psPackStartCodePesEmm", "psPackStartCodePesPadding", "psPackStartCodePesPsd"} {
			v, ok := ps[n]
			if !ok {
				return "", fmt.Errorf("constant %s not found in pkg/gb28181/ps.go", n)
			}
			codes = append(codes, v)
		}
		leanNatList(&sb, "c07PsStartCodes", "gb28181.psPackStartCode{PackHeader,SystemHeader,ProgramStreamMap,AudioStream,VideoStream,PackEnd,HikStream,PesPrivate2,PesEcm,PesEmm,PesPadding,PesPsd}", codes)
		gb, _, err := astIntDecls(filepath.Join(repo, "pkg", "gb28181", "gb28181.go"))
		if err != nil {
			return "", err
		}
		leanNat(&sb, "c07MaxUnpackRtpListSize", "gb28181.maxUnpackRtpListSize", int64(gb["maxUnpackRtpListSize"]))
		leanNatList(&sb, "c07RotateFlags", "rtsp.BaseInSessionTimestampFilterFlag, rtsp.TimestampFilterHandleRotateFlag (1 = true)",
			[]uint64{uint64(b2i(rtsp.BaseInSessionTimestampFilterFlag)), uint64(b2i(rtsp.TimestampFilterHandleRotateFlag))})
		return sb.String(), nil
	}
}
