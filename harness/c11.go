package main

import (
	"bytes"
	"fmt"
	"io"
	"io/ioutil"
	"os"
	"path/filepath"
	"strconv"
	"strings"
	"testing/iotest"
	"time"

	"github.com/q191201771/lal/pkg/base"
	"github.com/q191201771/lal/pkg/httpflv"
)

func atoi(s string) int {
	v, err := strconv.ParseUint(s, 10, 64)
	if err != nil {
		panic(err)
	}
	return int(v)
}

// c11Pieces serves at most n bytes per Read
type c11Pieces struct {
	r io.Reader
	n int
}

func (p *c11Pieces) Read(b []byte) (int, error) {
	if len(b) > p.n {
		b = b[:p.n]
	}
	return p.r.Read(b)
}

func init() {
	// flv.pack <type> <ts> <payload>  =>  raw tag bytes
	ops["flv.pack"] = func(a []string) string {
		return hx(httpflv.PackHttpflvTag(uint8(atoi(a[0])), uint32(atoi(a[1])), unhx(a[2])))
	}
	// flv.read <bytes>  =>  ok <type> <datasize> <ts> <rawlen> <restlen> | err
	ops["flv.read"] = func(a []string) string {
		one := func(wrap func(io.Reader) io.Reader) string {
			rd := bytes.NewReader(unhx(a[0]))
			tag, err := httpflv.ReadTag(wrap(rd))
			if err != nil {
				return "err"
			}
			return fmt.Sprintf("ok %d %d %d %d %d", tag.Header.Type, tag.Header.DataSize, tag.Header.Timestamp, len(tag.Raw), rd.Len())
		}
		// the same bytes arriving in one piece, byte by byte, and in pieces of 7 (a network reader): one answer
		plain := one(func(r io.Reader) io.Reader { return r })
		if b := one(iotest.OneByteReader); b != plain {
			return "byte-by-byte:" + b + " / " + plain
		}
		if b := one(func(r io.Reader) io.Reader { return &c11Pieces{r: r, n: 7} }); b != plain {
			return "pieces-of-7:" + b + " / " + plain
		}
		return plain
	}
	// flv.file <type>:<ts>:<payload>,...  =>  bytes of the file FlvFileWriter wrote ; tags FlvFileReader read back
	ops["flv.file"] = func(a []string) string {
		dir, err := ioutil.TempDir("", "lalverif")
		if err != nil {
			panic(err)
		}
		defer os.RemoveAll(dir)
		fn := filepath.Join(dir, "a.flv")
		// an earlier, longer recording under the same name (a stream published again within the same second): the new
		// recording replaces it, nothing of the old one may remain behind the new file's last tag
		old := append(append([]byte("FLV\x01\x05\x00\x00\x00\x09\x00\x00\x00\x00"), httpflv.PackHttpflvTag(9, 7, bytes.Repeat([]byte{0xee}, 70000))...), 0xee, 0xee)
		if err := ioutil.WriteFile(fn, old, 0o644); err != nil {
			panic(err)
		}
		var w httpflv.FlvFileWriter
		if err := w.Open(fn); err != nil {
			panic(err)
		}
		_ = w.WriteFlvHeader()
		if a[0] != "-" {
			for _, t := range strings.Split(a[0], ",") {
				f := strings.Split(t, ":")
				var tag httpflv.Tag
				tag.Raw = httpflv.PackHttpflvTag(uint8(atoi(f[0])), uint32(atoi(f[1])), unhx(f[2]))
				_ = w.WriteTag(tag)
			}
		}
		_ = w.Dispose()
		content, _ := ioutil.ReadFile(fn)
		var r httpflv.FlvFileReader
		if err := r.Open(fn); err != nil {
			panic(err)
		}
		defer r.Dispose()
		var sb strings.Builder
		sb.WriteString(hx(content))
		sb.WriteString(" ;")
		if _, err := r.ReadFlvHeader(); err != nil {
			sb.WriteString(" hdr-err")
			return sb.String()
		}
		for {
			tag, err := r.ReadTag()
			if err != nil {
				break
			}
			fmt.Fprintf(&sb, " %d:%d:%s", tag.Header.Type, tag.Header.Timestamp, hx(tag.Payload()))
		}
		return sb.String()
	}
	// ws.hdr <fin> <rsv1> <rsv2> <rsv3> <opcode> <len> <masked> <key>  =>  header bytes
	ops["ws.hdr"] = func(a []string) string {
		plen, err := strconv.ParseUint(a[5], 10, 64)
		if err != nil {
			panic(err)
		}
		h := base.WsHeader{Fin: a[0] == "1", Rsv1: a[1] == "1", Rsv2: a[2] == "1", Rsv3: a[3] == "1",
			Opcode: uint8(atoi(a[4])), PayloadLength: plen, Masked: a[6] == "1", MaskKey: uint32(atoi(a[7]))}
		return hx(base.MakeWsFrameHeader(h))
	}
	// ws.sub <isWs> <unit>,<unit>,...  =>  the connection writes of a real httpflv.SubSession, one item per Write call
	ops["ws.sub"] = func(a []string) string {
		c := newRecConn()
		s := httpflv.NewSubSession(c, base.UrlContext{}, a[0] == "1", "k")
		n := 0
		for _, u := range strings.Split(a[1], ",") {
			s.Write(unhx(u))
			n++
			if a[0] == "1" {
				n++
			}
		}
		// the asynchronous writer drains the queue; wait until every item reached the conn
		var items [][]byte
		deadline := time.Now().Add(5 * time.Second)
		for len(items) < n && time.Now().Before(deadline) {
			items = append(items, c.take()...)
			if len(items) < n {
				time.Sleep(200 * time.Microsecond)
			}
		}
		_ = s.Dispose()
		parts := make([]string, len(items))
		for i, it := range items {
			parts[i] = hx(it)
		}
		return strings.Join(parts, ",")
	}

	gens["C11"] = genC11
	extractors["Consts"] = func(repo string) (string, error) {
		var sb strings.Builder
		leanBytes(&sb, "flvHeader", "httpflv.FlvHeader", httpflv.FlvHeader)
		return sb.String(), nil
	}
}

func genC11(g *G) {
	r := g.rng
	types := []int{8, 9, 18, 0, 1, 31, 32, 255}
	tss := []int{0, 1, 0xFFFFFE, 0xFFFFFF, 0x1000000, 0x1000001, 0x7FFFFFFF, 0x80000000, 0xFFFFFFFF}
	lens := []int{0, 1, 2, 10, 11, 124, 125, 126, 127, 128, 255, 256, 65535, 65536, 65537}
	// boundary corpus: every type × ts × small lens, then each boundary len once
	for _, t := range types {
		for _, ts := range tss {
			for _, n := range []int{0, 1, 5} {
				g.L("corpus").run(fmt.Sprintf("flv.pack %d %d %s", t, ts, hx(r.Bytes(n))))
			}
		}
	}
	for _, n := range lens {
		g.L("corpus").run(fmt.Sprintf("flv.pack 9 %d %s", tss[r.Intn(len(tss))], hx(r.Bytes(n))))
	}
	if g.thorough() {
		for _, n := range []int{1 << 20, 1<<24 - 1} {
			g.L("huge").run(fmt.Sprintf("flv.pack 9 %d %s", 0x1000000+n, hx(r.Bytes(n))))
		}
	}
	for i := 0; i < g.scale(1500, 40000); i++ {
		t := types[r.Intn(3)]
		if r.Intn(10) == 0 {
			t = r.Intn(256)
		}
		ts := tss[r.Intn(len(tss))]
		if r.Bool() {
			ts = int(r.U64() & 0xFFFFFFFF)
		}
		n := r.Intn(300)
		if r.Intn(20) == 0 {
			n = r.Around(lens...)
		}
		g.L("random").run(fmt.Sprintf("flv.pack %d %d %s", t, ts, hx(r.Bytes(n))))
	}
	// reader: valid tags with a tail, truncations at every offset of a short tag, random bytes
	for i := 0; i < g.scale(300, 5000); i++ {
		p := r.Bytes(r.Intn(40))
		raw := httpflv.PackHttpflvTag(uint8(types[r.Intn(3)]), uint32(r.U64()), p)
		tail := r.Bytes(r.Intn(20))
		g.L("valid+tail").run("flv.read " + hx(append(append([]byte{}, raw...), tail...)))
		if i < 40 {
			for k := 0; k <= len(raw); k++ {
				g.L("truncated").run("flv.read " + hx(raw[:k]))
			}
		}
		// nonzero stream id / wrong back pointer are accepted by lal's reader: the model must agree
		mut := append([]byte{}, raw...)
		mut[r.Intn(len(mut))] ^= byte(1 + r.Intn(255))
		g.L("mutated").run("flv.read " + hx(mut))
		g.L("random").run("flv.read " + hx(r.Bytes(r.Intn(64))))
	}
	// files
	for i := 0; i < g.scale(60, 1500); i++ {
		k := r.Intn(6)
		if i == 0 {
			k = 0
		}
		parts := make([]string, k)
		for j := range parts {
			n := r.Intn(50)
			if r.Intn(8) == 0 {
				n = r.Around(0, 4096, 65536)
			}
			parts[j] = fmt.Sprintf("%d:%d:%s", types[r.Intn(3)], tss[r.Intn(len(tss))], hx(r.Bytes(n)))
		}
		arg := strings.Join(parts, ",")
		if k == 0 {
			arg = "-"
		}
		g.L(fmt.Sprintf("tags=%d", k)).run("flv.file " + arg)
	}
	// websocket headers: every flag combination at every length boundary
	wl := []uint64{0, 1, 124, 125, 126, 127, 128, 65534, 65535, 65536, 65537, 1 << 24, 1<<32 - 1, 1 << 32, 1<<63 - 1, 1 << 63, 1<<64 - 1}
	for _, n := range wl {
		for fl := 0; fl < 32; fl++ {
			g.L("corpus").run(fmt.Sprintf("ws.hdr %d %d %d %d %d %d %d %d", fl&1, fl>>1&1, fl>>2&1, fl>>3&1, r.Intn(16), n, fl>>4&1, r.U64()&0xFFFFFFFF))
		}
	}
	for i := 0; i < g.scale(500, 20000); i++ {
		n := r.U64() >> uint(r.Intn(64))
		g.L("random").run(fmt.Sprintf("ws.hdr %d %d %d %d %d %d %d %d", r.Intn(2), r.Intn(2), r.Intn(2), r.Intn(2), r.Intn(16), n, r.Intn(2), r.U64()&0xFFFFFFFF))
	}
	// sub session writes
	for i := 0; i < g.scale(120, 2000); i++ {
		k := 1 + r.Intn(4)
		parts := make([]string, k)
		for j := range parts {
			n := r.Around(1, 125, 126, 127, 300)
			if r.Intn(12) == 0 {
				n = r.Around(65535, 65536)
			}
			if n == 0 {
				n = 1
			}
			parts[j] = hx(r.Bytes(n))
		}
		ws := i % 2
		g.L(fmt.Sprintf("ws=%d", ws)).run(fmt.Sprintf("ws.sub %d %s", ws, strings.Join(parts, ",")))
	}
}
