package main

import (
	"bytes"
	"fmt"
	"go/ast"
	"go/parser"
	"go/printer"
	"go/token"
	"path/filepath"
	"sort"
	"strings"
)

// Site inventory of C13 (DESIGN §4.3): for every function of the lal source that a C13 model covers, the
// expressions that can raise a Go run-time panic on their own: index `a[i]`, slice `a[i:j]`, integer `/` and `%`
// with a non-literal divisor, `make(T, n)` with a non-literal size, type assertion without comma-ok.
// A site is written `file:func kind text` (text = the expression printed without spaces); no line numbers, so a
// harmless edit elsewhere in the file changes nothing, while a new or changed site changes the list and with it the
// proof obligation `sites_covered` of Props/C13.lean.

var c13SiteFuncs = map[string][]string{
	"pkg/rtprtcp/rtp_packet.go":            {"ParseRtpHeader", "ParseRtpPacket", "Body", "IsAvcHevcBoundary", "IsAvcBoundary", "IsHevcBoundary"},
	"pkg/rtprtcp/rtcp.go":                  {"ParseRtcpHeader", "ParseSr", "GetMiddleNtp"},
	"pkg/rtprtcp/rtcp_pack.go":             {"Pack"},
	"pkg/rtprtcp/rtcp_rr_producer.go":      {"FeedRtpPacket", "Produce", "getJitter"},
	"pkg/rtprtcp/rtp_unpacker.go":          {"rtpTimestamp2Ms"},
	"pkg/rtprtcp/rtp_unpacker_avc_hevc.go": {"CalcPositionIfNeeded", "TryUnpackOne", "calcPositionIfNeededAvc", "calcPositionIfNeededHevc"},
	"pkg/rtprtcp/rtp_unpacker_aac.go":      {"CalcPositionIfNeeded", "TryUnpackOne", "parseAu"},
	"pkg/rtprtcp/rtp_unpacker_raw.go":      {"CalcPositionIfNeeded", "TryUnpackOne"},
	"pkg/rtprtcp/rtp_unpack_container.go":  {"Feed", "tryUnpackOneSequential", "tryUnpackOne"},
	"pkg/rtprtcp/rtp_packet_list.go":       {"IsStale", "Insert", "PopFirst", "PeekFirst", "Full", "IsFirstSequential", "SetDoneSeq", "Reset"},
	"pkg/rtprtcp/rtp.go":                   {"CompareSeq", "SubSeq"},
	"pkg/rtsp/base_in_session.go":          {"HandleInterleavedPacket", "onReadRtpPacket", "onReadRtcpPacket", "handleRtcpPacket", "handleRtpPacket", "SetupWithChannel", "InitWithSdp"},
	"pkg/rtsp/http_message.go":             {"readHttpMessage", "readHttpRequestMessage", "readHttpResponseMessage"},
	"pkg/rtsp/interleaved.go":              {"readInterleaved"},
	"pkg/rtsp/rtsp.go":                     {"parseRtpRtcpChannel", "parseClientPort", "parseTransport"},
	"pkg/rtsp/server_command_session.go":   {"runCmdLoop", "handleOptions", "handleAnnounce", "handleDescribe", "feedSdp", "handleSetup", "handleRecord", "handlePlay", "handleTeardown"},
	"pkg/base/websocket.go":                {"ReadWsPayload"},
	"pkg/base/url.go":                      {"ParseUrl", "ParseRtmpUrl", "ParseRtspUrl", "ParseHttpflvUrl", "parseUrlPath", "parseHttpUrl", "calcFilenameAndTypeIfNeeded"},
	"pkg/gb28181/unpack.go":                {"FeedRtpPacket", "FeedRtpBody", "parsePsm", "parseAvStream", "parsePackHeader", "parsePackStreamBody", "iterateNaluByStartCode", "onAvPacketWrap", "readPts"},
	"pkg/avc/avc.go":                       {"IterateNaluStartCode"},
	"pkg/sdp/parse_raw.go":                 {"ParseSdp2RawContext", "ParseM", "ParseARtpMap", "ParseAFmtPBase", "ParseAControl", "parseSdp2RawContext"},
	"pkg/sdp/parse_logic.go":               {"ParseSdp2LogicContext", "IsAudioUri", "IsVideoUri"},
	"pkg/sdp/avconfig.go":                  {"ParseAsc", "ParseVpsSpsPps", "ParseSpsPps"},
}

func c13ExprText(fset *token.FileSet, e ast.Node) string {
	var b bytes.Buffer
	_ = printer.Fprint(&b, fset, e)
	s := strings.Join(strings.Fields(b.String()), "")
	if len(s) > 90 {
		s = s[:90] + "..."
	}
	return strings.ReplaceAll(s, "\"", "'")
}

func c13IsLit(e ast.Expr) bool {
	switch v := e.(type) {
	case *ast.BasicLit:
		return true
	case *ast.ParenExpr:
		return c13IsLit(v.X)
	case *ast.BinaryExpr:
		return c13IsLit(v.X) && c13IsLit(v.Y)
	}
	return false
}

func c13Sites(repo string) (string, error) {
	files := make([]string, 0, len(c13SiteFuncs))
	for f := range c13SiteFuncs {
		files = append(files, f)
	}
	sort.Strings(files)
	var all []string
	for _, file := range files {
		fset := token.NewFileSet()
		af, err := parser.ParseFile(fset, filepath.Join(repo, file), nil, 0)
		if err != nil {
			return "", err
		}
		want := map[string]bool{}
		for _, n := range c13SiteFuncs[file] {
			want[n] = true
		}
		found := map[string]bool{}
		for _, d := range af.Decls {
			fd, ok := d.(*ast.FuncDecl)
			if !ok || fd.Body == nil || !want[fd.Name.Name] {
				continue
			}
			name := fd.Name.Name
			if fd.Recv != nil && len(fd.Recv.List) > 0 {
				name = c13ExprText(fset, fd.Recv.List[0].Type) + "." + name
			}
			found[fd.Name.Name] = true
			okAssert := map[ast.Node]bool{}
			ast.Inspect(fd.Body, func(n ast.Node) bool { // v, ok := x.(T) does not panic
				if as, ok := n.(*ast.AssignStmt); ok && len(as.Lhs) == 2 && len(as.Rhs) == 1 {
					if ta, ok := as.Rhs[0].(*ast.TypeAssertExpr); ok {
						okAssert[ta] = true
					}
				}
				return true
			})
			var sites []string
			ast.Inspect(fd.Body, func(n ast.Node) bool {
				switch v := n.(type) {
				case *ast.IndexExpr:
					sites = append(sites, "index "+c13ExprText(fset, v))
				case *ast.SliceExpr:
					sites = append(sites, "slice "+c13ExprText(fset, v))
				case *ast.BinaryExpr:
					if (v.Op == token.QUO || v.Op == token.REM) && !c13IsLit(v.Y) {
						sites = append(sites, "divide "+c13ExprText(fset, v))
					}
				case *ast.CallExpr:
					if id, ok := v.Fun.(*ast.Ident); ok && id.Name == "make" && len(v.Args) >= 2 && !c13IsLit(v.Args[1]) {
						sites = append(sites, "make "+c13ExprText(fset, v))
					}
				case *ast.TypeAssertExpr:
					if v.Type != nil && !okAssert[v] {
						sites = append(sites, "assert "+c13ExprText(fset, v))
					}
				}
				return true
			})
			for _, s := range sites {
				all = append(all, fmt.Sprintf("%s:%s %s", file, name, s))
			}
			if len(sites) == 0 {
				all = append(all, fmt.Sprintf("%s:%s none", file, name))
			}
		}
		for n := range want {
			if !found[n] {
				return "", fmt.Errorf("%s: function %s not found (renamed or removed: the C13 models must be revisited)", file, n)
			}
		}
	}
	var sb strings.Builder
	sb.WriteString("/-- index / slice / divide / make / type-assert sites of the functions the C13 models cover (go/ast) -/\ndef c13Sites : List String := [")
	for i, s := range all {
		if i > 0 {
			sb.WriteString(",")
		}
		fmt.Fprintf(&sb, "\n  \"%s\"", s)
	}
	sb.WriteString("]\n\n")
	// FNV-1a 64 digests of the same strings: the coverage theorem compares these (cheap for the kernel)
	hs := make([]uint64, len(all))
	for i, s := range all {
		h := uint64(14695981039346656037)
		for j := 0; j < len(s); j++ {
			h ^= uint64(s[j])
			h *= 1099511628211
		}
		hs[i] = h
	}
	leanNatList(&sb, "c13SiteDigests", "FNV-1a 64 of each element of c13Sites, same order", hs)
	return sb.String(), nil
}
