package main

import (
	"bytes"
	"encoding/json"
	"fmt"
	"net"
	"net/http"
	"strings"
	"sync"
	"time"

	"github.com/q191201771/lal/pkg/base"
	"github.com/q191201771/lal/pkg/logic"
)

// C17, HTTP layer: start_relay_pull through the REAL HttpApiServer handler (JSON body -> defaults -> ServerManager ->
// Group.StartPull), then the group's relay bookkeeping (hook VerifRelayState).
//
//	relay.api <retry|-> <auto|->   =>  code=<error_code> api=<0|1> retry=<n> auto=<n>
//
// "-" = the field is absent from the request body. The origin (127.0.0.1:1) refuses connections.

var (
	c17ApiOnce sync.Once
	c17ApiSm   *logic.ServerManager
	c17ApiAddr string
	c17ApiSeq  int
)

func c17ApiServer() {
	conf := fmt.Sprintf(`{"conf_version":"%s","log":{"level":6,"filename":"","is_to_stdout":false,"is_rotate_daily":false,"short_file_flag":false,`+
		`"timestamp_flag":false,"timestamp_with_ms_flag":false,"level_flag":false,"assert_behavior":1}}`, base.ConfVersion)
	c17ApiSm = logic.NewServerManager(func(option *logic.Option) { option.ConfRawContent = []byte(conf) })
	ln, err := net.Listen("tcp", "127.0.0.1:0")
	if err != nil {
		panic(err)
	}
	c17ApiAddr = ln.Addr().String()
	_ = ln.Close()
	api := logic.NewHttpApiServer(c17ApiAddr, c17ApiSm)
	if err := api.Listen(); err != nil {
		panic(err)
	}
	go func() { _ = api.RunLoop() }()
}

func c17Api(a []string) string {
	c17ApiOnce.Do(c17ApiServer)
	c17ApiSeq++
	stream := fmt.Sprintf("api%d", c17ApiSeq)
	body := map[string]interface{}{"url": "rtmp://127.0.0.1:1/live/" + stream, "stream_name": stream, "pull_timeout_ms": 200}
	if a[0] != "-" {
		body["pull_retry_num"] = sint(a[0])
	}
	if a[1] != "-" {
		body["auto_stop_pull_after_no_out_ms"] = sint(a[1])
	}
	bs, _ := json.Marshal(body)
	cl := &http.Client{Timeout: 30 * time.Second}
	resp, err := cl.Post("http://"+c17ApiAddr+"/api/ctrl/start_relay_pull", "application/json", bytes.NewReader(bs))
	if err != nil {
		return "http-error"
	}
	var r base.ApiCtrlStartRelayPullResp
	_ = json.NewDecoder(resp.Body).Decode(&r)
	_ = resp.Body.Close()
	g := c17ApiSm.GetGroup("", stream)
	if g == nil {
		return fmt.Sprintf("code=%d nogroup", r.ErrorCode)
	}
	st := g.VerifRelayState()
	out := fmt.Sprintf("code=%d api=%d retry=%d auto=%d", r.ErrorCode, map[bool]int{false: 0, true: 1}[st.ApiEnable], st.PullRetryNum, st.AutoStopMs)
	c17ApiSm.CtrlStopRelayPull(stream)
	return out
}

func init() {
	ops["relay.api"] = c17Api
	gens["C17Api"] = func(g *G) {
		for _, retry := range []string{"-", "0", "1", "3", "-1"} {
			for _, auto := range []string{"-", "-1", "0", "1", "40", "60000"} {
				g.L("api-" + strings.Trim(retry+"_"+auto, "-")).run("relay.api " + retry + " " + auto)
			}
		}
	}
}
