package main

// C14, server level: a real logic.ServerManager (RTMP, HTTP-FLV / HTTP-TS / HLS, RTSP on ephemeral ports) with a
// recording INotifyHandler; requests are made over real TCP connections.
//
//	srv.req <flags7> <off|basic|digest> <entry> <stream> <query> <cred>
//	    entry: rtmp-pub rtmp-sub flv-sub ts-sub hls-m3u8 hls-ts rtsp-pub rtsp-sub ; cred (rtsp only): none right wrong
//	    => admitted|rejected listed=<0|1> notified=<0|1> answered=<0|1>
//	srv.kick <entry> <which: self|bogus>      => kicked closed=<0|1> listed=<0|1> | notfound closed=<0|1> listed=<0|1>
//	srv.bl <durationSec> <waitSec>            => hls playlist for a black-listed client: blocked | served
//
// Server configuration: key q191201771, override pengrl, RTSP account admin/123456. One server per (flags, rtsp auth).
// The RTMP client is lal's own (rtmp.PushSession / PullSession); HTTP and RTSP requests are written by hand.

import (
	"bufio"
	"encoding/base64"
	"encoding/json"
	"fmt"
	"io"
	"io/ioutil"
	"net"
	"os"
	"path/filepath"
	"strings"
	"sync"
	"time"

	"github.com/q191201771/lal/pkg/base"
	"github.com/q191201771/lal/pkg/logic"
	"github.com/q191201771/lal/pkg/rtmp"
)

const (
	c14SrvKey      = "q191201771"
	c14SrvOverride = "pengrl"
	c14SrvUser     = "admin"
	c14SrvPass     = "123456"
)

type c14Notify struct {
	mu   sync.Mutex
	pubs map[string]int
	subs map[string]int
}

func (n *c14Notify) OnServerStart(info base.LalInfo) {}
func (n *c14Notify) OnUpdate(info base.UpdateInfo)   {}
func (n *c14Notify) OnPubStart(info base.PubStartInfo) {
	n.mu.Lock()
	n.pubs[info.StreamName]++
	n.mu.Unlock()
}
func (n *c14Notify) OnPubStop(info base.PubStopInfo) {}
func (n *c14Notify) OnSubStart(info base.SubStartInfo) {
	n.mu.Lock()
	n.subs[info.StreamName]++
	n.mu.Unlock()
}
func (n *c14Notify) OnSubStop(info base.SubStopInfo)          {}
func (n *c14Notify) OnRelayPullStart(info base.PullStartInfo) {}
func (n *c14Notify) OnRelayPullStop(info base.PullStopInfo)   {}
func (n *c14Notify) OnRtmpConnect(info base.RtmpConnectInfo)  {}
func (n *c14Notify) OnHlsMakeTs(info base.HlsMakeTsInfo)      {}
func (n *c14Notify) count(stream string) int {
	n.mu.Lock()
	defer n.mu.Unlock()
	return n.pubs[stream] + n.subs[stream]
}

type c14Server struct {
	sm                           *logic.ServerManager
	rtmpPort, httpPort, rtspPort int
	dir                          string
	notify                       *c14Notify
}

var (
	c14Servers   = map[string]*c14Server{}
	c14ServersMu sync.Mutex
)

func c14FreePort() int {
	l, err := net.Listen("tcp", "127.0.0.1:0")
	if err != nil {
		panic(err)
	}
	defer l.Close()
	return l.Addr().(*net.TCPAddr).Port
}

func c14GetServer(flags, rtspAuth string) *c14Server {
	c14ServersMu.Lock()
	defer c14ServersMu.Unlock()
	key := flags + "/" + rtspAuth
	if s, ok := c14Servers[key]; ok {
		return s
	}
	// sandboxes of earlier runs that ended without disposing their servers (replay mode)
	if olds, _ := filepath.Glob(filepath.Join(os.TempDir(), "lalverif-c14srv-*")); len(c14Servers) == 0 {
		for _, o := range olds {
			if st, err := os.Stat(o); err == nil && time.Since(st.ModTime()) > 10*time.Minute {
				_ = os.RemoveAll(o)
			}
		}
	}
	dir, err := ioutil.TempDir("", "lalverif-c14srv-")
	if err != nil {
		panic(err)
	}
	s := &c14Server{rtmpPort: c14FreePort(), httpPort: c14FreePort(), rtspPort: c14FreePort(), dir: dir,
		notify: &c14Notify{pubs: map[string]int{}, subs: map[string]int{}}}
	b := func(i int) bool { return flags[i] == '1' }
	method := 0
	if rtspAuth == "digest" {
		method = 1
	}
	conf := map[string]interface{}{
		"conf_version": base.ConfVersion,
		"rtmp":         map[string]interface{}{"enable": true, "addr": fmt.Sprintf("127.0.0.1:%d", s.rtmpPort), "gop_num": 0, "single_gop_max_frame_num": 0, "merge_write_size": 0},
		"in_session":   map[string]interface{}{"add_dummy_audio_enable": false, "add_dummy_audio_wait_audio_ms": 150},
		"default_http": map[string]interface{}{"http_listen_addr": fmt.Sprintf("127.0.0.1:%d", s.httpPort)},
		"httpflv":      map[string]interface{}{"enable": true, "enable_https": false, "url_pattern": "/live/", "gop_num": 0, "single_gop_max_frame_num": 0},
		"httpts":       map[string]interface{}{"enable": true, "enable_https": false, "url_pattern": "/live/", "gop_num": 0, "single_gop_max_frame_num": 0},
		"hls": map[string]interface{}{"enable": true, "enable_https": false, "url_pattern": "/hls/", "out_path": filepath.Join(dir, "hls") + "/",
			"fragment_duration_ms": 3000, "fragment_num": 6, "delete_threshold": 6, "cleanup_mode": 0, "use_memory_as_disk_flag": false,
			"sub_session_timeout_ms": 30000, "sub_session_hash_key": ""},
		"rtsp": map[string]interface{}{"enable": true, "addr": fmt.Sprintf("127.0.0.1:%d", s.rtspPort), "rtsps_enable": false, "out_wait_key_frame_flag": true,
			"ws_rtsp_enable": false, "auth_enable": rtspAuth != "off", "auth_method": method, "username": c14SrvUser, "password": c14SrvPass},
		"record":            map[string]interface{}{"enable_flv": false, "flv_out_path": filepath.Join(dir, "flv"), "enable_mpegts": false, "mpegts_out_path": filepath.Join(dir, "ts")},
		"relay_push":        map[string]interface{}{"enable": false, "addr_list": []string{}},
		"static_relay_pull": map[string]interface{}{"enable": false, "addr": ""},
		"http_api":          map[string]interface{}{"enable": false, "addr": ""},
		"server_id":         "1",
		"http_notify":       map[string]interface{}{"enable": false},
		"simple_auth": map[string]interface{}{"key": c14SrvKey, "dangerous_lal_secret": c14SrvOverride, "pub_rtmp_enable": b(0), "sub_rtmp_enable": b(1),
			"sub_httpflv_enable": b(2), "sub_httpts_enable": b(3), "pub_rtsp_enable": b(4), "sub_rtsp_enable": b(5), "hls_m3u8_enable": b(6)},
		"pprof": map[string]interface{}{"enable": false, "addr": ""},
		"log": map[string]interface{}{"level": 7, "filename": "", "is_to_stdout": false, "is_rotate_daily": false, "short_file_flag": false,
			"timestamp_flag": false, "timestamp_with_ms_flag": false, "level_flag": false, "assert_behavior": 1},
		"debug": map[string]interface{}{"log_group_interval_sec": 0, "log_group_max_group_num": 0, "log_group_max_sub_num_per_group": 0},
	}
	raw, err := json.Marshal(conf)
	if err != nil {
		panic(err)
	}
	s.sm = logic.NewServerManager(func(option *logic.Option) {
		option.ConfRawContent = raw
		option.NotifyHandler = s.notify
	})
	go func() { _ = s.sm.RunLoop() }()
	// wait until the listeners accept
	for _, p := range []int{s.rtmpPort, s.httpPort, s.rtspPort} {
		ok := false
		for i := 0; i < 200 && !ok; i++ {
			c, err := net.DialTimeout("tcp", fmt.Sprintf("127.0.0.1:%d", p), 200*time.Millisecond)
			if err == nil {
				_ = c.Close()
				ok = true
			} else {
				time.Sleep(10 * time.Millisecond)
			}
		}
		if !ok {
			panic("lal server did not start")
		}
	}
	c14Servers[key] = s
	return s
}

func c14DisposeServers() {
	c14ServersMu.Lock()
	defer c14ServersMu.Unlock()
	for k, s := range c14Servers {
		s.sm.Dispose()
		_ = os.RemoveAll(s.dir)
		delete(c14Servers, k)
	}
}

// listed reports whether the stream has any session (publisher, subscriber or puller) in the server's statistics.
func (s *c14Server) listed(stream string) (bool, string) {
	for _, g := range s.sm.StatAllGroup() {
		if g.StreamName != stream {
			continue
		}
		if g.StatPub.SessionId != "" {
			return true, g.StatPub.SessionId
		}
		if len(g.StatSubs) > 0 {
			return true, g.StatSubs[0].SessionId
		}
		if g.StatPull.SessionId != "" {
			return true, g.StatPull.SessionId
		}
	}
	return false, ""
}

type c14Conn struct {
	closeFn  func()
	closed   func() bool // the server closed the connection
	answered func() bool
}

func c14Bool(b bool) int {
	if b {
		return 1
	}
	return 0
}

// c14TcpExchange writes a request and watches the connection in the background.
type c14Tcp struct {
	c     net.Conn
	mu    sync.Mutex
	nread int
	eof   bool
	data  []byte
}

func c14Dial(port int, req string) *c14Tcp {
	c, err := net.DialTimeout("tcp", fmt.Sprintf("127.0.0.1:%d", port), 5*time.Second)
	if err != nil {
		panic(err)
	}
	t := &c14Tcp{c: c}
	if _, err := c.Write([]byte(req)); err != nil {
		panic(err)
	}
	go func() {
		buf := make([]byte, 4096)
		for {
			n, err := c.Read(buf)
			t.mu.Lock()
			t.nread += n
			if len(t.data) < 1<<16 {
				t.data = append(t.data, buf[:n]...)
			}
			if err != nil {
				t.eof = true
				t.mu.Unlock()
				return
			}
			t.mu.Unlock()
		}
	}()
	return t
}

func (t *c14Tcp) state() (int, bool, string) {
	t.mu.Lock()
	defer t.mu.Unlock()
	return t.nread, t.eof, string(t.data)
}

// c14Await polls until the request is decided: the server closed the connection (rejected) or lists the session
// (admitted); an open connection that is neither after the timeout counts as admitted-but-waiting.
func (s *c14Server) await(stream string, closed func() bool) (admitted bool, listed bool) {
	deadline := time.Now().Add(4 * time.Second)
	for time.Now().Before(deadline) {
		if l, _ := s.listed(stream); l {
			return true, true
		}
		if closed() {
			// a last look: the session may have been listed and removed in between only if it was admitted first;
			// a rejected one is never listed
			l, _ := s.listed(stream)
			return false, l
		}
		time.Sleep(2 * time.Millisecond)
	}
	return true, false
}

const c14SdpAnnounce = "v=0\r\no=- 0 0 IN IP4 127.0.0.1\r\ns=No Name\r\nc=IN IP4 127.0.0.1\r\nt=0 0\r\nm=audio 0 RTP/AVP 97\r\na=rtpmap:97 MPEG4-GENERIC/44100/2\r\n" +
	"a=fmtp:97 profile-level-id=1;mode=AAC-hbr;sizelength=13;indexlength=3;indexdeltalength=3; config=1210\r\na=control:streamid=0\r\n"

func c14SrvReq(a []string) string {
	flags, rtspAuth, entry, stream, query, cred := a[0], a[1], a[2], c14S(a[3]), c14S(a[4]), a[5]
	s := c14GetServer(flags, rtspAuth)
	q := ""
	if query != "" {
		q = "?" + query
	}
	n0 := s.notify.count(stream)
	var closed func() bool
	var cleanup func()
	answered := func() bool { return false }
	switch entry {
	case "rtmp-pub":
		ps := rtmp.NewPushSession(func(option *rtmp.PushSessionOption) { option.PushTimeoutMs = 8000 })
		err := ps.Push(fmt.Sprintf("rtmp://127.0.0.1:%d/live/%s%s", s.rtmpPort, stream, q))
		done := make(chan struct{})
		if err != nil {
			close(done)
		} else {
			go func() { <-ps.WaitChan(); close(done) }()
		}
		closed = func() bool {
			select {
			case <-done:
				return true
			default:
				return false
			}
		}
		cleanup = func() { _ = ps.Dispose() }
	case "rtmp-sub":
		var mu sync.Mutex
		got := 0
		ps := rtmp.NewPullSession(func(option *rtmp.PullSessionOption) { option.PullTimeoutMs = 8000 }).WithOnReadRtmpAvMsg(func(msg base.RtmpMsg) {
			mu.Lock()
			got++
			mu.Unlock()
		})
		err := ps.Pull(fmt.Sprintf("rtmp://127.0.0.1:%d/live/%s%s", s.rtmpPort, stream, q))
		done := make(chan struct{})
		if err != nil {
			close(done)
		} else {
			go func() { <-ps.WaitChan(); close(done) }()
		}
		closed = func() bool {
			select {
			case <-done:
				return true
			default:
				return false
			}
		}
		answered = func() bool { mu.Lock(); defer mu.Unlock(); return got > 0 }
		cleanup = func() { _ = ps.Dispose() }
	case "flv-sub", "ts-sub":
		ext := ".flv"
		if entry == "ts-sub" {
			ext = ".ts"
		}
		t := c14Dial(s.httpPort, fmt.Sprintf("GET /live/%s%s%s HTTP/1.1\r\nHost: 127.0.0.1:%d\r\nUser-Agent: lalverif\r\nAccept: */*\r\n\r\n", stream, ext, q, s.httpPort))
		closed = func() bool { _, e, _ := t.state(); return e }
		answered = func() bool { n, _, _ := t.state(); return n > 0 }
		cleanup = func() { _ = t.c.Close() }
	case "hls-m3u8", "hls-ts":
		// the files exist, so a served request has a body
		d := filepath.Join(s.dir, "hls", stream)
		_ = os.MkdirAll(d, 0777)
		_ = ioutil.WriteFile(filepath.Join(d, "playlist.m3u8"), []byte("#EXTM3U\n#EXT-X-VERSION:3\n"), 0666)
		_ = ioutil.WriteFile(filepath.Join(d, stream+"-1-2.ts"), []byte("GTSDATA"), 0666)
		path := "/hls/" + stream + ".m3u8"
		if entry == "hls-ts" {
			path = "/hls/" + stream + "-1-2.ts"
		}
		code, body := c14HttpGet(s.httpPort, path+q)
		served := code == 200 && len(body) > 0
		l, _ := s.listed(stream)
		if served {
			return fmt.Sprintf("admitted listed=%d notified=%d answered=1", c14Bool(l), c14Bool(s.notify.count(stream) > n0))
		}
		return fmt.Sprintf("rejected listed=%d notified=%d answered=%d", c14Bool(l), c14Bool(s.notify.count(stream) > n0), c14Bool(len(body) > 0))
	case "rtsp-pub", "rtsp-sub":
		c, err := net.DialTimeout("tcp", fmt.Sprintf("127.0.0.1:%d", s.rtspPort), 5*time.Second)
		if err != nil {
			panic(err)
		}
		rd := bufio.NewReader(c)
		uri := fmt.Sprintf("rtsp://127.0.0.1:%d/live/%s%s", s.rtspPort, stream, q)
		var mu sync.Mutex
		eof, sdp := false, false
		if entry == "rtsp-pub" {
			req := fmt.Sprintf("ANNOUNCE %s RTSP/1.0\r\nCSeq: 1\r\nContent-Type: application/sdp\r\nContent-Length: %d\r\n\r\n%s", uri, len(c14SdpAnnounce), c14SdpAnnounce)
			_, _ = c.Write([]byte(req))
		} else {
			hdr := ""
			user, pass := c14SrvUser, c14SrvPass
			if cred == "wrong" {
				pass += "x"
			}
			if cred != "none" {
				switch rtspAuth {
				case "basic", "off":
					hdr = "Authorization: Basic " + base64.StdEncoding.EncodeToString([]byte(user+":"+pass)) + "\r\n"
				case "digest":
					_, _ = c.Write([]byte(fmt.Sprintf("DESCRIBE %s RTSP/1.0\r\nCSeq: 1\r\n\r\n", uri)))
					_ = c.SetReadDeadline(time.Now().Add(2 * time.Second))
					_, www, _, err := c14ReadRtspResponse(rd)
					if err != nil {
						panic(err)
					}
					m := c14NonceRe.FindStringSubmatch(www)
					if m == nil {
						panic("no nonce")
					}
					hdr = "Authorization: " + c14DigestHeader(user, "lal", pass, m[1], "DESCRIBE", uri) + "\r\n"
				}
			}
			_, _ = c.Write([]byte(fmt.Sprintf("DESCRIBE %s RTSP/1.0\r\nCSeq: 2\r\n%s\r\n", uri, hdr)))
		}
		_ = c.SetReadDeadline(time.Time{})
		go func() {
			for {
				code, _, body, err := c14ReadRtspResponse(rd)
				mu.Lock()
				if err != nil {
					eof = true
					mu.Unlock()
					return
				}
				if code == "200" && (body > 0 || entry == "rtsp-pub") {
					sdp = true
				}
				if code == "401" {
					eof = true // a challenge: not admitted, the connection is given up by the harness
				}
				mu.Unlock()
			}
		}()
		closed = func() bool { mu.Lock(); defer mu.Unlock(); return eof }
		answered = func() bool { mu.Lock(); defer mu.Unlock(); return sdp }
		cleanup = func() { _ = c.Close() }
	default:
		panic("entry " + entry)
	}
	admitted, listed := s.await(stream, closed)
	if entry == "rtsp-sub" && admitted && !listed {
		// DESCRIBE for a stream without publisher is parked without an answer; it is not in the statistics yet
		listed = false
	}
	// the answer (HTTP header, 200 to ANNOUNCE) is written after the session was attached: give it a moment
	for i := 0; admitted && i < 40 && !answered(); i++ {
		time.Sleep(2 * time.Millisecond)
	}
	// notifications are delivered by a separate goroutine of the server
	for i := 0; admitted && listed && i < 2000 && s.notify.count(stream) == n0; i++ {
		time.Sleep(2 * time.Millisecond)
	}
	if !admitted {
		time.Sleep(5 * time.Millisecond)
	}
	out := fmt.Sprintf("%s listed=%d notified=%d answered=%d", map[bool]string{true: "admitted", false: "rejected"}[admitted], c14Bool(listed),
		c14Bool(s.notify.count(stream) > n0), c14Bool(answered()))
	cleanup()
	// wait until the server forgot the session so that later ops on the same stream start clean
	for i := 0; i < 500; i++ {
		if l, _ := s.listed(stream); !l {
			break
		}
		time.Sleep(2 * time.Millisecond)
	}
	return out
}

func c14HttpGet(port int, pathq string) (int, []byte) {
	c, err := net.DialTimeout("tcp", fmt.Sprintf("127.0.0.1:%d", port), 5*time.Second)
	if err != nil {
		panic(err)
	}
	defer c.Close()
	_, _ = c.Write([]byte(fmt.Sprintf("GET %s HTTP/1.1\r\nHost: 127.0.0.1:%d\r\nConnection: close\r\n\r\n", pathq, port)))
	_ = c.SetReadDeadline(time.Now().Add(8 * time.Second))
	all, _ := io.ReadAll(c)
	head, body, _ := strings.Cut(string(all), "\r\n\r\n")
	f := strings.Fields(head)
	code := 0
	if len(f) >= 2 {
		code = atoi(f[1])
	}
	if strings.Contains(strings.ToLower(head), "transfer-encoding: chunked") {
		// de-chunk (only sizes matter here)
		var out []byte
		rest := body
		for {
			line, r, ok := strings.Cut(rest, "\r\n")
			if !ok {
				break
			}
			var n int
			fmt.Sscanf(line, "%x", &n)
			if n == 0 || n > len(r) {
				break
			}
			out = append(out, r[:n]...)
			rest = strings.TrimPrefix(r[n:], "\r\n")
		}
		return code, out
	}
	return code, []byte(body)
}

func c14SrvKick(a []string) string {
	entry, which := a[0], a[1]
	s := c14GetServer("0000000", "off")
	stream := "kick" + entry
	var closed func() bool
	var cleanup func()
	switch entry {
	case "rtmp-pub":
		ps := rtmp.NewPushSession(func(option *rtmp.PushSessionOption) { option.PushTimeoutMs = 8000 })
		if err := ps.Push(fmt.Sprintf("rtmp://127.0.0.1:%d/live/%s", s.rtmpPort, stream)); err != nil {
			panic(err)
		}
		done := make(chan struct{})
		go func() { <-ps.WaitChan(); close(done) }()
		closed = func() bool {
			select {
			case <-done:
				return true
			default:
				return false
			}
		}
		cleanup = func() { _ = ps.Dispose() }
	case "rtmp-sub":
		ps := rtmp.NewPullSession(func(option *rtmp.PullSessionOption) { option.PullTimeoutMs = 8000 })
		if err := ps.Pull(fmt.Sprintf("rtmp://127.0.0.1:%d/live/%s", s.rtmpPort, stream)); err != nil {
			panic(err)
		}
		done := make(chan struct{})
		go func() { <-ps.WaitChan(); close(done) }()
		closed = func() bool {
			select {
			case <-done:
				return true
			default:
				return false
			}
		}
		cleanup = func() { _ = ps.Dispose() }
	case "flv-sub", "ts-sub":
		ext := map[string]string{"flv-sub": ".flv", "ts-sub": ".ts"}[entry]
		t := c14Dial(s.httpPort, fmt.Sprintf("GET /live/%s%s HTTP/1.1\r\nHost: 127.0.0.1:%d\r\n\r\n", stream, ext, s.httpPort))
		closed = func() bool { _, e, _ := t.state(); return e }
		cleanup = func() { _ = t.c.Close() }
	default:
		panic("kick entry")
	}
	defer func() {
		cleanup()
		for i := 0; i < 500; i++ {
			if l, _ := s.listed(stream); !l {
				break
			}
			time.Sleep(2 * time.Millisecond)
		}
	}()
	var id string
	for i := 0; i < 1000; i++ {
		var l bool
		if l, id = s.listed(stream); l {
			break
		}
		time.Sleep(2 * time.Millisecond)
	}
	if id == "" {
		return "not-attached"
	}
	if which == "bogus" {
		id = id + "9"
	}
	resp := s.sm.CtrlKickSession(base.ApiCtrlKickSessionReq{StreamName: stream, SessionId: id})
	res := "kicked"
	if resp.ErrorCode != base.ErrorCodeSucc {
		res = "notfound"
	}
	// the kicked session's connection is closed and the session disappears from the statistics
	isClosed, listed := false, true
	for i := 0; i < 2500; i++ {
		isClosed = closed()
		listed, _ = s.listed(stream)
		if res == "kicked" && isClosed && !listed {
			break
		}
		if res != "kicked" && i > 25 {
			break
		}
		time.Sleep(2 * time.Millisecond)
	}
	return fmt.Sprintf("%s closed=%d listed=%d", res, c14Bool(isClosed), c14Bool(listed))
}

func c14SrvBl(a []string) string {
	for attempt := 0; ; attempt++ {
		out, ok := c14SrvBlRun(a)
		if ok || attempt >= 5 {
			return out
		}
	}
}

func c14SrvBlRun(a []string) (string, bool) {
	d, wait := atoiSigned(a[0]), atoi(a[1])
	s := c14GetServer("0000000", "off")
	stream := "blstream"
	dir := filepath.Join(s.dir, "hls", stream)
	_ = os.MkdirAll(dir, 0777)
	_ = ioutil.WriteFile(filepath.Join(dir, "playlist.m3u8"), []byte("#EXTM3U\n"), 0666)
	if wait > 0 {
		now := time.Now()
		time.Sleep(now.Truncate(time.Second).Add(time.Second + 30*time.Millisecond).Sub(now))
	}
	t0 := time.Now().Unix()
	s.sm.CtrlAddIpBlacklist(base.ApiCtrlAddIpBlacklistReq{Ip: "127.0.0.1", DurationSec: d})
	ok := wait == 0 || time.Now().Unix() == t0
	time.Sleep(time.Duration(wait) * time.Second)
	code, body := c14HttpGet(s.httpPort, "/hls/"+stream+".m3u8")
	ok = ok && (wait == 0 || time.Now().Unix() == t0+int64(wait))
	// leave the blacklist empty for later ops
	s.sm.CtrlAddIpBlacklist(base.ApiCtrlAddIpBlacklistReq{Ip: "127.0.0.1", DurationSec: -10})
	if code == 200 && len(body) > 0 {
		return "served", ok
	}
	return "blocked", ok
}

func init() {
	ops["srv.req"] = c14SrvReq
	ops["srv.kick"] = c14SrvKick
	ops["srv.bl"] = c14SrvBl
}
