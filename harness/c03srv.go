package main

import (
	"bufio"
	"bytes"
	"errors"
	"fmt"
	"io"
	"net"
	"sort"
	"strconv"
	"strings"
	"sync"
	"time"

	"github.com/q191201771/lal/pkg/base"
	"github.com/q191201771/lal/pkg/logic"
	"github.com/q191201771/lal/pkg/rtmp"
)

// C03, L2: a REAL logic.ServerManager on ephemeral 127.0.0.1 ports with a recording INotifyHandler, an
// IAuthentication that refuses requests carrying `deny=1`, a hook session per group as the tap of what
// the group broadcasts, driven by real network clients written for the harness (raw RTMP: handshake +
// connect + createStream + publish / play / audio message; raw RTSP: ANNOUNCE / DESCRIBE / SETUP /
// RECORD / PLAY), the ILalServer API (customize pub, start_rtp_pub, kick, relay pull start/stop,
// stat), and a stub RTMP origin (lal's own rtmp.ServerSession run by the harness on parked connections)
// so that "the origin answers" is an event the scenario chooses.
//
//	adm.srv <ev>;<ev>;...  =>  <res> | <res> | ... || <notifications and stat views in order>
//
// One server per harness process; every scenario uses its own stream names. Every event ends with a
// barrier (the notification / connection close / API answer that shows the server is done with it).

type c03N struct{ kind, key, stream string }

type c03Notify struct {
	mu sync.Mutex
	ns []c03N
}

func (h *c03Notify) add(kind string, i base.SessionEventCommonInfo) {
	h.mu.Lock()
	h.ns = append(h.ns, c03N{kind, i.SessionId, i.StreamName})
	h.mu.Unlock()
}
func (h *c03Notify) OnServerStart(info base.LalInfo) {}
func (h *c03Notify) OnUpdate(info base.UpdateInfo)   {}
func (h *c03Notify) OnPubStart(info base.PubStartInfo) {
	h.add("pub_start", info.SessionEventCommonInfo)
}
func (h *c03Notify) OnPubStop(info base.PubStopInfo) { h.add("pub_stop", info.SessionEventCommonInfo) }
func (h *c03Notify) OnSubStart(info base.SubStartInfo) {
	h.add("sub_start", info.SessionEventCommonInfo)
}
func (h *c03Notify) OnSubStop(info base.SubStopInfo) { h.add("sub_stop", info.SessionEventCommonInfo) }
func (h *c03Notify) OnRelayPullStart(info base.PullStartInfo) {
	h.add("relay_pull_start", info.SessionEventCommonInfo)
}
func (h *c03Notify) OnRelayPullStop(info base.PullStopInfo) {
	h.add("relay_pull_stop", info.SessionEventCommonInfo)
}
func (h *c03Notify) OnRtmpConnect(info base.RtmpConnectInfo) {}
func (h *c03Notify) OnHlsMakeTs(info base.HlsMakeTsInfo)     {}
func (h *c03Notify) snapshot() []c03N {
	h.mu.Lock()
	defer h.mu.Unlock()
	return append([]c03N(nil), h.ns...)
}
func (h *c03Notify) count(kind, stream string) int {
	h.mu.Lock()
	defer h.mu.Unlock()
	n := 0
	for _, x := range h.ns {
		if x.kind == kind && x.stream == stream {
			n++
		}
	}
	return n
}
func (h *c03Notify) has(kind, key string) bool {
	h.mu.Lock()
	defer h.mu.Unlock()
	for _, x := range h.ns {
		if x.kind == kind && x.key == key {
			return true
		}
	}
	return false
}

type c03Auth struct{}

func (c03Auth) OnPubStart(info base.PubStartInfo) error {
	if strings.Contains(info.UrlParam, "deny=1") {
		return errors.New("denied")
	}
	return nil
}
func (c03Auth) OnSubStart(info base.SubStartInfo) error {
	if strings.Contains(info.UrlParam, "deny=1") {
		return errors.New("denied")
	}
	return nil
}
func (c03Auth) OnHls(streamName, urlParam string) error { return nil }

type c03Tap struct {
	mu      sync.Mutex
	streams []string
}
type c03TapCtx struct {
	t      *c03Tap
	stream string
}

func (c c03TapCtx) OnMsg(msg base.RtmpMsg) {
	// only the harness's own media probe counts: an RTSP publisher's remuxer emits sequence headers of its own shortly
	// after ANNOUNCE was answered, and those may land inside another event's observation window
	if !bytes.Equal(msg.Payload, []byte{0xaf, 0x01, 0x21, 0x10}) {
		return
	}
	c.t.mu.Lock()
	c.t.streams = append(c.t.streams, c.stream)
	c.t.mu.Unlock()
}
func (c c03TapCtx) OnStop() {}
func (t *c03Tap) n() int {
	t.mu.Lock()
	defer t.mu.Unlock()
	return len(t.streams)
}
func (t *c03Tap) at(i int) string {
	t.mu.Lock()
	defer t.mu.Unlock()
	return t.streams[i]
}

// ----- stub origin ---------------------------------------------------------------------------------

type c03Origin struct {
	ln     net.Listener
	mu     sync.Mutex
	parked []net.Conn
	total  int
	early  map[*rtmp.ServerSession]bool // origins that send media before they answer `play`
}

type c03OriginSess struct {
	conn  net.Conn
	sess  *rtmp.ServerSession
	early bool
}

func (o *c03Origin) OnRtmpConnect(session *rtmp.ServerSession, opa rtmp.ObjectPairArray) {
	o.mu.Lock()
	e := o.early[session]
	o.mu.Unlock()
	if e {
		_ = session.Write(c03RtmpMsg(base.RtmpTypeIdAudio, 6, 1, []byte{0xaf, 0x01, 0x21, 0x10}))
		_ = session.Flush()
	}
}
func (o *c03Origin) OnNewRtmpPubSession(session *rtmp.ServerSession) error {
	return errors.New("origin: no publish")
}
func (o *c03Origin) OnNewRtmpSubSession(session *rtmp.ServerSession) error { return nil }

func c03NewOrigin() *c03Origin {
	ln, err := net.Listen("tcp", "127.0.0.1:0")
	if err != nil {
		panic(err)
	}
	o := &c03Origin{ln: ln, early: map[*rtmp.ServerSession]bool{}}
	go func() {
		for {
			c, err := ln.Accept()
			if err != nil {
				return
			}
			o.mu.Lock()
			o.parked = append(o.parked, c)
			o.total++
			o.mu.Unlock()
		}
	}()
	return o
}
func (o *c03Origin) count() int {
	o.mu.Lock()
	defer o.mu.Unlock()
	return o.total
}

// take returns the i-th connection ever accepted (every pull attempt of the server is one)
func (o *c03Origin) take(i int) net.Conn {
	o.mu.Lock()
	defer o.mu.Unlock()
	return o.parked[i]
}
func (o *c03Origin) port() int { return o.ln.Addr().(*net.TCPAddr).Port }
func (o *c03Origin) closeAll() {
	o.mu.Lock()
	defer o.mu.Unlock()
	for _, c := range o.parked {
		_ = c.Close()
	}
}

// ----- the server ----------------------------------------------------------------------------------

type c03Server struct {
	sm       *logic.ServerManager
	nh       *c03Notify
	tap      *c03Tap
	origin   *c03Origin
	rtmpPort int
	rtspPort int
	scen     int
}

var c03TheServer *c03Server

func c03FreePort() int {
	ln, err := net.Listen("tcp", "127.0.0.1:0")
	if err != nil {
		panic(err)
	}
	p := ln.Addr().(*net.TCPAddr).Port
	_ = ln.Close()
	return p
}

func c03GetServer() *c03Server {
	if c03TheServer != nil {
		return c03TheServer
	}
	s := &c03Server{nh: &c03Notify{}, tap: &c03Tap{}, origin: c03NewOrigin(), rtmpPort: c03FreePort(), rtspPort: c03FreePort()}
	conf := fmt.Sprintf(`{"conf_version":"%s","rtmp":{"enable":true,"addr":"127.0.0.1:%d"},"rtsp":{"enable":true,"addr":"127.0.0.1:%d"},`+
		`"log":{"level":6,"filename":"","is_to_stdout":false,"is_rotate_daily":false,"short_file_flag":false,"timestamp_flag":false,`+
		`"timestamp_with_ms_flag":false,"level_flag":false,"assert_behavior":1}}`, base.ConfVersion, s.rtmpPort, s.rtspPort)
	lals := logic.NewLalServer(func(option *logic.Option) {
		option.ConfRawContent = []byte(conf)
		option.NotifyHandler = s.nh
		option.Authentication = c03Auth{}
	})
	s.sm = lals.(*logic.ServerManager)
	s.sm.WithOnHookSession(func(uniqueKey string, streamName string) logic.ICustomizeHookSessionContext {
		return c03TapCtx{s.tap, streamName}
	})
	go func() {
		if err := s.sm.RunLoop(); err != nil {
			panic(err)
		}
	}()
	// wait until the listeners are up
	c03Wait("rtmp listener", func() bool {
		c, err := net.DialTimeout("tcp", fmt.Sprintf("127.0.0.1:%d", s.rtspPort), 200*time.Millisecond)
		if err != nil {
			return false
		}
		_ = c.Close()
		return true
	})
	time.Sleep(20 * time.Millisecond)
	c03TheServer = s
	return s
}

// ----- raw RTMP client ------------------------------------------------------------------------------

type c03Rtmp struct {
	conn   net.Conn
	closed chan struct{}
}

func c03RtmpMsg(typ uint8, csid int, msid int, payload []byte) []byte {
	var h base.RtmpHeader
	h.Csid = csid
	h.MsgLen = uint32(len(payload))
	h.MsgTypeId = typ
	h.MsgStreamId = msid
	h.TimestampAbs = 0
	return rtmp.Message2Chunks(payload, &h)
}

func c03Cmd(name string, tid float64, f func(w io.Writer)) []byte {
	var b bytes.Buffer
	_ = rtmp.Amf0.WriteString(&b, name)
	_ = rtmp.Amf0.WriteNumber(&b, tid)
	f(&b)
	return b.Bytes()
}

func c03DialRtmp(port int, app string) (*c03Rtmp, error) {
	conn, err := net.DialTimeout("tcp", fmt.Sprintf("127.0.0.1:%d", port), time.Second)
	if err != nil {
		return nil, err
	}
	var hs rtmp.HandshakeClientSimple
	if err = hs.WriteC0C1(conn); err != nil {
		return nil, err
	}
	if err = hs.ReadS0S1(conn); err != nil {
		return nil, err
	}
	if err = hs.WriteC2(conn); err != nil {
		return nil, err
	}
	if err = hs.ReadS2(conn); err != nil {
		return nil, err
	}
	c := &c03Rtmp{conn: conn, closed: make(chan struct{})}
	go func() {
		_, _ = io.Copy(io.Discard, conn)
		close(c.closed)
	}()
	// Set Chunk Size 4096 (what Message2Chunks splits at), connect, createStream
	out := c03RtmpMsg(base.RtmpTypeIdSetChunkSize, 2, 0, []byte{0, 0, 0x10, 0})
	out = append(out, c03RtmpMsg(base.RtmpTypeIdCommandMessageAmf0, 3, 0, c03Cmd("connect", 1, func(w io.Writer) {
		_ = rtmp.Amf0.WriteObject(w, rtmp.ObjectPairArray{
			{Key: "app", Value: app},
			{Key: "tcUrl", Value: fmt.Sprintf("rtmp://127.0.0.1:%d/%s", port, app)},
		})
	}))...)
	out = append(out, c03RtmpMsg(base.RtmpTypeIdCommandMessageAmf0, 3, 0, c03Cmd("createStream", 2, func(w io.Writer) {
		_ = rtmp.Amf0.WriteNull(w)
	}))...)
	_, err = conn.Write(out)
	return c, err
}

func (c *c03Rtmp) publish(name string) {
	_, _ = c.conn.Write(c03RtmpMsg(base.RtmpTypeIdCommandMessageAmf0, 5, 1, c03Cmd("publish", 3, func(w io.Writer) {
		_ = rtmp.Amf0.WriteNull(w)
		_ = rtmp.Amf0.WriteString(w, name)
		_ = rtmp.Amf0.WriteString(w, "live")
	})))
}
func (c *c03Rtmp) play(name string) {
	_, _ = c.conn.Write(c03RtmpMsg(base.RtmpTypeIdCommandMessageAmf0, 5, 1, c03Cmd("play", 4, func(w io.Writer) {
		_ = rtmp.Amf0.WriteNull(w)
		_ = rtmp.Amf0.WriteString(w, name)
	})))
}
func (c *c03Rtmp) audio() {
	_, _ = c.conn.Write(c03RtmpMsg(base.RtmpTypeIdAudio, 6, 1, []byte{0xaf, 0x01, 0x21, 0x10}))
}
func (c *c03Rtmp) isClosed() bool {
	select {
	case <-c.closed:
		return true
	default:
		return false
	}
}

// ----- raw RTSP client ------------------------------------------------------------------------------

type c03Rtsp struct {
	conn   net.Conn
	mu     sync.Mutex
	resp   int // number of "RTSP/1.0 200" responses read
	closed chan struct{}
	cseq   int
	port   int
}

const c03Sdp = "v=0\r\no=- 0 0 IN IP4 127.0.0.1\r\ns=No Name\r\nc=IN IP4 127.0.0.1\r\nt=0 0\r\n" +
	"m=video 0 RTP/AVP 96\r\na=rtpmap:96 H264/90000\r\n" +
	"a=fmtp:96 packetization-mode=1; sprop-parameter-sets=Z2QAFqyyAUBf8uAiAAADAAIAAAMAPB4sXJA=,aOvDyyLA; profile-level-id=640016\r\n" +
	"a=control:streamid=0\r\n"

func c03DialRtsp(port int) (*c03Rtsp, error) {
	conn, err := net.DialTimeout("tcp", fmt.Sprintf("127.0.0.1:%d", port), time.Second)
	if err != nil {
		return nil, err
	}
	c := &c03Rtsp{conn: conn, closed: make(chan struct{}), port: port}
	go func() {
		r := bufio.NewReader(conn)
		for {
			line, err := r.ReadString('\n')
			if err != nil {
				break
			}
			if strings.HasPrefix(line, "RTSP/1.0 200") {
				c.mu.Lock()
				c.resp++
				c.mu.Unlock()
			}
		}
		close(c.closed)
	}()
	return c, nil
}
func (c *c03Rtsp) req(method, path, extra, body string) {
	c.cseq++
	s := fmt.Sprintf("%s rtsp://127.0.0.1:%d/live/%s RTSP/1.0\r\nCSeq: %d\r\n%s", method, c.port, path, c.cseq, extra)
	if body != "" {
		s += fmt.Sprintf("Content-Type: application/sdp\r\nContent-Length: %d\r\n", len(body))
	}
	s += "\r\n" + body
	_, _ = c.conn.Write([]byte(s))
}
func (c *c03Rtsp) responses() int {
	c.mu.Lock()
	defer c.mu.Unlock()
	return c.resp
}
func (c *c03Rtsp) isClosed() bool {
	select {
	case <-c.closed:
		return true
	default:
		return false
	}
}

// ----- scenario runner ------------------------------------------------------------------------------

type c03Scen struct {
	s        *c03Server
	prefix   string
	rtmpC    map[string]*c03Rtmp
	rtspC    map[string]*c03Rtsp
	rtspPath map[string]string // rtsp conn handle -> last stream path used (for SETUP / PLAY uris)
	rtspPubH map[string]string // rtsp conn handle -> handle of its pub session
	rtspSubH map[string]string
	cust     map[string]logic.ICustomizePubSessionContext
	custGone map[string]bool
	psStream map[string]string
	attempt  map[string]*c03OriginSess // pull attempt handle -> origin side
	attStr   map[string]string         // pull attempt handle -> stream name
	earlyRes map[string]string         // pull attempt handle -> outcome of its early media
	key      map[string]string         // handle -> unique key
	seq      []string                  // notifications ("kind@key") and stat markers, in order
	seen     int                       // notifications of the recorder already looked at
	mine     map[string]bool           // stream names of this scenario
}

func (sc *c03Scen) name(st string) string {
	n := sc.prefix + "s" + st
	sc.mine[n] = true
	return n
}

// drain copies the new notifications about this scenario's streams into the sequence
func (sc *c03Scen) drain() {
	ns := sc.s.nh.snapshot()
	for _, n := range ns[sc.seen:] {
		if sc.mine[n.stream] {
			sc.seq = append(sc.seq, n.kind+"@"+n.key)
		}
	}
	sc.seen = len(ns)
}

func c03WaitFor(timeout time.Duration, cond func() bool) bool {
	deadline := time.Now().Add(timeout)
	for !cond() {
		if time.Now().After(deadline) {
			return false
		}
		time.Sleep(200 * time.Microsecond)
	}
	return true
}

const c03Grace = 15 * time.Millisecond

// lastKey: the key of the most recent notification of `kind` on `stream`
func (sc *c03Scen) lastKey(kind, stream string) string {
	ns := sc.s.nh.snapshot()
	for i := len(ns) - 1; i >= 0; i-- {
		if ns[i].kind == kind && ns[i].stream == stream {
			return ns[i].key
		}
	}
	return ""
}

// waitStop: the session bound to handle h was started; wait for its stop
func (sc *c03Scen) waitStopOrGrace(h string, startKind, stopKind string) {
	key, ok := sc.key[h]
	if ok && sc.s.nh.has(startKind, key) && !sc.s.nh.has(stopKind, key) {
		c03WaitFor(3*time.Second, func() bool { return sc.s.nh.has(stopKind, key) })
		return
	}
	time.Sleep(c03Grace)
}

// pullSpawned: a pull attempt was started by the server: bind the origin-side connection
func (sc *c03Scen) pullSpawned(nid, stream string, originBefore int) {
	if !c03WaitFor(2*time.Second, func() bool { return sc.s.origin.count() > originBefore }) {
		return
	}
	sc.attempt[nid] = &c03OriginSess{conn: sc.s.origin.take(originBefore)}
	sc.attStr[nid] = stream
	// the key of the attempt (start_relay_pull returns it; one started by a subscriber is only known to the group)
	if _, ok := sc.key[nid]; !ok {
		if g := sc.s.sm.GetGroup("", stream); g != nil {
			if uk := g.VerifRelayState().PullingSessionUk; uk != "" {
				sc.key[nid] = uk
			}
		}
	}
}

func (sc *c03Scen) pulling(stream string) bool {
	g := sc.s.sm.GetGroup("", stream)
	return g != nil && g.VerifAdmission().IsSessionPulling
}

func (sc *c03Scen) tapResult(t0 int) string {
	if c03WaitFor(1500*time.Millisecond, func() bool { return sc.s.tap.n() > t0 }) {
		st := sc.s.tap.at(t0)
		return "fwd" + strings.TrimPrefix(st, sc.prefix+"s")
	}
	return "drop"
}

func (sc *c03Scen) step(f []string) string {
	s := sc.s
	nh := s.nh
	switch f[0] {
	case "rO":
		c, err := c03DialRtmp(s.rtmpPort, "live")
		if err != nil {
			return "err"
		}
		sc.rtmpC[f[1]] = c
		return "ok"
	case "rP", "rY":
		c := sc.rtmpC[f[1]]
		if c == nil || c.isClosed() {
			return "na"
		}
		name := sc.name(f[2])
		arg := name
		if f[3] == "0" {
			arg += "?deny=1"
		}
		kind := "pub_start"
		if f[0] == "rY" {
			kind = "sub_start"
		}
		n0 := nh.count(kind, name)
		pulling0 := sc.pulling(name)
		o0 := s.origin.count()
		if f[0] == "rP" {
			c.publish(arg)
		} else {
			c.play(arg)
		}
		if !c03WaitFor(3*time.Second, func() bool { return nh.count(kind, name) > n0 || c.isClosed() }) {
			return "timeout"
		}
		if nh.count(kind, name) > n0 {
			sc.key[f[1]] = sc.lastKey(kind, name)
			if f[0] == "rY" && !pulling0 && sc.pulling(name) {
				sc.pullSpawned(f[4], name, o0)
			}
			return "ok"
		}
		time.Sleep(c03Grace)
		delete(sc.rtmpC, f[1])
		return "closed"
	case "rM":
		c := sc.rtmpC[f[1]]
		if c == nil || c.isClosed() {
			return "na"
		}
		t0 := s.tap.n()
		c.audio()
		return sc.tapResult(t0)
	case "rC":
		c := sc.rtmpC[f[1]]
		if c == nil {
			return "na"
		}
		_ = c.conn.Close()
		key := sc.key[f[1]]
		if key != "" && nh.has("pub_start", key) {
			sc.waitStopOrGrace(f[1], "pub_start", "pub_stop")
		} else {
			sc.waitStopOrGrace(f[1], "sub_start", "sub_stop")
		}
		delete(sc.rtmpC, f[1])
		return "ok"
	case "sO":
		c, err := c03DialRtsp(s.rtspPort)
		if err != nil {
			return "err"
		}
		sc.rtspC[f[1]] = c
		return "ok"
	case "sA", "sD":
		c := sc.rtspC[f[1]]
		if c == nil || c.isClosed() {
			return "na"
		}
		name := sc.name(f[3])
		path := name
		if f[4] == "0" {
			path += "?deny=1"
		}
		sc.rtspPath[f[1]] = path
		kind := "pub_start"
		if f[0] == "sD" {
			kind = "sub_start"
		}
		n0 := nh.count(kind, name)
		if f[0] == "sA" {
			sc.rtspPubH[f[1]] = f[2]
			c.req("ANNOUNCE", path, "", c03Sdp)
		} else {
			sc.rtspSubH[f[1]] = f[2]
			c.req("DESCRIBE", path, "Accept: application/sdp\r\n", "")
		}
		if !c03WaitFor(3*time.Second, func() bool { return nh.count(kind, name) > n0 || c.isClosed() }) {
			return "timeout"
		}
		if nh.count(kind, name) > n0 {
			sc.key[f[2]] = sc.lastKey(kind, name)
			return "ok"
		}
		time.Sleep(c03Grace)
		delete(sc.rtspC, f[1])
		return "closed"
	case "sS", "sR", "sY":
		c := sc.rtspC[f[1]]
		if c == nil || c.isClosed() {
			return "na"
		}
		r0 := c.responses()
		path := sc.rtspPath[f[1]]
		var name string
		if i := strings.Index(path, "?"); i >= 0 {
			name = path[:i]
		} else {
			name = path
		}
		pulling0 := name != "" && sc.pulling(name)
		o0 := s.origin.count()
		switch f[0] {
		case "sS":
			c.req("SETUP", path+"/streamid=0", "Transport: RTP/AVP/TCP;unicast;interleaved=0-1\r\n", "")
		case "sR":
			c.req("RECORD", path, "Range: npt=0.000-\r\n", "")
		default:
			c.req("PLAY", path, "Range: npt=0.000-\r\n", "")
		}
		if !c03WaitFor(3*time.Second, func() bool { return c.responses() > r0 || c.isClosed() }) {
			return "timeout"
		}
		if c.responses() > r0 {
			if f[0] == "sY" && !pulling0 && sc.pulling(name) {
				sc.pullSpawned(f[2], name, o0)
			}
			return "ok"
		}
		time.Sleep(c03Grace)
		delete(sc.rtspC, f[1])
		return "closed"
	case "sC":
		c := sc.rtspC[f[1]]
		if c == nil {
			return "na"
		}
		_ = c.conn.Close()
		if p, ok := sc.rtspPubH[f[1]]; ok && sc.key[p] != "" {
			sc.waitStopOrGrace(p, "pub_start", "pub_stop")
		} else if q, ok := sc.rtspSubH[f[1]]; ok && sc.key[q] != "" {
			sc.waitStopOrGrace(q, "sub_start", "sub_stop")
		} else {
			time.Sleep(c03Grace)
		}
		delete(sc.rtspC, f[1])
		return "ok"
	case "cA":
		ctx, err := s.sm.AddCustomizePubSession(sc.name(f[2]))
		if err != nil {
			return "refused"
		}
		sc.cust[f[1]] = ctx
		sc.key[f[1]] = ctx.UniqueKey()
		return "ok"
	case "cD":
		ctx := sc.cust[f[1]]
		if ctx == nil || sc.custGone[f[1]] {
			return "na"
		}
		s.sm.DelCustomizePubSession(ctx)
		sc.custGone[f[1]] = true
		return "ok"
	case "cM":
		ctx := sc.cust[f[1]]
		if ctx == nil {
			return "na"
		}
		t0 := s.tap.n()
		if err := ctx.FeedRtmpMsg(c03Msg()); err != nil {
			return "drop"
		}
		if s.tap.n() > t0 {
			return "fwd" + strings.TrimPrefix(s.tap.at(t0), sc.prefix+"s")
		}
		return "drop"
	case "gP":
		name := sc.name(f[2])
		ret := s.sm.CtrlStartRtpPub(base.ApiCtrlStartRtpPubReq{StreamName: name, Port: 0})
		if ret.ErrorCode != base.ErrorCodeSucc {
			return "refused"
		}
		sc.key[f[1]] = ret.Data.SessionId
		sc.psStream[f[1]] = name
		return "ok"
	case "gE":
		name, ok := sc.psStream[f[1]]
		if !ok {
			return "na"
		}
		key := sc.key[f[1]]
		c03WaitFor(time.Second, func() bool {
			st := s.sm.StatGroup(name)
			return st == nil || st.StatPub.SessionId != key
		})
		delete(sc.psStream, f[1])
		return "ok"
	case "K":
		key, ok := sc.key[f[2]]
		if !ok {
			key = "RTMPPUBSUB0"
		}
		ret := s.sm.CtrlKickSession(base.ApiCtrlKickSessionReq{StreamName: sc.name(f[1]), SessionId: key})
		if ret.ErrorCode == base.ErrorCodeSucc {
			return "ok"
		}
		return "fail"
	case "lS":
		name := sc.name(f[1])
		retry := -1
		if f[3] != "f" {
			retry = atoi(f[3])
		}
		o0 := s.origin.count()
		ret := s.sm.CtrlStartRelayPull(base.ApiCtrlStartRelayPullReq{
			Url:                      fmt.Sprintf("rtmp://127.0.0.1:%d/live/%s", s.origin.port(), name),
			StreamName:               name,
			PullRetryNum:             retry,
			AutoStopPullAfterNoOutMs: base.AutoStopPullAfterNoOutMsNever,
		})
		if ret.ErrorCode != base.ErrorCodeSucc {
			return "fail"
		}
		sc.key[f[4]] = ret.Data.SessionId
		sc.pullSpawned(f[4], name, o0)
		return "ok"
	case "lA":
		a := sc.attempt[f[1]]
		if a == nil || a.sess != nil {
			return "na"
		}
		name := sc.attStr[f[1]]
		n0 := nh.count("relay_pull_start", name)
		p0 := nh.count("relay_pull_stop", name)
		a.sess = rtmp.NewServerSession(s.origin, a.conn)
		t0 := s.tap.n()
		if a.early {
			s.origin.mu.Lock()
			s.origin.early[a.sess] = true
			s.origin.mu.Unlock()
			defer func() {
				// the media the origin sent before answering `play`: was it broadcast?
				if s.tap.n() > t0 {
					sc.earlyRes[f[1]] = "fwd" + strings.TrimPrefix(s.tap.at(t0), sc.prefix+"s")
				} else {
					sc.earlyRes[f[1]] = "drop"
				}
			}()
		}
		go func() { _ = a.sess.RunLoop() }()
		if !c03WaitFor(3*time.Second, func() bool {
			return nh.count("relay_pull_start", name) > n0 || nh.count("relay_pull_stop", name) > p0
		}) {
			return "timeout"
		}
		if nh.count("relay_pull_start", name) > n0 {
			sc.key[f[1]] = sc.lastKey("relay_pull_start", name)
			return "ok"
		}
		sc.key[f[1]] = sc.lastKey("relay_pull_stop", name)
		delete(sc.attempt, f[1]) // refused: the pull goroutine has deleted its session already
		return "refused"
	case "lD":
		a := sc.attempt[f[1]]
		if a == nil {
			return "na"
		}
		name := sc.attStr[f[1]]
		key := sc.key[f[1]]
		p0 := nh.count("relay_pull_stop", name)
		// (only the raw connection: see c03L1.drop)
		_ = a.conn.Close()
		c03WaitFor(2*time.Second, func() bool { return nh.count("relay_pull_stop", name) > p0 })
		if key == "" {
			sc.key[f[1]] = sc.lastKey("relay_pull_stop", name)
		}
		delete(sc.attempt, f[1])
		return "ok"
	case "lM":
		a := sc.attempt[f[1]]
		if a == nil {
			return "na"
		}
		if a.sess == nil {
			// the origin has not answered yet: it will send this media right after `connect`, before it
			// answers `play`; the outcome is known (and filled in) when the following lA event has run
			a.early = true
			return "?" + f[1]
		}
		t0 := s.tap.n()
		_ = a.sess.Write(c03RtmpMsg(base.RtmpTypeIdAudio, 6, 1, []byte{0xaf, 0x01, 0x21, 0x10}))
		_ = a.sess.Flush()
		return sc.tapResult(t0)
	case "lT":
		ret := s.sm.CtrlStopRelayPull(sc.name(f[1]))
		if ret.ErrorCode == base.ErrorCodeSucc {
			return "ok"
		}
		return "fail"
	case "S":
		time.Sleep(2 * time.Millisecond)
		sc.drain()
		st := s.sm.StatGroup(sc.name(f[1]))
		var pub, pull string
		var subs []string
		if st != nil {
			pub = st.StatPub.SessionId
			pull = st.StatPull.SessionId
			for _, x := range st.StatSubs {
				subs = append(subs, x.SessionId)
			}
		}
		sort.Strings(subs)
		sc.seq = append(sc.seq, fmt.Sprintf("S%s:pub=@%s;pull=@%s;subs=[%s]", f[1], pub, pull, "@"+strings.Join(subs, ",@")))
		return "ok"
	case "T":
		time.Sleep(1200 * time.Millisecond)
		return "ok"
	}
	return "bad-event"
}

// c03Rename renames every "@<key>" to "#<order of first appearance>" ("-" for the empty key); inside a
// subs=[…] list the already seen ids come first (by their number), unseen ones after (by key).
func c03Rename(seq []string) string {
	idx := map[string]int{}
	ren := func(k string) string {
		if k == "" {
			return "-"
		}
		if i, ok := idx[k]; ok {
			return "#" + strconv.Itoa(i)
		}
		idx[k] = len(idx)
		return "#" + strconv.Itoa(idx[k])
	}
	var out []string
	for _, e := range seq {
		if !strings.HasPrefix(e, "S") || !strings.Contains(e, ":pub=@") {
			i := strings.Index(e, "@")
			out = append(out, e[:i]+ren(e[i+1:]))
			continue
		}
		// S<st>:pub=@k;pull=@k;subs=[@a,@b]
		head := e[:strings.Index(e, ":")]
		rest := e[strings.Index(e, ":")+1:]
		parts := strings.SplitN(rest, ";", 3)
		pub := ren(strings.TrimPrefix(parts[0], "pub=@"))
		pull := ren(strings.TrimPrefix(parts[1], "pull=@"))
		inner := strings.TrimSuffix(strings.TrimPrefix(parts[2], "subs=["), "]")
		var seenKs, newKs []string
		for _, k := range strings.Split(inner, ",") {
			k = strings.TrimPrefix(k, "@")
			if k == "" {
				continue
			}
			if _, ok := idx[k]; ok {
				seenKs = append(seenKs, k)
			} else {
				newKs = append(newKs, k)
			}
		}
		sort.Slice(seenKs, func(i, j int) bool { return idx[seenKs[i]] < idx[seenKs[j]] })
		sort.Strings(newKs)
		var rs []string
		for _, k := range append(seenKs, newKs...) {
			rs = append(rs, ren(k))
		}
		out = append(out, fmt.Sprintf("%s:pub=%s;pull=%s;subs=[%s]", head, pub, pull, strings.Join(rs, ",")))
	}
	return strings.Join(out, ",")
}

func c03RunSrv(evS string) string {
	s := c03GetServer()
	s.scen++
	sc := &c03Scen{s: s, prefix: fmt.Sprintf("c03x%d", s.scen),
		rtmpC: map[string]*c03Rtmp{}, rtspC: map[string]*c03Rtsp{}, rtspPath: map[string]string{},
		rtspPubH: map[string]string{}, rtspSubH: map[string]string{},
		cust: map[string]logic.ICustomizePubSessionContext{}, custGone: map[string]bool{}, psStream: map[string]string{},
		attempt: map[string]*c03OriginSess{}, attStr: map[string]string{}, earlyRes: map[string]string{}, key: map[string]string{}, mine: map[string]bool{}}
	sc.seen = len(s.nh.snapshot())
	var res []string
	for _, e := range strings.Split(evS, ";") {
		f := strings.Split(e, ":")
		res = append(res, sc.step(f))
		sc.drain()
	}
	for i, r := range res {
		if strings.HasPrefix(r, "?") {
			if v, ok := sc.earlyRes[r[1:]]; ok {
				res[i] = v
			} else {
				res[i] = "na"
			}
		}
	}
	time.Sleep(c03Grace)
	sc.drain()
	out := strings.Join(res, " | ") + " || " + c03Rename(sc.seq)
	// cleanup: nothing of this scenario may keep running
	for name := range sc.mine {
		s.sm.CtrlStopRelayPull(name)
	}
	for _, c := range sc.rtmpC {
		_ = c.conn.Close()
	}
	for _, c := range sc.rtspC {
		_ = c.conn.Close()
	}
	for _, ctx := range sc.cust {
		s.sm.DelCustomizePubSession(ctx)
	}
	for h, name := range sc.psStream {
		s.sm.CtrlKickSession(base.ApiCtrlKickSessionReq{StreamName: name, SessionId: sc.key[h]})
	}
	for _, a := range sc.attempt {
		_ = a.conn.Close()
	}
	return out
}

func init() {
	ops["adm.srv"] = func(a []string) string { return c03RunSrv(a[0]) }
	ops["adm.srv.pinned"] = ops["adm.srv"]
}

// ----- generators -------------------------------------------------------------------------------------

func c03SrvCorpus() []struct{ label, evs string } {
	var out []struct{ label, evs string }
	add := func(label, evs string) { out = append(out, struct{ label, evs string }{label, evs}) }
	// two publishers, every protocol pair; the refused one leaves no trace
	add("rtmp-two-publishers", "rO:1;rP:1:5:1;rO:2;rP:2:5:1;S:5;rM:1;rC:1;S:5")
	add("rtmp-sub-then-refused-auth-then-pub", "rO:1;rY:1:5:1:9;rO:2;rP:2:5:0;rO:3;rP:3:5:1;S:5;rM:3;rC:3;rC:1;S:5")
	// S8 witnesses at server level
	add("w-rtmp-second-publish", "rO:1;rP:1:5:1;rP:1:5:1;rC:1;S:5")
	add("w-rtmp-second-publish", "rO:1;rP:1:5:1;rP:1:6:1;S:5;S:6;rC:1;S:5;S:6")
	add("w-rtmp-play-then-publish", "rO:1;rY:1:5:1:9;rP:1:5:1;S:5;rC:1;S:5")
	add("w-rtmp-publish-then-play", "rO:1;rP:1:5:1;rY:1:6:1:9;S:5;S:6")
	add("w-rtsp-refused-announce-stop", "rO:1;rP:1:5:1;sO:2;sA:2:3:5:1;sC:2;S:5;rC:1")
	add("w-rtsp-refused-describe-stop", "sO:1;sD:1:2:5:0;sO:3;sA:3:4:5:0;sO:5;sS:5;sO:6;sY:6:9;S:5")
	add("w-rtsp-second-announce", "sO:1;sA:1:2:5:1;sA:1:3:5:1;S:5")
	add("w-rtsp-announce-then-describe", "sO:1;sA:1:2:5:1;sD:1:3:5:1;S:5;sC:1;S:5")
	// the other order, with and without PLAY in between, the connection then ends: every start has its stop, nobody stays listed
	add("rtsp-describe-then-announce", "sO:1;sD:1:2:5:1;sA:1:3:5:1;S:5;sC:1;S:5")
	add("rtsp-describe-then-announce", "sO:1;sD:1:2:5:1;sY:1:9;sA:1:3:5:1;S:5;sC:1;S:5")
	add("rtsp-describe-then-announce", "sO:1;sD:1:2:5:1;sY:1:9;sA:1:3:6:1;S:5;S:6;sC:1;S:5;S:6")
	add("rtsp-describe-twice", "sO:1;sD:1:2:5:1;sD:1:3:5:1;S:5;sC:1;S:5")
	add("w-pull-refused-after-pub", "lS:5:0:0:9;rO:1;rP:1:5:1;lA:9;lD:9;S:5;rM:1;rC:1;S:5")
	add("w-pull-fails-after-pub", "lS:5:0:0:9;rO:1;rP:1:5:1;lD:9;S:5;rM:1;rC:1;lS:5:0:0:10;lT:5;lS:5:0:0:11;lA:11;K:5:11;lD:11;S:5")
	add("w-rtp-pub-second-input", "gP:1:5;S:5;gP:2:5;rO:3;rP:3:5:1;K:5:1;gE:1;S:5;rO:4;rP:4:5:1;gP:5:5;S:5;rC:4")
	add("w-departed-customize-feeds", "cA:1:5;cM:1;S:5;rO:2;rP:2:5:1;cA:3:5;cD:1;cM:1;rO:4;rP:4:5:1;cM:1;S:5;rC:4")
	// rtsp life cycle, kick
	add("rtsp-pub-sub-kick", "sO:1;sA:1:2:5:1;S:5;sS:1;sR:1;sO:3;sD:3:4:5:1;sY:3:9;S:5;K:5:4;sC:3;K:5:2;sC:1;S:5")
	add("w-pull-media-before-attach", "lS:5:0:0:9;rO:1;rP:1:5:1;lM:9;lA:9;S:5;rM:1;rC:1")
	add("w-pull-media-before-attach", "lS:5:0:0:9;lM:9;lA:9;lM:9;S:5;lD:9")
	add("pull-attached-then-pub", "lS:5:0:0:9;lA:9;S:5;lM:9;rO:1;rP:1:5:1;lT:5;lD:9;S:5")
	add("pull-by-subscriber", "rO:1;rY:1:5:1:9;lS:5:0:1:10;lD:10;rO:2;rY:2:5:1:11;S:5;lA:11;S:5;rC:1;rC:2;lD:11")
	add("kick-rtmp", "rO:1;rP:1:5:1;rO:2;rY:2:5:1:9;K:5:2;rC:2;S:5;K:6:1;K:5:1;rC:1;S:5")
	add("two-streams", "rO:1;rP:1:5:1;rO:2;rP:2:6:1;rO:3;rP:3:6:1;S:5;S:6;rC:2;rO:4;rP:4:6:1;S:6;rC:1;rC:4;S:5;S:6")
	add("start-pull-with-input", "rO:1;rP:1:5:1;lS:5:0:0:9;lT:5;S:5;rC:1;S:5")
	// stop_relay_pull / kick_session while the attempt is still connecting: the call succeeds, and when the
	// origin answers the attempt is refused (its one relay_pull_stop, no start, nothing attached)
	add("pull-stop-connecting", "lS:5:0:0:9;lT:5;lT:5;S:5;lA:9;S:5;lS:5:0:0:10;lA:10;S:5;lM:10;lT:5;lD:10;S:5")
	add("pull-stop-connecting", "lS:5:0:0:9;lT:5;lD:9;lS:5:0:0:10;lT:5;lM:10;lA:10;S:5;rO:1;rP:1:5:1;S:5;rC:1")
	add("pull-kick-connecting", "lS:5:0:0:9;K:6:9;K:5:9;K:5:9;lM:9;lA:9;S:5;rO:1;rY:1:5:1:10;S:5;rC:1")
	add("pull-kick-connecting", "rO:1;rY:1:5:1:8;lS:5:0:1:9;lD:9;rO:2;rY:2:5:1:10;K:5:10;S:5;lA:10;S:5;rC:1;rC:2;S:5")
	return out
}

type c03W struct {
	evs   []string
	next  int
	r     *Rng
	lab   map[string]bool
	rtmp  []*c03WC
	rtsp  []*c03WC
	cust  []int
	ps    []*c03WP
	pulls []*c03WA
	armed map[int]bool // streams on which start_relay_pull was called
	any   []*c03WK     // every session handle that can be kicked, with its stream
}
type c03WC struct {
	h    int
	cmd  string // "" / "P" / "Y" ; rtsp: "A" / "D"
	sess int    // rtsp: handle of the pub / sub session
	dead bool
	st   int
}
type c03WP struct {
	h, st int
	ended bool
}
type c03WA struct {
	h, st          int
	attached, done bool
}
type c03WK struct {
	h, st int
	close string // the event that must follow a kick of it
}

func (w *c03W) h() int       { w.next++; return w.next - 1 }
func (w *c03W) add(e string) { w.evs = append(w.evs, e) }
func (w *c03W) stream() int  { return w.r.Pick(5, 5, 5, 6) }
func (w *c03W) auth() int    { return w.r.Pick(1, 1, 1, 1, 1, 1, 1, 0) }

func c03SrvScenario(r *Rng) (string, string) {
	w := &c03W{next: 1, r: r, lab: map[string]bool{}, armed: map[int]bool{}}
	n := 4 + r.Intn(16)
	for i := 0; i < n; i++ {
		switch x := r.Intn(60); {
		case x < 8: // new rtmp publisher
			c := &c03WC{h: w.h(), cmd: "P", st: w.stream()}
			w.rtmp = append(w.rtmp, c)
			w.add(fmt.Sprintf("rO:%d", c.h))
			w.add(fmt.Sprintf("rP:%d:%d:%d", c.h, c.st, w.auth()))
			w.any = append(w.any, &c03WK{c.h, c.st, fmt.Sprintf("rC:%d", c.h)})
		case x < 12: // new rtmp player
			c := &c03WC{h: w.h(), cmd: "Y", st: w.stream()}
			w.rtmp = append(w.rtmp, c)
			nid := w.h()
			w.add(fmt.Sprintf("rO:%d", c.h))
			w.add(fmt.Sprintf("rY:%d:%d:%d:%d", c.h, c.st, w.auth(), nid))
			w.pulls = append(w.pulls, &c03WA{h: nid, st: c.st})
			w.any = append(w.any, &c03WK{c.h, c.st, fmt.Sprintf("rC:%d", c.h)})
		case x < 14: // a second command on an rtmp connection
			if len(w.rtmp) > 0 {
				c := w.rtmp[r.Intn(len(w.rtmp))]
				if !c.dead {
					if r.Bool() {
						w.add(fmt.Sprintf("rP:%d:%d:1", c.h, w.stream()))
					} else {
						w.add(fmt.Sprintf("rY:%d:%d:1:%d", c.h, w.stream(), w.h()))
					}
					c.dead = true
					w.lab["second-cmd"] = true
				}
			}
		case x < 18: // media from a publisher
			if len(w.rtmp) > 0 {
				c := w.rtmp[r.Intn(len(w.rtmp))]
				if c.cmd == "P" && !c.dead {
					w.add(fmt.Sprintf("rM:%d", c.h))
				}
			}
		case x < 24: // an rtmp connection ends
			if len(w.rtmp) > 0 {
				c := w.rtmp[r.Intn(len(w.rtmp))]
				w.add(fmt.Sprintf("rC:%d", c.h))
				c.dead = true
			}
		case x < 28: // rtsp publisher
			c := &c03WC{h: w.h(), cmd: "A", st: w.stream()}
			c.sess = w.h()
			w.rtsp = append(w.rtsp, c)
			w.add(fmt.Sprintf("sO:%d", c.h))
			w.add(fmt.Sprintf("sA:%d:%d:%d:%d", c.h, c.sess, c.st, w.auth()))
			if r.Bool() {
				w.add(fmt.Sprintf("sS:%d", c.h))
				w.add(fmt.Sprintf("sR:%d", c.h))
			}
			w.any = append(w.any, &c03WK{c.sess, c.st, fmt.Sprintf("sC:%d", c.h)})
			w.lab["rtsp"] = true
		case x < 31: // rtsp player
			c := &c03WC{h: w.h(), cmd: "D", st: w.stream()}
			c.sess = w.h()
			w.rtsp = append(w.rtsp, c)
			w.add(fmt.Sprintf("sO:%d", c.h))
			w.add(fmt.Sprintf("sD:%d:%d:%d:%d", c.h, c.sess, c.st, w.auth()))
			if r.Bool() {
				nid := w.h()
				w.add(fmt.Sprintf("sY:%d:%d", c.h, nid))
				w.pulls = append(w.pulls, &c03WA{h: nid, st: c.st})
			}
			w.any = append(w.any, &c03WK{c.sess, c.st, fmt.Sprintf("sC:%d", c.h)})
			w.lab["rtsp"] = true
		case x < 33: // rtsp protocol errors and second commands
			switch r.Intn(3) {
			case 0:
				c := w.h()
				w.add(fmt.Sprintf("sO:%d", c))
				if r.Bool() {
					w.add(fmt.Sprintf("sS:%d", c))
				} else {
					w.add(fmt.Sprintf("sY:%d:%d", c, w.h()))
				}
			default:
				if len(w.rtsp) > 0 {
					c := w.rtsp[r.Intn(len(w.rtsp))]
					if !c.dead {
						if r.Bool() {
							w.add(fmt.Sprintf("sA:%d:%d:%d:1", c.h, w.h(), w.stream()))
						} else {
							w.add(fmt.Sprintf("sD:%d:%d:%d:1", c.h, w.h(), w.stream()))
						}
						c.dead = true
						w.lab["second-cmd"] = true
					}
				}
			}
		case x < 37: // an rtsp connection ends
			if len(w.rtsp) > 0 {
				c := w.rtsp[r.Intn(len(w.rtsp))]
				w.add(fmt.Sprintf("sC:%d", c.h))
				c.dead = true
			}
		case x < 40: // customize publisher
			k := w.h()
			w.cust = append(w.cust, k)
			w.add(fmt.Sprintf("cA:%d:%d", k, w.stream()))
			w.lab["customize"] = true
		case x < 43:
			if len(w.cust) > 0 {
				k := w.cust[r.Intn(len(w.cust))]
				w.add(fmt.Sprintf("%s:%d", r.Pick2("cM", "cM", "cD"), k))
			}
		case x < 46: // GB28181
			p := &c03WP{h: w.h(), st: w.stream()}
			w.ps = append(w.ps, p)
			w.add(fmt.Sprintf("gP:%d:%d", p.h, p.st))
			w.lab["rtp-pub"] = true
		case x < 48:
			if len(w.ps) > 0 {
				p := w.ps[r.Intn(len(w.ps))]
				if !p.ended {
					w.add(fmt.Sprintf("K:%d:%d", p.st, p.h))
					w.add(fmt.Sprintf("gE:%d", p.h))
					p.ended = true
				}
			}
		case x < 51: // relay pull by API (retry 0: no timer-driven restarts)
			st := w.stream()
			if w.armed[st] {
				w.add(fmt.Sprintf("lT:%d", st))
				for _, a := range w.pulls {
					if a.st == st && !a.done {
						if !a.attached && r.Intn(3) == 0 {
							// stopped while connecting: the origin answers all the same, the attempt is refused
							w.add(fmt.Sprintf("lA:%d", a.h))
							w.lab["stop-connecting"] = true
						} else {
							w.add(fmt.Sprintf("lD:%d", a.h))
						}
						a.done = true
					}
				}
			}
			a := &c03WA{h: w.h(), st: st}
			w.pulls = append(w.pulls, a)
			w.add(fmt.Sprintf("lS:%d:0:0:%d", st, a.h))
			w.armed[st] = true
			// if the stream had an input the call fails but leaves the pull module enabled with no attempt
			// made: the next 1 s tick after the input leaves would start one on its own. Disarm at once.
			hasInputEvent := false
			for _, e := range w.evs {
				if (strings.HasPrefix(e, "rP:") || strings.HasPrefix(e, "sA:") || strings.HasPrefix(e, "cA:") || strings.HasPrefix(e, "gP:")) && strings.Contains(e, fmt.Sprintf(":%d", st)) {
					hasInputEvent = true
				}
			}
			if hasInputEvent {
				w.add(fmt.Sprintf("lT:%d", st))
				w.add(fmt.Sprintf("lD:%d", a.h))
				a.done = true
				w.armed[st] = false
			}
			w.lab["relay-pull"] = true
		case x < 55: // the origin answers / the attempt ends / media
			if len(w.pulls) > 0 {
				a := w.pulls[r.Intn(len(w.pulls))]
				if !a.done {
					switch r.Intn(5) {
					case 4:
						// kick of an attempt that is (perhaps) still connecting; it stays parked at the origin
						if !a.attached {
							w.add(fmt.Sprintf("K:%d:%d", a.st, a.h))
							w.lab["stop-connecting"] = true
						}
					case 0, 1:
						if !a.attached {
							w.add(fmt.Sprintf("lA:%d", a.h))
							a.attached = true
							w.any = append(w.any, &c03WK{a.h, a.st, fmt.Sprintf("lD:%d", a.h)})
						} else {
							w.add(fmt.Sprintf("lM:%d", a.h))
						}
					case 2:
						if a.attached {
							w.add(fmt.Sprintf("lM:%d", a.h))
						}
					default:
						w.add(fmt.Sprintf("lD:%d", a.h))
						a.done = true
					}
				}
			}
		case x < 58: // kick (right or wrong stream), followed by the end of the kicked session's connection
			if len(w.any) > 0 {
				k := w.any[r.Intn(len(w.any))]
				st := k.st
				if r.Intn(4) == 0 {
					st = 11 - st
				}
				w.add(fmt.Sprintf("K:%d:%d", st, k.h))
				if st == k.st {
					w.add(k.close)
					for _, c := range w.rtmp {
						if fmt.Sprintf("rC:%d", c.h) == k.close {
							c.dead = true
						}
					}
					for _, c := range w.rtsp {
						if fmt.Sprintf("sC:%d", c.h) == k.close {
							c.dead = true
						}
					}
					for _, a := range w.pulls {
						if fmt.Sprintf("lD:%d", a.h) == k.close {
							a.done = true
						}
					}
				}
				w.lab["kick"] = true
			}
		default:
		}
		if r.Intn(3) == 0 {
			w.add(fmt.Sprintf("S:%d", w.stream()))
		}
	}
	w.add("S:5")
	w.add("S:6")
	var ls []string
	for _, k := range []string{"second-cmd", "rtsp", "customize", "rtp-pub", "relay-pull", "stop-connecting", "kick"} {
		if w.lab[k] {
			ls = append(ls, k)
		}
	}
	label := "walk"
	if len(ls) > 0 {
		label = "walk+" + ls[r.Intn(len(ls))]
	}
	return label, strings.Join(w.evs, ";")
}

func c03GenSrv(g *G) {
	for _, c := range c03SrvCorpus() {
		g.L(c.label).run("adm.srv " + c.evs)
	}
	n := g.scale(60, 2500)
	for i := 0; i < n; i++ {
		label, evs := c03SrvScenario(g.rng)
		g.L(label).run("adm.srv " + evs)
	}
}
