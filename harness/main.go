// Command harness is the implementation side of the correspondence check
// (DESIGN.md §4). It calls the real lal code (built from /repo's working tree,
// -tags verif) and writes one line per operation:
//
//	<component> <args...> => <implementation output>
//
// The Lean driver (lean/Driver/Main.lean) reads the same lines, prints the
// model's output and the property oracle's verdict on the implementation's
// output; ./check diffs them.
package main

import (
	"bufio"
	"encoding/hex"
	"flag"
	"fmt"
	"io"
	"os"
	"runtime/debug"
	"sort"
	"strings"

	"github.com/q191201771/naza/pkg/nazalog"
)

type genFn func(g *G)

var gens = map[string]genFn{}

// G carries the per-run generator state: one PRNG, the output, the histogram.
type G struct {
	rng   *Rng
	w     *bufio.Writer
	tier  string
	n     int
	hist  map[string]int
	label string
}

func (g *G) thorough() bool { return g.tier == "thorough" }

// scale picks a case count by tier.
func (g *G) scale(quick, thorough int) int {
	if g.thorough() {
		return thorough
	}
	return quick
}

// L sets the generator-side label counted for the next emitted op.
func (g *G) L(label string) *G { g.label = label; return g }

func (g *G) emit(op string, out string) {
	if strings.ContainsAny(op, "\n") || strings.ContainsAny(out, "\n") {
		panic("newline in op")
	}
	fmt.Fprintf(g.w, "%s => %s\n", op, out)
	g.n++
	comp := op
	if i := strings.IndexByte(op, ' '); i >= 0 {
		comp = op[:i]
	}
	k := comp
	if g.label != "" {
		k = comp + "/" + g.label
	}
	g.hist[k]++
	g.label = ""
}

func hx(b []byte) string {
	if len(b) == 0 {
		return "-"
	}
	return hex.EncodeToString(b)
}

func unhx(s string) []byte {
	if s == "-" {
		return nil
	}
	b, err := hex.DecodeString(s)
	if err != nil {
		panic(err)
	}
	return b
}

// protect runs f and maps a Go panic to the canonical outcome "panic".
func protect(f func() string) (out string) {
	defer func() {
		if r := recover(); r != nil {
			if os.Getenv("VERIF_DEBUG_PANIC") != "" {
				fmt.Fprintf(os.Stderr, "panic: %v\n%s\n", r, debug.Stack())
			}
			out = "panic"
		}
	}()
	return f()
}

func main() {
	prop := flag.String("prop", "", "property id (C01..C20) or 'extract'")
	tier := flag.String("tier", "quick", "quick|thorough")
	seed := flag.Uint64("seed", 1, "PRNG seed")
	out := flag.String("out", "", "ops file to write")
	replay := flag.String("replay", "", "ops file whose operations are re-run against the implementation")
	gendir := flag.String("gendir", "", "extract: directory for Generated/*.lean")
	repo := flag.String("repo", "/repo", "extract: lal source tree (for facts read from the AST)")
	flag.Parse()
	_ = nazalog.Init(func(option *nazalog.Option) {
		option.Level = nazalog.LevelPanic
		option.IsToStdout = false
	})

	if *prop == "extract" {
		if err := extract(*gendir, *repo); err != nil {
			fmt.Fprintln(os.Stderr, "extract:", err)
			os.Exit(2)
		}
		return
	}

	var w io.Writer = os.Stdout
	if *out != "" {
		f, err := os.Create(*out)
		if err != nil {
			panic(err)
		}
		defer f.Close()
		w = f
	}
	if *out != "" {
		curOpFile = *out + ".cur"
	}
	bw := bufio.NewWriterSize(w, 1<<20)
	defer bw.Flush()
	g := &G{rng: NewRng(*seed), w: bw, tier: *tier, hist: map[string]int{}}

	if *replay != "" {
		if err := runReplay(g, *replay); err != nil {
			fmt.Fprintln(os.Stderr, "replay:", err)
			os.Exit(2)
		}
		return
	}

	fn, ok := gens[*prop]
	if !ok {
		fmt.Fprintln(os.Stderr, "no generator for", *prop)
		os.Exit(2)
	}
	fn(g)
	bw.Flush()
	// histogram on stderr as "HIST key n"
	keys := make([]string, 0, len(g.hist))
	for k := range g.hist {
		keys = append(keys, k)
	}
	sort.Strings(keys)
	for _, k := range keys {
		fmt.Fprintf(os.Stderr, "HIST %s %d\n", k, g.hist[k])
	}
}

// ops maps a component name to the function that runs the implementation on
// the op's arguments and returns the canonical output. Generators and replay
// both go through it, so a replay file is just a list of op lines.
var ops = map[string]func(args []string) string{}

func (g *G) run(op string) {
	f := strings.Fields(op)
	fn, ok := ops[f[0]]
	if !ok {
		panic("unknown op " + f[0])
	}
	// the op in flight is left on disk: when the implementation takes the whole process down (fatal error, a panic in a
	// goroutine of its own) the check reads it back and re-runs it alone
	if curOpFile != "" {
		_ = os.WriteFile(curOpFile, []byte(op+"\n"), 0o644)
	}
	g.emit(op, protect(func() string { return fn(f[1:]) }))
}

var curOpFile string

func runReplay(g *G, path string) error {
	f, err := os.Open(path)
	if err != nil {
		return err
	}
	defer f.Close()
	sc := bufio.NewScanner(f)
	sc.Buffer(make([]byte, 1<<20), 1<<28)
	for sc.Scan() {
		line := sc.Text()
		if i := strings.Index(line, " => "); i >= 0 {
			line = line[:i]
		}
		line = strings.TrimSpace(line)
		if line == "" || strings.HasPrefix(line, "#") {
			continue
		}
		g.run(line)
	}
	return sc.Err()
}
