package main

import (
	"fmt"
	"go/ast"
	"go/parser"
	"go/token"
	"path/filepath"
	"strconv"
	"strings"

	"github.com/q191201771/lal/pkg/avc"
	"github.com/q191201771/lal/pkg/base"
	"github.com/q191201771/lal/pkg/hevc"
	"github.com/q191201771/lal/pkg/mpegts"
	"github.com/q191201771/lal/pkg/remux"
	"github.com/q191201771/lal/pkg/rtprtcp"
	"github.com/q191201771/lal/pkg/sdp"
)

// C06 — RTMP ingest reaches TS, HLS and RTSP consumers with the same frames.
//
// A scenario is a `;`-separated list of events fed to ONE fresh remuxer:
//
//	a:<ts>:<payload>   RTMP audio message (type 8), Header.TimestampAbs = ts, Header.MsgLen = len(payload)
//	v:<ts>:<payload>   RTMP video message (type 9)
//	f                  an explicit FlushAudio() (c06.ts / c06.hls only)
//
//	The first argument of every op is the scenario class the generator claims: wf (each track's configuration precedes
//	its frames, both tracks start within the first 16 messages), s22 / s22x (wf, and some timestamp lies below the first
//	one of its track; s22x: the oracle leaves the time relations out), late (anything else), x (no claim: correspondence only).
//
//	c06.ts <class> <hook> <events>   => observer calls of a real remux.Rtmp2MpegtsRemuxer, `;`-separated:
//	      P:<188+188 bytes>                                    OnPatPmt
//	      T:<sid>:<key>:<dts>:<pts>:<cc>:<boundary>:<packets>  OnTsPackets (frame fields as the observer sees them)
//	   hook = 1: the observer calls FlushAudio() on entry of every OnTsPackets with boundary = true
//	   (what lal's HLS muxer does through Group.OnFragmentOpen when it opens a segment).
//	c06.rtsp <class> <events>        => callbacks of a real remux.Rtmp2RtspRemuxer, `;`-separated:
//	      S:<raw sdp | ->      onSdp
//	      R:<rtp packet>       onRtpPacket; the random SSRC is written as 0 and the sequence number relative to the
//	                           first one of the same SSRC (both are `rand` in lal)

type c06Ev struct {
	kind    byte // 'a', 'v', 'f'
	ts      uint32
	payload []byte
}

func c06ParseEvents(s string) []c06Ev {
	if s == "-" || s == "" {
		return nil
	}
	var out []c06Ev
	for _, it := range strings.Split(s, ";") {
		if it == "f" {
			out = append(out, c06Ev{kind: 'f'})
			continue
		}
		p := strings.SplitN(it, ":", 3)
		if len(p) != 3 || (p[0] != "a" && p[0] != "v") {
			panic("bad event " + it)
		}
		ts, err := strconv.ParseUint(p[1], 10, 32)
		if err != nil {
			panic(err)
		}
		out = append(out, c06Ev{kind: p[0][0], ts: uint32(ts), payload: unhx(p[2])})
	}
	return out
}

func c06EventsStr(evs []c06Ev) string {
	if len(evs) == 0 {
		return "-"
	}
	p := make([]string, len(evs))
	for i, e := range evs {
		if e.kind == 'f' {
			p[i] = "f"
		} else {
			p[i] = fmt.Sprintf("%c:%d:%s", e.kind, e.ts, hx(e.payload))
		}
	}
	return strings.Join(p, ";")
}

func c06Msg(e c06Ev) base.RtmpMsg {
	typ := uint8(base.RtmpTypeIdAudio)
	if e.kind == 'v' {
		typ = base.RtmpTypeIdVideo
	}
	// the remuxers may keep the payload: hand out a private copy
	p := append([]byte(nil), e.payload...)
	if p == nil {
		p = []byte{}
	}
	return base.RtmpMsg{Header: base.RtmpHeader{MsgLen: uint32(len(p)), MsgTypeId: typ, TimestampAbs: e.ts, MsgStreamId: 1}, Payload: p}
}

func c06B(b bool) string {
	if b {
		return "1"
	}
	return "0"
}

type c06TsObserver struct {
	r    *remux.Rtmp2MpegtsRemuxer
	hook bool
	out  []string
}

func (o *c06TsObserver) OnPatPmt(b []byte) { o.out = append(o.out, "P:"+hx(b)) }
func (o *c06TsObserver) OnTsPackets(tsPackets []byte, frame *mpegts.Frame, boundary bool) {
	if o.hook && boundary {
		o.r.FlushAudio()
	}
	o.out = append(o.out, fmt.Sprintf("T:%d:%s:%d:%d:%d:%s:%s", frame.Sid, c06B(frame.Key), frame.Dts, frame.Pts, frame.Cc,
		c06B(boundary), hx(tsPackets)))
}

func c06RunTs(hook bool, evs []c06Ev) string {
	o := &c06TsObserver{hook: hook}
	o.r = remux.NewRtmp2MpegtsRemuxer(o)
	for _, e := range evs {
		if e.kind == 'f' {
			o.r.FlushAudio()
		} else {
			o.r.FeedRtmpMessage(c06Msg(e))
		}
	}
	if len(o.out) == 0 {
		return "none"
	}
	return strings.Join(o.out, ";")
}

func c06RunRtsp(evs []c06Ev) string {
	var out []string
	first := map[uint32]uint16{}
	r := remux.NewRtmp2RtspRemuxer(func(ctx sdp.LogicContext) {
		out = append(out, "S:"+hx(ctx.RawSdp))
	}, func(pkt rtprtcp.RtpPacket) {
		raw := append([]byte(nil), pkt.Raw...)
		if len(raw) >= 12 {
			ssrc := uint32(raw[8])<<24 | uint32(raw[9])<<16 | uint32(raw[10])<<8 | uint32(raw[11])
			seq := uint16(raw[2])<<8 | uint16(raw[3])
			f, ok := first[ssrc]
			if !ok {
				f = seq
				first[ssrc] = seq
			}
			rel := seq - f
			raw[2], raw[3] = byte(rel>>8), byte(rel)
			raw[8], raw[9], raw[10], raw[11] = 0, 0, 0, 0
		}
		out = append(out, "R:"+hx(raw))
	})
	for _, e := range evs {
		if e.kind == 'f' {
			continue
		}
		r.FeedRtmpMsg(c06Msg(e))
	}
	if len(out) == 0 {
		return "none"
	}
	return strings.Join(out, ";")
}

func init() {
	// the first argument is the scenario class the generator claims (checked by the driver's oracle, unused here)
	ops["c06.ts"] = func(a []string) string { return c06RunTs(a[1] == "1", c06ParseEvents(a[2])) }
	ops["c06.rtsp"] = func(a []string) string { return c06RunRtsp(c06ParseEvents(a[1])) }
	// c06.tsopus <events> => as c06.ts with hook 0; the oracle looks for the opus_control_header of "Opus in MPEG-2 TS"
	ops["c06.tsopus"] = func(a []string) string { return c06RunTs(false, c06ParseEvents(a[0])) }
	gens["C06"] = genC06
	extractors["C06Consts"] = extractC06
}

// ---- regenerated facts ---------------------------------------------------------------------------------------------

// value of a constant expression made of integer literals, `*`, `+`, `-`, parentheses and conversions
func c06ConstExpr(e ast.Expr) (int64, bool) {
	switch x := e.(type) {
	case *ast.BasicLit:
		if x.Kind != token.INT {
			return 0, false
		}
		v, err := strconv.ParseInt(x.Value, 0, 64)
		return v, err == nil
	case *ast.ParenExpr:
		return c06ConstExpr(x.X)
	case *ast.CallExpr:
		if len(x.Args) == 1 {
			return c06ConstExpr(x.Args[0])
		}
	case *ast.BinaryExpr:
		l, ok1 := c06ConstExpr(x.X)
		r, ok2 := c06ConstExpr(x.Y)
		if !ok1 || !ok2 {
			return 0, false
		}
		switch x.Op {
		case token.MUL:
			return l * r, true
		case token.ADD:
			return l + r, true
		case token.SUB:
			return l - r, true
		}
	}
	return 0, false
}

func c06AstConsts(path string) (map[string]int64, error) {
	fset := token.NewFileSet()
	f, err := parser.ParseFile(fset, path, nil, 0)
	if err != nil {
		return nil, err
	}
	m := map[string]int64{}
	for _, d := range f.Decls {
		gd, ok := d.(*ast.GenDecl)
		if !ok {
			continue
		}
		for _, s := range gd.Specs {
			vs, ok := s.(*ast.ValueSpec)
			if !ok {
				continue
			}
			for i, n := range vs.Names {
				if i < len(vs.Values) {
					if v, ok := c06ConstExpr(vs.Values[i]); ok {
						m[n.Name] = v
					}
				}
			}
		}
	}
	return m, nil
}

func extractC06(repo string) (string, error) {
	var sb strings.Builder
	dir := filepath.Join(repo, "pkg", "remux")
	need := func(file string, names ...string) error {
		m, err := c06AstConsts(filepath.Join(dir, file))
		if err != nil {
			return err
		}
		for _, n := range names {
			v, ok := m[n]
			if !ok {
				return fmt.Errorf("%s: constant %s not found", file, n)
			}
			leanNat(&sb, n, "remux."+n+" (unexported; pkg/remux/"+file+")", v)
		}
		return nil
	}
	// calcFragmentHeaderQueueSize, maxAudioCacheDelayByAudio/ByVideo, maxAnalyzeAvMsgSize, pcm/opusDefaultSampleRate are
	// regenerated from the same source files into Generated/C05Consts.lean; shared, not repeated
	sb.WriteString("IMPORT LalModel.Generated.C05Consts\n")
	if err := need("rtmp2mpegts.go", "maxAudioCacheSize"); err != nil {
		return "", err
	}
	{
		m, err := c06AstConsts(filepath.Join(repo, "pkg", "hls", "hls.go"))
		if err != nil {
			return "", err
		}
		v, ok := m["negMaxfraglen"]
		if !ok {
			return "", fmt.Errorf("hls.negMaxfraglen not found")
		}
		leanNat(&sb, "negMaxfraglen", "hls.negMaxfraglen (unexported; pkg/hls/hls.go)", v)
	}
	if remux.RtspRemuxerAddSpsPps2KeyFrameFlag {
		return "", fmt.Errorf("remux.RtspRemuxerAddSpsPps2KeyFrameFlag is true: the model follows the default (false)")
	}
	leanBytes(&sb, "avcAudNalu", "avc.AudNalu", avc.AudNalu)
	leanBytes(&sb, "hevcAudNalu", "hevc.AudNalu", hevc.AudNalu)
	leanNat(&sb, "avcNaluTypeSlice", "avc.NaluTypeSlice", int64(avc.NaluTypeSlice))
	leanNat(&sb, "avcNaluTypeIdrSlice", "avc.NaluTypeIdrSlice", int64(avc.NaluTypeIdrSlice))
	leanNat(&sb, "avcNaluTypeSei", "avc.NaluTypeSei", int64(avc.NaluTypeSei))
	leanNat(&sb, "avcNaluTypeSps", "avc.NaluTypeSps", int64(avc.NaluTypeSps))
	leanNat(&sb, "avcNaluTypePps", "avc.NaluTypePps", int64(avc.NaluTypePps))
	leanNat(&sb, "avcNaluTypeAud", "avc.NaluTypeAud", int64(avc.NaluTypeAud))
	leanNat(&sb, "hevcNaluTypeAud", "hevc.NaluTypeAud", int64(hevc.NaluTypeAud))
	leanNat(&sb, "hevcNaluTypeSei", "hevc.NaluTypeSei", int64(hevc.NaluTypeSei))
	leanNat(&sb, "hevcNaluTypeSeiSuffix", "hevc.NaluTypeSeiSuffix", int64(hevc.NaluTypeSeiSuffix))
	leanNat(&sb, "hevcNaluTypeSliceBlaWlp", "hevc.NaluTypeSliceBlaWlp", int64(hevc.NaluTypeSliceBlaWlp))
	leanNat(&sb, "hevcNaluTypeSliceRsvIrapVcl23", "hevc.NaluTypeSliceRsvIrapVcl23", int64(hevc.NaluTypeSliceRsvIrapVcl23))
	// hevc.IsIrapNalu must be the closed range the model uses
	for t := 0; t < 64; t++ {
		want := uint8(t) >= hevc.NaluTypeSliceBlaWlp && uint8(t) <= hevc.NaluTypeSliceRsvIrapVcl23
		if hevc.IsIrapNalu(uint8(t)) != want {
			return "", fmt.Errorf("hevc.IsIrapNalu(%d) is not [BlaWlp, RsvIrapVcl23]", t)
		}
	}
	leanNat(&sb, "rtmpSoundFormatG711A", "base.RtmpSoundFormatG711A", int64(base.RtmpSoundFormatG711A))
	leanNat(&sb, "rtmpSoundFormatG711U", "base.RtmpSoundFormatG711U", int64(base.RtmpSoundFormatG711U))
	// the default RtpPackerOption.MaxPayloadSize is unexported: measured on a long NAL unit
	{
		pk := rtprtcp.NewRtpPacker(rtprtcp.NewRtpPackerPayloadAvc(), 90000, 0)
		nal := make([]byte, 100000)
		nal[0] = 0x65
		m := 0
		for _, p := range pk.Pack(base.AvPacket{Timestamp: 0, PayloadType: base.AvPacketPtAvc, Payload: nal}) {
			if n := len(p.Raw) - 12; n > m {
				m = n
			}
		}
		leanNat(&sb, "rtpMaxPayloadSize", "rtprtcp.defaultRtpPackerOption.MaxPayloadSize (measured: largest payload of a fragmented 100000-byte NAL unit)", int64(m))
	}
	return sb.String(), nil
}
