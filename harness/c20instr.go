package main

// C20 — run-time lock-order observation. The lal sources are not changed: `go build -overlay` replaces, for ONE
// extra binary (bin/c20order), every `X.Lock()/Unlock()/RLock()/RUnlock()` on a sync.Mutex / sync.RWMutex and every
// `X.Do(f)` on a sync.Once of lal/pkg by a call into an added package lal/pkg/c20vsync that records, per goroutine,
// which lock classes are held when another one is requested. The classes are named exactly as in the extractor
// ("logic.Group.mutex"), so an observed pair that the static table lacks is a broken correspondence.
// Edits are made on the same source line, so positions in the instrumented build match the real files.

import (
	"encoding/json"
	"fmt"
	"go/ast"
	"go/types"
	"io/ioutil"
	"os"
	"path/filepath"
	"sort"
	"strings"
)

const c20VsyncSrc = `// Code generated for the C20 lock-order run; not part of lal.
package c20vsync

import (
	"runtime"
	"sort"
	"strconv"
	"sync"
)

var (
	mu    sync.Mutex
	held  = map[int64][]string{}
	pairs = map[string]bool{}
)

func goid() int64 {
	var b [64]byte
	n := runtime.Stack(b[:], false)
	s := string(b[:n]) // "goroutine 123 [running]:"
	s = s[len("goroutine "):]
	i := 0
	for i < len(s) && s[i] >= '0' && s[i] <= '9' {
		i++
	}
	v, _ := strconv.ParseInt(s[:i], 10, 64)
	return v
}

func before(cls string) int64 {
	g := goid()
	mu.Lock()
	for _, h := range held[g] {
		pairs[h+" "+cls] = true
	}
	mu.Unlock()
	return g
}

func push(g int64, cls string) {
	mu.Lock()
	held[g] = append(held[g], cls)
	mu.Unlock()
}

func pop(cls string) {
	g := goid()
	mu.Lock()
	hs := held[g]
	for i := len(hs) - 1; i >= 0; i-- {
		if hs[i] == cls {
			hs = append(hs[:i], hs[i+1:]...)
			break
		}
	}
	if len(hs) == 0 {
		delete(held, g)
	} else {
		held[g] = hs
	}
	mu.Unlock()
}

type locker interface {
	Lock()
	Unlock()
}

type rlocker interface {
	RLock()
	RUnlock()
}

func Lock(m locker, cls string)     { g := before(cls); m.Lock(); push(g, cls) }
func Unlock(m locker, cls string)   { pop(cls); m.Unlock() }
func RLock(m rlocker, cls string)   { g := before(cls); m.RLock(); push(g, cls) }
func RUnlock(m rlocker, cls string) { pop(cls); m.RUnlock() }

// OnceDo: sync.Once.Do blocks concurrent callers until f returns, so it is an acquisition for the lock order.
func OnceDo(o *sync.Once, cls string, f func()) {
	g := before(cls)
	o.Do(func() {
		push(g, cls)
		defer pop(cls)
		f()
	})
}

// Pairs returns the observed "held acquired" pairs, sorted.
func Pairs() []string {
	mu.Lock()
	defer mu.Unlock()
	out := make([]string, 0, len(pairs))
	for p := range pairs {
		out = append(out, p)
	}
	sort.Strings(out)
	return out
}
`

type c20Edit struct {
	from, to int
	text     string
}

// c20Instrument writes the overlay (rewritten files + the c20vsync package) under dir and returns the path of overlay.json.
func c20Instrument(repo, dir string) (string, int, error) {
	p, err := c20NewProg(repo)
	if err != nil {
		return "", 0, err
	}
	if err := p.loadAllLal(); err != nil {
		return "", 0, err
	}
	a := &c20Analysis{p: p, classOf: map[types.Object]int{}, owner: map[*types.Var]*types.Named{}, tracked: map[*types.Named]bool{}, ctxType: map[*types.Named]bool{}}
	a.collectTypes()
	replace := map[string]string{}
	nEdits := 0
	if err := os.MkdirAll(dir, 0o755); err != nil {
		return "", 0, err
	}
	for _, pk := range p.lalPkgs() {
		for fi, file := range pk.files {
			fn := filepath.Join(pk.dir, pk.names[fi])
			tf := p.fset.File(file.Pos())
			var edits []c20Edit
			w := &c20Walker{a: a, f: &c20Func{c20Fn: &c20Fn{pk: pk, name: "instr"}}, info: pk.info}
			ast.Inspect(file, func(n ast.Node) bool {
				c, ok := n.(*ast.CallExpr)
				if !ok {
					return true
				}
				sel, ok := c.Fun.(*ast.SelectorExpr)
				if !ok {
					return true
				}
				if cls, op := w.lockOp(c); cls >= 0 && len(c.Args) == 0 && (op == "Lock" || op == "Unlock" || op == "RLock" || op == "RUnlock") {
					if s := pk.info.Selections[sel]; s != nil && len(s.Index()) == 1 && !strings.HasPrefix(a.classes[cls].name, "local:") {
						// replace `X.Lock(` by `c20vsync.Lock(&X, "cls"`
						edits = append(edits, c20Edit{tf.Offset(c.Pos()), tf.Offset(c.Lparen) + 1, ""})
						edits[len(edits)-1].text = "\x00" + op + "\x00" + a.classes[cls].name
					}
					return true
				}
				// sync.Once.Do
				if s := pk.info.Selections[sel]; s != nil && s.Kind() == types.MethodVal && len(c.Args) == 1 && len(s.Index()) == 1 {
					if m, ok := s.Obj().(*types.Func); ok && m.FullName() == "(*sync.Once).Do" {
						if obj := w.chanObj(sel.X); obj != nil {
							if cls, ok := a.classOf[obj]; ok {
								edits = append(edits, c20Edit{tf.Offset(c.Pos()), tf.Offset(c.Lparen) + 1, "\x00OnceDo\x00" + a.classes[cls].name})
							}
						}
					}
				}
				return true
			})
			if len(edits) == 0 {
				continue
			}
			src, err := ioutil.ReadFile(fn)
			if err != nil {
				return "", 0, err
			}
			sort.Slice(edits, func(i, j int) bool { return edits[i].from > edits[j].from })
			out := string(src)
			for _, e := range edits {
				parts := strings.Split(e.text, "\x00")
				op, cls := parts[1], parts[2]
				old := out[e.from:e.to] // "X.Lock("
				// the receiver text is everything before the final ".<Method>("
				meth := op
				if op == "OnceDo" {
					meth = "Do"
				}
				k := strings.LastIndex(old, "."+meth)
				if k < 0 {
					return "", 0, fmt.Errorf("instrument: cannot split %q", old)
				}
				x := strings.TrimSpace(old[:k])
				neu := fmt.Sprintf("c20vsync.%s(&%s, %q", op, x, cls)
				if op == "OnceDo" {
					neu += ", "
				}
				out = out[:e.from] + neu + out[e.to:]
				nEdits++
			}
			// import on the package clause line (keeps every line number)
			pkgEnd := tf.Offset(file.Name.End())
			out = out[:pkgEnd] + "; import c20vsync \"" + c20LalPath + "/pkg/c20vsync\"" + out[pkgEnd:]
			dst := filepath.Join(dir, c20ShortPkg(pk.path)+"__"+pk.names[fi])
			if err := ioutil.WriteFile(dst, []byte(out), 0o644); err != nil {
				return "", 0, err
			}
			replace[fn] = dst
		}
	}
	vs := filepath.Join(dir, "c20vsync.go")
	if err := ioutil.WriteFile(vs, []byte(c20VsyncSrc), 0o644); err != nil {
		return "", 0, err
	}
	replace[filepath.Join(repo, "pkg", "c20vsync", "vsync.go")] = vs
	ov, _ := json.MarshalIndent(map[string]interface{}{"Replace": replace}, "", " ")
	ovp := filepath.Join(dir, "overlay.json")
	if err := ioutil.WriteFile(ovp, ov, 0o644); err != nil {
		return "", 0, err
	}
	return ovp, nEdits, nil
}
