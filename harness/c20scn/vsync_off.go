//go:build !c20vsync

package main

func observedPairs() []string { return nil }
