// Command c20scn is the C20 churn scenario: a real logic.ServerManager on ephemeral ports with every protocol
// enabled, driven concurrently by publishers and subscribers of several protocols, HTTP-API calls (stat, kick,
// start/stop relay pull, start RTP pub, ip blacklist), the ILalServer API, customize-pub sessions, the 1 s tick and,
// at the end, shutdown while sessions are still alive — all under a deadlock watchdog.
//
// It is built twice by the C20 harness: with -race (bin/c20race; data races and Go fatal errors are read from the
// race log / stderr by the parent) and with the lock-order overlay (bin/c20order, tag c20vsync; prints the observed
// "held acquired" lock pairs). It is supporting evidence for C20, never the proof.
package main

import (
	"bytes"
	"encoding/json"
	"flag"
	"fmt"
	"io"
	"io/ioutil"
	"net"
	"net/http"
	"os"
	"path/filepath"
	"runtime"
	"sort"
	"strings"
	"sync"
	"sync/atomic"
	"time"

	"github.com/q191201771/lal/pkg/base"
	"github.com/q191201771/lal/pkg/httpflv"
	"github.com/q191201771/lal/pkg/logic"
	"github.com/q191201771/lal/pkg/remux"
	"github.com/q191201771/lal/pkg/rtmp"
	"github.com/q191201771/lal/pkg/rtprtcp"
	"github.com/q191201771/lal/pkg/rtsp"
	"github.com/q191201771/lal/pkg/sdp"
	"github.com/q191201771/naza/pkg/nazalog"
)

// ---- deterministic per-actor PRNG (xorshift64*), same as the harness ----
type rng struct{ s uint64 }

func newRng(seed uint64) *rng {
	r := &rng{s: seed*0x9E3779B97F4A7C15 + 0x1234567}
	if r.s == 0 {
		r.s = 1
	}
	for i := 0; i < 4; i++ {
		r.u64()
	}
	return r
}
func (r *rng) u64() uint64 {
	r.s ^= r.s >> 12
	r.s ^= r.s << 25
	r.s ^= r.s >> 27
	return r.s * 0x2545F4914F6CDD1D
}
func (r *rng) intn(n int) int { return int(r.u64() % uint64(n)) }

// ---- counters ----
var (
	statMu sync.Mutex
	stats  = map[string]int{}
)

func count(k string) {
	statMu.Lock()
	stats[k]++
	statMu.Unlock()
}

var stuck atomic.Value // first watchdog finding

func reportStuck(what string) {
	if stuck.Load() == nil {
		stuck.Store(what)
	}
}

// guard runs f and reports a deadlock when it does not return. `d` is the expected bound: exceeding it is only
// counted as slow (a loaded machine, the race detector); not returning within hardLimit is the deadlock.
const hardLimit = 40 * time.Second

func guard(what string, d time.Duration, f func()) bool {
	done := make(chan struct{})
	go func() { f(); close(done) }()
	select {
	case <-done:
		return true
	case <-time.After(d):
		count("slow." + strings.TrimPrefix(what, "deadlock:"))
	}
	select {
	case <-done:
		return true
	case <-time.After(hardLimit - d):
		reportStuck(what)
		return false
	}
}

// ---- synthetic media ----
var seqHeader = []byte{0x17, 0x00, 0x00, 0x00, 0x00, 0x01, 0x64, 0x00, 0x20, 0xFF, 0xE1, 0x00, 0x19,
	0x67, 0x64, 0x00, 0x20, 0xAC, 0xD9, 0x40, 0xC0, 0x29, 0xB0, 0x11, 0x00, 0x00, 0x03, 0x00, 0x01, 0x00, 0x00, 0x03, 0x00, 0x32, 0x0F, 0x18, 0x31, 0x96,
	0x01, 0x00, 0x05, 0x68, 0xEB, 0xEC, 0xB2, 0x2C}
var aacSeqHeader = []byte{0xaf, 0x00, 0x12, 0x10}

func videoMsg(ts uint32, key bool, n int) base.RtmpMsg {
	p := make([]byte, 9+n)
	p[0], p[1] = 0x27, 0x01
	nal := byte(0x41)
	if key {
		p[0] = 0x17
		nal = 0x65
	}
	p[5], p[6], p[7], p[8] = byte((n)>>24), byte((n)>>16), byte((n)>>8), byte(n)
	if n > 0 {
		p[9] = nal
	}
	for i := 10; i < len(p); i++ {
		p[i] = byte(i * 7)
	}
	return mkMsg(base.RtmpTypeIdVideo, ts, p)
}

func audioMsg(ts uint32) base.RtmpMsg {
	p := make([]byte, 2+32)
	p[0], p[1] = 0xaf, 0x01
	for i := 2; i < len(p); i++ {
		p[i] = byte(i)
	}
	return mkMsg(base.RtmpTypeIdAudio, ts, p)
}

func mkMsg(typ uint8, ts uint32, payload []byte) base.RtmpMsg {
	csid := rtmp.CsidVideo
	if typ == base.RtmpTypeIdAudio {
		csid = rtmp.CsidAudio
	}
	return base.RtmpMsg{Header: base.RtmpHeader{Csid: csid, MsgLen: uint32(len(payload)), MsgTypeId: typ, MsgStreamId: rtmp.Msid1, TimestampAbs: ts}, Payload: payload}
}

// stream: seq headers then GOPs of 1 key + 4 inter frames with audio in between.
func mediaMsgs(frames int) []base.RtmpMsg {
	out := []base.RtmpMsg{mkMsg(base.RtmpTypeIdVideo, 0, seqHeader), mkMsg(base.RtmpTypeIdAudio, 0, aacSeqHeader)}
	for i := 0; i < frames; i++ {
		ts := uint32(i * 40)
		out = append(out, videoMsg(ts, i%5 == 0, 64+i%200))
		out = append(out, audioMsg(ts), audioMsg(ts+20))
	}
	return out
}

// ---- scenario ----
type scn struct {
	sm       logic.ILalServer
	rtmpAddr string
	httpAddr string
	rtspAddr string
	apiAddr  string
	streams  []string
	deadline time.Time
	client   *http.Client
	sdpCtx   sdp.LogicContext
	rtpPkts  []rtprtcp.RtpPacket
	tmp      string
	wg       sync.WaitGroup
}

func freePort() int {
	l, err := net.Listen("tcp", "127.0.0.1:0")
	if err != nil {
		panic(err)
	}
	defer l.Close()
	return l.Addr().(*net.TCPAddr).Port
}

func (s *scn) alive() bool { return time.Now().Before(s.deadline) }

func (s *scn) actor(name string, seed uint64, f func(r *rng)) {
	s.wg.Add(1)
	go func() {
		defer s.wg.Done()
		r := newRng(seed)
		for s.alive() {
			f(r)
		}
	}()
}

func (s *scn) stream(r *rng) string { return s.streams[r.intn(len(s.streams))] }

func sleepMs(n int) { time.Sleep(time.Duration(n) * time.Millisecond) }

func (s *scn) rtmpPublisher(r *rng) {
	name := s.stream(r)
	ps := rtmp.NewPushSession(func(o *rtmp.PushSessionOption) { o.PushTimeoutMs = 3000; o.WriteAvTimeoutMs = 3000 })
	if err := ps.Start(fmt.Sprintf("rtmp://%s/live/%s?k=v", s.rtmpAddr, name)); err != nil {
		count("rtmp.pub.refused")
		sleepMs(20 + r.intn(50))
		return
	}
	count("rtmp.pub")
	msgs := mediaMsgs(10 + r.intn(40))
	for _, m := range msgs {
		if !s.alive() || ps.WriteMsg(m) != nil {
			break
		}
		if r.intn(3) == 0 {
			_ = ps.Flush()
			sleepMs(1 + r.intn(6))
		}
	}
	_ = ps.Flush()
	sleepMs(r.intn(30))
	_ = ps.Dispose()
	<-ps.WaitChan()
}

func (s *scn) rtmpSubscriber(r *rng) {
	name := s.stream(r)
	var n int32
	pl := rtmp.NewPullSession(func(o *rtmp.PullSessionOption) { o.PullTimeoutMs = 3000; o.ReadAvTimeoutMs = 3000 }).
		WithOnReadRtmpAvMsg(func(msg base.RtmpMsg) { atomic.AddInt32(&n, 1) })
	if err := pl.Start(fmt.Sprintf("rtmp://%s/live/%s", s.rtmpAddr, name)); err != nil {
		count("rtmp.sub.refused")
		sleepMs(10 + r.intn(30))
		return
	}
	count("rtmp.sub")
	select {
	case <-pl.WaitChan():
	case <-time.After(time.Duration(50+r.intn(400)) * time.Millisecond):
	}
	_ = pl.Dispose()
	if atomic.LoadInt32(&n) > 0 {
		count("rtmp.sub.gotmedia")
	}
}

func (s *scn) flvSubscriber(r *rng) {
	name := s.stream(r)
	var n int32
	pl := httpflv.NewPullSession(func(o *httpflv.PullSessionOption) { o.PullTimeoutMs = 3000; o.ReadTimeoutMs = 3000 }).
		WithOnReadFlvTag(func(tag httpflv.Tag) { atomic.AddInt32(&n, 1) })
	if err := pl.Start(fmt.Sprintf("http://%s/live/%s.flv", s.httpAddr, name)); err != nil {
		count("flv.sub.refused")
		sleepMs(10 + r.intn(30))
		return
	}
	count("flv.sub")
	select {
	case <-pl.WaitChan():
	case <-time.After(time.Duration(50+r.intn(400)) * time.Millisecond):
	}
	_ = pl.Dispose()
	if atomic.LoadInt32(&n) > 0 {
		count("flv.sub.gotmedia")
	}
}

// plain HTTP readers: httpts and hls (playlist + first segment)
func (s *scn) httpGetSome(url string, max int, d time.Duration) (int, string) {
	c := &http.Client{Timeout: d}
	resp, err := c.Get(url)
	if err != nil {
		return 0, ""
	}
	defer resp.Body.Close()
	b, _ := ioutil.ReadAll(io.LimitReader(resp.Body, int64(max)))
	return len(b), string(b)
}

func (s *scn) tsSubscriber(r *rng) {
	n, _ := s.httpGetSome(fmt.Sprintf("http://%s/live/%s.ts", s.httpAddr, s.stream(r)), 188*200, time.Duration(100+r.intn(400))*time.Millisecond)
	count("ts.sub")
	if n > 0 {
		count("ts.sub.gotmedia")
	} else {
		sleepMs(10 + r.intn(30))
	}
}

func (s *scn) hlsSubscriber(r *rng) {
	name := s.stream(r)
	n, body := s.httpGetSome(fmt.Sprintf("http://%s/hls/%s.m3u8", s.httpAddr, name), 1<<16, time.Second)
	count("hls.m3u8")
	if n > 0 {
		count("hls.m3u8.got")
		for _, line := range strings.Split(body, "\n") {
			line = strings.TrimSpace(line)
			if strings.HasSuffix(line, ".ts") || strings.Contains(line, ".ts?") || strings.Contains(line, ".m3u8?") {
				s.httpGetSome(fmt.Sprintf("http://%s/hls/%s", s.httpAddr, line), 1<<20, time.Second)
				count("hls.follow")
				break
			}
		}
	}
	sleepMs(20 + r.intn(100))
}

type rtspObs struct{ n *int32 }

func (o rtspObs) OnSdp(sdpCtx sdp.LogicContext)     {}
func (o rtspObs) OnRtpPacket(pkt rtprtcp.RtpPacket) { atomic.AddInt32(o.n, 1) }
func (o rtspObs) OnAvPacket(pkt base.AvPacket)      {}

func (s *scn) rtspSubscriber(r *rng) {
	var n int32
	overTcp := r.intn(2) == 0
	pl := rtsp.NewPullSession(rtspObs{&n}, func(o *rtsp.PullSessionOption) { o.PullTimeoutMs = 2000; o.OverTcp = overTcp })
	err := pl.Start(fmt.Sprintf("rtsp://%s/live/%s", s.rtspAddr, s.stream(r)))
	if err != nil {
		count("rtsp.sub.refused")
		_ = pl.Dispose()
		sleepMs(20)
		return
	}
	if overTcp {
		count("rtsp.sub.tcp")
	} else {
		count("rtsp.sub.udp")
	}
	select {
	case <-pl.WaitChan():
	case <-time.After(time.Duration(50+r.intn(400)) * time.Millisecond):
	}
	_ = pl.Dispose()
	if atomic.LoadInt32(&n) > 0 {
		count("rtsp.sub.gotmedia")
	}
}

func (s *scn) rtspPublisher(r *rng) {
	name := "r" + s.stream(r) // rtsp publishers use their own stream names plus sometimes a contested one
	if r.intn(4) == 0 {
		name = s.stream(r)
	}
	overTcp := r.intn(2) == 0
	ps := rtsp.NewPushSession(func(o *rtsp.PushSessionOption) { o.PushTimeoutMs = 2000; o.OverTcp = overTcp })
	if err := ps.Push(fmt.Sprintf("rtsp://%s/live/%s", s.rtspAddr, name), s.sdpCtx); err != nil {
		count("rtsp.pub.refused")
		_ = ps.Dispose()
		sleepMs(20 + r.intn(50))
		return
	}
	count("rtsp.pub")
	k := 20 + r.intn(len(s.rtpPkts))
	for i := 0; i < k && i < len(s.rtpPkts) && s.alive(); i++ {
		if ps.WriteRtpPacket(s.rtpPkts[i]) != nil {
			break
		}
		if i%8 == 0 {
			sleepMs(1 + r.intn(4))
		}
	}
	_ = ps.Dispose()
}

func (s *scn) api(method, path string, body interface{}) map[string]interface{} {
	var rd io.Reader
	if body != nil {
		b, _ := json.Marshal(body)
		rd = bytes.NewReader(b)
	}
	req, _ := http.NewRequest(method, "http://"+s.apiAddr+path, rd)
	t0 := time.Now()
	resp, err := s.client.Do(req)
	if err != nil {
		if time.Since(t0) > hardLimit-time.Second && s.alive() {
			reportStuck("deadlock:http-api-timeout " + path)
		}
		count("api.err")
		return nil
	}
	defer resp.Body.Close()
	b, _ := ioutil.ReadAll(resp.Body)
	var m map[string]interface{}
	_ = json.Unmarshal(b, &m)
	count("api" + strings.Split(path, "?")[0])
	return m
}

// sessionIds digs the session ids out of a stat/group or stat/all_group answer.
func sessionIds(v interface{}, out *[]([2]string), stream string) {
	switch x := v.(type) {
	case map[string]interface{}:
		if sn, ok := x["stream_name"].(string); ok && sn != "" {
			stream = sn
		}
		if id, ok := x["session_id"].(string); ok && id != "" {
			*out = append(*out, [2]string{stream, id})
		}
		keys := make([]string, 0, len(x))
		for k := range x {
			keys = append(keys, k)
		}
		sort.Strings(keys)
		for _, k := range keys {
			sessionIds(x[k], out, stream)
		}
	case []interface{}:
		for _, e := range x {
			sessionIds(e, out, stream)
		}
	}
}

func (s *scn) apiActor(r *rng) {
	switch r.intn(10) {
	case 0:
		s.api("GET", "/api/stat/lal_info", nil)
	case 1, 2:
		s.api("GET", "/api/stat/group?stream_name="+s.stream(r), nil)
	case 3, 4, 5:
		m := s.api("GET", "/api/stat/all_group", nil)
		var ids [][2]string
		sessionIds(m, &ids, "")
		if len(ids) > 0 && r.intn(2) == 0 {
			p := ids[r.intn(len(ids))]
			res := s.api("POST", "/api/ctrl/kick_session", map[string]interface{}{"stream_name": p[0], "session_id": p[1]})
			if res != nil {
				if c, _ := res["error_code"].(float64); c == 0 {
					count("kick.ok." + strings.TrimRight(p[1], "0123456789"))
				}
			}
		}
	case 6:
		// relay pull from ourselves: stream p<k> pulls stream <k>
		src := s.stream(r)
		url := fmt.Sprintf("rtmp://%s/live/%s", s.rtmpAddr, src)
		if r.intn(3) == 0 {
			url = fmt.Sprintf("rtsp://%s/live/%s", s.rtspAddr, src)
		}
		s.api("POST", "/api/ctrl/start_relay_pull", map[string]interface{}{"url": url, "stream_name": "p" + src,
			"pull_timeout_ms": 1000, "pull_retry_num": 1, "auto_stop_pull_after_no_out_ms": -1, "rtsp_mode": r.intn(2)})
	case 7:
		s.api("GET", "/api/ctrl/stop_relay_pull?stream_name=p"+s.stream(r), nil)
	case 8:
		m := s.api("POST", "/api/ctrl/start_rtp_pub", map[string]interface{}{"stream_name": "g" + s.stream(r), "port": 0, "timeout_ms": 1000, "is_tcp_flag": r.intn(2)})
		if m != nil {
			if d, ok := m["data"].(map[string]interface{}); ok {
				if port, _ := d["port"].(float64); port > 0 {
					count("rtppub.started")
					// feed a little so that the read path runs; tcp flag unknown here: try both
					if c, err := net.DialTimeout("tcp", fmt.Sprintf("127.0.0.1:%d", int(port)), 200*time.Millisecond); err == nil {
						_, _ = c.Write([]byte{0, 12, 0x80, 96, 0, 1, 0, 0, 0, 1, 0, 0, 0, 1})
						sleepMs(5)
						c.Close()
					}
					if c, err := net.Dial("udp", fmt.Sprintf("127.0.0.1:%d", int(port))); err == nil {
						_, _ = c.Write([]byte{0x80, 96, 0, 1, 0, 0, 0, 1, 0, 0, 0, 1, 0, 0, 1, 0xba})
						c.Close()
					}
				}
			}
		}
	case 9:
		ip := fmt.Sprintf("10.0.0.%d", r.intn(200))
		if r.intn(3) == 0 {
			// the scenario's own address: its hls requests of the next second take the black-listed path (no session id)
			ip = "127.0.0.1"
		}
		s.api("POST", "/api/ctrl/add_ip_blacklist", map[string]interface{}{"ip": ip, "duration_sec": 1 + r.intn(2)})
	}
	sleepMs(5 + r.intn(40))
}

// GB28181 over TCP with a packet dump, then kick: StartRtpPub / accept / hook / dispose paths on one stream name
func (s *scn) gbActor(r *rng) {
	name := "g" + s.stream(r)
	req := map[string]interface{}{"stream_name": name, "port": 0, "timeout_ms": 1000, "is_tcp_flag": 1}
	if r.intn(2) == 0 {
		req["debug_dump_packet"] = filepath.Join(s.tmp, fmt.Sprintf("dump-%d.bin", r.intn(4)))
	}
	m := s.api("POST", "/api/ctrl/start_rtp_pub", req)
	if m == nil {
		sleepMs(20)
		return
	}
	d, _ := m["data"].(map[string]interface{})
	port, _ := d["port"].(float64)
	sid, _ := d["session_id"].(string)
	if port <= 0 {
		sleepMs(20)
		return
	}
	count("gb.tcp.started")
	done := make(chan struct{})
	nPkt := 5 + r.intn(20)
	go func() {
		defer close(done)
		c, err := net.DialTimeout("tcp", fmt.Sprintf("127.0.0.1:%d", int(port)), 300*time.Millisecond)
		if err != nil {
			return
		}
		defer c.Close()
		for i := 0; i < nPkt; i++ {
			// header-only RTP packets: a short body runs into the unchecked offsets of gb28181.PsUnpacker (property C13, S14)
			if _, err := c.Write([]byte{0, 12, 0x80, 96, 0, byte(i), 0, 0, 0, 1, 0, 0, 0, 1}); err != nil {
				return
			}
			sleepMs(1)
		}
	}()
	sleepMs(r.intn(15))
	if s.api("POST", "/api/ctrl/kick_session", map[string]interface{}{"stream_name": name, "session_id": sid}) != nil {
		count("gb.tcp.kicked")
	}
	<-done
}

// the embedding application's own calls
func (s *scn) directActor(r *rng) {
	switch r.intn(5) {
	case 0:
		guard("deadlock:StatAllGroup", 5*time.Second, func() { s.sm.StatAllGroup() })
		count("direct.StatAllGroup")
	case 1:
		guard("deadlock:StatGroup", 5*time.Second, func() { s.sm.StatGroup(s.stream(r)) })
		count("direct.StatGroup")
	case 2:
		guard("deadlock:StatLalInfo", 5*time.Second, func() { s.sm.StatLalInfo() })
		count("direct.StatLalInfo")
	case 3, 4:
		name := "c" + s.stream(r)
		var ctx logic.ICustomizePubSessionContext
		var err error
		if !guard("deadlock:AddCustomizePubSession", 5*time.Second, func() { ctx, err = s.sm.AddCustomizePubSession(name) }) || err != nil {
			count("customize.refused")
			return
		}
		count("customize.pub")
		ctx.WithOption(func(o *base.AvPacketStreamOption) { o.VideoFormat = base.AvPacketStreamVideoFormatAvcc })
		for _, m := range mediaMsgs(5 + r.intn(10)) {
			if ctx.FeedRtmpMsg(m) != nil {
				break
			}
		}
		guard("deadlock:DelCustomizePubSession", 5*time.Second, func() { s.sm.DelCustomizePubSession(ctx) })
	}
	sleepMs(5 + r.intn(30))
}

func main() {
	seed := flag.Uint64("seed", 1, "scenario seed")
	durMs := flag.Int("dur", 5000, "duration of the churn phase in ms")
	actors := flag.Int("actors", 2, "actors per kind")
	flag.Parse()
	_ = nazalog.Init(func(o *nazalog.Option) { o.Level = nazalog.LevelPanic; o.IsToStdout = false })

	tmp, err := ioutil.TempDir("", "c20scn-")
	if err != nil {
		panic(err)
	}
	defer os.RemoveAll(tmp)
	s := &scn{tmp: tmp, streams: []string{"s0", "s1", "s2"}}
	rtmpPort, httpPort, rtspPort, apiPort := freePort(), freePort(), freePort(), freePort()
	s.rtmpAddr = fmt.Sprintf("127.0.0.1:%d", rtmpPort)
	s.httpAddr = fmt.Sprintf("127.0.0.1:%d", httpPort)
	s.rtspAddr = fmt.Sprintf("127.0.0.1:%d", rtspPort)
	s.apiAddr = fmt.Sprintf("127.0.0.1:%d", apiPort)
	s.client = &http.Client{Timeout: hardLimit}
	conf := fmt.Sprintf(`{
 "conf_version": "v0.4.1",
 "rtmp": {"enable": true, "addr": ":%d", "gop_num": 1, "single_gop_max_frame_num": 0, "merge_write_size": 0},
 "in_session": {"add_dummy_audio_enable": false, "add_dummy_audio_wait_audio_ms": 150},
 "default_http": {"http_listen_addr": ":%d", "https_listen_addr": ":0"},
 "httpflv": {"enable": true, "enable_https": false, "url_pattern": "/", "gop_num": 1, "single_gop_max_frame_num": 0},
 "hls": {"enable": true, "enable_https": false, "url_pattern": "/hls/", "out_path": %q, "fragment_duration_ms": 200, "fragment_num": 3,
   "delete_threshold": 2, "cleanup_mode": 2, "use_memory_as_disk_flag": false, "sub_session_timeout_ms": 500, "sub_session_hash_key": "k"},
 "httpts": {"enable": true, "enable_https": false, "url_pattern": "/", "gop_num": 1, "single_gop_max_frame_num": 0},
 "rtsp": {"enable": true, "addr": ":%d", "rtsps_enable": false, "out_wait_key_frame_flag": true, "auth_enable": false, "ws_rtsp_enable": false},
 "record": {"enable_flv": false, "enable_mpegts": false},
 "relay_push": {"enable": false, "addr_list": []},
 "static_relay_pull": {"enable": false, "addr": ""},
 "http_api": {"enable": true, "addr": ":%d"},
 "server_id": "c20",
 "http_notify": {"enable": false},
 "simple_auth": {"key": "k"},
 "pprof": {"enable": false, "addr": ":0"},
 "log": {"level": 6, "filename": %q, "is_to_stdout": false, "is_rotate_daily": false, "assert_behavior": 1},
 "debug": {"log_group_interval_sec": 1, "log_group_max_group_num": 10, "log_group_max_sub_num_per_group": 10}
}`, rtmpPort, httpPort, filepath.Join(tmp, "hls")+"/", rtspPort, apiPort, filepath.Join(tmp, "lal.log"))

	// make the alive check run on every tick of the scenario (the value is an exported variable of lal)
	base.LogicCheckSessionAliveIntervalSec = 2

	s.sm = logic.NewLalServer(func(o *logic.Option) { o.ConfRawContent = []byte(conf) })
	runDone := make(chan error, 1)
	go func() { runDone <- s.sm.RunLoop() }()
	// wait for the listeners
	for i := 0; i < 100; i++ {
		if c, err := net.DialTimeout("tcp", s.apiAddr, 100*time.Millisecond); err == nil {
			c.Close()
			break
		}
		sleepMs(20)
	}

	// RTSP push material: SDP + RTP packets made by lal's own remuxer from the synthetic stream
	{
		var mu sync.Mutex
		rm := remux.NewRtmp2RtspRemuxer(func(c sdp.LogicContext) { mu.Lock(); s.sdpCtx = c; mu.Unlock() },
			func(p rtprtcp.RtpPacket) { mu.Lock(); s.rtpPkts = append(s.rtpPkts, p); mu.Unlock() })
		for _, m := range mediaMsgs(40) {
			rm.FeedRtmpMsg(m)
		}
	}

	s.deadline = time.Now().Add(time.Duration(*durMs) * time.Millisecond)
	for i := 0; i < *actors; i++ {
		b := *seed*1000 + uint64(i)*37
		s.actor("rtmp.pub", b+1, s.rtmpPublisher)
		s.actor("rtmp.sub", b+2, s.rtmpSubscriber)
		s.actor("flv.sub", b+3, s.flvSubscriber)
		s.actor("ts.sub", b+4, s.tsSubscriber)
		s.actor("hls.sub", b+5, s.hlsSubscriber)
		s.actor("rtsp.sub", b+6, s.rtspSubscriber)
		s.actor("api", b+7, s.apiActor)
		s.actor("direct", b+8, s.directActor)
		if len(s.rtpPkts) > 0 {
			s.actor("rtsp.pub", b+9, s.rtspPublisher)
		}
	}
	s.actor("rtmp.pub.extra", *seed*1000+991, s.rtmpPublisher)
	s.actor("gb.tcp", *seed*1000+992, s.gbActor)

	// shutdown while the actors are still busy (they stop 300 ms later)
	time.Sleep(time.Until(s.deadline) - 300*time.Millisecond)
	if !guard("deadlock:ServerManager.Dispose", 10*time.Second, func() { s.sm.Dispose() }) {
		dumpGoroutines()
	}
	select {
	case <-runDone:
		count("shutdown.runloop-returned")
	case <-time.After(hardLimit):
		reportStuck("deadlock:RunLoop-did-not-return-after-Dispose")
	}
	actorsDone := make(chan struct{})
	go func() { s.wg.Wait(); close(actorsDone) }()
	select {
	case <-actorsDone:
	case <-time.After(hardLimit + 20*time.Second):
		reportStuck("deadlock:client-actors-did-not-finish")
		dumpGoroutines()
	}

	statMu.Lock()
	keys := make([]string, 0, len(stats))
	for k := range stats {
		keys = append(keys, k)
	}
	sort.Strings(keys)
	for _, k := range keys {
		fmt.Printf("STAT %s %d\n", k, stats[k])
	}
	statMu.Unlock()
	for _, p := range observedPairs() {
		fmt.Printf("PAIR %s\n", p)
	}
	if v := stuck.Load(); v != nil {
		fmt.Printf("RESULT %s\n", strings.ReplaceAll(v.(string), " ", "_"))
	} else {
		fmt.Println("RESULT done")
	}
}

func dumpGoroutines() {
	buf := make([]byte, 1<<20)
	n := runtime.Stack(buf, true)
	fmt.Fprintf(os.Stderr, "GOROUTINES\n%s\n", buf[:n])
}
