//go:build c20vsync

package main

import "github.com/q191201771/lal/pkg/c20vsync"

func observedPairs() []string { return c20vsync.Pairs() }
