package main

import (
	"bufio"
	"fmt"
	"net"
	"sort"
	"strconv"
	"strings"
	"sync"
	"time"

	"github.com/q191201771/lal/pkg/base"
	"github.com/q191201771/lal/pkg/logic"
	"github.com/q191201771/lal/pkg/rtmp"
	"github.com/q191201771/lal/pkg/rtsp"
)

// C03, L1: a REAL logic.Group driven by direct calls (one call = one critical section of
// group.mutex), with real session objects over recording conns, a recording IGroupObserver, a hook
// session as the tap of the pipeline (addIn / delIn / broadcast), and a TCP listener that parks what it
// accepts as the origin of the relay pulls the group starts itself: the origin answers an attempt only
// when the scenario says so (LO: lal's rtmp.ServerSession, resp. a few lines of RTSP, on the parked conn).
//
//	adm.grp <ev>;<ev>;...   =>   <res>;<observer calls>;<snapshot> | ...
//
// Events (x, nid = harness handles of sessions; the model uses the same numbers as identities):
//
//	RP:x Rp:x  AddRtmpPubSession / DelRtmpPubSession          SP:x Sp:x  rtsp pub
//	CP:x Cp:x  AddCustomizePubSession / Del…   CM:x  ctx.FeedRtmpMsg
//	GP:x       StartRtpPub(port 0)             GK:x  KickSession(ps) and its goroutine's DelPsPubSession
//	LA:x:r LD:x:r  AddRtmpPullSession / AddRtspPullSession (r=1), Del…PullSession with a harness pull session
//	               (never the session the group is waiting for: refused with ErrDupInStream or errRelayPullStopped)
//	LS:retry:nid[:1]  StartPull (rtmp url, rtsp url with :1 → the parked origin)
//	LO  the origin answers the oldest attempt it has not answered yet: the attempt's own goroutine calls
//	    AddRtmpPullSession / AddRtspPullSession (ok), or is refused and ends (DelXxxPullSession, "refused")
//	LF  the oldest attempt (attached or not) ends: its connection is closed, its goroutine calls Del…PullSession
//	LT  StopPull   RS:x:nid Rs:x  rtmp sub   SD:x SY:x:nid Ss:x  rtsp sub (describe, play, del)
//	    (LT / K that dispose the attached pull session: the harness waits for that session's goroutine to
//	    call Del…PullSession; the two critical sections are one event)
//	K:x KickSession   T:nid Tick   D Dispose
type c03Obs struct {
	mu  sync.Mutex
	evs []string // raw: rs<key> rp<key> hs<key> hp
	tap int
}

func (o *c03Obs) add(s string) {
	o.mu.Lock()
	o.evs = append(o.evs, s)
	o.mu.Unlock()
}
func (o *c03Obs) take() []string {
	o.mu.Lock()
	defer o.mu.Unlock()
	e := o.evs
	o.evs = nil
	return e
}
func (o *c03Obs) count(prefix string) int {
	o.mu.Lock()
	defer o.mu.Unlock()
	n := 0
	for _, e := range o.evs {
		if strings.HasPrefix(e, prefix) {
			n++
		}
	}
	return n
}
func (o *c03Obs) CleanupHlsIfNeeded(appName string, streamName string, path string) {}
func (o *c03Obs) OnHlsMakeTs(info base.HlsMakeTsInfo)                               {}
func (o *c03Obs) OnRelayPullStart(info base.PullStartInfo)                          { o.add("rs" + info.SessionId) }
func (o *c03Obs) OnRelayPullStop(info base.PullStopInfo)                            { o.add("rp" + info.SessionId) }

type c03Hook struct{ o *c03Obs }

func (h c03Hook) OnMsg(msg base.RtmpMsg) {
	h.o.mu.Lock()
	h.o.tap++
	h.o.mu.Unlock()
}
func (h c03Hook) OnStop() { h.o.add("hp") }

// c03Att is one relay-pull attempt the group started itself, parked at the origin.
type c03Att struct {
	h        string // handle (= the model's identity of the pull session)
	rtsp     bool
	conn     net.Conn            // origin side
	sess     *rtmp.ServerSession // rtmp origin session once the origin answers
	answered bool
}

// c03RtspOrigin answers OPTIONS and DESCRIBE and nothing after: the pull session gets its SDP
// (OnDescribeResponse → AddRtspPullSession) and then stays in its handshake until the connection ends.
func c03RtspOrigin(conn net.Conn) {
	r := bufio.NewReader(conn)
	for {
		method, cseq := "", ""
		for {
			line, err := r.ReadString('\n')
			if err != nil {
				return
			}
			line = strings.TrimRight(line, "\r\n")
			if line == "" {
				break
			}
			if method == "" {
				method = strings.Fields(line)[0]
			}
			if strings.HasPrefix(strings.ToLower(line), "cseq:") {
				cseq = strings.TrimSpace(line[5:])
			}
		}
		switch method {
		case "OPTIONS":
			_, _ = conn.Write([]byte("RTSP/1.0 200 OK\r\nCSeq: " + cseq + "\r\nPublic: DESCRIBE, SETUP, PLAY\r\n\r\n"))
		case "DESCRIBE":
			_, _ = conn.Write([]byte(fmt.Sprintf("RTSP/1.0 200 OK\r\nCSeq: %s\r\nContent-Type: application/sdp\r\nContent-Length: %d\r\n\r\n%s", cseq, len(c03Sdp), c03Sdp)))
		}
	}
}

func c03Wait(what string, cond func() bool) {
	deadline := time.Now().Add(5 * time.Second)
	for !cond() {
		if time.Now().After(deadline) {
			panic("c03: timeout waiting for " + what)
		}
		time.Sleep(200 * time.Microsecond)
	}
}

type c03NullRtspObs struct{}

func (c03NullRtspObs) OnNewRtspPubSession(session *rtsp.PubSession) error { return nil }
func (c03NullRtspObs) OnNewRtspSubSessionDescribe(session *rtsp.SubSession) (bool, []byte) {
	return true, nil
}
func (c03NullRtspObs) OnNewRtspSubSessionPlay(session *rtsp.SubSession) error { return nil }

type c03L1 struct {
	g       *logic.Group
	obs     *c03Obs
	origin  *c03Origin
	name    map[string]string // unique key -> handle
	rtmpS   map[string]*rtmp.ServerSession
	rtspP   map[string]*rtsp.PubSession
	rtspS   map[string]*rtsp.SubSession
	cust    map[string]logic.ICustomizePubSessionContext
	pullR   map[string]*rtmp.PullSession
	pullS   map[string]*rtsp.PullSession
	key     map[string]string // handle -> unique key
	pending []*c03Att         // the attempts the group started itself and that have not ended, oldest first
	dead    bool
}

func (l *c03L1) bind(handle, key string) {
	l.name[key] = handle
	l.key[handle] = key
}

func (l *c03L1) h(key string) string {
	if key == "" {
		return "-"
	}
	if n, ok := l.name[key]; ok {
		return n
	}
	return "?" + key
}

func (l *c03L1) snapshot() string {
	st := l.g.VerifAdmission()
	rl := l.g.VerifRelayState()
	subs := func(keys []string) string {
		var ns []int
		var bad []string
		for _, k := range keys {
			if n, err := strconv.Atoi(l.h(k)); err == nil {
				ns = append(ns, n)
			} else {
				bad = append(bad, l.h(k))
			}
		}
		sort.Ints(ns)
		var out []string
		for _, n := range ns {
			out = append(out, strconv.Itoa(n))
		}
		return strings.Join(append(out, bad...), ",")
	}
	b := func(v bool) string {
		if v {
			return "1"
		}
		return "0"
	}
	return fmt.Sprintf("r%s s%s c%s g%s lr%s ls%s p%s u%s e%s n%d h%s rs[%s] ss[%s] ia%s",
		l.h(st.RtmpPub), l.h(st.RtspPub), l.h(st.CustomizePub), l.h(st.PsPub), l.h(st.RtmpPull), l.h(st.RtspPull),
		b(st.IsSessionPulling), l.h(rl.PullingSessionUk), b(st.ApiEnable), st.StartCount, b(st.HookAlive), subs(st.RtmpSubs), subs(st.RtspSubs),
		b(l.g.IsInactive()))
}

// spawnCheck: did this event make the group start a pull attempt of its own? (then nid names it)
func (l *c03L1) spawnCheck(before logic.VerifAdmissionState, originBefore int, nid string) {
	after := l.g.VerifAdmission()
	if !before.IsSessionPulling && after.IsSessionPulling && after.StartCount == before.StartCount+1 {
		rl := l.g.VerifRelayState()
		if _, ok := l.key[nid]; !ok {
			l.bind(nid, rl.PullingSessionUk)
		}
		// the attempt's goroutine dials the origin; wait until it is parked there
		c03Wait("pull attempt to reach the origin", func() bool { return l.origin.count() > originBefore })
		l.pending = append(l.pending, &c03Att{h: nid, rtsp: !strings.HasPrefix(rl.PullUrl, "rtmp"), conn: l.origin.take(originBefore)})
	}
}

func (l *c03L1) drop(a *c03Att) {
	for i, p := range l.pending {
		if p == a {
			l.pending = append(l.pending[:i:i], l.pending[i+1:]...)
			break
		}
	}
	// only the raw connection is closed: the origin session ends in its own goroutine. (Dispose() from here can
	// race with the session's doPlay → naza ModWriteChanSize, which publishes WriteChanSize before exitChan
	// exists; connection.close then blocks for ever on the nil channel.)
	_ = a.conn.Close()
}

// disposed: StopPull / KickSession named session `key`. If it was the attached pull session it has been
// disposed, and its goroutine (one of the group's own attempts) now calls Del…PullSession: wait for that.
func (l *c03L1) disposed(before logic.VerifAdmissionState, key string, rp0 int) {
	if key == "" || (before.RtmpPull != key && before.RtspPull != key) {
		return
	}
	for _, a := range l.pending {
		if l.key[a.h] == key {
			c03Wait("relay pull stop of the disposed pull session", func() bool { return l.obs.count("rp") > rp0 })
			l.drop(a)
			return
		}
	}
}

func c03Msg() base.RtmpMsg {
	p := []byte{0xaf, 0x01, 0x21, 0x10}
	var m base.RtmpMsg
	m.Header.Csid = 6
	m.Header.MsgTypeId = 8
	m.Header.MsgStreamId = 1
	m.Header.MsgLen = uint32(len(p))
	m.Payload = p
	return m
}

func (l *c03L1) step(f []string) string {
	g := l.g
	res := "-"
	arrival := map[string]bool{"RP": true, "SP": true, "CP": true, "GP": true, "LA": true, "LS": true, "LO": true, "RS": true, "SD": true, "SY": true, "T": true, "D": true}
	if l.dead && arrival[f[0]] {
		return "na"
	}
	okdup := func(err error) string {
		if err == nil {
			return "ok"
		}
		if err == base.ErrDupInStream {
			return "dup"
		}
		return "err"
	}
	before := g.VerifAdmission()
	originBefore := l.origin.count()
	rp0 := l.obs.count("rp")
	switch f[0] {
	case "RP":
		s := rtmp.NewServerSession(nil, newRecConn())
		l.rtmpS[f[1]] = s
		l.bind(f[1], s.UniqueKey())
		res = okdup(g.AddRtmpPubSession(s))
	case "Rp":
		if s, ok := l.rtmpS[f[1]]; ok {
			g.DelRtmpPubSession(s)
		} else {
			res = "na"
		}
	case "SP":
		cmd := rtsp.NewServerCommandSession(c03NullRtspObs{}, newRecConn(), rtsp.ServerAuthConfig{}, false, "")
		s := rtsp.NewPubSession(base.UrlContext{}, cmd)
		l.rtspP[f[1]] = s
		l.bind(f[1], s.UniqueKey())
		res = okdup(g.AddRtspPubSession(s))
	case "Sp":
		if s, ok := l.rtspP[f[1]]; ok {
			g.DelRtspPubSession(s)
		} else {
			res = "na"
		}
	case "CP":
		ctx, err := g.AddCustomizePubSession("s")
		res = okdup(err)
		if err == nil {
			l.cust[f[1]] = ctx
			l.bind(f[1], ctx.UniqueKey())
		}
	case "Cp":
		if ctx, ok := l.cust[f[1]]; ok {
			g.DelCustomizePubSession(ctx)
		} else {
			res = "na"
		}
	case "CM":
		if ctx, ok := l.cust[f[1]]; ok {
			l.obs.mu.Lock()
			t0 := l.obs.tap
			l.obs.mu.Unlock()
			err := ctx.FeedRtmpMsg(c03Msg())
			l.obs.mu.Lock()
			t1 := l.obs.tap
			l.obs.mu.Unlock()
			if err == nil && t1 > t0 {
				res = "fwd"
			} else {
				res = "drop"
			}
		} else {
			res = "na"
		}
	case "GP":
		ret := g.StartRtpPub(base.ApiCtrlStartRtpPubReq{StreamName: "s", Port: 0, TimeoutMs: 0})
		if ret.ErrorCode == base.ErrorCodeSucc {
			res = "ok"
			l.bind(f[1], ret.Data.SessionId)
		} else {
			res = "dup"
		}
	case "GK":
		key, ok := l.key[f[1]]
		if !ok {
			key = "PSPUB0" // never created (refused): a well-formed id no session has
		}
		if g.KickSession(key) {
			res = "true"
			c03Wait("DelPsPubSession", func() bool { return g.VerifAdmission().PsPub != key })
		} else {
			res = "false"
		}
	case "LA":
		if f[2] == "1" {
			s := rtsp.NewPullSession(nil)
			l.pullS[f[1]] = s
			l.bind(f[1], s.UniqueKey())
			res = okdup(g.AddRtspPullSession(s))
		} else {
			s := rtmp.NewPullSession()
			l.pullR[f[1]] = s
			l.bind(f[1], s.UniqueKey())
			res = okdup(g.AddRtmpPullSession(s))
		}
	case "LD":
		if s, ok := l.pullR[f[1]]; ok {
			g.DelRtmpPullSession(s)
		} else if s, ok := l.pullS[f[1]]; ok {
			g.DelRtspPullSession(s)
		} else {
			res = "na"
		}
	case "LS":
		retry := -1
		if f[1] != "f" {
			retry = atoi(f[1])
		}
		scheme := "rtmp"
		if len(f) > 3 && f[3] == "1" {
			scheme = "rtsp"
		}
		uk, err := g.StartPull(base.ApiCtrlStartRelayPullReq{
			Url:                      fmt.Sprintf("%s://127.0.0.1:%d/live/s", scheme, l.origin.port()),
			PullTimeoutMs:            0,
			PullRetryNum:             retry,
			AutoStopPullAfterNoOutMs: base.AutoStopPullAfterNoOutMsNever,
		})
		if err == nil {
			res = "ok"
			l.bind(f[2], uk)
		} else {
			res = "fail"
		}
		l.spawnCheck(before, originBefore, f[2])
	case "LO":
		var a *c03Att
		for _, p := range l.pending {
			if !p.answered {
				a = p
				break
			}
		}
		if a == nil {
			res = "na"
			break
		}
		a.answered = true
		rs0 := l.obs.count("rs")
		if a.rtsp {
			go c03RtspOrigin(a.conn)
		} else {
			a.sess = rtmp.NewServerSession(l.origin, a.conn)
			go func(s *rtmp.ServerSession) { _ = s.RunLoop() }(a.sess)
		}
		c03Wait("the answered attempt to attach or to end", func() bool { return l.obs.count("rs") > rs0 || l.obs.count("rp") > rp0 })
		if l.obs.count("rs") > rs0 {
			res = "ok"
		} else {
			res = "refused"
			l.drop(a)
		}
	case "LF":
		if len(l.pending) == 0 {
			res = "na"
		} else {
			a := l.pending[0]
			_ = a.conn.Close()
			c03Wait("relay pull stop of the ended attempt", func() bool { return l.obs.count("rp") > rp0 })
			l.drop(a)
		}
	case "LT":
		id := g.StopPull()
		res = "id" + l.h(id)
		l.disposed(before, id, rp0)
	case "RS":
		s := rtmp.NewServerSession(nil, newRecConn())
		l.rtmpS[f[1]] = s
		l.bind(f[1], s.UniqueKey())
		g.AddRtmpSubSession(s)
		l.spawnCheck(before, originBefore, f[2])
	case "Rs":
		if s, ok := l.rtmpS[f[1]]; ok {
			g.DelRtmpSubSession(s)
		} else {
			res = "na"
		}
	case "SD":
		cmd := rtsp.NewServerCommandSession(c03NullRtspObs{}, newRecConn(), rtsp.ServerAuthConfig{}, false, "")
		s := rtsp.NewSubSession(base.UrlContext{}, cmd)
		// harness artefact: cmd.subSession is unexported and stays nil, so the group must not try to feed
		// this subscriber an SDP through its command session
		s.Stage.Store(rtsp.SubSessionStageWriteSdp)
		l.rtspS[f[1]] = s
		l.bind(f[1], s.UniqueKey())
		g.HandleNewRtspSubSessionDescribe(s)
	case "SY":
		if s, ok := l.rtspS[f[1]]; ok {
			g.HandleNewRtspSubSessionPlay(s)
			l.spawnCheck(before, originBefore, f[2])
		} else {
			res = "na"
		}
	case "Ss":
		if s, ok := l.rtspS[f[1]]; ok {
			g.DelRtspSubSession(s)
		} else {
			res = "na"
		}
	case "K":
		key, ok := l.key[f[1]]
		if !ok {
			key = "UNKNOWN0"
		}
		if g.KickSession(key) {
			res = "true"
			l.disposed(before, key, rp0)
		} else {
			res = "false"
		}
	case "T":
		g.Tick(1)
		l.spawnCheck(before, originBefore, f[1])
	case "D":
		g.Dispose()
		l.dead = true
	default:
		res = "bad-event"
	}
	return res
}

func c03RunGrp(evS string) string {
	obs := &c03Obs{}
	var lc logic.Config
	l := &c03L1{
		obs: obs, origin: c03NewOrigin(),
		name: map[string]string{}, key: map[string]string{},
		rtmpS: map[string]*rtmp.ServerSession{}, rtspP: map[string]*rtsp.PubSession{}, rtspS: map[string]*rtsp.SubSession{},
		cust: map[string]logic.ICustomizePubSessionContext{}, pullR: map[string]*rtmp.PullSession{}, pullS: map[string]*rtsp.PullSession{},
	}
	defer func() {
		_ = l.origin.ln.Close()
		l.origin.closeAll()
	}()
	opt := logic.VerifGroupOption(func(uniqueKey string, streamName string) logic.ICustomizeHookSessionContext {
		obs.add("hs" + uniqueKey)
		return c03Hook{obs}
	})
	l.g = logic.NewGroup("live", "s", &lc, opt, obs)
	go l.g.RunLoop()
	var parts []string
	for _, e := range strings.Split(evS, ";") {
		f := strings.Split(e, ":")
		res := l.step(f)
		var os []string
		for _, o := range obs.take() {
			if o == "hp" {
				os = append(os, o)
			} else {
				os = append(os, o[:2]+l.h(o[2:]))
			}
		}
		parts = append(parts, res+";"+strings.Join(os, ",")+";"+l.snapshot())
	}
	if !l.dead {
		// let the group's goroutine go
		func() {
			defer func() { _ = recover() }()
			l.g.Dispose()
		}()
	}
	return strings.Join(parts, " | ")
}

func init() {
	ops["adm.grp"] = func(a []string) string { return c03RunGrp(a[0]) }
	ops["adm.grp.pinned"] = ops["adm.grp"]
}
