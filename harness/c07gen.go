package main

// Generator of C07: boundary corpus first, then seeded structured streams.
//
// Everything that plays the SENDER here is written for the harness and independent of lal: the RTP packetiser
// (single NAL / STAP-A / AP / FU-A / FU, RFC 3640 AU headers with one or several AUs and fragments, raw), the SDP text
// (ffmpeg style), the MPEG-2 program stream packer (pack header with stuffing, system header, PSM, PES with PTS/DTS,
// arbitrary PES split points) and the RTP split of the PS bytes. lal's own rtprtcp.RtpPacker is used as a second sender.

import (
	"encoding/base64"
	"fmt"
	"sort"
	"strings"
)

// ---------------------------------------------------------------------------------------------------------------------
// elementary streams

type c07Frame struct {
	video bool
	ts    uint32   // RTP clock units (90 kHz for video)
	nals  [][]byte // video: the NAL units of the access unit
	data  []byte   // audio: one frame
}

// a slice / SEI / … NAL unit of n bytes with the given header byte(s); body free of start-code emulation, last byte non-zero
func c07Nal(r *Rng, hevc bool, typ int, n int) []byte {
	hl := 1
	if hevc {
		hl = 2
	}
	if n < hl+1 {
		n = hl + 1
	}
	body := genNal(r, n-hl+1)[1:]
	for len(body) < n-hl {
		body = append(body, 0x80)
	}
	if hevc {
		return append([]byte{byte(typ << 1), 1}, body[:n-hl]...)
	}
	nri := 2
	if typ == 6 || typ == 9 || typ == 12 {
		nri = 0
	}
	out := append([]byte{byte(nri<<5 | typ)}, body[:n-hl]...)
	if out[len(out)-1] == 0 {
		out[len(out)-1] = 0x80
	}
	return out
}

type c07Params struct {
	hevc          bool
	vps, sps, pps []byte
}

func c07GenParams(r *Rng, hevc bool) c07Params {
	if hevc {
		return c07Params{hevc: true, vps: genHevcVps(r), sps: genHevcSps(r), pps: append([]byte{0x44, 0x01}, genNal(r, 3+r.Intn(4))...)}
	}
	for {
		p := genSpsP(r)
		sps := encSps(p)
		if _, err := safeAvcBuild(sps, []byte{0x68, 0xce, 0x3c, 0x80}); err == nil && len(sps) < 60 {
			return c07Params{sps: sps, pps: append([]byte{0x68}, genNal(r, 3+r.Intn(4))...)}
		}
	}
}

// c07Video draws n access units: key frames carry (optionally) AUD, in-band parameter sets, SEI, IDR slice(s), suffix SEI;
// sizes are drawn around the payload limit so that single-NAL, aggregation and fragmentation packets all occur.
func c07Video(r *Rng, ps c07Params, n int, ts0 uint32, step uint32, max int, inband bool, gop int) []c07Frame {
	var out []c07Frame
	size := func() int {
		switch r.Intn(6) {
		case 0:
			return 2 + r.Intn(6)
		case 1:
			return max - 1 + r.Intn(3)
		case 2:
			return 2*max - 4 + r.Intn(8)
		case 3:
			return max/2 + r.Intn(max)
		case 4:
			return 3*max + r.Intn(max)
		}
		return 4 + r.Intn(max)
	}
	aud, sei, idr, non, seiSuffix := 9, 6, 5, 1, 6
	if ps.hevc {
		aud, sei, idr, non, seiSuffix = 35, 39, 19+r.Intn(2), 1, 40
	}
	for i := 0; i < n; i++ {
		f := c07Frame{video: true, ts: ts0 + uint32(i)*step}
		withAud := r.Intn(4) == 0
		if withAud {
			f.nals = append(f.nals, c07Nal(r, ps.hevc, aud, 2+b2i(ps.hevc)))
		}
		if i%gop == 0 {
			if inband {
				if ps.hevc {
					f.nals = append(f.nals, ps.vps)
				}
				f.nals = append(f.nals, ps.sps, ps.pps)
			}
			if r.Intn(3) == 0 {
				f.nals = append(f.nals, c07Nal(r, ps.hevc, sei, 3+r.Intn(8)))
			}
			f.nals = append(f.nals, c07Nal(r, ps.hevc, idr, size()))
			if r.Intn(3) == 0 { // second slice of the same picture
				f.nals = append(f.nals, c07Nal(r, ps.hevc, idr, size()))
			}
			if r.Intn(3) == 0 { // S13: something that is not a slice follows the IDR slice
				f.nals = append(f.nals, c07Nal(r, ps.hevc, seiSuffix, 3+r.Intn(6)))
			}
		} else {
			f.nals = append(f.nals, c07Nal(r, ps.hevc, non, size()))
			if r.Intn(6) == 0 {
				f.nals = append(f.nals, c07Nal(r, ps.hevc, non, size()))
			}
		}
		out = append(out, f)
	}
	return out
}

func c07Audio(r *Rng, n int, ts0 uint32, step uint32, minLen, maxLen int) []c07Frame {
	out := make([]c07Frame, n)
	for i := range out {
		d := r.Bytes(minLen + r.Intn(maxLen-minLen+1))
		out[i] = c07Frame{ts: ts0 + uint32(i)*step, data: d}
	}
	return out
}

// ---------------------------------------------------------------------------------------------------------------------
// independent RTP sender

func c07Rtp(pt int, marker bool, seq uint16, ts uint32, ssrc uint32, payload []byte) []byte {
	b := []byte{0x80, byte(pt & 0x7f), byte(seq >> 8), byte(seq), byte(ts >> 24), byte(ts >> 16), byte(ts >> 8), byte(ts),
		byte(ssrc >> 24), byte(ssrc >> 16), byte(ssrc >> 8), byte(ssrc)}
	if marker {
		b[1] |= 0x80
	}
	return append(b, payload...)
}

type c07Sender struct {
	pt   int
	seq  uint16
	ssrc uint32
	out  [][]byte
}

func (s *c07Sender) send(marker bool, ts uint32, payload []byte) {
	s.out = append(s.out, c07Rtp(s.pt, marker, s.seq, ts, s.ssrc, payload))
	s.seq++
}

// one access unit → RTP payloads (RFC 6184 §5.6-5.8 / RFC 7798 §4.4.1-4.4.3): small consecutive NAL units are
// aggregated when agg is set, units above the limit are fragmented, the rest go as single NAL unit packets.
func c07PackVideo(s *c07Sender, hevc bool, f c07Frame, max int, agg bool) {
	var payloads [][]byte
	hl := 1
	if hevc {
		hl = 2
	}
	i := 0
	for i < len(f.nals) {
		nal := f.nals[i]
		if len(nal) > max {
			// fragmentation units
			rest := nal[hl:]
			chunk := max - hl - 1
			first := true
			for len(rest) > 0 {
				k := chunk
				if k > len(rest) {
					k = len(rest)
				}
				last := k == len(rest)
				var p []byte
				if hevc {
					fh := nal[0] >> 1 & 0x3f
					if first {
						fh |= 0x80
					}
					if last {
						fh |= 0x40
					}
					p = []byte{nal[0]&0x81 | 49<<1, nal[1], fh}
				} else {
					fh := nal[0] & 0x1f
					if first {
						fh |= 0x80
					}
					if last {
						fh |= 0x40
					}
					p = []byte{nal[0]&0xe0 | 28, fh}
				}
				payloads = append(payloads, append(p, rest[:k]...))
				rest = rest[k:]
				first = false
			}
			i++
			continue
		}
		// aggregation of this and the following units that fit
		if agg && i+1 < len(f.nals) {
			j := i
			size := hl
			for j < len(f.nals) && len(f.nals[j]) <= max && size+2+len(f.nals[j]) <= max {
				size += 2 + len(f.nals[j])
				j++
			}
			if j-i >= 2 {
				var p []byte
				if hevc {
					p = []byte{48 << 1, 1}
				} else {
					p = []byte{24 | nal[0]&0x60}
				}
				for k := i; k < j; k++ {
					p = append(p, byte(len(f.nals[k])>>8), byte(len(f.nals[k])))
					p = append(p, f.nals[k]...)
				}
				payloads = append(payloads, p)
				i = j
				continue
			}
		}
		payloads = append(payloads, nal)
		i++
	}
	for k, p := range payloads {
		s.send(k == len(payloads)-1, f.ts, p)
	}
}

// RFC 3640 AAC-hbr: AU-headers-length, one 13+3 bit header per AU, then the AUs. frames share one packet when
// several are given (their RTP timestamp is the first one's); a frame above max is fragmented.
func c07PackAac(s *c07Sender, fs []c07Frame, max int) {
	if len(fs) == 1 && len(fs[0].data) > max {
		d := fs[0].data
		n := len(d)
		for len(d) > 0 {
			k := max
			if k > len(d) {
				k = len(d)
			}
			p := []byte{0, 16, byte(n >> 5), byte(n << 3)}
			s.send(k == len(d), fs[0].ts, append(p, d[:k]...))
			d = d[k:]
		}
		return
	}
	p := []byte{byte(len(fs) * 16 >> 8), byte(len(fs) * 16)}
	for _, f := range fs {
		p = append(p, byte(len(f.data)>>5), byte(len(f.data)<<3))
	}
	for _, f := range fs {
		p = append(p, f.data...)
	}
	s.send(true, fs[0].ts, p)
}

// ---------------------------------------------------------------------------------------------------------------------
// SDP (ffmpeg style)

var c07AacRates = []int{96000, 88200, 64000, 48000, 44100, 32000, 24000, 22050, 16000, 12000, 11025, 8000}

func c07Asc(rate, ch int) []byte {
	idx := 15
	for i, v := range c07AacRates {
		if v == rate {
			idx = i
		}
	}
	return []byte{byte(2<<3 | idx>>1), byte(idx<<7 | ch<<3)}
}

type c07SdpOpt struct {
	video      string // "", "avc", "hevc"
	ps         c07Params
	sprop      bool
	audio      string // "", "aac", "pcma", "pcmu", "opus"
	aRate, aCh int
	vPt, aPt   int
	noRtpmap   bool // G.711 announced by its static payload type alone (RFC 3551), no a=rtpmap line
}

func c07Sdp(o c07SdpOpt) []byte {
	var sb strings.Builder
	sb.WriteString("v=0\r\no=- 0 0 IN IP4 127.0.0.1\r\ns=No Name\r\nc=IN IP4 127.0.0.1\r\nt=0 0\r\na=tool:libavformat 58.76.100\r\n")
	b64 := base64.StdEncoding.EncodeToString
	switch o.video {
	case "avc":
		fmt.Fprintf(&sb, "m=video 0 RTP/AVP %d\r\na=rtpmap:%d H264/90000\r\n", o.vPt, o.vPt)
		if o.sprop {
			fmt.Fprintf(&sb, "a=fmtp:%d packetization-mode=1; sprop-parameter-sets=%s,%s; profile-level-id=640016\r\n", o.vPt, b64(o.ps.sps), b64(o.ps.pps))
		} else {
			fmt.Fprintf(&sb, "a=fmtp:%d packetization-mode=1\r\n", o.vPt)
		}
		sb.WriteString("a=control:streamid=0\r\n")
	case "hevc":
		fmt.Fprintf(&sb, "m=video 0 RTP/AVP %d\r\na=rtpmap:%d H265/90000\r\n", o.vPt, o.vPt)
		if o.sprop {
			fmt.Fprintf(&sb, "a=fmtp:%d sprop-vps=%s; sprop-sps=%s; sprop-pps=%s\r\n", o.vPt, b64(o.ps.vps), b64(o.ps.sps), b64(o.ps.pps))
		}
		sb.WriteString("a=control:streamid=0\r\n")
	}
	switch o.audio {
	case "aac":
		fmt.Fprintf(&sb, "m=audio 0 RTP/AVP %d\r\nb=AS:128\r\na=rtpmap:%d MPEG4-GENERIC/%d/%d\r\n", o.aPt, o.aPt, o.aRate, o.aCh)
		fmt.Fprintf(&sb, "a=fmtp:%d profile-level-id=1;mode=AAC-hbr;sizelength=13;indexlength=3;indexdeltalength=3; config=%s\r\n", o.aPt, strings.ToUpper(hx(c07Asc(o.aRate, o.aCh))))
		sb.WriteString("a=control:streamid=1\r\n")
	case "pcma":
		if o.noRtpmap {
			fmt.Fprintf(&sb, "m=audio 0 RTP/AVP %d\r\na=control:streamid=1\r\n", o.aPt)
		} else {
			fmt.Fprintf(&sb, "m=audio 0 RTP/AVP %d\r\na=rtpmap:%d PCMA/%d\r\na=control:streamid=1\r\n", o.aPt, o.aPt, o.aRate)
		}
	case "pcmu":
		if o.noRtpmap {
			fmt.Fprintf(&sb, "m=audio 0 RTP/AVP %d\r\na=control:streamid=1\r\n", o.aPt)
		} else {
			fmt.Fprintf(&sb, "m=audio 0 RTP/AVP %d\r\na=rtpmap:%d PCMU/%d\r\na=control:streamid=1\r\n", o.aPt, o.aPt, o.aRate)
		}
	case "opus":
		fmt.Fprintf(&sb, "m=audio 0 RTP/AVP %d\r\na=rtpmap:%d opus/%d/2\r\na=control:streamid=1\r\n", o.aPt, o.aPt, o.aRate)
	}
	return []byte(sb.String())
}

// c07Interleave merges the two tracks' packets in sending-time order (a packet's time = its RTP timestamp relative to
// the track's first, in seconds); ties alternate.
type c07Timed struct {
	t     float64
	track int
	raw   []byte
}

func c07Interleave(a [][]byte, aRate int, v [][]byte, vRate int) ([][]byte, []int) {
	var all []c07Timed
	ts := func(b []byte) uint32 { return uint32(b[4])<<24 | uint32(b[5])<<16 | uint32(b[6])<<8 | uint32(b[7]) }
	add := func(l [][]byte, rate int, track int) {
		if len(l) == 0 {
			return
		}
		t0 := ts(l[0])
		for _, p := range l {
			all = append(all, c07Timed{float64(ts(p)-t0) / float64(rate), track, p})
		}
	}
	add(v, vRate, 1)
	add(a, aRate, 0)
	sort.SliceStable(all, func(i, j int) bool { return all[i].t < all[j].t })
	out := make([][]byte, len(all))
	tr := make([]int, len(all))
	for i, x := range all {
		out[i] = x.raw
		tr[i] = x.track
	}
	return out, tr
}

// c07Order draws an arrival order of the interleaved packets: inside each track an in-window permutation with
// duplicates whose first arrival is the track's first packet (S23), the two tracks' arrivals merged at random
// but never further apart than `skew` packets from the sending order.
func c07Order(r *Rng, tracks []int, w, dupPct int) []int {
	var idx [2][]int
	for i, t := range tracks {
		idx[t] = append(idx[t], i)
	}
	var ord [2][]int
	for t := 0; t < 2; t++ {
		if len(idx[t]) > 0 {
			for _, k := range c12Order(r, len(idx[t]), w, dupPct, false) {
				ord[t] = append(ord[t], idx[t][k])
			}
		}
	}
	var out []int
	i, j := 0, 0
	for i < len(ord[0]) || j < len(ord[1]) {
		if j >= len(ord[1]) || (i < len(ord[0]) && (ord[0][i] < ord[1][j]) != (r.Intn(8) == 0)) {
			out = append(out, ord[0][i])
			i++
		} else {
			out = append(out, ord[1][j])
			j++
		}
	}
	return out
}

// ---------------------------------------------------------------------------------------------------------------------
// independent MPEG-2 program stream packer (ISO/IEC 13818-1 §2.5)

func c07Pts(marker byte, v uint64) []byte {
	return []byte{marker<<4 | byte(v>>30&7)<<1 | 1, byte(v >> 22), byte(v>>15&0x7f)<<1 | 1, byte(v >> 7), byte(v&0x7f)<<1 | 1}
}

func c07PackHeader(r *Rng, scr uint64, stuffing int) []byte {
	b := []byte{0, 0, 1, 0xba,
		0x44 | byte(scr>>30&7)<<3 | byte(scr>>28&3), byte(scr >> 20), byte(scr>>15&0x1f)<<3 | 4 | byte(scr>>13&3), byte(scr >> 5), byte(scr&0x1f)<<3 | 4, 1,
		0x00, 0x61, 0xab, // program_mux_rate + markers
		0xf8 | byte(stuffing)}
	for i := 0; i < stuffing; i++ {
		b = append(b, 0xff)
	}
	return b
}

func c07SystemHeader(streams []byte) []byte {
	body := []byte{0x80, 0x61, 0xab, 0x04, 0xe1, 0x7f}
	for _, id := range streams {
		body = append(body, id, 0xe0, 0x80)
	}
	return append([]byte{0, 0, 1, 0xbb, byte(len(body) >> 8), byte(len(body))}, body...)
}

// program stream map: descriptors of length psInfo before the map, esInfo bytes of descriptors per stream
func c07Psm(r *Rng, vType, aType int, psInfo, esInfo int) []byte {
	var es []byte
	add := func(typ int, id byte) {
		es = append(es, byte(typ), id, byte(esInfo>>8), byte(esInfo))
		es = append(es, r.Bytes(esInfo)...)
	}
	if vType >= 0 {
		add(vType, 0xe0)
	}
	if aType >= 0 {
		add(aType, 0xc0)
	}
	body := []byte{0xe0, 0xff, byte(psInfo >> 8), byte(psInfo)}
	body = append(body, r.Bytes(psInfo)...)
	body = append(body, byte(len(es)>>8), byte(len(es)))
	body = append(body, es...)
	body = append(body, 0x45, 0xbd, 0xdc, 0xf4) // CRC_32 (not checked by receivers of GB28181 streams)
	return append([]byte{0, 0, 1, 0xbc, byte((len(body)) >> 8), byte(len(body))}, body...)
}

// one PES packet: flags 2 = PTS only, 3 = PTS+DTS, 0 = none; `stuff` stuffing bytes in the header
func c07Pes(id byte, flags int, pts, dts uint64, stuff int, es []byte) []byte {
	var hd []byte
	switch flags {
	case 2:
		hd = c07Pts(2, pts)
	case 3:
		hd = append(c07Pts(3, pts), c07Pts(1, dts)...)
	}
	for i := 0; i < stuff; i++ {
		hd = append(hd, 0xff)
	}
	n := 3 + len(hd) + len(es)
	b := []byte{0, 0, 1, id, byte(n >> 8), byte(n), 0x80, byte(flags << 6), byte(len(hd))}
	b = append(b, hd...)
	return append(b, es...)
}

type c07PsOpt struct {
	vType, aType   int  // PSM stream types, -1 = absent
	psmEvery       bool // PSM + system header before every key frame (else only before the first frame)
	ptsAll         bool // every PES of a frame carries the PTS (else only the first)
	zeroTs         bool // the first frame's PTS is exactly 0 (a publisher whose 90 kHz counter starts at 0)
	noPts          bool // no PTS at all: frames are delimited by the RTP timestamp
	withDts        bool
	maxPes         int // elementary bytes per PES packet
	stuffing       bool
	startCode3     bool // 3-byte start codes between the NAL units of an access unit (4 before the first)
	allStartCode3  bool
	packEnd        bool
	private        bool // a private / padding PES in between
	unitsPerRtp    int  // 0: one RTP packet per PS unit; n>0: the byte string of a frame is cut every n bytes inside PES payloads
	cutAnywhere    bool // cut the frame's bytes at arbitrary offsets (may split a header)
}

type c07PsUnit struct {
	b    []byte
	hdr  int // header length: a cut must not fall inside b[1:hdr] unless cutAnywhere
	rtpt uint32
}

// c07PsFrames lays the frames out as a program stream; result: per frame the PS units (for RTP splitting)
func c07PsFrames(r *Rng, o c07PsOpt, hevc bool, frames []c07Frame) [][]c07PsUnit {
	var out [][]c07PsUnit
	first := true
	for _, f := range frames {
		var us []c07PsUnit
		add := func(b []byte, hdr int) { us = append(us, c07PsUnit{b, hdr, f.ts}) }
		stuff := 0
		if o.stuffing {
			stuff = r.Intn(8)
		}
		isKey := false
		if f.video {
			for _, n := range f.nals {
				t := int(n[0] & 0x1f)
				if hevc {
					t = int(n[0] >> 1 & 0x3f)
					isKey = isKey || (t >= 16 && t <= 23)
				} else {
					isKey = isKey || t == 5
				}
			}
		}
		if f.video || first {
			ph := c07PackHeader(r, uint64(f.ts), stuff)
			add(ph, len(ph))
		}
		if first || (isKey && o.psmEvery) {
			var ids []byte
			if o.vType >= 0 {
				ids = append(ids, 0xe0)
			}
			if o.aType >= 0 {
				ids = append(ids, 0xc0)
			}
			sh := c07SystemHeader(ids)
			add(sh, len(sh))
			psm := c07Psm(r, o.vType, o.aType, r.Pick(0, 0, 4), r.Pick(0, 0, 6))
			add(psm, len(psm))
		}
		first = false
		if o.private && r.Intn(3) == 0 {
			body := r.Bytes(r.Intn(12))
			id := byte(r.Pick(0xbd, 0xbe, 0xbf))
			p := append([]byte{0, 0, 1, id, byte(len(body) >> 8), byte(len(body))}, body...)
			if id == 0xbd { // private_stream_1 has the optional PES header
				p = c07Pes(id, 0, 0, 0, r.Intn(3), body)
			}
			add(p, len(p))
		}
		var es []byte
		id := byte(0xc0)
		if f.video {
			id = 0xe0
			for i, n := range f.nals {
				if o.allStartCode3 || (o.startCode3 && i > 0) {
					es = append(es, 0, 0, 1)
				} else {
					es = append(es, 0, 0, 0, 1)
				}
				es = append(es, n...)
			}
		} else {
			es = f.data
		}
		pts := uint64(f.ts)
		firstPes := true
		for len(es) > 0 || firstPes {
			k := o.maxPes
			if o.maxPes > 8 && r.Intn(3) == 0 {
				k = 1 + r.Intn(o.maxPes) // arbitrary split point
			}
			if k > len(es) {
				k = len(es)
			}
			flags := 0
			if !o.noPts && (firstPes || o.ptsAll) {
				flags = 2
				if o.withDts {
					flags = 3
				}
			}
			st := 0
			if o.stuffing {
				st = r.Intn(4)
			}
			p := c07Pes(id, flags, pts, pts, st, es[:k])
			add(p, len(p)-k)
			es = es[k:]
			firstPes = false
		}
		if o.packEnd && r.Intn(4) == 0 {
			add([]byte{0, 0, 1, 0xb9}, 4)
		}
		out = append(out, us)
	}
	return out
}

// c07PsRtp cuts the program stream into RTP payloads: unit by unit, or every `cut` bytes of a frame
// (never inside the first 6 bytes of a unit's header unless o.cutAnywhere), marker on the last packet of a frame.
func c07PsRtp(r *Rng, o c07PsOpt, frames [][]c07PsUnit, seq0 uint16) ([][]byte, [][2]string) {
	s := &c07Sender{pt: 96, seq: seq0, ssrc: 0x1234}
	var bodies [][2]string
	send := func(marker bool, ts uint32, p []byte) {
		s.send(marker, ts, p)
		bodies = append(bodies, [2]string{fmt.Sprint(ts), hx(p)})
	}
	for _, us := range frames {
		if o.unitsPerRtp == 0 {
			for i, u := range us {
				send(i == len(us)-1, u.rtpt, u.b)
			}
			continue
		}
		// concatenate and cut
		var all []byte
		forbidden := map[int]bool{}
		for _, u := range us {
			lim := u.hdr
			if lim > 6 && !o.cutAnywhere {
				// lal needs the start code and the length field in one piece (S14, belongs to C13); other header bytes may be cut
				lim = 6
			}
			if !o.cutAnywhere {
				for k := 1; k < lim; k++ {
					forbidden[len(all)+k] = true
				}
			}
			all = append(all, u.b...)
		}
		pos := 0
		for pos < len(all) {
			k := o.unitsPerRtp
			if r.Intn(2) == 0 {
				k = 1 + r.Intn(o.unitsPerRtp)
			}
			end := pos + k
			if end > len(all) {
				end = len(all)
			}
			for end < len(all) && forbidden[end] {
				end++
			}
			send(end == len(all), us[0].rtpt, all[pos:end])
			pos = end
		}
	}
	return s.out, bodies
}

// ---------------------------------------------------------------------------------------------------------------------

func c07PktsArg(ps []string) string {
	if len(ps) == 0 {
		return "none"
	}
	return strings.Join(ps, ",")
}

func c07AvccOf(nals [][]byte) []byte {
	var b []byte
	for _, n := range nals {
		b = append(b, byte(len(n)>>24), byte(len(n)>>16), byte(len(n)>>8), byte(len(n)))
		b = append(b, n...)
	}
	return b
}

func c07AnnexbOf(r *Rng, nals [][]byte) []byte {
	var b []byte
	for _, n := range nals {
		if r.Intn(3) == 0 {
			b = append(b, 0, 0, 1)
		} else {
			b = append(b, 0, 0, 0, 1)
		}
		b = append(b, n...)
	}
	return b
}

func c07Adts(rate, ch int, d []byte) []byte {
	idx := 15
	for i, v := range c07AacRates {
		if v == rate {
			idx = i
		}
	}
	n := len(d) + 7
	return append([]byte{0xff, 0xf1, byte(1<<6 | idx<<2 | ch>>2), byte(ch&3)<<6 | byte(n>>11), byte(n >> 3), byte(n&7)<<5 | 0x1f, 0xfc}, d...)
}

func genC07(g *G) {
	r := g.rng
	avc := c07GenParams(r, false)
	hv := c07GenParams(r, true)

	// ================================================ AvPacket2RtmpRemuxer ================================================
	{
		run := func(label string, mode string, vf, af int, asc, vps, sps, pps string, pkts []string) {
			g.L(label).run(fmt.Sprintf("av2rtmp.feed %s %d %d %s %s %s %s %s", mode, vf, af, asc, vps, sps, pps, c07PktsArg(pkts)))
		}
		// S13: IDR slice followed by a suffix SEI in one packet (AVCC and Annex-B), H.264 and H.265
		run("corpus-s13", "remux", 1, 1, "nil", "nil", "nil", "nil", []string{"96:40:" + hx(c07AvccOf([][]byte{{0x65, 0xb0, 0x01}, {0x06, 0x05, 0x80}}))})
		run("corpus-s13", "remux", 2, 1, "nil", "nil", "nil", "nil", []string{"96:40:" + hx([]byte{0, 0, 0, 1, 0x65, 0xb0, 0x01, 0, 0, 1, 0x06, 0x05, 0x80})})
		run("corpus-s13", "remux", 1, 1, "nil", "nil", "nil", "nil", []string{"98:40:" + hx(c07AvccOf([][]byte{{0x26, 0x01, 0xaf}, {0x50, 0x01, 0x80}}))})
		run("corpus-s13", "remux", 1, 1, "nil", "nil", "nil", "nil", []string{"96:40:" + hx(c07AvccOf([][]byte{{0x06, 0x05, 0x80}, {0x65, 0xb0, 0x01}}))})
		run("corpus-s13", "remux", 1, 1, "nil", "nil", "nil", "nil", []string{"96:40:" + hx(c07AvccOf([][]byte{{0x41, 0x9a, 0x01}, {0x06, 0x05, 0x80}}))})
		// AUD dropped; AUD alone gives no message
		run("corpus-aud", "remux", 1, 1, "nil", "nil", "nil", "nil", []string{"96:0:" + hx(c07AvccOf([][]byte{{0x09, 0xf0}, {0x41, 0x9a, 0x02}})), "96:40:" + hx(c07AvccOf([][]byte{{0x09, 0xf0}}))})
		run("corpus-aud", "remux", 1, 1, "nil", "nil", "nil", "nil", []string{"98:0:" + hx(c07AvccOf([][]byte{{0x46, 0x01, 0x50}, {0x02, 0x01, 0xd0}}))})
		// in-band parameter sets: all in one packet with the IDR; split over packets; repeated; SPS that ParseSps rejects
		run("corpus-inband", "remux", 1, 1, "nil", "nil", "nil", "nil", []string{"96:0:" + hx(c07AvccOf([][]byte{avc.sps, avc.pps, {0x65, 0xb0, 0x01}})), "96:40:" + hx(c07AvccOf([][]byte{{0x41, 0x9a}}))})
		run("corpus-inband", "remux", 1, 1, "nil", "nil", "nil", "nil", []string{"96:0:" + hx(c07AvccOf([][]byte{avc.sps})), "96:0:" + hx(c07AvccOf([][]byte{avc.pps})), "96:0:" + hx(c07AvccOf([][]byte{{0x65, 0xb0}})),
			"96:40:" + hx(c07AvccOf([][]byte{avc.pps, avc.sps, {0x65, 0xb1}})), "96:80:" + hx(c07AvccOf([][]byte{avc.pps})), "96:120:" + hx(c07AvccOf([][]byte{avc.pps, {0x41, 0x01}}))})
		run("corpus-inband", "remux", 1, 1, "nil", "nil", "nil", "nil", []string{"96:0:" + hx(c07AvccOf([][]byte{{0x67, 0x42}, avc.pps, {0x65, 0xb0}})), "96:40:" + hx(c07AvccOf([][]byte{avc.sps, {0x65, 0xb0}}))})
		run("corpus-inband", "remux", 1, 1, "nil", "nil", "nil", "nil", []string{"98:0:" + hx(c07AvccOf([][]byte{hv.vps, hv.sps, hv.pps, {0x26, 0x01, 0xaf}})), "98:40:" + hx(c07AvccOf([][]byte{hv.pps, hv.sps, {0x02, 0x01, 0xd0}})), "98:80:" + hx(c07AvccOf([][]byte{hv.vps}))})
		// Annex-B input: 3 and 4 byte start codes, leading bytes, trailing zeros, no start code, empty
		for _, p := range []string{"000000016501000001419a", "0000016501000000000141", "aabb00000001650100000141", "6501", "00000001", "000001", "-", "0000000165010000"} {
			run("corpus-annexb", "remux", 2, 1, "nil", "nil", "nil", "nil", []string{"96:7:" + p})
		}
		// AVCC input: bad lengths
		for _, p := range []string{"-", "000000", "00000000", "0000000265", "000000026501ff", "00000000000000026501", "0000000165000000026501", "0000000165" + "00000000"} {
			run("corpus-avcc", "remux", 1, 1, "nil", "nil", "nil", "nil", []string{"96:7:" + p})
		}
		// video format unknown (0) is treated as Annex-B
		run("corpus-fmt0", "remux", 0, 0, "nil", "nil", "nil", "nil", []string{"96:1:000000016501", "97:2:0102"})
		// audio: raw AAC, ADTS (sequence header from the first header), short ADTS, G.711, Opus, unknown type
		run("corpus-audio", "remux", 1, 1, "1210", "nil", "nil", "nil", []string{"97:0:210a", "97:23:-", "97:46:ff"})
		run("corpus-audio", "remux", 1, 2, "nil", "nil", "nil", "nil", []string{"97:0:" + hx(c07Adts(44100, 2, []byte{1, 2, 3, 4, 5})), "97:23:" + hx(c07Adts(44100, 2, []byte{9, 8, 7, 6, 5, 4})), "97:46:" + hx(c07Adts(44100, 2, []byte{1, 2, 3, 4})), "97:69:fff1"})
		run("corpus-audio", "remux", 1, 2, "nil", "nil", "nil", "nil", []string{"97:0:fff1", "97:23:" + hx(c07Adts(8000, 1, []byte{1, 2, 3, 4, 5}))})
		run("corpus-audio", "remux", 1, 1, "nil", "nil", "nil", "nil", []string{"8:0:d5d5d5", "0:20:ffff", "101:40:fc01", "14:60:00", "-1:80:00", "8:100:-"})
		// InitWithAvConfig
		run("corpus-init", "remux", 1, 1, "1210", "nil", hx(avc.sps), hx(avc.pps), nil)
		run("corpus-init", "remux", 1, 1, "1210", hx(hv.vps), hx(hv.sps), hx(hv.pps), nil)
		run("corpus-init", "remux", 1, 1, "nil", "nil", hx(avc.sps), hx(avc.pps), []string{"96:0:" + hx(c07AvccOf([][]byte{{0x65, 1}}))})
		run("corpus-init", "remux", 1, 1, "12", "nil", hx(avc.sps), hx(avc.pps), []string{"96:0:" + hx(c07AvccOf([][]byte{{0x65, 1}}))})
		run("corpus-init", "remux", 1, 1, "-", "nil", "nil", "nil", []string{"97:0:01"})
		run("corpus-init", "remux", 1, 1, "1210", "nil", hx(avc.sps), "nil", []string{"96:0:" + hx(c07AvccOf([][]byte{{0x65, 1}}))})
		run("corpus-init", "remux", 1, 1, "nil", "nil", "6742", hx(avc.pps), []string{"96:0:" + hx(c07AvccOf([][]byte{{0x65, 1}}))})
		run("corpus-init", "remux", 1, 1, "nil", hx(hv.vps), "nil", "nil", []string{"98:0:" + hx(c07AvccOf([][]byte{{0x26, 1, 1}}))})
		run("corpus-init", "remux", 1, 1, "nil", "-", "-", "-", nil)
		// customize pub: AudioSpecificConfig, then packets
		run("corpus-cust", "cust", 1, 1, "1190", "nil", "nil", "nil", []string{"96:0:" + hx(c07AvccOf([][]byte{avc.sps, avc.pps, {0x65, 0xb0}})), "97:0:2122", "96:40:" + hx(c07AvccOf([][]byte{{0x41, 0x9a}}))})
		run("corpus-cust", "cust", 2, 2, "nil", "nil", "nil", "nil", []string{"96:0:" + hx(c07AnnexbOf(r, [][]byte{avc.sps, avc.pps, {0x65, 0xb0}})), "97:0:" + hx(c07Adts(48000, 2, []byte{1, 2, 3, 4, 5}))})
		// timestamps: uint32 truncation
		run("corpus-ts", "remux", 1, 1, "nil", "nil", "nil", "nil", []string{"8:4294967295:01", "8:4294967296:02", "8:4294967297:03", "8:-1:04", "8:9223372036854775807:05"})

		for i := 0; i < g.scale(300, 6000); i++ {
			hevc := r.Intn(3) == 0
			ps := avc
			pt := 96
			if hevc {
				ps, pt = hv, 98
			}
			vf := r.Pick(1, 1, 2)
			af := r.Pick(1, 2)
			frames := c07Video(r, ps, 1+r.Intn(8), 0, 40, 24, r.Intn(3) != 0, 1+r.Intn(4))
			apt := r.Pick(97, 97, 8, 0, 101)
			var pkts []string
			for _, f := range frames {
				var p []byte
				if vf == 1 {
					p = c07AvccOf(f.nals)
				} else {
					p = c07AnnexbOf(r, f.nals)
				}
				pkts = append(pkts, fmt.Sprintf("%d:%d:%s", pt, f.ts, hx(p)))
				if r.Intn(2) == 0 {
					d := r.Bytes(5 + r.Intn(12))
					switch apt {
					case 97:
						if af == 2 {
							d = c07Adts(44100, 2, d)
						}
						pkts = append(pkts, fmt.Sprintf("97:%d:%s", f.ts+3, hx(d)))
					default:
						pkts = append(pkts, fmt.Sprintf("%d:%d:%s", apt, f.ts+3, hx(d)))
					}
				}
			}
			asc, vps, sps, pps := "nil", "nil", "nil", "nil"
			mode := "remux"
			if r.Intn(3) == 0 || (apt == 97 && af == 1 && r.Intn(8) != 0) {
				asc = hx(c07Asc(44100, 2))
			}
			if r.Intn(3) == 0 {
				sps, pps = hx(ps.sps), hx(ps.pps)
				if hevc {
					vps = hx(ps.vps)
				}
			}
			if r.Intn(5) == 0 {
				mode = "cust"
			}
			lab := fmt.Sprintf("rand-%s-vf%d", map[bool]string{false: "avc", true: "hevc"}[hevc], vf)
			run(lab, mode, vf, af, asc, vps, sps, pps, pkts)
		}
	}

	// ================================================ AvPacketQueue ================================================
	{
		run := func(label string, rot int, pkts []string) { g.L(label).run(fmt.Sprintf("avq.feed %d %s", rot, c07PktsArg(pkts))) }
		run("corpus", 1, []string{"96:1000", "97:2000", "96:1040", "97:2023"})
		run("corpus-tie", 1, []string{"96:10", "97:50", "96:50", "97:90", "97:90", "96:90", "96:130", "97:130"})
		run("corpus-single", 1, []string{"96:10", "96:50", "96:90"})
		run("corpus-bframe", 1, []string{"96:1000", "97:5000", "96:1120", "96:1040", "96:1080", "97:5023", "97:5200"})
		run("corpus-rotate", 1, []string{"96:47721858", "97:100", "96:47721898", "97:123", "96:0", "97:146", "96:40", "97:200"})
		run("corpus-rotate2", 1, []string{"96:5000", "97:0", "96:100", "96:140", "97:300"})       // second packet rotates: prevInterval is still -1
		run("corpus-negative", 1, []string{"96:500", "97:0", "96:100", "96:140", "97:100"})         // small backward step below the first timestamp: clamped to 0
		run("corpus-other", 1, []string{"14:5", "96:7", "14:7", "96:7", "-1:9", "96:9"})             // neither audio nor video: queued as audio, ties pop audio
		run("corpus-base", 0, []string{"96:1000", "97:2000", "96:1040", "97:2023", "96:900", "97:2046", "96:940", "97:1000", "97:1023", "96:980"})
		for _, n := range []int{127, 128, 129, 130, 257} {
			var v, a []string
			for i := 0; i < n; i++ {
				v = append(v, fmt.Sprintf("96:%d", 1000+40*i))
				a = append(a, fmt.Sprintf("97:%d", 7+23*i))
			}
			run("corpus-full", 1, append(append([]string{}, v...), "97:0", "97:23", "96:99999"))
			run("corpus-full", 1, append(append([]string{"96:0"}, a...), "96:40", "96:99999"))
			run("corpus-full", 0, append(append([]string{}, v...), "97:0", "97:23"))
		}
		for i := 0; i < g.scale(150, 4000); i++ {
			n := 2 + r.Intn(60)
			if i%10 == 0 {
				n = 200 + r.Intn(300)
			}
			vt, at := int64(r.Intn(100000)), int64(r.Intn(100000))
			var pkts []string
			monotone := i%3 != 0
			for k := 0; k < n; k++ {
				if monotone {
					// the two tracks advance in media time, arrival skewed by up to a few packets
					if (vt-at+int64(r.Intn(200))-100 < 0) == (r.Intn(10) != 0) {
						pkts = append(pkts, fmt.Sprintf("96:%d", vt))
						vt += int64(r.Pick(40, 40, 33, 0, 41))
					} else {
						pkts = append(pkts, fmt.Sprintf("97:%d", at))
						at += int64(r.Pick(23, 23, 20, 0, 21))
					}
					continue
				}
				// which track is due next (by media time since its start), with some disorder
				video := r.Intn(2) == 0
				if r.Intn(4) != 0 {
					video = r.Intn(100) < 40
				}
				if video {
					pkts = append(pkts, fmt.Sprintf("%d:%d", r.Pick(96, 96, 98), vt))
					switch r.Intn(12) {
					case 0:
						vt -= int64(r.Intn(200)) // B-frame like
					case 1:
						vt -= int64(900 + r.Intn(300)) // around the rotate threshold
					case 2:
						vt = int64(r.Intn(50)) // wrap
					default:
						vt += int64(r.Pick(40, 40, 33, 0, 1))
					}
				} else {
					pkts = append(pkts, fmt.Sprintf("%d:%d", r.Pick(97, 97, 8, 0, 101), at))
					if r.Intn(30) == 0 {
						at = int64(r.Intn(50))
					} else {
						at += int64(r.Pick(23, 23, 20, 0, 21))
					}
				}
			}
			run("random", r.Pick(1, 1, 1, 0), pkts)
		}
	}

	// ================================================ RTSP ingest ================================================
	c07GenRtsp(g, avc, hv)

	// ================================================ GB28181 PS ================================================
	c07GenPs(g, avc, hv)
}

type c07RtspCase struct {
	video           string
	audio           string
	aRate           int
	nVideo, nAudio  int
	max             int
	agg, inband     bool
	sprop           bool
	seqV, seqA      uint16
	tsV, tsA        uint32
	reorder         bool
	lalPacker       bool
	ausPerPkt       int
	noRtpmap        bool
}

func c07RtspOp(r *Rng, c c07RtspCase, avc, hv c07Params) (string, string) {
	ps := avc
	if c.video == "hevc" {
		ps = hv
	}
	o := c07SdpOpt{video: c.video, ps: ps, sprop: c.sprop, audio: c.audio, aRate: c.aRate, aCh: 2, vPt: 96, aPt: 97, noRtpmap: c.noRtpmap && c.aRate == 8000}
	if c.video == "hevc" {
		o.vPt = 98
	}
	switch c.audio {
	case "pcma":
		o.aPt = 8
	case "pcmu":
		o.aPt = 0
	case "opus":
		o.aPt = 101
	}
	rawSdp := c07Sdp(o)
	var vp, ap [][]byte
	if c.video != "" {
		frames := c07Video(r, ps, c.nVideo, c.tsV, 3600, c.max, c.inband, 1+r.Intn(5))
		if c.lalPacker {
			kind := "avc"
			if c.video == "hevc" {
				kind = "hevc"
			}
			var fs [][2]string
			// lal's packer takes one NAL unit per Pack call and a millisecond timestamp
			for _, f := range frames {
				for _, n := range f.nals {
					fs = append(fs, [2]string{fmt.Sprint(int64(f.ts-c.tsV) / 90), hx(n)})
				}
			}
			for _, x := range c12Pack(kind, o.vPt, 7, 90000, c.seqV, c.max, fs) {
				vp = append(vp, x...)
			}
		} else {
			s := &c07Sender{pt: o.vPt, seq: c.seqV, ssrc: 0x11}
			for _, f := range frames {
				c07PackVideo(s, c.video == "hevc", f, c.max, c.agg)
			}
			vp = s.out
		}
	}
	if c.audio != "" {
		step, lo, hi := uint32(1024), 4, 12
		switch c.audio {
		case "pcma", "pcmu":
			step, lo, hi = uint32(c.aRate/50), 8, 8
		case "opus":
			step, lo, hi = uint32(c.aRate/50), 3, 10
		}
		frames := c07Audio(r, c.nAudio, c.tsA, step, lo, hi)
		s := &c07Sender{pt: o.aPt, seq: c.seqA, ssrc: 0x22}
		if c.audio == "aac" {
			k := c.ausPerPkt
			if k < 1 {
				k = 1
			}
			for i := 0; i < len(frames); i += k {
				j := i + k
				if j > len(frames) {
					j = len(frames)
				}
				c07PackAac(s, frames[i:j], 1<<20)
			}
		} else {
			for _, f := range frames {
				s.send(true, f.ts, f.data)
			}
		}
		ap = s.out
	}
	all, tracks := c07Interleave(ap, c.aRate, vp, 90000)
	order := "-"
	if c.reorder {
		order = orderStr(c07Order(r, tracks, 1+r.Intn(4), r.Pick(0, 10, 25)))
	}
	lab := fmt.Sprintf("%s+%s", c.video, c.audio)
	if c.video == "" {
		lab = "only-" + c.audio
	} else if c.audio == "" {
		lab = "only-" + c.video
	}
	if c.audio == "aac" {
		lab += fmt.Sprint(c.aRate)
	}
	if c.reorder {
		lab += "-reorder"
	}
	return lab, fmt.Sprintf("rtsp.ingest %s %s %s", hx(rawSdp), order, hxList(all))
}

func c07GenRtsp(g *G, avc, hv c07Params) {
	r := g.rng
	emit := func(prefix string, c c07RtspCase) {
		lab, op := c07RtspOp(r, c, avc, hv)
		g.L(prefix + lab).run(op)
	}
	// ---- corpus
	// S11: AAC at 44.1 kHz (and the other rates of the property) long enough for drift to exceed the tolerance
	long := g.scale(1000, 10000)
	for _, rate := range []int{8000, 11025, 16000, 22050, 32000, 44100, 48000, 96000} {
		emit("corpus-drift-", c07RtspCase{video: "avc", audio: "aac", aRate: rate, nVideo: long*1024/rate*25/1 + 2, nAudio: long, max: 40, sprop: true, seqA: 65000, tsA: 12345, tsV: 900000})
	}
	emit("corpus-drift-", c07RtspCase{audio: "aac", aRate: 44100, nAudio: long, tsA: 777})
	emit("corpus-drift-", c07RtspCase{audio: "aac", aRate: 11025, nAudio: 300, ausPerPkt: 3, tsA: 5})
	// sequence-number wrap on both tracks, timestamps near the top of the 32-bit range (no wrap)
	emit("corpus-wrap-", c07RtspCase{video: "avc", audio: "aac", aRate: 48000, nVideo: 30, nAudio: 60, max: 30, agg: true, inband: true, seqV: 65530, seqA: 65534, tsV: 4294000000, tsA: 4294000000})
	for _, v := range []string{"avc", "hevc"} {
		for _, a := range []string{"aac", "pcma", "pcmu", "opus", ""} {
			rate := map[string]int{"aac": 44100, "pcma": 8000, "pcmu": 8000, "opus": 48000, "": 0}[a]
			emit("corpus-", c07RtspCase{video: v, audio: a, aRate: rate, nVideo: 12, nAudio: 20, max: 24, agg: true, inband: true, sprop: true, seqV: 1, seqA: 1})
			emit("corpus-", c07RtspCase{video: v, audio: a, aRate: rate, nVideo: 12, nAudio: 20, max: 24, agg: false, inband: true, sprop: false, seqV: 1, seqA: 1, reorder: true})
			emit("corpus-lalpacker-", c07RtspCase{video: v, audio: a, aRate: rate, nVideo: 8, nAudio: 12, max: 24, inband: true, sprop: true, lalPacker: true})
		}
	}
	// G.711 announced by the static payload type alone (RFC 3551): no rtpmap line, 8000 Hz all the same
	for _, a := range []string{"pcma", "pcmu"} {
		emit("corpus-static-pt-", c07RtspCase{video: "avc", audio: a, aRate: 8000, nVideo: 12, nAudio: 20, max: 24, inband: true, sprop: true, seqV: 1, seqA: 1, noRtpmap: true})
		emit("corpus-static-pt-", c07RtspCase{audio: a, aRate: 8000, nAudio: 30, seqA: 7, noRtpmap: true})
	}
	for _, a := range []string{"aac", "pcma", "opus"} {
		rate := map[string]int{"aac": 22050, "pcma": 8000, "opus": 48000}[a]
		emit("corpus-", c07RtspCase{audio: a, aRate: rate, nAudio: 30, seqA: 65533, reorder: true})
	}
	// ---- random
	for i := 0; i < g.scale(120, 3000); i++ {
		c := c07RtspCase{
			video: []string{"avc", "avc", "hevc", ""}[r.Intn(4)],
			audio: []string{"aac", "aac", "aac", "pcma", "pcmu", "opus", ""}[r.Intn(7)],
			max:   r.Pick(12, 24, 24, 60, 200), agg: r.Bool(), inband: r.Intn(4) != 0, sprop: r.Bool(),
			seqV: uint16(r.Pick(0, 1, 65530, 65535, r.Intn(65536))), seqA: uint16(r.Pick(0, 65534, r.Intn(65536))),
			tsV: uint32(r.Intn(1 << 30)), tsA: uint32(r.Intn(1 << 30)),
			nVideo: 1 + r.Intn(25), nAudio: 1 + r.Intn(50), reorder: r.Intn(3) == 0, lalPacker: r.Intn(6) == 0,
			ausPerPkt: r.Pick(1, 1, 1, 2, 4),
		}
		if c.video == "" && c.audio == "" {
			c.video = "avc"
		}
		switch c.audio {
		case "aac":
			c.aRate = c07AacRates[r.Intn(len(c07AacRates))]
		case "pcma", "pcmu":
			c.aRate = 8000
			c.noRtpmap = r.Intn(4) == 0
		case "opus":
			c.aRate = 48000
		}
		emit("rand-", c)
	}
}

func c07GenPs(g *G, avc, hv c07Params) {
	r := g.rng
	gen := func(label string, hevc bool, audio string, o c07PsOpt, n int, order bool, body bool, seq0 uint16, inband bool) {
		ps := avc
		o.vType = 0x1b
		if hevc {
			ps = hv
			o.vType = 0x24
		}
		ts0 := uint32(r.Intn(1 << 20))
		if o.zeroTs {
			ts0 = 0
		}
		vf := c07Video(r, ps, n, ts0, 3600, 40, inband, 1+r.Intn(4))
		var frames []c07Frame
		o.aType = -1
		var af []c07Frame
		switch audio {
		case "pcma":
			o.aType = 0x90
			af = c07Audio(r, 2*n, vf[0].ts, 1800, 8, 8)
		case "pcmu":
			o.aType = 0x91
			af = c07Audio(r, 2*n, vf[0].ts, 1800, 8, 8)
		case "aac":
			o.aType = 0x0f
			af = c07Audio(r, 2*n, vf[0].ts, 2090, 6, 14)
			for i := range af {
				af[i].data = c07Adts(44100, 2, af[i].data)
			}
		}
		// audio frames after the video frame of the same period
		ai := 0
		for _, f := range vf {
			frames = append(frames, f)
			for ai < len(af) && af[ai].ts <= f.ts+1800 {
				frames = append(frames, af[ai])
				ai++
			}
		}
		units := c07PsFrames(r, o, hevc, frames)
		raws, bodies := c07PsRtp(r, o, units, seq0)
		if body {
			parts := make([]string, len(bodies))
			for i, b := range bodies {
				parts[i] = b[0] + ":" + b[1]
			}
			g.L(label).run("ps.ingest body " + strings.Join(parts, ","))
			return
		}
		if order {
			idx := c12Order(r, len(raws), 1+r.Intn(4), r.Pick(0, 10, 25), false)
			perm := make([][]byte, len(idx))
			for i, k := range idx {
				perm[i] = raws[k]
			}
			raws = perm
		}
		g.L(label).run("ps.ingest rtp " + hxList(raws))
	}
	// ---- corpus
	base := c07PsOpt{maxPes: 1 << 16, psmEvery: true}
	gen("corpus-avc", false, "", base, 6, false, false, 0, true)
	gen("corpus-hevc", true, "", base, 6, false, false, 0, true)
	gen("corpus-avc-pcma", false, "pcma", base, 6, false, false, 65533, true)
	gen("corpus-avc-aac", false, "aac", base, 6, false, false, 0, true)
	gen("corpus-body", false, "pcma", base, 6, false, true, 0, true)
	{
		o := base
		o.startCode3 = true
		gen("corpus-startcode3-mixed", false, "", o, 6, false, false, 0, true)
		o.allStartCode3 = true
		gen("corpus-startcode3-all", false, "pcma", o, 6, false, false, 0, true)
		gen("corpus-startcode3-all", true, "", o, 6, false, false, 0, true)
	}
	{
		o := base
		o.maxPes = 16
		o.stuffing = true
		gen("corpus-pes-split", false, "", o, 5, false, false, 0, true)
		o.ptsAll = true
		gen("corpus-pes-split-ptsall", false, "pcma", o, 5, false, false, 0, true)
		o.withDts = true
		gen("corpus-dts", true, "", o, 5, false, false, 0, true)
	}
	{
		o := base
		o.noPts = true
		gen("corpus-nopts", false, "", o, 6, false, false, 0, true)
		{
			oz := base
			oz.zeroTs = true
			gen("corpus-pts-zero", false, "", oz, 5, false, false, 0, true)
			gen("corpus-pts-zero", true, "", oz, 5, false, true, 0, true)
			gen("corpus-pts-zero", false, "pcma", oz, 5, false, false, 0, true)
			gen("corpus-pts-zero", false, "aac", oz, 5, false, true, 0, true)
		}
		gen("corpus-nopts", false, "pcmu", o, 6, false, false, 0, true)
	}
	{
		o := base
		o.unitsPerRtp = 30
		o.maxPes = 50
		gen("corpus-rtp-cut", false, "pcma", o, 6, false, false, 0, true)
		gen("corpus-rtp-cut-reorder", false, "pcma", o, 6, true, false, 65530, true)
		o.private, o.packEnd = true, true
		gen("corpus-private", false, "", o, 8, false, false, 0, true)
	}
	{
		// an audio frame split over PES packets of which only the first has a PTS
		o := base
		o.maxPes = 3
		gen("corpus-audio-pes-split", false, "pcma", o, 5, false, false, 0, true)
		gen("corpus-audio-pes-split", false, "aac", o, 5, false, false, 0, true)
	}
	{
		// pack header stuffing bytes cut by the RTP boundary
		o := base
		o.stuffing = true
		o.unitsPerRtp = 15
		o.maxPes = 40
		for k := 0; k < 4; k++ {
			gen("corpus-pack-stuffing-cut", false, "pcma", o, 6, false, k%2 == 1, 0, true)
		}
	}
	gen("corpus-no-inband", false, "", base, 4, false, false, 0, false) // never starts: waits for a parameter set
	// ---- random
	for i := 0; i < g.scale(150, 4000); i++ {
		o := c07PsOpt{
			psmEvery: r.Bool(), ptsAll: r.Bool(), zeroTs: r.Intn(6) == 0, noPts: r.Intn(8) == 0, withDts: r.Intn(4) == 0,
			maxPes: r.Pick(1<<16, 1<<16, 64, 24, 9), stuffing: r.Bool(), startCode3: r.Intn(3) == 0, allStartCode3: r.Intn(8) == 0,
			packEnd: r.Intn(4) == 0, private: r.Intn(4) == 0, unitsPerRtp: r.Pick(0, 0, 20, 60, 1400),
		}
		audio := []string{"", "pcma", "pcmu", "aac"}[r.Intn(4)]
		hevc := r.Intn(3) == 0
		lab := "rand-avc"
		if hevc {
			lab = "rand-hevc"
		}
		if audio != "" {
			lab += "-" + audio
		}
		if o.unitsPerRtp > 0 {
			lab += "-cut"
		}
		reorder := r.Intn(4) == 0
		if reorder {
			lab += "-reorder"
		}
		gen(lab, hevc, audio, o, 2+r.Intn(8), reorder, r.Intn(6) == 0, uint16(r.Pick(0, 65534, r.Intn(65536))), r.Intn(5) != 0)
	}
}
