package main

// C05, L1: a real logic.Group with every output enabled (RTMP, HTTP-FLV, HTTP-TS, HLS on an in-memory file-system
// layer, RTSP, FLV and TS recording into a private temp dir, dummy audio), an RTMP publisher session added with
// AddRtmpPubSession, messages pushed through Group.OnReadRtmpAvMsg, subscribers of every kind joining between
// messages. Subscribers are real session objects over recording connections; the RTSP subscriber is a real
// rtsp.ServerCommandSession driven by a minimal RTSP client of the harness (DESCRIBE / SETUP interleaved / PLAY).
//
//   c05.group <cfg> <gopNum> <dummyWaitMs> <events>
//     cfg bits: 1 rtmp, 2 httpflv, 4 hls, 8 httpts, 16 rtsp, 32 record flv, 64 record ts, 128 dummy audio,
//               256 rtsp out_wait_key_frame_flag
//     events  : t:ts:hex (message) | Jr | Jf | Jt | Js (a subscriber of that kind joins)  joined by ","
//   => ok|panic@i stat=<audio>/<video>/<w>/<h> hls=<fragments opened>/<bytes> rec=<flv bytes>/<ts bytes>
//      then one item per subscriber in join order: r<writes> f<writes> t<writes> s<rtp bytes>

import (
	"bytes"
	"fmt"
	"io/ioutil"
	"net"
	"os"
	"path/filepath"
	"runtime/debug"
	"strconv"
	"strings"
	"sync"
	"time"

	"github.com/q191201771/lal/pkg/base"
	"github.com/q191201771/lal/pkg/hls"
	"github.com/q191201771/lal/pkg/httpflv"
	"github.com/q191201771/lal/pkg/httpts"
	"github.com/q191201771/lal/pkg/logic"
	"github.com/q191201771/lal/pkg/rtmp"
	"github.com/q191201771/lal/pkg/rtsp"
	"github.com/q191201771/naza/pkg/filesystemlayer"
)

// c05Protect is protect() that prints the panic value and stack when C05_DEBUG is set.
func c05Protect(f func() string) (out string) {
	defer func() {
		if r := recover(); r != nil {
			out = "panic"
			if os.Getenv("C05_DEBUG") != "" {
				fmt.Fprintf(os.Stderr, "PANIC %v\n%s\n", r, debug.Stack())
			}
		}
	}()
	return f()
}

type c05GroupObs struct{}

func (c05GroupObs) CleanupHlsIfNeeded(appName string, streamName string, path string) {}
func (c05GroupObs) OnHlsMakeTs(info base.HlsMakeTsInfo)                               {}
func (c05GroupObs) OnRelayPullStart(info base.PullStartInfo)                          {}
func (c05GroupObs) OnRelayPullStop(info base.PullStopInfo)                            {}

// c05Fsl counts fragment files created and bytes written to them.
type c05Fsl struct {
	*filesystemlayer.FslMemory
	mu      sync.Mutex
	creates int
	bytes   int
}

type c05File struct {
	filesystemlayer.IFile
	f *c05Fsl
}

func (f *c05File) Write(b []byte) (int, error) {
	f.f.mu.Lock()
	f.f.bytes += len(b)
	f.f.mu.Unlock()
	return f.IFile.Write(b)
}

func (f *c05Fsl) Create(name string) (filesystemlayer.IFile, error) {
	fp, err := f.FslMemory.Create(name)
	if err != nil {
		return fp, err
	}
	if strings.HasSuffix(name, ".ts") {
		f.mu.Lock()
		f.creates++
		f.mu.Unlock()
		return &c05File{IFile: fp, f: f}, nil
	}
	return fp, nil
}

// ---- minimal RTSP client over a net.Pipe

type c05RtspSub struct {
	g        *logic.Group
	cli      net.Conn
	mu       sync.Mutex
	buf      []byte
	sub      *rtsp.SubSession
	descCh   chan struct{}
	playing  bool
	describe bool // DESCRIBE response consumed
	hadSdp   bool // the group already had an SDP at DESCRIBE time
	cseq     int
}

func (s *c05RtspSub) OnNewRtspPubSession(session *rtsp.PubSession) error { return base.ErrRtsp }
func (s *c05RtspSub) OnNewRtspSubSessionDescribe(session *rtsp.SubSession) (bool, []byte) {
	s.sub = session
	ok, sdp := s.g.HandleNewRtspSubSessionDescribe(session)
	s.hadSdp = sdp != nil
	close(s.descCh)
	return ok, sdp
}
func (s *c05RtspSub) OnNewRtspSubSessionPlay(session *rtsp.SubSession) error {
	s.g.HandleNewRtspSubSessionPlay(session)
	return nil
}

func (s *c05RtspSub) readLoop() {
	b := make([]byte, 65536)
	for {
		n, err := s.cli.Read(b)
		if n > 0 {
			s.mu.Lock()
			if !s.playing || len(s.buf) < 1<<16 { // after PLAY the interleaved data is only drained
				s.buf = append(s.buf, b[:n]...)
			}
			s.mu.Unlock()
		}
		if err != nil {
			return
		}
	}
}

// response waits for one complete RTSP response (headers + Content-Length body) and returns its body.
func (s *c05RtspSub) response() (string, bool) {
	deadline := time.Now().Add(5 * time.Second)
	for time.Now().Before(deadline) {
		s.mu.Lock()
		i := bytes.Index(s.buf, []byte("\r\n\r\n"))
		if i >= 0 {
			head := string(s.buf[:i])
			cl := 0
			for _, l := range strings.Split(head, "\r\n") {
				if k := strings.Index(l, ":"); k > 0 && strings.EqualFold(strings.TrimSpace(l[:k]), "Content-Length") {
					cl, _ = strconv.Atoi(strings.TrimSpace(l[k+1:]))
				}
			}
			if len(s.buf) >= i+4+cl {
				body := string(s.buf[i+4 : i+4+cl])
				s.buf = append([]byte(nil), s.buf[i+4+cl:]...)
				s.mu.Unlock()
				return body, true
			}
		}
		s.mu.Unlock()
		time.Sleep(200 * time.Microsecond)
	}
	return "", false
}

func (s *c05RtspSub) request(method, uri, extra string) {
	s.cseq++
	_, _ = s.cli.Write([]byte(fmt.Sprintf("%s %s RTSP/1.0\r\nCSeq: %d\r\n%s\r\n", method, uri, s.cseq, extra)))
}

// progress is called after every event: once the server has an SDP for this subscriber it finishes SETUP and PLAY.
func (s *c05RtspSub) progress() {
	if s.playing || s.sub == nil {
		return
	}
	if !s.describe {
		if s.sub.Stage.Load() != int32(rtsp.SubSessionStageWriteSdp) {
			return
		}
		sdp, ok := s.response()
		if !ok {
			return
		}
		s.describe = true
		ch := 0
		for _, l := range strings.Split(sdp, "\r\n") {
			if strings.HasPrefix(l, "a=control:") {
				s.request("SETUP", "rtsp://127.0.0.1/live/c05/"+strings.TrimPrefix(l, "a=control:"), fmt.Sprintf("Transport: RTP/AVP/TCP;unicast;interleaved=%d-%d\r\n", ch, ch+1))
				if _, ok := s.response(); !ok {
					return
				}
				ch += 2
			}
		}
		s.request("PLAY", "rtsp://127.0.0.1/live/c05", "")
		if _, ok := s.response(); ok {
			s.mu.Lock()
			s.playing = true
			s.mu.Unlock()
		}
	}
}

type c05Sub struct {
	kind byte
	conn *recConn
	rs   *rtmp.ServerSession
	fs   *httpflv.SubSession
	ts   *httpts.SubSession
	rtsp *c05RtspSub
	base int // writes on the connection at join time (HTTP response header, FLV header)
}

var c05GroupMu sync.Mutex

func c05RunGroup(cfgBits, gopNum, dummyWait int, events []string) string {
	c05GroupMu.Lock()
	defer c05GroupMu.Unlock()
	dir, err := ioutil.TempDir("", "c05-")
	if err != nil {
		panic(err)
	}
	defer os.RemoveAll(dir)
	fsl := &c05Fsl{FslMemory: filesystemlayer.NewFslMemory()}
	old := hls.VerifSetFsl(fsl)
	defer hls.VerifSetFsl(old)
	httpflv.SubSessionWriteChanSize = 0
	httpts.SubSessionWriteChanSize = 0

	var cfg logic.Config
	on := func(b int) bool { return cfgBits&b != 0 }
	cfg.RtmpConfig.Enable = on(1)
	cfg.RtmpConfig.GopNum = gopNum
	cfg.HttpflvConfig.Enable = on(2)
	cfg.HttpflvConfig.GopNum = gopNum
	cfg.HlsConfig.Enable = on(4)
	cfg.HlsConfig.OutPath = "/c05hls/"
	cfg.HlsConfig.FragmentDurationMs = 3000
	cfg.HlsConfig.FragmentNum = 6
	cfg.HlsConfig.DeleteThreshold = 6
	cfg.HlsConfig.CleanupMode = hls.CleanupModeInTheEnd
	cfg.HttptsConfig.Enable = on(8)
	cfg.HttptsConfig.GopNum = gopNum
	cfg.RtspConfig.Enable = on(16)
	cfg.RtspConfig.OutWaitKeyFrameFlag = on(256)
	cfg.RecordConfig.EnableFlv = on(32)
	cfg.RecordConfig.FlvOutPath = dir
	cfg.RecordConfig.EnableMpegts = on(64)
	cfg.RecordConfig.MpegtsOutPath = dir
	cfg.InSessionConfig.AddDummyAudioEnable = on(128)
	cfg.InSessionConfig.AddDummyAudioWaitAudioMs = dummyWait

	g := logic.NewGroup("live", "c05", &cfg, logic.GroupOption{}, c05GroupObs{})
	pubConn := newRecConn()
	pub := rtmp.NewServerSession(nil, pubConn)
	if err := g.AddRtmpPubSession(pub); err != nil {
		panic(err)
	}

	var subs []*c05Sub
	var urlCtx base.UrlContext
	urlCtx.Url = "http://127.0.0.1/live/c05"
	urlCtx.LastItemOfPath = "c05"
	urlCtx.PathWithoutLastItem = "live"

	outcome := "ok"
	for i, ev := range events {
		bad := c05Protect(func() string {
			if ev[0] == 'J' {
				s := &c05Sub{kind: ev[1], conn: newRecConn()}
				switch ev[1] {
				case 'r':
					s.rs = rtmp.NewServerSession(nil, s.conn)
					g.AddRtmpSubSession(s.rs)
				case 'f':
					s.fs = httpflv.NewSubSession(s.conn, urlCtx, false, "")
					g.AddHttpflvSubSession(s.fs)
					s.base = len(s.conn.take())
				case 't':
					s.ts = httpts.NewSubSession(s.conn, urlCtx, false, "")
					g.AddHttptsSubSession(s.ts)
					s.base = len(s.conn.take())
				case 's':
					srv, cli := net.Pipe()
					rs := &c05RtspSub{g: g, cli: cli, descCh: make(chan struct{})}
					s.rtsp = rs
					cmd := rtsp.NewServerCommandSession(rs, srv, rtsp.ServerAuthConfig{}, false, "")
					go cmd.RunLoop()
					go rs.readLoop()
					rs.request("DESCRIBE", "rtsp://127.0.0.1/live/c05", "")
					select {
					case <-rs.descCh:
					case <-time.After(5 * time.Second):
					}
					if rs.hadSdp { // the command session stores the SDP right after the callback returns
						for k := 0; k < 20000 && rs.sub.Stage.Load() != int32(rtsp.SubSessionStageWriteSdp); k++ {
							time.Sleep(100 * time.Microsecond)
						}
					}
					rs.progress()
				}
				subs = append(subs, s)
				return ""
			}
			g.OnReadRtmpAvMsg(c05ParseMsg(ev))
			for _, s := range subs {
				if s.rtsp != nil {
					s.rtsp.progress()
				}
			}
			return ""
		})
		if bad != "" {
			outcome = fmt.Sprintf("panic@%d", i)
			break
		}
	}
	st := g.GetStat(10)
	var items []string
	for _, s := range subs {
		switch s.kind {
		case 'r', 'f', 't':
			items = append(items, fmt.Sprintf("%c%d", s.kind, len(s.conn.take())))
		case 's':
			n := uint64(0)
			if s.rtsp.sub != nil {
				n = s.rtsp.sub.GetStat().WroteBytesSum
			}
			items = append(items, fmt.Sprintf("s%d", n))
		}
	}
	// the publisher leaves: remuxers flush, files are closed
	protect(func() string { g.DelRtmpPubSession(pub); return "" })
	for _, s := range subs {
		if s.rtsp != nil {
			_ = s.rtsp.cli.Close()
		}
		_ = s.conn.Close()
	}
	g.Dispose()
	var flvN, tsN int64
	files, _ := filepath.Glob(filepath.Join(dir, "*"))
	for _, f := range files {
		if fi, err := os.Stat(f); err == nil {
			if strings.HasSuffix(f, ".flv") {
				flvN += fi.Size()
			} else if strings.HasSuffix(f, ".ts") {
				tsN += fi.Size()
			}
		}
	}
	sub := "-"
	if len(items) > 0 {
		sub = strings.Join(items, " ")
	}
	dash := func(s string) string {
		if s == "" {
			return "-"
		}
		return s
	}
	return fmt.Sprintf("%s stat=%s/%s/%d/%d hls=%d/%d rec=%d/%d %s", outcome, dash(st.AudioCodec), dash(st.VideoCodec), st.VideoWidth, st.VideoHeight,
		fsl.creates, fsl.bytes, flvN, tsN, sub)
}

func init() {
	ops["c05.group"] = func(a []string) string {
		// the time a publish takes is bounded by its size: a small scenario gets a small budget (still seconds, i.e. many
		// orders of magnitude above what it needs)
		budget := 60 * time.Second
		if len(a[3]) < 200000 {
			budget = 6 * time.Second
		}
		return c05Deadline(budget, func() string {
			return c05RunGroup(sint(a[0]), sint(a[1]), sint(a[2]), strings.Split(a[3], ","))
		})
	}
}

// c05Interleave inserts subscriber joins of the enabled kinds at random points of a message list.
func c05Interleave(r *Rng, cfg int, ms []base.RtmpMsg) string {
	var kinds []string
	if cfg&1 != 0 {
		kinds = append(kinds, "Jr")
	}
	if cfg&2 != 0 {
		kinds = append(kinds, "Jf")
	}
	if cfg&8 != 0 {
		kinds = append(kinds, "Jt")
	}
	if cfg&16 != 0 {
		kinds = append(kinds, "Js")
	}
	var ev []string
	join := func() {
		if len(kinds) > 0 {
			ev = append(ev, kinds[r.Intn(len(kinds))])
		}
	}
	if r.Intn(3) == 0 {
		join()
	}
	for _, m := range ms {
		ev = append(ev, c05MsgStr(m))
		if r.Intn(5) == 0 {
			join()
		}
	}
	if len(ev) == 0 {
		ev = append(ev, "8:0:-")
	}
	return strings.Join(ev, ",")
}

func c05Group(g *G, lab string, ms []base.RtmpMsg) {
	r := g.rng
	cfg := 0x7f
	if r.Intn(3) == 0 {
		cfg |= 128
	}
	if r.Intn(2) == 0 {
		cfg |= 256
	}
	if r.Intn(4) == 0 {
		cfg = r.Intn(512)
	}
	g.L(lab).run(fmt.Sprintf("c05.group %d %d %d %s", cfg, r.Pick(0, 1, 2), r.Pick(0, 150, 150, 1000), c05Interleave(r, cfg, ms)))
}

func c05GroupCorpus(g *G) {
	r := g.rng
	vsh, _ := safeAvcBuild(c05Sps, c05Pps)
	ash := "8:0:af001210"
	key := func(ts int) string {
		return c05MsgStr(c05Msg(9, uint32(ts), c05Cat([]byte{0x17, 1, 0, 0, 0}, c05Avcc(c05Cat([]byte{0x65}, r.Bytes(30))))))
	}
	inter := func(ts int) string {
		return c05MsgStr(c05Msg(9, uint32(ts), c05Cat([]byte{0x27, 1, 0, 0, 0}, c05Avcc(c05Cat([]byte{0x41}, r.Bytes(30))))))
	}
	aud := func(ts int) string { return c05MsgStr(c05Msg(8, uint32(ts), c05Cat([]byte{0xaf, 1}, r.Bytes(20)))) }
	v := "9:0:" + hx(vsh)
	// every single-output configuration and all together, a short valid stream with joins of every kind
	evs := strings.Join([]string{"Jr", "Jf", "Jt", "Js", v, ash, key(0), aud(0), "Jr", "Jf", "Jt", "Js", inter(40), aud(23), inter(80), key(3200), "Jr", "Jf", "Jt", "Js", aud(3210), inter(3240), key(6500), aud(6510)}, ",")
	for _, cfg := range []int{0x7f, 0xff, 0x17f, 0x1ff, 1, 2, 4, 8, 16, 32, 64, 128, 0} {
		g.L("corpus-config").run(fmt.Sprintf("c05.group %d 1 150 %s", cfg, evs))
	}
	// the payloads that used to take the process down, with every output on
	for _, p := range []string{"9:0:17", "9:0:8f", "9:0:1c", "8:0:af", "9:0:27", "9:0:9068766331", "9:0:906876633100", "9:0:916876633100", "9:0:91687663310000",
		"9:0:1c000000", "8:0:-", "9:0:-", "18:0:-", "18:0:02", "9:0:170000000001"} {
		g.L("corpus-short").run(fmt.Sprintf("c05.group 127 1 150 Jr,Jf,Jt,Js,%s,%s,%s,%s,%s", ash, p, v, key(0), p))
		g.L("corpus-short").run(fmt.Sprintf("c05.group 255 1 0 Jr,Jf,%s,%s,%s", p, key(0), key(40)))
	}
	// a waiting RTSP subscriber with out_wait_key_frame_flag and short audio / video RTP bodies that look like
	// STAP-A (24), FU-A (28) or HEVC FU (49) headers
	for _, a := range []string{"8:10:721801", "8:10:7218", "8:10:721c85", "8:10:7265", "8:10:82620185", "9:10:27010000000000000118", "9:10:2701000000000000011c", "9:10:270100000000000002181c"} {
		g.L("corpus-rtsp-boundary").run(fmt.Sprintf("c05.group 383 1 150 %s,8:0:72aabbcc,Js,%s,%s,%s", v, a, inter(40), key(80)))
		g.L("corpus-rtsp-boundary").run(fmt.Sprintf("c05.group 127 1 150 %s,8:0:72aabbcc,Js,%s,%s,%s", v, a, inter(40), key(80)))
	}
	// exp-Golomb code word `1` as the last bit of the SPS (nazabits), with every output on
	g.L("corpus-sps-ue-end").run("c05.group 127 1 150 Jr,Js,9:0:17000000000142001effe100056742001eff01000468ce3c80,8:0:af001210," + key(0))
	// S7 with every output on: one message 2*10^7 ms ahead, and the uint32 wrap
	for _, ts := range []int{20000000, 0xffffffff, 0x80000000} {
		g.L("corpus-dummy-jump").run(fmt.Sprintf("c05.group 255 1 150 Jr,%s,%s,%s,%s,%s", v, key(0), inter(200), inter(ts), inter(ts+40)))
	}
}
