package main

import (
	"bytes"
	"fmt"
	"strconv"
	"strings"

	"github.com/q191201771/lal/pkg/base"
	"github.com/q191201771/lal/pkg/rtmp"
)

// C17, L0 part: rtmp.Buffer (the message packer's buffer) and the three command writers that carry
// caller-supplied strings (connect: app + tcUrl, play: stream name + URL parameters, publish: the same).
// Needs the hook pkg/rtmp/verif_packer.go (the writers and the buffer geometry are unexported).

func c17Atoi(s string) int {
	v, err := strconv.Atoi(s)
	if err != nil {
		panic("c17: bad int " + s)
	}
	return v
}

// c17Str is the deterministic string "len.seed" stands for (the Lean driver builds the same bytes).
func c17Str(spec string) string {
	f := strings.SplitN(spec, ".", 2)
	n, seed := c17Atoi(f[0]), c17Atoi(f[1])
	b := make([]byte, n)
	for i := range b {
		b[i] = byte('a' + (i*7+seed)%26)
	}
	return string(b)
}

// c17Pat is the payload of the k-th buffer write of n bytes.
func c17Pat(k, n int) []byte {
	b := make([]byte, n)
	for i := range b {
		b[i] = byte((k*31 + i) % 251)
	}
	return b
}

func c17Geom(b *rtmp.Buffer) string {
	c, r, w := b.VerifGeometry()
	return fmt.Sprintf("%d %d %d", c, r, w)
}

// pkb.grow <cap> <wpos> <n>
func c17OpGrow(a []string) string {
	b := rtmp.NewBuffer(c17Atoi(a[0]))
	b.ModWritePos(c17Atoi(a[1]))
	c, r, w := b.VerifGrow(c17Atoi(a[2]))
	return fmt.Sprintf("%d %d %d", c, r, w)
}

// pkb.seq <cap> <op,op,...>   ops: w<n> Write of n pattern bytes, b WriteByte, m<p> ModWritePos, r Reset
func c17OpBufSeq(a []string) string {
	b := rtmp.NewBuffer(c17Atoi(a[0]))
	k := 0
	for _, op := range strings.Split(a[1], ",") {
		switch op[0] {
		case 'w':
			k++
			_, _ = b.Write(c17Pat(k, c17Atoi(op[1:])))
		case 'b':
			k++
			_ = b.WriteByte(byte(k))
		case 'm':
			b.ModWritePos(c17Atoi(op[1:]))
		case 'r':
			b.Reset()
		}
	}
	return c17Geom(b) + " " + hx(b.Bytes())
}

// pk.seq <item;item;...> on ONE packer (its buffer keeps its capacity from item to item)
//
//	c:<app>:<tcUrl>:<isPush>   P:<app>:<stream>:<sid>   l:<stream>:<sid>     strings as len.seed
func c17OpPackSeq(a []string) string {
	p := rtmp.NewMessagePacker()
	var outs []string
	for _, it := range strings.Split(a[0], ";") {
		f := strings.Split(it, ":")
		var w bytes.Buffer
		var err error
		switch f[0] {
		case "c":
			err = p.VerifWriteConnect(&w, c17Str(f[1]), c17Str(f[2]), f[3] == "1")
		case "P":
			err = p.VerifWritePublish(&w, c17Str(f[1]), c17Str(f[2]), c17Atoi(f[3]))
		case "l":
			err = p.VerifWritePlay(&w, c17Str(f[1]), c17Atoi(f[2]))
		}
		if err != nil {
			outs = append(outs, "err")
		} else {
			outs = append(outs, hx(w.Bytes()))
		}
	}
	c, _, _ := p.VerifBuffer().VerifGeometry()
	return strings.Join(outs, "|") + fmt.Sprintf("|cap=%d", c)
}

func init() {
	ops["pkb.grow"] = c17OpGrow
	ops["pkb.seq"] = c17OpBufSeq
	ops["pk.seq"] = c17OpPackSeq
	extractors["C17"] = func(repo string) (string, error) {
		var sb strings.Builder
		c, _, _ := rtmp.NewMessagePacker().VerifBuffer().VerifGeometry()
		leanNat(&sb, "packerInitCap", "rtmp.NewMessagePacker: NewBuffer(n)", int64(c))
		leanBytes(&sb, "flashVerPush", "message_packer.go writeConnect, isPush", []byte(fmt.Sprintf("FMLE/3.0 (compatible; %s)", base.LalRtmpPushSessionConnectVersion)))
		// what the packer writes for connect/play/publish around the caller's strings is read off the
		// implementation itself (empty strings), so that the model states its theorems over the real constants
		retry, auto := c17StaticDefaults()
		fmt.Fprintf(&sb, "/-- logic.staticRelayPullRetryNum -/\ndef staticRelayPullRetryNum : Int := %d\n\n", retry)
		fmt.Fprintf(&sb, "/-- logic.staticRelayPullAutoStopPullAfterNoOutMs -/\ndef staticRelayPullAutoStopMs : Int := %d\n\n", auto)
		fmt.Fprintf(&sb, "/-- base.PullRetryNumForever -/\ndef pullRetryNumForever : Int := %d\n\n", base.PullRetryNumForever)
		fmt.Fprintf(&sb, "/-- base.PullRetryNumNever -/\ndef pullRetryNumNever : Int := %d\n\n", base.PullRetryNumNever)
		fmt.Fprintf(&sb, "/-- base.AutoStopPullAfterNoOutMsNever -/\ndef autoStopNever : Int := %d\n\n", base.AutoStopPullAfterNoOutMsNever)
		fmt.Fprintf(&sb, "/-- base.AutoStopPullAfterNoOutMsImmediately -/\ndef autoStopImmediately : Int := %d\n\n", base.AutoStopPullAfterNoOutMsImmediately)
		return sb.String(), nil
	}
}

func genC17Pack(g *G) {
	r := g.rng
	// boundary corpus — grow: the S20 witness first (cap 256, write position 25, 712 more bytes needed: one doubling gives 512 < 737)
	g.L("corpus-S20").run("pkb.grow 256 25 712")
	for _, c := range []int{0, 1, 128, 256, 512} {
		for _, w := range []int{0, 12, 255, 256} {
			if w > c {
				continue
			}
			for _, n := range []int{0, 1, c - w, c - w + 1, 2*c - w, 2*c - w + 1, 4 * c, 100000} {
				if n < 0 {
					continue
				}
				g.L("corpus-grow").run(fmt.Sprintf("pkb.grow %d %d %d", c, w, n))
			}
		}
	}
	g.L("corpus-seq").run("pkb.seq 256 m12,w13,w700,b,w3")
	g.L("corpus-seq").run("pkb.seq 0 b,w127,b,w1000")
	g.L("corpus-seq").run("pkb.seq 16 m12,w4,b,w40,r,m12,w100")
	// the S20 witness through the real writer: publish with a 700-byte stream name + URL parameters on a
	// packer that has written connect before (capacity 512 at that point)
	g.L("corpus-S20").run("pk.seq c:4.1:30.2:1;P:4.1:700.3:1")
	g.L("corpus-S20").run("pk.seq P:4.1:700.3:1")
	for _, n := range []int{0, 1, 200, 215, 216, 217, 218, 240, 470, 471, 472, 473, 474, 510, 511, 512, 513, 1020, 1024, 1030, 2040, 2048, 2060, 4000, 4050, 4060, 4070, 4080, 4090, 4096, 4100, 8192, 65535, 65536, 70000} {
		g.L("corpus-len").run(fmt.Sprintf("pk.seq l:%d.%d:1", n, n%7))
		g.L("corpus-len").run(fmt.Sprintf("pk.seq P:3.0:%d.%d:1", n, n%5))
		if n <= 8192 {
			g.L("corpus-len").run(fmt.Sprintf("pk.seq c:%d.1:%d.2:%d", n/3, n, n%2))
		}
	}
	// every body length around the multiples of the chunk size (the packer chunks its own signalling messages): the stream
	// name makes the publish body sweep 4096 and 8192, the tcUrl the connect body
	for _, base := range []int{4096, 8192, 12288} {
		for d := -70; d <= 10; d++ {
			g.L("corpus-chunk-multiple").run(fmt.Sprintf("pk.seq P:3.0:%d.0:1", base+d))
			if d%3 == 0 {
				g.L("corpus-chunk-multiple").run(fmt.Sprintf("pk.seq c:4.1:%d.2:0", base+d-120))
			}
		}
	}
	for i := 0; i < g.scale(60, 1500); i++ {
		g.L("grow-random").run(fmt.Sprintf("pkb.grow %d %d %d", r.Pick(0, 1, 7, 128, 256, 300), 0, r.Pick(r.Intn(3000), r.Around(128, 256, 512, 1024))))
		var ops []string
		for j := 0; j < 1+r.Intn(8); j++ {
			switch r.Intn(6) {
			case 0:
				ops = append(ops, "b")
			case 1:
				ops = append(ops, "m12")
			case 2:
				ops = append(ops, "r")
			default:
				ops = append(ops, fmt.Sprintf("w%d", r.Pick(r.Intn(40), r.Around(116, 244, 500, 1012), r.Intn(3000))))
			}
		}
		g.L("seq-random").run(fmt.Sprintf("pkb.seq %d %s", r.Pick(0, 16, 128, 256), strings.Join(ops, ",")))
		var items []string
		for j := 0; j < 1+r.Intn(4); j++ {
			ln := r.Pick(r.Intn(100), r.Around(216, 472, 984, 2008, 4060, 4096), r.Intn(6000))
			switch r.Intn(3) {
			case 0:
				items = append(items, fmt.Sprintf("c:%d.%d:%d.%d:%d", r.Intn(40), r.Intn(26), ln, r.Intn(26), r.Intn(2)))
			case 1:
				items = append(items, fmt.Sprintf("P:%d.%d:%d.%d:%d", r.Intn(40), r.Intn(26), ln, r.Intn(26), 1+r.Intn(3)))
			default:
				items = append(items, fmt.Sprintf("l:%d.%d:%d", ln, r.Intn(26), 1+r.Intn(3)))
			}
		}
		g.L("pack-random").run("pk.seq " + strings.Join(items, ";"))
	}
}
