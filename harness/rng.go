package main

// Rng is a self-contained xorshift64* generator so that a seed replays
// identically whatever Go version builds the harness.
type Rng struct{ s uint64 }

func NewRng(seed uint64) *Rng {
	r := &Rng{s: seed*0x9E3779B97F4A7C15 + 0x1234567}
	if r.s == 0 {
		r.s = 1
	}
	for i := 0; i < 4; i++ {
		r.U64()
	}
	return r
}

func (r *Rng) U64() uint64 {
	r.s ^= r.s >> 12
	r.s ^= r.s << 25
	r.s ^= r.s >> 27
	return r.s * 0x2545F4914F6CDD1D
}

func (r *Rng) Intn(n int) int {
	if n <= 0 {
		return 0
	}
	return int(r.U64() % uint64(n))
}

func (r *Rng) Bool() bool { return r.U64()&1 == 1 }

func (r *Rng) Bytes(n int) []byte {
	b := make([]byte, n)
	for i := 0; i < n; i += 8 {
		v := r.U64()
		for j := 0; j < 8 && i+j < n; j++ {
			b[i+j] = byte(v >> (8 * j))
		}
	}
	return b
}

// Pick returns one of the given values.
func (r *Rng) Pick(vs ...int) int { return vs[r.Intn(len(vs))] }

// Around returns a value near one of the given boundaries (±2), never negative.
func (r *Rng) Around(bounds ...int) int {
	v := bounds[r.Intn(len(bounds))] + r.Intn(5) - 2
	if v < 0 {
		v = 0
	}
	return v
}
