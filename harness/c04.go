package main

// C04 — no byte sequence from an RTMP peer terminates the server (implementation side, level L0).
//
// op:  rtmp.sess <env> <frag> <stream>  =>  <final> h=<s|c|-> e=<events> s=<sync replies> a=<async replies|~>   |  panic
//
//	env     <pub>.<sub>.<wfail>   pub: a = observer accepts the publisher and registers the A/V observer (what
//	                              logic.ServerManager does), d = observer refuses (returns an error),
//	                              n = observer accepts without registering an A/V observer;
//	                              sub: a | d;  wfail: '-' or the index (0 = S0S1S2) of the first conn.Write that
//	                              fails (only while the connection writes synchronously)
//	frag    0 = the whole stream is available to one Read; k>0 = k bytes per Read; r<seed> = random sizes
//	stream  the peer's bytes, segments joined by ',':  x<hex> | z<n> (n zero bytes) | r<n>x<hh> (n bytes hh)
//
//	final   alive  = the session was still reading when the peer's bytes ran out (RunLoop ended by the EOF of
//	                 the harness connection), closed = RunLoop returned an error before that
//	h       handshake reply written: s = simple mode (S1[4:8] == 0), c = complex mode, - = none
//	events  observer callbacks in order: C OnRtmpConnect, P OnNewRtmpPubSession, S OnNewRtmpSubSession,
//	        A<typ>:<len> OnReadRtmpAvMsg;  a run of n equal events prints once with *n
//	replies every conn.Write after the handshake as <message type id>:<bytes written> (q:<bytes> when queued); replies written through the
//	        asynchronous write queue (after publish/play succeeded) are compared only when the session is alive at
//	        the end (the harness flushes the queue before it reports EOF); a connection closed by an error may drop
//	        what is still queued (naza connection semantics), printed as ~
//
// A real rtmp.NewServerSession(observer, conn) runs its RunLoop on the op's goroutine under recover().

import (
	"bytes"
	"crypto/hmac"
	"crypto/sha256"
	"errors"
	"fmt"
	"io"
	"net"
	"os"
	"strings"
	"sync"
	"time"

	"github.com/q191201771/lal/pkg/base"
	"github.com/q191201771/lal/pkg/rtmp"
)

// ---- stream text syntax --------------------------------------------------------------------------------------

func c04ParseStream(s string) []byte {
	if s == "-" {
		return nil
	}
	var out []byte
	for _, seg := range strings.Split(s, ",") {
		switch seg[0] {
		case 'x':
			out = append(out, unhx(seg[1:])...)
		case 'z':
			out = append(out, make([]byte, atoi(seg[1:]))...)
		case 'r':
			i := strings.IndexByte(seg, 'x')
			out = append(out, bytes.Repeat([]byte{unhx(seg[i+1:])[0]}, atoi(seg[1:i]))...)
		default:
			panic("bad stream segment " + seg)
		}
	}
	return out
}

// c04ShowStream prints bytes in the segment syntax, runs of >= 24 equal bytes compressed.
func c04ShowStream(b []byte) string {
	if len(b) == 0 {
		return "-"
	}
	var segs []string
	lit := 0 // start of pending literal
	i := 0
	flush := func(to int) {
		if to > lit {
			segs = append(segs, "x"+hx(b[lit:to]))
		}
	}
	for i < len(b) {
		j := i
		for j < len(b) && b[j] == b[i] {
			j++
		}
		if j-i >= 24 {
			flush(i)
			if b[i] == 0 {
				segs = append(segs, fmt.Sprintf("z%d", j-i))
			} else {
				segs = append(segs, fmt.Sprintf("r%dx%02x", j-i, b[i]))
			}
			lit = j
		}
		i = j
	}
	flush(len(b))
	return strings.Join(segs, ",")
}

// ---- the harness connection ------------------------------------------------------------------------------------

type c04Conn struct {
	mu      sync.Mutex
	in      []byte
	pos     int
	frag    func() int // next fragment size (>= 1)
	onDry   func()     // called once before EOF is reported
	eof     bool       // EOF has been reported to the session
	writes  [][]byte
	async   bool // set by the stub observer when the session switched to the write queue
	nsync   int  // number of writes made before the switch
	failIdx int  // index of the first failing synchronous write, -1 = none
	closed  bool
}

var errC04Write = errors.New("c04: injected write error")

func (c *c04Conn) Read(p []byte) (int, error) {
	if c.pos >= len(c.in) {
		if !c.eof {
			c.eof = true
			if c.onDry != nil {
				c.onDry()
			}
		}
		return 0, io.EOF
	}
	n := c.frag()
	if n > len(p) {
		n = len(p)
	}
	if n > len(c.in)-c.pos {
		n = len(c.in) - c.pos
	}
	copy(p, c.in[c.pos:c.pos+n])
	c.pos += n
	return n, nil
}

func (c *c04Conn) Write(b []byte) (int, error) {
	c.mu.Lock()
	defer c.mu.Unlock()
	if !c.async && c.failIdx >= 0 && len(c.writes) >= c.failIdx {
		return 0, errC04Write
	}
	c.writes = append(c.writes, append([]byte(nil), b...))
	return len(b), nil
}
func (c *c04Conn) Close() error                       { c.mu.Lock(); c.closed = true; c.mu.Unlock(); return nil }
func (c *c04Conn) LocalAddr() net.Addr                { return fakeAddr{} }
func (c *c04Conn) RemoteAddr() net.Addr               { return fakeAddr{} }
func (c *c04Conn) SetDeadline(t time.Time) error      { return nil }
func (c *c04Conn) SetReadDeadline(t time.Time) error  { return nil }
func (c *c04Conn) SetWriteDeadline(t time.Time) error { return nil }

// ---- stub observer ---------------------------------------------------------------------------------------------

type c04Obs struct {
	conn   *c04Conn
	pub    byte // a d n
	sub    byte // a d
	events []string
}

var errC04Deny = errors.New("c04: observer refuses")

func (o *c04Obs) OnRtmpConnect(session *rtmp.ServerSession, opa rtmp.ObjectPairArray) {
	o.events = append(o.events, "C")
}

func (o *c04Obs) markAsync() {
	o.conn.mu.Lock()
	if !o.conn.async {
		o.conn.async = true
		o.conn.nsync = len(o.conn.writes)
	}
	o.conn.mu.Unlock()
}

func (o *c04Obs) OnNewRtmpPubSession(session *rtmp.ServerSession) error {
	o.events = append(o.events, "P")
	o.markAsync()
	switch o.pub {
	case 'd':
		return errC04Deny
	case 'a':
		session.SetPubSessionObserver(o)
	}
	return nil
}

func (o *c04Obs) OnNewRtmpSubSession(session *rtmp.ServerSession) error {
	o.events = append(o.events, "S")
	o.markAsync()
	if o.sub == 'd' {
		return errC04Deny
	}
	return nil
}

func (o *c04Obs) OnReadRtmpAvMsg(msg base.RtmpMsg) {
	o.events = append(o.events, fmt.Sprintf("A%d:%d", msg.Header.MsgTypeId, len(msg.Payload)))
}

func c04Compress(items []string) string {
	if len(items) == 0 {
		return "-"
	}
	var out []string
	for i := 0; i < len(items); {
		j := i
		for j < len(items) && items[j] == items[i] {
			j++
		}
		if j-i > 1 {
			out = append(out, fmt.Sprintf("%s*%d", items[i], j-i))
		} else {
			out = append(out, items[i])
		}
		i = j
	}
	return strings.Join(out, ",")
}

func c04Replies(ws [][]byte, queued bool) string {
	var items []string
	for _, w := range ws {
		if queued && os.Getenv("C04_QTYPES") == "" {
			// a queued write holds a reference to the packer's buffer, which the next reply overwrites before the
			// write goroutine runs: only the length of a queued reply is deterministic
			items = append(items, fmt.Sprintf("q:%d", len(w)))
			continue
		}
		t := -1
		if len(w) >= 8 {
			t = int(w[7])
		}
		items = append(items, fmt.Sprintf("%d:%d", t, len(w)))
	}
	return c04Compress(items)
}

// c04Session runs one real ServerSession over the byte stream.
func c04Session(env, frag string, in []byte) string {
	ef := strings.Split(env, ".")
	conn := &c04Conn{in: in, failIdx: -1}
	if ef[2] != "-" {
		conn.failIdx = atoi(ef[2])
	}
	switch {
	case frag == "0":
		conn.frag = func() int { return 1 << 30 }
	case frag[0] == 'r':
		r := NewRng(uint64(atoi(frag[1:])))
		conn.frag = func() int {
			switch r.Intn(4) {
			case 0:
				return 1
			case 1:
				return 1 + r.Intn(16)
			case 2:
				return 1 + r.Intn(2000)
			}
			return 1 + r.Intn(9000)
		}
	default:
		k := atoi(frag)
		conn.frag = func() int { return k }
	}
	obs := &c04Obs{conn: conn, pub: ef[0][0], sub: ef[1][0]}
	sess := rtmp.NewServerSession(obs, conn)
	conn.onDry = func() { _ = sess.Flush() }
	out := func() (out string) {
		defer func() {
			if rec := recover(); rec != nil {
				out = "panic"
				if os.Getenv("C04_DEBUG") != "" {
					fmt.Fprintf(os.Stderr, "C04 panic: %v\n", rec)
				}
			}
		}()
		_ = sess.RunLoop()
		return ""
	}()
	_ = sess.Dispose()
	if out == "panic" {
		return "panic"
	}
	conn.mu.Lock()
	defer conn.mu.Unlock()
	final := "closed"
	if conn.eof {
		final = "alive"
	}
	h := "-"
	ws := conn.writes
	nsync := len(ws)
	if conn.async {
		nsync = conn.nsync
	}
	if len(ws) > 0 && len(ws[0]) == 3073 {
		if bytes.Equal(ws[0][5:9], []byte{0, 0, 0, 0}) {
			h = "s"
		} else {
			h = "c"
		}
		ws = ws[1:]
		nsync--
	}
	sy := c04Replies(ws[:nsync], false)
	as := "~"
	if final == "alive" || !conn.async {
		as = c04Replies(ws[nsync:], true)
	}
	return fmt.Sprintf("%s h=%s e=%s s=%s a=%s", final, h, c04Compress(obs.events), sy, as)
}

// ---- an independent, minimal RTMP writer for the generator ---------------------------------------------------------

func c04Be(n int, v uint64) []byte {
	b := make([]byte, n)
	for i := n - 1; i >= 0; i-- {
		b[i] = byte(v)
		v >>= 8
	}
	return b
}

func c04Basic(f, csid int) []byte {
	switch {
	case csid <= 63:
		return []byte{byte(f<<6 | csid)}
	case csid <= 319:
		return []byte{byte(f << 6), byte(csid - 64)}
	}
	return []byte{byte(f<<6 | 1), byte((csid - 64) & 0xff), byte((csid - 64) >> 8)}
}

// c04Msg: one message as a type 0 chunk followed by type 3 chunks of at most cs payload bytes.
// mlen is the length announced in the header (normally len(payload)).
func c04MsgL(csid, typ, msid int, ts uint32, payload []byte, cs int, mlen int) []byte {
	var w bytes.Buffer
	hdr := func(f int) {
		w.Write(c04Basic(f, csid))
		if f == 0 {
			t := ts
			if t >= 0xffffff {
				t = 0xffffff
			}
			w.Write(c04Be(3, uint64(t)))
			w.Write(c04Be(3, uint64(mlen)))
			w.WriteByte(byte(typ))
			w.Write([]byte{byte(msid), byte(msid >> 8), byte(msid >> 16), byte(msid >> 24)})
		}
		if ts >= 0xffffff {
			w.Write(c04Be(4, uint64(ts)))
		}
	}
	hdr(0)
	for first := true; first || len(payload) > 0; first = false {
		if !first {
			hdr(3)
		}
		n := len(payload)
		if n > cs {
			n = cs
		}
		w.Write(payload[:n])
		payload = payload[n:]
	}
	return w.Bytes()
}

func c04Msg(csid, typ, msid int, ts uint32, payload []byte, cs int) []byte {
	return c04MsgL(csid, typ, msid, ts, payload, cs, len(payload))
}

func c04AmfStr(s string) []byte {
	return append([]byte{2, byte(len(s) >> 8), byte(len(s))}, s...)
}
func c04AmfNum(bits uint64) []byte { return append([]byte{0}, c04Be(8, bits)...) }
func c04AmfKey(s string) []byte    { return append([]byte{byte(len(s) >> 8), byte(len(s))}, s...) }

const c04One = 0x3ff0000000000000 // float64(1)

func c04AmfObj(kvs ...[]byte) []byte {
	b := []byte{3}
	for _, kv := range kvs {
		b = append(b, kv...)
	}
	return append(b, 0, 0, 9)
}

func c04Cat(bs ...[]byte) []byte {
	var out []byte
	for _, b := range bs {
		out = append(out, b...)
	}
	return out
}

func c04Connect(app string) []byte {
	return c04Cat(c04AmfStr("connect"), c04AmfNum(c04One),
		c04AmfObj(c04Cat(c04AmfKey("app"), c04AmfStr(app)), c04Cat(c04AmfKey("type"), c04AmfStr("nonprivate")),
			c04Cat(c04AmfKey("tcUrl"), c04AmfStr("rtmp://127.0.0.1/"+app)), c04Cat(c04AmfKey("objectEncoding"), c04AmfNum(0))))
}
func c04CreateStream() []byte {
	return c04Cat(c04AmfStr("createStream"), c04AmfNum(0x4000000000000000), []byte{5})
}
func c04Publish(name string) []byte {
	return c04Cat(c04AmfStr("publish"), c04AmfNum(0x4008000000000000), []byte{5}, c04AmfStr(name), c04AmfStr("live"))
}
func c04Play(name string) []byte {
	return c04Cat(c04AmfStr("play"), c04AmfNum(0x4008000000000000), []byte{5}, c04AmfStr(name))
}

// c04Handshake: C0+C1+C2 of a simple handshake (version field 0), or of a complex one (valid digest at the
// scheme-1 or scheme-0 position, computed here with crypto/hmac — independent of lal's code).
func c04Handshake(r *Rng, mode string) []byte {
	c0c1 := make([]byte, 1537)
	c0c1[0] = 3
	c2 := make([]byte, 1536)
	switch mode {
	case "simple":
	case "simple-rand":
		copy(c0c1[9:], r.Bytes(1528))
		copy(c2, r.Bytes(1536))
	default: // complex0 (digest in the first block, base 8) | complex1 (second block, base 772) | complex-bad
		copy(c0c1[1:], r.Bytes(1536))
		copy(c0c1[5:9], []byte{9, 0, 124, 2})
		base := 8
		if mode == "complex1" {
			base = 772
		}
		c1 := c0c1[1:]
		offs := (int(c1[base])+int(c1[base+1])+int(c1[base+2])+int(c1[base+3]))%728 + base + 4
		key := []byte("Genuine Adobe Flash Player 001")
		mac := hmac.New(sha256.New, key)
		mac.Write(c1[:offs])
		mac.Write(c1[offs+32:])
		d := mac.Sum(nil)
		if mode == "complex-bad" {
			d[0] ^= 1
		}
		copy(c1[offs:], d)
		copy(c2, r.Bytes(1536))
	}
	return append(c0c1, c2...)
}

func c04Op(env, frag string, stream []byte) string {
	return fmt.Sprintf("rtmp.sess %s %s %s", env, frag, c04ShowStream(stream))
}

func init() {
	ops["rtmp.sess"] = func(a []string) string {
		return c04Session(a[0], a[1], c04ParseStream(a[2]))
	}
	// rtmp.pbuf <initial capacity> <script>  =>  <Len()> <len(Bytes())> | panic
	// script: w<n> = Write of n bytes, b = WriteByte, m<pos> = ModWritePos(pos), r = Reset; joined by ','
	ops["rtmp.pbuf"] = func(a []string) string {
		b := rtmp.NewBuffer(atoi(a[0]))
		for _, o := range strings.Split(a[1], ",") {
			switch o[0] {
			case 'w':
				_, _ = b.Write(make([]byte, atoi(o[1:])))
			case 'b':
				_ = b.WriteByte(7)
			case 'm':
				b.ModWritePos(atoi(o[1:]))
			case 'r':
				b.Reset()
			}
		}
		return fmt.Sprintf("%d %d", b.Len(), len(b.Bytes()))
	}
	gens["C04"] = genC04
}
