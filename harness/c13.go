package main

import (
	"bufio"
	"bytes"
	"fmt"
	"os"
	"os/exec"
	"strconv"
	"strings"
	"time"

	"github.com/q191201771/lal/pkg/base"
	"github.com/q191201771/lal/pkg/gb28181"
	"github.com/q191201771/lal/pkg/rtprtcp"
	"github.com/q191201771/lal/pkg/rtsp"
	"github.com/q191201771/lal/pkg/sdp"
)

// C13 — no input on the RTSP, RTP/RTCP, GB28181, WebSocket or HTTP surfaces terminates lal.
//
// Function-level entry points (each call under recover; `panic` is the canonical outcome of a Go panic):
//
//	rtpin.pkt <pkt>                       => err | ok <body|panic> <IsAvcBoundary 0|1|panic> <IsHevcBoundary 0|1|panic>
//	rtcp.sr <pkt>                         => <ParseRtcpHeader fields|panic> ; <ParseSr fields + GetMiddleNtp|panic>
//	rtpin.unpack <kind> <rate> <max> <pkt,..> => units delivered by a real RtpUnpackContainer (rate is any Go int) | panic
//	rtpin.sess <filter 0|1> <sdp> <auri> <artp/artcp|-> <vuri> <vrtp/vrtcp|-> <ch:pkt,...>
//	                                      => <setup results> ; events of a real rtsp.BaseInSession fed through HandleInterleavedPacket
//	ws.read <bytes>                       => payload | err | panic          (base.ReadWsPayload)
//	ps.feed <pkt,...>                     => AvPackets delivered by a real gb28181.PsUnpacker.FeedRtpPacket | panic
//	ps.body <rtpts:body,...>              => AvPackets delivered by PsUnpacker.FeedRtpBody | panic
//
// Ops whose code runs in goroutines the harness does not own (client sessions) run in a child process:
// the harness re-executes itself with C13_CHILD_OP set; a crashed child is the outcome `panic`.

func c13Int(s string) int {
	v, err := strconv.ParseInt(s, 10, 64)
	if err != nil {
		panic("int " + s)
	}
	return int(v)
}

func c13Split(s string) [][]byte {
	if s == "none" || s == "" {
		return nil
	}
	var out [][]byte
	for _, p := range strings.Split(s, ",") {
		out = append(out, unhx(p))
	}
	return out
}

func c13B(f func() bool) string {
	return protect(func() string {
		if f() {
			return "1"
		}
		return "0"
	})
}

// c13Child runs one op line in a fresh process (for code that panics in goroutines of its own or can
// exhaust memory); a child that dies is reported as `panic`.
func c13Child(op string, timeout time.Duration) string {
	cmd := exec.Command(os.Args[0])
	cmd.Env = append(os.Environ(), "C13_CHILD_OP="+op, "GOMEMLIMIT=2GiB")
	var out bytes.Buffer
	cmd.Stdout = &out
	if err := cmd.Start(); err != nil {
		return "child-start-failed"
	}
	done := make(chan error, 1)
	go func() { done <- cmd.Wait() }()
	select {
	case err := <-done:
		if err != nil {
			return "panic"
		}
	case <-time.After(timeout):
		_ = cmd.Process.Kill()
		<-done
		return "hang"
	}
	return strings.TrimSpace(out.String())
}

// childOps are the implementations run inside the child process.
var c13ChildOps = map[string]func(args []string) string{}

// ---------------------------------------------------------------------------------------------------------
// RTP / RTCP

func c13AvPkt(pkt base.AvPacket) string {
	return fmt.Sprintf("%d:%d:%s", int(pkt.PayloadType), pkt.Timestamp, hx(pkt.Payload))
}

type c13Obs struct {
	ev []string
}

func (o *c13Obs) OnSdp(sdpCtx sdp.LogicContext) {}
func (o *c13Obs) OnRtpPacket(pkt rtprtcp.RtpPacket) {
	o.ev = append(o.ev, fmt.Sprintf("r:%d", pkt.Header.Seq))
}
func (o *c13Obs) OnAvPacket(pkt base.AvPacket) { o.ev = append(o.ev, "a:"+c13AvPkt(pkt)) }
func (o *c13Obs) WriteInterleavedPacket(packet []byte, channel int) error {
	o.ev = append(o.ev, fmt.Sprintf("w:%d:%s", channel, hx(packet)))
	return nil
}

func c13Sess(a []string) string {
	old := rtsp.BaseInSessionTimestampFilterFlag
	rtsp.BaseInSessionTimestampFilterFlag = a[0] == "1"
	defer func() { rtsp.BaseInSessionTimestampFilterFlag = old }()
	ctx, err := sdp.ParseSdp2LogicContext(unhx(a[1]))
	if err != nil {
		return "sdp-err"
	}
	obs := &c13Obs{}
	s := rtsp.NewBaseInSessionWithObserver(base.SessionTypeRtspPub, obs, obs)
	s.InitWithSdp(ctx)
	setup := func(uri, ch string) string {
		if ch == "-" {
			return "-"
		}
		x := strings.Split(ch, "/")
		if err := s.SetupWithChannel(string(unhx(uri)), c13Int(x[0]), c13Int(x[1])); err != nil {
			return "err"
		}
		return "ok"
	}
	res := setup(a[2], a[3]) + " " + setup(a[4], a[5])
	if a[6] != "none" {
		for _, item := range strings.Split(a[6], ",") {
			x := strings.SplitN(item, ":", 2)
			s.HandleInterleavedPacket(unhx(x[1]), c13Int(x[0]))
		}
	}
	if len(obs.ev) == 0 {
		return res + " ; none"
	}
	return res + " ; " + strings.Join(obs.ev, ",")
}

// ---------------------------------------------------------------------------------------------------------
// GB28181 PS

func c13PsStr(pkt *base.AvPacket) string {
	return fmt.Sprintf("%d:%d:%d:%s", int(pkt.PayloadType), pkt.Timestamp, pkt.Pts, hx(pkt.Payload))
}

func c13PsFeed(raws [][]byte) string {
	var units []string
	u := gb28181.NewPsUnpacker().WithOnAvPacket(func(pkt *base.AvPacket) {
		units = append(units, c13PsStr(pkt))
	})
	for _, raw := range raws {
		_ = u.FeedRtpPacket(raw)
	}
	if len(units) == 0 {
		return "none"
	}
	return strings.Join(units, ",")
}

func c13PsBody(items []string) string {
	var units []string
	u := gb28181.NewPsUnpacker().WithOnAvPacket(func(pkt *base.AvPacket) {
		units = append(units, c13PsStr(pkt))
	})
	var rets []string
	for _, it := range items {
		x := strings.SplitN(it, ":", 2)
		err := u.FeedRtpBody(unhx(x[1]), uint32(c13Int(x[0])))
		if err != nil {
			rets = append(rets, "e")
		} else {
			rets = append(rets, "n")
		}
	}
	us := "none"
	if len(units) > 0 {
		us = strings.Join(units, ",")
	}
	return strings.Join(rets, "") + " " + us
}

func init() {
	ops["rtpin.pkt"] = func(a []string) string {
		pkt, err := rtprtcp.ParseRtpPacket(unhx(a[0]))
		if err != nil {
			return "err"
		}
		body := protect(func() string { return hx(pkt.Body()) })
		return "ok " + body + " " + c13B(func() bool { return rtprtcp.IsAvcBoundary(pkt) }) + " " +
			c13B(func() bool { return rtprtcp.IsHevcBoundary(pkt) })
	}
	ops["rtcp.sr"] = func(a []string) string {
		b := unhx(a[0])
		h := protect(func() string {
			h := rtprtcp.ParseRtcpHeader(b)
			return fmt.Sprintf("%d %d %d %d %d", h.Version, h.Padding, h.CountOrFormat, h.PacketType, h.Length)
		})
		s := protect(func() string {
			s := rtprtcp.ParseSr(b)
			return fmt.Sprintf("%d %d %d %d %d %d %d", s.SenderSsrc, s.Msw, s.Lsw, s.Timestamp, s.PktCnt, s.OctetCnt, s.GetMiddleNtp())
		})
		return h + " ; " + s
	}
	ops["rtpin.unpack"] = func(a []string) string {
		return c12Feed(a[0], c13Int(a[1]), c13Int(a[2]), c13Split(a[3]))
	}
	ops["rtpin.sess"] = c13Sess
	ops["ws.read"] = func(a []string) string {
		p, err := base.ReadWsPayload(bufio.NewReader(bytes.NewReader(unhx(a[0]))))
		if err != nil {
			return "err"
		}
		return hx(p)
	}
	c13ChildOps["ws.read"] = ops["ws.read"]
	ops["ps.feed"] = func(a []string) string { return c13PsFeed(c13Split(a[0])) }
	ops["ps.body"] = func(a []string) string {
		if a[0] == "none" {
			return c13PsBody(nil)
		}
		return c13PsBody(strings.Split(a[0], ","))
	}
}

// ---------------------------------------------------------------------------------------------------------
// URLs
//
//	url.parse <rtmp|rtsp|url> <raw url> => err | ok <Scheme> <StdHost> <HostWithPort> <Host> <Port> <PathWithRawQuery> <Path> <PathWithoutLastItem> <LastItemOfPath> <RawQuery> <RawUrlWithoutUserInfo> <file name> <file type>
//	    (strings in hex; the op line is followed by what net/url and net.SplitHostPort make of the raw url, which the model takes as given:
//	     <scheme> <host> <path> <rawquery> <splithost|!> <splitport>)

func c13UrlCtx(ctx base.UrlContext) string {
	s := func(x string) string { return hx([]byte(x)) }
	return fmt.Sprintf("ok %s %s %s %s %d %s %s %s %s %s %s %s %s", s(ctx.Scheme), s(ctx.StdHost), s(ctx.HostWithPort), s(ctx.Host), ctx.Port,
		s(ctx.PathWithRawQuery), s(ctx.Path), s(ctx.PathWithoutLastItem), s(ctx.LastItemOfPath), s(ctx.RawQuery), s(ctx.RawUrlWithoutUserInfo),
		s(ctx.GetFilenameWithoutType()), s(ctx.GetFileType()))
}

func init() {
	ops["url.parse"] = func(a []string) string {
		raw := string(unhx(a[1]))
		var ctx base.UrlContext
		var err error
		switch a[0] {
		case "rtmp":
			ctx, err = base.ParseRtmpUrl(raw)
		case "rtsp":
			ctx, err = base.ParseRtspUrl(raw)
		case "flv":
			ctx, err = base.ParseHttpflvUrl(raw)
		default:
			ctx, err = base.ParseUrl(raw, c13Int(a[0]))
		}
		if err != nil {
			return "err"
		}
		return c13UrlCtx(ctx)
	}
}
