package main

// C05 generators: a mostly-valid RTMP publish (metadata, sequence headers, interleaved audio/video frames of
// AVC / HEVC / enhanced-RTMP HEVC with AAC / G.711 / Opus), a mutation stream over it, and the boundary corpus of
// DESIGN §7 C05 (every first byte x lengths 0..5, sequence headers truncated at every offset, NAL length fields past
// the end / zero, enhanced-RTMP headers, unknown codec ids, extreme timestamps).

import (
	"fmt"
	"strings"

	"github.com/q191201771/lal/pkg/avc"
	"github.com/q191201771/lal/pkg/base"
	"github.com/q191201771/lal/pkg/hevc"
	"github.com/q191201771/lal/pkg/rtmp"
)

var (
	c05Sps  = unhx("6764001fac2ca4014016ec0440000003004000000c03c60ca8")
	c05Sps2 = unhx("6742c01e9e21811f60")
	c05Pps  = unhx("68ee3cb0")
	c05Hpps = unhx("4401c172b46240")
)

func c05Be32(n int) []byte { return []byte{byte(n >> 24), byte(n >> 16), byte(n >> 8), byte(n)} }

func c05Avcc(nals ...[]byte) []byte {
	var out []byte
	for _, n := range nals {
		out = append(out, c05Be32(len(n))...)
		out = append(out, n...)
	}
	return out
}

func c05Cat(bs ...[]byte) []byte {
	var out []byte
	for _, b := range bs {
		out = append(out, b...)
	}
	return out
}

// c05Stream is a codec state machine producing a plausible publish.
type c05Stream struct {
	r        *Rng
	vcodec   string // avc | hevc | ehevc | none
	acodec   string // aac | g711a | g711u | opus | none
	vsh, ash []byte
	ts       uint32
}

func c05NewStream(r *Rng) *c05Stream {
	s := &c05Stream{r: r}
	s.vcodec = []string{"avc", "avc", "hevc", "ehevc", "none"}[r.Intn(5)]
	s.acodec = []string{"aac", "aac", "g711a", "g711u", "opus", "none"}[r.Intn(6)]
	if s.vcodec == "none" && s.acodec == "none" {
		s.vcodec = "avc"
	}
	switch s.vcodec {
	case "avc":
		sps := c05Sps
		if r.Bool() {
			sps = c05Sps2
		}
		if r.Intn(3) == 0 {
			sps = encSps(genSpsP(r))
		}
		sh, err := safeAvcBuild(sps, c05Pps)
		if err != nil {
			sh, _ = safeAvcBuild(c05Sps, c05Pps)
		}
		s.vsh = sh
	case "hevc", "ehevc":
		var sh []byte
		for try := 0; try < 8 && sh == nil; try++ {
			b, err := safeHevcBuild(genHevcVps(r), genHevcSps(r), c05Hpps)
			if err == nil {
				sh = b
			}
		}
		if sh == nil {
			s.vcodec = "avc"
			sh, _ = safeAvcBuild(c05Sps, c05Pps)
		}
		if s.vcodec == "ehevc" && len(sh) > 5 {
			sh = c05Cat([]byte{0x90, 'h', 'v', 'c', '1'}, sh[5:])
		}
		s.vsh = sh
	}
	switch s.acodec {
	case "aac":
		s.ash = []byte{0xaf, 0x00, byte(0x10 | r.Pick(1, 2)), byte(r.Pick(0x10, 0x90, 0x08))}
		if r.Intn(4) == 0 {
			s.ash = []byte{0xaf, 0x00, byte(r.Intn(256)), byte(r.Intn(256))}
		}
	}
	s.ts = uint32(r.Pick(0, 0, 0, 1000, 3600000))
	return s
}

func (s *c05Stream) meta() base.RtmpMsg {
	ac, vc := 0, 0
	switch s.acodec {
	case "aac":
		ac = 10
	case "g711a":
		ac = 7
	case "g711u":
		ac = 8
	case "opus":
		ac = 13
	}
	switch s.vcodec {
	case "avc":
		vc = 7
	case "hevc", "ehevc":
		vc = 12
	}
	b, _ := rtmp.BuildMetadata(640, 360, ac, vc)
	return c05Msg(18, 0, b)
}

func (s *c05Stream) nalBody(n int) []byte { return s.r.Bytes(n) }

func (s *c05Stream) video(key bool) base.RtmpMsg {
	r := s.r
	cts := []byte{0, 0, byte(r.Pick(0, 0, 40, 80))}
	if r.Intn(20) == 0 {
		cts = r.Bytes(3)
	}
	size := r.Pick(1, 5, 30, 150, 200, 400, 1300, 2600)
	var nals [][]byte
	switch s.vcodec {
	case "avc":
		if r.Intn(5) == 0 {
			nals = append(nals, []byte{0x09, 0xf0})
		}
		if r.Intn(5) == 0 {
			nals = append(nals, c05Cat([]byte{0x06}, s.nalBody(r.Intn(20))))
		}
		if key {
			if r.Intn(3) == 0 {
				nals = append(nals, c05Sps2, c05Pps)
			}
			nals = append(nals, c05Cat([]byte{0x65}, s.nalBody(size)))
			if r.Intn(4) == 0 {
				nals = append(nals, c05Cat([]byte{0x65}, s.nalBody(r.Intn(40))))
			}
		} else {
			nals = append(nals, c05Cat([]byte{0x41}, s.nalBody(size)))
			if r.Intn(4) == 0 {
				nals = append(nals, c05Cat([]byte{0x41}, s.nalBody(r.Intn(40))))
			}
		}
		ft := byte(0x27)
		if key {
			ft = 0x17
		}
		return c05Msg(9, s.ts, c05Cat([]byte{ft, 1}, cts, c05Avcc(nals...)))
	default: // hevc, ehevc
		if r.Intn(5) == 0 {
			nals = append(nals, []byte{0x46, 0x01, 0x10})
		}
		if r.Intn(5) == 0 {
			nals = append(nals, c05Cat([]byte{0x4e, 0x01}, s.nalBody(r.Intn(20))))
		}
		if key {
			if r.Intn(3) == 0 {
				nals = append(nals, c05Cat([]byte{0x40, 0x01}, s.nalBody(8)), c05Cat([]byte{0x42, 0x01}, s.nalBody(12)), c05Hpps)
			}
			nals = append(nals, c05Cat([]byte{byte(r.Pick(0x26, 0x28, 0x2a)), 0x01}, s.nalBody(size)))
		} else {
			nals = append(nals, c05Cat([]byte{0x02, 0x01}, s.nalBody(size)))
		}
		if s.vcodec == "hevc" {
			ft := byte(0x2c)
			if key {
				ft = 0x1c
			}
			return c05Msg(9, s.ts, c05Cat([]byte{ft, 1}, cts, c05Avcc(nals...)))
		}
		ft := byte(0xa0)
		if key {
			ft = 0x90
		}
		if r.Bool() {
			return c05Msg(9, s.ts, c05Cat([]byte{ft | 1, 'h', 'v', 'c', '1'}, cts, c05Avcc(nals...)))
		}
		return c05Msg(9, s.ts, c05Cat([]byte{ft | 3, 'h', 'v', 'c', '1'}, c05Avcc(nals...)))
	}
}

func (s *c05Stream) audio() base.RtmpMsg {
	r := s.r
	n := r.Pick(1, 6, 40, 180, 370)
	switch s.acodec {
	case "aac":
		return c05Msg(8, s.ts, c05Cat([]byte{0xaf, 1}, r.Bytes(n)))
	case "g711a":
		return c05Msg(8, s.ts, c05Cat([]byte{0x72}, r.Bytes(n+1)))
	case "g711u":
		return c05Msg(8, s.ts, c05Cat([]byte{0x82}, r.Bytes(n+1)))
	default:
		return c05Msg(8, s.ts, c05Cat([]byte{0xd2}, r.Bytes(n+1)))
	}
}

// gen produces n messages: optional metadata, the sequence headers in some order (sometimes late or missing), then frames.
func (s *c05Stream) gen(n int) []base.RtmpMsg {
	r := s.r
	var ms []base.RtmpMsg
	if r.Intn(4) != 0 {
		ms = append(ms, s.meta())
	}
	var hdr []base.RtmpMsg
	if s.vsh != nil && r.Intn(8) != 0 {
		hdr = append(hdr, c05Msg(9, s.ts, s.vsh))
	}
	if s.ash != nil && r.Intn(8) != 0 {
		hdr = append(hdr, c05Msg(8, s.ts, s.ash))
	}
	if len(hdr) == 2 && r.Bool() {
		hdr[0], hdr[1] = hdr[1], hdr[0]
	}
	late := r.Intn(6) == 0
	if !late {
		ms = append(ms, hdr...)
	}
	gop := r.Pick(2, 4, 9)
	vi := 0
	for len(ms) < n {
		if late && len(ms) >= 3 {
			ms = append(ms, hdr...)
			late = false
		}
		if s.vcodec != "none" && (s.acodec == "none" || r.Intn(3) != 0) {
			ms = append(ms, s.video(vi%gop == 0 && r.Intn(10) != 0))
			vi++
		} else {
			ms = append(ms, s.audio())
		}
		if r.Intn(40) == 0 && s.vsh != nil { // repeated sequence header mid-stream
			ms = append(ms, c05Msg(9, s.ts, s.vsh))
		}
		s.ts += uint32(r.Pick(0, 10, 21, 23, 33, 40, 40, 66, 200))
	}
	return ms
}

var c05Ts = []uint32{0, 1, 0x7fffffff, 0x80000000, 0xfffffffe, 0xffffffff, 20000000, 4294967295 / 90, 4294967295/90 + 1}

// c05Mutate changes one message of the list (or its timing).
func c05Mutate(r *Rng, ms []base.RtmpMsg) ([]base.RtmpMsg, string) {
	out := make([]base.RtmpMsg, len(ms))
	for i := range ms {
		out[i] = ms[i].Clone()
	}
	if len(out) == 0 {
		return out, "none"
	}
	i := r.Intn(len(out))
	m := &out[i]
	lab := ""
	switch r.Intn(12) {
	case 0:
		k := r.Intn(len(m.Payload) + 1)
		if r.Bool() && len(m.Payload) > 0 {
			k = r.Intn(min(len(m.Payload), 12) + 1)
		}
		m.Payload = m.Payload[:k]
		lab = "truncate"
	case 1:
		if len(m.Payload) > 0 {
			m.Payload[r.Intn(min(len(m.Payload), 16))] ^= 1 << uint(r.Intn(8))
		}
		lab = "bitflip-head"
	case 2:
		if len(m.Payload) > 9 { // a NAL length field
			copy(m.Payload[5:9], c05Be32(r.Pick(0, 1, len(m.Payload)-9, len(m.Payload)-8, len(m.Payload), 0x7fffffff, 0xffffffff, 65536)))
		}
		lab = "nal-length"
	case 3:
		if len(m.Payload) > 0 {
			m.Payload[0] = byte(r.Intn(256))
		}
		lab = "first-byte"
	case 4:
		m.Header.TimestampAbs = c05Ts[r.Intn(len(c05Ts))]
		lab = "ts-one"
	case 5:
		d := c05Ts[r.Intn(len(c05Ts))]
		for j := i; j < len(out); j++ {
			out[j].Header.TimestampAbs += d
		}
		lab = "ts-jump"
	case 6:
		for j := i; j < len(out); j++ {
			out[j].Header.TimestampAbs -= uint32(r.Pick(1, 100, 5000, 100000))
		}
		lab = "ts-back"
	case 7:
		m.Payload = r.Bytes(r.Intn(8))
		lab = "random-short"
	case 8:
		m.Payload = []byte{}
		lab = "empty"
	case 9:
		if len(m.Payload) > 1 {
			m.Payload[1] = byte(r.Pick(0, 1, 2, 3, 255))
		}
		lab = "packet-type"
	case 10:
		m.Header.MsgTypeId = uint8(r.Pick(8, 9, 18))
		lab = "type-id"
	case 11:
		if len(m.Payload) > 5 {
			m.Payload = c05Cat([]byte{byte(0x80 | r.Intn(128))}, []byte(r.pickS("hvc1", "av01", "vp09", "hvc2", "avc1")), m.Payload[5:])
		}
		lab = "ex-header"
	}
	m.Header.MsgLen = uint32(len(m.Payload))
	return out, lab
}

// c05All emits one op per component for the same message list.
func c05All(g *G, lab string, ms []base.RtmpMsg) {
	r := g.rng
	s := c05MsgsStr(ms)
	g.L(lab).run(fmt.Sprintf("c05.gop %d %d %s", r.Pick(0, 1, 2, 3), r.Pick(0, 0, 1, 3, 50), s))
	g.L(lab).run(fmt.Sprintf("c05.ts %d %s", r.Intn(2), s))
	g.L(lab).run("c05.rtsp " + s)
	g.L(lab).run(fmt.Sprintf("c05.dummy %d %s", r.Pick(0, 1, 150, 150, 5000), s))
	if r.Intn(4) == 0 {
		g.L(lab).run("c05.avpkt " + s)
	}
}

func c05Corpus(g *G) {
	r := g.rng
	run := func(label, op string) { g.L(label).run(op) }

	// every first byte, lengths 0..5, for video and audio; second byte varied
	for _, t := range []int{8, 9, 18} {
		run("corpus-empty", fmt.Sprintf("c05.cls %d -", t))
	}
	for b := 0; b < 256; b++ {
		for n := 1; n <= 5; n++ {
			p := make([]byte, n)
			p[0] = byte(b)
			for _, second := range []int{0, 1} {
				if n >= 2 {
					p[1] = byte(second)
				} else if second == 1 {
					continue
				}
				run(fmt.Sprintf("corpus-len%d", n), fmt.Sprintf("c05.cls 9 %s", hx(p)))
				if b%16 == 15 || b>>4 == 10 {
					run(fmt.Sprintf("corpus-len%d", n), fmt.Sprintf("c05.cls 8 %s", hx(p)))
				}
			}
		}
	}
	// enhanced-RTMP headers: every packet type and frame type, with and without the fourcc, lengths around 5 and 8
	for ft := 0; ft < 8; ft++ {
		for pt := 0; pt < 16; pt++ {
			for _, cc := range []string{"hvc1", "av01", "hvc"} {
				p := c05Cat([]byte{byte(0x80 | ft<<4 | pt)}, []byte(cc))
				for _, extra := range []int{0, 1, 2, 3, 4, 7} {
					run("corpus-ex", fmt.Sprintf("c05.cls 9 %s", hx(c05Cat(p, make([]byte, extra)))))
				}
			}
		}
	}

	// sequence headers truncated at every offset, fed (a) alone, (b) after the other track's header so that the TS probe
	// filter drains and the remuxers really see it, (c) followed by a valid key frame
	vshAvc, _ := safeAvcBuild(c05Sps, c05Pps)
	vshHevc, _ := safeHevcBuild(genHevcVps(NewRng(7)), genHevcSps(NewRng(7)), c05Hpps)
	var heads [][]byte
	heads = append(heads, vshAvc)
	if vshHevc != nil {
		heads = append(heads, vshHevc, c05Cat([]byte{0x90, 'h', 'v', 'c', '1'}, vshHevc[5:]))
	}
	ash := c05Msg(8, 0, []byte{0xaf, 0, 0x12, 0x10})
	araw := c05Msg(8, 20, c05Cat([]byte{0xaf, 1}, r.Bytes(30)))
	for hi, h := range heads {
		key := c05Msg(9, 40, c05Cat([]byte{0x17, 1, 0, 0, 0}, c05Avcc(c05Cat([]byte{0x65}, r.Bytes(40)))))
		if hi == 1 {
			key = c05Msg(9, 40, c05Cat([]byte{0x1c, 1, 0, 0, 0}, c05Avcc(c05Cat([]byte{0x26, 1}, r.Bytes(40)))))
		} else if hi == 2 {
			key = c05Msg(9, 40, c05Cat([]byte{0x93, 'h', 'v', 'c', '1'}, c05Avcc(c05Cat([]byte{0x26, 1}, r.Bytes(40)))))
		}
		for k := 0; k <= len(h); k++ {
			t := c05Msg(9, 0, h[:k])
			run("corpus-trunc-seqhdr", fmt.Sprintf("c05.cls 9 %s", hx(h[:k])))
			ms := []base.RtmpMsg{ash, t, key, araw}
			s := c05MsgsStr(ms)
			run("corpus-trunc-seqhdr", "c05.ts 0 "+s)
			run("corpus-trunc-seqhdr", "c05.rtsp "+s)
			run("corpus-trunc-seqhdr", "c05.gop 1 0 "+s)
			run("corpus-trunc-seqhdr", "c05.dummy 0 "+c05MsgsStr([]base.RtmpMsg{t, key}))
			run("corpus-trunc-seqhdr", "c05.avpkt "+c05MsgsStr([]base.RtmpMsg{t, key}))
		}
		// one byte of the record changed (array count / type / unit count / length fields)
		for k := 5; k < len(h) && k < 60; k++ {
			for _, v := range []byte{0, 1, 0xff} {
				m := append([]byte{}, h...)
				m[k] = v
				s := c05MsgsStr([]base.RtmpMsg{ash, c05Msg(9, 0, m), key})
				run("corpus-seqhdr-byte", "c05.ts 0 "+s)
				run("corpus-seqhdr-byte", "c05.rtsp "+s)
			}
		}
	}
	// HEVC record that only parses through the Annex-B fallback, with adjacent start codes and a start code at the very end
	for _, tail := range []string{"0000000140010c0000000142010100000001440100", "00000001000000014001", "0000000100000001", "00000001", "0000000140010000000142010000000144010000000001"} {
		p := c05Cat([]byte{0x1c, 0, 0, 0, 0}, make([]byte, 28), unhx(tail))
		s := c05MsgsStr([]base.RtmpMsg{ash, c05Msg(9, 0, p)})
		run("corpus-hevc-annexb", "c05.ts 0 "+s)
		run("corpus-hevc-annexb", "c05.rtsp "+s)
	}

	// NAL length fields: zero, exact, one short, one past, huge — classic and enhanced framing, with payload sizes 6..13
	for _, hdr := range [][]byte{{0x17, 1, 0, 0, 0}, {0x27, 1, 0, 0, 0}, {0x1c, 1, 0, 0, 0}, {0x91, 'h', 'v', 'c', '1', 0, 0, 0}, {0x93, 'h', 'v', 'c', '1'}, {0xa1, 'h', 'v', 'c', '1'}, {0x91, 'a', 'v', '0', '1', 0, 0, 0}} {
		for _, l := range []int{0, 1, 2, 3, 4, 5, 0x7fffffff, 0xffffffff} {
			for body := 0; body <= 5; body++ {
				p := c05Cat(hdr, c05Be32(l), make([]byte, body))
				if body > 0 {
					p[len(hdr)+4] = 0x65
				}
				s := c05MsgsStr([]base.RtmpMsg{ash, c05Msg(9, 0, vshAvc), c05Msg(9, 40, p)})
				run("corpus-nal-length", "c05.ts 0 "+s)
				run("corpus-nal-length", "c05.rtsp "+s)
				run("corpus-nal-length", "c05.avpkt "+c05MsgsStr([]base.RtmpMsg{c05Msg(9, 40, p)}))
			}
		}
		// header itself cut short (6, 7 bytes with an 8-byte enhanced header)
		for k := 0; k <= len(hdr)+3; k++ {
			p := c05Cat(hdr, []byte{0, 0, 0})[:k]
			s := c05MsgsStr([]base.RtmpMsg{ash, c05Msg(9, 0, vshAvc), c05Msg(9, 40, p)})
			run("corpus-short-frame", "c05.ts 0 "+s)
			run("corpus-short-frame", "c05.rtsp "+s)
			run("corpus-short-frame", "c05.gop 1 0 "+s)
		}
	}
	// audio: every format nibble, packet types, lengths 0..4
	for f := 0; f < 16; f++ {
		for n := 0; n <= 4; n++ {
			for _, second := range []byte{0, 1, 2} {
				p := make([]byte, n)
				if n > 0 {
					p[0] = byte(f<<4 | 0xf)
				}
				if n > 1 {
					p[1] = second
				}
				s := c05MsgsStr([]base.RtmpMsg{c05Msg(9, 0, vshAvc), ash, c05Msg(8, 20, p), araw})
				run("corpus-audio-format", "c05.ts 0 "+s)
				run("corpus-audio-format", "c05.rtsp "+s)
				run("corpus-audio-format", "c05.gop 1 0 "+s)
				if n < 2 {
					break
				}
			}
		}
	}
	// AAC sequence headers: short and every sampling index
	for _, a := range []string{"af00", "af0012", "af001210", "af00ff", "af00ffff", "af000000", "af0017f0", "af00161056e500"} {
		s := c05MsgsStr([]base.RtmpMsg{c05Msg(9, 0, vshAvc), c05Msg(8, 0, unhx(a)), araw, araw})
		run("corpus-asc", "c05.ts 0 "+s)
		run("corpus-asc", "c05.rtsp "+s)
	}
	// dummy audio: timestamp jumps (S7) and wrap-around
	key0 := func(ts uint32) base.RtmpMsg {
		return c05Msg(9, ts, c05Cat([]byte{0x27, 1, 0, 0, 0}, c05Avcc([]byte{0x41, 0xaa})))
	}
	hi := uint32(0xfffffff0)
	for _, j := range []uint32{0, 1, 21, 22, 64, 9999, 10000, 10001, 10200, 20000000, 0x7fffffff, 0x80000000, 0xffffff00, 0xfffffffe, 0xffffffff} {
		run("corpus-dummy-jump", "c05.dummy 150 "+c05MsgsStr([]base.RtmpMsg{key0(0), key0(200), key0(j)}))
		run("corpus-dummy-jump", "c05.dummy 150 "+c05MsgsStr([]base.RtmpMsg{key0(hi), key0(hi + 200), key0(hi + 200 + j), key0(5), key0(300)}))
		run("corpus-dummy-jump", "c05.dummy 0 "+c05MsgsStr([]base.RtmpMsg{key0(j), key0(j + 40), key0(j + 80), key0(0), key0(40)}))
	}
	run("corpus-dummy-audio", "c05.dummy 150 "+c05MsgsStr([]base.RtmpMsg{key0(0), araw, key0(40)}))
	run("corpus-dummy-audio", "c05.dummy 150 "+c05MsgsStr([]base.RtmpMsg{key0(0), key0(200), araw, key0(240), c05Msg(18, 0, []byte{2, 0, 1, 'x'})}))
	// TS timestamps: 33-bit PTS limits, dts below the first dts (S22), cts at its maximum
	for _, ts := range c05Ts {
		k := c05Msg(9, ts, c05Cat([]byte{0x17, 1, 0xff, 0xff, 0xff}, c05Avcc(c05Cat([]byte{0x65}, r.Bytes(20)))))
		a := c05Msg(8, ts, c05Cat([]byte{0xaf, 1}, r.Bytes(20)))
		s := c05MsgsStr([]base.RtmpMsg{c05Msg(9, 100, vshAvc), ash, araw, k, a, key0(ts + 40), a, key0(50)})
		run("corpus-ts", "c05.ts 1 "+s)
		run("corpus-ts", "c05.rtsp "+s)
	}
	// hevc.ParseSps: exp-Golomb code word `1` as the last bit (nazabits), short inputs
	for _, s := range []string{"-", "42", "4201", "420101", "42010101600000030000030000030000030000a0", "4201010160000003000003000003000003ff", "420101016000000300b00000030000030078ff"} {
		run("corpus-hsps", "c05.hsps "+s)
	}
}

// c05LoopCountSps: SPSs whose loop counts come from the bit stream and announce far more entries than the data holds
// (pic_order_cnt_type 1: num_ref_frames_in_pic_order_cnt_cycle; the time spent must stay bounded by the message size)
func c05LoopCountSps() [][]byte {
	var out [][]byte
	for _, n := range []uint64{255, 65535, 1 << 24, 1<<31 - 1, 1 << 31, 1<<32 - 2} {
		for _, tail := range []int{0, 1, 9} {
			w := &bitw{}
			w.u(8, 0x67)
			w.u(8, 66) // baseline: no chroma / scaling fields
			w.u(8, 0)
			w.u(8, 30)
			w.ue(0) // seq_parameter_set_id
			w.ue(0) // log2_max_frame_num_minus4
			w.ue(1) // pic_order_cnt_type
			w.u(1, 0)
			w.se(0)
			w.se(0)
			w.ue(n) // num_ref_frames_in_pic_order_cnt_cycle
			for i := 0; i < tail; i++ {
				w.se(int64(i))
			}
			out = append(out, w.bytes())
		}
	}
	return out
}

func genC05(g *G) {
	r := g.rng
	c05Corpus(g)
	c05GroupCorpus(g)
	for _, sps := range c05LoopCountSps() {
		pps := []byte{0x68, 0xce, 0x3c, 0x80}
		sh := append([]byte{0x17, 0, 0, 0, 0, 1, sps[1], sps[2], sps[3], 0xff, 0xe1, byte(len(sps) >> 8), byte(len(sps))}, sps...)
		sh = append(append(sh, 1, byte(len(pps)>>8), byte(len(pps))), pps...)
		g.L("boundary-sps-loop-count").run("c05.group 127 1 150 9:0:" + hx(sh))
		g.L("boundary-sps-loop-count").run("c05.group 127 1 150 Jr,9:0:" + hx(sh) + ",9:40:2701000000000000026501")
	}

	// classification helpers on random short payloads
	for i := 0; i < g.scale(1500, 60000); i++ {
		p := r.Bytes(r.Intn(12))
		if len(p) > 0 && r.Bool() {
			p[0] = byte(r.Pick(0x17, 0x27, 0x1c, 0x2c, 0x90, 0x91, 0x93, 0xa1, 0xaf, 0x17))
		}
		if len(p) >= 5 && r.Intn(3) == 0 {
			copy(p[1:], "hvc1")
		}
		g.L("random").run(fmt.Sprintf("c05.cls %d %s", r.Pick(8, 9, 9, 18), hx(p)))
	}
	// hevc.ParseSps
	for i := 0; i < g.scale(300, 10000); i++ {
		b := genHevcSps(r)
		g.L("valid").run("c05.hsps " + hx(b))
		g.L("truncated").run("c05.hsps " + hx(b[:r.Intn(len(b)+1)]))
		m := append([]byte{}, b...)
		m[r.Intn(len(m))] |= byte(r.U64())
		g.L("bits-set").run("c05.hsps " + hx(m))
	}

	// whole publishes through every component, valid then mutated
	for i := 0; i < g.scale(120, 6000); i++ {
		st := c05NewStream(r)
		ms := st.gen(r.Pick(4, 12, 20, 30, 45))
		lab := st.vcodec + "+" + st.acodec
		c05All(g, "valid-"+lab, ms)
		c05Group(g, "valid-"+lab, ms)
		for k := 0; k < 3; k++ {
			mm, ml := c05Mutate(r, ms)
			if r.Intn(3) == 0 {
				mm, _ = c05Mutate(r, mm)
			}
			c05All(g, "mut-"+ml, mm)
			if k == 0 {
				c05Group(g, "mut-"+ml, mm)
			}
		}
	}
	// pure noise
	for i := 0; i < g.scale(60, 3000); i++ {
		n := r.Intn(24)
		var ms []base.RtmpMsg
		for j := 0; j < n; j++ {
			ms = append(ms, c05Msg(uint8(r.Pick(8, 9, 9, 18)), uint32(r.U64()>>uint(32+r.Intn(32))), r.Bytes(r.Intn(14))))
		}
		c05All(g, "noise", ms)
		c05Group(g, "noise", ms)
	}
}

func init() {
	gens["C05"] = genC05
	_ = avc.NaluStartCode4
	_ = hevc.NaluStartCode4
	_ = strings.Join
}
