package main

// C04 — regenerated facts: the constants the session model is stated over (Generated/C04Consts.lean) and the
// inventory of run-time-failure sites of the modelled functions (Generated/C04Sites.lean).

import (
	"bytes"
	"fmt"
	"go/ast"
	"go/parser"
	"go/printer"
	"go/token"
	"path/filepath"
	"sort"
	"strings"

	"github.com/q191201771/lal/pkg/base"
	"github.com/q191201771/lal/pkg/rtmp"
)

func c04Consts(repo string) (string, error) {
	dir := filepath.Join(repo, "pkg", "rtmp")
	get := func(file string, names ...string) (map[string]uint64, error) {
		m, _, err := astIntDecls(filepath.Join(dir, file))
		if err != nil {
			return nil, err
		}
		for _, n := range names {
			if _, ok := m[n]; !ok {
				return nil, fmt.Errorf("%s: %s not found as an integer literal declaration", file, n)
			}
		}
		return m, nil
	}
	var sb strings.Builder
	v, err := get("var.go", "wChanSize", "windowAcknowledgementSize", "serverSessionWriteAvTimeoutMs", "readBufSize", "peerBandwidth")
	if err != nil {
		return "", err
	}
	leanNat(&sb, "c04WChanSize", "rtmp.wChanSize (pkg/rtmp/var.go)", int64(v["wChanSize"]))
	leanNat(&sb, "c04WindowAcknowledgementSize", "rtmp.windowAcknowledgementSize (pkg/rtmp/var.go)", int64(v["windowAcknowledgementSize"]))
	leanNat(&sb, "c04ServerSessionWriteAvTimeoutMs", "rtmp.serverSessionWriteAvTimeoutMs (pkg/rtmp/var.go)", int64(v["serverSessionWriteAvTimeoutMs"]))
	leanNat(&sb, "c04ReadAvTimeoutMs", "base.RtmpServerSessionReadAvTimeoutMs", int64(base.RtmpServerSessionReadAvTimeoutMs))
	c, err := get("rtmp.go", "ackSeqMax", "csidProtocolControl", "csidOverConnection", "csidOverStream")
	if err != nil {
		return "", err
	}
	leanNat(&sb, "c04AckSeqMax", "rtmp.ackSeqMax (pkg/rtmp/rtmp.go)", int64(c["ackSeqMax"]))
	leanNat(&sb, "c04CsidProtocolControl", "rtmp.csidProtocolControl", int64(c["csidProtocolControl"]))
	leanNat(&sb, "c04CsidOverConnection", "rtmp.csidOverConnection", int64(c["csidOverConnection"]))
	leanNat(&sb, "c04CsidOverStream", "rtmp.csidOverStream", int64(c["csidOverStream"]))
	h, err := get("handshake.go", "c0c1Len", "c2Len", "s0s1Len", "s2Len", "s0s1s2Len", "keyLen", "clientPartKeyLen", "serverPartKeyLen", "serverFullKeyLen")
	if err != nil {
		return "", err
	}
	for _, n := range []string{"c0c1Len", "c2Len", "s0s1Len", "s2Len", "s0s1s2Len", "keyLen", "clientPartKeyLen", "serverPartKeyLen", "serverFullKeyLen"} {
		leanNat(&sb, "c04Hs"+strings.ToUpper(n[:1])+n[1:], "rtmp."+n+" (pkg/rtmp/handshake.go)", int64(h[n]))
	}
	p, err := get("message_packer.go")
	if err != nil {
		return "", err
	}
	_ = p
	leanNat(&sb, "c04LocalChunkSize", "rtmp.LocalChunkSize", int64(rtmp.LocalChunkSize))
	leanNat(&sb, "c04ConnectResultVersionLen", "len(base.LalRtmpConnectResultVersion)", int64(len(base.LalRtmpConnectResultVersion)))
	leanNat(&sb, "c04TypeIdAudio", "base.RtmpTypeIdAudio", int64(base.RtmpTypeIdAudio))
	leanNat(&sb, "c04TypeIdVideo", "base.RtmpTypeIdVideo", int64(base.RtmpTypeIdVideo))
	leanNat(&sb, "c04TypeIdMetadata", "base.RtmpTypeIdMetadata", int64(base.RtmpTypeIdMetadata))
	leanNat(&sb, "c04TypeIdSetChunkSize", "base.RtmpTypeIdSetChunkSize", int64(base.RtmpTypeIdSetChunkSize))
	leanNat(&sb, "c04TypeIdAck", "base.RtmpTypeIdAck", int64(base.RtmpTypeIdAck))
	leanNat(&sb, "c04TypeIdUserControl", "base.RtmpTypeIdUserControl", int64(base.RtmpTypeIdUserControl))
	leanNat(&sb, "c04TypeIdWinAckSize", "base.RtmpTypeIdWinAckSize", int64(base.RtmpTypeIdWinAckSize))
	leanNat(&sb, "c04TypeIdBandwidth", "base.RtmpTypeIdBandwidth", int64(base.RtmpTypeIdBandwidth))
	leanNat(&sb, "c04TypeIdCommandMessageAmf3", "base.RtmpTypeIdCommandMessageAmf3", int64(base.RtmpTypeIdCommandMessageAmf3))
	leanNat(&sb, "c04TypeIdCommandMessageAmf0", "base.RtmpTypeIdCommandMessageAmf0", int64(base.RtmpTypeIdCommandMessageAmf0))
	leanNat(&sb, "c04TypeIdAggregateMessage", "base.RtmpTypeIdAggregateMessage", int64(base.RtmpTypeIdAggregateMessage))
	leanNat(&sb, "c04UserControlPingRequest", "base.RtmpUserControlPingRequest", int64(base.RtmpUserControlPingRequest))
	// the initial capacity of the message packer's buffer: NewMessagePacker() { b: NewBuffer(N) }
	n, err := c04PackerInitCap(filepath.Join(dir, "message_packer.go"))
	if err != nil {
		return "", err
	}
	leanNat(&sb, "c04PackerInitCap", "NewMessagePacker: NewBuffer(n) (pkg/rtmp/message_packer.go)", n)
	return sb.String(), nil
}

func c04PackerInitCap(path string) (int64, error) {
	fset := token.NewFileSet()
	f, err := parser.ParseFile(fset, path, nil, 0)
	if err != nil {
		return 0, err
	}
	var out int64 = -1
	for _, d := range f.Decls {
		fd, ok := d.(*ast.FuncDecl)
		if !ok || fd.Name.Name != "NewMessagePacker" {
			continue
		}
		ast.Inspect(fd, func(n ast.Node) bool {
			if ce, ok := n.(*ast.CallExpr); ok {
				if id, ok := ce.Fun.(*ast.Ident); ok && id.Name == "NewBuffer" && len(ce.Args) == 1 {
					if lit, ok := ce.Args[0].(*ast.BasicLit); ok {
						fmt.Sscan(lit.Value, &out)
					}
				}
			}
			return true
		})
	}
	if out < 0 {
		return 0, fmt.Errorf("NewMessagePacker: NewBuffer(<literal>) not found")
	}
	return out, nil
}

// ---- site inventory -----------------------------------------------------------------------------------------------

// c04Modelled lists, per source file, the functions of the C04 model (receiver-qualified). Every index, slice,
// non-comma-ok type assertion, explicit panic / Log.Panic*/Fatal*, integer division or remainder and call through
// an interface-typed session field in them is a site.
var c04Modelled = map[string][]string{
	"server_session.go": {"ServerSession.RunLoop", "ServerSession.runReadLoop", "ServerSession.handshake", "ServerSession.doMsg", "ServerSession.doWinAckSize",
		"ServerSession.doAck", "ServerSession.doUserControl", "ServerSession.doDataMessageAmf0", "ServerSession.doCommandMessage",
		"ServerSession.doCommandAmf3Message", "ServerSession.writeAcknowledgementIfNeeded", "ServerSession.doConnect", "ServerSession.doCreateStream",
		"ServerSession.doPublish", "ServerSession.doPlay", "ServerSession.modConnProps", "ServerSession.dispose"},
	"stream.go": {"Stream.toAvMsg", "Stream.toDebugString", "StreamMsg.Grow", "StreamMsg.Len", "StreamMsg.Flush", "StreamMsg.Skip", "StreamMsg.Reset", "StreamMsg.ResetAndFree",
		"StreamMsg.peekStringWithType", "StreamMsg.readStringWithType", "StreamMsg.readNumberWithType", "StreamMsg.readObjectWithType", "StreamMsg.readNull"},
	"handshake.go": {"HandshakeServer.ReadC0C1", "HandshakeServer.WriteS0S1S2", "HandshakeServer.ReadC2", "parseChallenge", "findDigest",
		"makeDigestWithoutCenterPart", "makeDigest", "random1528"},
	"chunk_composer.go": {"ChunkComposer.RunLoop", "ChunkComposer.getOrCreateStream", "ChunkComposer.SetPeerChunkSize"},
	"message_packer.go": {"writeSingleChunkHeader", "MessagePacker.ChunkAndWrite", "MessagePacker.writeProtocolControlMessage", "MessagePacker.writeChunkSize",
		"MessagePacker.writeWinAckSize", "MessagePacker.writePeerBandwidth", "MessagePacker.writeConnectResult", "MessagePacker.writeCreateStreamResult",
		"MessagePacker.writeOnStatusPublish", "MessagePacker.writeOnStatusPlay", "MessagePacker.writeStreamIsRecorded", "MessagePacker.writeStreamBegin",
		"MessagePacker.writeAcknowledgement", "MessagePacker.writePingResponse", "Buffer.Bytes", "Buffer.Len", "Buffer.Reset", "Buffer.Write", "Buffer.WriteByte",
		"Buffer.WriteTo", "Buffer.ModWritePos", "Buffer.grow"},
	"amf0.go": {"ObjectPairArray.FindString", "ObjectPairArray.FindNumber", "amf0.WriteNumber", "amf0.WriteString", "amf0.WriteNull", "amf0.WriteBoolean", "amf0.WriteObject",
		"amf0.ReadStringWithoutType", "amf0.ReadLongStringWithoutType", "amf0.ReadString", "amf0.ReadNumber", "amf0.ReadBoolean", "amf0.ReadNull",
		"amf0.ReadUndefinedOrUnsupported", "amf0.ReadObject", "amf0.readObject", "amf0.readArray", "amf0.readStrictArray", "amf0.read"},
	"server.go": {"Server.handleTcpConnect", "Server.OnRtmpConnect", "Server.OnNewRtmpPubSession", "Server.OnNewRtmpSubSession"},
}

type c04Site struct {
	fn, kind, expr, pos string
}

func c04RecvName(fd *ast.FuncDecl) string {
	if fd.Recv == nil || len(fd.Recv.List) == 0 {
		return fd.Name.Name
	}
	t := fd.Recv.List[0].Type
	if s, ok := t.(*ast.StarExpr); ok {
		t = s.X
	}
	if id, ok := t.(*ast.Ident); ok {
		return id.Name + "." + fd.Name.Name
	}
	return fd.Name.Name
}

func c04Src(fset *token.FileSet, n ast.Node) string {
	var b bytes.Buffer
	_ = printer.Fprint(&b, fset, n)
	s := strings.Join(strings.Fields(b.String()), " ")
	return s
}

// interface-typed fields of ServerSession / Server whose methods are called (nil => run-time failure)
var c04IfaceFields = map[string]bool{"s.avObserver": true, "s.observer": true, "server.observer": true}

func c04Sites(repo string) ([]c04Site, error) {
	dir := filepath.Join(repo, "pkg", "rtmp")
	var out []c04Site
	files := make([]string, 0, len(c04Modelled))
	for f := range c04Modelled {
		files = append(files, f)
	}
	sort.Strings(files)
	for _, file := range files {
		want := map[string]bool{}
		for _, n := range c04Modelled[file] {
			want[n] = false
		}
		fset := token.NewFileSet()
		f, err := parser.ParseFile(fset, filepath.Join(dir, file), nil, 0)
		if err != nil {
			return nil, err
		}
		for _, d := range f.Decls {
			fd, ok := d.(*ast.FuncDecl)
			if !ok || fd.Body == nil {
				continue
			}
			name := c04RecvName(fd)
			if _, ok := want[name]; !ok {
				continue
			}
			want[name] = true
			add := func(kind string, n ast.Node) {
				p := fset.Position(n.Pos())
				out = append(out, c04Site{name, kind, c04Src(fset, n), fmt.Sprintf("%s:%d", file, p.Line)})
			}
			commaOk := map[ast.Node]bool{}
			ast.Inspect(fd.Body, func(n ast.Node) bool {
				switch x := n.(type) {
				case *ast.AssignStmt:
					if len(x.Lhs) == 2 && len(x.Rhs) == 1 {
						if ta, ok := x.Rhs[0].(*ast.TypeAssertExpr); ok {
							commaOk[ta] = true
						}
					}
				case *ast.TypeSwitchStmt:
					// x.(type) never fails
					ast.Inspect(x.Assign, func(m ast.Node) bool {
						if ta, ok := m.(*ast.TypeAssertExpr); ok && ta.Type == nil {
							commaOk[ta] = true
						}
						return true
					})
				case *ast.IndexExpr:
					add("index", x)
				case *ast.SliceExpr:
					add("slice", x)
				case *ast.TypeAssertExpr:
					if !commaOk[x] {
						add("assert", x)
					}
				case *ast.BinaryExpr:
					if x.Op == token.QUO || x.Op == token.REM {
						add("div", x)
					}
				case *ast.CallExpr:
					switch fn := x.Fun.(type) {
					case *ast.Ident:
						if fn.Name == "panic" {
							add("panic", x)
						}
					case *ast.SelectorExpr:
						recv := c04Src(fset, fn.X)
						if recv == "Log" && (strings.HasPrefix(fn.Sel.Name, "Panic") || strings.HasPrefix(fn.Sel.Name, "Fatal")) {
							add("panic", &ast.SelectorExpr{X: fn.X, Sel: fn.Sel})
						}
						if c04IfaceFields[recv] {
							add("nilcall", &ast.SelectorExpr{X: fn.X, Sel: fn.Sel})
						}
						// fixed-width reads / writes on a slice: the index expression lives in naza/bele (encoding/binary)
						if recv == "bele" && fn.Sel.Name != "WriteBe" {
							add("bele", x)
						}
						// naza connection.Mod* panic (ErrConnectionPanic) when the property was already set
						if recv == "s.conn" && strings.HasPrefix(fn.Sel.Name, "Mod") {
							add("connmod", x)
						}
						// nazabytes.Buffer.ReserveBytes(n) slices WritableBytes()[:n] after Grow(n)
						if fn.Sel.Name == "ReserveBytes" {
							add("reserve", x)
						}
					}
				}
				return true
			})
		}
		for n, seen := range want {
			if !seen {
				return nil, fmt.Errorf("%s: modelled function %s no longer exists", file, n)
			}
		}
	}
	return out, nil
}

func c04LeanStr(s string) string {
	s = strings.ReplaceAll(s, "\\", "\\\\")
	s = strings.ReplaceAll(s, "\"", "\\\"")
	return "\"" + s + "\""
}

func c04SitesLean(repo string) (string, error) {
	sites, err := c04Sites(repo)
	if err != nil {
		return "", err
	}
	var sb strings.Builder
	sb.WriteString("/-- every index / slice / type-assertion / explicit-panic / division / interface-call site of the functions the C04 model covers:\n")
	sb.WriteString("    (function, kind, source text, number of occurrences in that function). Positions are listed in `c04SitePos` for the reader only (they move with unrelated edits). -/\n")
	sb.WriteString("def c04Sites : List (String × String × String × Nat) := [\n")
	type key struct{ fn, kind, expr string }
	count := map[key]int{}
	var order []key
	for _, s := range sites {
		k := key{s.fn, s.kind, s.expr}
		if count[k] == 0 {
			order = append(order, k)
		}
		count[k]++
	}
	for i, k := range order {
		sep := ","
		if i == len(order)-1 {
			sep = ""
		}
		fmt.Fprintf(&sb, "  (%s, %s, %s, %d)%s\n", c04LeanStr(k.fn), c04LeanStr(k.kind), c04LeanStr(k.expr), count[k], sep)
	}
	sb.WriteString("]\n\n")
	sb.WriteString("def c04SitePos : List String := [\n")
	for i, s := range sites {
		sep := ","
		if i == len(sites)-1 {
			sep = ""
		}
		fmt.Fprintf(&sb, "  %s%s\n", c04LeanStr(s.pos), sep)
	}
	sb.WriteString("]\n\n")
	return sb.String(), nil
}

func init() {
	extractors["C04Consts"] = c04Consts
	extractors["C04Sites"] = c04SitesLean
}
