package main

// C05: thresholds of the modelled code, read from the source tree on every run (unexported constants, so they are
// parsed from the AST rather than printed from the packages).

import (
	"fmt"
	"go/ast"
	"go/parser"
	"go/token"
	"path/filepath"
	"strconv"
	"strings"
)

// c05EvalInt evaluates an integer literal or a product / sum of them.
func c05EvalInt(e ast.Expr) (uint64, bool) {
	switch x := e.(type) {
	case *ast.BasicLit:
		if x.Kind != token.INT {
			return 0, false
		}
		v, err := strconv.ParseUint(x.Value, 0, 64)
		return v, err == nil
	case *ast.ParenExpr:
		return c05EvalInt(x.X)
	case *ast.BinaryExpr:
		a, ok1 := c05EvalInt(x.X)
		b, ok2 := c05EvalInt(x.Y)
		if !ok1 || !ok2 {
			return 0, false
		}
		switch x.Op {
		case token.MUL:
			return a * b, true
		case token.ADD:
			return a + b, true
		}
	}
	return 0, false
}

func c05IntDecls(path string) (map[string]uint64, error) {
	f, err := parser.ParseFile(token.NewFileSet(), path, nil, 0)
	if err != nil {
		return nil, err
	}
	m := map[string]uint64{}
	for _, d := range f.Decls {
		gd, ok := d.(*ast.GenDecl)
		if !ok {
			continue
		}
		for _, s := range gd.Specs {
			vs, ok := s.(*ast.ValueSpec)
			if !ok {
				continue
			}
			for i, n := range vs.Names {
				if i < len(vs.Values) {
					if v, ok := c05EvalInt(vs.Values[i]); ok {
						m[n.Name] = v
					}
				}
			}
		}
	}
	return m, nil
}

func init() {
	extractors["C05Consts"] = func(repo string) (string, error) {
		var sb strings.Builder
		want := []struct{ file, name, lean string }{
			{"pkg/remux/dummy_audio_filter.go", "dummyAudioFilterMaxGapMs", "dummyAudioFilterMaxGapMs"},
			{"pkg/remux/rtmp2mpegts.go", "calcFragmentHeaderQueueSize", "calcFragmentHeaderQueueSize"},
			{"pkg/remux/rtmp2mpegts.go", "maxAudioCacheDelayByAudio", "maxAudioCacheDelayByAudio"},
			{"pkg/remux/rtmp2mpegts.go", "maxAudioCacheDelayByVideo", "maxAudioCacheDelayByVideo"},
			{"pkg/remux/rtmp2rtsp.go", "maxAnalyzeAvMsgSize", "maxAnalyzeAvMsgSize"},
			{"pkg/remux/remux.go", "pcmDefaultSampleRate", "pcmDefaultSampleRate"},
			{"pkg/remux/remux.go", "opusDefaultSampleRate", "opusDefaultSampleRate"},
			{"pkg/hls/hls.go", "negMaxfraglen", "hlsNegMaxfraglen"},
		}
		cache := map[string]map[string]uint64{}
		for _, w := range want {
			m, ok := cache[w.file]
			if !ok {
				var err error
				m, err = c05IntDecls(filepath.Join(repo, w.file))
				if err != nil {
					return "", err
				}
				cache[w.file] = m
			}
			v, ok := m[w.name]
			if !ok {
				if w.name == "dummyAudioFilterMaxGapMs" {
					// no re-synchronisation threshold in the source (the pinned tree): the model then never fills a gap,
					// the bound theorem is about 0, and the oracle reports every frame-by-frame fill of the code
					leanNat(&sb, w.lean, w.file+" "+w.name+" (NOT FOUND in the source: no threshold)", 0)
					continue
				}
				return "", fmt.Errorf("%s: constant %s not found", w.file, w.name)
			}
			leanNat(&sb, w.lean, w.file+" "+w.name, int64(v))
		}
		return sb.String(), nil
	}
}
