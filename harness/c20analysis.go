package main

// C20 — static extraction of the synchronisation skeleton of lal:
//   * lock classes (struct field / package var of type sync.Mutex, sync.RWMutex; sync.Once as pseudo-lock),
//   * holds: lock b acquired (directly or through calls) while lock a may be held, with a witness chain,
//   * access: reads/writes of the fields of the tracked structs with the set of locks that MUST be held,
//   * channel facts (make capacity, send/recv/close sites and the locks held there).
//
// Method: one flow-sensitive walk per analysis unit (function × receiver context) tracking a may-held
// and a must-held lock set, a field-based inclusion analysis for function values (closures, callbacks,
// method values), class-hierarchy resolution of interface calls to lal's implementers, then two
// fixpoints over the call graph (may-held / must-held at unit entry). `go` statements and function
// values handed to asynchronous runners start threads (entry lock set empty).
//
// Sound only up to: reflection, function values stored in interface{} values, calls made by
// packages outside lal/pkg (naza, stdlib) except the classified callback runners below, lock
// instance identity (lock classes are per struct field, not per object), and the receiver-context
// rule (an object whose callback fields are set through one home field is not re-configured
// through a different home field).

import (
	"fmt"
	"go/ast"
	"go/constant"
	"go/token"
	"go/types"
	"sort"
	"strings"
)

type c20Set uint64

func (s c20Set) has(i int) bool { return s&(1<<uint(i)) != 0 }
func (s c20Set) list() []int {
	var out []int
	for i := 0; i < 64; i++ {
		if s.has(i) {
			out = append(out, i)
		}
	}
	return out
}

const (
	c20EvAcquire = iota
	c20EvCall
	c20EvSpawn
	c20EvAccess
	c20EvSend
	c20EvRecv
	c20EvClose
	c20EvMake
)

type c20Class struct {
	name string
	kind string // mutex | rwmutex | once
	obj  types.Object
}

type c20State struct {
	may, must c20Set
	// mustW: locks held EXCLUSIVELY (Lock, not RLock) on every path; a write is only protected by these
	mustW c20Set
}

type c20Event struct {
	kind      int
	pos       token.Pos
	st        c20State
	lock      int
	call      *ast.CallExpr
	deferred  bool
	once      int // >=0: call made through sync.Once.Do of that class
	targets   []*c20Func
	extern    string
	asyncArgs []*c20Func // function values handed to an asynchronous runner (thread roots)
	field     *types.Var
	write     bool
	initAcc   bool
	addr      bool
	ch        types.Object
	chCap     int64
	inSelect  bool // send/recv inside a select with another alternative
}

// c20Fn: a function declaration or literal (static part).
type c20Fn struct {
	id      int
	name    string
	pk      *c20Pkg
	obj     *types.Func
	lit     *ast.FuncLit
	decl    *ast.FuncDecl
	parent  *c20Fn
	recv    *types.Var
	self    *types.Var // receiver of the enclosing method (also for literals nested in it)
	ctxable bool       // the receiver's struct type carries function-valued fields: analysed per home field
	sig     *types.Signature
	units   []*c20Func
	// builder chains: `x.F = NewT().WithA(f)` / `v := NewT().WithA(f); x.F = v` give the call results and v the context F
	ctxDone bool
	ctxOv   map[ast.Expr]*types.Var
	ctxVar  map[types.Object]*types.Var
}

// c20Func: an analysis unit = function in a receiver context. The context is the struct field through
// which the receiver object was reached at the call site (nil = unknown path). Function-valued fields
// of the receiver are kept apart per context, so that two instances of one helper type (e.g. the
// group's remuxer and a customize session's remuxer) do not exchange their callbacks.
type c20Func struct {
	*c20Fn
	ctx     *types.Var
	uid     int
	label   string
	events  []*c20Event
	results []int // flow nodes of results
	// call graph
	in []*c20Site
	// roots
	root    bool
	rootWhy string
	live    bool // reachable from a thread root
	// fixpoints
	entryMay  c20Set
	entryMust c20Set
	entryMustW c20Set // held exclusively at entry on every path
	mayWhy    map[int]*c20Site
	acq       c20Set
	// constructor context: accesses through a freshly created object
	fresh      map[types.Object]bool
	ctorOnly   bool
	unbalanced []string
}

type c20Site struct {
	caller *c20Func
	ev     *c20Event
}

type c20UnitKey struct {
	fn  *c20Fn
	ctx *types.Var
}

type c20NodeKey struct {
	ctx  *types.Var
	obj  interface{}
	kind byte // 'v' variable, 'R' field read view, 'W' field written values, 'r' result
	idx  int
}

type c20Analysis struct {
	p        *c20Prog
	fns      []*c20Fn
	funcs    []*c20Func // units, in creation order
	units    map[c20UnitKey]*c20Func
	pending  []*c20Func
	byObj    map[*types.Func]*c20Fn
	byLit    map[*ast.FuncLit]*c20Fn
	fieldCtx map[*types.Var][]*types.Var
	fieldSeq []*types.Var
	classes  []*c20Class
	classOf  map[types.Object]int
	owner    map[*types.Var]*types.Named // struct field -> owning named struct
	tracked  map[*types.Named]bool
	named    []*types.Named // all named non-interface types of lal
	chaCache map[*types.Func][]*c20Fn
	ctxType  map[*types.Named]bool
	ifaced   map[*types.Named]bool // concrete types converted to a non-empty interface somewhere in lal/pkg
	// flow
	nodeOf   map[c20NodeKey]int
	nodeName []string
	pts      []map[*c20Func]bool
	copyTo   [][]int // copyTo[w] = nodes v with v ⊇ w
	notes    []string
	extUnk   map[string]bool
	dead     int
	extIface map[*types.Named][]*types.Interface // lal types handed to code outside lal/pkg as an interface
}

// c20Tracked: structs whose fields go into the access table (besides every struct that owns a mutex).
var c20Tracked = map[string][]string{
	"logic":   {"Group", "ServerManager", "SimpleGroupManager", "ComplexGroupManager", "IpBlacklist", "pullProxy", "pushProxy", "CustomizePubSessionContext", "HttpNotify", "HttpApiServer", "HttpServerHandler"},
	"rtsp":    {"BaseInSession", "BaseOutSession", "PubSession", "SubSession", "ServerCommandSession", "Server"},
	"hls":     {"ServerHandler", "SubSession"},
	"rtmp":    {"ServerSession", "Server"},
	"base":    {"BasicSessionStat", "BasicHttpSubSession", "HttpServerManager"},
	"httpflv": {"SubSession"},
	"httpts":  {"SubSession"},
	"gb28181": {"PubSession"},
}

// External callees that run a function-valued argument on another goroutine / later (thread roots),
// and those that run it before returning (synchronous). Anything else with a function-valued
// argument is treated as BOTH (conservative for the lock order and for the lock sets) and listed.
var c20AsyncRunners = map[string]bool{
	"(github.com/q191201771/naza/pkg/taskpool.Pool).Go": true,
	"github.com/q191201771/naza/pkg/taskpool.Go":        true,
	"github.com/q191201771/naza/pkg/defertaskthread.Go": true,
	"(*net/http.ServeMux).HandleFunc":                   true,
	"net/http.HandleFunc":                               true,
	"time.AfterFunc":                                    true,
	"conv:net/http.HandlerFunc":                         true,
}
var c20SyncRunners = map[string]bool{
	"(*sync.Once).Do": true,
	"sort.Slice":      true, "sort.SliceStable": true, "sort.Search": true,
	"strings.Map": true, "strings.FieldsFunc": true, "strings.TrimFunc": true, "strings.IndexFunc": true,
	"bytes.IndexFunc": true, "bytes.FieldsFunc": true,
	"github.com/q191201771/naza/pkg/connection.New":                   true,
	"github.com/q191201771/naza/pkg/nazalog.New":                      true,
	"github.com/q191201771/naza/pkg/nazalog.Init":                     true,
	"github.com/q191201771/naza/pkg/taskpool.NewPool":                 true,
	"path/filepath.Walk":                                              true,
	"reflect.ValueOf":                                                 true, // inspects the value, never runs it
	"strings.LastIndexFunc":                                           true,
	"github.com/q191201771/naza/pkg/nazanet.NewUdpConnection":         true, // option modifier
	"(*github.com/q191201771/naza/pkg/nazanet.UdpConnection).RunLoop": true, // read loop calls onRead in the calling goroutine
	"(github.com/q191201771/naza/pkg/nazalog.Logger).Init":            true,
}

func c20Analyse(p *c20Prog) *c20Analysis {
	a := &c20Analysis{p: p, byObj: map[*types.Func]*c20Fn{}, byLit: map[*ast.FuncLit]*c20Fn{},
		units: map[c20UnitKey]*c20Func{}, fieldCtx: map[*types.Var][]*types.Var{},
		classOf: map[types.Object]int{}, owner: map[*types.Var]*types.Named{}, tracked: map[*types.Named]bool{},
		chaCache: map[*types.Func][]*c20Fn{}, ctxType: map[*types.Named]bool{}, nodeOf: map[c20NodeKey]int{}, extUnk: map[string]bool{}}
	a.collectTypes()
	a.collectFuncs()
	a.collectConversions()
	// units in the unknown context for everything that is not a method of a context-analysed type
	for _, fn := range a.fns {
		if !fn.ctxable {
			a.unit(fn, nil)
		}
	}
	for {
		a.solveFlow()
		// context-analysed functions nobody calls are entry points: analyse them in the unknown context
		added := false
		for _, fn := range a.fns {
			if len(fn.units) == 0 {
				a.unit(fn, nil)
				added = true
			}
		}
		if !added {
			break
		}
	}
	a.propagate()
	return a
}

// ------------------------------------------------------------------------------------------------
// types, lock classes, tracked structs

func c20IsSync(t types.Type, name string) bool {
	if p, ok := t.(*types.Pointer); ok {
		t = p.Elem()
	}
	n, ok := t.(*types.Named)
	if !ok || n.Obj().Pkg() == nil {
		return false
	}
	return n.Obj().Pkg().Path() == "sync" && n.Obj().Name() == name
}

func (a *c20Analysis) addClass(obj types.Object, name, kind string) int {
	if i, ok := a.classOf[obj]; ok {
		return i
	}
	i := len(a.classes)
	a.classes = append(a.classes, &c20Class{name: name, kind: kind, obj: obj})
	a.classOf[obj] = i
	return i
}

func (a *c20Analysis) collectTypes() {
	for _, pk := range a.p.lalPkgs() {
		sc := pk.tpkg.Scope()
		names := sc.Names()
		sort.Strings(names)
		sp := c20ShortPkg(pk.path)
		for _, n := range names {
			obj := sc.Lookup(n)
			switch o := obj.(type) {
			case *types.TypeName:
				nt, ok := o.Type().(*types.Named)
				if !ok {
					continue
				}
				if _, isIf := nt.Underlying().(*types.Interface); !isIf {
					a.named = append(a.named, nt)
				}
				st, ok := nt.Underlying().(*types.Struct)
				if !ok {
					continue
				}
				hasLock := false
				for i := 0; i < st.NumFields(); i++ {
					f := st.Field(i)
					a.owner[f] = nt
					cn := sp + "." + n + "." + f.Name()
					switch {
					case c20IsSync(f.Type(), "Mutex"):
						a.addClass(f, cn, "mutex")
						hasLock = true
					case c20IsSync(f.Type(), "RWMutex"):
						a.addClass(f, cn, "rwmutex")
						hasLock = true
					case c20IsSync(f.Type(), "Once"):
						a.addClass(f, cn, "once")
					}
					if _, isSig := f.Type().Underlying().(*types.Signature); isSig {
						a.ctxType[nt] = true
					}
				}
				if hasLock {
					a.tracked[nt] = true
				}
				for _, tn := range c20Tracked[sp] {
					if tn == n {
						a.tracked[nt] = true
					}
				}
			case *types.Var:
				cn := sp + "." + n
				switch {
				case c20IsSync(o.Type(), "Mutex"):
					a.addClass(o, cn, "mutex")
				case c20IsSync(o.Type(), "RWMutex"):
					a.addClass(o, cn, "rwmutex")
				case c20IsSync(o.Type(), "Once"):
					a.addClass(o, cn, "once")
				}
			}
		}
	}
	// a struct embedding (by value or pointer) a context-analysed struct is context-analysed too
	for changed := true; changed; {
		changed = false
		for _, nt := range a.named {
			if a.ctxType[nt] {
				continue
			}
			st, ok := nt.Underlying().(*types.Struct)
			if !ok {
				continue
			}
			for i := 0; i < st.NumFields(); i++ {
				f := st.Field(i)
				if !f.Embedded() {
					continue
				}
				if en := c20NamedOf(f.Type()); en != nil && a.ctxType[en] {
					a.ctxType[nt] = true
					changed = true
				}
			}
		}
	}
}

func c20NamedOf(t types.Type) *types.Named {
	if p, ok := t.(*types.Pointer); ok {
		t = p.Elem()
	}
	n, _ := t.(*types.Named)
	return n
}

func (a *c20Analysis) collectFuncs() {
	for _, pk := range a.p.lalPkgs() {
		sp := c20ShortPkg(pk.path)
		for _, file := range pk.files {
			for _, d := range file.Decls {
				fd, ok := d.(*ast.FuncDecl)
				if !ok || fd.Body == nil {
					continue
				}
				obj, _ := pk.info.Defs[fd.Name].(*types.Func)
				if obj == nil {
					continue
				}
				name := sp + "." + fd.Name.Name
				sig := obj.Type().(*types.Signature)
				var recv *types.Var
				ctxable := false
				if sig.Recv() != nil {
					recv = sig.Recv()
					rt := recv.Type()
					star := ""
					if pt, ok := rt.(*types.Pointer); ok {
						rt = pt.Elem()
						star = "*"
					}
					if nt, ok := rt.(*types.Named); ok {
						name = sp + ".(" + star + nt.Obj().Name() + ")." + fd.Name.Name
						ctxable = a.ctxType[nt]
					}
				}
				f := &c20Fn{id: len(a.fns), name: name, pk: pk, obj: obj, decl: fd, recv: recv, self: recv, ctxable: ctxable, sig: sig}
				a.fns = append(a.fns, f)
				a.byObj[obj] = f
				a.collectLits(f, fd.Body)
			}
		}
	}
}

func (a *c20Analysis) collectLits(parent *c20Fn, body ast.Node) {
	n := 0
	var visit func(nd ast.Node) bool
	visit = func(nd ast.Node) bool {
		lit, ok := nd.(*ast.FuncLit)
		if !ok {
			return true
		}
		n++
		sig, _ := parent.pk.info.TypeOf(lit).(*types.Signature)
		f := &c20Fn{id: len(a.fns), name: fmt.Sprintf("%s$%d", parent.name, n), pk: parent.pk, lit: lit, parent: parent,
			self: parent.self, ctxable: parent.ctxable, sig: sig}
		a.fns = append(a.fns, f)
		a.byLit[lit] = f
		a.collectLits(f, lit.Body)
		return false
	}
	ast.Inspect(body, visit)
}

// unit returns (creating and scheduling if needed) the analysis unit of fn in context ctx.
func (a *c20Analysis) unit(fn *c20Fn, ctx *types.Var) *c20Func {
	if !fn.ctxable {
		ctx = nil
	}
	k := c20UnitKey{fn, ctx}
	if u, ok := a.units[k]; ok {
		return u
	}
	u := &c20Func{c20Fn: fn, ctx: ctx, uid: len(a.funcs), label: fn.name}
	if ctx != nil {
		u.label = fn.name + "<" + a.ctxName(ctx) + ">"
	}
	a.units[k] = u
	a.funcs = append(a.funcs, u)
	fn.units = append(fn.units, u)
	a.pending = append(a.pending, u)
	return u
}

func (a *c20Analysis) ctxName(v *types.Var) string {
	if nt := a.owner[v]; nt != nil {
		return nt.Obj().Name() + "." + v.Name()
	}
	return v.Name()
}

// ------------------------------------------------------------------------------------------------
// flow nodes

func (a *c20Analysis) node(key c20NodeKey, name string) int {
	if i, ok := a.nodeOf[key]; ok {
		return i
	}
	i := len(a.pts)
	a.nodeOf[key] = i
	a.nodeName = append(a.nodeName, name)
	a.pts = append(a.pts, map[*c20Func]bool{})
	a.copyTo = append(a.copyTo, nil)
	return i
}

func (a *c20Analysis) retNode(f *c20Func, i int) int {
	return a.node(c20NodeKey{ctx: f.ctx, obj: f.c20Fn, kind: 'r', idx: i}, fmt.Sprintf("ret%d(%s)", i, f.label))
}

// fieldNodes returns the (read view, written values) nodes of a function-valued field in a context and
// wires them: written(c) → read(c); written(unknown) → read(every c); written(every c) → read(unknown).
func (a *c20Analysis) fieldNodes(ctx *types.Var, f *types.Var) (r, w int) {
	rk := c20NodeKey{ctx: ctx, obj: f, kind: 'R'}
	if i, ok := a.nodeOf[rk]; ok {
		return i, a.nodeOf[c20NodeKey{ctx: ctx, obj: f, kind: 'W'}]
	}
	nm := "field " + f.Name()
	if ctx != nil {
		nm += "<" + a.ctxName(ctx) + ">"
	}
	r = a.node(rk, "R "+nm)
	w = a.node(c20NodeKey{ctx: ctx, obj: f, kind: 'W'}, "W "+nm)
	a.addCopy(r, w)
	for _, c := range a.fieldCtx[f] {
		or, ow := a.fieldNodes(c, f)
		if ctx == nil || c == nil {
			a.addCopy(r, ow)
			a.addCopy(or, w)
		}
	}
	if len(a.fieldCtx[f]) == 0 {
		a.fieldSeq = append(a.fieldSeq, f)
	}
	a.fieldCtx[f] = append(a.fieldCtx[f], ctx)
	return r, w
}

func (a *c20Analysis) addFunc(n int, f *c20Func) { a.pts[n][f] = true }
func (a *c20Analysis) addCopy(dst, src int) {
	if dst == src {
		return
	}
	for _, d := range a.copyTo[src] {
		if d == dst {
			return
		}
	}
	a.copyTo[src] = append(a.copyTo[src], dst)
}

func c20Funcish(t types.Type) bool {
	for i := 0; i < 4 && t != nil; i++ {
		switch u := t.Underlying().(type) {
		case *types.Signature:
			return true
		case *types.Slice:
			t = u.Elem()
		case *types.Array:
			t = u.Elem()
		case *types.Map:
			t = u.Elem()
		case *types.Pointer:
			t = u.Elem()
		default:
			return false
		}
	}
	return false
}

// ------------------------------------------------------------------------------------------------
// the per-unit walk

type c20Defer struct {
	unlock int // >=0: deferred unlock of that class
	ev     *c20Event
}

type c20Walker struct {
	a       *c20Analysis
	f       *c20Func
	info    *types.Info
	defers  []c20Defer
	returns []c20State
	loops   []*[]c20State // break/continue states of enclosing loops
}

func (w *c20Walker) run() {
	w.info = w.f.pk.info
	w.f.fresh = map[types.Object]bool{}
	var body *ast.BlockStmt
	if w.f.decl != nil {
		body = w.f.decl.Body
	} else {
		body = w.f.lit.Body
	}
	// result nodes
	if w.f.sig != nil {
		for i := 0; i < w.f.sig.Results().Len(); i++ {
			rv := w.f.sig.Results().At(i)
			rn := w.a.retNode(w.f, i)
			w.f.results = append(w.f.results, rn)
			if rv.Name() != "" && c20Funcish(rv.Type()) {
				w.a.addCopy(rn, w.varNode(rv))
			}
		}
	}
	st, falls := w.block(body.List, c20State{})
	if falls {
		w.returns = append(w.returns, st)
	}
	// deferred unlocks and deferred calls
	var retMay c20Set
	retMust := ^c20Set(0)
	retMustW := ^c20Set(0)
	for _, r := range w.returns {
		retMay |= r.may
		retMust &= r.must
		retMustW &= r.mustW
	}
	if len(w.returns) == 0 {
		retMust = 0
		retMustW = 0
	}
	var unl c20Set
	for i, d := range w.defers {
		if d.unlock >= 0 {
			unl |= 1 << uint(d.unlock)
			continue
		}
		// locks whose deferred unlock was registered AFTER this deferred call are released before it runs
		must := retMust
		mustW := retMustW
		for _, d2 := range w.defers[i+1:] {
			if d2.unlock >= 0 {
				must &^= 1 << uint(d2.unlock)
				mustW &^= 1 << uint(d2.unlock)
			}
		}
		d.ev.st = c20State{may: retMay | d.ev.st.may, must: must & d.ev.st.must, mustW: mustW & d.ev.st.mustW}
	}
	for _, r := range w.returns {
		if left := r.may &^ unl; left != 0 {
			for _, l := range left.list() {
				w.f.unbalanced = append(w.f.unbalanced, "returns holding "+w.a.classes[l].name)
			}
		}
	}
}

func (w *c20Walker) ev(e *c20Event) *c20Event {
	w.f.events = append(w.f.events, e)
	return e
}

// varNode: flow node of a variable (locals/params per unit context, package variables shared).
func (w *c20Walker) varNode(v *types.Var) int {
	if v.Pkg() != nil && v.Parent() == v.Pkg().Scope() {
		return w.a.node(c20NodeKey{obj: v, kind: 'v'}, v.Name())
	}
	return w.a.node(c20NodeKey{ctx: w.f.ctx, obj: v, kind: 'v'}, v.Name())
}

// ctxOfBase: the receiver context denoted by a base expression: the unit's own context for its receiver,
// the home field for `x.f`, unknown otherwise.
func (w *c20Walker) ctxOfBase(e ast.Expr) *types.Var {
	e = ast.Unparen(e)
	w.homeFields()
	if v, ok := w.f.ctxOv[e]; ok {
		return v
	}
	switch e := e.(type) {
	case *ast.Ident:
		if o := w.objOf(e); o != nil && w.f.self != nil && o == types.Object(w.f.self) {
			return w.f.ctx
		}
		if o := w.objOf(e); o != nil {
			if v, ok := w.f.ctxVar[o]; ok {
				return v
			}
		}
	case *ast.SelectorExpr:
		if sel := w.info.Selections[e]; sel != nil && sel.Kind() == types.FieldVal {
			v := sel.Obj().(*types.Var)
			if v.Embedded() { // promoted access through an embedded struct: same object, same context
				return w.ctxOfBase(e.X)
			}
			t := v.Type()
			if types.IsInterface(t) {
				return v
			}
			if nt := c20NamedOf(t); nt != nil && w.a.ctxType[nt] {
				return v
			}
		}
	}
	return nil
}

// homeFields finds, once per function, the locals and builder-call results that end up in a
// context-analysed struct field of the same type.
func (w *c20Walker) homeFields() {
	fn := w.f.c20Fn
	if fn.ctxDone {
		return
	}
	fn.ctxDone = true
	fn.ctxOv = map[ast.Expr]*types.Var{}
	fn.ctxVar = map[types.Object]*types.Var{}
	info := fn.pk.info
	var body *ast.BlockStmt
	if fn.decl != nil {
		body = fn.decl.Body
	} else {
		body = fn.lit.Body
	}
	homeOf := func(l ast.Expr) *types.Var {
		sx, ok := ast.Unparen(l).(*ast.SelectorExpr)
		if !ok {
			return nil
		}
		sel := info.Selections[sx]
		if sel == nil || sel.Kind() != types.FieldVal {
			return nil
		}
		v := sel.Obj().(*types.Var)
		if nt := c20NamedOf(v.Type()); nt != nil && w.a.ctxType[nt] && !v.Embedded() {
			return v
		}
		return nil
	}
	var markChain func(e ast.Expr, home *types.Var)
	markChain = func(e ast.Expr, home *types.Var) {
		e = ast.Unparen(e)
		c, ok := e.(*ast.CallExpr)
		if !ok {
			return
		}
		if c20NamedOf(info.TypeOf(c)) != c20NamedOf(home.Type()) || c20NamedOf(home.Type()) == nil {
			return
		}
		fn.ctxOv[c] = home
		if sx, ok := ast.Unparen(c.Fun).(*ast.SelectorExpr); ok {
			if s := info.Selections[sx]; s != nil && s.Kind() == types.MethodVal {
				markChain(sx.X, home)
			}
		}
	}
	// pass 1: x.F = v  (v a local)
	ast.Inspect(body, func(n ast.Node) bool {
		if _, isLit := n.(*ast.FuncLit); isLit {
			return false
		}
		as, ok := n.(*ast.AssignStmt)
		if !ok || len(as.Lhs) != len(as.Rhs) {
			return true
		}
		for i := range as.Lhs {
			home := homeOf(as.Lhs[i])
			if home == nil {
				continue
			}
			if id, ok := ast.Unparen(as.Rhs[i]).(*ast.Ident); ok {
				if o, ok := info.Uses[id].(*types.Var); ok && !o.IsField() && c20NamedOf(o.Type()) == c20NamedOf(home.Type()) {
					if prev, dup := fn.ctxVar[o]; dup && prev != home {
						fn.ctxVar[o] = nil
					} else {
						fn.ctxVar[o] = home
					}
				}
			}
			markChain(as.Rhs[i], home)
		}
		return true
	})
	for o, v := range fn.ctxVar {
		if v == nil {
			delete(fn.ctxVar, o)
		}
	}
	// pass 2: v := chain
	ast.Inspect(body, func(n ast.Node) bool {
		if _, isLit := n.(*ast.FuncLit); isLit {
			return false
		}
		as, ok := n.(*ast.AssignStmt)
		if !ok || len(as.Lhs) != len(as.Rhs) {
			return true
		}
		for i := range as.Lhs {
			id, ok := ast.Unparen(as.Lhs[i]).(*ast.Ident)
			if !ok {
				continue
			}
			var o types.Object = info.Defs[id]
			if o == nil {
				o = info.Uses[id]
			}
			if home, ok := fn.ctxVar[o]; ok {
				markChain(as.Rhs[i], home)
			}
		}
		return true
	})
}

func (w *c20Walker) block(list []ast.Stmt, st c20State) (c20State, bool) {
	for _, s := range list {
		var falls bool
		st, falls = w.stmt(s, st)
		if !falls {
			return st, false
		}
	}
	return st, true
}

func c20Merge(states []c20State) (c20State, bool) {
	if len(states) == 0 {
		return c20State{}, false
	}
	out := c20State{must: ^c20Set(0), mustW: ^c20Set(0)}
	for _, s := range states {
		out.may |= s.may
		out.must &= s.must
		out.mustW &= s.mustW
	}
	return out, true
}

func (w *c20Walker) stmt(s ast.Stmt, st c20State) (c20State, bool) {
	switch s := s.(type) {
	case nil:
		return st, true
	case *ast.ExprStmt:
		w.expr(s.X, &st, false)
		if c, ok := s.X.(*ast.CallExpr); ok {
			if id, ok := c.Fun.(*ast.Ident); ok && id.Name == "panic" {
				if _, isB := w.info.Uses[id].(*types.Builtin); isB {
					return st, false
				}
			}
		}
		return st, true
	case *ast.AssignStmt:
		for _, r := range s.Rhs {
			w.expr(r, &st, false)
		}
		for _, l := range s.Lhs {
			w.lhs(l, &st)
		}
		w.assignFlow(s.Lhs, s.Rhs)
		return st, true
	case *ast.IncDecStmt:
		w.lhs(s.X, &st)
		return st, true
	case *ast.DeclStmt:
		if gd, ok := s.Decl.(*ast.GenDecl); ok {
			for _, sp := range gd.Specs {
				if vs, ok := sp.(*ast.ValueSpec); ok {
					for _, v := range vs.Values {
						w.expr(v, &st, false)
					}
					var lhs []ast.Expr
					for _, n := range vs.Names {
						lhs = append(lhs, n)
						// `var s T` with T a struct: a fresh object
						if len(vs.Values) == 0 {
							if o := w.info.Defs[n]; o != nil {
								if _, isStruct := o.Type().Underlying().(*types.Struct); isStruct {
									w.f.fresh[o] = true
								}
							}
						}
					}
					if len(vs.Values) > 0 {
						w.assignFlow(lhs, vs.Values)
					}
				}
			}
		}
		return st, true
	case *ast.GoStmt:
		for _, arg := range s.Call.Args {
			w.expr(arg, &st, false)
		}
		if sel, ok := s.Call.Fun.(*ast.SelectorExpr); ok {
			w.expr(sel.X, &st, false)
		}
		w.ev(&c20Event{kind: c20EvSpawn, pos: s.Pos(), st: st, call: s.Call, once: -1, extern: w.externName(s.Call)})
		return st, true
	case *ast.DeferStmt:
		if cls, op := w.lockOp(s.Call); cls >= 0 {
			if op == "Unlock" || op == "RUnlock" {
				w.defers = append(w.defers, c20Defer{unlock: cls})
				return st, true
			}
		}
		for _, arg := range s.Call.Args {
			w.expr(arg, &st, false)
		}
		if sel, ok := s.Call.Fun.(*ast.SelectorExpr); ok {
			w.expr(sel.X, &st, false)
		}
		e := w.callEvent(s.Call, st)
		if e != nil {
			e.deferred = true
			w.defers = append(w.defers, c20Defer{unlock: -1, ev: e})
		}
		return st, true
	case *ast.ReturnStmt:
		for i, r := range s.Results {
			w.expr(r, &st, false)
			if i < len(w.f.results) && len(s.Results) == len(w.f.results) {
				w.flowInto(w.f.results[i], r)
			}
		}
		w.returns = append(w.returns, st)
		return st, false
	case *ast.BlockStmt:
		return w.block(s.List, st)
	case *ast.IfStmt:
		if s.Init != nil {
			st, _ = w.stmt(s.Init, st)
		}
		w.expr(s.Cond, &st, false)
		var outs []c20State
		if o, falls := w.block(s.Body.List, st); falls {
			outs = append(outs, o)
		}
		if s.Else != nil {
			if o, falls := w.stmt(s.Else, st); falls {
				outs = append(outs, o)
			}
		} else {
			outs = append(outs, st)
		}
		return c20Merge(outs)
	case *ast.ForStmt:
		if s.Init != nil {
			st, _ = w.stmt(s.Init, st)
		}
		return w.loop(st, func(in c20State) (c20State, bool) {
			if s.Cond != nil {
				w.expr(s.Cond, &in, false)
			}
			o, falls := w.block(s.Body.List, in)
			if falls && s.Post != nil {
				o, _ = w.stmt(s.Post, o)
			}
			return o, falls
		}, s.Cond == nil)
	case *ast.RangeStmt:
		w.expr(s.X, &st, false)
		if t := w.info.TypeOf(s.X); t != nil {
			if _, isCh := t.Underlying().(*types.Chan); isCh {
				if obj := w.chanObj(s.X); obj != nil {
					w.ev(&c20Event{kind: c20EvRecv, pos: s.Pos(), st: st, ch: obj, once: -1})
				}
			}
		}
		if s.Value != nil && c20Funcish(w.info.TypeOf(s.Value)) {
			if id, ok := s.Value.(*ast.Ident); ok {
				if obj, ok := w.objOf(id).(*types.Var); ok {
					w.flowInto(w.varNode(obj), s.X)
				}
			}
		}
		return w.loop(st, func(in c20State) (c20State, bool) {
			if s.Key != nil && s.Tok == token.ASSIGN {
				w.lhs(s.Key, &in)
			}
			if s.Value != nil && s.Tok == token.ASSIGN {
				w.lhs(s.Value, &in)
			}
			return w.block(s.Body.List, in)
		}, false)
	case *ast.SwitchStmt:
		if s.Init != nil {
			st, _ = w.stmt(s.Init, st)
		}
		if s.Tag != nil {
			w.expr(s.Tag, &st, false)
		}
		return w.clauses(s.Body, st)
	case *ast.TypeSwitchStmt:
		if s.Init != nil {
			st, _ = w.stmt(s.Init, st)
		}
		st, _ = w.stmt(s.Assign, st)
		return w.clauses(s.Body, st)
	case *ast.SelectStmt:
		return w.selectStmt(s, st)
	case *ast.SendStmt:
		w.expr(s.Value, &st, false)
		w.expr(s.Chan, &st, false)
		if obj := w.chanObj(s.Chan); obj != nil {
			w.ev(&c20Event{kind: c20EvSend, pos: s.Pos(), st: st, ch: obj, once: -1})
		}
		return st, true
	case *ast.LabeledStmt:
		return w.stmt(s.Stmt, st)
	case *ast.BranchStmt:
		if s.Tok == token.BREAK || s.Tok == token.CONTINUE {
			if n := len(w.loops); n > 0 {
				*w.loops[n-1] = append(*w.loops[n-1], st)
			}
			return st, false
		}
		if s.Tok == token.GOTO {
			return st, false
		}
		return st, true // fallthrough
	case *ast.EmptyStmt:
		return st, true
	}
	return st, true
}

func (w *c20Walker) loop(st c20State, body func(c20State) (c20State, bool), infinite bool) (c20State, bool) {
	var exits []c20State
	w.loops = append(w.loops, &exits)
	in := st
	for i := 0; i < 3; i++ {
		exits = exits[:0]
		out, falls := body(in)
		states := []c20State{in}
		if falls {
			states = append(states, out)
		}
		states = append(states, exits...)
		m, _ := c20Merge(states)
		if m == in {
			break
		}
		// another pass with the merged state: events are recorded again (aggregated later)
		in = m
	}
	w.loops = w.loops[:len(w.loops)-1]
	if infinite && len(exits) == 0 {
		return in, false
	}
	return in, true
}

func (w *c20Walker) clauses(body *ast.BlockStmt, st c20State) (c20State, bool) {
	var outs []c20State
	hasDefault := false
	var exits []c20State
	w.loops = append(w.loops, &exits) // `break` inside switch leaves the switch
	for _, c := range body.List {
		cc := c.(*ast.CaseClause)
		in := st
		if cc.List == nil {
			hasDefault = true
		}
		for _, e := range cc.List {
			if tv, ok := w.info.Types[e]; ok && tv.IsType() {
				continue
			}
			w.expr(e, &in, false)
		}
		if o, falls := w.block(cc.Body, in); falls {
			outs = append(outs, o)
		}
	}
	w.loops = w.loops[:len(w.loops)-1]
	outs = append(outs, exits...)
	if !hasDefault {
		outs = append(outs, st)
	}
	return c20Merge(outs)
}

func (w *c20Walker) selectStmt(s *ast.SelectStmt, st c20State) (c20State, bool) {
	var outs []c20State
	var exits []c20State
	w.loops = append(w.loops, &exits)
	multi := len(s.Body.List) > 1
	for _, c := range s.Body.List {
		cc := c.(*ast.CommClause)
		in := st
		n0 := len(w.f.events)
		if cc.Comm != nil {
			in, _ = w.stmt(cc.Comm, in)
		}
		for _, e := range w.f.events[n0:] {
			if e.kind == c20EvSend || e.kind == c20EvRecv {
				e.inSelect = multi
			}
		}
		if o, falls := w.block(cc.Body, in); falls {
			outs = append(outs, o)
		}
	}
	w.loops = w.loops[:len(w.loops)-1]
	outs = append(outs, exits...)
	return c20Merge(outs)
}

func (w *c20Walker) objOf(id *ast.Ident) types.Object {
	if o := w.info.Defs[id]; o != nil {
		return o
	}
	return w.info.Uses[id]
}

// chanObj: the struct field / package var / local a channel (or lock) expression denotes.
func (w *c20Walker) chanObj(e ast.Expr) types.Object {
	e = ast.Unparen(e)
	switch e := e.(type) {
	case *ast.Ident:
		return w.objOf(e)
	case *ast.SelectorExpr:
		if sel := w.info.Selections[e]; sel != nil {
			return sel.Obj()
		}
		return w.info.Uses[e.Sel]
	}
	return nil
}

// lockOp recognises X.Lock()/Unlock()/RLock()/RUnlock() on sync.Mutex / sync.RWMutex.
func (w *c20Walker) lockOp(c *ast.CallExpr) (int, string) {
	sel, ok := c.Fun.(*ast.SelectorExpr)
	if !ok {
		return -1, ""
	}
	s := w.info.Selections[sel]
	if s == nil || s.Kind() != types.MethodVal {
		return -1, ""
	}
	m, ok := s.Obj().(*types.Func)
	if !ok || m.Pkg() == nil || m.Pkg().Path() != "sync" {
		return -1, ""
	}
	switch m.Name() {
	case "Lock", "Unlock", "RLock", "RUnlock", "TryLock", "TryRLock":
	default:
		return -1, ""
	}
	rt := m.Type().(*types.Signature).Recv().Type()
	if !c20IsSync(rt, "Mutex") && !c20IsSync(rt, "RWMutex") {
		return -1, ""
	}
	// the lock object: the field / var denoted by sel.X, or the embedded field on the selection path
	var obj types.Object
	if len(s.Index()) > 1 {
		t := s.Recv()
		for _, ix := range s.Index()[:len(s.Index())-1] {
			if p, ok := t.Underlying().(*types.Pointer); ok {
				t = p.Elem()
			}
			st, ok := t.Underlying().(*types.Struct)
			if !ok {
				break
			}
			obj = st.Field(ix)
			t = st.Field(ix).Type()
		}
	} else {
		obj = w.chanObj(sel.X)
	}
	if obj == nil {
		w.a.notes = append(w.a.notes, "lock operation on an unnamed lock at "+w.a.p.posStr(c.Pos()))
		return -1, ""
	}
	cls, ok := w.a.classOf[obj]
	if !ok {
		kind := "mutex"
		if c20IsSync(rt, "RWMutex") {
			kind = "rwmutex"
		}
		cls = w.a.addClass(obj, "local:"+w.f.name+"."+obj.Name(), kind)
	}
	return cls, m.Name()
}

func (w *c20Walker) lhs(e ast.Expr, st *c20State) {
	if id, ok := e.(*ast.Ident); ok && id.Name == "_" {
		return
	}
	w.expr(e, st, true)
}

// fieldPath returns the field vars selected by a (possibly promoted) field selection.
func c20FieldPath(sel *types.Selection) []*types.Var {
	var out []*types.Var
	t := sel.Recv()
	for _, ix := range sel.Index() {
		if p, ok := t.Underlying().(*types.Pointer); ok {
			t = p.Elem()
		}
		st, ok := t.Underlying().(*types.Struct)
		if !ok {
			return out
		}
		f := st.Field(ix)
		out = append(out, f)
		t = f.Type()
	}
	return out
}

func (w *c20Walker) access(f *types.Var, pos token.Pos, st c20State, write, addr bool, base ast.Expr) {
	nt := w.a.owner[f]
	if nt == nil || !w.a.tracked[nt] {
		return
	}
	fresh := false
	if id, ok := ast.Unparen(base).(*ast.Ident); ok {
		if o := w.objOf(id); o != nil && w.f.fresh[o] {
			fresh = true
		}
	}
	w.ev(&c20Event{kind: c20EvAccess, pos: pos, st: st, field: f, write: write, addr: addr, initAcc: fresh, once: -1})
}

func (w *c20Walker) expr(e ast.Expr, st *c20State, write bool) {
	switch e := e.(type) {
	case nil:
	case *ast.CallExpr:
		w.call(e, st)
	case *ast.SelectorExpr:
		sel := w.info.Selections[e]
		if sel == nil { // qualified identifier
			return
		}
		switch sel.Kind() {
		case types.FieldVal:
			path := c20FieldPath(sel)
			// base expression first (a write to x.f.g where f is a struct VALUE also writes f)
			baseWrite := false
			if write && len(path) > 0 {
				if _, isPtr := sel.Recv().Underlying().(*types.Pointer); !isPtr {
					if _, isSel := ast.Unparen(e.X).(*ast.SelectorExpr); isSel {
						baseWrite = true
					}
				}
			}
			w.expr(e.X, st, baseWrite)
			for i, f := range path {
				w.access(f, e.Sel.Pos(), *st, write && i == len(path)-1, false, e.X)
			}
		default:
			w.expr(e.X, st, false)
		}
	case *ast.IndexExpr:
		w.expr(e.X, st, write)
		w.expr(e.Index, st, false)
	case *ast.SliceExpr:
		w.expr(e.X, st, false)
		w.expr(e.Low, st, false)
		w.expr(e.High, st, false)
		w.expr(e.Max, st, false)
	case *ast.StarExpr:
		w.expr(e.X, st, false)
	case *ast.UnaryExpr:
		if e.Op == token.ARROW {
			w.expr(e.X, st, false)
			if obj := w.chanObj(e.X); obj != nil {
				w.ev(&c20Event{kind: c20EvRecv, pos: e.Pos(), st: *st, ch: obj, once: -1})
			}
			return
		}
		if e.Op == token.AND {
			if sx, ok := ast.Unparen(e.X).(*ast.SelectorExpr); ok {
				if sel := w.info.Selections[sx]; sel != nil && sel.Kind() == types.FieldVal {
					w.expr(sx.X, st, false)
					path := c20FieldPath(sel)
					for i, f := range path {
						last := i == len(path)-1
						w.access(f, sx.Sel.Pos(), *st, false, last, sx.X)
					}
					return
				}
			}
		}
		w.expr(e.X, st, false)
	case *ast.BinaryExpr:
		w.expr(e.X, st, false)
		w.expr(e.Y, st, false)
	case *ast.ParenExpr:
		w.expr(e.X, st, write)
	case *ast.TypeAssertExpr:
		w.expr(e.X, st, false)
	case *ast.KeyValueExpr:
		w.expr(e.Value, st, false)
	case *ast.CompositeLit:
		w.compositeLit(e, st)
	case *ast.FuncLit:
		// a value; its body is walked as its own unit
	}
}

func (w *c20Walker) compositeLit(e *ast.CompositeLit, st *c20State) {
	t := w.info.TypeOf(e)
	var stt *types.Struct
	if t != nil {
		stt, _ = t.Underlying().(*types.Struct)
	}
	for i, el := range e.Elts {
		if kv, ok := el.(*ast.KeyValueExpr); ok {
			w.expr(kv.Value, st, false)
			if stt != nil {
				if id, ok := kv.Key.(*ast.Ident); ok {
					if fv, ok := w.info.Uses[id].(*types.Var); ok {
						if c20Funcish(fv.Type()) {
							_, wn := w.a.fieldNodes(nil, fv)
							w.flowInto(wn, kv.Value)
						}
						w.chanMake(fv, kv.Value, *st)
					}
				}
			} else {
				w.expr(kv.Key, st, false)
			}
			continue
		}
		w.expr(el, st, false)
		if stt != nil && i < stt.NumFields() && c20Funcish(stt.Field(i).Type()) {
			_, wn := w.a.fieldNodes(nil, stt.Field(i))
			w.flowInto(wn, el)
		}
	}
}

// chanMake records `x = make(chan T, n)`.
func (w *c20Walker) chanMake(obj types.Object, rhs ast.Expr, st c20State) {
	c, ok := ast.Unparen(rhs).(*ast.CallExpr)
	if !ok {
		return
	}
	id, ok := c.Fun.(*ast.Ident)
	if !ok || id.Name != "make" || len(c.Args) == 0 {
		return
	}
	t := w.info.TypeOf(c.Args[0])
	if t == nil {
		return
	}
	if _, isCh := t.Underlying().(*types.Chan); !isCh {
		return
	}
	capv := int64(0)
	if len(c.Args) > 1 {
		capv = -1 // not a constant
		if tv, ok := w.info.Types[c.Args[1]]; ok && tv.Value != nil {
			if v, ok := constant.Int64Val(constant.ToInt(tv.Value)); ok {
				capv = v
			}
		}
	}
	w.ev(&c20Event{kind: c20EvMake, pos: rhs.Pos(), st: st, ch: obj, chCap: capv, once: -1})
}

// flowInto: node ⊇ values(e)
func (w *c20Walker) flowInto(dst int, e ast.Expr) {
	fs, ns := w.valueOf(e)
	for _, f := range fs {
		w.a.addFunc(dst, f)
	}
	for _, n := range ns {
		w.a.addCopy(dst, n)
	}
}

func (w *c20Walker) methodUnits(m *types.Func, recv types.Type, ctx *types.Var) []*c20Func {
	var out []*c20Func
	if types.IsInterface(recv) {
		for _, fn := range w.a.cha(m) {
			out = append(out, w.a.unit(fn, ctx))
		}
		return out
	}
	if fn := w.a.byObj[m.Origin()]; fn != nil {
		return []*c20Func{w.a.unit(fn, ctx)}
	}
	return nil
}

func (w *c20Walker) valueOf(e ast.Expr) (fs []*c20Func, ns []int) {
	e = ast.Unparen(e)
	switch e := e.(type) {
	case *ast.FuncLit:
		if fn := w.a.byLit[e]; fn != nil {
			fs = append(fs, w.a.unit(fn, w.f.ctx))
		}
	case *ast.Ident:
		switch o := w.objOf(e).(type) {
		case *types.Func:
			if fn := w.a.byObj[o.Origin()]; fn != nil {
				fs = append(fs, w.a.unit(fn, nil))
			}
		case *types.Var:
			if c20Funcish(o.Type()) {
				ns = append(ns, w.varNode(o))
			}
		}
	case *ast.SelectorExpr:
		if sel := w.info.Selections[e]; sel != nil {
			switch sel.Kind() {
			case types.MethodVal:
				fs = append(fs, w.methodUnits(sel.Obj().(*types.Func), sel.Recv(), w.ctxOfBase(e.X))...)
			case types.FieldVal:
				if v, ok := sel.Obj().(*types.Var); ok && c20Funcish(v.Type()) {
					r, _ := w.a.fieldNodes(w.ctxOfBase(e.X), v)
					ns = append(ns, r)
				}
			case types.MethodExpr:
				if fn := w.a.byObj[sel.Obj().(*types.Func).Origin()]; fn != nil {
					fs = append(fs, w.a.unit(fn, nil))
				}
			}
		} else {
			switch o := w.info.Uses[e.Sel].(type) {
			case *types.Func:
				if fn := w.a.byObj[o.Origin()]; fn != nil {
					fs = append(fs, w.a.unit(fn, nil))
				}
			case *types.Var:
				if c20Funcish(o.Type()) {
					ns = append(ns, w.varNode(o))
				}
			}
		}
	case *ast.CallExpr:
		if tv, ok := w.info.Types[e.Fun]; ok && tv.IsType() && len(e.Args) == 1 {
			return w.valueOf(e.Args[0])
		}
		// result 0 of the callee(s); dynamic callees are handled when their targets are known
		for _, f := range w.staticTargets(e) {
			if f.sig != nil && f.sig.Results().Len() > 0 {
				ns = append(ns, w.a.retNode(f, 0))
			}
		}
	case *ast.IndexExpr:
		return w.valueOf(e.X)
	case *ast.StarExpr:
		return w.valueOf(e.X)
	case *ast.UnaryExpr:
		return w.valueOf(e.X)
	case *ast.TypeAssertExpr:
		return w.valueOf(e.X)
	case *ast.CompositeLit:
		for _, el := range e.Elts {
			if kv, ok := el.(*ast.KeyValueExpr); ok {
				el = kv.Value
			}
			f2, n2 := w.valueOf(el)
			fs = append(fs, f2...)
			ns = append(ns, n2...)
		}
	}
	return
}

func (w *c20Walker) assignFlow(lhs, rhs []ast.Expr) {
	if len(lhs) == len(rhs) {
		for i := range lhs {
			w.assignOne(lhs[i], rhs[i])
		}
		return
	}
	if len(rhs) == 1 {
		if c, ok := ast.Unparen(rhs[0]).(*ast.CallExpr); ok {
			for i, l := range lhs {
				if !c20Funcish(w.info.TypeOf(l)) {
					continue
				}
				if dst, ok := w.lhsNode(l); ok {
					for _, f := range w.staticTargets(c) {
						if f.sig != nil && i < f.sig.Results().Len() {
							w.a.addCopy(dst, w.a.retNode(f, i))
						}
					}
				}
			}
		}
	}
}

func (w *c20Walker) lhsNode(l ast.Expr) (int, bool) {
	l = ast.Unparen(l)
	switch l := l.(type) {
	case *ast.Ident:
		if l.Name == "_" {
			return 0, false
		}
		if o, ok := w.objOf(l).(*types.Var); ok {
			return w.varNode(o), true
		}
	case *ast.SelectorExpr:
		if sel := w.info.Selections[l]; sel != nil && sel.Kind() == types.FieldVal {
			v := sel.Obj().(*types.Var)
			_, wn := w.a.fieldNodes(w.ctxOfBase(l.X), v)
			return wn, true
		}
		if o, ok := w.info.Uses[l.Sel].(*types.Var); ok {
			return w.varNode(o), true
		}
	case *ast.IndexExpr:
		return w.lhsNode(l.X)
	case *ast.StarExpr:
		return w.lhsNode(l.X)
	}
	return 0, false
}

func (w *c20Walker) assignOne(l, r ast.Expr) {
	// fresh objects: v := &T{...} / T{...} / new(T)
	if id, ok := ast.Unparen(l).(*ast.Ident); ok && id.Name != "_" {
		if o := w.objOf(id); o != nil {
			rr := ast.Unparen(r)
			if u, ok := rr.(*ast.UnaryExpr); ok && u.Op == token.AND {
				rr = ast.Unparen(u.X)
			}
			switch x := rr.(type) {
			case *ast.CompositeLit:
				w.f.fresh[o] = true
			case *ast.CallExpr:
				if fid, ok := x.Fun.(*ast.Ident); ok && fid.Name == "new" {
					w.f.fresh[o] = true
				}
			}
		}
	}
	// channel make into a field / var
	if obj := w.chanObj(l); obj != nil {
		w.chanMake(obj, r, c20State{})
	}
	if !c20Funcish(w.info.TypeOf(l)) && !c20Funcish(w.info.TypeOf(r)) {
		return
	}
	if dst, ok := w.lhsNode(l); ok {
		w.flowInto(dst, r)
	}
}

// staticTargets: callees that can be named without the flow solution.
func (w *c20Walker) staticTargets(c *ast.CallExpr) []*c20Func {
	fun := ast.Unparen(c.Fun)
	switch fun := fun.(type) {
	case *ast.FuncLit:
		if fn := w.a.byLit[fun]; fn != nil {
			return []*c20Func{w.a.unit(fn, w.f.ctx)}
		}
	case *ast.Ident:
		if o, ok := w.objOf(fun).(*types.Func); ok {
			if fn := w.a.byObj[o.Origin()]; fn != nil {
				return []*c20Func{w.a.unit(fn, nil)}
			}
		}
	case *ast.SelectorExpr:
		if sel := w.info.Selections[fun]; sel != nil {
			if sel.Kind() == types.MethodVal {
				return w.methodUnits(sel.Obj().(*types.Func), sel.Recv(), w.ctxOfBase(fun.X))
			}
		} else if o, ok := w.info.Uses[fun.Sel].(*types.Func); ok {
			if fn := w.a.byObj[o.Origin()]; fn != nil {
				return []*c20Func{w.a.unit(fn, nil)}
			}
		}
	}
	return nil
}

// externName: full name of a callee outside the analysed packages ("" if the callee is analysed or dynamic).
func (w *c20Walker) externName(c *ast.CallExpr) string {
	fun := ast.Unparen(c.Fun)
	var o *types.Func
	switch fun := fun.(type) {
	case *ast.Ident:
		o, _ = w.objOf(fun).(*types.Func)
	case *ast.SelectorExpr:
		if sel := w.info.Selections[fun]; sel != nil {
			if sel.Kind() == types.MethodVal {
				o, _ = sel.Obj().(*types.Func)
				if o != nil && types.IsInterface(sel.Recv()) && o.Pkg() != nil && strings.HasPrefix(o.Pkg().Path(), c20LalPath) {
					return ""
				}
			}
		} else {
			o, _ = w.info.Uses[fun.Sel].(*types.Func)
		}
	}
	if o == nil || w.a.byObj[o.Origin()] != nil {
		return ""
	}
	return o.FullName()
}

func (w *c20Walker) call(c *ast.CallExpr, st *c20State) {
	// conversions
	if tv, ok := w.info.Types[c.Fun]; ok && tv.IsType() {
		for _, a := range c.Args {
			w.expr(a, st, false)
		}
		// f converted to a function type declared outside lal (http.HandlerFunc): the value is run from there
		if nt, ok := tv.Type.(*types.Named); ok && nt.Obj().Pkg() != nil && !strings.HasPrefix(nt.Obj().Pkg().Path(), c20LalPath) {
			if _, isSig := nt.Underlying().(*types.Signature); isSig {
				w.ev(&c20Event{kind: c20EvCall, pos: c.Pos(), st: *st, call: c, once: -1, extern: "conv:" + nt.Obj().Pkg().Path() + "." + nt.Obj().Name()})
			}
		}
		return
	}
	// builtins
	if id, ok := ast.Unparen(c.Fun).(*ast.Ident); ok {
		if _, isB := w.info.Uses[id].(*types.Builtin); isB {
			switch id.Name {
			case "delete":
				if len(c.Args) > 0 {
					w.expr(c.Args[0], st, true)
				}
				for _, a := range c.Args[1:] {
					w.expr(a, st, false)
				}
			case "close":
				if len(c.Args) == 1 {
					w.expr(c.Args[0], st, false)
					if obj := w.chanObj(c.Args[0]); obj != nil {
						w.ev(&c20Event{kind: c20EvClose, pos: c.Pos(), st: *st, ch: obj, once: -1})
					}
				}
			case "copy":
				if len(c.Args) == 2 {
					w.expr(c.Args[0], st, true)
					w.expr(c.Args[1], st, false)
				}
			default:
				for _, a := range c.Args {
					if tv, ok := w.info.Types[a]; ok && tv.IsType() {
						continue
					}
					w.expr(a, st, false)
				}
			}
			return
		}
	}
	// lock operations
	if cls, op := w.lockOp(c); cls >= 0 {
		bit := c20Set(1) << uint(cls)
		switch op {
		case "Lock", "RLock":
			w.ev(&c20Event{kind: c20EvAcquire, pos: c.Pos(), st: *st, lock: cls, once: -1})
			st.may |= bit
			st.must |= bit
			if op == "Lock" {
				st.mustW |= bit
			}
		case "Unlock", "RUnlock":
			st.may &^= bit
			st.must &^= bit
			st.mustW &^= bit
		case "TryLock", "TryRLock":
			w.a.notes = append(w.a.notes, "TryLock at "+w.a.p.posStr(c.Pos())+" (treated as may-acquire)")
			w.ev(&c20Event{kind: c20EvAcquire, pos: c.Pos(), st: *st, lock: cls, once: -1})
			st.may |= bit
		}
		return
	}
	// receiver and arguments
	if sel, ok := ast.Unparen(c.Fun).(*ast.SelectorExpr); ok {
		if s := w.info.Selections[sel]; s != nil {
			w.expr(sel.X, st, false)
			if s.Kind() == types.FieldVal { // call through a function-valued field
				for _, f := range c20FieldPath(s) {
					w.access(f, sel.Sel.Pos(), *st, false, false, sel.X)
				}
			}
		}
	} else if _, isLit := ast.Unparen(c.Fun).(*ast.FuncLit); !isLit {
		w.expr(c.Fun, st, false)
	}
	for _, a := range c.Args {
		w.expr(a, st, false)
	}
	w.callEvent(c, *st)
}

func (w *c20Walker) callEvent(c *ast.CallExpr, st c20State) *c20Event {
	if tv, ok := w.info.Types[c.Fun]; ok && tv.IsType() {
		return nil
	}
	if id, ok := ast.Unparen(c.Fun).(*ast.Ident); ok {
		if _, isB := w.info.Uses[id].(*types.Builtin); isB {
			return nil
		}
	}
	e := &c20Event{kind: c20EvCall, pos: c.Pos(), st: st, call: c, once: -1}
	e.extern = w.externName(c)
	if e.extern == "(*sync.Once).Do" {
		if sel, ok := ast.Unparen(c.Fun).(*ast.SelectorExpr); ok {
			if obj := w.chanObj(sel.X); obj != nil {
				if cls, ok := w.a.classOf[obj]; ok {
					e.once = cls
				}
			}
		}
	}
	return w.ev(e)
}

// ------------------------------------------------------------------------------------------------
// class hierarchy resolution of interface method calls to lal's implementers

func (a *c20Analysis) cha(m *types.Func) []*c20Fn {
	m = m.Origin()
	if r, ok := a.chaCache[m]; ok {
		return r
	}
	var out []*c20Fn
	sig := m.Type().(*types.Signature)
	if sig.Recv() == nil {
		return nil
	}
	it, ok := sig.Recv().Type().Underlying().(*types.Interface)
	if !ok {
		return nil
	}
	seen := map[*c20Fn]bool{}
	for _, nt := range a.named {
		if !a.ifaced[nt] {
			continue
		}
		var T types.Type = nt
		if !types.Implements(T, it) {
			T = types.NewPointer(nt)
			if !types.Implements(T, it) {
				continue
			}
		}
		obj, _, _ := types.LookupFieldOrMethod(T, true, m.Pkg(), m.Name())
		if fo, ok := obj.(*types.Func); ok {
			if f := a.byObj[fo.Origin()]; f != nil && !seen[f] {
				seen[f] = true
				out = append(out, f)
			}
		}
	}
	a.chaCache[m] = out
	return out
}

// collectConversions records which concrete named types are ever converted to a non-empty interface type
// in lal/pkg (assignment, argument, return value, composite literal element, explicit conversion): only
// those can be the dynamic type behind an interface method call (rapid type analysis).
func (a *c20Analysis) collectConversions() {
	a.ifaced = map[*types.Named]bool{}
	a.extIface = map[*types.Named][]*types.Interface{}
	for _, pk := range a.p.lalPkgs() {
		info := pk.info
		mark := func(dst types.Type, src ast.Expr) {
			if dst == nil || src == nil {
				return
			}
			it, ok := dst.Underlying().(*types.Interface)
			if !ok || it.NumMethods() == 0 {
				return
			}
			st := info.TypeOf(src)
			if st == nil || types.IsInterface(st) {
				return
			}
			if nt := c20NamedOf(st); nt != nil {
				a.ifaced[nt] = true
				// interface type declared outside lal (http.Handler, io.Writer, net.Conn ...): the value may be called from there
				if dn, ok := dst.(*types.Named); ok && dn.Obj().Pkg() != nil && !strings.HasPrefix(dn.Obj().Pkg().Path(), c20LalPath) &&
					nt.Obj().Pkg() != nil && strings.HasPrefix(nt.Obj().Pkg().Path(), c20LalPath) {
					a.extIface[nt] = append(a.extIface[nt], it)
				}
			}
		}
		for _, file := range pk.files {
			var sigStack []*types.Signature
			var visit func(n ast.Node) bool
			visit = func(n ast.Node) bool {
				switch n := n.(type) {
				case *ast.FuncDecl:
					if obj, ok := info.Defs[n.Name].(*types.Func); ok && n.Body != nil {
						sigStack = append(sigStack, obj.Type().(*types.Signature))
						ast.Inspect(n.Body, visit)
						sigStack = sigStack[:len(sigStack)-1]
					}
					return false
				case *ast.FuncLit:
					if sig, ok := info.TypeOf(n).(*types.Signature); ok {
						sigStack = append(sigStack, sig)
						ast.Inspect(n.Body, visit)
						sigStack = sigStack[:len(sigStack)-1]
					}
					return false
				case *ast.AssignStmt:
					if len(n.Lhs) == len(n.Rhs) {
						for i := range n.Lhs {
							mark(info.TypeOf(n.Lhs[i]), n.Rhs[i])
						}
					}
				case *ast.ValueSpec:
					if n.Type != nil {
						for _, v := range n.Values {
							mark(info.TypeOf(n.Type), v)
						}
					}
				case *ast.ReturnStmt:
					if len(sigStack) > 0 {
						res := sigStack[len(sigStack)-1].Results()
						if res.Len() == len(n.Results) {
							for i, r := range n.Results {
								mark(res.At(i).Type(), r)
							}
						}
					}
				case *ast.SendStmt:
					if ct, ok := info.TypeOf(n.Chan).Underlying().(*types.Chan); ok {
						mark(ct.Elem(), n.Value)
					}
				case *ast.CallExpr:
					if tv, ok := info.Types[n.Fun]; ok && tv.IsType() {
						if len(n.Args) == 1 {
							mark(tv.Type, n.Args[0])
						}
						return true
					}
					sig, ok := info.TypeOf(n.Fun).(*types.Signature)
					if !ok {
						return true
					}
					ps := sig.Params()
					for i, arg := range n.Args {
						var pt types.Type
						switch {
						case sig.Variadic() && i >= ps.Len()-1:
							pt = ps.At(ps.Len() - 1).Type()
							if sl, ok := pt.(*types.Slice); ok && !n.Ellipsis.IsValid() {
								pt = sl.Elem()
							}
						case i < ps.Len():
							pt = ps.At(i).Type()
						}
						mark(pt, arg)
					}
				case *ast.CompositeLit:
					t := info.TypeOf(n)
					if t == nil {
						return true
					}
					switch u := t.Underlying().(type) {
					case *types.Struct:
						for i, el := range n.Elts {
							if kv, ok := el.(*ast.KeyValueExpr); ok {
								if id, ok := kv.Key.(*ast.Ident); ok {
									if fv, ok := info.Uses[id].(*types.Var); ok {
										mark(fv.Type(), kv.Value)
									}
								}
							} else if i < u.NumFields() {
								mark(u.Field(i).Type(), el)
							}
						}
					case *types.Slice:
						for _, el := range n.Elts {
							if kv, ok := el.(*ast.KeyValueExpr); ok {
								el = kv.Value
							}
							mark(u.Elem(), el)
						}
					case *types.Array:
						for _, el := range n.Elts {
							if kv, ok := el.(*ast.KeyValueExpr); ok {
								el = kv.Value
							}
							mark(u.Elem(), el)
						}
					case *types.Map:
						for _, el := range n.Elts {
							if kv, ok := el.(*ast.KeyValueExpr); ok {
								mark(u.Key(), kv.Key)
								mark(u.Elem(), kv.Value)
							}
						}
					}
				}
				return true
			}
			ast.Inspect(file, visit)
		}
	}
}

// ------------------------------------------------------------------------------------------------
// flow solution + call resolution

func (a *c20Analysis) solve() {
	work := make([]int, 0, len(a.pts))
	for i := range a.pts {
		if len(a.pts[i]) > 0 {
			work = append(work, i)
		}
	}
	for len(work) > 0 {
		n := work[len(work)-1]
		work = work[:len(work)-1]
		for _, d := range a.copyTo[n] {
			grew := false
			for f := range a.pts[n] {
				if !a.pts[d][f] {
					a.pts[d][f] = true
					grew = true
				}
			}
			if grew {
				work = append(work, d)
			}
		}
	}
}

func (a *c20Analysis) ptsOf(fs []*c20Func, ns []int) []*c20Func {
	seen := map[*c20Func]bool{}
	var out []*c20Func
	for _, f := range fs {
		if !seen[f] {
			seen[f] = true
			out = append(out, f)
		}
	}
	for _, n := range ns {
		for f := range a.pts[n] {
			if !seen[f] {
				seen[f] = true
				out = append(out, f)
			}
		}
	}
	sort.Slice(out, func(i, j int) bool { return out[i].uid < out[j].uid })
	return out
}

func (a *c20Analysis) size() (int, int, int, int) {
	c, p := 0, 0
	for _, cs := range a.copyTo {
		c += len(cs)
	}
	for _, s := range a.pts {
		p += len(s)
	}
	return len(a.funcs), len(a.pts), c, p
}

func (a *c20Analysis) walkPending() {
	for len(a.pending) > 0 {
		u := a.pending[0]
		a.pending = a.pending[1:]
		w := &c20Walker{a: a, f: u}
		w.run()
	}
}

func (a *c20Analysis) solveFlow() {
	for round := 0; round < 40; round++ {
		u0, n0, c0, p0 := a.size()
		a.walkPending()
		a.solve()
		for i := 0; i < len(a.funcs); i++ {
			f := a.funcs[i]
			w := &c20Walker{a: a, f: f, info: f.pk.info}
			for _, e := range f.events {
				if e.kind == c20EvCall || e.kind == c20EvSpawn {
					a.bindCall(w, e)
				}
			}
		}
		a.walkPending()
		a.solve()
		// a context that reads a callback field nobody wrote in that context (nor in the unknown one):
		// the object must have been configured through another home field; fall back to all contexts
		for _, f := range a.fieldSeq {
			ctxs := a.fieldCtx[f]
			for _, c := range ctxs {
				if c == nil {
					continue
				}
				r, _ := a.fieldNodes(c, f)
				if len(a.pts[r]) > 0 {
					continue
				}
				for _, c2 := range ctxs {
					_, w2 := a.fieldNodes(c2, f)
					a.addCopy(r, w2)
				}
			}
		}
		a.solve()
		u1, n1, c1, p1 := a.size()
		if u0 == u1 && n0 == n1 && c0 == c1 && p0 == p1 {
			return
		}
	}
	a.notes = append(a.notes, "function-value flow did not reach a fixpoint in 40 rounds")
}

// bindCall resolves the targets of a call with the current flow solution and binds arguments to parameters.
func (a *c20Analysis) bindCall(w *c20Walker, e *c20Event) {
	c := e.call
	var targets []*c20Func
	if strings.HasPrefix(e.extern, "conv:") {
		// no callee: only the escaping function value below
	} else if st := w.staticTargets(c); st != nil {
		targets = st
	} else if e.extern == "" {
		fs, ns := w.valueOf(c.Fun)
		targets = a.ptsOf(fs, ns)
	}
	e.targets = targets
	for _, t := range targets {
		if t.sig == nil {
			continue
		}
		ps := t.sig.Params()
		tw := &c20Walker{a: a, f: t, info: t.pk.info}
		for i, arg := range c.Args {
			if !c20Funcish(w.info.TypeOf(arg)) {
				continue
			}
			pi := i
			if pi >= ps.Len() {
				pi = ps.Len() - 1
			}
			if pi < 0 {
				continue
			}
			w.flowInto(tw.varNode(ps.At(pi)), arg)
		}
	}
	if e.extern != "" {
		var fv []ast.Expr
		for _, arg := range c.Args {
			if t := w.info.TypeOf(arg); t != nil {
				if _, ok := t.Underlying().(*types.Signature); ok {
					fv = append(fv, arg)
				}
			}
		}
		if len(fv) == 0 {
			return
		}
		var fs []*c20Func
		for _, arg := range fv {
			f1, n1 := w.valueOf(arg)
			fs = append(fs, a.ptsOf(f1, n1)...)
		}
		switch {
		case c20AsyncRunners[e.extern] || e.kind == c20EvSpawn:
			e.asyncArgs = fs
		case c20SyncRunners[e.extern]:
			e.targets = fs
		default:
			if len(fs) > 0 {
				a.extUnk[e.extern] = true
			}
			e.asyncArgs = fs
			e.targets = fs
		}
	}
}

// ------------------------------------------------------------------------------------------------
// call graph fixpoints

func (a *c20Analysis) propagate() {
	// thread roots: the entry surface, and what reachable code spawns or hands to asynchronous runners
	for _, f := range a.funcs {
		if why := a.entryWhy(f); why != "" {
			f.root = true
			f.rootWhy = why
		}
	}
	// reachability from the roots; unreachable units (library API lalserver never calls) are left out
	var work []*c20Func
	reach := func(t *c20Func, root bool, why string) {
		if root && !t.root {
			t.root = true
			t.rootWhy = why
		}
		if !t.live {
			t.live = true
			work = append(work, t)
		}
	}
	for _, f := range a.funcs {
		if f.root {
			reach(f, false, "")
		}
	}
	for len(work) > 0 {
		f := work[len(work)-1]
		work = work[:len(work)-1]
		for _, e := range f.events {
			switch e.kind {
			case c20EvCall:
				for _, t := range e.targets {
					reach(t, false, "")
				}
				for _, t := range e.asyncArgs {
					reach(t, true, "run asynchronously by "+e.extern+" at "+a.p.posStr(e.pos))
				}
			case c20EvSpawn:
				for _, t := range e.targets {
					reach(t, true, "go statement at "+a.p.posStr(e.pos))
				}
				for _, t := range e.asyncArgs {
					reach(t, true, "argument of a go statement at "+a.p.posStr(e.pos))
				}
			}
		}
	}
	for _, f := range a.funcs {
		if !f.live {
			a.dead++
			continue
		}
		for _, e := range f.events {
			if e.kind == c20EvCall {
				for _, t := range e.targets {
					t.in = append(t.in, &c20Site{caller: f, ev: e})
				}
			}
		}
	}
	// constructor context: a function all of whose call sites pass a fresh object as receiver
	a.ctorContexts()
	// acq*: locks a unit may acquire, transitively through synchronous calls
	for _, f := range a.funcs {
		f.mayWhy = map[int]*c20Site{}
		for _, e := range f.events {
			if e.kind == c20EvAcquire {
				f.acq |= 1 << uint(e.lock)
			}
			// sync.Once.Do blocks concurrent callers until the function returns: an acquisition for the lock order
			if e.kind == c20EvCall && e.once >= 0 {
				f.acq |= 1 << uint(e.once)
			}
		}
	}
	for changed := true; changed; {
		changed = false
		for _, f := range a.funcs {
			for _, e := range f.events {
				if e.kind != c20EvCall {
					continue
				}
				for _, t := range e.targets {
					if add := t.acq &^ f.acq; add != 0 {
						f.acq |= add
						changed = true
					}
				}
			}
		}
	}
	// entry sets
	all := ^c20Set(0)
	for _, f := range a.funcs {
		if f.root {
			f.entryMust = 0
			f.entryMustW = 0
		} else {
			f.entryMust = all
			f.entryMustW = all
		}
	}
	siteMustW := func(s *c20Site) c20Set {
		m := s.caller.entryMustW | s.ev.st.mustW
		if s.ev.once >= 0 {
			m |= 1 << uint(s.ev.once)
		}
		return m
	}
	siteMust := func(s *c20Site) c20Set {
		m := s.caller.entryMust | s.ev.st.must
		if s.ev.once >= 0 {
			m |= 1 << uint(s.ev.once)
		}
		return m
	}
	for changed := true; changed; {
		changed = false
		for _, f := range a.funcs {
			for _, s := range f.in {
				sm := s.caller.entryMay | s.ev.st.may
				if s.ev.once >= 0 {
					sm |= 1 << uint(s.ev.once)
				}
				add := sm &^ f.entryMay
				if add != 0 {
					for _, l := range add.list() {
						f.mayWhy[l] = s
					}
					f.entryMay |= add
					changed = true
				}
			}
			if f.root {
				continue
			}
			m := all
			mw := all
			for _, s := range f.in {
				m &= siteMust(s)
				mw &= siteMustW(s)
			}
			if m != f.entryMust {
				f.entryMust = m
				changed = true
			}
			if mw != f.entryMustW {
				f.entryMustW = mw
				changed = true
			}
		}
	}
}

// c20EntryTypes: the surface an embedding application (app/lalserver) calls from its own goroutines.
var c20EntryTypes = map[string]string{
	"logic.ServerManager":              "ILalServer surface",
	"logic.CustomizePubSessionContext": "ICustomizePubSessionContext surface (handed to the application by AddCustomizePubSession)",
	// lal's client sessions: used by the relay code, by applications and by the C20 scenario's peers
	"rtmp.PushSession":    "client session API",
	"rtmp.PullSession":    "client session API",
	"rtsp.PushSession":    "client session API",
	"rtsp.PullSession":    "client session API",
	"httpflv.PullSession": "client session API",
}
var c20EntryFuncs = map[string]bool{"logic.NewLalServer": true, "logic.NewServerManager": true}

// entryWhy: non-empty when the unit is an entry point of the analysed program.
func (a *c20Analysis) entryWhy(f *c20Func) string {
	if f.obj == nil || f.ctx != nil {
		return ""
	}
	if f.recv == nil {
		if c20EntryFuncs[f.name] {
			return "constructor of the server (entry surface)"
		}
		// exported constructors of the entry types
		if f.obj.Exported() && f.sig != nil && f.sig.Results().Len() > 0 {
			if nt := c20NamedOf(f.sig.Results().At(0).Type()); nt != nil && nt.Obj().Pkg() != nil {
				if _, ok := c20EntryTypes[c20ShortPkg(nt.Obj().Pkg().Path())+"."+nt.Obj().Name()]; ok {
					return "exported constructor of an entry type"
				}
			}
		}
		return ""
	}
	nt := c20NamedOf(f.recv.Type())
	if nt == nil {
		return ""
	}
	tn := c20ShortPkg(nt.Obj().Pkg().Path()) + "." + nt.Obj().Name()
	if why, ok := c20EntryTypes[tn]; ok && f.obj.Exported() {
		return "exported method: " + why
	}
	// methods through which code outside lal/pkg (net/http, naza) calls into a lal type handed over as an interface
	for _, it := range a.extIface[nt] {
		for i := 0; i < it.NumMethods(); i++ {
			if it.Method(i).Name() == f.obj.Name() {
				return "method of an interface implemented for code outside lal/pkg"
			}
		}
	}
	return ""
}

func (a *c20Analysis) ctorContexts() {
	// f is ctor-only if it is a method, has at least one caller, and every call site is
	// `v.m(...)` with v fresh in the caller, or the caller is itself ctor-only and calls on its own receiver.
	for _, f := range a.funcs {
		f.ctorOnly = f.recv != nil && len(f.in) > 0 && !f.root
	}
	for changed := true; changed; {
		changed = false
		for _, f := range a.funcs {
			if !f.ctorOnly {
				continue
			}
			ok := true
			for _, s := range f.in {
				sel, isSel := ast.Unparen(s.ev.call.Fun).(*ast.SelectorExpr)
				if !isSel || s.ev.deferred {
					ok = false
					break
				}
				id, isId := ast.Unparen(sel.X).(*ast.Ident)
				if !isId {
					ok = false
					break
				}
				o := s.caller.pk.info.Uses[id]
				if o == nil {
					ok = false
					break
				}
				if s.caller.fresh[o] {
					continue
				}
				if s.caller.ctorOnly && s.caller.recv != nil && o == types.Object(s.caller.recv) {
					continue
				}
				ok = false
				break
			}
			if !ok {
				f.ctorOnly = false
				changed = true
			}
		}
	}
}

// heldChain renders the call chain by which lock l comes to be held at the entry of f.
func (a *c20Analysis) heldChain(f *c20Func, l int, depth int) string {
	s := f.mayWhy[l]
	if s == nil || depth > 14 {
		return f.label
	}
	if s.ev.st.may.has(l) || s.ev.once == l {
		return fmt.Sprintf("%s [holds %s] -> %s@%s", s.caller.label, a.classes[l].name, f.label, a.p.posStr(s.ev.pos))
	}
	return a.heldChain(s.caller, l, depth+1) + " -> " + f.label + "@" + a.p.posStr(s.ev.pos)
}
