package main

import (
	"bytes"
	"encoding/binary"
	"fmt"
	"io"
	"strings"

	"github.com/q191201771/lal/pkg/base"
	"github.com/q191201771/lal/pkg/rtmp"
)

// canonical message text: csid:typ:msid:len:ts:payload
type cmsg struct {
	csid, typ, msid, mlen, ts int
	payload                   []byte
}

func (m cmsg) String() string {
	return fmt.Sprintf("%d:%d:%d:%d:%d:%s", m.csid, m.typ, m.msid, m.mlen, m.ts, hx(m.payload))
}

func parseMsg(s string) cmsg {
	f := strings.Split(s, ":")
	p := unhx(f[5])
	return cmsg{atoi(f[0]), atoi(f[1]), atoi(f[2]), atoi(f[3]), atoi(f[4]), p}
}

func parseMsgs(s string) []cmsg {
	if s == "-" {
		return nil
	}
	var out []cmsg
	for _, t := range strings.Split(s, ",") {
		out = append(out, parseMsg(t))
	}
	return out
}

func showMsgs(ms []cmsg) string {
	if len(ms) == 0 {
		return "-"
	}
	parts := make([]string, len(ms))
	for i, m := range ms {
		parts[i] = m.String()
	}
	return strings.Join(parts, ",")
}

func (m cmsg) header() *base.RtmpHeader {
	return &base.RtmpHeader{Csid: m.csid, MsgLen: uint32(m.mlen), MsgTypeId: uint8(m.typ), MsgStreamId: m.msid, TimestampAbs: uint32(m.ts)}
}

// runComposer feeds b to a fresh real ChunkComposer with the given initial peer chunk size.
func runComposer(peer int, b []byte) string {
	c := rtmp.NewChunkComposer()
	if peer > 0 {
		c.SetPeerChunkSize(uint32(peer))
	}
	var got []cmsg
	err := c.RunLoop(bytes.NewReader(b), func(stream *rtmp.Stream) error {
		m := stream.VerifMsg()
		got = append(got, cmsg{m.Header.Csid, int(m.Header.MsgTypeId), m.Header.MsgStreamId, int(m.Header.MsgLen), int(m.Header.TimestampAbs), m.Payload})
		return nil
	})
	end := "fail"
	if err == io.EOF || err == io.ErrUnexpectedEOF {
		end = "eof"
	}
	return showMsgs(got) + " " + end
}

func init() {
	// chunk.enc <chunkSize> <prev msg header | -> <msg>  =>  chunk bytes
	ops["chunk.enc"] = func(a []string) string {
		m := parseMsg(a[2])
		var prev *base.RtmpHeader
		if a[1] != "-" {
			prev = parseMsg(a[1] + ":-").header()
		}
		return hx(rtmp.VerifMessage2Chunks(m.payload, m.header(), prev, atoi(a[0])))
	}
	// chunk.dec <initial peer chunk size> <bytes>  =>  delivered messages + how RunLoop ended
	ops["chunk.dec"] = func(a []string) string {
		return runComposer(atoi(a[0]), unhx(a[1]))
	}
	// chunk.rt <chunkSize> <msgs>  =>  bytes lal writes for the sequence ; what lal's composer reads back
	ops["chunk.rt"] = func(a []string) string {
		cs := atoi(a[0])
		var all []byte
		for _, m := range parseMsgs(a[1]) {
			all = append(all, rtmp.VerifMessage2Chunks(m.payload, m.header(), nil, cs)...)
		}
		return hx(all) + " ; " + runComposer(cs, all)
	}
	// chunk.legal <bytes> <expected msgs>  =>  what lal's composer delivers for a reference encoder's legal chunking
	ops["chunk.legal"] = func(a []string) string {
		return runComposer(0, unhx(a[0]))
	}
	gens["C08"] = genC08
	extractors["C08"] = func(repo string) (string, error) {
		var sb strings.Builder
		leanNat(&sb, "maxTimestampInMessageHeader", "rtmp.maxTimestampInMessageHeader", int64(rtmp.VerifMaxTimestampInMessageHeader))
		leanNat(&sb, "defaultChunkSize", "rtmp.defaultChunkSize", int64(rtmp.VerifDefaultChunkSize))
		leanNat(&sb, "localChunkSize", "rtmp.LocalChunkSize", int64(rtmp.LocalChunkSize))
		leanNat(&sb, "maxHeaderSize", "rtmp.maxHeaderSize", int64(rtmp.VerifMaxHeaderSize))
		return sb.String(), nil
	}
}

// ---------------------------------------------------------------------------------------------------------------------
// reference encoder: an independent RTMP chunk-stream writer that picks at random among the choices
// RTMP 1.0 §5.3.1 leaves to a conforming encoder.

type refStream struct {
	have     bool
	msid     int
	mlen     int
	typ      int
	ts       uint32 // timestamp of the last message on this chunk stream
	delta    uint32 // delta a type-3 first chunk would repeat
	deltaSet bool
}

type refEnc struct {
	r         *Rng
	chunkSize int
	streams   map[int]*refStream
	out       bytes.Buffer
	// knobs
	allowFmt123 bool
}

func refBasic(w *bytes.Buffer, f int, csid int) {
	switch {
	case csid >= 2 && csid <= 63:
		w.WriteByte(byte(f<<6 | csid))
	case csid >= 64 && csid <= 319:
		w.WriteByte(byte(f << 6))
		w.WriteByte(byte(csid - 64))
	default:
		w.WriteByte(byte(f<<6 | 1))
		w.WriteByte(byte((csid - 64) & 0xff))
		w.WriteByte(byte((csid - 64) >> 8))
	}
}

func put24(w *bytes.Buffer, v uint32) { w.Write([]byte{byte(v >> 16), byte(v >> 8), byte(v)}) }

// pending is a message being written chunk by chunk.
type pending struct {
	m       cmsg
	off     int
	ext     bool   // every chunk of this message carries the extended timestamp
	extVal  uint32 // value of that field
	started bool
}

// firstChunkHeader writes the first chunk's header, choosing a legal format.
func (e *refEnc) firstChunkHeader(p *pending) {
	m := p.m
	s := e.streams[m.csid]
	if s == nil {
		s = &refStream{}
		e.streams[m.csid] = s
	}
	ts := uint32(m.ts)
	f := 0
	if e.allowFmt123 && s.have && s.msid == m.msid && ts >= s.ts && ts-s.ts < 0xFFFFFF {
		d := ts - s.ts
		max := 1
		if s.mlen == m.mlen && s.typ == m.typ {
			max = 2
			if s.deltaSet && s.delta == d {
				max = 3
			}
		}
		f = e.r.Intn(max + 1)
	}
	refBasic(&e.out, f, m.csid)
	switch f {
	case 0:
		if ts >= 0xFFFFFF {
			put24(&e.out, 0xFFFFFF)
			p.ext, p.extVal = true, ts
		} else {
			put24(&e.out, ts)
		}
		put24(&e.out, uint32(m.mlen))
		e.out.WriteByte(byte(m.typ))
		var b [4]byte
		binary.LittleEndian.PutUint32(b[:], uint32(m.msid))
		e.out.Write(b[:])
		// §5.3.1.2.4: a type 3 chunk following a type 0 chunk repeats the type 0 timestamp as its delta
		s.delta, s.deltaSet = ts, ts < 0xFFFFFF
	case 1:
		d := ts - s.ts
		put24(&e.out, d)
		put24(&e.out, uint32(m.mlen))
		e.out.WriteByte(byte(m.typ))
		s.delta, s.deltaSet = d, true
	case 2:
		d := ts - s.ts
		put24(&e.out, d)
		s.delta, s.deltaSet = d, true
	case 3:
	}
	if p.ext {
		var b [4]byte
		binary.BigEndian.PutUint32(b[:], p.extVal)
		e.out.Write(b[:])
	}
	s.have, s.msid, s.mlen, s.typ, s.ts = true, m.msid, m.mlen, m.typ, ts
}

// step writes the next chunk of p; returns true when the message is complete.
func (e *refEnc) step(p *pending) bool {
	if !p.started {
		e.firstChunkHeader(p)
		p.started = true
	} else {
		refBasic(&e.out, 3, p.m.csid)
		if p.ext {
			var b [4]byte
			binary.BigEndian.PutUint32(b[:], p.extVal)
			e.out.Write(b[:])
		}
	}
	n := len(p.m.payload) - p.off
	if n > e.chunkSize {
		n = e.chunkSize
	}
	e.out.Write(p.m.payload[p.off : p.off+n])
	p.off += n
	return p.off == len(p.m.payload)
}

func setChunkSizeMsg(v int) cmsg {
	var b [4]byte
	binary.BigEndian.PutUint32(b[:], uint32(v))
	return cmsg{csid: 2, typ: 1, msid: 0, mlen: 4, ts: 0, payload: b[:]}
}

// aggregateOf builds a type-22 message from sub-messages (same msid), timestamps relative to the first.
func aggregateOf(csid int, subs []cmsg) cmsg {
	var w bytes.Buffer
	for _, s := range subs {
		w.WriteByte(byte(s.typ))
		put24(&w, uint32(len(s.payload)))
		put24(&w, uint32(s.ts)&0xFFFFFF)
		w.WriteByte(byte(uint32(s.ts) >> 24))
		put24(&w, uint32(s.msid))
		w.Write(s.payload)
		var b [4]byte
		binary.BigEndian.PutUint32(b[:], uint32(11+len(s.payload)))
		w.Write(b[:])
	}
	return cmsg{csid: csid, typ: 22, msid: subs[0].msid, mlen: w.Len(), ts: subs[0].ts, payload: w.Bytes()}
}

// genLegal produces one legal chunking and the messages a reader must deliver.
func genLegal(r *Rng, mode int) (bytesOut []byte, expected []cmsg) {
	e := &refEnc{r: r, chunkSize: 128, streams: map[int]*refStream{}, allowFmt123: mode != 0}
	csids := []int{2, 3, 4, 6, 63, 64, 65, 319, 320, 321, 65599}
	nStreams := 1 + r.Intn(3)
	if mode == 1 {
		nStreams = 1
	}
	used := make([]int, nStreams)
	for i := range used {
		used[i] = csids[r.Intn(len(csids))]
		if used[i] == 2 {
			used[i] = 5 // csid 2 is kept for protocol control
		}
	}
	lastTs := map[int]int{}
	var active []*pending
	nMsgs := 1 + r.Intn(7)
	produced := 0
	for produced < nMsgs || len(active) > 0 {
		// start a new message on an idle chunk stream?
		if produced < nMsgs && (len(active) == 0 || r.Intn(3) == 0) {
			csid := used[r.Intn(len(used))]
			busy := false
			for _, p := range active {
				if p.m.csid == csid {
					busy = true
				}
			}
			if !busy {
				n := r.Around(0, 1, e.chunkSize, 2*e.chunkSize, 3*e.chunkSize)
				if r.Intn(4) == 0 {
					n = r.Intn(700)
				}
				ts := lastTs[csid]
				switch r.Intn(6) {
				case 0:
					ts += r.Intn(50)
				case 1:
					ts += 40
				case 2:
					ts = r.Pick(0, 1, 0xFFFFFE, 0xFFFFFF, 0x1000000, 0x1000001, 0x7FFFFFFF, 0xFFFFFFFF)
				case 3:
					ts = int(r.U64() & 0xFFFFFFFF)
				case 4:
					ts += 0xFFFFFE
				default:
				}
				ts &= 0xFFFFFFFF
				lastTs[csid] = ts
				typ := r.Pick(8, 9, 18, 20)
				m := cmsg{csid: csid, typ: typ, msid: r.Pick(1, 1, 1, 0, 5), mlen: n, ts: ts, payload: r.Bytes(n)}
				if mode == 3 && r.Intn(3) == 0 {
					k := 1 + r.Intn(3)
					subs := make([]cmsg, k)
					t := ts
					for i := range subs {
						sn := r.Intn(40)
						subs[i] = cmsg{csid: csid, typ: r.Pick(8, 9), msid: m.msid & 0xFFFFFF, mlen: sn, ts: t, payload: r.Bytes(sn)}
						t += r.Intn(30)
					}
					m = aggregateOf(csid, subs)
					active = append(active, &pending{m: m})
					produced++
					continue
				}
				active = append(active, &pending{m: m})
				produced++
				continue
			}
		}
		if len(active) == 0 {
			continue
		}
		// a Set Chunk Size between chunks (protocol control, csid 2, complete in one chunk)
		if mode >= 2 && r.Intn(6) == 0 {
			v := r.Pick(1, 2, 64, 127, 128, 129, 200, 4096, 65536)
			sc := setChunkSizeMsg(v)
			p := &pending{m: sc}
			for !e.step(p) {
			}
			expected = append(expected, sc)
			e.chunkSize = v
			continue
		}
		i := r.Intn(len(active))
		p := active[i]
		if e.step(p) {
			active = append(active[:i], active[i+1:]...)
			if p.m.typ == 22 {
				expected = append(expected, splitAggregate(p.m)...)
			} else {
				expected = append(expected, p.m)
			}
		}
	}
	return e.out.Bytes(), expected
}

func splitAggregate(m cmsg) []cmsg {
	var out []cmsg
	b := m.payload
	first := true
	var base0 uint32
	for len(b) >= 11 {
		typ := int(b[0])
		n := int(b[1])<<16 | int(b[2])<<8 | int(b[3])
		ts := uint32(b[4])<<16 | uint32(b[5])<<8 | uint32(b[6]) | uint32(b[7])<<24
		msid := int(b[8])<<16 | int(b[9])<<8 | int(b[10])
		if first {
			base0 = ts
			first = false
		}
		body := b[11 : 11+n]
		out = append(out, cmsg{csid: m.csid, typ: typ, msid: msid, mlen: n, ts: int(uint32(m.ts) + ts - base0), payload: body})
		b = b[11+n+4:]
	}
	return out
}

func genC08(g *G) {
	r := g.rng
	tss := []int{0, 1, 1000, 0xFFFFFE, 0xFFFFFF, 0x1000000, 0x1000001, 0x7FFFFFFF, 0xFFFFFFFF}
	csids := []int{2, 3, 63, 64, 65, 319, 320, 321, 65598, 65599}
	sizes := []int{1, 2, 127, 128, 129, 4096, 65536}
	// boundary corpus for the divider: every ts × csid at lengths around the chunk size
	for _, cs := range []int{1, 128, 4096} {
		for _, ts := range tss {
			for _, csid := range csids {
				for _, n := range []int{0, 1, cs - 1, cs, cs + 1, 2*cs + 1} {
					if n < 0 || n > 9000 {
						continue
					}
					m := cmsg{csid, 9, 1, n, ts, r.Bytes(n)}
					g.L("corpus").run(fmt.Sprintf("chunk.enc %d - %s", cs, m))
				}
			}
		}
	}
	// divider with a previous header (all four formats)
	for i := 0; i < g.scale(600, 20000); i++ {
		cs := sizes[r.Intn(len(sizes))]
		n := r.Around(0, cs, 2*cs)
		if n > 20000 {
			n = r.Intn(300)
		}
		m := cmsg{csids[r.Intn(len(csids))], r.Pick(8, 9, 18), r.Pick(0, 1), n, tss[r.Intn(len(tss))], r.Bytes(n)}
		prev := "-"
		if r.Intn(4) != 0 {
			p := m
			if r.Bool() {
				p.msid = 1 - p.msid
			}
			if r.Bool() {
				p.mlen += r.Intn(2)
			}
			if r.Bool() {
				p.typ = r.Pick(8, 9)
			}
			if r.Bool() {
				p.ts = tss[r.Intn(len(tss))]
			}
			prev = fmt.Sprintf("%d:%d:%d:%d:%d", p.csid, p.typ, p.msid, p.mlen, p.ts)
		}
		g.L("prev=" + map[bool]string{true: "nil", false: "set"}[prev == "-"]).run(fmt.Sprintf("chunk.enc %d %s %s", cs, prev, m))
	}
	// round trips of message sequences through lal's own writer and reader
	for i := 0; i < g.scale(500, 20000); i++ {
		cs := sizes[r.Intn(len(sizes))]
		if i < 3 {
			cs = 1
		}
		k := 1 + r.Intn(5)
		ms := make([]cmsg, k)
		for j := range ms {
			n := r.Around(1, cs, 2*cs, 3*cs)
			if n > 9000 || r.Intn(3) == 0 {
				n = 1 + r.Intn(400)
			}
			if cs == 1 {
				n = 1 + r.Intn(6)
			}
			ts := tss[r.Intn(len(tss))]
			if r.Bool() {
				ts = int(r.U64() & 0xFFFFFFFF)
			}
			ms[j] = cmsg{csids[r.Intn(len(csids))], r.Pick(8, 9, 18, 20), r.Pick(1, 1, 0, 7), n, ts, r.Bytes(n)}
		}
		g.L(fmt.Sprintf("cs=%d", cs)).run(fmt.Sprintf("chunk.rt %d %s", cs, showMsgs(ms)))
	}
	// a zero-length message yields no chunk at all (stated, not hidden)
	g.L("empty").run("chunk.rt 128 6:9:1:0:5:-")
	// legal chunkings by the reference encoder
	for i := 0; i < g.scale(1200, 60000); i++ {
		mode := i % 4
		b, exp := genLegal(r, mode)
		g.L(fmt.Sprintf("mode=%d", mode)).run(fmt.Sprintf("chunk.legal %s %s", hx(b), showMsgs(exp)))
	}
	// reader on malformed input: truncations of a legal stream, mutations, random bytes
	for i := 0; i < g.scale(150, 4000); i++ {
		b, _ := genLegal(r, 3)
		if i < 25 {
			for k := 0; k <= len(b) && k < 300; k++ {
				g.L("truncated").run(fmt.Sprintf("chunk.dec 0 %s", hx(b[:k])))
			}
		}
		mut := append([]byte{}, b...)
		for j := 0; j < 1+r.Intn(3) && len(mut) > 0; j++ {
			mut[r.Intn(len(mut))] ^= byte(1 + r.Intn(255))
		}
		g.L("mutated").run(fmt.Sprintf("chunk.dec %d %s", r.Pick(0, 0, 1, 4096), hx(mut)))
		g.L("random").run(fmt.Sprintf("chunk.dec 0 %s", hx(r.Bytes(r.Intn(80)))))
	}
}
