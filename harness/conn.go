package main

import (
	"net"
	"sync"
	"time"
)

// recConn is a net.Conn that records every Write call as one item, so that
// the queue items one logical write produces are observable.
type recConn struct {
	mu     sync.Mutex
	writes [][]byte
	closed chan struct{}
	once   sync.Once
}

type fakeAddr struct{}

func (fakeAddr) Network() string { return "tcp" }
func (fakeAddr) String() string  { return "127.0.0.1:1" }

func newRecConn() *recConn { return &recConn{closed: make(chan struct{})} }

func (c *recConn) Read(b []byte) (int, error) {
	<-c.closed
	return 0, net.ErrClosed
}
func (c *recConn) Write(b []byte) (int, error) {
	c.mu.Lock()
	c.writes = append(c.writes, append([]byte(nil), b...))
	c.mu.Unlock()
	return len(b), nil
}
func (c *recConn) Close() error                       { c.once.Do(func() { close(c.closed) }); return nil }
func (c *recConn) LocalAddr() net.Addr                { return fakeAddr{} }
func (c *recConn) RemoteAddr() net.Addr               { return fakeAddr{} }
func (c *recConn) SetDeadline(t time.Time) error      { return nil }
func (c *recConn) SetReadDeadline(t time.Time) error  { return nil }
func (c *recConn) SetWriteDeadline(t time.Time) error { return nil }

func (c *recConn) take() [][]byte {
	c.mu.Lock()
	defer c.mu.Unlock()
	w := c.writes
	c.writes = nil
	return w
}
