package main

import (
	"fmt"
	"strings"

	"github.com/q191201771/lal/pkg/base"
	"github.com/q191201771/lal/pkg/httpflv"
	"github.com/q191201771/lal/pkg/mpegts"
	"github.com/q191201771/lal/pkg/rtmp"
)

// ---------------------------------------------------------------------------------------------------------------------
// units of every protocol, built with lal's own packers so that the specification readers in the
// driver can parse what the consumer received
// ---------------------------------------------------------------------------------------------------------------------

type c15UnitGen struct {
	r  *Rng
	n  int
	cc map[uint16]uint8
}

func (u *c15UnitGen) payload(n int) []byte {
	u.n++
	p := []byte{byte(u.n >> 8), byte(u.n)} // every unit is distinguishable
	if n > 2 {
		p = append(p, u.r.Bytes(n-2)...)
	}
	return p
}

func (u *c15UnitGen) size() int {
	switch u.r.Intn(12) {
	case 0:
		return u.r.Around(125, 126, 127) // WebSocket 7-bit / 16-bit length boundary (with the 15 bytes of tag framing: 110..112)
	case 1:
		return u.r.Around(110, 111, 112)
	case 2:
		return u.r.Around(4096, 4097) // more than one RTMP chunk
	default:
		return 3 + u.r.Intn(40)
	}
}

// rtmp: the chunks of one message, as remux.LazyRtmpChunkDivider hands them to session.Write
func (u *c15UnitGen) rtmpMsg() []byte {
	p := u.payload(u.size())
	var h base.RtmpHeader
	h.Csid = u.r.Pick(4, 5, 6)
	h.MsgTypeId = uint8(u.r.Pick(8, 9, 18))
	h.MsgStreamId = 1
	h.TimestampAbs = uint32(u.r.Pick(0, 40, 0xFFFFFE, 0xFFFFFF, 0x1000000, u.n*40))
	h.MsgLen = uint32(len(p))
	return rtmp.VerifMessage2Chunks(p, &h, nil, rtmp.LocalChunkSize)
}

func (u *c15UnitGen) flvTag() []byte {
	return httpflv.PackHttpflvTag(uint8(u.r.Pick(8, 9, 18)), uint32(u.r.Pick(0, 40, 0xFFFFFF, 0x1000000, u.n*40)), u.payload(u.size()))
}

func (u *c15UnitGen) tsPackets() []byte {
	if u.r.Intn(6) == 0 {
		return append(mpegts.PackPat(), mpegts.PackPmt(7, 10)...)
	}
	pid := uint16(u.r.Pick(int(mpegts.PidVideo), int(mpegts.PidAudio)))
	sid := uint8(mpegts.StreamIdVideo)
	if pid == mpegts.PidAudio {
		sid = mpegts.StreamIdAudio
	}
	f := mpegts.Frame{Pid: pid, Sid: sid, Key: pid == mpegts.PidVideo && u.r.Intn(3) == 0,
		Pts: uint64(u.n * 3600), Dts: uint64(u.n * 3600), Cc: u.cc[pid], Raw: u.payload(u.r.Pick(5, 150, 170, 184, 190, 400))}
	out := append([]byte(nil), f.Pack()...)
	u.cc[pid] = f.Cc
	return out
}

func (u *c15UnitGen) rtp() (string, []byte) {
	n := 12 + u.r.Intn(40)
	switch u.r.Intn(10) {
	case 0:
		n = u.r.Around(121, 122, 123) // + 4 bytes of interleaved framing: the WebSocket length boundary
	case 1:
		n = 1400
	}
	return []string{"a", "v"}[u.r.Intn(2)], u.payload(n)
}

// write returns the event that hands the session one more unit.
func (u *c15UnitGen) write(proto string) string {
	switch proto {
	case "rtmp":
		if u.r.Intn(4) == 0 { // a merge-writer batch: one Writev of several messages
			k := 2 + u.r.Intn(2)
			parts := make([]string, k)
			for i := range parts {
				parts[i] = hx(u.rtmpMsg())
			}
			return "V:" + strings.Join(parts, ",")
		}
		return "W:" + hx(u.rtmpMsg())
	case "flv", "wsflv":
		return "W:" + hx(u.flvTag())
	case "ts", "wsts":
		return "W:" + hx(u.tsPackets())
	default:
		k, p := u.rtp()
		return "P:" + k + ":" + hx(p)
	}
}

// bigWrite: one unit larger than 65535 bytes (a big key frame): the 64-bit WebSocket length form, and a write during
// which a short queue can fill up
func (u *c15UnitGen) bigWrite(proto string, n int) string {
	switch proto {
	case "flv", "wsflv":
		return "W:" + hx(httpflv.PackHttpflvTag(9, uint32(u.n*40), u.payload(n)))
	case "ts", "wsts":
		f := mpegts.Frame{Pid: mpegts.PidVideo, Sid: mpegts.StreamIdVideo, Key: true, Pts: uint64(u.n * 3600), Dts: uint64(u.n * 3600),
			Cc: u.cc[mpegts.PidVideo], Raw: u.payload(n)}
		out := append([]byte(nil), f.Pack()...)
		u.cc[mpegts.PidVideo] = f.Cc
		return "W:" + hx(out)
	}
	return u.write(proto)
}

func c15Prologue(proto string) []string {
	switch proto {
	case "flv", "wsflv":
		return []string{"H", "F"}
	case "ts", "wsts":
		return []string{"H"}
	}
	return nil
}

var c15Protos = []string{"rtmp", "flv", "wsflv", "ts", "wsts", "rtsp", "wsrtsp"}

// ---------------------------------------------------------------------------------------------------------------------

func genC15(g *G) {
	r := g.rng
	newUG := func() *c15UnitGen { return &c15UnitGen{r: r, cc: map[uint16]uint8{}} }

	// packInterleaved at the length boundaries
	for _, n := range []int{0, 1, 12, 255, 256, 65535} {
		g.L("corpus").run(fmt.Sprintf("q.il %d %s", r.Pick(0, 1, 2, 3, 255), hx(r.Bytes(n))))
	}
	if g.thorough() {
		for _, n := range []int{65536, 65537, 70000} { // uint16(len) truncates: outside what lal's RTP packers produce
			g.L("beyond-uint16").run(fmt.Sprintf("q.il %d %s", r.Intn(4), hx(r.Bytes(n))))
		}
	}
	for i := 0; i < g.scale(40, 400); i++ {
		g.L("random").run(fmt.Sprintf("q.il %d %s", r.Intn(300), hx(r.Bytes(r.Intn(300)))))
	}

	// S18 witness, literal (known_findings.json): on the pinned tree the consumer receives a frame header whose payload never comes
	g.L("S18-witness").run("q.sess wsrtsp 2 P:a:aabb;S;P:v:01;P:a:02;P:v:03;P:a:04;r;R;P:a:05")
	g.L("S18-witness").run("q.sess wsflv 2 H;F;S;W:0800000100000000000000af0000000c;W:0800000100000a00000000af0000000c;W:0800000100001400000000af0000000c;W:0800000100001e00000000af0000000c;r;r;R;W:0800000100002800000000af0000000c")
	// S18 witness (WebSocket: the queue fills between header and payload on the pinned tree), every WebSocket protocol
	for _, p := range []string{"wsflv", "wsts", "wsrtsp"} {
		u := newUG()
		evs := append([]string{}, c15Prologue(p)...)
		evs = append(evs, "S")
		for i := 0; i < 5; i++ {
			evs = append(evs, u.write(p))
		}
		evs = append(evs, "r", u.write(p), "R", u.write(p))
		g.L("S18-witness").run(fmt.Sprintf("q.sess %s 2 %s", p, strings.Join(evs, ";")))
	}

	// a unit of more than 65535 bytes meeting a queue that is empty / part full / full, on a stalled consumer that later
	// resumes: whatever arrives is whole units
	for _, p := range []string{"flv", "wsflv", "ts", "wsts"} {
		for _, cap := range []int{2, 4} {
			for before := 0; before <= cap+1; before++ {
				for _, n := range []int{65536, 70000, 150000} {
					if n != 70000 && before%2 == 1 && !g.thorough() {
						continue
					}
					u := newUG()
					evs := append([]string{}, c15Prologue(p)...)
					evs = append(evs, u.write(p), "S")
					for i := 0; i < before; i++ {
						evs = append(evs, u.write(p))
					}
					evs = append(evs, u.bigWrite(p, n), u.write(p), u.write(p), "r", "r", "R", u.write(p), u.write(p))
					g.L("corpus-big-unit-" + p).run(fmt.Sprintf("q.sess %s %d %s", p, cap, strings.Join(evs, ";")))
				}
			}
		}
	}

	// boundary corpus: every protocol × capacity 2..4 × the consumer stalls after k units, the queue overflows by
	// 0..2 units, the consumer reads j items, more units, resume — "queue full at write k" for every k
	for _, p := range c15Protos {
		for _, cap := range []int{2, 3, 4} {
			for k := 0; k <= 2; k++ {
				for over := 0; over <= 2; over++ {
					for _, j := range []int{0, 1, cap + 1} {
						u := newUG()
						evs := append([]string{}, c15Prologue(p)...)
						for i := 0; i < k; i++ {
							evs = append(evs, u.write(p))
						}
						evs = append(evs, "S")
						for i := 0; i < cap+1+over; i++ {
							evs = append(evs, u.write(p))
						}
						evs = append(evs, "A")
						for i := 0; i < j; i++ {
							evs = append(evs, "r")
						}
						evs = append(evs, u.write(p), u.write(p), "A", "R", u.write(p), "A")
						g.L("corpus-" + p).run(fmt.Sprintf("q.sess %s %d %s", p, cap, strings.Join(evs, ";")))
					}
				}
			}
		}
		// the consumer is stalled from the very first byte (response header in flight), write error, dispose, sweep rule
		for _, tail := range [][]string{{"X:0"}, {"X:1"}, {"X:2"}, {"D"}, {"A", "A"}, {"A", "r", "A", "A"}, {"r", "X:1"}} {
			u := newUG()
			evs := []string{"S"}
			evs = append(evs, c15Prologue(p)...)
			for i := 0; i < 4; i++ {
				evs = append(evs, u.write(p))
			}
			evs = append(evs, tail...)
			evs = append(evs, u.write(p), "A", "R", u.write(p))
			g.L("corpus-" + p + "-end").run(fmt.Sprintf("q.sess %s 2 %s", p, strings.Join(evs, ";")))
		}
	}

	// random schedules
	for i := 0; i < g.scale(500, 12000); i++ {
		p := c15Protos[r.Intn(len(c15Protos))]
		cap := r.Pick(2, 2, 3, 4, 8)
		u := newUG()
		var evs []string
		if r.Intn(5) == 0 {
			evs = append(evs, "S")
		}
		evs = append(evs, c15Prologue(p)...)
		n := 4 + r.Intn(30)
		closed := false
		for j := 0; j < n; j++ {
			switch x := r.Intn(24); {
			case x < 12:
				evs = append(evs, u.write(p))
			case x < 15:
				evs = append(evs, "S")
			case x < 17:
				evs = append(evs, "R")
			case x < 21:
				evs = append(evs, "r")
			case x == 21:
				evs = append(evs, "A")
			case x == 22 && !closed && r.Intn(3) == 0:
				evs = append(evs, fmt.Sprintf("X:%d", r.Intn(3)))
			case x == 23 && !closed && r.Intn(4) == 0:
				evs = append(evs, "D")
				closed = true
			default:
				evs = append(evs, u.write(p))
			}
		}
		if r.Bool() {
			evs = append(evs, "R")
		}
		g.L("random-" + p).run(fmt.Sprintf("q.sess %s %d %s", p, cap, strings.Join(evs, ";")))
	}

	// group level: healthy subscribers (large queue, always reading) next to stalled ones (small queue, stalled right
	// after joining), the publisher keeps publishing, the harness ticks the liveness sweep
	for i := 0; i < g.scale(120, 3000); i++ {
		cfg := fmt.Sprintf("rc=%d,fc=%d,rg=%d,rk=0,fg=%d,fk=0,ms=%d,rec=0", r.Pick(1, 1, 0), r.Pick(1, 1, 0), r.Pick(0, 0, 1, 2), r.Pick(0, 0, 1),
			r.Pick(0, 0, 1)) // the group model logs buffers, not Writev batches: with MergeWriteSize ≤ 1 every batch is one buffer
		// (merge-writer batches as ONE queue item are exercised at session level: the V events of q.sess)
		iv := r.Pick(2, 3)
		gg := &c01Gen{r: r}
		gg.evs = append(gg.evs, "P")
		id := 0
		var stalled, healthy []string
		media := 0                 // non-empty messages published so far
		joinAt := map[string]int{} // a stalled subscriber is resumed only after its prologue burst went by while it was stalled
		join := func() {
			id++
			k := string(rune(r.Pick('r', 'f', 'w')))
			key := fmt.Sprintf("%s:%d", k, id)
			switch {
			case r.Intn(2) == 0 && k == "r":
				// an RTMP subscriber is written nothing when it joins; its first burst (cached headers and GOPs) meets an
				// idle writer, and whether that writer frees a slot before the burst ends is a race in the real code:
				// keep the burst within the capacity, so the queue overflows only later, message by message
				gg.evs = append(gg.evs, fmt.Sprintf("J:%s:%d", key, media+5+r.Intn(2)), "S:"+key)
				stalled = append(stalled, key)
				joinAt[key] = media
			case r.Intn(2) == 0 && k != "r":
				// stalled before its first byte: the response header occupies the writer, everything after is queued
				gg.evs = append(gg.evs, fmt.Sprintf("J:%s:%d:s", key, r.Pick(2, 3, 4)))
				stalled = append(stalled, key)
				joinAt[key] = media
			default:
				gg.evs = append(gg.evs, fmt.Sprintf("J:%s:1000", key))
				healthy = append(healthy, key)
			}
		}
		if i < 9 {
			// corpus: one stalled + one healthy subscriber of each pair of kinds, joining before the first message
			ks := []string{"r", "f", "w"}
			gg.evs = append(gg.evs, fmt.Sprintf("J:%s:1:2:s", ks[i%3]), fmt.Sprintf("J:%s:2:1000", ks[i/3]))
			stalled = append(stalled, ks[i%3]+":1")
			joinAt[ks[i%3]+":1"] = 0
			healthy = append(healthy, ks[i/3]+":2")
			id = 2
		}
		tick := 0
		n := 10 + r.Intn(40)
		for j := 0; j < n; j++ {
			switch x := r.Intn(30); {
			case x < 3 && id < 6:
				join()
			case x < 6:
				tick++
				gg.evs = append(gg.evs, fmt.Sprintf("T:%d", tick))
			case x < 9 && len(stalled) > 0:
				// (a consumer that reads before its first burst went by could leave the writer idle again, and an idle
				// writer meeting a burst larger than the queue is a race in the real code: see join)
				if key := stalled[r.Intn(len(stalled))]; media > joinAt[key] {
					gg.evs = append(gg.evs, "r:"+key)
				}
			case x == 9 && len(stalled) > 0 && j > n/2:
				if key := stalled[r.Intn(len(stalled))]; media > joinAt[key] {
					gg.evs = append(gg.evs, "R:"+key)
				}
			case x == 11 && len(healthy) > 0:
				gg.evs = append(gg.evs, "S:"+healthy[r.Intn(len(healthy))])
			case x == 12 && len(healthy) > 0:
				gg.evs = append(gg.evs, "R:"+healthy[r.Intn(len(healthy))])
			case x == 10 && j > 3:
				if r.Bool() {
					gg.evs = append(gg.evs, "p", "P")
				}
			default:
				before := len(gg.evs)
				gg.media(0)
				for _, e := range gg.evs[before:] {
					if !strings.HasSuffix(e, ":-") {
						media++
					}
				}
			}
		}
		tick++
		gg.evs = append(gg.evs, fmt.Sprintf("T:%d", tick))
		lab := "grp"
		if i < 9 {
			lab = "grp-corpus"
		}
		g.L(lab).run(fmt.Sprintf("q.grp %s 4 %d %s", cfg, iv, strings.Join(gg.evs, ";")))
	}
}

func init() {
	gens["C15"] = genC15
}
