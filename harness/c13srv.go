package main

import (
	"bufio"
	"bytes"
	"fmt"
	"io"
	"net"
	"net/http"
	"net/http/httptest"
	"os"
	"strconv"
	"strings"
	"sync"
	"time"

	"github.com/q191201771/lal/pkg/base"
	"github.com/q191201771/lal/pkg/hls"
	"github.com/q191201771/lal/pkg/httpflv"
	"github.com/q191201771/lal/pkg/rtmp"
	"github.com/q191201771/lal/pkg/rtsp"
	"github.com/q191201771/naza/pkg/nazahttp"
)

// rtsp.session <ws 0|1> <auth 0|1|2|3> <describe no|nil|sdphex> <token>...
//
//	token M:<METHOD>:<uri>:<uriOk>:<cseq>:<transport|->:<body|->   one RTSP request (strings in hex), uriOk = what base.ParseRtspUrl says
//	token I:<channel>:<data>                                        one interleaved frame
//	=> <items written to the connection> ; <observer events> ; eof | closed@<k>
//	   items: h = WebSocket frame header, R<code>:<cseq>:<extra>, F<channel>:<data> (receiver report written back)
//
// A real rtsp.ServerCommandSession runs its RunLoop in this goroutine over a connection that hands out one
// token per Read; before each token the connection pushes a sentinel through the session's own write queue and
// waits for it, so everything written in answer to the earlier tokens has reached the connection (the session
// closes without flushing its queue).
//
// fz.rtsp <ws> <auth> <raw bytes>   the same session fed raw bytes (no model; the oracle alone decides)

var c13Sentinel = []byte("C13-SENTINEL-7f3a")

type c13Conn struct {
	toks   [][]byte
	cur    []byte
	idx    int
	handed int
	eof    bool
	sess   *rtsp.ServerCommandSession
	mu     sync.Mutex
	writes [][]byte
	seen   chan struct{}
	hang   bool
	wsMode bool
	closed chan struct{}
	once   sync.Once
}

func (c *c13Conn) drain() {
	if c.sess == nil {
		return
	}
	err := c.sess.WriteInterleavedPacket(c13Sentinel, 255)
	if err != nil {
		return // the session has closed its connection: nothing is queued any more
	}
	select {
	case <-c.seen:
	case <-time.After(10 * time.Second):
		c.hang = true
	}
}

func (c *c13Conn) Read(p []byte) (int, error) {
	if c.eof {
		return 0, io.EOF
	}
	if len(c.cur) == 0 {
		c.drain()
		if c.idx >= len(c.toks) {
			c.eof = true
			return 0, io.EOF
		}
		c.cur = c.toks[c.idx]
		c.idx++
		c.handed++
		if len(c.cur) == 0 {
			return 0, nil
		}
	}
	n := copy(p, c.cur)
	c.cur = c.cur[n:]
	return n, nil
}

func (c *c13Conn) Write(b []byte) (int, error) {
	if bytes.Contains(b, c13Sentinel) {
		// in WebSocket mode the sentinel was preceded by a frame header of its own
		c.mu.Lock()
		if n := len(c.writes); n > 0 && len(c.writes[n-1]) >= 2 && c.writes[n-1][0] == 0x82 && c.wsMode {
			c.writes = c.writes[:n-1]
		}
		c.mu.Unlock()
		c.seen <- struct{}{}
		return len(b), nil
	}
	c.mu.Lock()
	c.writes = append(c.writes, append([]byte(nil), b...))
	c.mu.Unlock()
	return len(b), nil
}
func (c *c13Conn) Close() error {
	c.once.Do(func() { close(c.closed) })
	return nil
}
func (c *c13Conn) LocalAddr() net.Addr                { return fakeAddr{} }
func (c *c13Conn) RemoteAddr() net.Addr               { return fakeAddr{} }
func (c *c13Conn) SetDeadline(t time.Time) error      { return nil }
func (c *c13Conn) SetReadDeadline(t time.Time) error  { return nil }
func (c *c13Conn) SetWriteDeadline(t time.Time) error { return nil }

type c13SrvObs struct {
	obs      *c13Obs
	describe string
	pubs     []*rtsp.PubSession
	subs     []*rtsp.SubSession
}

func (o *c13SrvObs) OnNewRtspPubSession(s *rtsp.PubSession) error {
	s.SetObserver(o.obs)
	o.pubs = append(o.pubs, s)
	return nil
}
func (o *c13SrvObs) OnNewRtspSubSessionDescribe(s *rtsp.SubSession) (bool, []byte) {
	o.subs = append(o.subs, s)
	switch o.describe {
	case "no":
		return false, nil
	case "nil":
		return true, nil
	}
	return true, unhx(o.describe)
}
func (o *c13SrvObs) OnNewRtspSubSessionPlay(s *rtsp.SubSession) error { return nil }

func c13OptHex(s string) []byte {
	if s == "-" {
		return nil
	}
	return unhx(s)
}

// c13ReqBytes serialises one request token the way a well-behaved client writes it.
func c13ReqBytes(f []string) []byte {
	var sb bytes.Buffer
	fmt.Fprintf(&sb, "%s %s RTSP/1.0\r\n", f[1], c13OptHex(f[2]))
	fmt.Fprintf(&sb, "CSeq: %s\r\n", c13OptHex(f[4]))
	if f[5] != "-" {
		fmt.Fprintf(&sb, "Transport: %s\r\n", c13OptHex(f[5]))
	}
	body := c13OptHex(f[6])
	if len(body) > 0 {
		fmt.Fprintf(&sb, "Content-Type: application/sdp\r\nContent-Length: %d\r\n", len(body))
	}
	sb.WriteString("\r\n")
	sb.Write(body)
	return sb.Bytes()
}

func c13WsFrame(payload []byte) []byte {
	h := base.MakeWsFrameHeader(base.WsHeader{Fin: true, Opcode: base.Wso_Binary, PayloadLength: uint64(len(payload))})
	return append(append([]byte(nil), h...), payload...)
}

func c13HeaderOf(resp, name string) (string, bool) {
	for _, l := range strings.Split(resp, "\r\n") {
		if strings.HasPrefix(l, name+":") {
			return strings.TrimSpace(l[len(name)+1:]), true
		}
	}
	return "", false
}

func c13RunSession(ws bool, auth int, describe string, toks [][]byte, teardownCseq map[string]bool) string {
	conn := &c13Conn{toks: toks, seen: make(chan struct{}, 4), closed: make(chan struct{}), wsMode: ws}
	obs := &c13SrvObs{obs: &c13Obs{}, describe: describe}
	ac := rtsp.ServerAuthConfig{}
	switch auth {
	case 1:
		ac = rtsp.ServerAuthConfig{AuthEnable: true, AuthMethod: 0, UserName: "u", PassWord: "p"}
	case 2:
		ac = rtsp.ServerAuthConfig{AuthEnable: true, AuthMethod: 1, UserName: "u", PassWord: "p"}
	case 3:
		ac = rtsp.ServerAuthConfig{AuthEnable: true, AuthMethod: 7, UserName: "u", PassWord: "p"}
	}
	sess := rtsp.NewServerCommandSession(obs, conn, ac, ws, "k")
	conn.sess = sess
	_ = sess.RunLoop()
	for _, p := range obs.pubs {
		_ = p.Dispose()
	}
	for _, s := range obs.subs {
		_ = s.Dispose()
	}
	if conn.hang {
		return "hang"
	}
	end := "eof"
	if !conn.eof {
		end = fmt.Sprintf("closed@%d", conn.handed)
	}
	var items []string
	for _, w := range conn.writes {
		switch {
		case bytes.HasPrefix(w, []byte("RTSP/1.0 ")):
			s := string(w)
			code := s[9:12]
			cseq, _ := c13HeaderOf(s, "CSeq")
			extra := ""
			if t, ok := c13HeaderOf(s, "Transport"); ok {
				if strings.Contains(t, "server_port") {
					extra = "udp"
				} else {
					extra = t
				}
			} else if a, ok := c13HeaderOf(s, "WWW-Authenticate"); ok {
				extra = strings.Fields(a + " x")[0]
			}
			items = append(items, fmt.Sprintf("R%s:%s:%s", code, hx([]byte(cseq)), hx([]byte(extra))))
		case len(w) >= 4 && w[0] == '$':
			items = append(items, fmt.Sprintf("F%d:%s", w[1], hx(w[4:])))
		case len(w) >= 2 && w[0] == 0x82:
			items = append(items, "h")
		default:
			items = append(items, "?"+hx(w))
		}
	}
	// the reply to TEARDOWN races with the close of the connection: not compared
	if !conn.eof {
		for len(items) > 0 {
			last := items[len(items)-1]
			if last == "h" {
				items = items[:len(items)-1]
				continue
			}
			if strings.HasPrefix(last, "R200:") {
				cs := strings.Split(last, ":")[1]
				if teardownCseq[cs] {
					items = items[:len(items)-1]
					continue
				}
			}
			break
		}
	}
	its := "none"
	if len(items) > 0 {
		its = strings.Join(items, ",")
	}
	evs := "none"
	if len(obs.obs.ev) > 0 {
		evs = strings.Join(obs.obs.ev, ",")
	}
	return its + " ; " + evs + " ; " + end
}

// ---------------------------------------------------------------------------------------------------------
// client sessions against a stub peer (child process: their read loops run in goroutines of their own)

// c13Listen serves one connection: optional RTMP handshake, then `script` is written and the connection is
// kept open for `hold` before it is closed.
func c13Serve(rtmpHandshake bool, script []byte, hold time.Duration) (addr string, done chan struct{}) {
	ln, err := net.Listen("tcp", "127.0.0.1:0")
	if err != nil {
		panic(err)
	}
	done = make(chan struct{})
	go func() {
		defer close(done)
		c, err := ln.Accept()
		if err != nil {
			return
		}
		defer c.Close()
		defer ln.Close()
		go io.Copy(io.Discard, c)
		if rtmpHandshake {
			// C0C1 is consumed by the discard above; S0S1S2 in the simple form: version 3, 1536 + 1536 arbitrary bytes
			b := make([]byte, 1+1536+1536)
			b[0] = 3
			c.Write(b)
			// HandshakeClientSimple.ReadS2 reads into a 1537 byte buffer with io.ReadAtLeast(.., 1536): data sent in the same
			// burst as S2 loses its first byte to the handshake. A real server speaks only after C2; so does the stub.
			time.Sleep(40 * time.Millisecond)
		}
		c.Write(script)
		time.Sleep(hold)
	}()
	return ln.Addr().String(), done
}

type c13HlsObs struct{}

func (c13HlsObs) OnNewHlsSubSession(session *hls.SubSession) error { return nil }
func (c13HlsObs) OnDelHlsSubSession(session *hls.SubSession)       {}

func c13Wait(ch <-chan error, d time.Duration) string {
	select {
	case <-ch:
		return "done"
	case <-time.After(d):
		return "timeout"
	}
}

func init() {
	ops["rtsp.session"] = func(a []string) string {
		// the model is the session without the AvPacketQueue timestamp filter (fz.rtsp runs with it)
		old := rtsp.BaseInSessionTimestampFilterFlag
		rtsp.BaseInSessionTimestampFilterFlag = false
		defer func() { rtsp.BaseInSessionTimestampFilterFlag = old }()
		ws := a[0] == "1"
		var toks [][]byte
		td := map[string]bool{}
		for _, t := range a[3:] {
			f := strings.Split(t, ":")
			switch f[0] {
			case "M":
				b := c13ReqBytes(f)
				if ws {
					b = c13WsFrame(b)
				}
				toks = append(toks, b)
				if f[1] == "TEARDOWN" {
					td[f[4]] = true
				}
			case "I":
				d := c13OptHex(f[2])
				ch, _ := strconv.Atoi(f[1])
				fr := append([]byte{'$', byte(ch), byte(len(d) >> 8), byte(len(d))}, d...)
				toks = append(toks, fr)
			}
		}
		return c13RunSession(ws, c13Int(a[1]), a[2], toks, td)
	}
	ops["fz.rtsp"] = func(a []string) string {
		raw := unhx(a[2])
		// split the stream in two reads at its middle so that partial reads are exercised as well
		toks := [][]byte{raw}
		if len(raw) > 1 {
			toks = [][]byte{raw[:len(raw)/2], raw[len(raw)/2:]}
		}
		r := c13RunSession(a[0] == "1", c13Int(a[1]), "nil", toks, nil)
		if r == "hang" {
			return r
		}
		return "done"
	}
	// Content-Length handed to nazahttp.ReadHttpMessage by a request on the RTSP port
	ops["fz.rtsp.cl"] = func(a []string) string {
		raw := []byte("ANNOUNCE rtsp://h/live/t RTSP/1.0\r\nCSeq: 1\r\nContent-Length: " + string(unhx(a[0])) + "\r\n\r\n")
		r := c13RunSession(false, 0, "nil", [][]byte{raw}, nil)
		if r == "hang" {
			return r
		}
		return "done"
	}
	// rtsp.msg <req|resp> <Content-Length value, hex | none> <what strconv.Atoi makes of it: int | e | - (no or empty value)> <bytes behind the header section>
	//     => err | eof (fewer bytes than announced) | ok <Body> <what stays unread>
	// lal's own message reader (pkg/rtsp/http_message.go); the Atoi result is an input of the model, recomputed here so that a replay cannot lie
	ops["rtsp.msg"] = func(a []string) string {
		first, hdr, want := "ANNOUNCE rtsp://h/live/t RTSP/1.0\r\n", "CSeq: 1\r\n", "-"
		if a[0] == "resp" {
			first = "RTSP/1.0 200 OK\r\n"
		}
		if a[1] != "none" {
			v := string(unhx(a[1]))
			hdr += "Content-Length: " + v + "\r\n"
			want = c13Atoi(v)
		}
		if want != a[2] {
			return "badop"
		}
		r := bufio.NewReader(bytes.NewReader(append([]byte(first+hdr+"\r\n"), unhx(a[3])...)))
		var body []byte
		var err error
		if a[0] == "resp" {
			var ctx nazahttp.HttpRespMsgCtx
			ctx, err = rtsp.VerifReadHttpResponseMessage(r)
			body = ctx.Body
		} else {
			var ctx nazahttp.HttpReqMsgCtx
			ctx, err = rtsp.VerifReadHttpRequestMessage(r)
			body = ctx.Body
		}
		if err == io.EOF || err == io.ErrUnexpectedEOF { // io.ReadFull: the body is shorter than announced
			return "eof"
		}
		if err != nil {
			return "err"
		}
		rest, _ := io.ReadAll(r)
		return "ok " + hx(body) + " " + hx(rest)
	}
	ops["fz.sess"] = c13Sess
	ops["fz.hls"] = func(a []string) string {
		dir, _ := os.MkdirTemp("", "c13hls")
		defer os.RemoveAll(dir)
		key := a[0]
		if key == "-" {
			key = ""
		}
		h := hls.NewServerHandler(dir, "/hls/", key, 1000, c13HlsObs{})
		target := string(unhx(a[1]))
		req, err := http.NewRequest("GET", "http://127.0.0.1"+target, nil)
		if err != nil {
			return "badreq"
		}
		req.RequestURI = target
		req.Host = "127.0.0.1"
		rec := httptest.NewRecorder()
		h.ServeHTTP(rec, req)
		return fmt.Sprintf("%d", rec.Code)
	}
	// client side, in a child process
	c13ChildOps["fz.rtmpc"] = func(a []string) string {
		addr, done := c13Serve(true, unhx(a[0]), 300*time.Millisecond)
		s := rtmp.NewPullSession(func(o *rtmp.PullSessionOption) {
			o.PullTimeoutMs = 400
			o.ReadAvTimeoutMs = 400
		})
		err := s.Pull("rtmp://" + addr + "/live/t")
		if os.Getenv("C13DBG") != "" {
			fmt.Fprintf(os.Stderr, "pull err=%v\n", err)
		}
		r := "pull-err"
		if err == nil {
			r = c13Wait(s.WaitChan(), time.Second)
		}
		_ = s.Dispose()
		<-done
		return r
	}
	c13ChildOps["fz.flvc"] = func(a []string) string {
		addr, done := c13Serve(false, unhx(a[0]), 300*time.Millisecond)
		s := httpflv.NewPullSession(func(o *httpflv.PullSessionOption) {
			o.PullTimeoutMs = 400
			o.ReadTimeoutMs = 400
		})
		err := s.Pull("http://"+addr+"/live/t.flv", func(tag httpflv.Tag) {})
		r := "pull-err"
		if err == nil {
			r = c13Wait(s.WaitChan(), time.Second)
		}
		_ = s.Dispose()
		<-done
		return r
	}
	c13ChildOps["fz.rtspc"] = func(a []string) string {
		addr, done := c13Serve(false, unhx(a[1]), 300*time.Millisecond)
		obs := &c13Obs{}
		s := rtsp.NewPullSession(obs, func(o *rtsp.PullSessionOption) {
			o.PullTimeoutMs = 400
			o.OverTcp = a[0] == "1"
		})
		err := s.Pull("rtsp://" + addr + "/live/t")
		r := "pull-err"
		if err == nil {
			r = c13Wait(s.WaitChan(), time.Second)
		}
		_ = s.Dispose()
		<-done
		return r
	}
	for _, n := range []string{"fz.rtmpc", "fz.flvc", "fz.rtspc"} {
		name := n
		ops[name] = func(a []string) string {
			r := c13Child(name+" "+strings.Join(a, " "), 8*time.Second)
			if r == "panic" || r == "hang" {
				return r
			}
			return "done" // how the pull ends (error, timeout, closed) depends on timing: not compared
		}
	}
}

// c13Atoi: what readHttpMessage gets from the header value: "-" no value (Headers.Get is empty), "e" strconv.Atoi fails, else the int
func c13Atoi(v string) string {
	t := strings.Trim(v, " ")
	if t == "" {
		return "-"
	}
	n, err := strconv.Atoi(t)
	if err != nil {
		return "e"
	}
	return strconv.Itoa(n)
}
