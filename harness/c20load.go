package main

// C20 — loader: parses and type-checks the lal packages under <repo>/pkg from
// source (go/parser + go/types, standard library only), so that the lock /
// access / channel tables are extracted from the tree the harness was built
// against. naza is type-checked from the module cache without function bodies;
// the standard library through the "source" importer (GOROOT/src).

import (
	"fmt"
	"go/ast"
	"go/build"
	"go/importer"
	"go/parser"
	"go/token"
	"go/types"
	"os"
	"os/exec"
	"path/filepath"
	"sort"
	"strings"
)

const c20LalPath = "github.com/q191201771/lal"
const c20NazaPath = "github.com/q191201771/naza"

type c20Pkg struct {
	path  string
	dir   string
	files []*ast.File
	names []string // file names, parallel to files
	tpkg  *types.Package
	info  *types.Info
	lal   bool
}

type c20Prog struct {
	repo    string
	nazaDir string
	fset    *token.FileSet
	pkgs    map[string]*c20Pkg
	std     types.Importer
	loading map[string]bool
	errs    []string
}

func c20NazaDir(repo string) (string, error) {
	cmd := exec.Command("go", "list", "-m", "-f", "{{.Dir}}", c20NazaPath)
	cmd.Dir = repo
	cmd.Env = append(os.Environ(), "GOFLAGS=-mod=mod", "GOPROXY=off", "GOSUMDB=off", "GOTOOLCHAIN=local")
	out, err := cmd.Output()
	if err != nil {
		return "", fmt.Errorf("go list -m naza: %v", err)
	}
	d := strings.TrimSpace(string(out))
	if d == "" {
		return "", fmt.Errorf("naza module directory not found")
	}
	return d, nil
}

func c20NewProg(repo string) (*c20Prog, error) {
	nd, err := c20NazaDir(repo)
	if err != nil {
		return nil, err
	}
	fset := token.NewFileSet()
	build.Default.CgoEnabled = false
	p := &c20Prog{repo: repo, nazaDir: nd, fset: fset, pkgs: map[string]*c20Pkg{}, loading: map[string]bool{}}
	p.std = importer.ForCompiler(fset, "source", nil)
	return p, nil
}

func (p *c20Prog) Import(path string) (*types.Package, error) { return p.ImportFrom(path, "", 0) }

func (p *c20Prog) ImportFrom(path, dir string, mode types.ImportMode) (*types.Package, error) {
	if path == "unsafe" {
		return types.Unsafe, nil
	}
	if strings.HasPrefix(path, c20LalPath+"/") {
		pk, err := p.load(path, filepath.Join(p.repo, strings.TrimPrefix(path, c20LalPath+"/")), true)
		if err != nil {
			return nil, err
		}
		return pk.tpkg, nil
	}
	if strings.HasPrefix(path, c20NazaPath+"/") {
		pk, err := p.load(path, filepath.Join(p.nazaDir, strings.TrimPrefix(path, c20NazaPath+"/")), false)
		if err != nil {
			return nil, err
		}
		return pk.tpkg, nil
	}
	if f, ok := p.std.(types.ImporterFrom); ok {
		return f.ImportFrom(path, dir, mode)
	}
	return p.std.Import(path)
}

func (p *c20Prog) load(path, dir string, lal bool) (*c20Pkg, error) {
	if pk, ok := p.pkgs[path]; ok {
		return pk, nil
	}
	if p.loading[path] {
		return nil, fmt.Errorf("import cycle through %s", path)
	}
	p.loading[path] = true
	defer delete(p.loading, path)
	ctx := build.Default
	ctx.CgoEnabled = false
	ctx.BuildTags = []string{"verif"}
	bp, err := ctx.ImportDir(dir, 0)
	if err != nil {
		return nil, fmt.Errorf("%s: %v", path, err)
	}
	pk := &c20Pkg{path: path, dir: dir, lal: lal}
	names := append([]string{}, bp.GoFiles...)
	sort.Strings(names)
	for _, n := range names {
		f, err := parser.ParseFile(p.fset, filepath.Join(dir, n), nil, parser.SkipObjectResolution)
		if err != nil {
			return nil, fmt.Errorf("%s: %v", n, err)
		}
		pk.files = append(pk.files, f)
		pk.names = append(pk.names, n)
	}
	pk.info = &types.Info{
		Types:      map[ast.Expr]types.TypeAndValue{},
		Defs:       map[*ast.Ident]types.Object{},
		Uses:       map[*ast.Ident]types.Object{},
		Selections: map[*ast.SelectorExpr]*types.Selection{},
		Implicits:  map[ast.Node]types.Object{},
	}
	conf := types.Config{
		Importer:         p,
		IgnoreFuncBodies: !lal,
		FakeImportC:      true,
		Error: func(err error) {
			if lal {
				p.errs = append(p.errs, err.Error())
			}
		},
	}
	tp, _ := conf.Check(path, p.fset, pk.files, pk.info)
	pk.tpkg = tp
	p.pkgs[path] = pk
	return pk, nil
}

// loadAllLal loads every package directory under <repo>/pkg (tests excluded).
func (p *c20Prog) loadAllLal() error {
	root := filepath.Join(p.repo, "pkg")
	ents, err := os.ReadDir(root)
	if err != nil {
		return err
	}
	for _, e := range ents {
		if !e.IsDir() {
			continue
		}
		if e.Name() == "innertest" { // test driver, imports testing
			continue
		}
		dir := filepath.Join(root, e.Name())
		if ms, _ := filepath.Glob(filepath.Join(dir, "*.go")); len(ms) == 0 {
			continue
		}
		if _, err := p.load(c20LalPath+"/pkg/"+e.Name(), dir, true); err != nil {
			return err
		}
	}
	if len(p.errs) > 0 {
		n := len(p.errs)
		if n > 5 {
			n = 5
		}
		return fmt.Errorf("type errors in lal packages: %s", strings.Join(p.errs[:n], "; "))
	}
	return nil
}

// lalPkgs returns the analysed packages in a fixed order.
func (p *c20Prog) lalPkgs() []*c20Pkg {
	var out []*c20Pkg
	for _, pk := range p.pkgs {
		if pk.lal {
			out = append(out, pk)
		}
	}
	sort.Slice(out, func(i, j int) bool { return out[i].path < out[j].path })
	return out
}

// shortPkg: "github.com/q191201771/lal/pkg/logic" -> "logic"
func c20ShortPkg(path string) string {
	if i := strings.LastIndexByte(path, '/'); i >= 0 {
		return path[i+1:]
	}
	return path
}

func (p *c20Prog) posStr(pos token.Pos) string {
	ps := p.fset.Position(pos)
	return fmt.Sprintf("%s/%s:%d", filepath.Base(filepath.Dir(ps.Filename)), filepath.Base(ps.Filename), ps.Line)
}
