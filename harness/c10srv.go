package main

import (
	"fmt"
	"os"
	"strings"
	"time"

	"github.com/q191201771/lal/pkg/base"
	"github.com/q191201771/lal/pkg/hls"
	"github.com/q191201771/lal/pkg/logic"
	"github.com/q191201771/naza/pkg/filesystemlayer"
)

// C10, server level: the delayed cleanup of an ended publish (ServerManager.CleanupHlsIfNeeded, run through lal's own
// timer thread) against a re-publish of the same stream name inside the delay.
//
//	hls.republish <cleanup_mode>  =>  kept | removed
//
// publish (customize API) -> stop -> publish again at once -> wait twice the cleanup delay -> was the directory of the
// LIVE second publish removed?

var c10RepublishSeq int

func c10Republish(a []string) string {
	mode := atoi(a[0])
	fsl := &c10Fsl{mem: filesystemlayer.NewFslMemory(), open: map[string]bool{}, quiet: true}
	old := hls.VerifSetFsl(fsl)
	defer hls.VerifSetFsl(old)
	conf := fmt.Sprintf(`{"conf_version":"%s","hls":{"enable":true,"enable_https":false,"url_pattern":"/hls/","out_path":"/c10srv/hls/","fragment_duration_ms":100,`+
		`"fragment_num":2,"delete_threshold":1,"cleanup_mode":%d,"use_memory_as_disk_flag":false},`+
		`"log":{"level":6,"filename":"","is_to_stdout":false,"is_rotate_daily":false,"short_file_flag":false,"timestamp_flag":false,`+
		`"timestamp_with_ms_flag":false,"level_flag":false,"assert_behavior":1}}`, base.ConfVersion, mode)
	sm := logic.NewServerManager(func(option *logic.Option) { option.ConfRawContent = []byte(conf) })
	c10RepublishSeq++
	name := fmt.Sprintf("c10rp%d", c10RepublishSeq) // the timer thread outlives the op: a task left by an earlier op names another stream
	feed := func(ctx logic.ICustomizePubSessionContext, n int) {
		msg := func(typ uint8, ts uint32, p []byte) base.RtmpMsg {
			var m base.RtmpMsg
			m.Header.Csid = 6
			m.Header.MsgTypeId = typ
			m.Header.MsgStreamId = 1
			m.Header.TimestampAbs = ts
			m.Header.MsgLen = uint32(len(p))
			m.Payload = p
			return m
		}
		_ = ctx.FeedRtmpMsg(msg(9, 0, unhx("17000000000164001fffe100196764001fac2ca4014016ec0440000003004000000c03c60ca801000468ee3cb0")))
		for i := 0; i < n; i++ {
			_ = ctx.FeedRtmpMsg(msg(9, uint32(i*60), []byte{0x17, 1, 0, 0, 0, 0, 0, 0, 3, 0x65, 0x88, byte(i)}))
		}
	}
	c1, err := sm.AddCustomizePubSession(name)
	if err != nil {
		return "add-failed"
	}
	feed(c1, 6)
	sm.DelCustomizePubSession(c1)
	c2, err := sm.AddCustomizePubSession(name)
	if err != nil {
		return "second-add-failed"
	}
	feed(c2, 6)
	mark := len(fsl.log)
	time.Sleep(700 * time.Millisecond) // the cleanup of the first publish is due after 100*(2+1) ms
	removed := false
	for _, e := range fsl.log[mark:] {
		if strings.HasPrefix(e, "rmall:") && strings.Contains(e, name) {
			removed = true
		}
	}
	sm.DelCustomizePubSession(c2)
	if removed {
		return "removed"
	}
	return "kept"
}

// hls.ends <enable> <enable_https>  =>  <muxer alive after the input ended 0|1> <live playlist ends with ENDLIST 0|1|-> <rmall seen 0|1>
//
// a real ServerManager with HLS served over http only, https only, or both: publish (customize API), stop.
func c10Ends(a []string) string {
	fsl := &c10Fsl{mem: filesystemlayer.NewFslMemory(), open: map[string]bool{}, quiet: true}
	old := hls.VerifSetFsl(fsl)
	defer hls.VerifSetFsl(old)
	conf := fmt.Sprintf(`{"conf_version":"%s","hls":{"enable":%s,"enable_https":%s,"url_pattern":"/hls/","out_path":"/c10ends/hls/","fragment_duration_ms":100,`+
		`"fragment_num":2,"delete_threshold":1,"cleanup_mode":0,"use_memory_as_disk_flag":false},`+
		`"default_http":{"http_listen_addr":"127.0.0.1:0","https_listen_addr":"127.0.0.1:0","https_cert_file":"","https_key_file":""},`+
		`"log":{"level":6,"filename":"","is_to_stdout":false,"is_rotate_daily":false,"short_file_flag":false,"timestamp_flag":false,`+
		`"timestamp_with_ms_flag":false,"level_flag":false,"assert_behavior":1}}`, base.ConfVersion, map[string]string{"1": "true", "0": "false"}[a[0]], map[string]string{"1": "true", "0": "false"}[a[1]])
	sm := logic.NewServerManager(func(option *logic.Option) { option.ConfRawContent = []byte(conf) })
	c10RepublishSeq++
	name := fmt.Sprintf("c10ends%d", c10RepublishSeq)
	ctx, err := sm.AddCustomizePubSession(name)
	if err != nil {
		return "add-failed"
	}
	msg := func(typ uint8, ts uint32, p []byte) base.RtmpMsg {
		var m base.RtmpMsg
		m.Header.Csid = 6
		m.Header.MsgTypeId = typ
		m.Header.MsgStreamId = 1
		m.Header.TimestampAbs = ts
		m.Header.MsgLen = uint32(len(p))
		m.Payload = p
		return m
	}
	_ = ctx.FeedRtmpMsg(msg(9, 0, unhx("17000000000164001fffe100196764001fac2ca4014016ec0440000003004000000c03c60ca801000468ee3cb0")))
	for i := 0; i < 40; i++ { // the remuxer probes 16 messages for an audio track before it emits anything
		_ = ctx.FeedRtmpMsg(msg(9, uint32(i*60), []byte{0x17, 1, 0, 0, 0, 0, 0, 0, 3, 0x65, 0x88, byte(i)}))
	}
	g := sm.GetGroup("", name)
	started := g != nil && g.IsHlsMuxerAlive()
	sm.DelCustomizePubSession(ctx)
	alive := "0"
	if g := sm.GetGroup("", name); g != nil && g.IsHlsMuxerAlive() {
		alive = "1"
	}
	endlist := "-"
	path := ""
	for _, e := range fsl.log { // the muxer renames the finished playlist into place
		if f := strings.Split(e, ":"); f[0] == "mv" && len(f) == 3 && strings.HasSuffix(f[2], "/playlist.m3u8") {
			path = f[2]
		}
	}
	if b, err := fsl.mem.ReadFile(path); path != "" && err == nil {
		endlist = "0"
		if strings.Contains(string(b), "#EXT-X-ENDLIST") {
			endlist = "1"
		}
	}
	if os.Getenv("C10_DEBUG") != "" {
		fmt.Fprintln(os.Stderr, strings.Join(fsl.log, "\n"))
	}
	st := "0"
	if started {
		st = "1"
	}
	return "started=" + st + " alive=" + alive + " endlist=" + endlist
}

func init() {
	ops["hls.ends"] = c10Ends
	ops["hls.republish"] = c10Republish
}
