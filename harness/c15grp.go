package main

// C15, group level: a REAL logic.Group whose subscribers are asynchronous sessions over gated
// sockets. Some consumers stall, others keep reading; the publisher keeps publishing; the
// harness drives Group.Tick itself (liveness sweep).

import (
	"fmt"
	"sort"
	"strings"

	"github.com/q191201771/lal/pkg/base"
	"github.com/q191201771/lal/pkg/httpflv"
	"github.com/q191201771/lal/pkg/logic"
	"github.com/q191201771/lal/pkg/rtmp"
)

// q.grp <cfg> <cap> <sweep interval> <ev;ev;...>
//
//	=>  <token per T event>|<key>=<closed>:<bytes received>|...
//
// events: P p M:typ:ts:payload J:k:id[:cap[:s]] L:k:id (as grp.run, k = r f w)
//
//	S:k:id stall  R:k:id resume  r:k:id consumer reads one queue item  T:n Group.Tick(n)
func c15Grp(a []string) string {
	cfg := c01ParseCfg(a[0])
	cap := atoi(a[1])
	oldIv := base.LogicCheckSessionAliveIntervalSec
	base.LogicCheckSessionAliveIntervalSec = uint32(atoi(a[2]))
	defer func() { base.LogicCheckSessionAliveIntervalSec = oldIv }()
	oldF := httpflv.SubSessionWriteChanSize
	httpflv.SubSessionWriteChanSize = cap
	defer func() { httpflv.SubSessionWriteChanSize = oldF }()
	oldR := rtmp.VerifSetWChanSize(cap)
	defer rtmp.VerifSetWChanSize(oldR)

	var lc logic.Config
	lc.RtmpConfig.Enable = cfg.rc
	lc.RtmpConfig.GopNum = cfg.rg
	lc.RtmpConfig.SingleGopMaxFrameNum = cfg.rk
	lc.RtmpConfig.MergeWriteSize = cfg.ms
	lc.HttpflvConfig.Enable = cfg.fc
	lc.HttpflvConfig.GopNum = cfg.fg
	lc.HttpflvConfig.SingleGopMaxFrameNum = cfg.fk
	g := logic.NewGroup("live", "s", &lc, logic.GroupOption{}, c01Observer{})

	var pub *rtmp.ServerSession
	subs := map[string]*c15Sub{}
	var order []string
	var toks []string
	closedList := func() string {
		var l []string
		for _, k := range order {
			if subs[k].conn.isClosed() {
				l = append(l, k)
			}
		}
		sort.Strings(l)
		return strings.Join(l, "+")
	}
	for _, e := range strings.Split(a[3], ";") {
		f := strings.Split(e, ":")
		r := c15Guard(func() string {
			switch f[0] {
			case "P":
				s := rtmp.NewServerSession(nil, newRecConn())
				if err := g.AddRtmpPubSession(s); err == nil {
					pub = s
				}
			case "p":
				if pub != nil {
					g.DelRtmpPubSession(pub)
					pub = nil
				}
			case "M":
				if pub != nil {
					p := unhx(f[3])
					var m base.RtmpMsg
					m.Header.Csid = 4
					m.Header.MsgTypeId = uint8(atoi(f[1]))
					m.Header.MsgStreamId = 1
					m.Header.TimestampAbs = uint32(atoi(f[2]))
					m.Header.MsgLen = uint32(len(p))
					m.Payload = p
					g.OnReadRtmpAvMsg(m)
				}
			case "J":
				key := f[1] + f[2]
				if _, dup := subs[key]; dup {
					return ""
				}
				var sub *c15Sub
				cap := cap
				if len(f) > 3 {
					cap = atoi(f[3]) // this subscriber's own queue capacity
				}
				born := len(f) > 4 && f[4] == "s" // the consumer never reads: stalled before the first byte
				sub = c15NewSub(map[string]string{"r": "rtmp", "f": "flv", "w": "wsflv"}[f[1]], cap)
				if born {
					sub.conn.setOpen(false)
				}
				if f[1] == "r" {
					g.AddRtmpSubSession(sub.rs)
				} else {
					g.AddHttpflvSubSession(sub.fs)
				}
				subs[key] = sub
				order = append(order, key)
			case "L":
				if sub, ok := subs[f[1]+f[2]]; ok {
					if sub.rs != nil {
						g.DelRtmpSubSession(sub.rs)
					} else {
						g.DelHttpflvSubSession(sub.fs)
					}
				}
			case "S":
				if sub, ok := subs[f[1]+f[2]]; ok {
					sub.conn.setOpen(false)
				}
			case "R":
				if sub, ok := subs[f[1]+f[2]]; ok {
					sub.conn.setOpen(true)
				}
			case "r":
				if sub, ok := subs[f[1]+f[2]]; ok {
					sub.releaseItem()
				}
			case "T":
				g.Tick(uint32(atoi(f[1])))
				c15Settle()
				return "t" + closedList()
			}
			return ""
		})
		c15Settle()
		if r != "" {
			toks = append(toks, r)
		}
	}
	parts := []string{strings.Join(toks, ",")}
	sort.Strings(order)
	for _, k := range order {
		parts = append(parts, fmt.Sprintf("%s=%s:%s", k, c15Closed(subs[k].conn), hx(subs[k].conn.received())))
	}
	for _, k := range order {
		subs[k].dispose()
	}
	if pub != nil {
		_ = pub.Dispose()
	}
	c15Settle()
	return strings.Join(parts, "|")
}

func init() {
	ops["q.grp"] = c15Grp
}
