package main

// C20 — implementation side of the correspondence: the churn scenario (harness/c20scn) is built twice from the lal
// tree the harness itself was built against and run under a watchdog:
//   bin/c20race  : go build -race              → data races, Go fatal errors (concurrent map, send on closed channel)
//   bin/c20order : go build -overlay (c20instr) → lock classes observed held when another one is requested
// Ops (one line each, replayable):
//   sync.scenario <race|order> <seed> <durMs> <actors>  => done | deadlock:<what> | fatal:<what>
//   sync.pair <held> <acquired>                         => held        (an observed pair; the model answers from Gen.C20.holds)
//   sync.race <seed> <durMs> <actors> <siteA> <siteB>   => race | norace-this-run   (replay re-runs the scenario)
// This is supporting evidence, NOT the proof: schedules are sampled, not enumerated.

import (
	"bufio"
	"bytes"
	"fmt"
	"io/ioutil"
	"net"
	"os"
	"os/exec"
	"path/filepath"
	"regexp"
	"runtime/debug"
	"sort"
	"strconv"
	"strings"
	"time"

	"github.com/q191201771/lal/pkg/base"
	"github.com/q191201771/lal/pkg/httpflv"
	"github.com/q191201771/lal/pkg/httpts"
	"github.com/q191201771/lal/pkg/logic"
	"github.com/q191201771/lal/pkg/rtprtcp"
	"github.com/q191201771/lal/pkg/rtsp"
)

type c20Run struct {
	result string
	stats  map[string]int
	pairs  []string
	races  [][2]string // normalised site pairs
	raceOn bool
	note   string
}

func c20Dirs() (binDir, srcDir string) {
	exe, err := os.Executable()
	if err != nil {
		panic(err)
	}
	binDir = filepath.Dir(exe)
	srcDir = filepath.Join(binDir, "..", "harness")
	return
}

func c20Repo() string {
	if r := os.Getenv("LAL_REPO"); r != "" {
		return r
	}
	return "/repo"
}

func c20GoEnv(cgo string) []string {
	env := []string{}
	for _, e := range os.Environ() {
		if strings.HasPrefix(e, "CGO_ENABLED=") || strings.HasPrefix(e, "GOMEMLIMIT=") {
			continue
		}
		env = append(env, e)
	}
	return append(env, "GOFLAGS=-mod=mod", "GOPROXY=off", "GOSUMDB=off", "GOTOOLCHAIN=local", "CGO_ENABLED="+cgo)
}

var c20Built = map[string]string{} // mode -> note

// c20Build builds the scenario binary for a mode (go's build cache makes an unchanged tree a no-op).
func c20Build(mode string) (string, string, error) {
	binDir, srcDir := c20Dirs()
	out := filepath.Join(binDir, "c20"+mode)
	if note, ok := c20Built[mode]; ok {
		return out, note, nil
	}
	var cmd *exec.Cmd
	note := ""
	switch mode {
	case "race":
		cmd = exec.Command("go", "build", "-race", "-tags", "verif", "-o", out, "./c20scn")
		cmd.Env = c20GoEnv("1")
	case "order":
		ovDir := filepath.Join(binDir, ".c20overlay")
		ov, n, err := c20Instrument(c20Repo(), ovDir)
		if err != nil {
			return "", "", fmt.Errorf("instrument: %v", err)
		}
		note = fmt.Sprintf("instrumented-sites=%d", n)
		cmd = exec.Command("go", "build", "-overlay", ov, "-tags", "verif c20vsync", "-o", out, "./c20scn")
		cmd.Env = c20GoEnv("0")
	default:
		return "", "", fmt.Errorf("unknown mode %s", mode)
	}
	cmd.Dir = srcDir
	if b, err := cmd.CombinedOutput(); err != nil {
		if mode == "race" {
			// no cgo / no race runtime: run without the detector and say so
			cmd = exec.Command("go", "build", "-tags", "verif", "-o", out, "./c20scn")
			cmd.Env = c20GoEnv("0")
			cmd.Dir = srcDir
			if b2, err2 := cmd.CombinedOutput(); err2 != nil {
				return "", "", fmt.Errorf("build: %v: %s", err2, b2)
			}
			note = "race-detector-unavailable: " + strings.TrimSpace(string(b))
			if len(note) > 200 {
				note = note[:200]
			}
		} else {
			return "", "", fmt.Errorf("build: %v: %s", err, b)
		}
	}
	c20Built[mode] = note
	return out, note, nil
}

var c20FrameRe = regexp.MustCompile(`^\s+(\S+)\(.*\)$`)
var c20PosRe = regexp.MustCompile(`^\s+(\S+\.go):(\d+)`)

// c20ParseRaces extracts, from a race detector log, the first lal frame of both accesses of every report.
func c20ParseRaces(log string) [][2]string {
	var out [][2]string
	seen := map[[2]string]bool{}
	for _, blk := range strings.Split(log, "WARNING: DATA RACE")[1:] {
		if i := strings.Index(blk, "\n=================="); i >= 0 {
			blk = blk[:i]
		}
		var sites []string
		lines := strings.Split(blk, "\n")
		inAccess := false
		found := false
		for i := 0; i < len(lines); i++ {
			l := lines[i]
			lt := strings.TrimSpace(l)
			if strings.HasPrefix(lt, "Goroutine ") { // creation stacks follow
				break
			}
			if strings.Contains(lt, " at 0x") && strings.Contains(lt, "by ") && (strings.HasPrefix(lt, "Read") || strings.HasPrefix(lt, "Write") ||
				strings.HasPrefix(lt, "Previous") || strings.HasPrefix(lt, "Atomic")) {
				inAccess, found = true, false
				continue
			}
			if !inAccess || found {
				continue
			}
			if m := c20FrameRe.FindStringSubmatch(l); m != nil && i+1 < len(lines) {
				if p := c20PosRe.FindStringSubmatch(lines[i+1]); p != nil && strings.Contains(p[1], "/pkg/") && !strings.Contains(p[1], "/naza") {
					fn := m[1]
					if k := strings.LastIndex(fn, "/"); k >= 0 {
						fn = fn[k+1:]
					}
					file := p[1]
					if k := strings.Index(file, "/pkg/"); k >= 0 {
						file = file[k+5:]
					}
					sites = append(sites, fn+"@"+file+":"+p[2])
					found = true
				}
			}
		}
		for len(sites) < 2 {
			sites = append(sites, "outside-lal")
		}
		sort.Strings(sites[:2])
		k := [2]string{sites[0], sites[1]}
		if !seen[k] {
			seen[k] = true
			out = append(out, k)
		}
	}
	return out
}

func c20RunScenario(mode string, seed uint64, durMs, actors int) (*c20Run, error) {
	// race1: the race build on one P (goroutines interleave only at scheduling points, which is how the SETUP/dispose
	// and the shared-unpacker races of rtsp sessions showed up: 3 of 24 such runs, none of the parallel ones)
	procs := ""
	if mode == "race1" {
		mode, procs = "race", "1"
	}
	bin, note, err := c20Build(mode)
	if err != nil {
		return nil, err
	}
	r := &c20Run{stats: map[string]int{}, note: note, raceOn: mode == "race" && !strings.HasPrefix(note, "race-detector-unavailable")}
	tmp, err := ioutil.TempDir("", "c20run-")
	if err != nil {
		return nil, err
	}
	defer os.RemoveAll(tmp)
	cmd := exec.Command(bin, "-seed", fmt.Sprint(seed), "-dur", fmt.Sprint(durMs), "-actors", fmt.Sprint(actors))
	cmd.Env = append(c20GoEnv("0"), "GORACE=halt_on_error=0 log_path="+filepath.Join(tmp, "race"), "TMPDIR="+tmp)
	if procs != "" {
		cmd.Env = append(cmd.Env, "GOMAXPROCS="+procs)
	}
	var stdout, stderr bytes.Buffer
	cmd.Stdout, cmd.Stderr = &stdout, &stderr
	if err := cmd.Start(); err != nil {
		return nil, err
	}
	done := make(chan error, 1)
	go func() { done <- cmd.Wait() }()
	limit := time.Duration(durMs)*time.Millisecond + 150*time.Second
	var werr error
	select {
	case werr = <-done:
	case <-time.After(limit):
		_ = cmd.Process.Kill()
		<-done
		r.result = "deadlock:scenario-process-did-not-finish"
	}
	sc := bufio.NewScanner(&stdout)
	for sc.Scan() {
		f := strings.Fields(sc.Text())
		switch {
		case len(f) == 3 && f[0] == "STAT":
			n, _ := strconv.Atoi(f[2])
			r.stats[f[1]] = n
		case len(f) == 3 && f[0] == "PAIR":
			r.pairs = append(r.pairs, f[1]+" "+f[2])
		case len(f) == 2 && f[0] == "RESULT" && r.result == "":
			r.result = f[1]
		}
	}
	se := stderr.String()
	for _, pat := range []string{"fatal error: concurrent map", "send on closed channel", "close of closed channel", "all goroutines are asleep"} {
		if strings.Contains(se, pat) {
			r.result = "fatal:" + strings.ReplaceAll(pat, " ", "-")
		}
	}
	if r.result == "" {
		if i := strings.Index(se, "panic: "); i >= 0 {
			l := se[i:]
			if j := strings.IndexByte(l, '\n'); j >= 0 {
				l = l[:j]
			}
			r.result = "fatal:" + strings.ReplaceAll(l, " ", "-")
		} else if werr != nil {
			r.result = "fatal:exit-" + strings.ReplaceAll(werr.Error(), " ", "-")
		} else {
			r.result = "fatal:no-result-line"
		}
	}
	logs, _ := filepath.Glob(filepath.Join(tmp, "race*"))
	var all strings.Builder
	for _, l := range logs {
		b, _ := ioutil.ReadFile(l)
		all.Write(b)
	}
	all.WriteString(se)
	r.races = c20ParseRaces(all.String())
	if os.Getenv("C20_KEEP_RACELOG") != "" && len(r.races) > 0 {
		_ = ioutil.WriteFile(os.Getenv("C20_KEEP_RACELOG"), []byte(all.String()), 0o644)
	}
	return r, nil
}

func c20Atoi(s string) int { n, _ := strconv.Atoi(s); return n }

func init() {
	ops["sync.scenario"] = func(a []string) string {
		seed, _ := strconv.ParseUint(a[1], 10, 64)
		r, err := c20RunScenario(a[0], seed, c20Atoi(a[2]), c20Atoi(a[3]))
		if err != nil {
			return "fatal:harness-" + strings.ReplaceAll(err.Error(), " ", "-")
		}
		return r.result
	}
	ops["sync.pair"] = func(a []string) string { return "held" }
	ops["sync.race"] = func(a []string) string {
		seed, _ := strconv.ParseUint(a[0], 10, 64)
		r, err := c20RunScenario("race", seed, c20Atoi(a[1]), c20Atoi(a[2]))
		if err != nil {
			return "fatal:harness"
		}
		for _, p := range r.races {
			if p[0] == a[3] && p[1] == a[4] {
				return "race"
			}
		}
		return "norace-this-run"
	}
	gens["C20"] = c20Gen
}

func c20Gen(g *G) {
	type plan struct {
		mode        string
		seed        uint64
		dur, actors int
	}
	// boundary corpus: admission after shutdown (deterministic)
	for _, k := range []string{"flv", "ts", "rtsp"} {
		g.L("after-dispose").run("sync.lateadd " + k)
	}
	g.L("no-sdp").run("sync.latertp")
	base := g.rng.U64() % 1000000
	var plans []plan
	if g.thorough() {
		plans = append(plans, plan{"race", 287310, 6000, 2})
		for i := 0; i < 6; i++ {
			plans = append(plans, plan{"race", base + uint64(i), 12000, 3})
		}
		for i := 0; i < 4; i++ {
			plans = append(plans, plan{"race1", base + 200 + uint64(i)*37, 5000, 2})
		}
		plans = append(plans, plan{"order", base + 100, 8000, 3}, plan{"order", base + 101, 8000, 2})
	} else {
		// 287310: the seed on which the race detector first reported the two fixed races (known_findings.json)
		plans = append(plans, plan{"race", 287310, 5000, 2}, plan{"race", base, 5000, 2}, plan{"race1", base + 200, 5000, 2}, plan{"order", base + 100, 4000, 2})
	}
	pairs := map[string]bool{}
	type raceKey struct {
		a, b string
	}
	races := map[raceKey]plan{}
	for _, p := range plans {
		r, err := c20RunScenario(p.mode, p.seed, p.dur, p.actors)
		op := fmt.Sprintf("sync.scenario %s %d %d %d", p.mode, p.seed, p.dur, p.actors)
		if err != nil {
			g.L("harness-error").emit(op, "fatal:harness-"+strings.ReplaceAll(err.Error(), " ", "-"))
			continue
		}
		label := p.mode
		if strings.HasPrefix(p.mode, "race") && !r.raceOn {
			label = "race-detector-unavailable"
		}
		g.L(label).emit(op, r.result)
		for k, n := range r.stats {
			g.hist["sync.cover/"+p.mode+"/"+k] += n
		}
		for _, pr := range r.pairs {
			pairs[pr] = true
		}
		for _, rc := range r.races {
			k := raceKey{rc[0], rc[1]}
			if _, ok := races[k]; !ok {
				races[k] = p
			}
		}
	}
	var ps []string
	for p := range pairs {
		ps = append(ps, p)
	}
	sort.Strings(ps)
	for _, p := range ps {
		g.L("observed").emit("sync.pair "+p, "held")
	}
	var rk []raceKey
	for k := range races {
		rk = append(rk, k)
	}
	sort.Slice(rk, func(i, j int) bool { return rk[i].a+rk[i].b < rk[j].a+rk[j].b })
	for _, k := range rk {
		p := races[k]
		g.L("reported").emit(fmt.Sprintf("sync.race %d %d %d %s %s", p.seed, p.dur, p.actors, k.a, k.b), "race")
	}
}

// ------------------------------------------------------------------------------------------------
// sync.lateadd <flv|ts|hls>: a subscriber whose admission callback runs after ServerManager.Dispose (a connection
// accepted before shutdown whose request is read after it). Deterministic, in process, no listener:
// server with every listener disabled, a group made by AddCustomizePubSession, Dispose, then the admission callback.
// => ok | panic
const c20QuietConf = `{
 "conf_version": "v0.4.1",
 "rtmp": {"enable": false}, "default_http": {"http_listen_addr": ":0", "https_listen_addr": ":0"},
 "httpflv": {"enable": false}, "hls": {"enable": false}, "httpts": {"enable": false}, "rtsp": {"enable": false, "out_wait_key_frame_flag": true},
 "record": {"enable_flv": false, "enable_mpegts": false}, "relay_push": {"enable": false}, "static_relay_pull": {"enable": false},
 "http_api": {"enable": false}, "server_id": "c20", "http_notify": {"enable": false}, "simple_auth": {"key": "k"},
 "pprof": {"enable": false}, "log": {"level": 6, "filename": "%s", "is_to_stdout": false, "assert_behavior": 1},
 "debug": {"log_group_interval_sec": 0}
}`

func c20LateAdd(kind string) string {
	if os.Getenv("C20_DEBUG") != "" {
		defer func() {
			if r := recover(); r != nil {
				fmt.Fprintf(os.Stderr, "%v\n%s\n", r, debug.Stack())
				panic(r)
			}
		}()
	}
	tmp, err := ioutil.TempDir("", "c20late-")
	if err != nil {
		return "fatal:tmp"
	}
	defer os.RemoveAll(tmp)
	sm := logic.NewServerManager(func(o *logic.Option) {
		o.ConfRawContent = []byte(fmt.Sprintf(c20QuietConf, filepath.Join(tmp, "lal.log")))
	})
	if _, err := sm.AddCustomizePubSession("late"); err != nil {
		return "fatal:add"
	}
	sm.Dispose()
	a, b := net.Pipe()
	defer a.Close()
	defer b.Close()
	switch kind {
	case "flv":
		u, _ := base.ParseUrl("http://127.0.0.1:8080/live/late.flv", 80)
		_ = sm.OnNewHttpflvSubSession(httpflv.NewSubSession(a, u, false, ""))
	case "ts":
		u, _ := base.ParseUrl("http://127.0.0.1:8080/live/late.ts", 80)
		_ = sm.OnNewHttptsSubSession(httpts.NewSubSession(a, u, false, ""))
	case "rtsp":
		u, _ := base.ParseRtspUrl("rtsp://127.0.0.1:5544/live/late")
		cmd := rtsp.NewServerCommandSession(nil, a, rtsp.ServerAuthConfig{}, false, "")
		defer cmd.Dispose()
		sm.OnNewRtspSubSessionDescribe(rtsp.NewSubSession(u, cmd))
	default:
		return "fatal:kind"
	}
	return "ok"
}

// sync.latertp: an RTP packet of an RTSP publisher delivered to the group when the group has no SDP (the UDP read
// goroutines of a publisher run in parallel with its command connection: a packet can arrive after the publisher was
// removed, delIn having reset group.sdpCtx) while an RTSP subscriber is waiting for a key frame.  => ok | panic
func c20LateRtp() string {
	if os.Getenv("C20_DEBUG") != "" {
		defer func() {
			if r := recover(); r != nil {
				fmt.Fprintf(os.Stderr, "%v\n%s\n", r, debug.Stack())
				panic(r)
			}
		}()
	}
	tmp, err := ioutil.TempDir("", "c20late-")
	if err != nil {
		return "fatal:tmp"
	}
	defer os.RemoveAll(tmp)
	sm := logic.NewServerManager(func(o *logic.Option) {
		o.ConfRawContent = []byte(fmt.Sprintf(c20QuietConf, filepath.Join(tmp, "lal.log")))
	})
	a, b := net.Pipe()
	defer a.Close()
	defer b.Close()
	u, _ := base.ParseRtspUrl("rtsp://127.0.0.1:5544/live/latertp")
	cmd := rtsp.NewServerCommandSession(nil, a, rtsp.ServerAuthConfig{}, false, "")
	defer cmd.Dispose()
	sm.OnNewRtspSubSessionDescribe(rtsp.NewSubSession(u, cmd))
	g := sm.GetGroup("live", "latertp")
	if g == nil {
		return "fatal:nogroup"
	}
	pkt, err := rtprtcp.ParseRtpPacket([]byte{0x80, 96, 0, 1, 0, 0, 0, 1, 0, 0, 0, 1, 0x65, 0x88})
	if err != nil {
		return "fatal:rtp"
	}
	g.OnRtpPacket(pkt)
	return "ok"
}

func init() {
	ops["sync.lateadd"] = func(a []string) string { return c20LateAdd(a[0]) }
	ops["sync.latertp"] = func(a []string) string { return c20LateRtp() }
}
