package main

import (
	"encoding/hex"
	"fmt"
	"net"
	"net/url"
	"strconv"
	"strings"

	"github.com/q191201771/lal/pkg/base"
	"github.com/q191201771/lal/pkg/rtmp"
)

// Generator of C13: per entry point a boundary corpus (runs first), valid inputs with every field mutated, every
// truncation of the short ones, extremes of every length field, and random bytes.

func c13hs(s string) string { return hx([]byte(s)) }

// c13Rtp builds an RTP packet: cc CSRC words, extWords < 0 = no extension, pad < 0 = no padding (else the count byte).
func c13Rtp(pt, seq int, ts uint32, ssrc uint32, mark int, cc int, extWords int, pad int, payload []byte) []byte {
	b0 := byte(0x80 | cc&15)
	if extWords >= 0 {
		b0 |= 0x10
	}
	if pad >= 0 {
		b0 |= 0x20
	}
	b := []byte{b0, byte(mark<<7 | pt&0x7f), byte(seq >> 8), byte(seq), byte(ts >> 24), byte(ts >> 16), byte(ts >> 8), byte(ts),
		byte(ssrc >> 24), byte(ssrc >> 16), byte(ssrc >> 8), byte(ssrc)}
	for i := 0; i < cc; i++ {
		b = append(b, 0, 0, 0, byte(i+1))
	}
	if extWords >= 0 {
		b = append(b, 0xbe, 0xde, byte(extWords>>8), byte(extWords))
		for i := 0; i < extWords && i < 8; i++ {
			b = append(b, 1, 2, 3, 4)
		}
	}
	b = append(b, payload...)
	if pad >= 0 {
		n := pad
		if n > 6 {
			n = 6
		}
		for i := 1; i < n; i++ {
			b = append(b, 0)
		}
		b = append(b, byte(pad))
	}
	return b
}

func c13Prefixes(g *G, label, prefix string, b []byte, suffix string) {
	for i := 0; i <= len(b); i++ {
		g.L(label).run(prefix + hx(b[:i]) + suffix)
	}
}

// c13Mutate returns b with one byte set to one of the extreme values, or one byte dropped/inserted.
func c13Mutate(r *Rng, b []byte) []byte {
	c := append([]byte(nil), b...)
	if len(c) == 0 {
		return []byte{byte(r.Intn(256))}
	}
	i := r.Intn(len(c))
	switch r.Intn(6) {
	case 0:
		c[i] = 0
	case 1:
		c[i] = 0xff
	case 2:
		c[i] ^= 1 << uint(r.Intn(8))
	case 3:
		c[i] = byte(r.Intn(256))
	case 4:
		c = append(c[:i], c[i+1:]...)
	case 5:
		c = append(c[:i], append([]byte{byte(r.Intn(256))}, c[i:]...)...)
	}
	return c
}

func c13Join(l [][]byte) string {
	if len(l) == 0 {
		return "none"
	}
	p := make([]string, len(l))
	for i, b := range l {
		p[i] = hx(b)
	}
	return strings.Join(p, ",")
}

// ---------------------------------------------------------------------------------------------------------
// SDP texts

func c13Sdp(video, audio string) []byte {
	s := "v=0\r\no=- 0 0 IN IP4 127.0.0.1\r\ns=No Name\r\nc=IN IP4 127.0.0.1\r\nt=0 0\r\n" + video + audio
	return []byte(s)
}

const (
	c13VAvc  = "m=video 0 RTP/AVP 96\r\na=rtpmap:96 H264/90000\r\na=fmtp:96 packetization-mode=1; sprop-parameter-sets=Z2QAFqyyAUBf8uAiAAADAAIAAAMAPB4sXJA=,aOvDyyLA; profile-level-id=640016\r\na=control:streamid=0\r\n"
	c13VHevc = "m=video 0 RTP/AVP 98\r\na=rtpmap:98 H265/90000\r\na=control:streamid=0\r\n"
	c13AAac  = "m=audio 0 RTP/AVP 97\r\nb=AS:128\r\na=rtpmap:97 MPEG4-GENERIC/44100/2\r\na=fmtp:97 profile-level-id=1;mode=AAC-hbr;sizelength=13;indexlength=3;indexdeltalength=3; config=121056E500\r\na=control:streamid=1\r\n"
	c13APcma = "m=audio 0 RTP/AVP 8\r\na=control:streamid=1\r\n"
	c13AOpus = "m=audio 0 RTP/AVP 101\r\na=rtpmap:101 opus/48000/2\r\na=control:streamid=1\r\n"
)

func c13VRate(rate string) string {
	return "m=video 0 RTP/AVP 96\r\na=rtpmap:96 H264/" + rate + "\r\na=control:streamid=0\r\n"
}
func c13ARate(rate string) string {
	return "m=audio 0 RTP/AVP 97\r\na=rtpmap:97 MPEG4-GENERIC/" + rate + "/2\r\na=fmtp:97 mode=AAC-hbr; config=121056E500\r\na=control:streamid=1\r\n"
}

var c13Sdps = [][]byte{}

func init() {
	c13Sdps = [][]byte{
		c13Sdp(c13VAvc, c13AAac), c13Sdp(c13VHevc, c13AAac), c13Sdp(c13VAvc, c13APcma), c13Sdp(c13VAvc, c13AOpus),
		c13Sdp(c13VAvc, ""), c13Sdp("", c13AAac),
		c13Sdp(c13VRate("0"), c13ARate("0")), c13Sdp(c13VRate("1"), c13ARate("999")), c13Sdp(c13VRate("500"), c13ARate("1")),
		c13Sdp(c13VRate("-90000"), c13ARate("-44100")), c13Sdp(c13VRate("-999"), c13ARate("-1")),
		c13Sdp(c13VRate("4294967296000"), c13ARate("4294968296000")),
		c13Sdp("m=video 0 RTP/AVP 96\r\na=rtpmap:96 H264/90000\r\n", "m=audio 0 RTP/AVP 97\r\na=rtpmap:97 MPEG4-GENERIC/44100/2\r\n"),               // no control, no asc
		c13Sdp("m=video 0 RTP/AVP 0\r\na=rtpmap:0 H264/90000\r\na=control:x\r\n", "m=audio 0 RTP/AVP 0\r\na=rtpmap:0 PCMU/8000\r\na=control:x\r\n"), // same pt, same control
		c13Sdp("m=video 0 RTP/AVP 96\r\na=rtpmap:96 VP8/90000\r\na=control:streamid=0\r\n", "m=audio 0 RTP/AVP 14\r\na=control:streamid=1\r\n"),
	}
}

var (
	c13AUri = "rtsp://h/live/t/streamid=1"
	c13VUri = "rtsp://h/live/t/streamid=0"
	c13Uri  = "rtsp://h/live/t"
)

// ---------------------------------------------------------------------------------------------------------
// RTP payloads

func c13VideoPayloads(r *Rng, hevc bool) [][]byte {
	var out [][]byte
	if !hevc {
		out = append(out, []byte{0x67, 1, 2, 3}, []byte{0x65, 9, 9}, []byte{0x41, 7},
			[]byte{0x18, 0, 2, 0x67, 1, 0, 1, 0x68},                                        // STAP-A
			[]byte{0x18}, []byte{0x18, 0}, []byte{0x18, 0, 9, 1}, []byte{0x18, 0xff, 0xff}, // broken STAP-A
			[]byte{0x7c, 0x85, 1, 2}, []byte{0x7c, 0x05, 3}, []byte{0x7c, 0x45, 4}, // FU-A start, middle, end
			[]byte{0x7c}, []byte{0x1c}, []byte{0x7c, 0x85}, []byte{0x1d, 1}, []byte{0x1f}, []byte{0x00})
	} else {
		out = append(out, []byte{0x40, 1, 9}, []byte{0x42, 1, 9}, []byte{0x26, 1, 9}, []byte{0x02, 1, 7},
			[]byte{0x60, 1, 0, 3, 0x40, 1, 9, 0, 2, 0x42, 1}, // AP
			[]byte{0x60}, []byte{0x60, 1}, []byte{0x60, 1, 0}, []byte{0x60, 1, 0xff, 0xff, 1},
			[]byte{0x62, 1, 0x93, 5, 6}, []byte{0x62, 1, 0x13, 7}, []byte{0x62, 1, 0x53, 8}, // FU
			[]byte{0x62}, []byte{0x62, 1}, []byte{0x62, 1, 0x93}, []byte{0x64, 1}, []byte{0x7e})
	}
	return out
}

func c13AacPayloads() [][]byte {
	au := func(sizes ...int) []byte {
		n := len(sizes)
		b := []byte{byte(n * 16 >> 8), byte(n * 16)}
		for _, s := range sizes {
			b = append(b, byte(s>>5), byte(s<<3))
		}
		return b
	}
	frame := []byte{0xaa, 0xbb, 0xcc, 0xdd, 0xee}
	var out [][]byte
	out = append(out, append(au(5), frame...), append(au(2, 3), frame...), append(au(5), frame[:2]...), // complete, two AUs, first fragment
		append(au(5), frame[2:]...),                         // the other fragment
		append(au(9), frame...), append(au(2, 9), frame...), // sizes past the end
		append(au(8191), frame...), au(5), au(), []byte{}, []byte{0}, []byte{0, 0}, []byte{0, 7, 1}, []byte{0, 8, 1},
		[]byte{0xff, 0xff}, []byte{0xff, 0xff, 1, 2, 3}, []byte{0, 16}, []byte{0, 16, 0}, []byte{0, 32, 0, 0x28},
		[]byte{0, 17, 0, 0x28, 1, 2, 3, 4, 5, 6}, []byte{0, 48, 0, 8, 0, 8, 0, 8, 1, 2, 3})
	// every AU-headers-length (in bits, byte aligned or not) with the packet cut at every length around the end of the
	// header section: the rounding of bits to bytes against the packet length
	for bits := 1; bits <= 40; bits++ {
		nb := (bits + 7) / 8
		full := []byte{byte(bits >> 8), byte(bits)}
		for i := 0; i < nb; i += 2 {
			full = append(full, 0, 2<<3) // AU-header: size 2, index 0
		}
		full = append(full[:2+nb], 0xa1, 0xa2, 0xa3, 0xa4)
		for cut := 2; cut <= len(full); cut++ {
			out = append(out, append([]byte(nil), full[:cut]...))
		}
	}
	return out
}

// ---------------------------------------------------------------------------------------------------------
// PS

func c13PackHeader(stuff int) []byte {
	b := []byte{0, 0, 1, 0xba, 0x44, 0, 4, 0, 4, 1, 0, 0, 3, byte(0xf8 | stuff&7)}
	for i := 0; i < stuff&7; i++ {
		b = append(b, 0xff)
	}
	return b
}

func c13Lenned(code byte, body []byte) []byte {
	b := []byte{0, 0, 1, code, byte(len(body) >> 8), byte(len(body))}
	return append(b, body...)
}

func c13Psm(vtype, atype byte) []byte {
	es := []byte{vtype, 0xe0, 0, 0, atype, 0xc0, 0, 0}
	body := []byte{0xe0, 0xff, 0, 0, byte(len(es) >> 8), byte(len(es))}
	body = append(body, es...)
	body = append(body, 1, 2, 3, 4) // crc
	return c13Lenned(0xbc, body)
}

func c13PtsBytes(marker byte, v uint64) []byte {
	return []byte{marker<<4 | byte(v>>30&7)<<1 | 1, byte(v >> 22), byte(v>>15&0x7f)<<1 | 1, byte(v >> 7), byte(v&0x7f)<<1 | 1}
}

// c13Pes builds a PES packet: flags 0 none, 2 pts, 3 pts+dts; extra stuffing bytes in the header.
func c13Pes(code byte, flags int, pts, dts uint64, stuff int, payload []byte) []byte {
	var hd []byte
	if flags&2 != 0 {
		hd = append(hd, c13PtsBytes(byte(flags), pts)...)
	}
	if flags&1 != 0 {
		hd = append(hd, c13PtsBytes(1, dts)...)
	}
	for i := 0; i < stuff; i++ {
		hd = append(hd, 0xff)
	}
	body := []byte{0x80, byte(flags << 6), byte(len(hd))}
	body = append(body, hd...)
	body = append(body, payload...)
	return c13Lenned(code, body)
}

func c13Cat(parts ...[]byte) []byte {
	var b []byte
	for _, p := range parts {
		b = append(b, p...)
	}
	return b
}

var (
	c13Sps = []byte{0, 0, 0, 1, 0x67, 0x64, 0, 0x16}
	c13Pps = []byte{0, 0, 0, 1, 0x68, 0xeb}
	c13Idr = []byte{0, 0, 1, 0x65, 0x88, 0x80, 0x40}
	c13P   = []byte{0, 0, 0, 1, 0x41, 0x9a, 0x01}
)

// c13PsFrames: a small PS stream, one element per RTP body.
func c13PsFrames(vtype, atype byte) [][]byte {
	return [][]byte{
		c13Cat(c13PackHeader(0), c13Lenned(0xbb, []byte{0x80, 4, 0xe1, 0x7f, 0xe0, 0xe0, 0x80}), c13Psm(vtype, atype),
			c13Pes(0xe0, 2, 90000, 0, 0, c13Cat(c13Sps, c13Pps, c13Idr))),
		c13Pes(0xc0, 2, 90000, 0, 0, []byte{0xff, 0xf1, 0x50, 0x80, 1, 0x1f, 0xfc, 0x21}),
		c13Cat(c13PackHeader(3), c13Pes(0xe0, 3, 93600, 93000, 2, c13P)),
		c13Pes(0xc0, 2, 93600, 0, 0, []byte{0xff, 0xf1, 0x50, 0x80, 1, 0x1f, 0xfc, 0x22}),
		c13Cat(c13PackHeader(7), c13Pes(0xe0, 0, 0, 0, 0, []byte{9, 9}), c13Pes(0xe0, 2, 97200, 0, 0, c13P), []byte{0, 0, 1, 0xb9}),
		c13Cat(c13PackHeader(0), c13Pes(0xe0, 2, 100800, 0, 0, c13Idr)),
	}
}

func c13BodyOp(bodies [][]byte) string {
	if len(bodies) == 0 {
		return "ps.body none"
	}
	p := make([]string, len(bodies))
	for i, b := range bodies {
		p[i] = fmt.Sprintf("%d:%s", 1000*(i+1), hx(b))
	}
	return "ps.body " + strings.Join(p, ",")
}

// ---------------------------------------------------------------------------------------------------------
// URLs

func c13UrlOp(kind, raw string) string {
	ok, scheme, host, path, rq, sp, h, p := "0", "-", "-", "-", "-", "0", "-", "-"
	if u, err := url.Parse(raw); err == nil {
		ok, scheme, host, path, rq = "1", c13hs(u.Scheme), c13hs(u.Host), c13hs(u.Path), c13hs(u.RawQuery)
		if hh, pp, err := net.SplitHostPort(u.Host); err == nil {
			sp, h, p = "1", c13hs(hh), c13hs(pp)
		}
	}
	return fmt.Sprintf("url.parse %s %s %s %s %s %s %s %s %s %s", kind, c13hs(raw), ok, scheme, host, path, rq, sp, h, p)
}

var c13Urls = []string{
	"rtmp://127.0.0.1/live/test110", "rtmp://127.0.0.1:19350/live/test?a=1&b=2", "rtmp://h/test110", "rtmp://h/a?b?c", "rtmp://h/?a?b",
	"rtmp://h//?a?b", "rtmp://h/vyun?vhost=thirdVhost?token=88F4/lss_7", "rtmp://h/a/b/c/d.e.f", "rtmp://h", "rtmp://h/", "rtmp:///a/b",
	"rtmps://h/live/x", "rtsp://u:p@h:554/live/t.sdp?x=1", "rtsp://h", "rtsp://[::1]:5544/live/t", "rtsp://[::1]/live/t", "rtsp://h:99999999999999999999/x",
	"rtsp://h:-1/x", "rtsp://h:/x", "rtsp:opaque/x", "http://h/live/t.flv", "https://h/live/t.flv?a=b", "http://h/t.flv/", "http://h/.flv", "h/live/t",
	"://h", "", "rtmp://h/%zz", "rtmp://h/a b", "rtmp://h/a/b?c?d", "rtmp://h/a/?b?c", "rtmp://h/a?b/c?d", "rtmp://h/..", "rtmp://h/live/.", "http://h/live/a.b.flv",
	"rtmp://h:1935", "rtmp://:1935/a/b", "rtmp://h%31/a/b", "rtmp://h/a%2fb/c", "rtmp://h/?", "rtmp://h/a??", "RTMP://h/a/b", "rtsp://h/live/t?",
}

// ---------------------------------------------------------------------------------------------------------
// RTSP exchanges

type c13Req struct {
	method, uri, cseq, transport string
	body                         []byte
}

func (q c13Req) tok() string {
	ok := "0"
	if _, err := base.ParseRtspUrl(q.uri); err == nil {
		ok = "1"
	}
	o := func(s string) string {
		if s == "" {
			return "-"
		}
		return c13hs(s)
	}
	return fmt.Sprintf("M:%s:%s:%s:%s:%s:%s", q.method, o(q.uri), ok, o(q.cseq), o(q.transport), hx(q.body))
}

func c13Frame(ch int, b []byte) string { return fmt.Sprintf("I:%d:%s", ch, hx(b)) }

var c13Transports = []string{
	"RTP/AVP/TCP;unicast;interleaved=0-1;mode=record", "RTP/AVP/TCP;unicast;interleaved=2-3", "RTP/AVP/TCP;interleaved=254-255",
	"RTP/AVP/TCP;unicast;interleaved=0", "RTP/AVP/TCP;unicast;interleaved=", "RTP/AVP/TCP;unicast;interleaved", "RTP/AVP/TCP;unicast;interleaved=a-b",
	"RTP/AVP/TCP;unicast;interleaved=1-2-3", "RTP/AVP/TCP;unicast;interleaved=65536-65537", "RTP/AVP/TCP;unicast;interleaved=-1--2",
	"RTP/AVP/TCP;unicast;interleaved=99999999999999999999-1", "RTP/AVP/TCP;unicast;interleaved=0-1=2", "interleaved=4-5;interleaved=6-7",
	"interleavedx=8-9", "RTP/AVP/TCP;unicast;interleaved=+3-+4", "RTP/AVP/UDP;unicast;client_port=", "RTP/AVP/UDP;unicast;client_port=1", "RTP/AVP;unicast",
	"", "RTP/AVP/UDP;unicast;client_port=a-b", "RTP/AVP/UDP;unicast;client_port=32182-32183;mode=record", "RTP/AVP/UDP;unicast;client_port=70000-70001",
}

// ---------------------------------------------------------------------------------------------------------
// RTMP messages for the client side

func c13RtmpChunk(csid int, typ int, sid uint32, payload []byte) []byte {
	b := []byte{byte(csid & 0x3f), 0, 0, 0, byte(len(payload) >> 16), byte(len(payload) >> 8), byte(len(payload)), byte(typ),
		byte(sid), byte(sid >> 8), byte(sid >> 16), byte(sid >> 24)}
	// the script announces a chunk size of 4096 before its first message longer than 128 bytes
	for len(payload) > 4096 {
		b = append(b, payload[:4096]...)
		payload = payload[4096:]
		b = append(b, byte(0xc0|csid&0x3f))
	}
	return append(b, payload...)
}

type c13W struct{ b []byte }

func (w *c13W) Write(p []byte) (int, error) { w.b = append(w.b, p...); return len(p), nil }

func c13Amf(cmd string, tid float64, withObj bool, extra string) []byte {
	w := &c13W{}
	_ = rtmp.Amf0.WriteString(w, cmd)
	_ = rtmp.Amf0.WriteNumber(w, tid)
	if withObj {
		_ = rtmp.Amf0.WriteObject(w, []rtmp.ObjectPair{{Key: "fmsVer", Value: "FMS/3,0,1,123"}, {Key: "capabilities", Value: 31}})
		_ = rtmp.Amf0.WriteObject(w, []rtmp.ObjectPair{{Key: "level", Value: "status"}, {Key: "code", Value: extra}})
	} else {
		_ = rtmp.Amf0.WriteNull(w)
		if extra == "" {
			_ = rtmp.Amf0.WriteNumber(w, 1)
		} else {
			_ = rtmp.Amf0.WriteObject(w, []rtmp.ObjectPair{{Key: "level", Value: "status"}, {Key: "code", Value: extra}})
		}
	}
	return w.b
}

func c13RtmpServerScript() [][]byte {
	return [][]byte{
		c13RtmpChunk(2, 5, 0, []byte{0, 0x4c, 0x4b, 0x40}),
		c13RtmpChunk(2, 6, 0, []byte{0, 0x4c, 0x4b, 0x40, 2}),
		c13RtmpChunk(2, 1, 0, []byte{0, 0, 0x10, 0}),
		c13RtmpChunk(3, 20, 0, c13Amf("_result", 1, true, "NetConnection.Connect.Success")),
		c13RtmpChunk(3, 20, 0, c13Amf("_result", 2, false, "")),
		c13RtmpChunk(5, 20, 1, c13Amf("onStatus", 0, false, "NetStream.Play.Start")),
		c13RtmpChunk(2, 4, 0, []byte{0, 0, 0, 0, 0, 1}),
		c13RtmpChunk(6, 18, 1, c13Amf("onMetaData", 0, false, "x")),
		c13RtmpChunk(6, 9, 1, []byte{0x17, 0, 0, 0, 0, 1, 0x64, 0, 0x16, 0xff, 0xe1, 0, 4, 0x67, 0x64, 0, 0x16, 1, 0, 2, 0x68, 0xeb}),
		c13RtmpChunk(4, 8, 1, []byte{0xaf, 0, 0x12, 0x10}),
		c13RtmpChunk(6, 9, 1, []byte{0x17, 1, 0, 0, 0, 0, 0, 0, 3, 0x65, 0x88, 0x80}),
		c13RtmpChunk(3, 22, 1, []byte{9, 0, 0, 4, 0, 0, 0, 0, 0, 0, 0, 0x27, 1, 0, 0, 0, 0, 0, 15}),
	}
}

// ---------------------------------------------------------------------------------------------------------

func genC13(g *G) {
	r := g.rng
	_ = hex.EncodeToString

	// ===== rtpin.pkt =====
	for _, op := range []string{
		"rtpin.pkt -", "rtpin.pkt 80", "rtpin.pkt 800000010000000000000001", "rtpin.pkt 80000001000000000000000141",
		"rtpin.pkt a00000010000000000000001aabbccff", // padding count 255 on a 16 byte packet
		"rtpin.pkt a00000010000000000000001aabbcc03", "rtpin.pkt a00000010000000000000001aabbcc04", "rtpin.pkt a00000010000000000000001aabbcc00",
		"rtpin.pkt a0000001000000000000000101", "rtpin.pkt a0000001000000000000000100",
		"rtpin.pkt 8f0000010000000000000001aa", // CSRC count 15 on a 13 byte packet
		"rtpin.pkt 8000000100000000000000011c", "rtpin.pkt 80000001000000000000000118", "rtpin.pkt 800000010000000000000001180000",
		"rtpin.pkt 80000001000000000000000118000067", "rtpin.pkt 80000001000000000000000162", "rtpin.pkt 8000000100000000000000016201",
		"rtpin.pkt 800000010000000000000001620193", "rtpin.pkt 8000000100000000000000017c85", "rtpin.pkt 8000000100000000000000017c05",
	} {
		g.L("boundary").run(op)
	}
	g.L("boundary").run("rtpin.pkt " + hx(c13Rtp(96, 1, 0, 1, 0, 15, -1, -1, []byte{0x65})))
	for _, ew := range []int{0, 1, 2, 16383, 16384, 16385, 65535} { // 4*16384 wraps to 0 in uint16
		g.L("boundary-ext").run("rtpin.pkt " + hx(c13Rtp(96, 1, 0, 1, 0, 0, ew, -1, []byte{0x65, 1})))
	}
	for pad := 0; pad <= 9; pad++ {
		g.L("boundary-pad").run("rtpin.pkt " + hx(c13Rtp(96, 1, 0, 1, 0, 1, 1, pad, []byte{0x65, 1, 2})))
	}
	g.L("boundary-pad").run("rtpin.pkt " + hx(c13Rtp(96, 1, 0, 1, 0, 0, -1, 255, []byte{0x65, 1, 2})))
	c13Prefixes(g, "truncate", "rtpin.pkt ", c13Rtp(96, 7, 90000, 0x11223344, 1, 2, 1, 3, []byte{0x7c, 0x85, 1, 2, 3}), "")
	c13Prefixes(g, "truncate", "rtpin.pkt ", c13Rtp(98, 7, 90000, 0x11223344, 1, 0, -1, -1, []byte{0x62, 1, 0x93, 2, 3}), "")
	for b0 := 0; b0 < 256; b0++ { // every first payload byte, with 1, 2, 3, 4 bytes of payload
		for n := 1; n <= 4; n++ {
			if n > 1 && b0%7 != 0 && !g.thorough() {
				continue
			}
			p := []byte{byte(b0), 0x85, 0x93, 0x67}[:n]
			g.L("nal-type").run("rtpin.pkt " + hx(c13Rtp(96, 1, 0, 1, 0, 0, -1, -1, p)))
		}
	}
	for i := 0; i < g.scale(300, 5000); i++ {
		base := c13Rtp(96+r.Intn(3), r.Intn(65536), uint32(r.U64()), uint32(r.U64()), r.Intn(2), r.Intn(4), r.Intn(4)-1, r.Intn(8)-1, r.Bytes(r.Intn(12)))
		if r.Intn(3) == 0 {
			base = c13Mutate(r, base)
		}
		g.L("random").run("rtpin.pkt " + hx(base))
		if r.Intn(4) == 0 {
			g.L("random-bytes").run("rtpin.pkt " + hx(r.Bytes(r.Intn(40))))
		}
	}

	// ===== rtcp.sr =====
	sr := []byte{0x80, 0xc8, 0, 6, 0, 0, 0, 1, 0xe5, 0xa1, 0xb2, 0xc3, 0xd4, 0xe5, 0xf6, 0x07, 0, 1, 0x5f, 0x90, 0, 0, 0, 9, 0, 0, 4, 0,
		0, 0, 0, 2, 0, 0, 0, 0, 0, 0, 0, 5, 0, 0, 0, 0, 0, 0, 0, 0, 0, 0, 0, 0}
	c13Prefixes(g, "truncate", "rtcp.sr ", sr, "")
	for i := 0; i < g.scale(60, 1000); i++ {
		g.L("random").run("rtcp.sr " + hx(c13Mutate(r, sr[:r.Pick(28, 28, 52, 27, 29, 4, 3)])))
	}

	// ===== rtpin.unpack =====
	rates := []string{"0", "1", "999", "1000", "1001", "-1", "-999", "-1000", "-90000", "8000", "44100", "90000", "4294967296000", "4294968296000", "9223372036854775807", "-9223372036854775808"}
	for _, kind := range []string{"avc", "hevc", "aac", "pcm", "opus"} {
		var pls [][]byte
		switch kind {
		case "avc":
			pls = c13VideoPayloads(r, false)
		case "hevc":
			pls = c13VideoPayloads(r, true)
		case "aac":
			pls = c13AacPayloads()
		default:
			pls = [][]byte{{1, 2, 3}, {9}}
		}
		for _, rate := range rates { // clock rate extremes on one valid packet and one multi-AU packet
			g.L("boundary-rate").run(fmt.Sprintf("rtpin.unpack %s %s 8 %s", kind, rate, hx(c13Rtp(96, 1, 90000, 1, 1, 0, -1, -1, pls[0]))))
			if kind == "aac" {
				g.L("boundary-rate").run(fmt.Sprintf("rtpin.unpack %s %s 8 %s", kind, rate, hx(c13Rtp(96, 1, 90000, 1, 1, 0, -1, -1, pls[1]))))
			}
		}
		for _, p := range pls { // every payload shape alone, with padding, and followed by a valid packet
			g.L("boundary-payload").run(fmt.Sprintf("rtpin.unpack %s 90000 4 %s", kind, hx(c13Rtp(96, 1, 0, 1, 1, 0, -1, -1, p))))
			if len(p) > 0 {
				g.L("boundary-payload").run(fmt.Sprintf("rtpin.unpack %s 90000 4 %s", kind, hx(c13Rtp(96, 1, 0, 1, 1, 0, -1, len(p), p))))
				g.L("boundary-payload").run(fmt.Sprintf("rtpin.unpack %s 90000 4 %s", kind, hx(c13Rtp(96, 1, 0, 1, 1, 0, -1, len(p)+1, p))))
			}
			g.L("boundary-payload").run(fmt.Sprintf("rtpin.unpack %s 90000 2 %s,%s,%s", kind, hx(c13Rtp(96, 1, 0, 1, 1, 0, -1, -1, p)),
				hx(c13Rtp(96, 2, 0, 1, 1, 0, -1, -1, pls[0])), hx(c13Rtp(96, 3, 0, 1, 1, 0, -1, -1, pls[0]))))
		}
		for i := 0; i < g.scale(150, 3000); i++ { // sequences of the shapes, reordered / duplicated / mutated, small lists
			n := 1 + r.Intn(7)
			seq := r.Pick(0, 1, 65530, 65535, 1000)
			ts := uint32(r.Pick(0, 90000, 4294967295))
			var pk [][]byte
			for j := 0; j < n; j++ {
				p := pls[r.Intn(len(pls))]
				if r.Intn(5) == 0 {
					p = c13Mutate(r, p)
				}
				s := (seq + j) & 0xffff
				if r.Intn(6) == 0 {
					s = (seq + r.Intn(n+2)) & 0xffff
				}
				raw := c13Rtp(96, s, ts, 1, r.Intn(2), 0, -1, r.Pick(-1, -1, -1, 1, 2), p)
				if r.Intn(10) == 0 {
					raw = c13Mutate(r, raw)
				}
				pk = append(pk, raw)
			}
			g.L("sequence").run(fmt.Sprintf("rtpin.unpack %s %s %d %s", kind, rates[r.Intn(len(rates))], r.Pick(1, 2, 3, 8), c13Join(pk)))
		}
	}
	// fragmented AAC access units: the list Size drifts by one per unit (the Go code's own count); many units, small list
	{
		var pk [][]byte
		for u := 0; u < 12; u++ {
			pk = append(pk, c13Rtp(97, 2*u, uint32(1024*u), 1, 0, 0, -1, -1, []byte{0, 16, 0, 5 << 3, 1, 2}),
				c13Rtp(97, 2*u+1, uint32(1024*u), 1, 1, 0, -1, -1, []byte{0, 16, 0, 5 << 3, 3, 4, 5}))
		}
		g.L("boundary-aac-frag").run("rtpin.unpack aac 44100 4 " + c13Join(pk))
	}

	// ===== rtpin.sess =====
	srFor := func(ssrc uint32) []byte {
		b := append([]byte(nil), sr[:28]...)
		b[4], b[5], b[6], b[7] = byte(ssrc>>24), byte(ssrc>>16), byte(ssrc>>8), byte(ssrc)
		return b
	}
	sessOp := func(comp string, sdp []byte, aset, vset string, items []string) string {
		it := "none"
		if len(items) > 0 {
			it = strings.Join(items, ",")
		}
		flag := "0"
		if comp == "fz.sess" {
			flag = "1"
		}
		return fmt.Sprintf("%s %s %s %s %s %s %s %s", comp, flag, hx(sdp), c13hs(c13AUri), aset, c13hs(c13VUri), vset, it)
	}
	item := func(ch int, b []byte) string { return fmt.Sprintf("%d:%s", ch, hx(b)) }
	for si, sdp := range c13Sdps {
		vp, ap := 96, 97
		if si == 1 {
			vp = 98
		}
		if si == 2 {
			ap = 8
		}
		if si == 3 {
			ap = 101
		}
		if si == 13 {
			vp, ap = 0, 0
		}
		if si == 14 {
			ap = 14
		}
		its := []string{
			item(0, c13Rtp(vp, 1, 90000, 0xa, 1, 0, -1, -1, []byte{0x67, 1, 2})), item(2, c13Rtp(ap, 1, 1024, 0xb, 1, 0, -1, -1, []byte{0, 16, 0, 3 << 3, 1, 2, 3})),
			item(1, srFor(0xa)), item(3, srFor(0xb)), item(3, srFor(0xc)), item(0, c13Rtp(vp, 2, 93600, 0xa, 1, 0, -1, -1, []byte{0x65, 1})),
			item(1, srFor(0xa)), item(2, c13Rtp(ap, 3, 3072, 0xb, 1, 0, -1, -1, []byte{0, 32, 0, 8, 0, 8, 1, 2})), item(3, srFor(0xb)),
			item(9, []byte{1}), item(0, c13Rtp(99, 5, 0, 1, 0, 0, -1, -1, []byte{1})), item(0, []byte{0x80, byte(vp)}),
		}
		g.L("boundary-sdp").run(sessOp("rtpin.sess", sdp, "2/3", "0/1", its))
		g.L("boundary-sdp").run(sessOp("fz.sess", sdp, "2/3", "0/1", its))
		// receiver reports: a sender report, then only duplicates / older packets, then another sender report (nothing
		// expected in the interval), and a sender report before any RTP at all
		dup := []string{its[0], its[2], its[0], its[0], its[2], item(0, c13Rtp(vp, 0, 86400, 0xa, 1, 0, -1, -1, []byte{0x61, 1})), its[2], its[5], its[2]}
		g.L("boundary-rr").run(sessOp("rtpin.sess", sdp, "2/3", "0/1", dup))
		g.L("boundary-rr").run(sessOp("fz.sess", sdp, "2/3", "0/1", dup))
		g.L("boundary-rr").run(sessOp("rtpin.sess", sdp, "2/3", "0/1", []string{its[2], its[2], its[3], its[0], its[2]}))
		g.L("boundary-sdp").run(sessOp("rtpin.sess", sdp, "-", "-", its))     // no SETUP: every channel is 0
		g.L("boundary-sdp").run(sessOp("rtpin.sess", sdp, "0/0", "0/0", its)) // all four the same channel
		if si == 4 {                                                          // video only: payload type 0 (the zero value of the absent audio track, = G711U) must not reach an audio unpacker
			pcmu := []string{item(0, c13Rtp(0, 1, 160, 0xb, 1, 0, -1, -1, []byte{1, 2, 3, 4})), its[0], item(2, c13Rtp(0, 2, 320, 0xb, 1, 0, -1, -1, []byte{5, 6})), its[5]}
			g.L("boundary-no-audio").run(sessOp("rtpin.sess", sdp, "-", "2/3", pcmu))
			g.L("boundary-no-audio").run(sessOp("rtpin.sess", sdp, "-", "0/1", pcmu))
		}
		if si < 4 {
			for n := 0; n <= 29; n++ { // RTCP of every length up to the sender report, on both rtcp channels
				g.L("rtcp-truncate").run(sessOp("rtpin.sess", sdp, "2/3", "0/1", []string{its[0], its[1], item(1, srFor(0xa)[:n]), item(3, srFor(0xb)[:n])}))
			}
			for n := 0; n <= 16; n++ {
				g.L("rtp-truncate").run(sessOp("rtpin.sess", sdp, "2/3", "0/1", []string{item(0, c13Rtp(vp, 1, 0, 1, 1, 1, 0, 2, []byte{0x65})[:n]), item(2, c13Rtp(ap, 1, 0, 1, 1, 0, -1, -1, []byte{0, 16})[:n])}))
			}
		}
	}
	for i := 0; i < g.scale(150, 3000); i++ {
		si := r.Intn(len(c13Sdps))
		sdp := c13Sdps[si]
		if r.Intn(8) == 0 {
			sdp = c13Mutate(r, sdp)
		}
		hevc := si == 1
		vpl := c13VideoPayloads(r, hevc)
		apl := c13AacPayloads()
		var its []string
		n := 1 + r.Intn(10)
		for j := 0; j < n; j++ {
			ch := r.Pick(0, 0, 1, 2, 2, 3, 4, 255)
			var b []byte
			switch r.Intn(6) {
			case 0, 1:
				b = c13Rtp(r.Pick(96, 98, 0), j+r.Intn(2), uint32(r.Pick(0, 3600, 4294967295)), uint32(r.Pick(1, 2)), r.Intn(2), 0, -1, r.Pick(-1, -1, 1, 200), vpl[r.Intn(len(vpl))])
			case 2, 3:
				b = c13Rtp(r.Pick(97, 8, 101, 0, 14), j, uint32(1024*j), uint32(r.Pick(1, 2)), 1, 0, -1, -1, apl[r.Intn(len(apl))])
			case 4:
				b = srFor(uint32(r.Pick(0, 1, 2)))[:r.Pick(28, 28, 27, 8, 4, 3, 2, 1, 0)]
			default:
				b = r.Bytes(r.Intn(30))
			}
			if r.Intn(8) == 0 {
				b = c13Mutate(r, b)
			}
			its = append(its, item(ch, b))
		}
		comp := "rtpin.sess"
		if r.Intn(4) == 0 {
			comp = "fz.sess"
		}
		g.L("random").run(sessOp(comp, sdp, r.PickS("2/3", "-", "0/0", "300/301", "-1/-2"), r.PickS("0/1", "-", "2/3"), its))
	}

	// ===== ws.read =====
	for _, op := range []string{
		"ws.read -", "ws.read 81", "ws.read 8100", "ws.read 8105aabbccddee", "ws.read 8185010203044142434445", "ws.read 817e0003aabbcc", "ws.read 817e", "ws.read 817e00",
		"ws.read 817effffaabb", "ws.read 817f0000000000000002aabb", "ws.read 817f00000000000000", "ws.read 817f0000000100000000", // 4 GiB announced
		"ws.read 817f0000010000000000",                                                                 // 1 TiB announced in 10 bytes
		"ws.read 817f7fffffffffffffff", "ws.read 817f8000000000000000", "ws.read 817fffffffffffffffff", // 2^63-1, 2^63, 2^64-1
		"ws.read 81ff8000000000000000aabbccdd", "ws.read 81fe0001aabbccddee", "ws.read 8180aabbccdd", "ws.read 8180aabbcc",
		"ws.read 818901020304000102030405060708", "ws.read 81900102030400010203040506070809101112131415", // 8 bytes and more: the word-wise unmasking loop
	} {
		g.L("boundary").run(op)
	}
	c13Prefixes(g, "truncate", "ws.read ", []byte{0x82, 0xfe, 0, 12, 1, 2, 3, 4, 1, 2, 3, 4, 5, 6, 7, 8, 9, 10, 11, 12}, "")
	c13Prefixes(g, "truncate", "ws.read ", []byte{0x82, 0xff, 0, 0, 0, 0, 0, 0, 0, 3, 9, 8, 7, 6, 1, 2, 3}, "")
	for i := 0; i < g.scale(150, 3000); i++ {
		n := r.Pick(0, 1, 7, 8, 9, 15, 16, 17, 125, 126, 127, 200)
		pl := r.Bytes(n)
		hd := base.MakeWsFrameHeader(base.WsHeader{Fin: true, Opcode: uint8(r.Intn(16)), PayloadLength: uint64(n), Masked: r.Bool(), MaskKey: uint32(r.U64())})
		b := append(append([]byte(nil), hd...), pl...)
		switch r.Intn(5) {
		case 0:
			b = c13Mutate(r, b)
		case 1:
			b = b[:r.Intn(len(b)+1)]
		}
		g.L("random").run("ws.read " + hx(b))
	}

	// ===== ps.body =====
	frames := c13PsFrames(0x1b, 0x0f)
	g.L("valid").run(c13BodyOp(frames))
	g.L("valid").run(c13BodyOp(c13PsFrames(0x24, 0x90)))
	g.L("valid").run(c13BodyOp(c13PsFrames(0x1b, 0x91)))
	g.L("valid").run(c13BodyOp(c13PsFrames(0x99, 0x99)))
	g.L("valid").run(c13BodyOp([][]byte{c13Cat(frames...)}))
	for _, b := range [][]byte{{}, {0}, {0, 0}, {0, 0, 1}, {0, 0, 1, 0xe0}, {0, 0, 1, 0xe0, 0}, {0, 0, 1, 0xe0, 0, 0}, {0, 0, 1, 0xc0, 0, 1, 0x80},
		{0, 0, 1, 0xe0, 0, 2, 0x80, 0x80}, {0, 0, 1, 0xe0, 0, 3, 0x80, 0x80, 0}, {0, 0, 1, 0xe0, 0, 3, 0x80, 0, 0xff}, {0, 0, 1, 0xe0, 0, 3, 0x80, 0x80, 5},
		{0, 0, 1, 0xe0, 0, 8, 0x80, 0x80, 4, 0x21, 0, 1, 0, 1}, {0, 0, 1, 0xe0, 0, 8, 0x80, 0x40, 4, 0x21, 0, 1, 0, 1}, {0, 0, 1, 0xe0, 0, 13, 0x80, 0xc0, 9, 0x21, 0, 1, 0, 1, 0x11, 0, 1, 0, 1},
		{0, 0, 1, 0xe0, 0xff, 0xff, 0x80, 0, 0}, {0, 0, 1, 0xba}, {0, 0, 1, 0xba, 1, 2, 3, 4, 5, 6, 7, 8, 9}, {0, 0, 1, 0xba, 1, 2, 3, 4, 5, 6, 7, 8, 9, 0xff},
		{0, 0, 1, 0xbb}, {0, 0, 1, 0xbb, 0}, {0, 0, 1, 0xbb, 0, 5, 1}, {0, 0, 1, 0xbc, 0, 0, 0, 0, 0}, {0, 0, 1, 0xbc, 0, 0, 0, 0, 0, 0},
		{0, 0, 1, 0xbc, 0, 10, 0, 0, 0xff, 0xff, 0, 0, 0, 0, 0, 0}, {0, 0, 1, 0xbc, 0, 10, 0, 0, 0, 0, 0xff, 0xff, 0, 0, 0, 0},
		{0, 0, 1, 0xbc, 0, 14, 0, 0, 0, 0, 0, 4, 0x1b, 0xe0, 0xff, 0xff, 1, 2, 3, 4}, {0, 0, 1, 0xbc, 0, 13, 0, 0, 0, 0, 0, 3, 0x1b, 0xe0, 0, 0, 1, 2, 3},
		{0, 0, 1, 0xb9}, {0, 0, 1, 0xb9, 0, 0, 1, 0xb9}, {0, 0, 2, 0xe0, 1, 2}, {0xff, 0xff, 0xff, 0xff, 0xff}} {
		g.L("boundary").run(c13BodyOp([][]byte{b}))
		g.L("boundary").run(c13BodyOp([][]byte{c13Psm(0x1b, 0x0f), b}))
	}
	// every PTS_DTS_flags value (the forbidden 01 too) x every PES_header_data_length 0..11 x 0..6 bytes following the
	// PES header, for a video and an audio stream id, as the last thing of the body
	for _, sid := range []byte{0xe0, 0xc0} {
		for flags := 0; flags < 4; flags++ {
			for hl := 0; hl <= 11; hl++ {
				for rest := 0; rest <= 6; rest++ {
					if rest != hl && rest > 0 && rest < hl-1 && !g.thorough() {
						continue
					}
					body := []byte{0x80, byte(flags << 6), byte(hl)}
					for i := 0; i < rest; i++ {
						body = append(body, byte(0x21+i))
					}
					g.L("boundary-pes-header").run(c13BodyOp([][]byte{c13Psm(0x1b, 0x0f), c13Lenned(sid, body)}))
				}
			}
		}
	}
	// start codes inside the video buffer: 3, 4, 5 zero bytes, NAL of 0, 1, 2 bytes behind the start code
	for _, es := range [][]byte{{0, 0, 1}, {0, 0, 1, 0x67}, {0, 0, 0, 1}, {0, 0, 0, 1, 0x67}, {0, 0, 0, 0, 1, 0x67}, {0, 0, 0, 0, 1}, {0, 0, 1, 0x67, 0, 0, 1}, {0, 0, 1, 0, 0, 1, 0x68},
		{0x67, 1, 2}, {0, 0, 1, 0x67, 1, 0, 0, 0, 1, 0x68, 2, 0, 0, 1, 0x65}, {0, 0, 1, 0x40, 1}, {0, 0, 1, 0x42}} {
		for _, vt := range []byte{0x1b, 0x24} {
			g.L("boundary-nal").run(c13BodyOp([][]byte{c13Psm(vt, 0x0f), c13Pes(0xe0, 2, 1, 0, 0, es), c13Pes(0xe0, 2, 2, 0, 0, es), c13Pes(0xe0, 2, 3, 0, 0, []byte{0, 0, 1, 0x67, 0})}))
		}
	}
	// a pack header whose stuffing bytes are cut by the body boundary: FeedRtpBody waits for the rest (every cut, every stuffing count)
	for st := 0; st <= 7; st++ {
		ph := c13PackHeader(st)
		tail := c13Cat(c13Pes(0xe0, 2, 90000, 0, 0, c13Cat(c13Sps, c13Pps)), c13Pes(0xe0, 2, 93600, 0, 0, c13Idr))
		for cut := 13; cut <= len(ph); cut++ {
			g.L("boundary-stuffing").run(c13BodyOp([][]byte{c13Psm(0x1b, 0x0f), ph[:cut], c13Cat(ph[cut:], tail)}))
		}
		g.L("boundary-stuffing").run(c13BodyOp([][]byte{c13Psm(0x1b, 0x0f), ph[:len(ph)-st/2], c13Cat([]byte{0, 0, 1, 0xb9}, tail)})) // the rest never comes
	}
	// an audio frame in several PES packets of which only the first carries PTS / DTS: the later ones take over both
	for _, at := range []byte{0x0f, 0x90} {
		a := []byte{0xff, 0xf1, 0x50, 0x80, 1, 0x1f, 0xfc, 0x21}
		g.L("boundary-audio-dts").run(c13BodyOp([][]byte{c13Psm(0x1b, at), c13Pes(0xc0, 3, 90000, 45000, 0, a), c13Pes(0xc0, 0, 0, 0, 0, a), c13Pes(0xc0, 0, 0, 0, 2, a),
			c13Pes(0xc0, 2, 93600, 0, 0, a), c13Pes(0xc0, 0, 0, 0, 0, a), c13Pes(0xc0, 3, 97200, 96000, 0, a), c13Pes(0xc0, 1, 0, 7200, 0, a), c13Pes(0xc0, 2, 100800, 0, 0, a)}))
		g.L("boundary-audio-dts").run(c13BodyOp([][]byte{c13Psm(0x1b, at), c13Pes(0xc0, 0, 0, 0, 0, a), c13Pes(0xc0, 0, 0, 0, 0, a), c13Pes(0xc0, 1, 0, 9000, 0, a), c13Pes(0xc0, 3, 90000, 45000, 0, a),
			c13Pes(0xc0, 0, 0, 0, 0, a), c13Pes(0xc0, 2, 93600, 0, 0, a)}))
	}
	for code := 0; code < 256; code++ { // every stream id after 000001
		g.L("every-code").run(c13BodyOp([][]byte{c13Psm(0x1b, 0x0f), c13Lenned(byte(code), []byte{0x80, 0x80, 5, 0x21, 0, 1, 0, 1, 0xaa})}))
	}
	all := c13Cat(frames[0], frames[1], frames[2])
	for i := 0; i <= len(all); i++ { // every truncation, and every split into two bodies
		if i > 64 && i%5 != 0 && !g.thorough() {
			continue
		}
		g.L("truncate").run(c13BodyOp([][]byte{all[:i]}))
		g.L("split").run(c13BodyOp([][]byte{all[:i], all[i:]}))
	}
	for i := 0; i < g.scale(500, 8000); i++ {
		fs := c13PsFrames(byte(r.Pick(0x1b, 0x24, 0x1b, 0x10)), byte(r.Pick(0x0f, 0x90, 0x91, 0)))
		k := r.Intn(len(fs))
		switch r.Intn(4) {
		case 0:
			fs[k] = c13Mutate(r, fs[k])
		case 1:
			fs[k] = fs[k][:r.Intn(len(fs[k])+1)]
		case 2: // set a 16 bit length field or a header length to an extreme
			if len(fs[k]) > 8 {
				j := 4 + r.Intn(len(fs[k])-5)
				v := r.Pick(0, 1, 2, 3, 4, 5, 255, 65535, len(fs[k]))
				fs[k][j], fs[k][j+1] = byte(v>>8), byte(v)
			}
		case 3:
			fs[k] = append(fs[k], r.Bytes(r.Intn(6))...)
		}
		if r.Intn(3) == 0 {
			fs = fs[:1+r.Intn(len(fs))]
		}
		g.L("mutated").run(c13BodyOp(fs))
	}
	for i := 0; i < g.scale(100, 2000); i++ {
		b := r.Bytes(r.Intn(24))
		if r.Bool() {
			b = append([]byte{0, 0, 1, byte(r.Pick(0xba, 0xbb, 0xbc, 0xc0, 0xe0, 0xbd, 0xb9))}, b...)
		}
		g.L("random").run(c13BodyOp([][]byte{b}))
	}

	// ===== ps.feed =====
	wrap := func(seq int, ts uint32, body []byte) []byte { return c13Rtp(96, seq&0xffff, ts, 1, 0, 0, -1, -1, body) }
	{
		var pk [][]byte
		for i, f := range frames {
			pk = append(pk, wrap(100+i, uint32(3600*i), f))
		}
		g.L("valid").run("ps.feed " + c13Join(pk))
		g.L("reordered").run("ps.feed " + c13Join([][]byte{pk[0], pk[2], pk[1], pk[1], pk[4], pk[3], pk[5]}))
		g.L("gap").run("ps.feed " + c13Join([][]byte{pk[0], pk[2], pk[3], pk[4], pk[5]}))
		// RtpPacketList.Reset left Size stale: packets queued out of order when a body is rejected stay counted; once the
		// count reaches the list maximum the next arrival pops an empty list (nil dereference on the pinned tree)
		var w [][]byte
		for round := 0; round < 3; round++ {
			s0 := 10 + 2000*round
			w = append(w, wrap(s0, 0, frames[0])) // delivered (after a reset any packet is the first)
			for j := 0; j < 400; j++ {
				w = append(w, wrap(s0+2+j, 0, []byte{0, 0, 1, 0xb9})) // queued behind the missing s0+1
			}
			w = append(w, wrap(s0+1, 0, []byte{9, 9, 9, 9, 9})) // the missing packet, body rejected: FeedRtpBody fails, list.Reset()
		}
		w = append(w, wrap(9000, 0, frames[0]), wrap(9002, 0, frames[1]), wrap(9004, 0, frames[1]))
		g.L("boundary-reset-size").run("ps.feed " + c13Join(w))
	}
	for i := 0; i < g.scale(150, 3000); i++ {
		fs := c13PsFrames(0x1b, 0x0f)
		var pk [][]byte
		seq := r.Pick(0, 65533, 100)
		for j, f := range fs {
			if r.Intn(6) == 0 {
				f = c13Mutate(r, f)
			}
			if r.Intn(8) == 0 {
				f = f[:r.Intn(len(f)+1)]
			}
			// a body may be split over two packets
			if r.Intn(3) == 0 && len(f) > 2 {
				k := 1 + r.Intn(len(f)-1)
				pk = append(pk, wrap(seq, uint32(3600*j), f[:k]))
				seq++
				f = f[k:]
			}
			raw := c13Rtp(96, seq&0xffff, uint32(3600*j), 1, 0, 0, -1, r.Pick(-1, -1, -1, 1, 3, 255), f)
			if r.Intn(10) == 0 {
				raw = c13Mutate(r, raw)
			}
			pk = append(pk, raw)
			seq += r.Pick(1, 1, 1, 1, 2, 0)
		}
		if r.Intn(3) == 0 && len(pk) > 2 {
			a, b := r.Intn(len(pk)), r.Intn(len(pk))
			pk[a], pk[b] = pk[b], pk[a]
		}
		g.L("random").run("ps.feed " + c13Join(pk))
	}

	// ===== url.parse =====
	for _, u := range c13Urls {
		for _, kind := range []string{"rtmp", "rtsp", "flv", "-1", "80"} {
			g.L("corpus").run(c13UrlOp(kind, u))
		}
	}
	for i := 0; i < g.scale(200, 4000); i++ {
		u := string(c13Mutate(r, []byte(c13Urls[r.Intn(len(c13Urls))])))
		if strings.ContainsAny(u, " \n\r\t") {
			continue
		}
		g.L("mutated").run(c13UrlOp(r.PickS("rtmp", "rtsp", "flv", "-1"), u))
	}

	// ===== rtsp.session =====
	sdp0 := c13Sdps[0]
	pubReqs := func(tr0, tr1 string) []c13Req {
		return []c13Req{{"OPTIONS", c13Uri, "1", "", nil}, {"ANNOUNCE", c13Uri, "2", "", sdp0}, {"SETUP", c13VUri, "3", tr0, nil}, {"SETUP", c13AUri, "4", tr1, nil},
			{"RECORD", c13Uri, "5", "", nil}}
	}
	subReqs := func(tr0 string) []c13Req {
		return []c13Req{{"OPTIONS", c13Uri, "1", "", nil}, {"DESCRIBE", c13Uri, "2", "", nil}, {"SETUP", c13VUri, "3", tr0, nil}, {"SETUP", c13AUri, "4", "RTP/AVP/TCP;unicast;interleaved=2-3", nil},
			{"PLAY", c13Uri, "5", "", nil}}
	}
	media := []string{
		c13Frame(0, c13Rtp(96, 1, 90000, 0xa, 1, 0, -1, -1, []byte{0x67, 1, 2})), c13Frame(2, c13Rtp(97, 1, 1024, 0xb, 1, 0, -1, -1, []byte{0, 16, 0, 3 << 3, 1, 2, 3})),
		c13Frame(1, srFor(0xa)), c13Frame(3, srFor(0xb)), c13Frame(1, []byte{0x80}), c13Frame(3, []byte{0x80, 0xc8, 0, 6}), c13Frame(0, nil), c13Frame(7, []byte{1, 2}),
		c13Frame(0, c13Rtp(96, 2, 90000, 0xa, 1, 0, -1, 255, []byte{0x65})), c13Frame(2, c13Rtp(97, 2, 2048, 0xb, 1, 0, -1, -1, []byte{0xff, 0xff})),
	}
	sessRun := func(label string, ws, auth int, describe string, toks []string) {
		g.L(label).run(fmt.Sprintf("rtsp.session %d %d %s %s", ws, auth, describe, strings.Join(toks, " ")))
	}
	reqToks := func(rs []c13Req) []string {
		var t []string
		for _, q := range rs {
			t = append(t, q.tok())
		}
		return t
	}
	td := c13Req{"TEARDOWN", c13Uri, "99", "", nil}.tok()
	sessRun("pub", 0, 0, "nil", append(append(reqToks(pubReqs(c13Transports[0], c13Transports[1])), media...), td))
	sessRun("pub-udp", 0, 0, "nil", append(reqToks(pubReqs(c13Transports[20], c13Transports[20])), td))
	sessRun("sub", 0, 0, hx(sdp0), append(reqToks(subReqs(c13Transports[0])), media[2], media[0]))
	sessRun("sub-ws", 1, 0, hx(sdp0), reqToks(subReqs(c13Transports[0])))
	sessRun("pub-ws", 1, 0, "nil", reqToks(pubReqs(c13Transports[0], c13Transports[1])))
	for _, d := range []string{"no", "nil", hx(sdp0), hx([]byte("garbage")), hx(c13Sdps[12])} {
		for auth := 0; auth <= 3; auth++ {
			sessRun("describe", 0, auth, d, reqToks(subReqs(c13Transports[0])))
		}
	}
	for _, tr := range c13Transports { // every transport string, publisher and subscriber side
		sessRun("transport", 0, 0, "nil", append(reqToks(pubReqs(tr, c13Transports[1])), media[0], media[1], media[3]))
		sessRun("transport", 0, 0, hx(sdp0), reqToks(subReqs(tr)))
	}
	for _, first := range []string{"SETUP", "RECORD", "PLAY", "TEARDOWN", "FOO", "GET_PARAMETER"} { // a method before any session exists
		sessRun("out-of-order", 0, 0, "nil", []string{c13Req{first, c13VUri, "1", c13Transports[0], nil}.tok(), c13Req{"OPTIONS", c13Uri, "2", "", nil}.tok()})
	}
	sessRun("out-of-order", 0, 0, "nil", []string{media[0], c13Req{"OPTIONS", c13Uri, "2", "", nil}.tok()})                                                                       // interleaved data before ANNOUNCE
	sessRun("out-of-order", 0, 0, "nil", append(reqToks(pubReqs(c13Transports[0], c13Transports[1])[:2]), media...))                                                              // data before SETUP: every channel 0
	sessRun("out-of-order", 0, 0, "nil", append(append(reqToks(pubReqs(c13Transports[0], c13Transports[1])), reqToks(pubReqs(c13Transports[1], c13Transports[0]))...), media...)) // second ANNOUNCE
	{                                                                                                                                                                             // one ANNOUNCE or DESCRIBE per connection: the second one (either kind, plain or WebSocket) ends the session
		ann := c13Req{"ANNOUNCE", c13Uri, "2", "", sdp0}.tok()
		des := c13Req{"DESCRIBE", c13Uri, "3", "", nil}.tok()
		opt := c13Req{"OPTIONS", c13Uri, "4", "", nil}.tok()
		for ws := 0; ws <= 1; ws++ {
			for _, d := range []string{hx(sdp0), "nil"} {
				sessRun("second-session", ws, 0, d, []string{ann, ann, opt})
				sessRun("second-session", ws, 0, d, []string{des, des, opt})
				sessRun("second-session", ws, 0, d, []string{ann, des, opt})
				sessRun("second-session", ws, 0, d, []string{des, ann, opt})
			}
		}
		sessRun("second-session", 0, 0, "no", []string{des, des, opt})                                                              // the first DESCRIBE is refused by the observer
		sessRun("second-session", 0, 1, hx(sdp0), []string{des, des, ann, des, opt})                                                // challenges create no session
		sessRun("second-session", 0, 0, hx(sdp0), []string{c13Req{"ANNOUNCE", "rtsp://", "1", "", sdp0}.tok(), ann, opt})           // a refused ANNOUNCE creates none either
		sessRun("second-session", 0, 0, hx(sdp0), []string{ann, c13Req{"ANNOUNCE", c13Uri, "5", "", []byte("garbage")}.tok(), opt}) // sdp is parsed before the check
		sessRun("second-session", 0, 0, hx(sdp0), []string{des, c13Req{"DESCRIBE", "rtsp://", "5", "", nil}.tok(), opt})            // so is the uri
	}
	for _, u := range []string{"", "/live/t", "rtsp://", "http://h/live/t", "rtsp://h:x/live/t", "rtsp://h"} {
		sessRun("bad-uri", 0, 0, hx(sdp0), []string{c13Req{"ANNOUNCE", u, "1", "", sdp0}.tok(), c13Req{"OPTIONS", c13Uri, "2", "", nil}.tok()})
		sessRun("bad-uri", 0, 0, hx(sdp0), []string{c13Req{"DESCRIBE", u, "1", "", nil}.tok(), c13Req{"OPTIONS", c13Uri, "2", "", nil}.tok()})
	}
	for si, s := range c13Sdps {
		_ = si
		rs := pubReqs(c13Transports[0], c13Transports[1])
		rs[1].body = s
		sessRun("sdp", 0, 0, "nil", append(reqToks(rs), media...))
	}
	for i := 0; i < g.scale(120, 2500); i++ {
		var rs []c13Req
		pub := r.Bool()
		if pub {
			rs = pubReqs(c13Transports[r.Intn(3)], c13Transports[r.Intn(len(c13Transports))])
			rs[1].body = c13Sdps[r.Intn(len(c13Sdps))]
			if r.Intn(6) == 0 {
				rs[1].body = c13Mutate(r, rs[1].body)
			}
		} else {
			rs = subReqs(c13Transports[r.Intn(len(c13Transports))])
		}
		toks := reqToks(rs)
		// drop, duplicate or swap a step; interleave frames
		switch r.Intn(5) {
		case 0:
			k := r.Intn(len(toks))
			toks = append(toks[:k], toks[k+1:]...)
		case 1:
			k := r.Intn(len(toks))
			toks = append(toks[:k+1], toks[k:]...)
		case 2:
			a, b := r.Intn(len(toks)), r.Intn(len(toks))
			toks[a], toks[b] = toks[b], toks[a]
		}
		ws := 0
		if r.Intn(4) == 0 {
			ws = 1
		}
		if ws == 0 {
			for j := 0; j < r.Intn(8); j++ {
				k := r.Intn(len(toks) + 1)
				fr := media[r.Intn(len(media))]
				if r.Intn(4) == 0 {
					fr = c13Frame(r.Pick(0, 1, 2, 3, 200), r.Bytes(r.Intn(40)))
				}
				toks = append(toks[:k], append([]string{fr}, toks[k:]...)...)
			}
		}
		if r.Intn(5) == 0 {
			toks = append(toks, td, c13Req{"OPTIONS", c13Uri, "100", "", nil}.tok())
		}
		sessRun("random", ws, r.Pick(0, 0, 0, 1, 2, 3), r.PickS("nil", "no", hx(sdp0), hx(c13Sdps[r.Intn(len(c13Sdps))])), toks)
	}

	// ===== differential fuzzing only (no model): raw RTSP bytes, Content-Length, HLS handler, client sessions =====
	ser := func(rs []c13Req) []byte {
		var b []byte
		for _, q := range rs {
			b = append(b, c13ReqBytes(strings.Split(q.tok(), ":"))...)
		}
		return b
	}
	rawPub := ser(pubReqs(c13Transports[0], c13Transports[1]))
	rawPub = append(rawPub, []byte{'$', 0, 0, 15, 0x80, 0x60, 0, 1, 0, 0, 0, 0, 0, 0, 0, 1, 0x67, 1, 2}...)
	rawSub := ser(subReqs(c13Transports[0]))
	g.L("valid").run("fz.rtsp 0 0 " + hx(rawPub))
	g.L("valid").run("fz.rtsp 0 1 " + hx(rawSub))
	for _, extra := range []string{"Authorization: Basic dTpw\r\n", "Authorization: Basic !!!\r\n", "Authorization: Digest username=\"u\", realm=\"r\", nonce=\"n\", uri=\"x\", response=\"0\"\r\n",
		"Authorization: Digest username=\"\r\n", "Authorization: Digest \r\n", "Authorization: Basic \r\n", "Authorization: x\r\n", "CSeq\r\n", ": x\r\n", "Content-Length: 0\r\n", "Content-Length: x\r\n",
		"Content-Length: 5\r\n", "Transport\r\n"} {
		for auth := 0; auth <= 2; auth++ {
			g.L("header").run(fmt.Sprintf("fz.rtsp 0 %d %s", auth, c13hs("DESCRIBE rtsp://h/live/t RTSP/1.0\r\nCSeq: 1\r\n"+extra+"\r\n")))
		}
	}
	for _, fl := range []string{"", " ", "\r\n", "OPTIONS", "OPTIONS \r\n\r\n", "OPTIONS  \r\n\r\n", " x y\r\n\r\n", "$", "$\x00", "$\x00\xff\xff", "$\x00\x00\x00"} {
		g.L("first-line").run("fz.rtsp 0 0 " + c13hs(fl))
		g.L("first-line").run("fz.rtsp 1 0 " + hx(c13WsFrame([]byte(fl))))
	}
	for i := 0; i < g.scale(120, 3000); i++ {
		b := rawPub
		if r.Bool() {
			b = rawSub
		}
		switch r.Intn(3) {
		case 0:
			b = c13Mutate(r, b)
		case 1:
			b = b[:r.Intn(len(b)+1)]
		case 2:
			k := r.Intn(len(b))
			b = append(append(append([]byte(nil), b[:k]...), r.Bytes(r.Intn(8))...), b[k:]...)
		}
		// a mutated Content-Length is the known finding below: kept out of the random stream so that it stays exactly identifiable
		if !strings.Contains(string(b), "Content-Length: 4") && strings.Contains(string(b), "ontent") {
			continue
		}
		ws := 0
		if r.Intn(5) == 0 {
			ws = 1
			b = c13WsFrame(b)
			if r.Intn(3) == 0 {
				b = c13Mutate(r, b)
			}
		}
		g.L("random").run(fmt.Sprintf("fz.rtsp %d %d %s", ws, r.Pick(0, 1, 2), hx(b)))
	}
	for _, cl := range []string{"0", "1", "-0", "-1", "-9223372036854775808", "+5", "99999"} {
		g.L("content-length").run("fz.rtsp.cl " + c13hs(cl))
	}

	// ===== rtsp.msg: lal's message reader, Content-Length against the bytes that follow =====
	msgOp := func(kind string, v *string, avail []byte) string {
		if v == nil {
			return fmt.Sprintf("rtsp.msg %s none - %s", kind, hx(avail))
		}
		return fmt.Sprintf("rtsp.msg %s %s %s %s", kind, c13hs(*v), c13Atoi(*v), hx(avail))
	}
	for _, kind := range []string{"req", "resp"} {
		for _, avail := range [][]byte{nil, {1, 2, 3, 4}, {1, 2, 3, 4, 5, 6}} {
			g.L("boundary").run(msgOp(kind, nil, avail))
			for _, v := range []string{"", "0", "1", "3", "4", "5", "6", "7", "-0", "-1", "-4", "-9223372036854775808", "-9223372036854775809", "9223372036854775807", "9223372036854775808",
				"+4", "99999", "1048575", "1048576", "1048577", "281474976710656", "281474976710657", "abc", " 4 ", "4 5", "0x4", "4.0", "1e3", "04", "4:4", "--4"} {
				v := v
				g.L("boundary").run(msgOp(kind, &v, avail))
			}
		}
	}
	for i := 0; i < g.scale(150, 3000); i++ {
		var v string
		switch r.Intn(5) {
		case 0:
			v = strconv.FormatInt(int64(r.U64()), 10)
		case 1:
			v = strconv.Itoa(r.Intn(40) - 8)
		case 2:
			v = strconv.Itoa(r.Pick(1048576, 1048577, 65536, 1<<31, -1<<31, 1<<32))
		case 3:
			v = string(r.Bytes(r.Intn(4)))
			if strings.ContainsAny(v, "\r\n") {
				v = "x"
			}
		default:
			v = strconv.Itoa(r.Intn(24))
		}
		g.L("random").run(msgOp(r.PickS("req", "resp"), &v, r.Bytes(r.Intn(24))))
	}
	for _, p := range []string{"/hls/test.m3u8", "/hls/test/playlist.m3u8", "/hls/test/test-1.ts", "/hls/test-1.ts?session_id=x", "/hls/", "/hls", "/", "/hls/...m3u8", "/hls/a/b/c/d.m3u8",
		"/hls/.m3u8", "/hls/x.ts", "/hls/x.m3u8?session_id=", "/hls/x.m3u8?session_id=zz", "/hls/%2e%2e/x.m3u8", "/hls/x.m3u8?%zz", "//x.m3u8", "/hls/test..ts", "/hls/-.ts", "/hls/a-.ts", "*"} {
		for _, key := range []string{"-", "k"} {
			g.L("path").run(fmt.Sprintf("fz.hls %s %s", key, c13hs(p)))
		}
	}
	for i := 0; i < g.scale(100, 2000); i++ {
		p := string(c13Mutate(r, []byte(r.PickS("/hls/test.m3u8", "/hls/test/test-1.ts?session_id=abc", "/hls/test/playlist.m3u8"))))
		if strings.ContainsAny(p, " \n\r\t") || !strings.HasPrefix(p, "/") {
			continue
		}
		g.L("random").run(fmt.Sprintf("fz.hls %s %s", r.PickS("-", "k"), c13hs(p)))
	}
	// L2: a real ServerManager on free ports, a healthy RTSP connection next to the hostile ones (child process per op)
	apiOp := func(path, body string) string { return "api:" + c13hs(path) + ":" + c13hs(body) }
	l2acts := []string{
		"rtsp:" + hx(rawPub), "rtsp:" + hx(rawSub), "rtsp:" + c13hs("$\x00\xff\xff"), "rtsp:" + c13hs("SETUP rtsp://h/x RTSP/1.0\r\nCSeq: 1\r\nTransport: RTP/AVP/UDP;unicast;client_port=1-2\r\n\r\n"),
		"ws:817f8000000000000000", "ws:" + hx(c13WsFrame(rawSub)), "ws:817e", "rtmp:" + hx(append([]byte{3}, make([]byte, 3072)...)) + "0300000000000114000000000200",
		"rtmp:06", "ps:" + c13Join([][]byte{wrap(1, 0, frames[0]), wrap(2, 3600, frames[1]), wrap(3, 7200, frames[2])}), "ps:806000010000000000000001000001", "ps:80", "ps:a060000100000000000000010000ff",
		apiOp("/api/stat/lal_info", ""), apiOp("/api/stat/group", ""), apiOp("/api/stat/group?stream_name=x", ""), apiOp("/api/stat/all_group", ""),
		apiOp("/api/ctrl/start_relay_pull", `{"url": "rtmp://h/a?b?c"}`), apiOp("/api/ctrl/start_relay_pull", `{"url": "rtsp://127.0.0.1:1/x", "pull_retry_num": -1, "pull_timeout_ms": 1, "rtsp_mode": 9}`),
		apiOp("/api/ctrl/start_relay_pull", `{"url": 5}`), apiOp("/api/ctrl/start_relay_pull", `{"url": ""}`), apiOp("/api/ctrl/start_relay_pull", `[]`), apiOp("/api/ctrl/start_relay_pull", `{"url": "rtmp://h/a/b", "stream_name": null}`),
		apiOp("/api/ctrl/stop_relay_pull?stream_name=x", ""), apiOp("/api/ctrl/kick_session", `{"stream_name": "x", "session_id": "RTMPPUBSUB1"}`), apiOp("/api/ctrl/kick_session", `{"stream_name": 1, "session_id": []}`),
		apiOp("/api/ctrl/start_rtp_pub", `{"stream_name": "x", "port": -1}`), apiOp("/api/ctrl/start_rtp_pub", `{"stream_name": "x", "port": 99999999, "is_tcp_flag": 1}`), apiOp("/api/ctrl/start_rtp_pub", `{"stream_name": "y", "port": 0, "timeout_ms": -5, "is_tcp_flag": 1}`),
		apiOp("/api/ctrl/add_ip_blacklist", `{"ip": "1.2.3.4", "duration_sec": -1}`), apiOp("/api/ctrl/add_ip_blacklist", `{"ip": 7, "duration_sec": "x"}`), apiOp("/api/ctrl/nope", `{`), apiOp("/lal.html", ""),
		"http:" + c13hs("/live/x.flv"), "http:" + c13hs("/live/x.ts"), "http:" + c13hs("/hls/x.m3u8"), "http:" + c13hs("/hls/...m3u8"), "http:" + c13hs("/hls/x-1.ts"), "http:" + c13hs("/.flv"), "http:" + c13hs("/a/b/c/d.flv?x=%zz"),
	}
	g.L("all-actions").run("fz.l2 " + strings.Join(l2acts, " "))
	g.L("content-length").run("fz.l2 rtsp:" + c13hs("ANNOUNCE rtsp://h/live/t RTSP/1.0\r\nCSeq: 1\r\nContent-Length: -1\r\n\r\n"))
	for i := 0; i < g.scale(4, 80); i++ {
		var acts []string
		for j := 0; j < 6; j++ {
			a := l2acts[r.Intn(len(l2acts))]
			if r.Intn(3) == 0 { // mutate the bytes of the action
				f := strings.Split(a, ":")
				k := len(f) - 1
				if f[k] != "-" && !strings.Contains(f[k], ",") {
					b := c13Mutate(r, unhx(f[k]))
					if strings.Contains(string(b), "ontent") && f[0] != "api" {
						continue
					}
					f[k] = hx(b)
					a = strings.Join(f, ":")
				}
			}
			acts = append(acts, a)
		}
		g.L("random").run("fz.l2 " + strings.Join(acts, " "))
	}
	// client side: a stub peer answers lal's RTMP / HTTP-FLV / RTSP client (child process per op)
	script := c13RtmpServerScript()
	g.L("valid").run("fz.rtmpc " + hx(c13Cat(script...)))
	// unknown message type id (panic(0) in ClientSession.doMsg on the pinned tree), short acknowledgement / user control payloads
	for _, m := range [][]byte{c13RtmpChunk(3, 7, 0, []byte{1}), c13RtmpChunk(3, 2, 0, []byte{0, 0, 0, 3}), c13RtmpChunk(2, 3, 0, []byte{1}),
		c13RtmpChunk(2, 4, 0, []byte{0}), c13RtmpChunk(2, 4, 0, []byte{0, 6, 1})} {
		g.L("boundary").run("fz.rtmpc " + hx(c13Cat(script[0], script[1], script[2], m, script[3])))
	}
	flv := c13Cat([]byte("HTTP/1.1 200 OK\r\nContent-Type: video/x-flv\r\n\r\nFLV\x01\x05\x00\x00\x00\x09\x00\x00\x00\x00"),
		[]byte{9, 0, 0, 5, 0, 0, 0, 0, 0, 0, 0, 0x17, 0, 0, 0, 0, 0, 0, 0, 16}, []byte{8, 0, 0, 2, 0, 0, 0, 0, 0, 0, 0, 0xaf, 0, 0, 0, 0, 13})
	g.L("valid").run("fz.flvc " + hx(flv))
	rtspResp := func(cseq int, extra, body string) string {
		s := fmt.Sprintf("RTSP/1.0 200 OK\r\nCSeq: %d\r\n%s", cseq, extra)
		if body != "" {
			s += fmt.Sprintf("Content-Length: %d\r\n", len(body))
		}
		return s + "\r\n" + body
	}
	rtspScript := rtspResp(1, "Public: DESCRIBE, SETUP, PLAY\r\n", "") + rtspResp(2, "Content-Type: application/sdp\r\n", string(sdp0)) +
		rtspResp(3, "Session: 1\r\nTransport: RTP/AVP/TCP;unicast;interleaved=0-1\r\n", "") + rtspResp(4, "Session: 1\r\nTransport: RTP/AVP/TCP;unicast;interleaved=2-3\r\n", "") +
		rtspResp(5, "Session: 1\r\n", "") + "$\x00\x00\x0f\x80\x60\x00\x01\x00\x00\x00\x00\x00\x00\x00\x01\x67\x01\x02" + "$\x01\x00\x02\x80\xc8"
	g.L("valid").run("fz.rtspc 1 " + c13hs(rtspScript))
	g.L("valid").run("fz.rtspc 0 " + c13hs(rtspScript))
	g.L("content-length").run("fz.rtspc 1 " + c13hs("RTSP/1.0 200 OK\r\nCSeq: 1\r\nContent-Length: -1\r\n\r\n"))
	for i := 0; i < g.scale(14, 400); i++ {
		switch i % 3 {
		case 0:
			k := r.Intn(len(script))
			sc := append([][]byte(nil), script...)
			switch r.Intn(3) {
			case 0:
				sc[k] = c13Mutate(r, sc[k])
			case 1:
				sc[k] = c13RtmpChunk(3, r.Pick(1, 2, 3, 4, 5, 6, 8, 9, 15, 17, 18, 20, 22), uint32(r.Intn(2)), r.Bytes(r.Intn(12)))
			case 2:
				sc = sc[:k+1]
				sc[k] = sc[k][:r.Intn(len(sc[k])+1)]
			}
			g.L("mutated").run("fz.rtmpc " + hx(c13Cat(sc...)))
		case 1:
			b := c13Mutate(r, flv)
			if r.Bool() {
				b = flv[:r.Intn(len(flv)+1)]
			}
			g.L("mutated").run("fz.flvc " + hx(b))
		case 2:
			b := c13Mutate(r, []byte(rtspScript))
			if r.Bool() {
				b = []byte(rtspScript)[:r.Intn(len(rtspScript)+1)]
			}
			if strings.Contains(string(b), "ontent") && !strings.Contains(string(b), fmt.Sprintf("Content-Length: %d\r\n", len(sdp0))) {
				continue
			}
			g.L("mutated").run(fmt.Sprintf("fz.rtspc %d %s", r.Intn(2), hx(b)))
		}
	}
}

func (r *Rng) PickS(vs ...string) string { return vs[r.Intn(len(vs))] }

func init() { gens["C13"] = genC13 }
