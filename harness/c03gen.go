package main

import (
	"fmt"
	"strings"
)

// Generators of C03. L1 (adm.grp) carries the quick tier; L2 (adm.srv, see c03srv.go) adds a smoke
// subset in quick and the scenario families in thorough.

// c03L1Corpus: boundary corpus. The first entries are the defect witnesses (they stay here after the
// repairs), then every ordered pair of input kinds (A accepted, B arrives, B departs, A departs).
func c03L1Corpus() []struct{ label, evs string } {
	var out []struct{ label, evs string }
	add := func(label, evs string) { out = append(out, struct{ label, evs string }{label, evs}) }
	// S8: a pull attempt that never attached fails after a publisher was accepted
	add("w-pull-fails-after-pub", "LS:0:9;RP:1;LF;Rp:1")
	add("w-pull-fails-after-pub", "RS:1:8;LS:f:9;RP:2;LF;Rp:2;T:10;RS:3:11;LF;LT;T:12;D;Rp:2")
	// S8: a refused pull session is deleted
	add("w-foreign-pull-del", "LA:1:0;LA:2:1;LD:2:1;LT;LD:1:0;LA:3:1;K:3;LD:3:1")
	add("w-foreign-pull-del", "RP:1;LA:2:0;LD:2:0;Rp:1")
	add("w-foreign-pull-del", "CP:1;LA:2:1;LD:2:1;CM:1;Cp:1")
	// S8: start_rtp_pub while an input exists
	add("w-rtp-pub-second-input", "RP:1;GP:2;GK:2;Rp:1")
	add("w-rtp-pub-second-input", "GP:1;GP:2;GK:1;GK:2")
	add("w-rtp-pub-second-input", "LA:1:0;GP:2;LD:1:0;GK:2")
	// a departed customize publisher keeps feeding
	add("w-departed-customize-feeds", "CP:1;CM:1;Cp:1;CM:1;RP:2;CM:1")
	add("w-departed-customize-feeds", "CP:1;Cp:1;CP:2;CM:1;CM:2;Cp:2")
	// kick, dispose, tick
	add("kick", "SP:1;SD:2;SY:2:9;K:1;K:2;Sp:1;Ss:2")
	add("kick", "RP:1;RS:2:9;RS:3:10;K:3;K:1;K:4;Rs:3;Rp:1;K:2;Rs:2")
	add("dispose", "RP:1;RS:2:9;SD:3;D;Rp:1;Rs:2;Ss:3;RP:4")
	add("dispose", "GP:1;D;GK:1")
	add("pull-retry", "LS:1:9;LF;T:10;LF;T:11;LS:1:12;LT;T:13;LS:0:14;LF;T:15")
	add("pull-retry", "LS:f:9;LF;T:10;LF;T:11;LF;RS:1:12;LF;SD:2;SY:2:13;LT;T:14")
	// the group's own attempt attaches (the origin answers), leaves, is stopped, is kicked
	add("pull-own-attach", "LS:0:9;LO;RP:1;CM:1;LT;RP:2;Rp:2")
	add("pull-own-attach", "LS:1:9;LO;LO;LF;T:10;LO;K:10;T:11;LS:0:12")
	add("pull-own-attach", "LS:f:9:1;LO;SP:1;GP:2;LF;T:10;LO;K:10;LF")
	add("pull-own-attach", "RS:1:8;LS:0:9:1;RP:2;LO;Rp:2;T:10;LS:0:11;LO;LT")
	add("pull-own-attach", "LS:0:9;RP:1;LO;Rp:1;LS:0:10;LO;D;LF")
	// a pull session the group is not waiting for: no attempt at all, after the attempt was stopped / kicked
	// while it was connecting, an older attempt after a newer one was started
	add("pull-not-wanted", "LA:1:0;LA:2:1;LD:1:0;LD:2:1")
	add("pull-not-wanted", "LS:0:9;LA:1:0;LA:2:1;LO;LD:1:0")
	add("pull-stop-connecting", "LS:1:9;LT;LT;LO;T:10;LS:1:11;LO;LT")
	add("pull-stop-connecting", "LS:f:9:1;LT;LS:f:10;LO;LS:f:11:1;LO;RP:1;LF")
	add("pull-stop-connecting", "RS:1:8;LS:f:9;LT;LF;T:10;LS:f:11;LT;K:11;LO")
	add("pull-kick-connecting", "LS:f:9;K:9;K:9;LO;T:10;LS:0:11;K:9;K:11;LF")
	add("pull-kick-connecting", "LS:0:9:1;RP:1;K:9;Rp:1;LO;LS:0:10:1;LO;K:10")
	add("pull-stale-attempt", "LS:f:9;LA:1:0;LD:1:0;T:10;LO;LO;K:9;LF")
	add("pull-stale-attempt", "LS:f:9;LA:1:1;LD:1:1;T:10;K:9;LT;LO;LO;T:11")
	add("pull-stale-attempt", "LS:f:9;LA:1:0;LD:1:0;LS:f:10:1;LF;LO;LT")
	// L0: a pull attempt of the group's own that attaches; L1: a pull session the group is not waiting for (refused)
	kinds := []string{"R", "S", "C", "G", "L0", "L1"}
	arrive := func(k string, x int) string {
		switch k {
		case "R":
			return fmt.Sprintf("RP:%d", x)
		case "S":
			return fmt.Sprintf("SP:%d", x)
		case "C":
			return fmt.Sprintf("CP:%d", x)
		case "G":
			return fmt.Sprintf("GP:%d", x)
		case "L0":
			return fmt.Sprintf("LS:0:%d;LO", x)
		default:
			return fmt.Sprintf("LA:%d:1", x)
		}
	}
	depart := func(k string, x int) string {
		switch k {
		case "R":
			return fmt.Sprintf("Rp:%d", x)
		case "S":
			return fmt.Sprintf("Sp:%d", x)
		case "C":
			return fmt.Sprintf("Cp:%d", x)
		case "G":
			return fmt.Sprintf("GK:%d", x)
		case "L0":
			return "LF"
		default:
			return fmt.Sprintf("LD:%d:1", x)
		}
	}
	for _, a := range kinds {
		for _, b := range kinds {
			again := depart(a, 1) // a second delete of a session that already left (the pull goroutine deletes only once)
			if a == "L0" || a == "L1" {
				again = "K:1"
			}
			add("pair-"+a+"-"+b, strings.Join([]string{arrive(a, 1), "RS:5:9", arrive(b, 2), "K:2", depart(b, 2), "CM:1", depart(a, 1), arrive(b, 3), again, depart(b, 3)}, ";"))
		}
	}
	return out
}

type c03H struct {
	id   int
	kind string // R S C G L0 L1 rs ss A (A: a pull attempt the group may have started under that handle)
	in   bool   // pull sessions: already deleted
}

// c03L1Scenario: a random walk over the L1 alphabet that mostly refers to existing sessions.
func c03L1Scenario(r *Rng) (string, string) {
	var evs []string
	var hs []*c03H
	next := 1
	newH := func(kind string) *c03H {
		h := &c03H{id: next, kind: kind}
		next++
		hs = append(hs, h)
		return h
	}
	nid := func() int { return newH("A").id }
	pick := func(pred func(*c03H) bool) *c03H {
		var c []*c03H
		for _, h := range hs {
			if pred(h) {
				c = append(c, h)
			}
		}
		if len(c) == 0 {
			return nil
		}
		return c[r.Intn(len(c))]
	}
	labels := map[string]bool{}
	n := 3 + r.Intn(14)
	disposed := false
	for i := 0; i < n; i++ {
		switch x := r.Intn(44); {
		case x < 4:
			evs = append(evs, fmt.Sprintf("RP:%d", newH("R").id))
		case x < 6:
			evs = append(evs, fmt.Sprintf("SP:%d", newH("S").id))
		case x < 8:
			evs = append(evs, fmt.Sprintf("CP:%d", newH("C").id))
		case x < 10:
			evs = append(evs, fmt.Sprintf("GP:%d", newH("G").id))
			labels["rtp-pub"] = true
		case x < 13:
			h := newH(r.Pick2("L0", "L1"))
			evs = append(evs, fmt.Sprintf("LA:%d:%s", h.id, h.kind[1:]))
			labels["pull-attach"] = true
		case x < 16:
			evs = append(evs, fmt.Sprintf("LS:%s:%d%s", r.Pick2("0", "1", "2", "f"), nid(), r.Pick2("", "", ":1")))
			labels["start-pull"] = true
		case x < 18:
			evs = append(evs, "LF")
			labels["pull-fail"] = true
		case x < 19:
			evs = append(evs, "LT")
		case x < 21:
			evs = append(evs, fmt.Sprintf("RS:%d:%d", newH("rs").id, nid()))
		case x < 22:
			evs = append(evs, fmt.Sprintf("SD:%d", newH("ss").id))
		case x < 23:
			if h := pick(func(h *c03H) bool { return h.kind == "ss" }); h != nil {
				evs = append(evs, fmt.Sprintf("SY:%d:%d", h.id, nid()))
			}
		case x < 31:
			// a departure: of any input session ever offered (accepted or refused), or of a subscriber
			if h := pick(func(h *c03H) bool { return true }); h != nil {
				switch h.kind {
				case "R":
					evs = append(evs, fmt.Sprintf("Rp:%d", h.id))
				case "S":
					evs = append(evs, fmt.Sprintf("Sp:%d", h.id))
				case "C":
					evs = append(evs, fmt.Sprintf("Cp:%d", h.id))
				case "G":
					evs = append(evs, fmt.Sprintf("GK:%d", h.id))
				case "L0", "L1":
					// the pull goroutine deletes its session exactly once
					if !h.in {
						h.in = true
						evs = append(evs, fmt.Sprintf("LD:%d:%s", h.id, h.kind[1:]))
					}
				case "A":
					evs = append(evs, "LF")
				case "rs":
					evs = append(evs, fmt.Sprintf("Rs:%d", h.id))
				case "ss":
					evs = append(evs, fmt.Sprintf("Ss:%d", h.id))
				}
				labels["departure"] = true
			}
		case x < 34:
			if h := pick(func(h *c03H) bool { return h.kind != "C" && h.kind != "G" }); h != nil {
				evs = append(evs, fmt.Sprintf("K:%d", h.id))
				labels["kick"] = true
			}
		case x < 37:
			if h := pick(func(h *c03H) bool { return h.kind == "C" }); h != nil {
				evs = append(evs, fmt.Sprintf("CM:%d", h.id))
				labels["feed"] = true
			}
		case x < 39:
			evs = append(evs, fmt.Sprintf("T:%d", nid()))
		case x < 43:
			evs = append(evs, "LO")
			labels["origin-answers"] = true
		default:
			if !disposed && i > n/2 {
				evs = append(evs, "D")
				disposed = true
				labels["dispose"] = true
			}
		}
	}
	if len(evs) == 0 {
		evs = append(evs, "RP:1")
	}
	var ls []string
	for _, k := range []string{"rtp-pub", "pull-attach", "start-pull", "origin-answers", "pull-fail", "departure", "kick", "feed", "dispose"} {
		if labels[k] {
			ls = append(ls, k)
		}
	}
	label := "walk"
	if len(ls) > 0 {
		label = "walk+" + ls[r.Intn(len(ls))]
	}
	return label, strings.Join(evs, ";")
}

func (r *Rng) Pick2(vs ...string) string { return vs[r.Intn(len(vs))] }

func genC03(g *G) {
	for _, c := range c03L1Corpus() {
		g.L(c.label).run("adm.grp " + c.evs)
	}
	n := g.scale(1500, 20000)
	for i := 0; i < n; i++ {
		label, evs := c03L1Scenario(g.rng)
		g.L(label).run("adm.grp " + evs)
	}
	c03GenSrv(g)
}

func init() {
	gens["C03"] = genC03
}
