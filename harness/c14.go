package main

// C14 — access control admits exactly the authorised requests (implementation side, function level and
// handler level). Strings travel as hex (`-` = empty). Components:
//
//	auth.check <flags7> <key> <override> <pub|sub|hls> <protocol> <stream> <urlParam>   => ok | err:notfound | err:failed | err:query
//	     the real logic.SimpleAuthCtx (OnPubStart / OnSubStart / OnHls); flags = PubRtmp SubRtmp SubHttpflv SubHttpts PubRtsp SubRtsp HlsM3u8
//	rtsp.parse <authorization>                                   => typ user pass realm nonce uri alg resp opaque stale (rtsp.Auth.ParseAuthorization on a fresh Auth)
//	rtsp.mkauth <www-authenticate> <user> <pass> <method> <uri>  => Authorization value lal's own client builds (FeedWwwAuthenticate + MakeAuthorization)
//	rtsp.sess <enable> <method> <user> <pass> <step>,...          => per step 401B | 401D | sdp | closed | -   (a real rtsp.ServerCommandSession over net.Pipe)
//	bl.seq <step>,...                                             => the answers of the Has steps (real logic.IpBlacklist, wall clock)
//	path.req <root> <requestURI>                                  => err | <stream> <file> <lastItem> <type>  (base.ParseUrl + hls.PathStrategy.GetRequestInfo)
//	path.write <root> <name> <index> <timestamp>                  => outPath live record tsName tsPath (hls.PathStrategy write side)
//	hls.serve <root> <requestURI> <delivered>                     => mux | nourl | invalid | read:<file>  (real http.ServeMux + hls.ServerHandler, instrumented file-system layer)
//	hls.mux <root> <name> <nfrags> <cleanupMode>                  => every path a real hls.Muxer handed to the file-system layer
//	grp.files <hls><flv><ts> <name>                               => every path a real logic.Group created/wrote/removed for a publisher of that stream name

import (
	"bufio"
	"crypto/md5"
	"encoding/base64"
	"encoding/hex"
	"errors"
	"fmt"
	"io"
	"io/ioutil"
	"net"
	"net/http"
	"net/http/httptest"
	"os"
	"path/filepath"
	"regexp"
	"sort"
	"strconv"
	"strings"
	"sync"
	"time"

	"github.com/q191201771/lal/pkg/base"
	"github.com/q191201771/lal/pkg/hls"
	"github.com/q191201771/lal/pkg/logic"
	"github.com/q191201771/lal/pkg/mpegts"
	"github.com/q191201771/lal/pkg/rtsp"
	"github.com/q191201771/naza/pkg/filesystemlayer"
	"github.com/q191201771/naza/pkg/mock"
)

func c14S(h string) string { return string(unhx(h)) }
func c14H(s string) string { return hx([]byte(s)) }

func c14Md5(s string) string {
	d := md5.Sum([]byte(s))
	return hex.EncodeToString(d[:])
}

// ---- simple auth -------------------------------------------------------------------------------------------

func c14Cfg(flags, key, override string) logic.SimpleAuthConfig {
	b := func(i int) bool { return flags[i] == '1' }
	return logic.SimpleAuthConfig{Key: key, DangerousLalSecret: override, PubRtmpEnable: b(0), SubRtmpEnable: b(1),
		SubHttpflvEnable: b(2), SubHttptsEnable: b(3), PubRtspEnable: b(4), SubRtspEnable: b(5), HlsM3u8Enable: b(6)}
}

func c14Verdict(err error) string {
	switch {
	case err == nil:
		return "ok"
	case errors.Is(err, base.ErrSimpleAuthParamNotFound):
		return "err:notfound"
	case errors.Is(err, base.ErrSimpleAuthFailed):
		return "err:failed"
	}
	return "err:query"
}

func c14AuthCheck(a []string) string {
	ctx := logic.NewSimpleAuthCtx(c14Cfg(a[0], c14S(a[1]), c14S(a[2])))
	proto, stream, param := c14S(a[4]), c14S(a[5]), c14S(a[6])
	switch a[3] {
	case "pub":
		var info base.PubStartInfo
		info.Protocol, info.StreamName, info.UrlParam = proto, stream, param
		return c14Verdict(ctx.OnPubStart(info))
	case "sub":
		var info base.SubStartInfo
		info.Protocol, info.StreamName, info.UrlParam = proto, stream, param
		return c14Verdict(ctx.OnSubStart(info))
	case "hls":
		return c14Verdict(ctx.OnHls(stream, param))
	}
	panic("auth.check kind")
}

// ---- rtsp --------------------------------------------------------------------------------------------------

func c14RtspParse(a []string) string {
	var au rtsp.Auth
	_ = au.ParseAuthorization(c14S(a[0]))
	fs := []string{au.Typ, au.Username, au.Password, au.Realm, au.Nonce, au.Uri, au.Algorithm, au.Response, au.Opaque, au.Stale}
	for i := range fs {
		fs[i] = c14H(fs[i])
	}
	return strings.Join(fs, " ")
}

func c14RtspMkauth(a []string) string {
	var au rtsp.Auth
	au.FeedWwwAuthenticate([]string{c14S(a[0])}, c14S(a[1]), c14S(a[2]))
	return c14H(au.MakeAuthorization(c14S(a[3]), c14S(a[4])))
}

type c14Observer struct{}

const c14Sdp = "v=0\r\no=- 0 0 IN IP4 127.0.0.1\r\ns=No Name\r\nc=IN IP4 127.0.0.1\r\nt=0 0\r\nm=audio 0 RTP/AVP 97\r\na=rtpmap:97 MPEG4-GENERIC/44100/2\r\n" +
	"a=fmtp:97 profile-level-id=1;mode=AAC-hbr;sizelength=13;indexlength=3;indexdeltalength=3; config=1210\r\na=control:streamid=0\r\n"

func (c14Observer) OnNewRtspPubSession(session *rtsp.PubSession) error { return nil }
func (c14Observer) OnNewRtspSubSessionDescribe(session *rtsp.SubSession) (bool, []byte) {
	return true, []byte(c14Sdp)
}
func (c14Observer) OnNewRtspSubSessionPlay(session *rtsp.SubSession) error { return nil }

// c14DigestHeader builds a Digest Authorization value from the RFC 2617 formula (not with lal's client code).
func c14DigestHeader(user, realm, pass, nonce, method, uri string) string {
	ha1 := c14Md5(user + ":" + realm + ":" + pass)
	ha2 := c14Md5(method + ":" + uri)
	resp := c14Md5(ha1 + ":" + nonce + ":" + ha2)
	return fmt.Sprintf(`Digest username="%s", realm="%s", nonce="%s", uri="%s", response="%s", algorithm="MD5"`, user, realm, nonce, uri, resp)
}

// c14Cred renders the Authorization value of one step. nonces: the nonces issued so far on this connection.
func c14Cred(cred string, nonces []string, foreign string, lastWww string) (string, bool) {
	f := strings.Split(cred, ":")
	switch f[0] {
	case "lalclient": // lal's own client code answers the last challenge
		var au rtsp.Auth
		if lastWww != "" {
			au.FeedWwwAuthenticate([]string{lastWww}, c14S(f[1]), c14S(f[2]))
		} else {
			au.FeedWwwAuthenticate(nil, c14S(f[1]), c14S(f[2]))
		}
		h := au.MakeAuthorization("DESCRIBE", c14SessUri)
		return h, h != ""
	case "none":
		return "", false
	case "basic":
		return "Basic " + base64.StdEncoding.EncodeToString([]byte(c14S(f[1])+":"+c14S(f[2]))), true
	case "basicraw":
		return "Basic " + c14S(f[1]), true
	case "raw":
		return c14S(f[1]), true
	case "digest": // digest:<user>:<pass>:<nonceSel>:<realm>:<uri>:<method>
		var nonce string
		switch f[3] {
		case "cur":
			if len(nonces) > 0 {
				nonce = nonces[len(nonces)-1]
			}
		case "prev":
			if len(nonces) > 1 {
				nonce = nonces[len(nonces)-2]
			}
		case "other":
			nonce = foreign
		case "emp":
			nonce = ""
		default:
			panic("nonce selector")
		}
		return c14DigestHeader(c14S(f[1]), c14S(f[4]), c14S(f[2]), nonce, c14S(f[6]), c14S(f[5])), true
	}
	panic("cred form " + cred)
}

const c14SessUri = "rtsp://127.0.0.1:5544/live/test110"

var c14NonceRe = regexp.MustCompile(`nonce="([^"]*)"`)

// c14ReadRtspResponse reads one RTSP response; returns status code, the WWW-Authenticate value, whether a body came.
func c14ReadRtspResponse(r *bufio.Reader) (code string, www string, body int, err error) {
	line, err := r.ReadString('\n')
	if err != nil {
		return "", "", 0, err
	}
	f := strings.Fields(line)
	if len(f) < 2 {
		return "", "", 0, fmt.Errorf("status line %q", line)
	}
	code = f[1]
	cl := 0
	for {
		l, err := r.ReadString('\n')
		if err != nil {
			return "", "", 0, err
		}
		l = strings.TrimRight(l, "\r\n")
		if l == "" {
			break
		}
		k, v, _ := strings.Cut(l, ":")
		v = strings.TrimSpace(v)
		switch strings.ToLower(k) {
		case "www-authenticate":
			www = v
		case "content-length":
			cl, _ = strconv.Atoi(v)
		}
	}
	if cl > 0 {
		b := make([]byte, cl)
		if _, err := io.ReadFull(r, b); err != nil {
			return "", "", 0, err
		}
	}
	return code, www, cl, nil
}

func c14RtspSess(a []string) string {
	conf := rtsp.ServerAuthConfig{AuthEnable: a[0] == "1", AuthMethod: atoiSigned(a[1]), UserName: c14S(a[2]), PassWord: c14S(a[3])}
	// a nonce issued on ANOTHER connection (what a replaying attacker holds)
	foreign := c14ForeignNonce(conf)
	cli, srv := net.Pipe()
	sess := rtsp.NewServerCommandSession(c14Observer{}, srv, conf, false, "")
	done := make(chan struct{})
	go func() { _ = sess.RunLoop(); close(done) }()
	defer func() { _ = cli.Close(); _ = sess.Dispose(); <-done }()
	rd := bufio.NewReader(cli)
	var nonces []string
	var out []string
	closed := false
	lastWww := ""
	for i, st := range strings.Split(a[4], ",") {
		if closed {
			out = append(out, "-")
			continue
		}
		if !strings.HasPrefix(st, "D:") {
			panic("step " + st)
		}
		hdr, has := c14Cred(st[2:], nonces, foreign, lastWww)
		req := fmt.Sprintf("DESCRIBE %s RTSP/1.0\r\nCSeq: %d\r\n", c14SessUri, i+1)
		if has {
			if strings.ContainsAny(hdr, "\r\n") {
				panic("header value not transportable")
			}
			// leading / trailing spaces of a header value are dropped by the reader (nazahttp.ReadHttpHeader); the driver does the same
			req += "Authorization: " + hdr + "\r\n"
		}
		req += "\r\n"
		_ = cli.SetDeadline(time.Now().Add(5 * time.Second))
		if _, err := cli.Write([]byte(req)); err != nil {
			out = append(out, "closed")
			closed = true
			continue
		}
		code, www, body, err := c14ReadRtspResponse(rd)
		switch {
		case err != nil:
			out = append(out, "closed")
			closed = true
		case code == "401" && strings.HasPrefix(www, "Basic "):
			lastWww = www
			out = append(out, "401B")
		case code == "401" && strings.HasPrefix(www, "Digest "):
			m := c14NonceRe.FindStringSubmatch(www)
			if m == nil {
				panic("no nonce in challenge")
			}
			nonces = append(nonces, m[1])
			lastWww = www
			out = append(out, "401D")
		case code == "200" && body > 0:
			out = append(out, "sdp")
		default:
			out = append(out, "resp"+code)
		}
	}
	return strings.Join(out, ",")
}

// c14ForeignNonce obtains a Digest nonce from a different connection of the same server configuration.
func c14ForeignNonce(conf rtsp.ServerAuthConfig) string {
	conf.AuthEnable, conf.AuthMethod = true, 1
	cli, srv := net.Pipe()
	sess := rtsp.NewServerCommandSession(c14Observer{}, srv, conf, false, "")
	done := make(chan struct{})
	go func() { _ = sess.RunLoop(); close(done) }()
	defer func() { _ = cli.Close(); _ = sess.Dispose(); <-done }()
	_ = cli.SetDeadline(time.Now().Add(5 * time.Second))
	_, _ = cli.Write([]byte("DESCRIBE rtsp://127.0.0.1:5544/live/test110 RTSP/1.0\r\nCSeq: 1\r\n\r\n"))
	_, www, _, err := c14ReadRtspResponse(bufio.NewReader(cli))
	if err != nil {
		panic(err)
	}
	m := c14NonceRe.FindStringSubmatch(www)
	if m == nil {
		panic("no nonce")
	}
	return m[1]
}

// ---- blacklist ---------------------------------------------------------------------------------------------

// steps: a:<ip>:<durationSec> | h:<ip> | w:<sec>. Scenarios that wait (or use duration 0) start right after a
// second boundary so that time.Now().Unix() advances by exactly the waited seconds.
func c14BlSeq(a []string) string {
	steps := strings.Split(a[0], ",")
	timed := false
	for _, s := range steps {
		if strings.HasPrefix(s, "w:") || strings.HasSuffix(s, ":0") {
			timed = true
		}
	}
	for attempt := 0; ; attempt++ {
		out, ok := c14BlRun(steps, timed)
		if ok || attempt >= 5 {
			return out
		}
	}
}

// c14BlRun runs the scenario once. For a timed scenario every call must happen in the wall-clock second the
// scenario prescribes (start second + seconds waited so far); otherwise the run is void and repeated.
func c14BlRun(steps []string, timed bool) (string, bool) {
	if timed {
		now := time.Now()
		time.Sleep(now.Truncate(time.Second).Add(time.Second + 30*time.Millisecond).Sub(now))
	}
	base := time.Now().Unix()
	waited := int64(0)
	ok := true
	inSecond := func() {
		if timed && time.Now().Unix() != base+waited {
			ok = false
		}
	}
	var bl logic.IpBlacklist
	var out []string
	for _, s := range steps {
		f := strings.Split(s, ":")
		switch f[0] {
		case "a":
			inSecond()
			bl.Add(c14S(f[1]), atoiSigned(f[2]))
			inSecond()
		case "h":
			inSecond()
			if bl.Has(c14S(f[1])) {
				out = append(out, "1")
			} else {
				out = append(out, "0")
			}
			inSecond()
		case "w":
			time.Sleep(time.Duration(atoi(f[1])) * time.Second)
			waited += int64(atoi(f[1]))
		default:
			panic("bl step")
		}
	}
	if len(out) == 0 {
		return "-", ok
	}
	return strings.Join(out, ","), ok
}

// ---- paths -------------------------------------------------------------------------------------------------

const c14Host = "h.example:8080"

func c14PathReq(a []string) string {
	root, uri := c14S(a[0]), c14S(a[1])
	urlCtx, err := base.ParseUrl("http://"+c14Host+uri, 80)
	if err != nil {
		return "err"
	}
	ri := hls.PathStrategy.GetRequestInfo(urlCtx, root)
	return fmt.Sprintf("%s %s %s %s", c14H(ri.StreamName), c14H(ri.FileNameWithPath), c14H(urlCtx.LastItemOfPath), c14H(urlCtx.GetFileType()))
}

func c14PathWrite(a []string) string {
	root, name := c14S(a[0]), c14S(a[1])
	id, ts := atoiSigned(a[2]), atoiSigned(a[3])
	ps := hls.PathStrategy
	op := ps.GetMuxerOutPath(root, name)
	fn := ps.GetTsFileName(name, id, ts)
	return strings.Join([]string{c14H(op), c14H(ps.GetLiveM3u8FileName(op, name)), c14H(ps.GetRecordM3u8FileName(op, name)), c14H(fn),
		c14H(ps.GetTsFileNameWithPath(op, fn))}, " ")
}

// c14Fsl records every path handed to the file-system layer; content lives in memory.
type c14Fsl struct {
	mu    sync.Mutex
	inner filesystemlayer.IFileSystemLayer
	log   []string // "<kind> <path>"
}

func newC14Fsl() *c14Fsl {
	return &c14Fsl{inner: filesystemlayer.FslFactory(filesystemlayer.FslTypeMemory)}
}

func (f *c14Fsl) rec(kind, p string) {
	f.mu.Lock()
	f.log = append(f.log, kind+" "+p)
	f.mu.Unlock()
}
func (f *c14Fsl) Type() filesystemlayer.FslType { return f.inner.Type() }
func (f *c14Fsl) Create(name string) (filesystemlayer.IFile, error) {
	f.rec("create", name)
	return f.inner.Create(name)
}
func (f *c14Fsl) Rename(o, n string) error {
	f.rec("rename", o)
	f.rec("rename", n)
	return f.inner.Rename(o, n)
}
func (f *c14Fsl) MkdirAll(p string, perm uint32) error {
	f.rec("mkdir", p)
	return f.inner.MkdirAll(p, perm)
}
func (f *c14Fsl) Remove(n string) error             { f.rec("remove", n); return f.inner.Remove(n) }
func (f *c14Fsl) RemoveAll(p string) error          { f.rec("removeall", p); return f.inner.RemoveAll(p) }
func (f *c14Fsl) ReadFile(n string) ([]byte, error) { f.rec("read", n); return f.inner.ReadFile(n) }
func (f *c14Fsl) WriteFile(n string, d []byte, perm uint32) error {
	f.rec("write", n)
	return f.inner.WriteFile(n, d, perm)
}

func (f *c14Fsl) paths(kinds ...string) []string {
	f.mu.Lock()
	defer f.mu.Unlock()
	set := map[string]bool{}
	for _, l := range f.log {
		k, p, _ := strings.Cut(l, " ")
		if len(kinds) > 0 {
			ok := false
			for _, kk := range kinds {
				ok = ok || kk == k
			}
			if !ok {
				continue
			}
		}
		set[p] = true
	}
	var ps []string
	for p := range set {
		ps = append(ps, p)
	}
	sort.Strings(ps)
	return ps
}

var c14FslMu sync.Mutex // hls.VerifSetFsl swaps a package-level variable

// c14Probe sends the request URI through a real http.ServeMux (pattern /hls/) in front of the real
// hls.ServerHandler. Returns whether the handler was reached and what it did.
func c14Probe(root, uri string) (delivered bool, out string) {
	c14FslMu.Lock()
	defer c14FslMu.Unlock()
	fsl := newC14Fsl()
	// a few files inside and outside the root, so that a read that escapes finds something
	for _, p := range []string{filepath.Join(root, "test110", "playlist.m3u8"), filepath.Join(root, "test110", "record.m3u8"),
		filepath.Join(root, "test110", "test110-1-2.ts"), filepath.Join(root, "..", "playlist.m3u8"), filepath.Join(root, "..", "..-1-2.ts")} {
		_ = fsl.inner.WriteFile(p, []byte("#EXTM3U\n"), 0666)
	}
	old := hls.VerifSetFsl(fsl)
	defer hls.VerifSetFsl(old)
	h := c14Handler(root)
	mux := http.NewServeMux()
	mux.HandleFunc("/hls/", func(w http.ResponseWriter, r *http.Request) {
		delivered = true
		h.ServeHTTP(w, r)
	})
	var req *http.Request
	func() {
		defer func() {
			if recover() != nil {
				req = nil
			}
		}()
		req = httptest.NewRequest("GET", uri, nil)
	}()
	if req == nil {
		return false, "mux"
	}
	req.Host = c14Host
	rec := httptest.NewRecorder()
	mux.ServeHTTP(rec, req)
	if !delivered {
		return false, "mux"
	}
	reads := fsl.paths("read")
	switch {
	case len(reads) == 1:
		return true, "read:" + c14H(reads[0])
	case len(reads) > 1:
		return true, "reads:" + strconv.Itoa(len(reads))
	case rec.Code == http.StatusFound:
		return true, "invalid"
	case rec.Code == http.StatusOK && rec.Body.Len() == 0:
		return true, "nourl"
	}
	return true, fmt.Sprintf("status:%d", rec.Code)
}

var (
	c14Handlers   = map[string]*hls.ServerHandler{}
	c14HandlersMu sync.Mutex
)

// hls.NewServerHandler starts a goroutine that never ends: one handler per root.
func c14Handler(root string) *hls.ServerHandler {
	c14HandlersMu.Lock()
	defer c14HandlersMu.Unlock()
	if h, ok := c14Handlers[root]; ok {
		return h
	}
	h := hls.NewServerHandler(root, "/hls/", "", 0, nil)
	c14Handlers[root] = h
	return h
}

func c14HlsServe(a []string) string {
	delivered, out := c14Probe(c14S(a[0]), c14S(a[1]))
	if (a[2] == "1") != delivered {
		return "delivery-changed"
	}
	return out
}

type c14Clock struct {
	mock.Clock
	ms int64
}

func (c *c14Clock) Now() time.Time { return time.Unix(0, c.ms*1e6) }

func c14HlsMux(a []string) string {
	root, name := c14S(a[0]), c14S(a[1])
	n, mode := atoi(a[2]), atoi(a[3])
	c14FslMu.Lock()
	defer c14FslMu.Unlock()
	fsl := newC14Fsl()
	old := hls.VerifSetFsl(fsl)
	defer hls.VerifSetFsl(old)
	clk := &c14Clock{Clock: mock.NewFakeClock(), ms: c14ClockBase}
	oldClk := hls.Clock
	hls.Clock = clk
	defer func() { hls.Clock = oldClk }()
	cfg := &hls.MuxerConfig{OutPath: root, FragmentDurationMs: 1000, FragmentNum: 2, DeleteThreshold: 1, CleanupMode: mode}
	m := hls.NewMuxer(name, cfg, nil)
	m.Start()
	m.FeedPatPmt(make([]byte, 376))
	pkt := make([]byte, 188)
	for i := 0; i < n; i++ {
		clk.ms = c14ClockBase + int64(i)*1000
		f := &mpegts.Frame{Sid: mpegts.StreamIdVideo, Dts: uint64(i) * 2 * 90000, Pts: uint64(i) * 2 * 90000, Key: true}
		m.FeedMpegts(pkt, f, true)
		f2 := &mpegts.Frame{Sid: mpegts.StreamIdVideo, Dts: uint64(i)*2*90000 + 135000, Pts: uint64(i)*2*90000 + 135000}
		m.FeedMpegts(pkt, f2, false)
	}
	m.Dispose()
	return c14Join(fsl.paths())
}

const c14ClockBase = 1700000000000

func c14Join(ps []string) string {
	if len(ps) == 0 {
		return "-"
	}
	hs := make([]string, len(ps))
	for i, p := range ps {
		hs[i] = c14H(p)
	}
	return strings.Join(hs, ",")
}

// ---- group level: what a publisher's stream name makes lal create -------------------------------------------

type c14GroupObserver struct {
	mu      sync.Mutex
	cleanup []string
}

func (o *c14GroupObserver) CleanupHlsIfNeeded(appName string, streamName string, path string) {
	o.mu.Lock()
	o.cleanup = append(o.cleanup, path)
	o.mu.Unlock()
}
func (o *c14GroupObserver) OnHlsMakeTs(info base.HlsMakeTsInfo)      {}
func (o *c14GroupObserver) OnRelayPullStart(info base.PullStartInfo) {}
func (o *c14GroupObserver) OnRelayPullStop(info base.PullStopInfo)   {}

var c14TimeRe = regexp.MustCompile(`-\d{9,11}\.(flv|ts)$`)

// c14GrpFiles: a real logic.Group with HLS / FLV record / TS record enabled, a publisher (customize pub) of the
// given stream name joins and leaves. Output: every path handed to the HLS file-system layer, the directory the
// group asks to clean up, and every file that exists afterwards in the sandbox the record directories live in,
// relative to the sandbox; the unix time in record file names is replaced by T.
func c14GrpFiles(a []string) string {
	name := c14S(a[1])
	sandbox, err := ioutil.TempDir("", "lalverif-c14-")
	if err != nil {
		panic(err)
	}
	defer os.RemoveAll(sandbox)
	hlsRoot := filepath.Join(sandbox, "d1", "d2", "d3", "hls")
	flvRoot := filepath.Join(sandbox, "d1", "d2", "d3", "flv")
	tsRoot := filepath.Join(sandbox, "d1", "d2", "d3", "ts")
	for _, d := range []string{flvRoot, tsRoot} {
		if err := os.MkdirAll(d, 0777); err != nil {
			panic(err)
		}
	}
	c14FslMu.Lock()
	defer c14FslMu.Unlock()
	fsl := newC14Fsl()
	old := hls.VerifSetFsl(fsl)
	defer hls.VerifSetFsl(old)

	var cfg logic.Config
	cfg.HlsConfig.Enable = a[0][0] == '1'
	cfg.HlsConfig.OutPath = hlsRoot
	cfg.HlsConfig.FragmentDurationMs = 3000
	cfg.HlsConfig.FragmentNum = 6
	cfg.HlsConfig.CleanupMode = hls.CleanupModeInTheEnd
	cfg.RecordConfig.EnableFlv = a[0][1] == '1'
	cfg.RecordConfig.FlvOutPath = flvRoot
	cfg.RecordConfig.EnableMpegts = a[0][2] == '1'
	cfg.RecordConfig.MpegtsOutPath = tsRoot
	obs := &c14GroupObserver{}
	g := logic.NewGroup("live", name, &cfg, logic.GroupOption{}, obs)
	ctx, err := g.AddCustomizePubSession(name)
	if err != nil {
		panic(err)
	}
	g.DelCustomizePubSession(ctx)

	var out []string
	rel := func(p string) string {
		if !filepath.IsAbs(p) {
			return "rel:" + p
		}
		r, err := filepath.Rel(sandbox, p)
		if err != nil {
			return "abs:" + p
		}
		return r
	}
	for _, p := range fsl.paths() {
		out = append(out, "hls:"+c14H(rel(p)))
	}
	for _, p := range obs.cleanup {
		out = append(out, "cleanup:"+c14H(rel(p)))
	}
	_ = filepath.Walk(sandbox, func(p string, info os.FileInfo, err error) error {
		if err == nil && !info.IsDir() {
			r := c14TimeRe.ReplaceAllString(rel(p), "-T.$1")
			out = append(out, "file:"+c14H(r))
		}
		return nil
	})
	sort.Strings(out)
	if len(out) == 0 {
		return "-"
	}
	return strings.Join(out, ",")
}

// ---- extractor ---------------------------------------------------------------------------------------------

func c14Const(repo, file, name string) ([]byte, error) {
	src, err := ioutil.ReadFile(filepath.Join(repo, file))
	if err != nil {
		return nil, err
	}
	m := regexp.MustCompile(`(?m)^\s*(?:const\s+)?` + name + `\s*=\s*"([^"]*)"`).FindSubmatch(src)
	if m == nil {
		return nil, fmt.Errorf("%s: constant %s not found", file, name)
	}
	return m[1], nil
}

func init() {
	ops["auth.check"] = c14AuthCheck
	ops["rtsp.parse"] = c14RtspParse
	ops["rtsp.mkauth"] = c14RtspMkauth
	ops["rtsp.sess"] = c14RtspSess
	ops["bl.seq"] = c14BlSeq
	ops["path.req"] = c14PathReq
	ops["path.write"] = c14PathWrite
	ops["hls.serve"] = c14HlsServe
	ops["hls.mux"] = c14HlsMux
	ops["grp.files"] = c14GrpFiles
	gens["C14"] = genC14

	extractors["C14"] = func(repo string) (string, error) {
		var sb strings.Builder
		sec, err := c14Const(repo, "pkg/logic/simple_auth.go", "secretName")
		if err != nil {
			return "", err
		}
		leanBytes(&sb, "c14SecretName", "logic.secretName (pkg/logic/simple_auth.go)", sec)
		pl, err := c14Const(repo, "pkg/hls/path_strategy.go", "playlistM3u8FileName")
		if err != nil {
			return "", err
		}
		leanBytes(&sb, "c14PlaylistName", "hls.playlistM3u8FileName (pkg/hls/path_strategy.go)", pl)
		rc, err := c14Const(repo, "pkg/hls/path_strategy.go", "recordM3u8FileName")
		if err != nil {
			return "", err
		}
		leanBytes(&sb, "c14RecordName", "hls.recordM3u8FileName (pkg/hls/path_strategy.go)", rc)
		leanBytes(&sb, "c14ProtoRtmp", "base.SessionProtocolRtmpStr", []byte(base.SessionProtocolRtmpStr))
		leanBytes(&sb, "c14ProtoRtsp", "base.SessionProtocolRtspStr", []byte(base.SessionProtocolRtspStr))
		leanBytes(&sb, "c14ProtoFlv", "base.SessionProtocolFlvStr", []byte(base.SessionProtocolFlvStr))
		leanBytes(&sb, "c14ProtoTs", "base.SessionProtocolTsStr", []byte(base.SessionProtocolTsStr))
		leanBytes(&sb, "c14ProtoHls", "base.SessionProtocolHlsStr", []byte(base.SessionProtocolHlsStr))
		leanBytes(&sb, "c14AuthTypeBasic", "rtsp.AuthTypeBasic", []byte(rtsp.AuthTypeBasic))
		leanBytes(&sb, "c14AuthTypeDigest", "rtsp.AuthTypeDigest", []byte(rtsp.AuthTypeDigest))
		leanBytes(&sb, "c14RtspRealm", "base.LalRtspRealm", []byte(base.LalRtspRealm))
		return sb.String(), nil
	}
}
