package main

import (
	"fmt"
	"io/ioutil"
	"os"
	"path/filepath"
	"sort"
	"strings"

	"github.com/q191201771/lal/pkg/base"
	"github.com/q191201771/lal/pkg/httpflv"
	"github.com/q191201771/lal/pkg/logic"
	"github.com/q191201771/lal/pkg/remux"
	"github.com/q191201771/lal/pkg/rtmp"
	"github.com/q191201771/lal/pkg/rtprtcp"
)

// L1 harness: a REAL logic.Group with real rtmp.ServerSession / httpflv.SubSession objects whose
// sockets are recording conns. Every event is one critical section of the group; the harness is
// single threaded, so the event order is exactly the one the model is given.

type c01Observer struct{}

func (c01Observer) CleanupHlsIfNeeded(appName string, streamName string, path string) {}
func (c01Observer) OnHlsMakeTs(info base.HlsMakeTsInfo)                               {}
func (c01Observer) OnRelayPullStart(info base.PullStartInfo)                          {}
func (c01Observer) OnRelayPullStop(info base.PullStopInfo)                            {}

type c01Cfg struct {
	rc, fc         bool
	rg, rk, fg, fk int
	ms             int
	rec            bool
}

func c01ParseCfg(s string) c01Cfg {
	var c c01Cfg
	for _, kv := range strings.Split(s, ",") {
		f := strings.SplitN(kv, "=", 2)
		v := atoi(f[1])
		switch f[0] {
		case "rc":
			c.rc = v != 0
		case "fc":
			c.fc = v != 0
		case "rg":
			c.rg = v
		case "rk":
			c.rk = v
		case "fg":
			c.fg = v
		case "fk":
			c.fk = v
		case "ms":
			c.ms = v
		case "rec":
			c.rec = v != 0
		}
	}
	return c
}

type c01Sub struct {
	kind string
	id   int
	conn *recConn
	rs   *rtmp.ServerSession
	fs   *httpflv.SubSession
	data []byte
	skip int // connection writes to drop (HTTP / WebSocket response header)
}

func (s *c01Sub) drain() {
	if s.rs != nil {
		_ = s.rs.Flush()
	}
	for _, w := range s.conn.take() {
		if s.skip > 0 {
			s.skip--
			continue
		}
		s.data = append(s.data, w...)
	}
}

func c01Run(cfgS, evS string) string {
	cfg := c01ParseCfg(cfgS)
	dir, err := ioutil.TempDir("", "lalverif-c01")
	if err != nil {
		panic(err)
	}
	defer os.RemoveAll(dir)
	oldChan := httpflv.SubSessionWriteChanSize
	httpflv.SubSessionWriteChanSize = 0 // synchronous writes: the harness owns the schedule
	defer func() { httpflv.SubSessionWriteChanSize = oldChan }()

	var lc logic.Config
	lc.RtmpConfig.Enable = cfg.rc
	lc.RtmpConfig.GopNum = cfg.rg
	lc.RtmpConfig.SingleGopMaxFrameNum = cfg.rk
	lc.RtmpConfig.MergeWriteSize = cfg.ms
	lc.HttpflvConfig.Enable = cfg.fc
	lc.HttpflvConfig.GopNum = cfg.fg
	lc.HttpflvConfig.SingleGopMaxFrameNum = cfg.fk
	lc.RecordConfig.EnableFlv = cfg.rec
	lc.RecordConfig.FlvOutPath = dir
	g := logic.NewGroup("live", "s", &lc, logic.GroupOption{}, c01Observer{})

	var pub *rtmp.ServerSession
	subs := map[string]*c01Sub{}
	var order []string
	var recordings [][]byte
	var arena []byte
	collectRecording := func() {
		files, _ := filepath.Glob(filepath.Join(dir, "*.flv"))
		sort.Strings(files)
		for _, f := range files {
			b, _ := ioutil.ReadFile(f)
			recordings = append(recordings, b)
			_ = os.Remove(f)
		}
	}
	for _, e := range strings.Split(evS, ";") {
		f := strings.Split(e, ":")
		switch f[0] {
		case "P":
			s := rtmp.NewServerSession(nil, newRecConn())
			if err := g.AddRtmpPubSession(s); err == nil {
				pub = s
			}
		case "p":
			if pub != nil {
				g.DelRtmpPubSession(pub)
				pub = nil
				collectRecording()
			}
		case "M":
			if pub != nil {
				// one receive buffer reused for every message, as rtmp.PullSession does by default
				raw := unhx(f[3])
				if len(arena) < len(raw) {
					arena = make([]byte, len(raw)+64)
				}
				p := arena[:len(raw)]
				copy(p, raw)
				var m base.RtmpMsg
				m.Header.Csid = 4
				m.Header.MsgTypeId = uint8(atoi(f[1]))
				m.Header.MsgStreamId = 1
				m.Header.TimestampAbs = uint32(atoi(f[2]))
				m.Header.MsgLen = uint32(len(p))
				m.Payload = p
				g.OnReadRtmpAvMsg(m)
				// the caller may reuse its receive buffer (rtmp.PullSession does by default): nothing the group
				// keeps or sends later may alias the payload
				for i := range p {
					p[i] = 0xEE
				}
			}
		case "J":
			key := f[1] + f[2]
			c := newRecConn()
			sub := &c01Sub{kind: f[1], id: atoi(f[2]), conn: c}
			switch f[1] {
			case "r":
				sub.rs = rtmp.NewServerSession(nil, c)
				g.AddRtmpSubSession(sub.rs)
			case "f":
				sub.fs = httpflv.NewSubSession(c, base.UrlContext{}, false, "")
				sub.skip = 1
				g.AddHttpflvSubSession(sub.fs)
			case "w":
				sub.fs = httpflv.NewSubSession(c, base.UrlContext{}, true, "dGhlIHNhbXBsZSBub25jZQ==")
				sub.skip = 1
				g.AddHttpflvSubSession(sub.fs)
			}
			subs[key] = sub
			order = append(order, key)
		case "L":
			key := f[1] + f[2]
			if sub, ok := subs[key]; ok && (sub.rs != nil || sub.fs != nil) {
				sub.drain()
				if sub.rs != nil {
					g.DelRtmpSubSession(sub.rs)
				} else {
					g.DelHttpflvSubSession(sub.fs)
				}
				sub.rs, sub.fs = nil, nil
			}
		}
		for _, k := range order {
			if subs[k].rs != nil || subs[k].fs != nil {
				subs[k].drain()
			}
		}
	}
	if pub != nil {
		// leave the recording open but readable
		collectRecording()
	}
	var parts []string
	sort.Strings(order)
	for _, k := range order {
		parts = append(parts, k+"="+hx(subs[k].data))
	}
	for i, r := range recordings {
		parts = append(parts, fmt.Sprintf("R%d=%s", i, hx(r)))
	}
	if len(parts) == 0 {
		return "-"
	}
	return strings.Join(parts, "|")
}

func init() {
	// grp.run <cfg> <events>  =>  bytes every consumer received, and the recordings
	ops["grp.run"] = func(a []string) string { return c01Run(a[0], a[1]) }
	// lazy.msg <typ> <ts> <payload>  =>  the lazily built forms of one published message: RTMP chunks with and without
	// @setDataFrame (relay push / rtmp consumers), FLV tag without (flv consumers, recording; the with-form is not implemented in lal)
	ops["lazy.msg"] = func(a []string) string {
		p := unhx(a[2])
		var m base.RtmpMsg
		m.Header.Csid = 6
		m.Header.MsgTypeId = uint8(atoi(a[0]))
		m.Header.MsgStreamId = 1
		m.Header.TimestampAbs = uint32(atoi(a[1]))
		m.Header.MsgLen = uint32(len(p))
		m.Payload = p
		var lc remux.LazyRtmpChunkDivider
		lc.Init(m)
		var lt remux.LazyRtmpMsg2FlvTag
		lt.Init(m)
		// asked for in both orders: the second form must not depend on what building the first one left behind
		w1, wo1 := hx(lc.GetEnsureWithSdf()), hx(lc.GetEnsureWithoutSdf())
		var lc2 remux.LazyRtmpChunkDivider
		lc2.Init(m)
		wo2, w2 := hx(lc2.GetEnsureWithoutSdf()), hx(lc2.GetEnsureWithSdf())
		if w1 != w2 || wo1 != wo2 {
			return "order-dependent"
		}
		return w1 + " " + wo1 + " " + hx(lt.GetEnsureWithoutSdf())
	}
	// gopts.run <gopNum> <cap> <ev,ev,...>  =>  <gop>/<gop>/... (each the items joined by '.') of a remux.GopCacheMpegts
	// events: b:<hex> a frame at a GOP boundary, n:<hex> another frame, c = Clear() (the input ended)
	ops["gopts.run"] = func(a []string) string {
		gc := remux.NewGopCacheMpegts("uk", atoi(a[0]), atoi(a[1]))
		for _, e := range strings.Split(a[2], ",") {
			f := strings.Split(e, ":")
			switch f[0] {
			case "b":
				gc.Feed(unhx(f[1]), true)
			case "n":
				gc.Feed(unhx(f[1]), false)
			case "c":
				gc.Clear()
			}
		}
		var gops []string
		for i := 0; i < gc.GetGopCount(); i++ {
			var it []string
			for _, b := range gc.GetGopDataAt(i) {
				it = append(it, hx(b))
			}
			gops = append(gops, strings.Join(it, "."))
		}
		if len(gops) == 0 {
			return "-"
		}
		return strings.Join(gops, "/")
	}
	// c02.boundary <avc|hevc> <rtp payload>  =>  1|0: may a consumer that waits for a key frame be started at this packet
	// (rtprtcp.IsAvcBoundary / IsHevcBoundary, the gate of RTSP consumers with out_wait_key_frame_flag)
	ops["c02.boundary"] = func(a []string) string {
		h := rtprtcp.MakeDefaultRtpHeader()
		h.PacketType = 96
		h.Seq = 7
		pkt := rtprtcp.MakeRtpPacket(h, unhx(a[1]))
		var r bool
		if a[0] == "avc" {
			r = rtprtcp.IsAvcBoundary(pkt)
		} else {
			r = rtprtcp.IsHevcBoundary(pkt)
		}
		if r {
			return "1"
		}
		return "0"
	}
	gens["C01"] = genC01
	gens["C01Lazy"] = genC01Lazy
	gens["C02"] = genC02
	gens["C16"] = genC16
}

// ---------------------------------------------------------------------------------------------------------------------

// c01Stream builds a plausible publish sequence: metadata, sequence headers, GOPs with audio, with
// unique payload tails so that every message is distinguishable.
type c01Gen struct {
	r   *Rng
	n   int
	ts  int
	evs []string
}

func (g *c01Gen) payload(prefix []byte, n int) []byte {
	g.n++
	p := append([]byte{}, prefix...)
	p = append(p, byte(g.n>>8), byte(g.n))
	if n > len(p) {
		p = append(p, g.r.Bytes(n-len(p))...)
	}
	return p
}

func (g *c01Gen) msg(typ int, p []byte) {
	switch g.r.Intn(12) {
	case 0:
		g.ts += g.r.Pick(0, 1, 40, 1000)
	case 1:
		g.ts = g.r.Pick(0, 0xFFFFFE, 0xFFFFFF, 0x1000000, 0xFFFFFFFF, g.ts)
	case 2:
		if g.ts > 50 {
			g.ts -= g.r.Intn(50) // non-monotonic
		}
	default:
		g.ts += g.r.Intn(40)
	}
	g.ts &= 0xFFFFFFFF
	g.evs = append(g.evs, fmt.Sprintf("M:%d:%d:%s", typ, g.ts, hx(p)))
}

func c01Metadata(r *Rng, withSdf bool) []byte {
	var b []byte
	str := func(s string) {
		b = append(b, 2, byte(len(s)>>8), byte(len(s)))
		b = append(b, s...)
	}
	if withSdf {
		str("@setDataFrame")
	}
	str("onMetaData")
	b = append(b, 8, 0, 0, 0, 1)
	b = append(b, 0, 5)
	b = append(b, "width"...)
	b = append(b, 0, 0x40, 0x94, byte(r.Intn(256)), 0, 0, 0, 0, 0)
	b = append(b, 0, 0, 9)
	return b
}

func (g *c01Gen) size() int {
	r := g.r
	switch r.Intn(10) {
	case 0:
		return r.Around(4096, 8192)
	case 1:
		return r.Around(125, 126, 127)
	default:
		return 5 + r.Intn(60)
	}
}

func (g *c01Gen) media(shape int) {
	r := g.r
	switch r.Intn(14) {
	case 0:
		g.msg(18, c01Metadata(r, r.Bool()))
	case 1:
		if shape != 1 {
			g.msg(9, g.payload([]byte{0x17, 0, 0, 0, 0}, 12+r.Intn(20))) // avc seq header
		}
	case 2:
		if shape != 2 {
			g.msg(8, g.payload([]byte{0xaf, 0}, 4)) // aac seq header
		}
	case 3, 4:
		if shape != 1 {
			g.msg(9, g.payload([]byte{0x17, 1, 0, 0, 0}, g.size())) // key frame
		}
	case 5:
		if shape != 1 && r.Intn(3) == 0 {
			g.msg(9, g.payload([]byte{0x1c, 1, 0, 0, 0}, g.size())) // hevc key frame
		}
	case 6, 7, 8, 9:
		if shape != 1 {
			g.msg(9, g.payload([]byte{0x27, 1, 0, 0, 0}, g.size())) // inter frame
		}
	case 10:
		if r.Intn(4) == 0 {
			g.msg(r.Pick(8, 9, 18), nil) // zero-length message: must not be forwarded
		}
	default:
		if shape != 2 {
			g.msg(8, g.payload([]byte{0xaf, 1}, 2+r.Intn(40)))
		}
	}
}

func genC01Scenario(r *Rng) (string, string) {
	g := &c01Gen{r: r}
	cfg := fmt.Sprintf("rc=%d,fc=%d,rg=%d,rk=%d,fg=%d,fk=%d,ms=%d,rec=%d",
		r.Pick(1, 1, 1, 0), r.Pick(1, 1, 1, 0), r.Pick(0, 1, 2, 3), r.Pick(0, 0, 1, 3), r.Pick(0, 1, 2), r.Pick(0, 0, 1, 3),
		r.Pick(0, 0, 1, 200, 8192), r.Pick(0, 1))
	shape := r.Intn(4) // 0 A/V, 1 audio only, 2 video only, 3 A/V
	nextID := 1
	present := map[string]bool{}
	pubOn := false
	n := 4 + r.Intn(40)
	for i := 0; i < n; i++ {
		switch x := r.Intn(20); {
		case x == 0:
			if pubOn {
				g.evs = append(g.evs, "p")
				pubOn = false
				if r.Bool() {
					shape = r.Intn(4) // the next publisher may carry other tracks
				}
			} else {
				g.evs = append(g.evs, "P")
				pubOn = true
			}
		case x == 1:
			g.evs = append(g.evs, "P") // a second publisher while one is accepted is refused
			pubOn = true
		case x <= 4:
			k := r.Pick('r', 'r', 'f', 'w')
			key := fmt.Sprintf("%c:%d", k, nextID)
			nextID++
			present[key] = true
			g.evs = append(g.evs, "J:"+key)
		case x == 5:
			for key := range present {
				g.evs = append(g.evs, "L:"+key)
				delete(present, key)
				break
			}
		default:
			if !pubOn {
				g.evs = append(g.evs, "P")
				pubOn = true
			}
			g.media(shape)
		}
	}
	return cfg, strings.Join(g.evs, ";")
}

// genC01Lazy: the lazily built forms of single messages: metadata with / without @setDataFrame, malformed metadata, media
func genC01Lazy(g *G) {
	r := g.rng
	for _, ts := range []int{0, 40, 16777214, 16777215, 16777216, 4294967295} {
		for _, p := range [][]byte{c01Metadata(r, true), c01Metadata(r, false), {2, 0, 3, 'a', 'b', 'c'}, {2, 0}, {5}, r.Bytes(300)} {
			g.L("lazy-metadata").run(fmt.Sprintf("lazy.msg 18 %d %s", ts, hx(p)))
		}
		for _, n := range []int{1, 5, 4095, 4096, 4097, 8192, 8193, 20000} {
			g.L("lazy-media").run(fmt.Sprintf("lazy.msg %d %d %s", r.Pick(8, 9), ts, hx(r.Bytes(n))))
		}
	}
}

func genC01(g *G) {
	r := g.rng
	// boundary corpus: join instants relative to a fixed short stream
	base0 := []string{"P", "M:18:0:" + hx(c01Metadata(r, true)), "M:9:0:1700000000aabb", "M:8:0:af001210", "M:9:0:1701000000a1", "M:8:10:af01b1",
		"M:9:40:2701000000a2", "M:9:80:1701000000a3", "M:9:120:2701000000a4", "M:8:130:af01b2", "M:9:16777215:2701000000a5", "p"}
	for _, cfg := range []string{"rc=1,fc=1,rg=0,rk=0,fg=0,fk=0,ms=0,rec=1", "rc=1,fc=1,rg=1,rk=0,fg=1,fk=0,ms=0,rec=0",
		"rc=1,fc=1,rg=2,rk=1,fg=2,fk=1,ms=200,rec=0", "rc=0,fc=0,rg=1,rk=0,fg=1,fk=0,ms=8192,rec=0"} {
		for pos := 0; pos <= len(base0); pos++ {
			for _, k := range []string{"r", "f", "w"} {
				evs := append([]string{}, base0[:pos]...)
				evs = append(evs, "J:"+k+":1")
				evs = append(evs, base0[pos:]...)
				g.L("corpus-join@" + k).run(fmt.Sprintf("grp.run %s %s", cfg, strings.Join(evs, ";")))
			}
		}
	}
	genC01Lazy(g)
	for i := 0; i < g.scale(400, 20000); i++ {
		cfg, evs := genC01Scenario(r)
		g.L("random").run(fmt.Sprintf("grp.run %s %s", cfg, evs))
	}
}

// ---------------------------------------------------------------------------------------------------------------------
// C02: join instants relative to headers / key frames, header changes mid-stream, audio codecs, GOP caches on.

func c02Stream(r *Rng, g *c01Gen, shape int, changes bool) {
	vsh := func() { g.msg(9, g.payload([]byte{0x17, 0, 0, 0, 0}, 10+r.Intn(12))) }
	ash := func() { g.msg(8, g.payload([]byte{0xaf, 0}, 4)) }
	audio := func() {
		switch shape {
		case 4:
			g.msg(8, g.payload([]byte{0x7f}, 3+r.Intn(20))) // G.711A
		case 5:
			g.msg(8, g.payload([]byte{0xdf}, 3+r.Intn(20))) // Opus
		default:
			g.msg(8, g.payload([]byte{0xaf, 1}, 3+r.Intn(30)))
		}
	}
	if r.Intn(3) != 0 {
		g.msg(18, c01Metadata(r, r.Bool()))
	}
	if shape != 1 {
		vsh()
	}
	if shape != 2 && shape < 4 {
		ash()
	}
	for gop := 0; gop < 1+r.Intn(4); gop++ {
		if shape != 1 {
			g.msg(9, g.payload([]byte{0x17, 1, 0, 0, 0}, g.size()))
		}
		for k := 0; k < r.Intn(6); k++ {
			if shape != 1 && r.Intn(3) != 0 {
				g.msg(9, g.payload([]byte{0x27, 1, 0, 0, 0}, g.size()))
			} else if shape != 2 {
				audio()
			}
			if changes && r.Intn(9) == 0 {
				switch r.Intn(3) {
				case 0:
					if shape != 1 {
						vsh()
					}
				case 1:
					if shape != 2 && shape < 4 {
						ash()
					}
				default:
					g.msg(18, c01Metadata(r, r.Bool()))
				}
			}
		}
	}
}

// genGopTs: the HTTP-TS GOP cache alone: rings of every size wrapping several times, frame caps, Clear() between inputs
func genGopTs(g *G, n int) {
	r := g.rng
	for i := 0; i < n; i++ {
		gopNum := r.Pick(0, 1, 1, 2, 3, 5)
		cap := r.Pick(0, 0, 1, 2, 4)
		var evs []string
		k := 0
		for j := 0; j < 3+r.Intn(40); j++ {
			k++
			item := fmt.Sprintf("%04x", k)
			switch x := r.Intn(12); {
			case x == 0:
				evs = append(evs, "c")
			case x <= 3:
				evs = append(evs, "b:"+item)
			default:
				evs = append(evs, "n:"+item)
			}
		}
		g.L(fmt.Sprintf("gopts-%d", gopNum)).run(fmt.Sprintf("gopts.run %d %d %s", gopNum, cap, strings.Join(evs, ",")))
	}
	// the ring of every size filled past a wrap, cleared, and filled again by a second input
	for gopNum := 0; gopNum <= 4; gopNum++ {
		var evs []string
		for j := 0; j < 3*(gopNum+2); j++ {
			evs = append(evs, fmt.Sprintf("b:a%03x", j), fmt.Sprintf("n:b%03x", j), fmt.Sprintf("n:c%03x", j))
		}
		evs = append(evs, "c")
		for j := 0; j < gopNum+1; j++ {
			evs = append(evs, fmt.Sprintf("b:d%03x", j), fmt.Sprintf("n:e%03x", j))
		}
		g.L("gopts-wrap-clear").run(fmt.Sprintf("gopts.run %d 0 %s", gopNum, strings.Join(evs, ",")))
		g.L("gopts-wrap-clear").run(fmt.Sprintf("gopts.run %d 2 %s", gopNum, strings.Join(evs, ",")))
	}
}

func genC02(g *G) {
	r := g.rng
	genGopTs(g, g.scale(100, 3000))
	// the key-frame gate of RTSP consumers: every NAL type alone, aggregated, and as first / middle / last fragment
	for t := 0; t < 32; t++ {
		g.L("boundary-avc").run(fmt.Sprintf("c02.boundary avc %02x%s", 0x60|t, hx(r.Bytes(4))))
		g.L("boundary-avc").run(fmt.Sprintf("c02.boundary avc 78000265%02x0001%02x", t, 0x61)) // STAP-A: first unit decides
		for _, se := range []int{0x80, 0x00, 0x40, 0xc0} {
			g.L("boundary-avc").run(fmt.Sprintf("c02.boundary avc 7c%02x%s", se|t, hx(r.Bytes(3))))
		}
	}
	for t := 0; t < 64; t++ {
		g.L("boundary-hevc").run(fmt.Sprintf("c02.boundary hevc %02x01%s", t<<1, hx(r.Bytes(4))))
		for _, se := range []int{0x80, 0x00, 0x40, 0xc0} {
			g.L("boundary-hevc").run(fmt.Sprintf("c02.boundary hevc 6201%02x%s", se|t, hx(r.Bytes(3))))
		}
	}
	// a name published with audio and video, unpublished, a consumer joins in the gap, then the name is published again with
	// audio only (and the other way round): the consumer of a stream that now has no video is not held back
	for _, k := range []string{"r", "f", "w"} {
		for _, ms := range []int{0, 300} {
			av := []string{"P", "M:9:0:1700000000aabb", "M:8:0:af001210", "M:9:0:1701000000a1", "M:8:20:af01b1", "M:9:40:2701000000a2", "p"}
			ao := []string{"P", "M:8:0:af001210", "M:8:0:af01c1", "M:8:20:af01c2", "M:8:40:af01c3", "p"}
			for _, order := range [][][]string{{av, ao}, {ao, av}, {av, av}} {
				evs := append([]string{}, order[0]...)
				evs = append(evs, "J:"+k+":1")
				evs = append(evs, order[1]...)
				evs = append(evs, "J:"+k+":2")
				evs = append(evs, order[0]...)
				g.L("corpus-join-in-the-gap").run(fmt.Sprintf("grp.run rc=1,fc=1,rg=1,rk=0,fg=1,fk=0,ms=%d,rec=0 %s", ms, strings.Join(evs, ";")))
			}
		}
	}
	for _, b := range []string{"-", "65", "7c", "7c85", "78", "780001", "62", "6201", "620193"} {
		g.L("boundary-short").run("c02.boundary avc " + b)
		g.L("boundary-short").run("c02.boundary hevc " + b)
	}
	for i := 0; i < g.scale(400, 15000); i++ {
		gen := &c01Gen{r: r}
		shape := r.Pick(0, 0, 1, 2, 3, 4, 5)
		cfg := fmt.Sprintf("rc=1,fc=1,rg=%d,rk=%d,fg=%d,fk=%d,ms=%d,rec=0", r.Pick(0, 1, 2, 3), r.Pick(0, 0, 1, 2, 5), r.Pick(0, 1, 2), r.Pick(0, 0, 1, 3), r.Pick(0, 0, 300))
		gen.evs = append(gen.evs, "P")
		c02Stream(r, gen, shape, true)
		// insert 1..4 joins at random positions (including before P and between the headers)
		n := 1 + r.Intn(4)
		for j := 0; j < n; j++ {
			pos := r.Intn(len(gen.evs) + 1)
			if r.Intn(3) == 0 {
				pos = r.Intn(5)
				if pos > len(gen.evs) {
					pos = len(gen.evs)
				}
			}
			ev := fmt.Sprintf("J:%c:%d", r.Pick('r', 'f', 'w'), 100+j)
			gen.evs = append(gen.evs[:pos], append([]string{ev}, gen.evs[pos:]...)...)
		}
		g.L(fmt.Sprintf("shape=%d", shape)).run(fmt.Sprintf("grp.run %s %s", cfg, strings.Join(gen.evs, ";")))
	}
}

// C16: repeated publish / unpublish with changing codecs while subscribers stay attached or join in between.
func genC16(g *G) {
	r := g.rng
	genGopTs(g, g.scale(100, 3000))
	// the input ends while a consumer still waits for a key frame and frames sit in the merge writer: the waiting consumer
	// gets none of that tail; the next publisher's stream starts with its own headers and key frame
	for _, ms := range []int{200, 8192, 0} {
		for _, k := range []string{"r", "f", "w"} {
			evs := []string{"P", "M:9:0:1700000000aabb", "M:8:0:af001210", "M:9:0:1701000000a1", "M:9:40:2701000000a2", "J:" + k + ":1", "M:9:80:2701000000a3", "M:8:90:af01b1",
				"M:9:120:2701000000a4", "p", "P", "M:9:0:1700000000aabc", "M:9:0:1701000000c1", "M:9:40:2701000000c2", "J:" + k + ":2", "M:9:80:2701000000c3", "p"}
			g.L("corpus-ends-while-waiting").run(fmt.Sprintf("grp.run rc=1,fc=1,rg=0,rk=0,fg=0,fk=0,ms=%d,rec=0 %s", ms, strings.Join(evs, ";")))
			g.L("corpus-ends-while-waiting").run(fmt.Sprintf("grp.run rc=1,fc=1,rg=1,rk=0,fg=1,fk=0,ms=%d,rec=1 %s", ms, strings.Join(evs, ";")))
		}
	}
	for i := 0; i < g.scale(300, 12000); i++ {
		gen := &c01Gen{r: r}
		cfg := fmt.Sprintf("rc=1,fc=1,rg=%d,rk=%d,fg=%d,fk=%d,ms=%d,rec=%d", r.Pick(0, 1, 2), r.Pick(0, 0, 2), r.Pick(0, 1, 2), r.Pick(0, 0, 2), r.Pick(0, 0, 200, 8192), r.Pick(0, 1))
		id := 1
		join := func() {
			gen.evs = append(gen.evs, fmt.Sprintf("J:%c:%d", r.Pick('r', 'f', 'w'), id))
			id++
		}
		cycles := 2 + r.Intn(3)
		for c := 0; c < cycles; c++ {
			if r.Bool() {
				join()
			}
			gen.evs = append(gen.evs, "P")
			if r.Intn(4) == 0 {
				join()
			}
			c02Stream(r, gen, r.Pick(0, 1, 2, 3, 4), r.Intn(3) == 0)
			if r.Intn(3) == 0 {
				join()
			}
			gen.evs = append(gen.evs, "p")
			if r.Intn(3) == 0 && id > 1 {
				k := 1 + r.Intn(id-1)
				for _, kk := range []byte{'r', 'f', 'w'} {
					gen.evs = append(gen.evs, fmt.Sprintf("L:%c:%d", kk, k)) // only the matching kind is attached
				}
			}
		}
		g.L(fmt.Sprintf("cycles=%d", cycles)).run(fmt.Sprintf("grp.run %s %s", cfg, strings.Join(gen.evs, ";")))
	}
}
