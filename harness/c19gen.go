package main

// Generator of C19: boundary corpus first, then seeded structured cases, then malformed ones.

import (
	"fmt"
	"strings"

	"github.com/q191201771/lal/pkg/aac"
	"github.com/q191201771/lal/pkg/avc"
	"github.com/q191201771/lal/pkg/h2645"
	"github.com/q191201771/lal/pkg/hevc"
)

// a NAL unit an encoder can emit: non-empty, emulation prevention applied, last byte non-zero
func genNal(r *Rng, n int) []byte {
	if n < 1 {
		n = 1
	}
	b := r.Bytes(n)
	if r.Intn(3) == 0 { // zero-heavy, so that emulation prevention matters
		for i := range b {
			if r.Intn(3) != 0 {
				b[i] = byte(r.Intn(4))
			}
		}
	}
	if b[0] == 0 {
		b[0] = 0x65
	}
	out := append([]byte{b[0]}, escapeRbsp(b[1:])...)
	if len(out) > n {
		out = out[:n]
	}
	if out[len(out)-1] == 0 {
		out[len(out)-1] = 0x80
	}
	// cutting may have left "00 00" + forced last byte: 00 00 80 is fine (80 > 3)
	return out
}

func joinK(ks []int, nals [][]byte) string {
	p := make([]string, len(nals))
	for i := range nals {
		p[i] = fmt.Sprintf("%d:%s", ks[i], hx(nals[i]))
	}
	return strings.Join(p, ",")
}

var psLens = []int{1, 2, 255, 256, 65535}

// ---- HEVC VPS / SPS writer (ITU-T H.265 §7.3.2.1, §7.3.2.2, §7.3.3) for the build/parse ops
func hevcPtl(w *bitw, r *Rng, maxSub int) {
	w.u(2, uint64(r.Intn(4)))
	w.u(1, uint64(r.Intn(2)))
	w.u(5, uint64(r.Intn(32)))
	w.u(32, r.U64()&0xffffffff)
	w.u(48, r.U64()&0xffffffffffff)
	w.u(8, uint64(r.Intn(256)))
	if maxSub == 0 {
		return
	}
	pp := make([]int, maxSub)
	lp := make([]int, maxSub)
	for i := 0; i < maxSub; i++ {
		pp[i], lp[i] = r.Intn(2), r.Intn(2)
		w.u(1, uint64(pp[i]))
		w.u(1, uint64(lp[i]))
	}
	for i := maxSub; i < 8; i++ {
		w.u(2, 0)
	}
	for i := 0; i < maxSub; i++ {
		if pp[i] != 0 {
			w.u(32, r.U64()&0xffffffff)
			w.u(32, r.U64()&0xffffffff)
			w.u(24, r.U64()&0xffffff)
		}
		if lp[i] != 0 {
			w.u(8, uint64(r.Intn(256)))
		}
	}
}

func genHevcVps(r *Rng) []byte {
	w := &bitw{}
	maxSub := 0
	if r.Intn(3) == 0 {
		maxSub = r.Intn(8)
	}
	w.u(4, uint64(r.Intn(16)))
	w.u(2, 3)
	w.u(6, 0)
	w.u(3, uint64(maxSub))
	w.u(1, uint64(r.Intn(2)))
	w.u(16, 0xffff)
	hevcPtl(w, r, maxSub)
	for i := r.Intn(40); i > 0; i-- {
		w.u(1, uint64(r.Intn(2)))
	}
	w.u(1, 1)
	return append([]byte{0x40, 0x01}, escapeRbsp(w.bytes())...)
}

func genHevcSps(r *Rng) []byte {
	w := &bitw{}
	maxSub := 0
	if r.Intn(3) == 0 {
		maxSub = r.Intn(8)
	}
	w.u(4, uint64(r.Intn(16)))
	w.u(3, uint64(maxSub))
	w.u(1, uint64(r.Intn(2)))
	hevcPtl(w, r, maxSub)
	w.ue(uint64(r.Intn(16)))
	cf := r.Intn(4)
	w.ue(uint64(cf))
	if cf == 3 {
		w.u(1, uint64(r.Intn(2)))
	}
	w.ue(uint64(r.Pick(64, 1920, 3840, 65536, 1)))
	w.ue(uint64(r.Pick(64, 1080, 2160, 65536, 1)))
	if r.Bool() {
		w.u(1, 1)
		for i := 0; i < 4; i++ {
			w.ue(uint64(r.Intn(20)))
		}
	} else {
		w.u(1, 0)
	}
	w.ue(uint64(r.Intn(9)))
	w.ue(uint64(r.Intn(9)))
	w.ue(uint64(r.Intn(13)))
	f := r.Intn(2)
	w.u(1, uint64(f))
	k := 1
	if f != 0 {
		k = maxSub + 1
	}
	for i := 0; i < 3*k+6; i++ {
		w.ue(uint64(r.Intn(8)))
	}
	for i := r.Intn(60); i > 0; i-- {
		w.u(1, uint64(r.Intn(2)))
	}
	w.u(1, 1)
	return append([]byte{0x42, 0x01}, escapeRbsp(w.bytes())...)
}

// ---- H.264 SPS parameter sampling
var allProfiles = []int{66, 77, 88, 100, 110, 122, 244, 44, 83, 86, 118, 128, 138, 139, 134, 135}

func genScaling(r *Rng, chroma int) string {
	n := 8
	if chroma == 3 {
		n = 12
	}
	ls := make([]string, n)
	for i := range ls {
		if r.Intn(3) == 0 {
			ls[i] = "n"
			continue
		}
		size := 16
		if i >= 6 {
			size = 64
		}
		d := make([]string, size)
		mode := r.Intn(4)
		for j := range d {
			v := 0
			switch mode {
			case 0:
				v = r.Intn(7) - 3
			case 1:
				v = r.Intn(256) - 128
			case 2: // hits nextScale == 0 early (default / repeat)
				if j == r.Intn(size) || j == 0 {
					v = -8
				}
			}
			d[j] = fmt.Sprint(v)
		}
		ls[i] = strings.Join(d, ",")
	}
	return strings.Join(ls, "/")
}

func bigSe(r *Rng) int {
	switch r.Intn(4) {
	case 0:
		return r.Intn(9) - 4
	case 1:
		return int(r.U64()%(1<<31)) - (1 << 30)
	case 2: // a run of zero bits ≥ 16: emulation prevention inside the SPS
		return -(1 << uint(16+r.Intn(15)))
	}
	return r.Pick(-2147483647, 2147483647, 65536, -65536, 1<<24, 0)
}

func bitStr(r *Rng, n int) string {
	if n == 0 {
		return "_"
	}
	var sb strings.Builder
	for i := 0; i < n; i++ {
		if r.Intn(4) == 0 {
			sb.WriteByte('1')
		} else {
			sb.WriteByte('0')
		}
	}
	return sb.String()
}

func genSpsP(r *Rng) spsP {
	p := spsP{ref: 1 + r.Intn(3), profile: allProfiles[r.Intn(len(allProfiles))], cflags: r.Intn(64) << 2, level: r.Pick(10, 30, 31, 40, 41, 51, 52, 9),
		id: r.Pick(0, 0, 1, 31), chroma: 1, scaling: "-", crop: "-", vui: "-", fmo: 1, d8: 1}
	if r.Intn(8) == 0 {
		p.profile = r.Intn(256)
	}
	if highProfilesSpec[p.profile] {
		p.chroma = r.Intn(4)
		if p.chroma == 3 {
			p.sep = r.Intn(2)
		}
		p.bdl, p.bdc, p.bypass = r.Intn(7), r.Intn(7), r.Intn(2)
		if r.Intn(3) == 0 {
			p.scaling = genScaling(r, p.chroma)
		}
	}
	p.log2fn = r.Intn(13)
	switch r.Intn(3) {
	case 0:
		p.poc = fmt.Sprintf("0:%d", r.Intn(13))
	case 1:
		n := r.Pick(0, 1, 2, 7, 255)
		offs := make([]string, n)
		for i := range offs {
			offs[i] = fmt.Sprint(bigSe(r))
		}
		o := strings.Join(offs, ",")
		if n == 0 {
			o = "_"
		}
		p.poc = fmt.Sprintf("1:%d:%d:%d:%s", r.Intn(2), bigSe(r), bigSe(r), o)
	default:
		p.poc = "2"
	}
	p.nref, p.gaps = r.Intn(17), r.Intn(2)
	switch r.Intn(5) {
	case 0:
		p.w, p.h = 119, 67 // 1920x1088
	case 1:
		p.w, p.h = 79, 44
	case 2:
		p.w, p.h = r.Intn(512), r.Intn(512)
	case 3:
		p.w, p.h = r.Pick(0, 1, 255, 256, 4095), r.Pick(0, 1, 255, 256, 4095)
	default:
		p.w, p.h = r.Pick(65535, 1<<20, 1<<27), r.Pick(65535, 1<<20, 1<<26)
	}
	p.fmo = r.Intn(2)
	if r.Intn(3) == 0 {
		p.fmo = 1
	}
	if p.fmo == 0 {
		p.mbaff = r.Intn(2)
		if p.w == 119 {
			p.h = 33 // 1080i: 34 map units per field
		}
	}
	p.d8 = r.Intn(2)
	if r.Intn(2) == 0 {
		// offsets inside the picture (spec constraint)
		cux, cuy := 2, 2*(2-p.fmo)
		switch {
		case !highProfilesSpec[p.profile]:
		case p.chroma == 0 || (p.chroma == 3 && p.sep == 1):
			cux, cuy = 1, 2-p.fmo
		case p.chroma == 2:
			cux, cuy = 2, 2-p.fmo
		case p.chroma == 3:
			cux, cuy = 1, 2-p.fmo
		}
		wmax := (p.w+1)*16/cux - 1
		hmax := (2-p.fmo)*(p.h+1)*16/cuy - 1
		l := r.Intn(1 + min(wmax, 20))
		rr := r.Intn(1 + min(wmax-l, 20))
		t := r.Intn(1 + min(hmax, 20))
		b := r.Intn(1 + min(hmax-t, 20))
		if r.Intn(4) == 0 {
			l, rr, t = 0, 0, 0
			b = min(hmax, r.Pick(2, 4, 6))
		}
		p.crop = fmt.Sprintf("%d:%d:%d:%d", l, rr, t, b)
	}
	switch r.Intn(4) {
	case 0:
		p.vui = "n:" + bitStr(r, r.Intn(70))
	case 1:
		p.vui = fmt.Sprintf("a:%d:0:0:%s", r.Intn(17), bitStr(r, r.Intn(70)))
	case 2:
		p.vui = fmt.Sprintf("a:255:%d:%d:%s", r.Pick(1, 0, 65535, 16), r.Pick(1, 0, 65535, 11), bitStr(r, r.Intn(70)))
	}
	return p
}


// the S21 witnesses and the classic shapes: always first
var spsCorpus = []string{
	// the four witnesses of Props/C19.lean (w1080i, w422, wEpb, w135)
	"3 100 0 40 0 1 0 0 0 0 - 0 0:2 4 0 119 33 0 1 1 0:0:0:2 -",
	"3 122 0 40 0 2 0 0 0 0 - 0 0:2 4 0 119 67 1 0 1 0:0:0:8 -",
	"3 66 0 40 0 1 0 0 0 0 - 0 1:0:-16777216:0:_ 4 0 39 29 1 0 1 - -",
	"3 135 0 40 0 1 0 0 0 0 - 0 0:2 4 0 79 44 1 0 1 - -",
	// 1920x1080 progressive High, crop bottom 4
	"3 100 0 40 0 1 0 0 0 0 - 0 0:2 4 0 119 67 1 0 1 0:0:0:4 -",
	// 1920x1080 interlaced (frame_mbs_only 0): 34 map units, crop bottom 2 (CropUnitY = 4)
	"3 100 0 40 0 1 0 0 0 0 - 0 0:2 4 0 119 33 0 1 1 0:0:0:2 -",
	// 4:2:2 progressive, crop bottom 8 (CropUnitY = 1)
	"3 122 0 40 0 2 0 2 2 0 - 0 0:2 4 0 119 67 1 0 1 0:0:0:8 -",
	// 4:4:4, crop right 8 and bottom 8 (CropUnitX = CropUnitY = 1)
	"3 244 0 40 0 3 0 0 0 0 - 0 0:2 4 0 119 67 1 0 1 0:8:0:8 -",
	// 4:4:4 separate planes / monochrome
	"3 244 0 40 0 3 1 0 0 0 - 0 2 4 0 79 44 1 0 1 0:2:0:2 -",
	"3 100 0 40 0 0 0 0 0 0 - 0 2 4 0 79 44 1 0 1 1:1:1:1 -",
	// baseline, POC type 1 with an offset whose code word holds 00 00 before the size fields (emulation prevention)
	"3 66 192 30 0 1 0 0 0 0 - 0 1:0:-65536:0:_ 1 0 39 29 1 0 1 - -",
	"3 66 192 30 0 1 0 0 0 0 - 0 1:0:0:-4194304:1,-16777216 1 0 39 29 1 0 1 0:0:0:4 -",
	// profile_idc 135 carries chroma_format_idc
	"3 135 0 40 0 1 0 0 0 0 - 0 2 4 0 79 44 1 0 1 - -",
	// scaling lists, VUI with extended SAR
	"3 100 0 31 0 1 0 0 0 0 1,1,1,1,1,1,1,1,1,1,1,1,1,1,1,1/n/n/n/n/n/-8,0,0,0,0,0,0,0,0,0,0,0,0,0,0,0,0,0,0,0,0,0,0,0,0,0,0,0,0,0,0,0,0,0,0,0,0,0,0,0,0,0,0,0,0,0,0,0,0,0,0,0,0,0,0,0,0,0,0,0,0,0,0,0/n 4 0:4 2 1 79 44 1 0 1 - a:255:16:11:0000000",
}

func genC19(g *G) {
	r := g.rng
	run := func(label, op string) { g.L(label).run(op) }

	// ===================== H.264 SPS =====================
	for _, s := range spsCorpus {
		run("corpus", "sps.enc "+s)
	}
	for i := 0; i < g.scale(1500, 40000); i++ {
		p := genSpsP(r)
		lab := "low"
		if highProfilesSpec[p.profile] {
			lab = fmt.Sprintf("high-cf%d", p.chroma)
		}
		lab += fmt.Sprintf("-poc%c-fmo%d", p.poc[0], p.fmo)
		if p.crop != "-" {
			lab += "-crop"
		}
		run(lab, "sps.enc "+p.String())
		if i%4 == 0 {
			b := encSps(p)
			run("valid", "sps.parse "+hx(b))
			k := r.Intn(len(b) + 1)
			run("truncated", "sps.parse "+hx(b[:k]))
			m := append([]byte{}, b...)
			m[r.Intn(len(m))] ^= 1 << uint(r.Intn(8))
			run("bitflip", "sps.parse "+hx(m))
		}
	}
	// real-world SPSs (x264 / hardware encoders)
	for _, s := range []string{"6764001fac2ca4014016ec0440000003004000000c03c60ca8", "67640028acd940780227e5c05a808080a0000003002000000781e30632c0",
		"674d401fe8802802dd80b501010140000003004000000c83c60c4480", "6742c01e9e21811f60", "27640020ac2ec05005bb011000000300100000030320f1831960",
		"67420029e2900f0044fcb80b7010101a41e24454", "-", "67", "6742", "674200", "6742001e", "6742001eff", "6742001e80", "6742001ec0"} {
		run("corpus", "sps.parse "+s)
	}
	for i := 0; i < g.scale(600, 20000); i++ {
		n := r.Intn(24)
		b := r.Bytes(n)
		if n > 1 && r.Bool() {
			b[1] = byte(allProfiles[r.Intn(len(allProfiles))])
		}
		if r.Intn(4) == 0 {
			for j := 4; j < n; j++ {
				b[j] |= byte(r.U64()) // many one bits: short code words, reaches the end of the buffer
			}
		}
		run("random", "sps.parse "+hx(b))
	}

	// ===================== bit reader, exp-Golomb =====================
	ueb := []uint64{0, 1, 2, 3, 6, 7, 8, 254, 255, 256, 65534, 65535, 65536, 1<<31 - 2, 1<<31 - 1, 1 << 31, 1<<32 - 3, 1<<32 - 2, 1<<32 - 1, 1 << 32, 1<<33 + 5}
	for _, v := range ueb {
		run("corpus", fmt.Sprintf("bits.ue %d", v))
	}
	for _, v := range []int64{0, 1, -1, 2, -2, 127, -128, 32767, -32768, 1<<31 - 1, -(1<<31 - 1), -(1 << 31), 1 << 31, 1 << 32} {
		run("corpus", fmt.Sprintf("bits.se %d", v))
	}
	for i := 0; i < g.scale(300, 10000); i++ {
		v := r.U64() >> uint(32+r.Intn(32))
		run("random", fmt.Sprintf("bits.ue %d", v))
		run("random", fmt.Sprintf("bits.se %d", int64(v>>1)*int64(1-2*r.Intn(2))))
	}
	items := []string{"ue", "se", "b1", "b2", "b3", "b5", "b8", "b12", "b16", "b17", "b24", "b32", "b48", "B0", "B1", "B2", "B5", "s1", "s7", "s8", "s16", "ue", "ue", "se"}
	for _, c := range []string{"- ue", "80 ue", "01 ue", "ff b8,ue", "ff b7,ue", "ff b7,ue,ue", "00 ue,b1", "ffff B1,B1,B1", "ffff b1,B1,B1", "ffff s16,B0,ue", "0000000100 ue,b8"} {
		run("corpus", "bits.rd "+c)
	}
	for i := 0; i < g.scale(800, 20000); i++ {
		n := r.Intn(12)
		b := r.Bytes(n)
		if r.Bool() {
			for j := range b {
				b[j] |= byte(r.U64()) | byte(r.U64())
			}
		}
		k := 1 + r.Intn(8)
		sc := make([]string, k)
		for j := range sc {
			sc[j] = items[r.Intn(len(items))]
		}
		run("random", "bits.rd "+hx(b)+" "+strings.Join(sc, ","))
	}

	// ===================== NAL unit streams =====================
	for _, c := range []string{"- 0", "000001 0", "00000001 0", "0000000001 0", "0001 0", "000001 1", "aa000001bb 0", "aa000001bb 2", "aa000001bb 5", "aa000001bb 6",
		"0000010000000165 3", "000000 0", "000002000001 0", "01000001 0"} {
		run("corpus", "nalu.sc "+c)
	}
	for _, c := range []string{"-", "00", "000001", "00000001", "0000000165", "00000165", "65", "6588", "00000001650000000141", "000001650000014100", "0000016500000001", "000001000001",
		"aabb0000016588", "00000001670000000168000000016588", "000001650000000000000141", "00000165000000"} {
		run("corpus", "nalu.annexb "+c)
		run("corpus", "nalu.b2a "+c)
	}
	for _, c := range []string{"-", "00", "000000", "00000000", "0000000165", "000000016500000000", "00000001650000000141", "0000000265", "000000026588ff", "00000000000000016500", "0000000165000000", "000000000000000165",
		"ffffffff65", "00000001650000000241"} {
		run("corpus", "nalu.avcc "+c)
		run("corpus", "nalu.a2b "+c)
	}
	run("corpus", "nalu.join .")
	run("corpus", "nalu.join -")
	run("corpus", "nalu.join 65,-,4188")
	// round trips: every start-code form × the boundary lengths
	for _, n := range []int{1, 2, 3, 4, 255, 256, 65535, 65536} {
		for _, k := range []int{2, 3} {
			run("corpus", "nalu.rt "+joinK([]int{k, 5 - k}, [][]byte{genNal(r, n), genNal(r, 1+r.Intn(4))}))
		}
	}
	run("corpus", "nalu.rt 2:6588,3:41,4:4180,7:0601,2:09f0")
	run("corpus", "nalu.rt 3:6500,3:41")     // trailing zero inside a unit: outside NalWF
	run("corpus", "nalu.rt 3:65000001,3:41") // start code inside a unit
	run("corpus", "nalu.rt 3:-,3:41")        // empty unit
	for i := 0; i < g.scale(400, 10000); i++ {
		k := 1 + r.Intn(5)
		nals := make([][]byte, k)
		ks := make([]int, k)
		for j := range nals {
			nals[j] = genNal(r, r.Around(1, 2, 3, 8, 40))
			ks[j] = r.Pick(2, 3, 2, 3, 4, 6)
		}
		lab := "wf"
		if r.Intn(10) == 0 {
			j := r.Intn(k)
			switch r.Intn(3) {
			case 0:
				nals[j] = append(nals[j], 0)
			case 1:
				nals[j] = append(append(nals[j], 0, 0, byte(r.Intn(2))), 0x80)
			default:
				nals[j] = nil
			}
			lab = "not-wf"
		}
		run(lab, "nalu.rt "+joinK(ks, nals))
		if i%3 == 0 {
			annexb := []byte{}
			for j := range nals {
				annexb = append(append(append(annexb, make([]byte, ks[j])...), 1), nals[j]...)
			}
			avcc := h2645.JoinNaluAvcc(nals...)
			for _, in := range [][]byte{annexb, avcc} {
				m := append([]byte{}, in...)
				if len(m) > 0 {
					switch r.Intn(3) {
					case 0:
						m = m[:r.Intn(len(m))]
					case 1:
						m[r.Intn(len(m))] = byte(r.Intn(3))
					default:
						m = append(m, byte(r.Intn(2)))
					}
				}
				run("mutated", "nalu.annexb "+hx(m))
				run("mutated", "nalu.avcc "+hx(m))
				run("mutated", "nalu.a2b "+hx(m))
				run("mutated", "nalu.b2a "+hx(m))
				run("mutated", fmt.Sprintf("nalu.sc %s %d", hx(m), r.Intn(len(m)+2)))
			}
		}
	}
	for i := 0; i < g.scale(300, 10000); i++ {
		n := r.Intn(16)
		b := r.Bytes(n)
		for j := range b {
			if r.Intn(3) != 0 {
				b[j] = byte(r.Intn(3))
			}
		}
		run("random", "nalu.annexb "+hx(b))
		run("random", "nalu.avcc "+hx(b))
		run("random", fmt.Sprintf("nalu.sc %s %d", hx(b), r.Intn(n+2)))
	}

	// ===================== sequence headers =====================
	validSps := func() []byte { return encSps(genSpsP(r)) }
	padTo := func(b []byte, n int) []byte { // a parameter set of exactly n bytes that still parses: the tail is opaque to ParseSps
		if len(b) >= n {
			return b[:n]
		}
		return append(append([]byte{}, b...), genNal(r, n-len(b))...)
	}
	for _, ls := range psLens {
		for _, lp := range psLens {
			if g.thorough() || ls < 65535 || lp == 1 || lp == 65535 {
				run("corpus", fmt.Sprintf("avc.build %s %s", hx(padTo(validSps(), ls)), hx(genNal(r, lp))))
			}
		}
	}
	for _, c := range []string{"- -", "67 68", "6742001e 68", "6742001eff 68ce", "6742001e80 -"} {
		run("corpus", "avc.build "+c)
	}
	run("too-long", fmt.Sprintf("avc.build %s %s", hx(padTo(validSps(), 65536)), hx(genNal(r, 3))))
	run("too-long", fmt.Sprintf("avc.build %s %s", hx(padTo(validSps(), 30)), hx(genNal(r, 65536+7))))
	for i := 0; i < g.scale(300, 8000); i++ {
		sps := validSps()
		if r.Intn(5) == 0 {
			sps = r.Bytes(r.Intn(12))
		}
		pps := genNal(r, r.Around(1, 4, 8))
		run("build", fmt.Sprintf("avc.build %s %s", hx(sps), hx(pps)))
		run("annexb", fmt.Sprintf("avc.annexb %s %s", hx(sps), hx(pps)))
		sh, err := safeAvcBuild(sps, pps)
		if err != nil {
			continue
		}
		run("valid", "avc.parse "+hx(sh))
		run("valid", "avc.sh2annexb "+hx(sh))
		if i < 30 {
			for k := 0; k <= len(sh); k++ {
				run("truncated", "avc.parse "+hx(sh[:k]))
				run("truncated", "avc.sh2annexb "+hx(sh[:k]))
			}
		}
		m := append([]byte{}, sh...)
		pos := r.Pick(0, 1, 4, 10, 11, 12, 13+len(sps), 14+len(sps), 15+len(sps), r.Intn(len(m)))
		m[pos] ^= byte(1 << uint(r.Intn(8)))
		run("mutated", "avc.parse "+hx(m))
		run("mutated", "avc.sh2annexb "+hx(m))
		m2 := append(append([]byte{}, sh...), r.Bytes(r.Intn(4))...)
		run("tail", "avc.parse "+hx(m2))
		// several SPS / PPS in one record (SpsPpsSeqHeader2Annexb handles lists)
		ns, np := r.Intn(4), r.Intn(4)
		rec := []byte{0x17, 0, 0, 0, 0, 1, 100, 0, 40, 0xff, byte(0xe0 | ns)}
		for j := 0; j < ns; j++ {
			u := genNal(r, 1+r.Intn(6))
			rec = append(append(rec, byte(len(u)>>8), byte(len(u))), u...)
		}
		rec = append(rec, byte(np))
		for j := 0; j < np; j++ {
			u := genNal(r, 1+r.Intn(6))
			rec = append(append(rec, byte(len(u)>>8), byte(len(u))), u...)
		}
		run(fmt.Sprintf("lists-%d-%d", ns, np), "avc.sh2annexb "+hx(rec))
		run(fmt.Sprintf("lists-%d-%d", ns, np), "avc.parse "+hx(rec))
	}
	for i := 0; i < g.scale(200, 5000); i++ {
		b := r.Bytes(r.Intn(40))
		if len(b) >= 5 && r.Intn(4) != 0 {
			copy(b, []byte{0x17, 0, 0, 0, 0})
		}
		run("random", "avc.parse "+hx(b))
		run("random", "avc.sh2annexb "+hx(b))
	}
	// HEVC
	for _, lv := range psLens {
		for _, lp := range []int{1, 65535} {
			run("corpus", fmt.Sprintf("hevc.build %s %s %s", hx(padTo(genHevcVps(r), lv)), hx(padTo(genHevcSps(r), max(lv, 40))), hx(genNal(r, lp))))
		}
	}
	run("corpus", fmt.Sprintf("hevc.build %s %s %s", hx(padTo(genHevcVps(r), 30)), hx(padTo(genHevcSps(r), 65535)), hx(genNal(r, 2))))
	for _, c := range []string{"- - -", "40 42 44", "4001 4201 4401", "40010c01ffff 4201 4401"} {
		run("corpus", "hevc.build "+c)
	}
	// the sequence header of lal's own unit test
	for i := 0; i < g.scale(250, 6000); i++ {
		vps, sps, pps := genHevcVps(r), genHevcSps(r), genNal(r, r.Around(2, 6))
		if r.Intn(6) == 0 {
			sps = sps[:r.Intn(len(sps))]
		}
		if r.Intn(6) == 0 {
			vps = vps[:r.Intn(len(vps))]
		}
		run("build", fmt.Sprintf("hevc.build %s %s %s", hx(vps), hx(sps), hx(pps)))
		run("annexb", fmt.Sprintf("hevc.annexb %s %s %s", hx(vps), hx(sps), hx(pps)))
		sh, err := safeHevcBuild(vps, sps, pps)
		if err != nil {
			continue
		}
		run("valid", "hevc.parse "+hx(sh))
		run("valid", "hevc.sh2annexb "+hx(sh))
		en := append([]byte{}, sh...)
		en[0] = 0x90 // enhanced RTMP: IsExHeader | key frame, packet type 0 (sequence start)
		run("valid", "hevc.eparse "+hx(en))
		run("valid", "hevc.esh2annexb "+hx(en))
		if i < 12 {
			for k := 0; k <= len(sh); k++ {
				run("truncated", "hevc.parse "+hx(sh[:k]))
				if k > 0 {
					run("truncated", "hevc.eparse "+hx(en[:k]))
				}
			}
		}
		m := append([]byte{}, sh...)
		pos := r.Pick(0, 1, 4, 27, 28, 29, 30, 31, 32, 33+len(vps), 34+len(vps), 36+len(vps), 37+len(vps), 38+len(vps)+len(sps), 41+len(vps)+len(sps), 42+len(vps)+len(sps), r.Intn(len(m)))
		m[pos] ^= byte(1 << uint(r.Intn(8)))
		run("mutated", "hevc.parse "+hx(m))
		run("mutated", "hevc.sh2annexb "+hx(m))
		m[0] = 0x90
		run("mutated", "hevc.eparse "+hx(m))
		// the Annex-B fallback: 1c 00 00 00 00 + padding + start-code separated units
		fb := append([]byte{0x1c, 0, 0, 0, 0}, r.Bytes(r.Intn(30))...)
		for _, u := range [][]byte{vps, sps, pps} {
			if r.Intn(8) != 0 {
				fb = append(append(fb, 0, 0, 0, 1), u...)
			}
		}
		if r.Intn(6) == 0 {
			fb = append(fb, 0, 0, 0, 1)
		}
		run("annexb-fallback", "hevc.parse "+hx(fb))
	}
	for i := 0; i < g.scale(200, 5000); i++ {
		b := r.Bytes(r.Intn(60))
		if len(b) >= 5 && r.Intn(4) != 0 {
			copy(b, []byte{0x1c, 0, 0, 0, 0})
		}
		if len(b) > 28 && r.Bool() {
			b[27], b[28] = byte(3+r.Intn(2)), 32
		}
		run("random", "hevc.parse "+hx(b))
		if len(b) > 0 {
			if r.Bool() {
				b[0] &= 0xf0
			}
			run("random", "hevc.eparse "+hx(b))
		}
	}

	// ===================== AAC =====================
	for _, ot := range []int{1, 2, 3, 4, 5, 0, 31, 32, 255} {
		for sfi := 0; sfi < 16; sfi++ {
			for ch := 0; ch < 16; ch++ {
				run("all-asc", fmt.Sprintf("aac.pack %d %d %d", ot, sfi, ch))
				run("all-asc", fmt.Sprintf("aac.adts %d %d %d %d", ot, sfi, ch, r.Pick(0, 1, 100, 1024, 8184, 8185, 8191, 70000)))
			}
			run("all-asc", fmt.Sprintf("aac.freq %d %d 2", ot, sfi))
		}
	}
	for _, n := range []int{0, 1, 6, 7, 8, 8183, 8184, 8185, 16383, 65528, 65529, 1 << 20} {
		run("corpus", fmt.Sprintf("aac.adts 2 4 2 %d", n))
	}
	for _, c := range []string{"-", "12", "1210", "121056e500", "ffff", "0000", "2b92", "f8"} {
		run("corpus", "aac.asc "+c)
		run("corpus", "aac.seqhdr "+c)
		run("corpus", "aac.shctx "+c)
	}
	for _, c := range []string{"-", "fff1", "fff15080017ffc", "fff15080017f", "fff15080017ffc2100", "00000000000000", "ffffffffffffff"} {
		run("corpus", "aac.unadts "+c)
		run("corpus", "aac.adts2asc "+c)
		run("corpus", "aac.adts2seqhdr "+c)
	}
	for i := 0; i < g.scale(400, 10000); i++ {
		b := r.Bytes(r.Around(2, 2, 3, 7))
		run("random", "aac.asc "+hx(b))
		run("random", "aac.shctx "+hx(b))
		c := aac.AscContext{AudioObjectType: uint8(1 + r.Intn(4)), SamplingFrequencyIndex: uint8(r.Intn(13)), ChannelConfiguration: uint8(r.Intn(8))}
		h := c.PackAdtsHeader(r.Intn(8185))
		if r.Intn(4) == 0 {
			h = r.Bytes(r.Around(6, 7, 8))
		}
		run("adts", "aac.unadts "+hx(h))
		run("adts", "aac.adts2asc "+hx(h))
		run("adts", "aac.adts2seqhdr "+hx(h))
	}

	// ===================== SDP =====================
	sps, pps, vps := validSps(), genNal(r, 4), genHevcVps(r)
	optx := func(b []byte) string {
		if b == nil {
			return "nil"
		}
		return hx(b)
	}
	for _, v := range [][4]string{{"96", "nil", optx(sps), optx(pps)}, {"98", optx(vps), optx(sps), optx(pps)}, {"-1", "nil", "nil", "nil"}, {"96", "nil", "nil", optx(pps)}, {"98", "nil", optx(sps), optx(pps)}, {"96", "nil", "-", "-"}} {
		for _, a := range [][3]string{{"97", "44100", "1210"}, {"8", "8000", "nil"}, {"0", "8000", "nil"}, {"101", "48000", "nil"}, {"-1", "-1", "nil"}, {"97", "-1", "nil"}, {"97", "7350", "-"}, {"14", "8000", "nil"}} {
			run("corpus", fmt.Sprintf("sdp.pack %s %s %s %s %s %s %s", v[0], v[1], v[2], v[3], a[0], a[1], a[2]))
		}
	}
	for _, n := range psLens {
		if n == 65535 && !g.thorough() {
			run("corpus", fmt.Sprintf("sdp.pack 96 nil %s %s 97 48000 1190", hx(padTo(sps, n)), hx(genNal(r, 3))))
			continue
		}
		run("corpus", fmt.Sprintf("sdp.pack 96 nil %s %s 97 48000 1190", hx(padTo(sps, n)), hx(genNal(r, n))))
		run("corpus", fmt.Sprintf("sdp.pack 98 %s %s %s 8 8000 nil", hx(genNal(r, n)), hx(padTo(sps, n)), hx(genNal(r, 1+n%3))))
	}
	freqs := []int{96000, 88200, 64000, 48000, 44100, 32000, 24000, 22050, 16000, 12000, 11025, 8000, 7350, 0, -1}
	for i := 0; i < g.scale(300, 8000); i++ {
		vpt := r.Pick(96, 98, 96, 98, -1)
		apt := r.Pick(97, 97, 8, 0, 101, -1)
		asc := []byte{byte(r.Intn(256)), byte(r.Intn(256))}
		if r.Intn(4) == 0 {
			asc = r.Bytes(r.Intn(6))
		}
		op := fmt.Sprintf("sdp.pack %d %s %s %s %d %d %s", vpt, hx(genNal(r, r.Around(1, 3, 20))), hx(genNal(r, r.Around(1, 3, 30))), hx(genNal(r, r.Around(1, 2, 8))),
			apt, freqs[r.Intn(len(freqs))], hx(asc))
		run(fmt.Sprintf("v%d-a%d", vpt, apt), op)
		out := protect(func() string { return ops["sdp.pack"](strings.Fields(op)[1:]) })
		f := strings.Fields(out)
		if len(f) < 2 {
			continue
		}
		raw := unhx(f[0])
		run("packed", "sdp.parse "+f[0])
		run("mutated", "sdp.parse "+hx(mutateSdp(r, raw)))
	}
	for _, s := range sdpCorpus {
		run("corpus", "sdp.parse "+hx([]byte(strings.ReplaceAll(s, "\n", "\r\n"))))
		run("corpus-lf", "sdp.parse "+hx([]byte(s)))
	}

	// ===================== remuxers (chains) =====================
	for i := 0; i < g.scale(150, 4000); i++ {
		sps, pps := validSps(), genNal(r, r.Around(2, 6))
		vsh, err := safeAvcBuild(sps, pps)
		vs := "nil"
		if err == nil {
			vs = hx(vsh)
		}
		lab := "avc"
		if i%3 == 1 {
			lab = "hevc"
			v, s := genHevcVps(r), genHevcSps(r)
			if h, err := safeHevcBuild(v, s, pps); err == nil {
				vs = hx(h)
			}
			run(lab, fmt.Sprintf("remux.init %s %s %s %s", r.pickS("1210", "nil", "11"), hx(v), hx(s), hx(pps)))
		} else {
			run(lab, fmt.Sprintf("remux.init %s nil %s %s", r.pickS("1210", "nil", "1390", "12"), hx(sps), hx(pps)))
		}
		ash := []byte{0xaf, 0, byte(r.Intn(256)), byte(r.Intn(256))}
		if r.Intn(3) != 0 {
			ash[2], ash[3] = byte(2<<3|r.Intn(13)>>1), byte(r.Intn(2)<<7|2<<3)
		}
		if r.Intn(8) == 0 {
			ash = ash[:3]
		}
		as := hx(ash)
		if i%7 == 6 {
			as = "nil"
		}
		run(lab, fmt.Sprintf("remux.sdp %s %s", vs, as))
	}
	run("corpus", "remux.init nil nil nil nil")
	run("corpus", "remux.init 12 nil nil nil")
	run("corpus", "remux.init 1210 nil nil nil")
	run("corpus", "remux.init nil nil 6742001eff 68ce")
	run("corpus", "remux.sdp nil nil")
}

func safeAvcBuild(sps, pps []byte) (out []byte, err error) {
	defer func() {
		if r := recover(); r != nil {
			err = fmt.Errorf("panic")
		}
	}()
	return avc.BuildSeqHeaderFromSpsPps(sps, pps)
}

func safeHevcBuild(vps, sps, pps []byte) (out []byte, err error) {
	defer func() {
		if r := recover(); r != nil {
			err = fmt.Errorf("panic")
		}
	}()
	return hevc.BuildSeqHeaderFromVpsSpsPps(vps, sps, pps)
}

func max(a, b int) int {
	if a > b {
		return a
	}
	return b
}

func (r *Rng) pickS(vs ...string) string { return vs[r.Intn(len(vs))] }

// structured ASCII mutations of an SDP: line and token level, never inside a base64 / hex value except
// replacing a whole value by another valid one, the empty string or "!" (invalid at its first character)
func mutateSdp(r *Rng, raw []byte) []byte {
	lines := strings.Split(string(raw), "\r\n")
	k := r.Intn(len(lines))
	switch r.Intn(12) {
	case 0:
		lines = append(lines[:k], lines[k+1:]...)
	case 1:
		lines = append(lines[:k+1], append([]string{lines[r.Intn(len(lines))]}, lines[k+1:]...)...)
	case 2:
		lines[k] = strings.Replace(lines[k], " ", r.pickS("  ", "", "\t"), 1)
	case 3:
		lines[k] = strings.Replace(lines[k], ";", r.pickS(";;", " ; ", ""), 1)
	case 4:
		lines[k] = strings.Replace(lines[k], "=", r.pickS("", "==", ":"), 1+r.Intn(2))
	case 5:
		lines[k] = strings.Replace(lines[k], "/", r.pickS("", "//", " "), 1)
	case 6:
		lines[k] = strings.Replace(lines[k], ":", r.pickS("", "::", " "), 1)
	case 7:
		for _, nm := range []string{"H264", "H265", "MPEG4-GENERIC", "PCMA", "PCMU", "opus", "audio", "video"} {
			if strings.Contains(lines[k], nm) {
				lines[k] = strings.Replace(lines[k], nm, r.pickS(strings.ToLower(nm), strings.ToUpper(nm), "X"+nm, "L16"), 1)
				break
			}
		}
	case 8:
		lines[k] = intRe.ReplaceAllStringFunc(lines[k], func(s string) string {
			if r.Intn(3) != 0 {
				return s
			}
			return r.pickS("0", "8", "14", "96", "+97", "-1", "x", "99999999999999999999", "1.5", "")
		})
	case 9:
		for _, key := range []string{"sprop-parameter-sets=", "sprop-sps=", "sprop-pps=", "sprop-vps=", "config="} {
			if i := strings.Index(lines[k], key); i >= 0 {
				j := strings.IndexAny(lines[k][i:], ";")
				end := len(lines[k])
				if j >= 0 {
					end = i + j
				}
				lines[k] = lines[k][:i+len(key)] + r.pickS("", "!", "Z0IAHg==", "Z0IAHg==,aM4=", "!,aM4=", "Z0IAHg==,!", "1210", "12", "121", "zz10") + lines[k][end:]
				break
			}
		}
	case 10:
		lines[k] = lines[k] + r.pickS(";", " ", "; x=y", ";x")
	default:
		if len(lines[k]) > 0 {
			lines[k] = lines[k][:r.Intn(len(lines[k]))]
		}
	}
	sep := "\r\n"
	if r.Intn(10) == 0 {
		sep = "\n"
	}
	return []byte(strings.Join(lines, sep))
}

var sdpCorpus = []string{
	// ffmpeg publish
	"v=0\no=- 0 0 IN IP4 127.0.0.1\ns=No Name\nc=IN IP4 127.0.0.1\nt=0 0\na=tool:libavformat 57.83.100\nm=video 0 RTP/AVP 96\nb=AS:212\na=rtpmap:96 H264/90000\na=fmtp:96 packetization-mode=1; sprop-parameter-sets=Z2QAIKzZQMApsBEAAAMAAQAAAwAyDxgxlg==,aOvssiw=; profile-level-id=640020\na=control:streamid=0\nm=audio 0 RTP/AVP 97\nb=AS:30\na=rtpmap:97 MPEG4-GENERIC/44100/2\na=fmtp:97 profile-level-id=1;mode=AAC-hbr;sizelength=13;indexlength=3;indexdeltalength=3; config=1210\na=control:streamid=1\n",
	// camera, absolute control URLs, HEVC
	"v=0\no=- 1001 1 IN IP4 192.168.0.221\ns=VCP IPC Realtime stream\nm=video 0 RTP/AVP 105\nc=IN IP4 192.168.0.221\na=control:rtsp://192.168.0.221/media/video1/video\na=rtpmap:105 H265/90000\na=fmtp:105 profile-id=1; sprop-sps=QgEBAWAAAAMAsAAAAwAAAwBaoAWCAeFja5JFL83BQYFBAAADAAEAAAMADKE=; sprop-pps=RAHA8saNA7NA; sprop-vps=QAEMAf//AWAAAAMAsAAAAwAAAwBarAwAAAMABAAAAwAyqA==\na=recvonly\nm=audio 0 RTP/AVP 8\nc=IN IP4 192.168.0.221\na=control:rtsp://192.168.0.221/media/video1/audio1\na=rtpmap:8 PCMA/8000\na=recvonly\n",
	// no rtpmap: static payload types
	"v=0\nm=audio 0 RTP/AVP 8\na=control:track1\nm=video 0 RTP/AVP 96\na=control:track0\n",
	"v=0\nm=audio 0 RTP/AVP 0\na=control:t\nm=audio 0 RTP/AVP 14\nm=audio 0 RTP/AVP 5\n",
	// fmtp leading / trailing semicolons, split fmtp line
	"v=0\nm=video 0 RTP/AVP 96\na=rtpmap:96 H264/90000\na=fmtp:96 ;packetization-mode=1;sprop-parameter-sets=Z0IAHg==,aM4=;\na=control:trackID=1\n",
	"v=0\nm=video 0 RTP/AVP 96\na=rtpmap:96 H264/90000\na=fmtp:96 packetization-mode=1;sprop-parameter-sets=Z0IAHg==,aM4=;\n profile-level-id=42001e\na=control:trackID=1\n",
	"v=0\nm=audio 0 RTP/AVP 104\na=rtpmap:104 mpeg4-generic/16000/1\na=fmtp:104 streamtype=5; config=1408; mode=AAC-hbr\na=control:a\na=rtpmap:x\n",
	"a=rtpmap:96 H264/90000\na=control:x\nm=application 0 RTP/AVP 107\na=rtpmap:107 vnd.onvif.metadata/90000\n",
	"",
}
