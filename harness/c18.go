package main

// C18 — AMF0 encode/decode is exact, total and bounded (implementation side).
//
// One-token text syntax of value trees (lower-case hex, upper-case type letters):
//
//	N<16 hex>          number (IEEE-754 bits)          T | F   boolean
//	S<hex>             string (hex may be empty)       R<len>x<hh>  string of <len> bytes <hh>
//	O{<key>:<v>,...}   object     E{...} ECMA array    A[<v>,...]   strict array
//	Z                  null       U      undefined
//
// a key is <hex> (may be empty) or R<len>x<hh>. Canonical printing: a string/key of >= 64 equal bytes
// prints in the R form. Values lal's readers return print with the same letters; an ObjectPairArray
// always prints as O{...} (lal does not keep the container kind).

import (
	"bytes"
	"encoding/binary"
	"fmt"
	"io/ioutil"
	"math"
	"os"
	"os/exec"
	"regexp"
	"runtime/debug"
	"strconv"
	"strings"

	"github.com/q191201771/lal/pkg/base"
	"github.com/q191201771/lal/pkg/rtmp"
	"github.com/q191201771/naza/pkg/nazalog"
)

type amfKV struct {
	k []byte
	v *amfT
}

type amfT struct {
	kind byte // N T F S O E A Z U
	num  uint64
	s    []byte
	kvs  []amfKV
	vs   []*amfT
}

// ---- text syntax ---------------------------------------------------------------------------------------------

func showBytesC18(b []byte) string {
	if len(b) >= 64 {
		same := true
		for _, x := range b {
			if x != b[0] {
				same = false
				break
			}
		}
		if same {
			return fmt.Sprintf("R%dx%02x", len(b), b[0])
		}
	}
	if len(b) == 0 {
		return ""
	}
	return hx(b)
}

func showStrC18(b []byte) string {
	t := showBytesC18(b)
	if strings.HasPrefix(t, "R") {
		return t
	}
	return "S" + t
}

func (t *amfT) show(sb *strings.Builder) {
	switch t.kind {
	case 'N':
		fmt.Fprintf(sb, "N%016x", t.num)
	case 'T', 'F', 'Z', 'U':
		sb.WriteByte(t.kind)
	case 'S':
		sb.WriteString(showStrC18(t.s))
	case 'O', 'E':
		sb.WriteByte(t.kind)
		sb.WriteByte('{')
		for i, kv := range t.kvs {
			if i > 0 {
				sb.WriteByte(',')
			}
			sb.WriteString(showBytesC18(kv.k))
			sb.WriteByte(':')
			kv.v.show(sb)
		}
		sb.WriteByte('}')
	case 'A':
		sb.WriteString("A[")
		for i, v := range t.vs {
			if i > 0 {
				sb.WriteByte(',')
			}
			v.show(sb)
		}
		sb.WriteByte(']')
	}
}

func (t *amfT) String() string {
	var sb strings.Builder
	t.show(&sb)
	return sb.String()
}

type amfParser struct {
	s string
	i int
}

func isHexC18(c byte) bool { return (c >= '0' && c <= '9') || (c >= 'a' && c <= 'f') }

func (p *amfParser) hex() []byte {
	j := p.i
	for j < len(p.s) && isHexC18(p.s[j]) {
		j++
	}
	b := unhx(p.s[p.i:j])
	if j == p.i {
		b = nil
	}
	p.i = j
	return b
}

func (p *amfParser) bytes() []byte {
	if p.i < len(p.s) && p.s[p.i] == 'R' {
		j := p.i + 1
		for j < len(p.s) && p.s[j] >= '0' && p.s[j] <= '9' {
			j++
		}
		n := atoi(p.s[p.i+1 : j])
		if p.s[j] != 'x' {
			panic("bad R form")
		}
		x := unhx(p.s[j+1 : j+3])[0]
		p.i = j + 3
		return bytes.Repeat([]byte{x}, n)
	}
	return p.hex()
}

func (p *amfParser) value() *amfT {
	c := p.s[p.i]
	switch c {
	case 'N':
		p.i++
		b := p.hex()
		if len(b) != 8 {
			panic("bad number")
		}
		return &amfT{kind: 'N', num: binary.BigEndian.Uint64(b)}
	case 'T', 'F', 'Z', 'U':
		p.i++
		return &amfT{kind: c}
	case 'S':
		p.i++
		return &amfT{kind: 'S', s: p.hex()}
	case 'R':
		return &amfT{kind: 'S', s: p.bytes()}
	case 'O', 'E':
		p.i += 2 // X{
		t := &amfT{kind: c}
		for p.s[p.i] != '}' {
			if p.s[p.i] == ',' {
				p.i++
			}
			k := p.bytes()
			if p.s[p.i] != ':' {
				panic("bad pair")
			}
			p.i++
			t.kvs = append(t.kvs, amfKV{k, p.value()})
		}
		p.i++
		return t
	case 'A':
		p.i += 2
		t := &amfT{kind: 'A'}
		for p.s[p.i] != ']' {
			if p.s[p.i] == ',' {
				p.i++
			}
			t.vs = append(t.vs, p.value())
		}
		p.i++
		return t
	}
	panic("bad tree")
}

func parseTreeC18(s string) *amfT {
	p := &amfParser{s: s}
	t := p.value()
	if p.i != len(s) {
		panic("trailing tree text")
	}
	return t
}

// ---- the harness's own serialiser (builds reader inputs for trees lal has no writer for) -----------------------

func (t *amfT) enc(w *bytes.Buffer) {
	switch t.kind {
	case 'N':
		w.WriteByte(0)
		var b [8]byte
		binary.BigEndian.PutUint64(b[:], t.num)
		w.Write(b[:])
	case 'T':
		w.Write([]byte{1, 1})
	case 'F':
		w.Write([]byte{1, 0})
	case 'S':
		if len(t.s) < 65536 {
			w.Write([]byte{2, byte(len(t.s) >> 8), byte(len(t.s))})
		} else {
			w.Write([]byte{0x0c, byte(len(t.s) >> 24), byte(len(t.s) >> 16), byte(len(t.s) >> 8), byte(len(t.s))})
		}
		w.Write(t.s)
	case 'Z':
		w.WriteByte(5)
	case 'U':
		w.WriteByte(6)
	case 'O', 'E':
		if t.kind == 'O' {
			w.WriteByte(3)
		} else {
			n := len(t.kvs)
			w.Write([]byte{8, byte(n >> 24), byte(n >> 16), byte(n >> 8), byte(n)})
		}
		for _, kv := range t.kvs {
			w.Write([]byte{byte(len(kv.k) >> 8), byte(len(kv.k))})
			w.Write(kv.k)
			kv.v.enc(w)
		}
		w.Write([]byte{0, 0, 9})
	case 'A':
		n := len(t.vs)
		w.Write([]byte{0x0a, byte(n >> 24), byte(n >> 16), byte(n >> 8), byte(n)})
		for _, v := range t.vs {
			v.enc(w)
		}
	}
}

func (t *amfT) encoded() []byte {
	var w bytes.Buffer
	t.enc(&w)
	return w.Bytes()
}

// kind name of the exported lal reader for this tree
func (t *amfT) readerKind() string {
	switch t.kind {
	case 'N':
		return "num"
	case 'T', 'F':
		return "bool"
	case 'S':
		return "str"
	case 'Z':
		return "null"
	case 'O':
		return "obj"
	case 'E':
		return "arr"
	case 'A':
		return "sarr"
	}
	return "undef"
}

// ---- printing what lal's readers return -----------------------------------------------------------------------

func showGoVal(sb *strings.Builder, v interface{}) {
	switch x := v.(type) {
	case float64:
		fmt.Fprintf(sb, "N%016x", math.Float64bits(x))
	case bool:
		if x {
			sb.WriteByte('T')
		} else {
			sb.WriteByte('F')
		}
	case string:
		sb.WriteString(showStrC18([]byte(x)))
	case rtmp.ObjectPairArray:
		sb.WriteString("O{")
		for i, p := range x {
			if i > 0 {
				sb.WriteByte(',')
			}
			sb.WriteString(showBytesC18([]byte(p.Key)))
			sb.WriteByte(':')
			showGoVal(sb, p.Value)
		}
		sb.WriteByte('}')
	default:
		fmt.Fprintf(sb, "?%T", v)
	}
}

func goValStr(v interface{}) string {
	var sb strings.Builder
	showGoVal(&sb, v)
	return sb.String()
}

// amfRead calls the exported lal reader named by kind.
func amfRead(kind string, b []byte) string {
	switch kind {
	case "num":
		v, n, err := rtmp.Amf0.ReadNumber(b)
		if err != nil {
			return "err"
		}
		return fmt.Sprintf("%s %d", goValStr(v), n)
	case "bool":
		v, n, err := rtmp.Amf0.ReadBoolean(b)
		if err != nil {
			return "err"
		}
		return fmt.Sprintf("%s %d", goValStr(v), n)
	case "str":
		v, n, err := rtmp.Amf0.ReadString(b)
		if err != nil {
			return "err"
		}
		return fmt.Sprintf("%s %d", goValStr(v), n)
	case "null":
		n, err := rtmp.Amf0.ReadNull(b)
		if err != nil {
			return "err"
		}
		return fmt.Sprintf("Z %d", n)
	case "obj", "arr", "sarr", "ooa":
		var v rtmp.ObjectPairArray
		var n int
		var err error
		switch kind {
		case "obj":
			v, n, err = rtmp.Amf0.ReadObject(b)
		case "arr":
			v, n, err = rtmp.Amf0.ReadArray(b)
		case "sarr":
			v, n, err = rtmp.Amf0.ReadStrictArray(b)
		default:
			v, n, err = rtmp.Amf0.ReadObjectOrArray(b)
		}
		if err != nil {
			return "err"
		}
		if v == nil {
			v = rtmp.ObjectPairArray{}
		}
		return fmt.Sprintf("%s %d", goValStr(v), n)
	}
	panic("bad kind " + kind)
}

// amfWrite calls lal's writer for the tree; it panics (as WriteObject does) for what lal cannot write.
func amfWrite(t *amfT) []byte {
	var w bytes.Buffer
	switch t.kind {
	case 'N':
		_ = rtmp.Amf0.WriteNumber(&w, math.Float64frombits(t.num))
	case 'T', 'F':
		_ = rtmp.Amf0.WriteBoolean(&w, t.kind == 'T')
	case 'S':
		_ = rtmp.Amf0.WriteString(&w, string(t.s))
	case 'Z':
		_ = rtmp.Amf0.WriteNull(&w)
	case 'O':
		var opa rtmp.ObjectPairArray
		for _, kv := range t.kvs {
			var v interface{}
			switch kv.v.kind {
			case 'N':
				v = math.Float64frombits(kv.v.num)
			case 'T', 'F':
				v = kv.v.kind == 'T'
			case 'S':
				v = string(kv.v.s)
			case 'O', 'E', 'A':
				v = rtmp.ObjectPairArray{}
			default:
				v = nil
			}
			opa = append(opa, rtmp.ObjectPair{Key: string(kv.k), Value: v})
		}
		_ = rtmp.Amf0.WriteObject(&w, opa)
	default:
		panic("lal has no writer for this kind")
	}
	return w.Bytes()
}

func deepInputC18(kind string, k int) []byte {
	var u, c []byte
	switch kind {
	case "obj":
		u, c = []byte{3, 0, 0}, []byte{0, 0, 9}
	case "arr":
		u, c = []byte{8, 0, 0, 0, 1, 0, 0}, []byte{0, 0, 9}
	default:
		u = []byte{0x0a, 0, 0, 0, 1}
	}
	var w bytes.Buffer
	w.Write(bytes.Repeat(u, k))
	w.WriteByte(5)
	w.Write(bytes.Repeat(c, k))
	return w.Bytes()
}

// child process of amf.deep: the real reader on a deeply nested input under a small stack limit, so that
// stack exhaustion is an observed exit status instead of a dead harness.
const amfChildEnv = "LALVERIF_AMF_DEEP"

func amfDeepChild(arg string) {
	_ = nazalog.Init(func(option *nazalog.Option) {
		option.Level = nazalog.LevelPanic
		option.IsToStdout = false
	})
	f := strings.Split(arg, ":")
	kind, k, maxStack := f[0], atoi(f[1]), atoi(f[2])
	b := deepInputC18(kind, k)
	debug.SetMaxStack(maxStack)
	out := protect(func() string {
		r := amfRead(kind, b)
		if r == "err" {
			return r
		}
		return "ok " + r[strings.LastIndexByte(r, ' ')+1:]
	})
	fmt.Println(out)
	os.Exit(0)
}

func init() {
	if arg := os.Getenv(amfChildEnv); arg != "" {
		amfDeepChild(arg)
	}

	// amf.enc <tree>  =>  <bytes lal writes> ; <what lal's reader of that kind returns> <consumed>
	ops["amf.enc"] = func(a []string) string {
		t := parseTreeC18(a[0])
		b := amfWrite(t)
		return hx(b) + " ; " + amfRead(t.readerKind(), b)
	}
	// amf.dec <kind> <bytes>  =>  <value> <consumed> | err
	ops["amf.dec"] = func(a []string) string {
		return amfRead(a[0], unhx(a[1]))
	}
	// amf.deep <kind> <k> <maxstack>  =>  ok <consumed> | err | panic | stackfault
	// (child process running the real reader on k nested containers under debug.SetMaxStack(maxstack))
	ops["amf.deep"] = func(a []string) string {
		cmd := exec.Command(os.Args[0])
		cmd.Env = append(os.Environ(), fmt.Sprintf("%s=%s:%s:%s", amfChildEnv, a[0], a[1], a[2]))
		var stdout, stderr bytes.Buffer
		cmd.Stdout, cmd.Stderr = &stdout, &stderr
		err := cmd.Run()
		if err != nil {
			if strings.Contains(stderr.String(), "stack overflow") || strings.Contains(stderr.String(), "stack exceeds") {
				return "stackfault"
			}
			return "crash"
		}
		return strings.TrimSpace(stdout.String())
	}
	sdf := func(f func([]byte) ([]byte, error)) func(a []string) string {
		return func(a []string) string {
			in := unhx(a[0])
			keep := append([]byte{}, in...)
			out, err := f(in)
			if !bytes.Equal(in, keep) {
				return "input-modified"
			}
			// a result stays what it is when the function is called again for another stream's metadata (same and other
			// lengths): two groups hold their results at the same time
			saved := append([]byte{}, out...)
			other := append([]byte{}, in...)
			for i := range other {
				other[i] ^= 0x55
			}
			if len(other) > 16 { // keep the leading name string intact so that the same branch is taken
				copy(other[:16], in[:16])
			}
			_, _ = f(other)
			_, _ = f(append(other, 1, 2, 3))
			if !bytes.Equal(out, saved) {
				return "result-changed-by-a-later-call"
			}
			if err != nil {
				return hx(out) + " err"
			}
			return hx(out) + " ok"
		}
	}
	// amf.sdf.with <bytes>  =>  <bytes> ok|err
	ops["amf.sdf.with"] = sdf(rtmp.MetadataEnsureWithSdf)
	ops["amf.sdf.without"] = sdf(rtmp.MetadataEnsureWithoutSdf)
	// amf.sdf.law <bytes>  =>  <without(with(b))> <without(b)>
	ops["amf.sdf.law"] = func(a []string) string {
		in := unhx(a[0])
		w, _ := rtmp.MetadataEnsureWithSdf(in)
		x, _ := rtmp.MetadataEnsureWithoutSdf(w)
		y, _ := rtmp.MetadataEnsureWithoutSdf(in)
		return hx(x) + " " + hx(y)
	}
	// amf.meta.build <width> <height> <audiocodecid> <videocodecid>  =>  <bytes> ; <ParseMetadata of them>
	ops["amf.meta.build"] = func(a []string) string {
		var v [4]int
		for i := range v {
			x, err := strconv.ParseInt(a[i], 10, 64)
			if err != nil {
				panic(err)
			}
			v[i] = int(x)
		}
		b, err := rtmp.BuildMetadata(v[0], v[1], v[2], v[3])
		if err != nil {
			return "err"
		}
		opa, err := rtmp.ParseMetadata(b)
		if err != nil {
			return hx(b) + " ; err"
		}
		if opa == nil {
			opa = rtmp.ObjectPairArray{}
		}
		return hx(b) + " ; " + goValStr(opa)
	}
	// amf.meta.parse <bytes>  =>  <ObjectPairArray> | err
	ops["amf.meta.parse"] = func(a []string) string {
		opa, err := rtmp.ParseMetadata(unhx(a[0]))
		if err != nil {
			return "err"
		}
		if opa == nil {
			opa = rtmp.ObjectPairArray{}
		}
		return goValStr(opa)
	}

	gens["C18"] = genC18
	extractors["Amf0Consts"] = func(repo string) (string, error) {
		var sb strings.Builder
		leanBytes(&sb, "metaEncoder", "base.LalRtmpBuildMetadataEncoder", []byte(base.LalRtmpBuildMetadataEncoder))
		leanBytes(&sb, "lalVersionDot", "base.LalVersionDot", []byte(base.LalVersionDot))
		// the nesting limit of the readers, read from the source text (so that the harness also builds
		// against a tree that has none; then the theorems that need it do not elaborate)
		src, err := ioutil.ReadFile(repo + "/pkg/rtmp/amf0.go")
		if err != nil {
			return "", err
		}
		m := regexp.MustCompile(`(?m)^\s*(?:const\s+)?Amf0MaxNestingDepth\s*=\s*(\d+)`).FindSubmatch(src)
		if m != nil {
			leanNat(&sb, "amf0MaxDepth", "rtmp.Amf0MaxNestingDepth (pkg/rtmp/amf0.go)", int64(atoi(string(m[1]))))
		} else {
			sb.WriteString("-- pkg/rtmp/amf0.go declares no Amf0MaxNestingDepth: the readers are unbounded\n\n")
		}
		return sb.String(), nil
	}
}

// ---- generator ------------------------------------------------------------------------------------------------

var amfStrLens = []int{0, 1, 65535, 65536, 70000}

func (g *G) amfStr(long bool) []byte {
	r := g.rng
	if long {
		n := amfStrLens[r.Intn(len(amfStrLens))]
		if r.Intn(4) == 0 {
			return r.Bytes(n)
		}
		return bytes.Repeat([]byte{byte(0x41 + r.Intn(26))}, n)
	}
	switch r.Intn(6) {
	case 0:
		return nil
	case 1:
		return []byte("@setDataFrame")
	default:
		return r.Bytes(1 + r.Intn(12))
	}
}

var amfNums = []uint64{0, 0x8000000000000000, 0x3ff0000000000000, 0xbff0000000000000, 0x7ff0000000000000, 0xfff0000000000000,
	0x7ff8000000000001, 0x7ff0000000000001, 0x0000000000000001, 0x409e000000000000, 0x4090e00000000000, 0xffffffffffffffff}

func (g *G) amfScalar(longOK bool) *amfT {
	r := g.rng
	switch r.Intn(5) {
	case 0:
		if r.Bool() {
			return &amfT{kind: 'N', num: amfNums[r.Intn(len(amfNums))]}
		}
		return &amfT{kind: 'N', num: r.U64()}
	case 1:
		return &amfT{kind: 'T'}
	case 2:
		return &amfT{kind: 'F'}
	default:
		return &amfT{kind: 'S', s: g.amfStr(longOK && r.Intn(12) == 0)}
	}
}

// amfTree: type-directed random tree. flat: only what lal's WriteObject accepts as object values.
func (g *G) amfTree(depth int, nulls bool, longOK bool) *amfT {
	r := g.rng
	if depth <= 0 || r.Intn(3) == 0 {
		if nulls && r.Intn(6) == 0 {
			if r.Bool() {
				return &amfT{kind: 'Z'}
			}
			return &amfT{kind: 'U'}
		}
		return g.amfScalar(longOK)
	}
	n := r.Intn(4)
	switch r.Intn(3) {
	case 0, 1:
		t := &amfT{kind: 'O'}
		if r.Bool() {
			t.kind = 'E'
		}
		for i := 0; i < n; i++ {
			t.kvs = append(t.kvs, amfKV{g.amfStr(false), g.amfTree(depth-1, nulls, longOK)})
		}
		return t
	default:
		t := &amfT{kind: 'A'}
		for i := 0; i < n; i++ {
			t.vs = append(t.vs, g.amfTree(depth-1, nulls, longOK))
		}
		return t
	}
}

func (g *G) amfFlatObject(longOK bool) *amfT {
	r := g.rng
	t := &amfT{kind: 'O'}
	n := r.Intn(6)
	for i := 0; i < n; i++ {
		t.kvs = append(t.kvs, amfKV{g.amfStr(false), g.amfScalar(longOK)})
	}
	return t
}

func genC18(g *G) {
	r := g.rng
	enc := func(label string, t *amfT) { g.L(label).run("amf.enc " + t.String()) }
	dec := func(label, kind string, b []byte) { g.L(label).run("amf.dec " + kind + " " + hx(b)) }
	decTree := func(label string, t *amfT) { dec(label, t.readerKind(), t.encoded()) }
	str := func(n int, x byte) *amfT { return &amfT{kind: 'S', s: bytes.Repeat([]byte{x}, n)} }
	obj := func(kvs ...amfKV) *amfT { return &amfT{kind: 'O', kvs: kvs} }
	kinds := []string{"num", "bool", "str", "null", "obj", "arr", "sarr", "ooa"}

	// ---- boundary corpus (runs first) ----
	// S4(i): a long string as an object value — WriteObject emits marker 0x0c, the object reader must accept it
	enc("corpus", obj(amfKV{[]byte("k"), str(65536, 'A')}))
	enc("corpus", obj(amfKV{[]byte("a"), str(65535, 'A')}, amfKV{[]byte("b"), str(70000, 'B')}, amfKV{[]byte("c"), &amfT{kind: 'T'}}))
	decTree("corpus", &amfT{kind: 'E', kvs: []amfKV{{[]byte("k"), str(65536, 'A')}}})
	decTree("corpus", &amfT{kind: 'A', vs: []*amfT{str(65536, 'A'), str(0, 0)}})
	for _, n := range amfStrLens {
		enc("corpus", str(n, 'x'))
		enc("corpus", obj(amfKV{[]byte("k"), str(n, 'y')}))
		if n < 65536 {
			enc("corpus", obj(amfKV{bytes.Repeat([]byte{'k'}, n), &amfT{kind: 'F'}}))
		}
	}
	for _, x := range amfNums {
		enc("corpus", &amfT{kind: 'N', num: x})
		enc("corpus", obj(amfKV{[]byte("n"), &amfT{kind: 'N', num: x}}))
	}
	enc("corpus", &amfT{kind: 'T'})
	enc("corpus", &amfT{kind: 'F'})
	enc("corpus", &amfT{kind: 'Z'})
	enc("corpus", obj())
	// what WriteObject refuses (it panics by contract): nested container, null member
	enc("corpus-unwritable", obj(amfKV{[]byte("o"), obj()}))
	enc("corpus-unwritable", obj(amfKV{[]byte("z"), &amfT{kind: 'Z'}}))
	// reader quirks: null/undefined/unsupported members, ECMA array without end marker / wrong count, empty key
	dec("corpus", "obj", unhx("030001610500016206000163010100000009"))
	dec("corpus", "obj", unhx("030001610d000009"))
	dec("corpus", "arr", unhx("0800000001000161010100"))
	dec("corpus", "arr", unhx("0800000001000161010100000009ff"))
	dec("corpus", "arr", unhx("08000000000001610101000009"))
	dec("corpus", "arr", unhx("08ffffffff0001610101000009"))
	dec("corpus", "sarr", unhx("0affffffff05"))
	dec("corpus", "sarr", unhx("0a000000020501010a0000000005"))
	dec("corpus", "obj", unhx("0300000500000009"))
	dec("corpus", "obj", unhx("03000009"))
	dec("corpus", "obj", unhx("0300000900"))
	dec("corpus", "ooa", unhx("0a00000000"))
	dec("corpus", "str", unhx("0c00000003616263ff"))
	dec("corpus", "str", unhx("0cffffffff616263"))
	dec("corpus", "str", unhx("02ffff61"))
	for _, k := range kinds {
		dec("corpus-empty", k, nil)
		for m := 0; m < 0x12; m++ {
			dec("corpus-marker", k, []byte{byte(m)})
		}
	}
	// S4(ii): nesting. In-process up to 2000 levels, beyond that in a child process with a stack limit.
	for _, k := range []int{1, 2, 3, 31, 32, 33, 34, 100, 500, 2000} {
		for _, kind := range []string{"obj", "arr", "sarr"} {
			dec(fmt.Sprintf("nest-%s", kind), kind, deepInputC18(kind, k))
		}
	}
	for _, k := range []int{1, 32, 33, 1000, 100000} {
		for _, kind := range []string{"obj", "arr", "sarr"} {
			g.L("deep-child").run(fmt.Sprintf("amf.deep %s %d %d", kind, k, 8<<20))
		}
	}
	for _, kind := range []string{"obj", "arr", "sarr"} {
		// the witness of S4(ii) on the unfixed tree: 2000 levels do not fit a 256 KiB stack
		g.L("deep-child").run(fmt.Sprintf("amf.deep %s %d %d", kind, 2000, 256<<10))
	}
	if g.thorough() {
		// a full 16 MiB RTMP message of nested markers under Go's default 1 GB stack limit
		g.L("deep-child-16MiB").run(fmt.Sprintf("amf.deep sarr %d %d", (16<<20)/5, 1000000000))
		g.L("deep-child-16MiB").run(fmt.Sprintf("amf.deep obj %d %d", (16<<20)/3-1, 1000000000))
		g.L("deep-child-16MiB").run(fmt.Sprintf("amf.deep arr %d %d", (16<<20)/7, 1000000000))
	}
	// metadata
	for _, v := range [][4]int{{-1, -1, -1, -1}, {1920, 1080, 10, 7}, {0, 0, 0, 0}, {1, -1, 10, 12}, {-2, 3, -1, 7},
		{1 << 31, 1<<31 - 1, 1 << 32, 1<<53 - 1}, {1 << 53, 1<<53 + 1, 1<<53 + 2, 1<<53 + 3}, {math.MaxInt64, math.MinInt64, -(1 << 53), -(1<<53 + 1)},
		{1<<54 + 2, 1<<54 + 6, 1<<63 - 512, 1<<63 - 513}} {
		g.L("corpus").run(fmt.Sprintf("amf.meta.build %d %d %d %d", v[0], v[1], v[2], v[3]))
	}

	// ---- what lal writes, read back ----
	for i := 0; i < g.scale(1500, 30000); i++ {
		switch r.Intn(4) {
		case 0:
			enc("scalar", g.amfScalar(i%40 == 0))
		default:
			enc("flat-object", g.amfFlatObject(i%25 == 0))
		}
	}
	for i := 0; i < g.scale(20, 300); i++ {
		enc("unwritable", obj(amfKV{g.amfStr(false), g.amfTree(2, true, false)}))
	}

	// ---- valid trees of every kind (harness serialiser) through lal's readers ----
	valid := make([][]byte, 0, 64)
	for i := 0; i < g.scale(3500, 60000); i++ {
		t := g.amfTree(1+r.Intn(6), i%3 == 0, i%60 == 0)
		b := t.encoded()
		kind := t.readerKind()
		if kind == "undef" {
			continue
		}
		if (kind == "obj" || kind == "arr") && r.Intn(4) == 0 {
			kind = "ooa"
		}
		tail := r.Bytes(r.Intn(4))
		dec("valid-"+kind, kind, append(append([]byte{}, b...), tail...))
		if len(b) < 200 && len(valid) < cap(valid) {
			valid = append(valid, b)
		}
	}

	// ---- malformed: every truncation, single-byte mutations, splices, random bytes, marker runs ----
	for i, b := range valid {
		kind := map[byte]string{0: "num", 1: "bool", 2: "str", 3: "obj", 5: "null", 8: "arr", 0x0a: "sarr", 0x0c: "str"}[b[0]]
		if i < g.scale(40, 64) {
			for k := 0; k < len(b); k++ {
				dec("truncated", kind, b[:k])
			}
		}
		for j := 0; j < g.scale(20, 200); j++ {
			m := append([]byte{}, b...)
			m[r.Intn(len(m))] = byte(r.Pick(0, 1, 2, 3, 5, 6, 8, 9, 0x0a, 0x0c, 0x0d, 0xff, r.Intn(256)))
			dec("mutated", kind, m)
		}
		o := valid[r.Intn(len(valid))]
		dec("spliced", kind, append(append([]byte{}, b[:r.Intn(len(b)+1)]...), o[r.Intn(len(o)):]...))
	}
	markers := []byte{0, 1, 2, 3, 5, 6, 8, 9, 0x0a, 0x0c, 0x0d}
	for i := 0; i < g.scale(6000, 120000); i++ {
		n := r.Intn(48)
		b := r.Bytes(n)
		if i%2 == 0 { // marker-rich bytes reach deeper than uniform ones
			for j := range b {
				if r.Intn(3) > 0 {
					b[j] = markers[r.Intn(len(markers))]
				} else if r.Bool() {
					b[j] = byte(r.Intn(3))
				}
			}
		}
		kind := kinds[r.Intn(len(kinds))]
		if len(b) > 0 && r.Intn(3) > 0 {
			b[0] = map[string]byte{"num": 0, "bool": 1, "str": 2, "null": 5, "obj": 3, "arr": 8, "sarr": 0x0a, "ooa": 3}[kind]
		}
		dec("random", kind, b)
	}
	for i := 0; i < g.scale(300, 3000); i++ {
		// runs of nested container markers with random units and a random tail
		var w bytes.Buffer
		depth := 1 + r.Intn(g.scale(60, 2000))
		first := ""
		for d := 0; d < depth; d++ {
			switch r.Intn(3) {
			case 0:
				w.Write([]byte{3, 0, 0})
				if d == 0 {
					first = "obj"
				}
			case 1:
				w.Write([]byte{8, 0, 0, 0, byte(r.Intn(3)), 0, 0})
				if d == 0 {
					first = "arr"
				}
			default:
				w.Write([]byte{0x0a, 0, 0, 0, byte(r.Intn(3))})
				if d == 0 {
					first = "sarr"
				}
			}
		}
		w.Write(r.Bytes(r.Intn(6)))
		dec("marker-run", first, w.Bytes())
	}

	// ---- @setDataFrame ----
	sdfIn := func() []byte {
		var w bytes.Buffer
		switch r.Intn(6) {
		case 0:
			return r.Bytes(r.Intn(24))
		case 1:
			(&amfT{kind: 'S', s: []byte("@setDataFrame")}).enc(&w)
		case 2:
			(&amfT{kind: 'S', s: g.amfStr(r.Intn(10) == 0)}).enc(&w)
		default:
			(&amfT{kind: 'S', s: []byte("@setDataFrame")}).enc(&w)
			(&amfT{kind: 'S', s: []byte("onMetaData")}).enc(&w)
		}
		if r.Intn(3) > 0 {
			(&amfT{kind: 'S', s: []byte("onMetaData")}).enc(&w)
			t := g.amfTree(2, true, false)
			if t.kind != 'O' && t.kind != 'E' {
				t = g.amfFlatObject(false)
			}
			t.enc(&w)
		}
		b := w.Bytes()
		if r.Intn(8) == 0 && len(b) > 0 {
			b = b[:r.Intn(len(b))]
		}
		return b
	}
	for _, h := range []string{"-", "02", "0200", "020000", "02000d40736574446174614672616d65", "02000d40736574446174614672616d6502000a6f6e4d65746144617461030000090102",
		"02000d40736574446174614672616d6500", "02000d40736574446174614672616d45ff", "0c0000000d40736574446174614672616d65aabb", "02000a6f6e4d6574614461746103000009", "05", "0c000000"} {
		for _, op := range []string{"amf.sdf.with", "amf.sdf.without", "amf.sdf.law", "amf.meta.parse"} {
			g.L("corpus").run(op + " " + h)
		}
	}
	for i := 0; i < g.scale(800, 15000); i++ {
		h := hx(sdfIn())
		g.L("gen").run("amf.sdf.with " + h)
		g.L("gen").run("amf.sdf.without " + h)
		g.L("gen").run("amf.sdf.law " + h)
		g.L("gen").run("amf.meta.parse " + h)
	}
	for i := 0; i < g.scale(300, 6000); i++ {
		var v [4]int
		for j := range v {
			switch r.Intn(5) {
			case 0:
				v[j] = -1
			case 1:
				v[j] = r.Pick(0, 1, 7, 10, 12, 1080, 1920, 3840)
			case 2:
				v[j] = int(int64(r.U64()))
			case 3:
				v[j] = int(int64(r.U64()) >> uint(r.Intn(64)))
			default:
				v[j] = r.Intn(10000)
			}
		}
		g.L("gen").run(fmt.Sprintf("amf.meta.build %d %d %d %d", v[0], v[1], v[2], v[3]))
	}
}
