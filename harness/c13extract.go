package main

import (
	"fmt"
	"io/ioutil"
	"path/filepath"
	"regexp"
	"strconv"
	"strings"

	"github.com/q191201771/lal/pkg/base"
	"github.com/q191201771/lal/pkg/gb28181"
	"github.com/q191201771/lal/pkg/rtprtcp"
	"github.com/q191201771/lal/pkg/rtsp"
)

// c13SrcInt reads `name = <int>` from a lal source file (for unexported package variables / constants).
func c13SrcInt(repo, file, name string) (int64, error) {
	b, err := ioutil.ReadFile(filepath.Join(repo, file))
	if err != nil {
		return 0, err
	}
	re := regexp.MustCompile(`(?m)^\s*(?:var\s+|const\s+)?` + regexp.QuoteMeta(name) + `\s*(?:\w+\s*)?=\s*(0x[0-9a-fA-F]+|\d+)`)
	m := re.FindSubmatch(b)
	if m == nil {
		return 0, fmt.Errorf("%s: %s not found", file, name)
	}
	return strconv.ParseInt(string(m[1]), 0, 64)
}

func init() {
	extractors["C13"] = func(repo string) (string, error) {
		var sb strings.Builder
		leanNat(&sb, "rtcpHeaderLength", "rtprtcp.RtcpHeaderLength", rtprtcp.RtcpHeaderLength)
		leanNat(&sb, "rtcpSrMinLength", "rtprtcp.RtcpSrMinLength", rtprtcp.RtcpSrMinLength)
		leanNat(&sb, "rtcpPacketTypeSr", "rtprtcp.RtcpPacketTypeSr", rtprtcp.RtcpPacketTypeSr)
		leanNat(&sb, "rtcpPacketTypeRr", "rtprtcp.RtcpPacketTypeRr", rtprtcp.RtcpPacketTypeRr)
		leanNat(&sb, "rtpFixedHeaderLen", "rtprtcp.RtpFixedHeaderLength", rtprtcp.RtpFixedHeaderLength)
		leanNat(&sb, "maxHttpMsgBodyLength", "rtsp.maxHttpMsgBodyLength (pkg/rtsp/http_message.go)", rtsp.VerifMaxHttpMsgBodyLength)
		for _, x := range [][3]string{
			{"maxUnpackRtpListSize", "pkg/gb28181/gb28181.go", "maxUnpackRtpListSize"},
			{"unpackerItemMaxSize", "pkg/rtsp/rtsp.go", "unpackerItemMaxSize"},
			{"psPackHeader", "pkg/gb28181/ps.go", "psPackStartCodePackHeader"},
			{"psSystemHeader", "pkg/gb28181/ps.go", "psPackStartCodeSystemHeader"},
			{"psProgramStreamMap", "pkg/gb28181/ps.go", "psPackStartCodeProgramStreamMap"},
			{"psAudioStream", "pkg/gb28181/ps.go", "psPackStartCodeAudioStream"},
			{"psVideoStream", "pkg/gb28181/ps.go", "psPackStartCodeVideoStream"},
			{"psPesPrivate2", "pkg/gb28181/ps.go", "psPackStartCodePesPrivate2"},
			{"psPesEcm", "pkg/gb28181/ps.go", "psPackStartCodePesEcm"},
			{"psPesEmm", "pkg/gb28181/ps.go", "psPackStartCodePesEmm"},
			{"psPesPadding", "pkg/gb28181/ps.go", "psPackStartCodePesPadding"},
			{"psPackEnd", "pkg/gb28181/ps.go", "psPackStartCodePackEnd"},
			{"psHikStream", "pkg/gb28181/ps.go", "psPackStartCodeHikStream"},
			{"psPesPsd", "pkg/gb28181/ps.go", "psPackStartCodePesPsd"},
		} {
			v, err := c13SrcInt(repo, x[1], x[2])
			if err != nil {
				return "", err
			}
			leanNat(&sb, x[0], x[1]+" "+x[2], v)
		}
		leanNatList(&sb, "psStreamTypes", "gb28181.StreamTypeH264, H265, AAC, G711A, G711U",
			[]uint64{uint64(gb28181.StreamTypeH264), uint64(gb28181.StreamTypeH265), uint64(gb28181.StreamTypeAAC), uint64(gb28181.StreamTypeG711A), uint64(gb28181.StreamTypeG711U)})
		leanNatList(&sb, "avPacketPts", "base.AvPacketPtG711U, G711A, Avc, Hevc, Aac, Opus",
			[]uint64{uint64(base.AvPacketPtG711U), uint64(base.AvPacketPtG711A), uint64(base.AvPacketPtAvc), uint64(base.AvPacketPtHevc), uint64(base.AvPacketPtAac), uint64(base.AvPacketPtOpus)})
		leanNatList(&sb, "defaultPorts", "base.DefaultHttpPort, Https, Rtmp, Rtsp, Rtmps, Rtsps",
			[]uint64{uint64(base.DefaultHttpPort), uint64(base.DefaultHttpsPort), uint64(base.DefaultRtmpPort), uint64(base.DefaultRtspPort), uint64(base.DefaultRtmpsPort), uint64(base.DefaultRtspsPort)})
		sites, err := c13Sites(repo)
		if err != nil {
			return "", err
		}
		sb.WriteString(sites)
		return sb.String(), nil
	}
}
