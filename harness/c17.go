package main

import (
	"fmt"
	"github.com/q191201771/lal/pkg/hls"
	"io/ioutil"
	"net"
	"net/http"
	"sort"
	"strings"
	"sync"
	"sync/atomic"
	"time"

	"github.com/q191201771/lal/pkg/base"
	"github.com/q191201771/lal/pkg/logic"
	"github.com/q191201771/lal/pkg/rtmp"
	"github.com/q191201771/lal/pkg/rtsp"
)

// C17, L1 part: a REAL logic.Group with static / API relay pull and relay push configured against stub
// origin / targets owned by the harness. A stub is a TCP listener whose accepted connections are PARKED
// until the scenario says what happens to them (complete the RTMP play/publish, close, later end), so the
// three phases of an attempt (started -> attached | refused | failed -> done) are events the harness orders.
// The harness calls Group.Tick itself. After every event it waits until the asynchronous consequences the
// event must have (an attempt reaching its stub, a disposed session's goroutine calling Del...) are visible
// in the group's bookkeeping (hook logic.VerifRelayState), then prints that bookkeeping.

func c17StaticDefaults() (int, int) { return logic.VerifStaticRelayPullDefaults() }

const c17Timeout = 4 * time.Second

type c17Obs struct {
	starts, stops int32
}

func (*c17Obs) CleanupHlsIfNeeded(appName string, streamName string, path string) {}
func (*c17Obs) OnHlsMakeTs(info base.HlsMakeTsInfo)                               {}
func (o *c17Obs) OnRelayPullStart(info base.PullStartInfo)                        { atomic.AddInt32(&o.starts, 1) }
func (o *c17Obs) OnRelayPullStop(info base.PullStopInfo)                          { atomic.AddInt32(&o.stops, 1) }

// c17Stub: listener + parked connection + (after "accept") the server-side session.
type c17Stub struct {
	ln      net.Listener
	addr    string
	pending chan net.Conn
	mu      sync.Mutex
	conn    net.Conn            // parked
	sess    *rtmp.ServerSession // running
	query   string              // raw query of the publish the target saw
	ready   chan error          // play / publish command reached the stub's session
	phase   int                 // 0 idle, 1 parked, 2 attached
}

func c17NewStub() *c17Stub {
	ln, err := net.Listen("tcp", "127.0.0.1:0")
	if err != nil {
		panic(err)
	}
	s := &c17Stub{ln: ln, addr: ln.Addr().String(), pending: make(chan net.Conn, 16)}
	go func() {
		for {
			c, err := ln.Accept()
			if err != nil {
				return
			}
			s.pending <- c
		}
	}()
	return s
}

// rtmp.IServerSessionObserver + IPubSessionObserver of the stub's sessions
func (s *c17Stub) OnRtmpConnect(session *rtmp.ServerSession, opa rtmp.ObjectPairArray) {}
func (s *c17Stub) OnNewRtmpPubSession(session *rtmp.ServerSession) error {
	session.SetPubSessionObserver(s)
	s.mu.Lock()
	s.query = session.RawQuery()
	s.mu.Unlock()
	s.ready <- nil
	return nil
}
func (s *c17Stub) OnNewRtmpSubSession(session *rtmp.ServerSession) error {
	s.ready <- nil
	return nil
}
func (s *c17Stub) OnReadRtmpAvMsg(msg base.RtmpMsg) {}

func (s *c17Stub) park() bool {
	select {
	case c := <-s.pending:
		s.conn = c
		s.phase = 1
		return true
	case <-time.After(c17Timeout):
		return false
	}
}

// accept lets the parked attempt complete its RTMP exchange.
func (s *c17Stub) accept() {
	s.ready = make(chan error, 4)
	s.sess = rtmp.NewServerSession(s, s.conn)
	s.conn = nil
	sess := s.sess
	go func() { _ = sess.RunLoop() }()
	select {
	case <-s.ready:
	case <-time.After(c17Timeout):
	}
}

func (s *c17Stub) closeAll() {
	_ = s.ln.Close()
	if s.conn != nil {
		_ = s.conn.Close()
	}
	if s.sess != nil {
		_ = s.sess.Dispose()
	}
	for {
		select {
		case c := <-s.pending:
			_ = c.Close()
		default:
			return
		}
	}
}

type c17Scn struct {
	g       *logic.Group
	obs     *c17Obs
	origin  *c17Stub
	targets []*c17Stub // sorted by push url, the order of VerifRelayState().Push
	ingest  *c17Stub
	epoch   int64
	url     string

	subs    []*rtmp.ServerSession
	hlsSubs []*hls.SubSession
	pubKind string
	pubR    *rtmp.ServerSession
	pubS    *rtsp.PubSession
	pubC    logic.ICustomizePubSessionContext
	pubCli  *rtmp.PushSession
	pubQ    string
	out     []string
}

func c17NowMs() int64 { return time.Now().UnixNano() / 1e6 }

func (sc *c17Scn) waitFor(what string, f func(st logic.VerifRelayState) bool) logic.VerifRelayState {
	deadline := time.Now().Add(c17Timeout)
	for {
		st := sc.g.VerifRelayState()
		if f(st) {
			return st
		}
		if time.Now().After(deadline) {
			panic("c17: barrier timeout: " + what)
		}
		time.Sleep(200 * time.Microsecond)
	}
}

// settle waits for the asynchronous consequences that MUST follow from the group's current bookkeeping.
func (sc *c17Scn) settle() logic.VerifRelayState {
	st := sc.g.VerifRelayState()
	// a pull attempt was started: it reaches the origin and parks there
	if st.IsSessionPulling && st.PullSessionUk == "" && sc.origin.phase == 0 {
		if !sc.origin.park() {
			panic("c17: pull attempt never reached the origin")
		}
	}
	for i, t := range sc.targets {
		p := st.Push[i]
		if t.phase == 2 && !p.HasSession {
			// the group disposed this push session (stopPushIfNeeded): its goroutine ends with DelRtmpPushSession
			st = sc.waitFor("push del after dispose", func(st logic.VerifRelayState) bool { return !st.Push[i].IsPushing })
			t.phase = 0
			t.sess = nil
			p = st.Push[i]
		}
		if p.IsPushing && !p.HasSession && t.phase == 0 {
			if !t.park() {
				panic("c17: push attempt never reached its target")
			}
		}
	}
	return sc.g.VerifRelayState()
}

// pullDisposedWait: the attached pull session was disposed by the group; its goroutine ends with Del.
func (sc *c17Scn) pullGone() {
	sc.waitFor("pull del", func(st logic.VerifRelayState) bool { return !st.IsSessionPulling })
	sc.origin.phase = 0
	if sc.origin.sess != nil {
		_ = sc.origin.sess.Dispose()
		sc.origin.sess = nil
	}
}

func (sc *c17Scn) state(st logic.VerifRelayState) string {
	b := func(x bool) byte {
		if x {
			return '1'
		}
		return '0'
	}
	var sb strings.Builder
	fmt.Fprintf(&sb, "e%c%c r%d a%d c%d g%c w%c s%c i%c o%c h%d n%d/%d", b(st.StaticEnable), b(st.ApiEnable), st.PullRetryNum, st.AutoStopMs,
		st.StartCount, b(st.IsSessionPulling), b(st.IsSessionPulling && st.PullSessionUk == "" && st.PullingSessionUk != ""), b(st.PullSessionUk != ""),
		b(st.HasInSession), b(st.HasOutSession), st.LastHasOutTs-sc.epoch, atomic.LoadInt32(&sc.obs.starts), atomic.LoadInt32(&sc.obs.stops))
	sb.WriteString(" P")
	for i, p := range st.Push {
		sb.WriteByte(b(p.IsPushing))
		sb.WriteByte(b(p.HasSession))
		if sc.targets[i].phase != 0 && len(sc.targets[i].pending) > 0 {
			sb.WriteByte('x') // a second connection to one target while the first is still there
		}
	}
	if sc.origin.phase != 0 && len(sc.origin.pending) > 0 {
		sb.WriteString(" X") // a second pull connection while the first is still there
	}
	return sb.String()
}

// guard keeps clock-reading events away from the auto-stop threshold so that the few microseconds between the
// harness's clock reading and the group's cannot change the outcome.
func (sc *c17Scn) guard() {
	st := sc.g.VerifRelayState()
	if st.AutoStopMs <= 0 || st.HasOutSession {
		return
	}
	d := c17NowMs() - st.LastHasOutTs
	w := int64(st.AutoStopMs)
	if d >= w-12 && d <= w+3 {
		time.Sleep(time.Duration(w+4-d) * time.Millisecond)
	}
}

func (sc *c17Scn) addPub(kind string) string {
	if sc.pubKind != "" && kind != "x" {
		// a second publisher: refused by the group
	}
	switch {
	case kind == "r":
		s := rtmp.NewServerSession(nil, newRecConn())
		if err := sc.g.AddRtmpPubSession(s); err != nil {
			return "dup"
		}
		sc.pubKind, sc.pubR, sc.pubQ = "r", s, ""
	case strings.HasPrefix(kind, "q"):
		// a publisher over the wire, so that its URL parameters are what a real publish carries
		q := "k=" + c17Str(kind[1:]+".3")
		// the publisher's client and the relay push pack this string in goroutines of their own, where a panic
		// cannot be recovered: make sure first, in this goroutine, that the packer takes it
		if protect(func() string {
			p := rtmp.NewMessagePacker()
			_ = p.VerifWriteConnect(ioutil.Discard, "live", "rtmp://127.0.0.1:1935/live", true)
			_ = p.VerifWritePublish(ioutil.Discard, "live", "s?"+q, 1)
			return "ok"
		}) != "ok" {
			return "packer-panics"
		}
		res := make(chan error, 1)
		var got *rtmp.ServerSession
		ing := &c17Ingest{add: func(s *rtmp.ServerSession) error {
			err := sc.g.AddRtmpPubSession(s)
			if err == nil {
				got = s
			}
			res <- err
			return err
		}}
		cli := rtmp.NewPushSession()
		go func() { _ = cli.Start("rtmp://" + sc.ingest.addr + "/live/s?" + q) }()
		var c net.Conn
		select {
		case c = <-sc.ingest.pending:
		case <-time.After(c17Timeout):
			panic("c17: publisher never connected")
		}
		sess := rtmp.NewServerSession(ing, c)
		go func() { _ = sess.RunLoop() }()
		select {
		case err := <-res:
			if err != nil {
				_ = cli.Dispose()
				return "dup"
			}
		case <-time.After(c17Timeout):
			panic("c17: publish never arrived")
		}
		sc.pubKind, sc.pubR, sc.pubCli, sc.pubQ = "r", got, cli, q
	case kind == "s":
		s := rtsp.NewPubSession(base.UrlContext{}, nil)
		if err := sc.g.AddRtspPubSession(s); err != nil {
			return "dup"
		}
		sc.pubKind, sc.pubS, sc.pubQ = "s", s, ""
	case kind == "c":
		c, err := sc.g.AddCustomizePubSession("s")
		if err != nil {
			return "dup"
		}
		sc.pubKind, sc.pubC, sc.pubQ = "c", c, ""
	}
	return "ok"
}

type c17Ingest struct {
	add func(s *rtmp.ServerSession) error
}

func (i *c17Ingest) OnRtmpConnect(session *rtmp.ServerSession, opa rtmp.ObjectPairArray) {}
func (i *c17Ingest) OnNewRtmpPubSession(session *rtmp.ServerSession) error               { return i.add(session) }
func (i *c17Ingest) OnNewRtmpSubSession(session *rtmp.ServerSession) error {
	return base.ErrRtmpUnexpectedMsg
}

func (sc *c17Scn) delPub() string {
	switch sc.pubKind {
	case "r":
		sc.g.DelRtmpPubSession(sc.pubR)
		if sc.pubCli != nil {
			_ = sc.pubCli.Dispose()
			sc.pubCli = nil
		}
	case "s":
		sc.g.DelRtspPubSession(sc.pubS)
	case "c":
		sc.g.DelCustomizePubSession(sc.pubC)
	default:
		return "-"
	}
	sc.pubKind, sc.pubR, sc.pubS, sc.pubC = "", nil, nil, nil
	return "ok"
}

func c17Run(cfgS, evS string) string {
	static, ntargets := false, 0
	for _, kv := range strings.Split(cfgS, ",") {
		f := strings.SplitN(kv, "=", 2)
		switch f[0] {
		case "st":
			static = f[1] == "1"
		case "pn":
			ntargets = c17Atoi(f[1])
		}
	}
	sc := &c17Scn{obs: &c17Obs{}, origin: c17NewStub(), ingest: c17NewStub()}
	defer sc.origin.closeAll()
	defer sc.ingest.closeAll()
	var lc logic.Config
	lc.RtmpConfig.Enable = true
	lc.StaticRelayPullConfig.Enable = static
	lc.StaticRelayPullConfig.Addr = sc.origin.addr
	for i := 0; i < ntargets; i++ {
		t := c17NewStub()
		defer t.closeAll()
		sc.targets = append(sc.targets, t)
		lc.RelayPushConfig.AddrList = append(lc.RelayPushConfig.AddrList, t.addr)
	}
	lc.RelayPushConfig.Enable = ntargets > 0
	sort.Slice(sc.targets, func(i, j int) bool {
		return "rtmp://"+sc.targets[i].addr+"/live/s" < "rtmp://"+sc.targets[j].addr+"/live/s"
	})
	sc.url = "rtmp://" + sc.origin.addr + "/live/s"
	sc.g = logic.NewGroup("live", "s", &lc, logic.GroupOption{}, sc.obs)
	st0 := sc.g.VerifRelayState()
	sc.epoch = st0.LastHasOutTs
	sc.out = append(sc.out, "init@0~0 "+sc.state(st0))
	defer func() {
		// leave nothing running: end the publisher, fail / end every attempt
		sc.g.StopPull()
		if sc.pubCli != nil {
			_ = sc.pubCli.Dispose()
		}
	}()

	for _, e := range strings.Split(evS, ";") {
		f := strings.Split(e, ":")
		res := "-"
		var t0, t1 int64
		clocked := false
		clock := func(fn func()) {
			sc.guard()
			t0 = c17NowMs() - sc.epoch
			fn()
			t1 = c17NowMs() - sc.epoch
			clocked = true
		}
		before := sc.g.VerifRelayState()
		tStart := c17NowMs() - sc.epoch
		if strings.HasPrefix(f[0], "W") {
			f[0] = "W"
		}
		switch f[0] {
		case "J":
			s := rtmp.NewServerSession(nil, newRecConn())
			sc.subs = append(sc.subs, s)
			clock(func() { sc.g.AddRtmpSubSession(s) })
		case "Jh": // an HLS player (sub-session mode): a consumer like any other
			req, _ := http.NewRequest("GET", "http://127.0.0.1/hls/s.m3u8", nil)
			hs := hls.NewSubSession(req, base.UrlContext{}, "/hls/", "k", 10*time.Second)
			sc.hlsSubs = append(sc.hlsSubs, hs)
			clock(func() { sc.g.AddHlsSubSession(hs) })
		case "Lh":
			if n := len(sc.hlsSubs); n > 0 {
				sc.g.DelHlsSubSession(sc.hlsSubs[n-1])
				sc.hlsSubs = sc.hlsSubs[:n-1]
			}
		case "L":
			if n := len(sc.subs); n > 0 {
				sc.g.DelRtmpSubSession(sc.subs[n-1])
				sc.subs = sc.subs[:n-1]
			}
		case "T":
			clock(func() { sc.g.Tick(1) })
			if sc.origin.phase == 2 {
				// tick stopped the attached pull (stopPull zeroes the start count)? then its goroutine ends
				st := sc.g.VerifRelayState()
				if st.StartCount == 0 {
					if before.StartCount != 0 {
						sc.pullGone()
					} else {
						end := time.Now().Add(60 * time.Millisecond)
						for time.Now().Before(end) {
							if !sc.g.VerifRelayState().IsSessionPulling {
								sc.pullGone()
								break
							}
							time.Sleep(time.Millisecond)
						}
					}
				}
			}
		case "W":
			time.Sleep(time.Duration(c17Atoi(e[1:])) * time.Millisecond)
		case "AS":
			clock(func() {
				_, err := sc.g.StartPull(base.ApiCtrlStartRelayPullReq{Url: sc.url, PullTimeoutMs: 10000,
					PullRetryNum: c17Atoi(f[1]), AutoStopPullAfterNoOutMs: c17Atoi(f[2])})
				switch {
				case err == nil:
					res = "ok"
				case err == base.ErrDupInStream:
					res = "dup"
				case strings.Contains(err.Error(), "not enable"):
					res = "dis"
				case strings.Contains(err.Error(), "auto stop"):
					res = "auto"
				case strings.Contains(err.Error(), "retry limited"):
					res = "lim"
				default:
					res = "err"
				}
			})
		case "AX":
			if sc.g.StopPull() != "" {
				res = "stopped"
			} else {
				res = "none"
			}
			if sc.origin.phase == 2 {
				sc.pullGone()
			}
		case "K":
			id := base.UkPreRtmpPullSession + "999999"
			if f[1] == "c" {
				if before.PullSessionUk != "" {
					id = before.PullSessionUk
				} else if before.IsSessionPulling && before.PullingSessionUk != "" {
					id = before.PullingSessionUk
				}
			}
			if sc.g.KickSession(id) {
				res = "1"
				if sc.origin.phase == 2 {
					sc.pullGone()
				}
			} else {
				res = "0"
			}
		case "OA":
			if sc.origin.phase == 1 {
				sc.origin.accept()
				st := sc.waitFor("pull attach or refuse", func(st logic.VerifRelayState) bool { return st.PullSessionUk != "" || !st.IsSessionPulling })
				if st.PullSessionUk != "" {
					res = "att"
					sc.origin.phase = 2
				} else {
					res = "ref"
					sc.pullGone()
				}
			}
		case "OF":
			if sc.origin.phase == 1 {
				_ = sc.origin.conn.Close()
				sc.origin.conn = nil
				sc.pullGone()
				res = "done"
			}
		case "OE":
			if sc.origin.phase == 2 {
				_ = sc.origin.sess.Dispose()
				sc.pullGone()
				res = "done"
			}
		case "P":
			res = sc.addPub(f[1])
		case "p":
			res = sc.delPub()
		case "QA", "QF", "QE":
			i := c17Atoi(f[1])
			if i >= len(sc.targets) {
				break
			}
			t := sc.targets[i]
			switch {
			case f[0] == "QA" && t.phase == 1:
				t.accept()
				st := sc.waitFor("push attach or refuse", func(st logic.VerifRelayState) bool { return st.Push[i].HasSession || !st.Push[i].IsPushing })
				if st.Push[i].HasSession {
					t.phase = 2
					t.mu.Lock()
					q := t.query
					t.mu.Unlock()
					res = fmt.Sprintf("att,q%d,%v", len(q), q == sc.pubQ)
				} else {
					t.phase = 0
					_ = t.sess.Dispose()
					t.sess = nil
					res = "ref"
				}
			case f[0] == "QF" && t.phase == 1:
				_ = t.conn.Close()
				t.conn = nil
				sc.waitFor("push del after fail", func(st logic.VerifRelayState) bool { return !st.Push[i].IsPushing })
				t.phase = 0
				res = "done"
			case f[0] == "QE" && t.phase == 2:
				_ = t.sess.Dispose()
				t.sess = nil
				sc.waitFor("push del after end", func(st logic.VerifRelayState) bool { return !st.Push[i].IsPushing })
				t.phase = 0
				res = "done"
			}
		}
		if !clocked {
			// events that do not read the clock inside the group: when the call was made
			t0, t1 = tStart, tStart
		}
		st := sc.settle()
		sc.out = append(sc.out, fmt.Sprintf("%s@%d~%d %s", res, t0, t1, sc.state(st)))
	}
	return strings.Join(sc.out, ";")
}

func init() {
	// relay.run <cfg> <events>  =>  per event: result@t0~t1 bookkeeping
	ops["relay.run"] = func(a []string) string { return c17Run(a[0], a[1]) }
	gens["C17"] = genC17
	gens["C17Pack"] = genC17Pack // the message packer part alone (shared with C18: what lal encodes decodes, any length)
}

// ---------------------------------------------------------------------------------------------------------------------

func genC17(g *G) {
	gens["C17Api"](g)
	genC17Pack(g)
	genC17Relay(g)
}

func genC17Relay(g *G) {
	r := g.rng
	run := func(label, cfg string, evs ...string) {
		g.L(label).run("relay.run " + cfg + " " + strings.Join(evs, ";"))
	}
	// --- boundary corpus -------------------------------------------------------------------------------------------
	// S24: API stop / kick while the attempt is still connecting; the origin then answers
	run("corpus-S24", "st=0,pn=0", "J", "AS:-1:-1", "AX", "OA", "T")
	run("corpus-S24", "st=0,pn=0", "J", "AS:3:-1", "K:c", "OA", "T", "OA")
	run("corpus-S24", "st=1,pn=0", "J", "L", "T", "OA", "T")
	// publisher overtakes a pull
	run("corpus-overtake", "st=1,pn=0", "J", "P:r", "OA", "T", "p", "T", "OA", "OE", "T")
	// retry budgets
	for _, n := range []int{0, 1, 3, -1} {
		evs := []string{"J", fmt.Sprintf("AS:%d:-1", n)}
		for i := 0; i < 6; i++ {
			evs = append(evs, "OF", "T")
		}
		evs = append(evs, "AX", "T", fmt.Sprintf("AS:%d:-1", n), "OA", "OE", "T", "OA")
		run(fmt.Sprintf("corpus-retry%d", n), "st=0,pn=0", evs...)
	}
	// auto stop: never / immediately / after 40 ms
	run("corpus-auto-1", "st=0,pn=0", "J", "AS:-1:-1", "OA", "L", "W50", "T", "T")
	run("corpus-auto0", "st=0,pn=0", "J", "AS:-1:0", "OA", "L", "T", "T", "J", "OA")
	run("corpus-auto0", "st=0,pn=0", "AS:-1:0", "J", "OA", "T", "L", "T")
	run("corpus-autoT", "st=0,pn=0", "J", "AS:-1:40", "OA", "T", "L", "T", "W55", "T", "T", "J", "OA", "L", "T", "W55", "T")
	run("corpus-autoT", "st=0,pn=0", "AS:-1:40", "T", "W55", "T", "AS:-1:40", "J", "OA", "L", "J", "L", "T")
	// join and leave between two ticks must restart the window
	run("corpus-window", "st=0,pn=0", "J", "AS:-1:40", "OA", "L", "W55", "J", "L", "T", "W55", "T")
	// API answers
	run("corpus-api", "st=0,pn=0", "AX", "K:b", "K:c", "AS:0:-1", "AS:0:-1", "OA", "AS:0:-1", "AX", "AX", "T", "AS:0:-1", "OF", "AS:0:-1", "P:r", "AS:0:-1")
	// push: one per target, retry on tick, URL parameters, ends with the publisher, in-flight at publisher end
	// budget used up, then stop with nothing left to stop, then start again: the stop resets the budget
	run("corpus-budget-reset", "st=0,pn=0", "J", "AS:0:-1", "OF", "T", "AS:0:-1", "AX", "AS:0:-1", "OF", "AX", "T", "AS:0:-1", "OA")
	run("corpus-budget-reset", "st=0,pn=0", "J", "AS:1:-1", "OF", "T", "OF", "T", "AS:1:-1", "AX", "AX", "AS:1:-1", "OF", "T", "OA")
	// HLS players are consumers too: they keep a pull alive, start one, and their departure starts the auto-stop window
	run("corpus-hls-consumer", "st=1,pn=0", "Jh", "OA", "T", "Lh", "T", "T")
	run("corpus-hls-consumer", "st=0,pn=0", "Jh", "AS:-1:0", "OA", "T", "Lh", "T")
	run("corpus-hls-consumer", "st=0,pn=0", "Jh", "AS:-1:40", "OA", "T", "W55", "T", "Lh", "T", "W55", "T")
	run("corpus-hls-consumer", "st=0,pn=0", "AS:-1:0", "Jh", "OA", "T", "J", "Lh", "T", "L", "T")
	run("corpus-push", "st=0,pn=2", "P:r", "T", "QA:0", "QF:1", "T", "QA:1", "T", "p", "T")
	run("corpus-push", "st=0,pn=1", "P:q10", "QA:0", "QE:0", "T", "QA:0", "p")
	run("corpus-push", "st=0,pn=1", "P:s", "QA:0", "p", "P:c", "T", "p", "T")
	run("corpus-push-late", "st=0,pn=1", "P:r", "p", "QA:0", "T", "P:r", "QA:0")
	run("corpus-push-late", "st=0,pn=1", "P:r", "p", "P:r", "QA:0", "p")
	run("corpus-push-late", "st=0,pn=1", "P:q20", "p", "P:r", "QA:0", "p") // the push carries the FIRST publisher's parameters
	for _, n := range []int{200, 460, 480, 1000, 3000} {
		run("corpus-push-q", "st=0,pn=1", fmt.Sprintf("P:q%d", n), "QA:0", "p")
	}
	// push session counts as a consumer for auto stop; pull input never pushes
	run("corpus-pull-nopush", "st=1,pn=1", "J", "OA", "T", "OE", "T")

	// --- random scenarios ------------------------------------------------------------------------------------------
	// The generator keeps a rough picture of the group (is an attempt parked at the origin, is a session attached,
	// which targets hold a parked / attached push) only to pick events that mean something most of the time; the
	// picture is never compared with anything and wrong guesses just produce no-op events.
	for i := 0; i < g.scale(220, 6000); i++ {
		static := r.Intn(3) == 0
		pn := r.Pick(0, 0, 1, 2)
		cfg := fmt.Sprintf("st=%d,pn=%d", map[bool]int{false: 0, true: 1}[static], pn)
		var evs []string
		timed := r.Intn(5) == 0 // scenarios with real waits are kept rare: they cost wall-clock time
		n := 5 + r.Intn(16)
		waits := 0
		pull := 0 // 0 idle, 1 parked, 2 attached
		api, pub, pushSrc := false, false, false
		subs := 0
		tp := make([]int, pn)
		mayStart := func() {
			if pull == 0 && (static || api) && !pub {
				pull = 1
			}
		}
		pushStart := func() {
			if pushSrc {
				for k := range tp {
					if tp[k] == 0 {
						tp[k] = 1
					}
				}
			}
		}
		for j := 0; j < n; j++ {
			x := r.Intn(100)
			switch {
			case pull == 1 && x < 30:
				if r.Intn(3) == 0 {
					evs = append(evs, "OF")
					pull = 0
				} else {
					evs = append(evs, "OA")
					if pub {
						pull = 0
					} else {
						pull = 2
					}
				}
				continue
			case pull == 2 && x < 12:
				evs = append(evs, "OE")
				pull = 0
				continue
			}
			parked, attached := -1, -1
			for k := range tp {
				if tp[k] == 1 {
					parked = k
				}
				if tp[k] == 2 {
					attached = k
				}
			}
			switch {
			case parked >= 0 && x < 45:
				if r.Intn(4) == 0 {
					evs = append(evs, fmt.Sprintf("QF:%d", parked))
					tp[parked] = 0
				} else {
					evs = append(evs, fmt.Sprintf("QA:%d", parked))
					if pushSrc {
						tp[parked] = 2
					} else {
						tp[parked] = 0
					}
				}
				continue
			case attached >= 0 && x < 52:
				evs = append(evs, fmt.Sprintf("QE:%d", attached))
				tp[attached] = 0
				continue
			}
			switch y := r.Intn(40); {
			case y < 6:
				evs = append(evs, "J")
				subs++
				mayStart()
			case y < 10:
				evs = append(evs, "L")
				if subs > 0 {
					subs--
				}
			case y < 18:
				evs = append(evs, "T")
				mayStart()
				pushStart()
			case y < 22:
				auto := r.Pick(-1, -1, 0)
				if timed {
					auto = r.Pick(-1, 0, 40, 40, 40)
				}
				evs = append(evs, fmt.Sprintf("AS:%d:%d", r.Pick(0, 1, 3, -1), auto))
				api = true
				mayStart()
			case y < 25:
				evs = append(evs, "AX")
				api = false
				if pull == 2 {
					pull = 0
				}
			case y < 27:
				evs = append(evs, "K:"+string(rune(r.Pick('c', 'c', 'b'))))
			case y < 32:
				k := []string{"r", "r", "s", "c", "q20", "q300"}[r.Intn(6)]
				evs = append(evs, "P:"+k)
				if !pub && pull != 2 {
					pub = true
					pushSrc = k != "c"
					pushStart()
				}
			case y < 35:
				evs = append(evs, "p")
				if pub {
					pub, pushSrc = false, false
					for k := range tp {
						if tp[k] == 2 {
							tp[k] = 0
						}
					}
				}
			case y < 37:
				if timed && waits < 3 {
					evs = append(evs, fmt.Sprintf("W%d", r.Pick(5, 55, 55)))
					waits++
				} else {
					evs = append(evs, "T")
					mayStart()
					pushStart()
				}
			case y < 38:
				evs = append(evs, []string{"OA", "OF", "OE"}[r.Intn(3)]) // possibly meaningless: must be a no-op on both sides
			default:
				evs = append(evs, fmt.Sprintf("Q%c:%d", r.Pick('A', 'F', 'E'), r.Intn(2)))
			}
		}
		label := "random"
		if timed {
			label = "random-timed"
		}
		run(label, cfg, evs...)
	}
	// timed patterns: leave, wait around the window, tick; join-and-leave between ticks
	for i := 0; i < g.scale(12, 300); i++ {
		evs := []string{"J", fmt.Sprintf("AS:%d:40", r.Pick(-1, 3)), "OA"}
		for j := 0; j < 2+r.Intn(3); j++ {
			switch r.Intn(4) {
			case 0:
				evs = append(evs, "L", fmt.Sprintf("W%d", r.Pick(5, 55)), "T")
			case 1:
				evs = append(evs, "L", "W55", "J", "L", "T")
			case 2:
				evs = append(evs, "T", "L", "T", "W55", "T", "J", "OA")
			default:
				evs = append(evs, "W55", "T", "J", "OA", "L")
			}
		}
		run("timed-pattern", "st=0,pn=0", evs...)
	}
}
