import LalModel.Props.C01
#print axioms Lal.Props.C01.rtmp_sub_contiguous
#print axioms Lal.Props.C01.flv_sub_contiguous
#print axioms Lal.Props.C01.pubLog_is_published
#print axioms Lal.Props.C01.live_part_decodes_rtmp
#print axioms Lal.Props.C01.push_form_decodes
#print axioms Lal.Props.C01.live_part_decodes_flv
#print axioms Lal.Props.C01.recording_contiguous
#print axioms Lal.Props.C01.zero_len_dropped
