import LalModel.Props.C01
#print axioms Lal.Props.C01.rtmp_sub_contiguous
#print axioms Lal.Props.C01.zero_len_dropped
