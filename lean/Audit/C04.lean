import LalModel.Props.C04
#print axioms Lal.Props.C04.rtmp_session_total
#print axioms Lal.Props.C04.handshake_offsets_in_range
#print axioms Lal.Props.C04.domsg_total
#print axioms Lal.Props.C04.deliver_total
#print axioms Lal.Props.C04.handlers_total
#print axioms Lal.Props.C04.publish_play_total
#print axioms Lal.Props.C04.stack_bounded
#print axioms Lal.Props.C04.packer_total
#print axioms Lal.Props.C04.replies_single_chunk
#print axioms Lal.Props.C04.reply_csids_single_byte
#print axioms Lal.Props.C04.constants_as_modelled
#print axioms Lal.Props.C04.sites_covered
