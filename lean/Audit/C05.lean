import LalModel.Props.C05
#print axioms Lal.Props.C05.classify_total
#print axioms Lal.Props.C05.seqheader_total
#print axioms Lal.Props.C05.gopcache_total
#print axioms Lal.Props.C05.gopcache_mpegts_total
#print axioms Lal.Props.C05.ts_remux_total
#print axioms Lal.Props.C05.dummy_steps_bounded
#print axioms Lal.Props.C05.dummy_bound_value
#print axioms Lal.Props.C05.dummy_stage_bounded
#print axioms Lal.Props.C05.dummy_loop_budget
#print axioms Lal.Props.C05.dummy_pinned_never_ends
#print axioms Lal.Props.C05.dummy_pinned_linear
#print axioms Lal.Props.C05.rtsp_remux_total
#print axioms Lal.Props.C05.broadcast_total
#print axioms Lal.Props.C05.broadcast_step_total
#print axioms Lal.Props.C05.broadcast_steps_bounded_partial
#print axioms Lal.Props.C05.opaque_forward_partial
