import LalModel.Props.C10
#print axioms Lal.Props.C10.target_ge_rounded
#print axioms Lal.Props.C10.hls_consistent_prefix
#print axioms Lal.Props.C10.delete_threshold_retention
#print axioms Lal.Props.C10.media_sequence_monotone
#print axioms Lal.Props.C10.segment_whole_packets
#print axioms Lal.Props.C10.ring_index_inv
#print axioms Lal.Props.C10.cleanup_spares_live
#print axioms Lal.Props.C10.ended_on_dispose
#print axioms Lal.Props.C10.segments_partition_ts
#print axioms Lal.Props.C10.record_lists_all
