import LalModel.Props.C12
#print axioms Lal.Props.C12.consts_agree
#print axioms Lal.Props.C12.compareSeq_spec
#print axioms Lal.Props.C12.compareSeq_half
#print axioms Lal.Props.C12.compareSeq_antisymm
#print axioms Lal.Props.C12.compareSeq_window
#print axioms Lal.Props.C12.subSeq_one
#print axioms Lal.Props.C12.seq_succ
#print axioms Lal.Props.C12.marker_last
#print axioms Lal.Props.C12.ts_rate
#print axioms Lal.Props.C12.fu_size
#print axioms Lal.Props.C12.fu_roundtrip_avc
#print axioms Lal.Props.C12.fu_roundtrip_hevc
#print axioms Lal.Props.C12.aac_roundtrip
#print axioms Lal.Props.C12.raw_roundtrip
#print axioms Lal.Props.C12.fu_roundtrip_lal
#print axioms Lal.Props.C12.reorder_invariant
#print axioms Lal.Props.C12.first_arrival_matters
