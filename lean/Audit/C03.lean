import LalModel.Props.C03
#print axioms Lal.Props.C03.at_most_one_input
#print axioms Lal.Props.C03.refusal_is_silent
#print axioms Lal.Props.C03.refused_publisher_is_disconnected
#print axioms Lal.Props.C03.foreign_departure_harmless
#print axioms Lal.Props.C03.no_forward_from_non_input
#print axioms Lal.Props.C03.stat_lists_attached_only
#print axioms Lal.Props.C03.attached_is_registered
#print axioms Lal.Props.C03.notify_paired
#print axioms Lal.Props.C03.refused_contributes_nothing
#print axioms Lal.Props.C03.pull_attempt_one_stop
