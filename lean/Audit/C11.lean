import LalModel.Props.C11
#print axioms Lal.Props.C11.tag_roundtrip_spec
#print axioms Lal.Props.C11.tag_roundtrip_lal
#print axioms Lal.Props.C11.file_roundtrip
#print axioms Lal.Props.C11.ws_unit_is_one_frame
#print axioms Lal.Props.C11.ws_header_form
#print axioms Lal.Props.C11.ws_stream_is_flv_stream
