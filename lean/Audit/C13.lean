import LalModel.Props.C13
#print axioms Lal.Props.C13.rtp_header_total
#print axioms Lal.Props.C13.rtp_body_total
#print axioms Lal.Props.C13.rtp_boundary_total
#print axioms Lal.Props.C13.rtcp_parse_total
#print axioms Lal.Props.C13.unpack_total
#print axioms Lal.Props.C13.insession_total
#print axioms Lal.Props.C13.rtsp_session_total
#print axioms Lal.Props.C13.rtsp_msg_total
#print axioms Lal.Props.C13.ws_total
#print axioms Lal.Props.C13.ws_bounded
#print axioms Lal.Props.C13.ps_body_total
#print axioms Lal.Props.C13.ps_feed_total
#print axioms Lal.Props.C13.url_total
#print axioms Lal.Props.C13.consts_agree
#print axioms Lal.Props.C13.sites_covered
