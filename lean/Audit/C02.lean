import LalModel.Props.C02
#print axioms Lal.Props.C02.gop_ring_refines
#print axioms Lal.Props.C02.gop_replay_bounded
#print axioms Lal.Props.C02.prologue_is_headers_then_gops
#print axioms Lal.Props.C02.joiner_waits_iff_video_known
#print axioms Lal.Props.C02.waiting_holds_only_headers
#print axioms Lal.Props.C02.cached_gops_start_with_key_frame
#print axioms Lal.Props.C02.ts_gop_cache_is_queue
