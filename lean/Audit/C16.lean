import LalModel.Props.C16
#print axioms Lal.Props.C16.clean_restart
#print axioms Lal.Props.C16.restart_keeps_invariant
#print axioms Lal.Props.C16.recording_finalised_once
#print axioms Lal.Props.C16.ts_cache_clean_after_input_ends
