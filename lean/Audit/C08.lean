import LalModel.Props.C08
#print axioms Lal.Props.C08.enc_dec_spec
#print axioms Lal.Props.C08.dec_legal
#print axioms Lal.Props.C08.enc_dec_lal
#print axioms Lal.Props.C08.enc_empty
#print axioms Lal.Props.C08.enc_shape
