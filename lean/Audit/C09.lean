import LalModel.Props.C09
#print axioms Lal.Props.C09.pack_188
#print axioms Lal.Props.C09.pack_demux
#print axioms Lal.Props.C09.pack_cc
#print axioms Lal.Props.C09.pack_cc_across_frames
#print axioms Lal.Props.C09.pack_pusi
#print axioms Lal.Props.C09.pack_count
#print axioms Lal.Props.C09.crc_table_eq_bitwise
#print axioms Lal.Props.C09.pat_pmt_valid
