import Driver.Common
import LalModel.Model.PackerBuf
import LalModel.Model.Relay
import LalModel.Spec.PackerSpec
import LalModel.Spec.RelaySpec
/- Driver handlers for C17: pkb.grow, pkb.seq, pk.seq (L0, rtmp.Buffer / MessagePacker), relay.run (L1, logic.Group) -/
open Lal Drv

namespace Drv.C17
open Lal.PackerBuf Lal.Relay

def int! (s : String) : Int := s.toInt?.getD 0

/-- the string "len.seed" stands for (harness: c17Str) -/
def strOf (spec : String) : Bytes :=
  match splitOnChar spec '.' with
  | [n, seed] => (List.range (nat! n)).map fun i => b8 (97 + (i * 7 + nat! seed) % 26)
  | _ => []

/-- payload of the k-th buffer write (harness: c17Pat) -/
def patOf (k n : Nat) : Bytes := (List.range n).map fun i => b8 ((k * 31 + i) % 251)

def showGeom (b : PBuf) : String := s!"{b.core.length} {b.readPos} {b.writePos}"

/-! ### pkb.seq -/

def bufSeq : List String → Nat → PBuf → GoM PBuf
  | [], _, b => .ok b
  | op :: ops, k, b =>
    let arg := nat! (op.drop 1).toString
    if op.startsWith "w" then do let b ← b.write (patOf (k + 1) arg); bufSeq ops (k + 1) b
    else if op.startsWith "b" then do let b ← b.writeByte (b8 (k + 1)); bufSeq ops (k + 1) b
    else if op.startsWith "m" then bufSeq ops k (b.modWritePos arg)
    else if op.startsWith "r" then bufSeq ops k b.reset
    else bufSeq ops k b

def specSeq : List String → Nat → PackerSpec.SBuf → PackerSpec.SBuf
  | [], _, b => b
  | op :: ops, k, b =>
    let arg := nat! (op.drop 1).toString
    if op.startsWith "w" then specSeq ops (k + 1) (b.put (patOf (k + 1) arg))
    else if op.startsWith "b" then specSeq ops (k + 1) (b.put [b8 (k + 1)])
    else if op.startsWith "m" then specSeq ops k { b with wp := arg }
    else if op.startsWith "r" then specSeq ops k { b with rp := 0, wp := 0 }
    else specSeq ops k b

/-! ### pk.seq -/

structure PackItem where
  model : GoM (Bytes × PBuf)
  csid : Nat
  sid : Nat
  want : List Amf0.Amf

def packItem (b : PBuf) (it : String) : Option PackItem :=
  match splitOnChar it ':' with
  | ["c", app, tc, push] =>
    let fv := if push == "1" then Gen.flashVerPush else PackerSpec.str "LNX 9,0,124,2"
    some { model := writeConnect b (strOf app) (strOf tc) (push == "1"), csid := 3, sid := 0,
           want := PackerSpec.connectCmd (strOf app) (strOf tc) fv }
  | ["P", _app, name, sid] =>
    some { model := writePublish b (strOf name) (nat! sid), csid := 5, sid := nat! sid, want := PackerSpec.publishCmd 3 (strOf name) }
  | ["l", name, sid] =>
    some { model := writePlay b (strOf name) (nat! sid), csid := 5, sid := nat! sid, want := PackerSpec.playCmd 3 (strOf name) }
  | _ => none

/-- model outputs and oracle verdicts, item by item, on one packer -/
def packSeq : List String → List String → PBuf → List String → List String → (List String × List String × Option PBuf)
  | [], _, b, outs, vs => (outs, vs, some b)
  | it :: its, impls, b, outs, vs =>
    match packItem b it with
    | none => (outs ++ ["bad-op"], vs, some b)
    | some pi =>
      let implHex := impls.headD ""
      let v := if implHex == "panic" || implHex == "err" then "bad:packer-fails"
               else if PackerSpec.commandOk Gen.localChunkSize (hex! implHex) pi.csid pi.sid pi.want then "ok"
               else "bad:peer-cannot-read-command"
      match pi.model with
      | .ok (wire, b') => packSeq its (impls.drop 1) b' (outs ++ [Hex.ofBytes wire]) (vs ++ [v])
      | .error _ => (outs ++ ["panic"], vs ++ [v], none)

/-! ### relay.run -/

def bit (b : Bool) : String := if b then "1" else "0"

def showState (s : State) : String :=
  let push := String.join (s.push.map fun p => bit p.isPushing ++ bit p.session.isSome)
  s!"e{bit s.pull.staticEnable}{bit s.pull.apiEnable} r{s.pull.retryNum} a{s.pull.autoStopMs} c{s.pull.startCount} " ++
  s!"g{bit s.pull.pulling} w{bit s.connecting} s{bit s.hasPull} i{bit s.hasIn} o{bit s.hasOut} h{s.pull.lastHasOut} " ++
  s!"n{s.pullStarts}/{s.pullStops} P{push}"

/-- the bookkeeping the implementation printed -/
def parseSnap (t : String) : RelaySpec.Snap :=
  let fs := (t.splitOn " ").filter (· != "")
  let get (pre : String) : String := ((fs.find? (·.startsWith pre)).map fun f => (f.drop pre.length).toString).getD ""
  let e := (get "e").toList
  let n := (get "n").splitOn "/"
  let pbits := ((get "P").toList.filter (· != 'x')).map (· == '1')
  let rec pairs : List Bool → List (Bool × Bool)
    | a :: b :: r => (a, b) :: pairs r
    | _ => []
  { static := e.getD 0 '0' == '1', api := e.getD 1 '0' == '1', retry := int! (get "r"), auto := int! (get "a"), count := nat! (get "c"),
    pulling := get "g" == "1", wanted := get "w" == "1", attached := get "s" == "1", hasIn := get "i" == "1", hasOut := get "o" == "1",
    lastOut := int! (get "h"), starts := nat! (n.getD 0 "0"), stops := nat! (n.getD 1 "0"), push := pairs pbits,
    extra := (get "P").contains 'x' || fs.contains "X" }

/-- one token of the implementation's output: `res@t0~t1 state` -/
def parseToken (ev : String) (tok : String) : RelaySpec.Step :=
  let (head, st) := match tok.splitOn " " with
    | h :: rest => (h, String.intercalate " " rest)
    | [] => ("", "")
  let (res, times) := match head.splitOn "@" with
    | [r, t] => (r, t)
    | _ => (head, "0~0")
  let (t0, t1) := match times.splitOn "~" with
    | [a, b] => (int! a, int! b)
    | _ => (0, 0)
  { ev := splitOnChar ev ':', res := res, t0 := t0, t1 := t1, snap := parseSnap st }

/-- the connecting attempt parked at the origin, if any -/
def parkedPull (s : State) : Option Nat := if s.pull.attached.isNone then s.pullLive.head? else none

def parkedPush (s : State) (t : Nat) : Option Nat :=
  match s.push[t]? with
  | some p => if p.session.isNone then p.live.head? else none
  | none => none

/-- after an event: the goroutines of sessions the group disposed end (the harness waits for exactly that) -/
def settle (s : State) (obs : List Obs) : State :=
  obs.foldl (fun s o => match o with
    | .disposePull id => (step s (.pullDone id)).1
    | .disposePush t id => (step s (.pushDone t id)).1
    | _ => s) s

def startErrTok : StartErr → String
  | .dupIn => "dup" | .pulling => "dup" | .notEnable => "dis" | .autoStop => "auto" | .retryLimited => "lim"

/-- run one harness event on the model at clock value `now`: the answer token and the state afterwards.
    `q` = URL parameter length remembered per push id (for the forwarded-parameters answer). -/
def runEvent (s : State) (q : List (Nat × Nat)) (ev : List String) (now : Int) : String × State × List (Nat × Nat) :=
  let noteQ (obs : List Obs) := obs.foldl (fun q o => match o with | .startPush _ id n => (id, n) :: q | _ => q) q
  let fin (res : String) (r : State × List Obs) := (res, settle r.1 r.2, noteQ r.2)
  match ev with
  | ["J"] => fin "-" (step s (.subJoin now))
  | ["L"] => if s.subs > 0 then fin "-" (step s .subLeave) else ("-", s, q)
  | ["T"] => fin "-" (step s (.tick now))
  | ["AS", r, a] =>
    let (s', obs) := step s (.apiStart (int! r) (int! a) now)
    let res := (obs.findSome? fun o => match o with
      | .apiStart (.ok _) => some "ok" | .apiStart (.error e) => some (startErrTok e) | _ => none).getD "?"
    fin res (s', obs)
  | ["AX"] =>
    let (s', obs) := step s .apiStop
    let res := (obs.findSome? fun o => match o with
      | .apiStop (some _) => some "stopped" | .apiStop none => some "none" | _ => none).getD "?"
    fin res (s', obs)
  | ["K", which] =>
    let id := if which == "c" then
                match s.pull.attached with
                | some id => id
                | none => if s.pull.pulling then s.pull.pullingId.getD 999999 else 999999
              else 999999
    let (s', obs) := step s (.kick id)
    fin (if obs.contains (.kick true) then "1" else "0") (s', obs)
  | ["OA"] =>
    match parkedPull s with
    | some id =>
      let (s', obs) := step s (.pullAttach id)
      if obs.contains (.pullAttached id) then fin "att" (s', obs) else fin "ref" (s', obs)
    | none => ("-", s, q)
  | ["OF"] =>
    match parkedPull s with
    | some id => fin "done" (step s (.pullDone id))
    | none => ("-", s, q)
  | ["OE"] =>
    match s.pull.attached with
    | some id => fin "done" (step s (.pullDone id))
    | none => ("-", s, q)
  | ["P", k] =>
    let p : Pub := if k == "r" then .rtmp 0 else if k.startsWith "q" then .rtmp (nat! (k.drop 1).toString + 2)
                   else if k == "s" then .rtsp else .other
    let (s', obs) := step s (.pubArrive p)
    fin (if obs.contains .pubAccepted then "ok" else "dup") (s', obs)
  | ["p"] => if s.pub.isSome then fin "ok" (step s .pubLeave) else ("-", s, q)
  | [kind, ts] =>
    let t := nat! ts
    if kind == "QA" then
      match parkedPush s t with
      | some id =>
        let (s', obs) := step s (.pushAttach t id)
        if obs.contains (.pushAttached t id) then
          let n := ((q.find? (·.1 == id)).map (·.2)).getD 0
          let cur := match s.pub with | some (.rtmp n) => n | _ => 0
          fin s!"att,q{n},{decide (n = cur)}" (s', obs)
        else fin "ref" (s', obs)
      | none => ("-", s, q)
    else if kind == "QF" then
      match parkedPush s t with
      | some id => fin "done" (step s (.pushDone t id))
      | none => ("-", s, q)
    else if kind == "QE" then
      match s.push[t]?.bind (·.session) with
      | some id => fin "done" (step s (.pushDone t id))
      | none => ("-", s, q)
    else ("-", s, q)
  | _ => ("-", s, q)

/-- whether the event reads the clock inside the group -/
def clocked (ev : List String) : Bool :=
  match ev.headD "" with
  | "J" | "T" | "AS" => true
  | _ => false

def rawState (tok : String) : String :=
  match tok.splitOn " " with
  | _ :: rest => String.intercalate " " rest
  | [] => ""

def relayRun (static : Bool) (targets : Nat) (evs : List String) (impl : List (RelaySpec.Step × String)) : List String :=
  let rec go : List String → List (RelaySpec.Step × String) → State → List (Nat × Nat) → List String → List String
    | [], _, _, _, acc => acc
    | e :: es, steps, s, q, acc =>
      let (st, raw) := steps.headD default
      let ev := if e.startsWith "W" then ["W"] else splitOnChar e ':'
      -- `time.Now()` inside the event lies between the harness's two clock readings; when the group wrote it into
      -- lastHasOutTs the harness read it back. The model is run at each candidate and keeps the one the
      -- implementation agrees with (they only differ when a threshold lies between the two readings).
      let cands : List Int :=
        if clocked ev then
          (if st.t0 ≤ st.snap.lastOut ∧ st.snap.lastOut ≤ st.t1 then [st.snap.lastOut] else []) ++ [st.t0, st.t1]
        else [st.t0]
      let outs := cands.map fun now => runEvent s q ev now
      let (res, s', q') := (outs.find? fun (res, s', _) => res == st.res && showState s' == raw).getD (outs.headD ("-", s, q))
      go es (steps.drop 1) s' q' (acc ++ [s!"{res}@{st.t0}~{st.t1} {showState s'}"])
  let s0 := init static targets 0
  go evs (impl.drop 1) s0 [] [s!"init@0~0 {showState s0}"]

def parseCfg (cfg : String) : Bool × Nat :=
  (splitOnChar cfg ',').foldl (fun (acc : Bool × Nat) kv =>
    match splitOnChar kv '=' with
    | ["st", v] => (v == "1", acc.2)
    | ["pn", v] => (acc.1, nat! v)
    | _ => acc) (false, 0)

def handleC17 : Handler := fun comp a impl =>
  match comp, a with
  | "relay.api", [retry, auto] =>
    -- the HTTP layer: a field given in the request body is used as given (0 = "never retry" / "stop immediately" included),
    -- an absent one takes the documented default (never retry, never stop automatically); the answer reports whether an
    -- attempt was started (no consumer: with auto-stop 0 none may start)
    let ival (s : String) : Int := if s.startsWith "-" then - Int.ofNat (nat! (s.drop 1).toString) else Int.ofNat (nat! s)
    let r : Int := if retry == "-" then Gen.pullRetryNumNever else ival retry
    let au : Int := if auto == "-" then Gen.autoStopNever else ival auto
    -- no consumer on the stream: "immediately" (0) means no attempt at all, "never" (< 0) an attempt; a positive window
    -- counts from the creation of the group, which the request has just caused: with a window of a few milliseconds the
    -- outcome depends on the scheduler (no claim, the answer is echoed), with a long one the attempt starts
    let timing := au > 0 && au < 10000
    let started := au < 0 || au ≥ 10000
    let implCode := impl.splitOn " " |>.headD "" |>.drop 5 |>.toString
    let code := if timing then implCode else if started then "0" else implCode
    let model := s!"code={code} api=1 retry={r} auto={au}"
    let v := if impl == "http-error" then "bad:api-did-not-answer"
      else if (impl.splitOn s!" retry={r} auto={au}").length != 2 then "bad:start-relay-pull-does-not-use-the-values-given"
      else if timing then "ok"
      else if !started && impl.startsWith "code=0 " then "bad:api-reports-a-started-pull-that-the-rule-forbids"
      else if started && !impl.startsWith "code=0 " then "bad:api-refuses-a-pull-the-rule-allows"
      else "ok"
    some { model := model, verdict := v }
  | "pkb.grow", [cap, wp, n] =>
    let b := (newBuffer (nat! cap)).modWritePos (nat! wp)
    let model := match b.grow (nat! n) with
      | .ok b' => showGeom b'
      | .error _ => "panic"
    -- oracle: after grow(n) the capacity left after the write position is at least n, positions unchanged
    let v := if nat! wp > nat! cap then "na" else
      match (impl.splitOn " ").map nat! with
      | [c, r, w] => if impl == "panic" then "bad:grow-panics" else if r == 0 && w == nat! wp && c ≥ w + nat! n then "ok" else "bad:grow-does-not-fit"
      | _ => "bad:grow-panics"
    some { model := model, verdict := v }
  | "pkb.seq", [cap, ops] =>
    let opl := splitOnChar ops ','
    let model := match bufSeq opl 0 (newBuffer (nat! cap)) with
      | .ok b => (match b.bytes with
          | .ok bs => showGeom b ++ " " ++ Hex.ofBytes bs
          | .error _ => "panic")
      | .error _ => "panic"
    let sb := specSeq opl 0 {}
    let v := match sb.content with
      | none => "na"
      | some want =>
        if impl == "panic" then (if opl.any (·.startsWith "m") then "na" else "bad:buffer-panics")
        else if ((impl.splitOn " ").getD 3 "") == Hex.ofBytes want then "ok" else "bad:buffer-content-differs"
    some { model := model, verdict := v }
  | "pk.seq", [items] =>
    let impls := impl.splitOn "|"
    let (outs, vs, b) := packSeq (splitOnChar items ';') impls newPacker [] []
    let capS := match b with
      | some b => s!"|cap={b.core.length}"
      | none => ""
    let model := if outs.contains "panic" then "panic" else String.intercalate "|" outs ++ capS
    let v := if impl == "panic" then "bad:packer-panics" else (vs.find? (·.startsWith "bad")).getD "ok"
    some { model := model, verdict := v }
  | "relay.run", [cfg, evs] =>
    let (static, targets) := parseCfg cfg
    -- `Jh` / `Lh`: an HLS player joins / leaves; to the rule a consumer is a consumer whatever its protocol
    let evl := (splitOnChar evs ';').map fun e => if e == "Jh" then "J" else if e == "Lh" then "L" else e
    if impl == "panic" then some { model := "model-does-not-panic", verdict := "bad:harness-barrier-or-panic" } else
    let toks := impl.splitOn ";"
    let steps := (("init" :: evl).zip toks).map fun (e, t) => (parseToken e t, rawState t)
    let outs := relayRun static targets evl steps
    let v := match steps.map (·.1) with
      | s0 :: rest => RelaySpec.monitor s0.snap rest
      | [] => "bad:no-output"
    some { model := String.intercalate ";" outs, verdict := v }
  | _, _ => none

end Drv.C17
