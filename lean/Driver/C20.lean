import Driver.Common
import LalModel.Spec.SyncSpec
/- Driver handlers for C20: sync.scenario, sync.pair, sync.race, sync.lateadd.
   The "model output" is what the theorems predict of every run: the scenario completes (`done`), every lock pair
   observed at run time is in the extracted acquired-while-holding table, and no data race is reported. -/
open Lal Drv

namespace Drv.C20
open Lal.SyncSpec

def lockId (n : String) : Option Nat :=
  let i := Lal.Gen.C20.lockNames.idxOf n
  if i < Lal.Gen.C20.lockNames.length then some i else none

def handleC20 : Handler := fun comp a impl =>
  match comp, a with
  | "sync.scenario", [_mode, _seed, _dur, _actors] =>
    some { model := "done", verdict := if impl == "done" then "ok" else "bad:" ++ impl }
  | "sync.pair", [h, l] =>
    match lockId h, lockId l with
    | some ih, some il =>
      if edges.contains (ih, il) then some { model := "held", verdict := "ok" }
      else some { model := "absent-from-holds-table", verdict := "na" }
    | _, _ => some { model := "unknown-lock-class", verdict := "na" }
  | "sync.lateadd", [_kind] =>
    some { model := "ok", verdict := if impl == "ok" then "ok" else "bad:abort-in-admission-after-dispose" }
  | "sync.latertp", [] =>
    some { model := "ok", verdict := if impl == "ok" then "ok" else "bad:abort-on-rtp-after-publisher-removed" }
  | "sync.race", [_seed, _dur, _actors, _a, _b] =>
    some { model := "norace-this-run", verdict := if impl == "race" then "bad:data-race" else "na" }
  | _, _ => none

end Drv.C20
