import Driver.Common
import LalModel.Model.Rtp
import LalModel.Model.RtpUnpack
import LalModel.Model.Seq16
import LalModel.Spec.RtpSpec
/- Driver handlers for C12: rtp.packnal, rtp.pack, rtp.seqcmp, rtp.parse, rtp.feed -/
open Lal Drv Lal.Rtp Lal.RtpUnpack Lal.RtpSpec

namespace Drv.C12

def kindOf (s : String) : Option Kind :=
  match s with
  | "avc" => some .avc | "hevc" => some .hevc | "aac" => some .aac | "pcm" => some .pcm | "opus" => some .opus
  | _ => none

def showList (l : List Bytes) : String :=
  if l.isEmpty then "none" else String.intercalate "," (l.map Hex.ofBytes)

def parseList (s : String) : List Bytes :=
  if s == "none" then [] else (splitOnChar s ',').map hex!

def isVideo : Kind → Bool
  | .avc | .hevc => true
  | _ => false

/-- The unit a sender may hand to the packer, i.e. the guard of the C12 theorems. -/
def unitWF (k : Kind) (u : Bytes) (max : Nat) : Bool :=
  match k with
  | .avc =>
    match u with
    | [] => false
    | h :: _ => h.toNat < 128 && (if u.length ≤ max then 1 ≤ h.toNat % 32 && h.toNat % 32 ≤ 23 else 2 < max)
  | .hevc =>
    match u with
    | h :: _ :: _ => if u.length ≤ max then h.toNat / 2 % 64 < 48 else 3 < max
    | _ => false
  | .aac => 0 < u.length && u.length < 8192 && 0 < max
  | _ => 0 < u.length && 0 < max

/-- the RFC reference depacketiser of a kind, on the payloads of consecutive packets -/
def specDepack : Kind → List Bytes → Option (List Bytes)
  | .avc, ps => RtpSpec.depack6184 ps
  | .hevc, ps => RtpSpec.depack7798 ps
  | .aac, ps => RtpSpec.depack3640 ps
  | _, ps => some ps

def showUnits (us : List AvPacket) : String :=
  if us.isEmpty then "none" else String.intercalate "," (us.map fun u => s!"{u.ts}:{Hex.ofBytes u.payload}")

def parseUnits (s : String) : List (Nat × Bytes) :=
  if s == "none" then [] else
  (splitOnChar s ',').map fun u =>
    match splitOnChar u ':' with
    | [a, b] => (nat! a, hex! b)
    | _ => (0, [])

/-- frames argument `ms:hex;ms:hex` -/
def parseFrames (s : String) : List (Nat × Bytes) :=
  (splitOnChar s ';').map fun u =>
    match splitOnChar u ':' with
    | [a, b] => (nat! a, hex! b)
    | _ => (0, [])

def packFrames (k : Kind) (pt ssrc rate max : Nat) (seq : Nat) (fs : List (Nat × Bytes)) : GoM (List (List RtpPacket)) :=
  packerPackAll k rate ssrc max pt seq fs

def showFrames (fs : List (List RtpPacket)) : String :=
  String.intercalate ";" (fs.map fun ps => showList (ps.map (·.raw)))

/-- oracle of `rtp.pack`: RFC 3550 reader + RFC depacketiser on the implementation's packets -/
def checkFrames (k : Kind) (pt ssrc rate max : Nat) : Nat → List (Nat × Bytes) → List (List Bytes) → String
  | _, [], [] => "ok"
  | seq, (ms, f) :: rest, raws :: more =>
    match raws.mapM RtpSpec.parse with
    | none => "bad:rfc3550-reader-rejects"
    | some ps =>
      let n := ps.length
      if n = 0 then "bad:no-packet-for-frame" else
      let idx := List.range n
      if !(idx.zip ps).all (fun (i, p) => p.seq == (seq + i) % 65536) then "bad:seq-not-successor"
      else if !(idx.zip ps).all (fun (i, p) => p.marker == (i + 1 == n)) then "bad:marker-not-only-on-last"
      else if !ps.all (fun p => p.ts == ms * rate / 1000 % 4294967296) then "bad:timestamp-not-media-time"
      else if !ps.all (fun p => p.pt == pt && p.ssrc == ssrc && p.csrc.isEmpty) then "bad:header-field"
      else if isVideo k && !ps.all (fun p => p.payload.length ≤ max) then "bad:payload-over-limit"
      else if specDepack k (ps.map (·.payload)) != some [f] then "bad:rfc-depacketiser-differs"
      else checkFrames k pt ssrc rate max ((seq + n) % 65536) rest more
  | _, _, _ => "bad:frame-count"

/-- unit lengths from the marker bits of the in-order packets -/
def unitLens : Nat → List RtpPacket → List Nat
  | n, [] => if n = 0 then [] else [n]
  | n, p :: ps => if p.hdr.mark = 1 then (n + 1) :: unitLens 0 ps else unitLens (n + 1) ps

def feedOut (k : Kind) (rate listMax : Nat) (pkts : List RtpPacket) : GoM (List AvPacket) :=
  match feedAll (protoOf k rate) { maxSize := listMax } pkts with
  | .ok (_, o) => .ok o
  | .error e => .error e

def consecutive (seq0 : Nat) (pkts : List RtpPacket) : Bool :=
  ((List.range pkts.length).zip pkts).all fun (i, p) => p.hdr.seq == (seq0 + i) % 65536

def handleC12 : Handler := fun comp a impl =>
  match comp, a with
  | "rtp.packnal", [k, max, nal] =>
    match kindOf k with
    | none => none
    | some kd =>
      let mx := nat! max; let n := hex! nal
      let m := outcome showList (payloadPack kd n mx)
      let v :=
        if !unitWF kd n mx then "na"
        else if impl == "panic" || impl == "err" then "bad:packer-failed"
        else
          let ps := parseList impl
          if isVideo kd && !ps.all (fun p => p.length ≤ mx) then "bad:payload-over-limit"
          else if specDepack kd ps != some [n] then "bad:rfc-depacketiser-differs"
          else "ok"
      some { model := m, verdict := v }
  | "rtp.pack", [k, pt, ssrc, rate, seq0, max, frames] =>
    match kindOf k with
    | none => none
    | some kd =>
      let ptn := nat! pt; let ss := nat! ssrc; let rt := nat! rate; let sq := nat! seq0; let mx := nat! max
      let fs := parseFrames frames
      let m := outcome showFrames (packFrames kd ptn ss rt mx sq fs)
      let guard := ptn < 128 && fs.all (fun (ms, f) => unitWF kd f mx && ms * rt < 9007199254740992)
      let v :=
        if !guard then "na"
        else if impl == "panic" || impl == "err" then "bad:packer-failed"
        else checkFrames kd ptn ss rt mx sq fs ((splitOnChar impl ';').map parseList)
      some { model := m, verdict := v }
  | "rtp.seqcmp", [x, y] =>
    let xa := nat! x; let yb := nat! y
    let c := Seq16.compareSeq xa yb
    let d : Int := ((xa : Int) - yb + 32768) % 65536 - 32768
    let v :=
      if d = -32768 then "na"                       -- exactly half the ring apart: no order is defined (RFC 1982)
      else if (impl.splitOn " ").headD "" == toString (if d = 0 then (0 : Int) else if d > 0 then 1 else -1) then "ok"
      else "bad:not-the-sign-of-the-wrapped-difference"
    some { model := s!"{c} {Seq16.subSeq xa yb}", verdict := v }
  | "rtp.parse", [b] =>
    let bb := hex! b
    match parseRtpPacket bb with
    | .error _ => some { model := "err" }
    | .ok p =>
      let h := p.hdr
      let cs := if h.csrc.isEmpty then "-" else String.intercalate "," (h.csrc.map toString)
      let body := outcome Hex.ofBytes p.body
      some { model := s!"ok {h.version} {h.padding} {h.extension} {h.csrcCount} {h.mark} {h.packetType} {h.seq} {h.timestamp} {h.ssrc} {cs} {h.extensionProfile} {Hex.ofBytes h.extensions} {h.payloadOffset} {h.paddingLength} {body}" }
  | "rtp.feed", [k, rate, listMax, order, pkts] =>
    match kindOf k with
    | none => none
    | some kd =>
      let rt := nat! rate; let lm := nat! listMax
      let ps := (parseList pkts).filterMap fun b => match parseRtpPacket b with | .ok p => some p | .error _ => none
      if order == "-" then
        some { model := outcome showUnits (feedOut kd rt lm ps) }
      else
        let ord := (splitOnChar order '.').map nat!
        let perm := ord.filterMap fun i => ps[i]?
        let mo := match feedOut kd rt lm perm, feedOut kd rt lm ps with
          | .ok a, .ok b => showUnits a ++ " ; " ++ showUnits b
          | _, _ => "panic"
        let n := ps.length
        let lens := unitLens 0 ps
        let guard := rt ≥ 1000 && n ≤ 32768 && n > 0 && ord.all (· < n) && (List.range n).all (ord.contains ·)
          && consecutive ((ps.headD default).hdr.seq) ps
          && inWindow lm lens 0 [] ord && inWindow lm lens 0 [] (List.range n)
        let v :=
          if !guard then "na" else
          match impl.splitOn " ; " with
          | [a, b] =>
            if a != b then
              (if ord.headD 0 != 0 then "bad:first-arrival-not-first-packet" else "bad:reorder-changes-output")
            else
              -- lal's depacketiser against the RFC reference on the same packets
              let want := match specDepack kd (ps.filterMap fun p => match p.body with | .ok b => some b | .error _ => none) with
                | none => none
                | some us => some (if isVideo kd then us.map (fun u => be32 u.length ++ u) else us)
              if want == some ((parseUnits b).map (·.2)) then "ok" else "bad:lal-unpacker-differs-from-rfc-reference"
          | _ => "bad:feed-failed"
        some { model := mo, verdict := v }
  | _, _ => none

end Drv.C12
