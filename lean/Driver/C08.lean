import Driver.Common
import LalModel.Model.Chunk
import LalModel.Spec.ChunkSpec
/- Driver handlers for C08: chunk.enc, chunk.dec, chunk.rt, chunk.legal -/
open Lal Drv

namespace Drv.C08
open Lal.Chunk

def parseMsg (s : String) : Msg :=
  match splitOnChar s ':' with
  | [c, t, i, l, ts, p] =>
    { hdr := { csid := nat! c, typ := nat! t, msid := nat! i, msgLen := nat! l, ts := nat! ts }, payload := hex! p }
  | _ => { hdr := {}, payload := [] }

def parseHdr (s : String) : Option Header :=
  if s == "-" then none else
  match splitOnChar s ':' with
  | [c, t, i, l, ts] => some { csid := nat! c, typ := nat! t, msid := nat! i, msgLen := nat! l, ts := nat! ts }
  | _ => none

def parseMsgs (s : String) : List Msg :=
  if s == "-" then [] else (splitOnChar s ',').map parseMsg

def showMsg (m : Msg) : String :=
  s!"{m.hdr.csid}:{m.hdr.typ}:{m.hdr.msid}:{m.hdr.msgLen}:{m.hdr.ts}:{Hex.ofBytes m.payload}"

def showMsgs (ms : List Msg) : String :=
  if ms.isEmpty then "-" else String.intercalate "," (ms.map showMsg)

def showRun (r : Run) : String :=
  showMsgs r.msgs ++ (if r.failed then " fail" else " eof")

def ofSpec (m : ChunkSpec.Message) : Msg :=
  { hdr := { csid := m.csid, typ := m.typ, msid := m.msid, msgLen := m.payload.length, ts := m.ts }, payload := m.payload }

def initC (peer : Nat) : Composer := if peer = 0 then {} else { peerChunkSize := peer }

/-- the messages of a round trip the property speaks about: non-empty payload, header length = payload length -/
def wf (m : Msg) : Bool :=
  m.payload.length ≥ 1 && m.hdr.msgLen == m.payload.length && m.hdr.msgLen < 16777216 && m.hdr.ts < 4294967296
    && m.hdr.csid ≥ 2 && m.hdr.csid ≤ 65599 && m.hdr.typ < 256 && m.hdr.msid < 4294967296

def handleC08 : Handler := fun comp a impl =>
  match comp, a with
  | "chunk.enc", [cs, prev, m] =>
    let msg := parseMsg m
    some { model := Hex.ofBytes (message2Chunks msg.payload msg.hdr (parseHdr prev) (nat! cs)) }
  | "chunk.dec", [peer, b] =>
    some { model := showRun (compose (initC (nat! peer)) (hex! b)) }
  | "chunk.rt", [cs, ms] =>
    let csn := nat! cs
    let msgs := parseMsgs ms
    let bytes := msgs.flatMap fun m => message2Chunks m.payload m.hdr none csn
    let run := compose (initC csn) bytes
    -- oracle on the IMPLEMENTATION's bytes and on what the implementation's reader delivered
    let (implHex, implRun) := match impl.splitOn " ; " with
      | [h, r] => (h, r)
      | _ => ("", "")
    let ib := hex! implHex
    let expect := msgs.filter (fun m => !m.payload.isEmpty)
    let v :=
      if !(msgs.all fun m => wf m || m.payload.isEmpty) then "na" else
      match ChunkSpec.read csn ib with
      | none => "bad:spec-reader-rejects-lal-chunks"
      | some sm =>
        if sm.map ofSpec != expect then "bad:spec-reader-decodes-different-messages"
        else if implRun != showMsgs expect ++ " eof" then "bad:lal-reader-decodes-different-messages"
        else "ok"
    some { model := Hex.ofBytes bytes ++ " ; " ++ showRun run, verdict := v }
  | "chunk.legal", [b, exp] =>
    let bytes := hex! b
    let expect := parseMsgs exp
    let run := compose {} bytes
    let v :=
      match ChunkSpec.read 128 bytes with
      | none => "na:generator-not-legal"
      | some sm =>
        if sm.map ofSpec != expect then "na:generator-not-legal"
        else if impl == showMsgs expect ++ " eof" then "ok" else "bad:lal-reader-differs-on-legal-chunking"
    some { model := showRun run, verdict := v }
  | _, _ => none

end Drv.C08
